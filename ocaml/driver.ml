(* driver.ml — runs the extracted models on scripts read from stdin; prints canonical traces.
   Script stream:  "=== <id> <engine> [args]" starts a script; following lines are its operations. *)
open Model
open Io

let pr = print_string
let out_line s = pr s; pr "\n"

(* ---------------- cache engine ---------------- *)
let cop_of_line l =
  match words l with
  | ["ADD"; r; j] -> CAdd (record_of_tok r, z_of_int (int_of_string j))
  | ["ADV"; t] -> CAdv (z_of_int (int_of_string t))
  | ["LATE"; t] -> CLate (z_of_int (int_of_string t))
  | ["ADVB"; t] -> CAdvB (z_of_int (int_of_string t))
  | ["LOOKUP"; n; ty] -> CLookup (bstr_of_tok n, n_of_int (int_of_string ty))
  | _ -> failwith ("cache op: " ^ l)

let print_cout = function
  | OSig (t, s, snap) ->
    let (nm, r) = match s with ShouldQuery r -> ("shouldQuery", r) | Expired r -> ("recordExpired", r) in
    out_line (Printf.sprintf "%d SIG %s %s [%s]" (int_of_z t) nm (tok_of_record r) (tok_of_list tok_of_record snap))
  | OLookup rs -> out_line (Printf.sprintf "LOOKUP [%s]" (tok_of_list tok_of_record rs))

let run_cache lines =
  let ops = List.map cop_of_line lines in
  List.iter (fun g -> List.iter print_cout g; out_line ".") (crun_g (Z0, empty_cache) ops)

(* parse an output line of the cache engine (model or implementation) *)
let strip_brackets s =
  let n = String.length s in
  if n >= 2 && s.[0] = '[' && s.[n-1] = ']' then String.sub s 1 (n - 2) else failwith ("brackets: " ^ s)
let cout_of_line l =
  match words l with
  | [t; "SIG"; nm; r; snap] ->
    let r = record_of_tok r in
    let sg = if nm = "shouldQuery" then ShouldQuery r else if nm = "recordExpired" then Expired r else failwith ("signal " ^ nm) in
    OSig (z_of_int (int_of_string t), sg, list_of_tok record_of_tok (strip_brackets snap))
  | ["LOOKUP"; rs] -> OLookup (list_of_tok record_of_tok (strip_brackets rs))
  | _ -> failwith ("cache output: " ^ l)

(* monitor input: "> op" lines each followed by the "< output" lines observed for it *)
let group_trace parse_op parse_out lines =
  let ops = ref [] and cur = ref None in
  let flush () = match !cur with None -> () | Some (o, outs) -> ops := (o, List.rev outs) :: !ops in
  List.iter (fun l ->
    if String.length l >= 2 && l.[0] = '>' then begin
      flush (); cur := Some (parse_op (String.sub l 2 (String.length l - 2)), [])
    end else if String.length l >= 2 && l.[0] = '<' then begin
      match !cur with
      | Some (o, outs) -> cur := Some (o, parse_out (String.sub l 2 (String.length l - 2)) :: outs)
      | None -> failwith "output before any operation"
    end else failwith ("trace line: " ^ l)) lines;
  flush ();
  List.rev !ops

let print_verdict = function
  | None -> out_line "ACCEPT"
  | Some (k, c) -> out_line (Printf.sprintf "REJECT op=%d code=%d" (int_of_n k) (int_of_n c))

let run_mon_cache lines =
  let tr = group_trace cop_of_line cout_of_line lines in
  print_verdict (mon_cache (List.map fst tr) (List.map snd tr))

(* ---------------- codec engine ---------------- *)
let mem_of_array (a : n array) : n -> n = fun i -> let k = int_of_n i in if k < Array.length a then a.(k) else N0
let print_res pr = function
  | Ok a -> out_line ("OK " ^ pr a)
  | Fail -> out_line "FAIL"
  | Fault -> out_line "FAULT model-read-out-of-bounds"
  | OutOfFuel -> out_line "OUTOFFUEL"

let run_codec lines =
  List.iter (fun l ->
    (match words l with
     | ["ENC"; m] -> out_line ("BYTES " ^ tok_of_bytes (to_packet (message_of_tok m)))
     | ["DEC"; h] ->
       let p = Array.of_list (bytes_of_tok h) in
       let len = n_of_int (Array.length p) and fuel = nat_of_int (Array.length p + 1) in
       print_res tok_of_message (from_packet (mem_of_array p) len fuel)
     | ["PNAME"; h; off] ->
       let p = Array.of_list (bytes_of_tok h) in
       let len = n_of_int (Array.length p) and fuel = nat_of_int (Array.length p + 1) in
       print_res (fun (nm, o) -> tok_of_bstr nm ^ " " ^ string_of_int (int_of_n o))
         (parse_name (mem_of_array p) len fuel (n_of_int (int_of_string off)) None)
     | ["PREC"; h; off] ->
       let p = Array.of_list (bytes_of_tok h) in
       let len = n_of_int (Array.length p) and fuel = nat_of_int (Array.length p + 1) in
       print_res (fun (r, o) -> tok_of_record r ^ " " ^ string_of_int (int_of_n o))
         (parse_record (mem_of_array p) len fuel (n_of_int (int_of_string off)) default_record)
     | _ -> failwith ("codec op: " ^ l));
    out_line ".") lines

(* ---------------- actor engines (virtual-time kernel) ---------------- *)
let sig_name c = match int_of_n c with
  | 1 -> "nameConfirmed" | 2 -> "hostnameChanged" | 3 -> "serviceAdded" | 4 -> "serviceUpdated"
  | 5 -> "serviceRemoved" | 6 -> "resolved" | k -> "sig" ^ string_of_int k
let sig_code = function
  | "nameConfirmed" -> 1 | "hostnameChanged" -> 2 | "serviceAdded" -> 3 | "serviceUpdated" -> 4
  | "serviceRemoved" -> 5 | "resolved" -> 6 | s -> failwith ("signal " ^ s)
let tok_of_payload = function
  | PNone -> "-" | PBytes b -> tok_of_bstr b | PService s -> tok_of_service s | PAddr a -> tok_of_addr a
  | PRecord r -> tok_of_record r
let payload_of_tok code s = match code with
  | 1 | 2 -> PBytes (bstr_of_tok s) | 3 | 4 | 5 -> PService (service_of_tok s) | 6 -> PAddr (addr_of_tok s)
  | _ -> PNone

let print_out = function
  | OSend (t, m) -> out_line (Printf.sprintf "%d SEND %s" (int_of_z t) (tok_of_message m))
  | OSendAll (t, m) -> out_line (Printf.sprintf "%d SENDALL %s" (int_of_z t) (tok_of_message m))
  | OSignal (t, ob, sg, p) ->
      out_line (Printf.sprintf "%d SIG %d %s %s" (int_of_z t) (int_of_n ob) (sig_name sg) (tok_of_payload p));
      (* the model's registration handler sets the flag and the name before it notifies: inside the slot the object
         reports itself registered under the announced name *)
      if sig_name sg = "hostnameChanged" then out_line (Printf.sprintf "OBS %d 1 %s" (int_of_n ob) (tok_of_payload p))
  | OPoll (ob, f, b) -> out_line (Printf.sprintf "POLL %d %s %s" (int_of_n ob) (tok_of_bool f) (tok_of_bstr b))
  | OLook rs -> out_line (Printf.sprintf "LOOKUP [%s]" (tok_of_list tok_of_record rs))
  | OOutOfFuel -> out_line "OUTOFFUEL"
let out_of_line l =
  match words l with
  | [t; "SEND"; m] -> OSend (z_of_int (int_of_string t), message_of_tok m)
  | [t; "SENDALL"; m] -> OSendAll (z_of_int (int_of_string t), message_of_tok m)
  | [t; "SIG"; ob; nm; p] -> let c = sig_code nm in
    OSignal (z_of_int (int_of_string t), n_of_int (int_of_string ob), n_of_int c, payload_of_tok c p)
  | ["POLL"; ob; f; b] -> OPoll (n_of_int (int_of_string ob), bool_of_tok f, bstr_of_tok b)
  | ["OUTOFFUEL"] -> OOutOfFuel
  | ["LOOKUP"; rs] -> OLook (list_of_tok record_of_tok (strip_brackets rs))
  | _ -> failwith ("actor output: " ^ l)
let print_groups gs = List.iter (fun g -> List.iter print_out g; out_line ".") gs

let fuel_actor = nat_of_int 200000

(* common operations; [api] parses the engine-specific ones *)
let aop_of_line api l =
  match words l with
  | ["DELIVER"; m] -> ADeliver (message_of_tok m)
  | ["ADV"; t] -> AAdv (z_of_int (int_of_string t))
  | ["ADVB"; t] -> AAdvB (z_of_int (int_of_string t))
  | ["LATE"; t] -> ALate (z_of_int (int_of_string t))
  | ws -> AApi (api ws l)

let no_api _ l = failwith ("operation: " ^ l)

(* prober: first line "NEW 0 prober <record>" *)
let prober_split lines =
  match lines with
  | first :: rest ->
    (match words first with
     | ["NEW"; _; "prober"; r] -> (record_of_tok r, List.map (aop_of_line no_api) rest)
     | _ -> failwith "prober script must start with NEW <obj> prober <record>")
  | [] -> failwith "empty prober script"
let run_prober lines =
  let (r, ops) = prober_split lines in
  print_groups (prober_run fuel_actor r ops); out_line "."

(* monitor trace for actor engines: "> op" / "< output" lines; the first op is the NEW line *)
let run_mon_prober lines =
  let tr = group_trace (fun s -> s) out_of_line lines in
  match tr with
  | (first, o0) :: rest ->
    (match words first with
     | ["NEW"; _; "prober"; r] ->
       let rest = List.filter (fun (s, _) -> s <> "END") rest in
       let ops = List.map (fun (s, _) -> aop_of_line no_api s) rest in
       print_verdict (mon_prober (record_of_tok r) ops (o0 :: List.map snd rest))
     | _ -> failwith "mon-prober: first operation must be NEW")
  | [] -> failwith "mon-prober: empty"

(* hostname: args = [ifaces token]; lines "HOSTNAME <hex>", "NEW 0 hostname", then operations *)
let ifaces_of_tok s =
  if s = "-" then [] else
  List.map (fun i -> if i = "_" then [] else
    List.map (fun e -> match split_on '/' e with
      | [a; p] -> (addr_of_tok a, z_of_int (int_of_string p))
      | _ -> failwith ("iface entry: " ^ e)) (split_on ',' i)) (split_on ';' s)
let hostname_split lines =
  match lines with
  | l1 :: l2 :: rest ->
    (match words l1, words l2 with
     | ["HOSTNAME"; h], ["NEW"; _; "hostname"] -> (bytes_of_tok h, rest)
     | _ -> failwith "hostname script must start with HOSTNAME <hex> / NEW <obj> hostname")
  | _ -> failwith "short hostname script"
let run_hostname args lines =
  let ifs = ifaces_of_tok (match args with a :: _ -> a | _ -> "-") in
  let (local, rest) = hostname_split lines in
  match host_run fuel_actor local ifs (List.map (aop_of_line no_api) rest) with
  | g0 :: gs -> out_line "."; print_groups (g0 :: gs); out_line "."
  | [] -> ()
let run_mon_hostname args lines =
  let ifs = ifaces_of_tok (match args with a :: _ -> a | _ -> "-") in
  let tr = group_trace (fun s -> s) out_of_line lines in
  match tr with
  | (l1, _) :: (_, o0) :: rest ->
    (match words l1 with
     | ["HOSTNAME"; h] ->
       let rest = List.filter (fun (s, _) -> s <> "END") rest in
       print_verdict (mon_hostname (bytes_of_tok h) ifs (List.map (fun (s, _) -> aop_of_line no_api s) rest) (o0 :: List.map snd rest))
     | _ -> failwith "mon-hostname: first operation must be HOSTNAME")
  | _ -> failwith "mon-hostname: short trace"

(* resolver: NEW c cache / CADD c rec j / NEW 0 resolver name c|- / JITTER j / CLOOKUP c name type *)
let resolver_api ws l =
  match ws with
  | ["NEW"; _; "cache"] -> RNop
  | ["CADD"; _; r; j] -> RCadd (record_of_tok r, z_of_int (int_of_string j))
  | ["NEW"; _; "resolver"; name; _] -> RNew (bstr_of_tok name)
  | ["JITTER"; j] -> RJitter (z_of_int (int_of_string j))
  | ["CLOOKUP"; _; n; ty] -> RLookup (bstr_of_tok n, n_of_int (int_of_string ty))
  | _ -> failwith ("resolver operation: " ^ l)
let run_resolver lines =
  print_groups (res_run fuel_actor (List.map (aop_of_line resolver_api) lines)); out_line "."
let run_mon_resolver lines =
  let tr = List.filter (fun (s, _) -> s <> "END") (group_trace (fun s -> s) out_of_line lines) in
  print_verdict (mon_resolver (List.map (fun (s, _) -> aop_of_line resolver_api s) tr) (List.map snd tr))

(* provider composite: HOSTNAME h / NEW 0 hostname / NEW 1 provider 0 / UPDATE 1 svc / DEL 1 / DELIVER / ADV ... *)
let provider_api ws l =
  match ws with
  | ["NEW"; _; "provider"; _] -> PNewProv
  | ["UPDATE"; _; s] -> PUpdate (service_of_tok s)
  | ["DEL"; _] -> PDestroy
  | _ -> failwith ("provider operation: " ^ l)
let is_poll = function OPoll _ -> true | _ -> false
let run_provider args lines =
  let ifs = ifaces_of_tok (match args with a :: _ -> a | _ -> "-") in
  let (local, rest) = hostname_split lines in
  let ops = List.map (aop_of_line provider_api) rest @ [AApi PDestroy] in
  match comp_run fuel_actor local ifs ops with
  | g0 :: gs ->
    out_line ".";
    let n = List.length gs in
    let gs = List.mapi (fun i g -> if i = n - 1 then List.filter (fun o -> not (is_poll o)) g else g) gs in
    print_groups (g0 :: gs)
  | [] -> ()

let run_mon_provider args lines =
  let tr = group_trace (fun s -> s) out_of_line lines in
  match tr with
  | (l1, _) :: (_, o0) :: rest ->
    (match words l1 with
     | ["HOSTNAME"; _] ->
       let rest = List.filter (fun (s, _) -> s <> "END") rest in
       let focus = match args with _ :: f :: _ -> int_of_string f | _ -> 0 in
       print_verdict (mon_provider (n_of_int focus) (List.map (fun (s, _) -> aop_of_line provider_api s) rest) (o0 :: List.map snd rest))
     | _ -> failwith "mon-provider: first operation must be HOSTNAME")
  | _ -> failwith "mon-provider: short trace"

(* browsers: NEW c<k> cache / NEW <j> browser <type> <c<k>|-> / CADD c<k> rec j / CLOOKUP c<k> name type / JITTER j *)
let browser_ops lines =
  let ncaches = ref 0 and names = Hashtbl.create 7 in
  let idx c = try Hashtbl.find names c with Not_found -> failwith ("unknown cache " ^ c) in
  let api ws l =
    match ws with
    | ["NEW"; c; "cache"] -> Hashtbl.replace names c !ncaches; incr ncaches; BNewCache
    | ["NEW"; _; "browser"; ty; c] ->
      if c = "-" then (incr ncaches; BNewBrowser (bstr_of_tok ty, None))
      else BNewBrowser (bstr_of_tok ty, Some (nat_of_int (idx c)))
    | ["JITTER"; j] -> BJitter (z_of_int (int_of_string j))
    | ["CADD"; c; r; j] -> BCadd (nat_of_int (idx c), record_of_tok r, z_of_int (int_of_string j))
    | ["CLOOKUP"; c; n; ty] -> BLookup (nat_of_int (idx c), bstr_of_tok n, n_of_int (int_of_string ty))
    | _ -> failwith ("browser operation: " ^ l) in
  List.map (aop_of_line api) lines
let run_browser lines = print_groups (world_run fuel_actor (browser_ops lines)); out_line "."

let run_mon_browser args lines =
  let tr = List.filter (fun (s, _) -> s <> "END") (group_trace (fun s -> s) out_of_line lines) in
  let focus = match args with f :: _ -> int_of_string f | _ -> 0 in
  print_verdict (mon_browser (n_of_int focus) (browser_ops (List.map fst tr)) (List.map snd tr))

(* values: programs over variables *)
let values_ops lines =
  let names = Hashtbl.create 7 and n = ref 0 in
  let var v = (try Hashtbl.find names v with Not_found -> (Hashtbl.replace names v !n; incr n; !n - 1)) in
  let nv v = nat_of_int (var v) in
  List.map (fun l -> match words l with
    | ["NEW"; v; k] -> VNew (nv v, (match k with "bitmap" -> KBitmap | "record" -> KRecord | "message" -> KMessage
                                              | "query" -> KQuery | "service" -> KService | _ -> failwith ("class " ^ k)))
    | ["COPY"; v; w] -> VCopy (nv v, nv w)
    | ["ASSIGN"; v; w] -> VAssign (nv v, nv w)
    | ["SETBYTES"; v; h] -> VSetBytes (nv v, bytes_of_tok h)
    | ["SETSELF"; v; k] -> VSetSelf (nv v, n_of_int (int_of_string k))
    | ["SETREC"; v; r] -> VSetRecord (nv v, record_of_tok r)
    | ["SETMSG"; v; m] -> VSetMessage (nv v, message_of_tok m)
    | ["SETQRY"; v; q] -> VSetQuery (nv v, query_of_tok q)
    | ["SETSVC"; v; s] -> VSetService (nv v, service_of_tok s)
    | ["EQ"; v; w] -> VEq (nv v, nv w)
    | ["GET"; v] -> VGet (nv v)
    | ["DEL"; v] -> VDel (nv v)
    | _ -> failwith ("values op: " ^ l)) lines
let print_vout = function
  | VOEq b -> out_line ("EQ " ^ tok_of_bool b)
  | VOVal (PBitmap b) -> out_line ("VAL bitmap " ^ tok_of_bytes b)
  | VOVal (PRecordV r) -> out_line ("VAL record " ^ tok_of_record r)
  | VOVal (PMessage m) -> out_line ("VAL message " ^ tok_of_message m)
  | VOVal (PQuery q) -> out_line ("VAL query " ^ tok_of_query q)
  | VOVal (PServiceV s) -> out_line ("VAL service " ^ tok_of_service s)
  | VONone -> ()
  | VOError -> out_line "ERR"
let run_values lines =
  let ops = values_ops lines in
  (match values_run ops with
   | Ok outs -> List.iter (fun o -> print_vout o; out_line ".") outs
   | Fault -> out_line "FAULT model-heap (read or free of a block that is not live)"
   | _ -> out_line "ERROR values");
  ()
let run_values_pure lines = List.iter (fun o -> print_vout o; out_line ".") (values_pure (values_ops lines))

(* ---------------- main ---------------- *)
let engines : (string * (string list -> string list -> unit)) list ref = ref []
let register name f = engines := (name, f) :: !engines

let () =
  register "cache" (fun _ lines -> run_cache lines);
  register "mon-cache" (fun _ lines -> run_mon_cache lines);
  register "codec" (fun _ lines -> run_codec lines);
  register "prober" (fun _ lines -> run_prober lines);
  register "mon-prober" (fun _ lines -> run_mon_prober lines);
  register "hostname" run_hostname;
  register "mon-hostname" run_mon_hostname;
  register "resolver" (fun _ lines -> run_resolver lines);
  register "provider" run_provider;
  register "browser" (fun _ lines -> run_browser lines);
  register "values" (fun _ lines -> run_values lines);
  register "values-pure" (fun _ lines -> run_values_pure lines);
  register "mon-browser" run_mon_browser;
  register "mon-provider" run_mon_provider;
  register "mon-resolver" (fun _ lines -> run_mon_resolver lines)

let flush_script hdr lines =
  match hdr with
  | None -> ()
  | Some (id, engine, args) ->
    out_line ("=== " ^ id);
    (try (List.assoc engine !engines) args (List.rev lines)
     with Not_found -> out_line ("ERROR unknown engine " ^ engine)
        | Failure m -> out_line ("ERROR " ^ m))

let main () =
  let hdr = ref None and lines = ref [] in
  (try
    while true do
      let l = input_line stdin in
      if String.length l >= 4 && String.sub l 0 4 = "=== " then begin
        flush_script !hdr !lines;
        (match words l with
         | _ :: id :: engine :: args -> hdr := Some (id, engine, args)
         | _ -> failwith "bad header");
        lines := []
      end else if l <> "" && l.[0] <> '#' then lines := l :: !lines
    done
  with End_of_file -> ());
  flush_script !hdr !lines
