(* driver.ml — runs the extracted models on scripts read from stdin; prints canonical traces.
   Script stream:  "=== <id> <engine> [args]" starts a script; following lines are its operations. *)
open Model
open Io

let pr = print_string
let out_line s = pr s; pr "\n"

(* ---------------- cache engine ---------------- *)
let cop_of_line l =
  match words l with
  | ["ADD"; r; j] -> CAdd (record_of_tok r, z_of_int (int_of_string j))
  | ["ADV"; t] -> CAdv (z_of_int (int_of_string t))
  | ["LATE"; t] -> CLate (z_of_int (int_of_string t))
  | ["LOOKUP"; n; ty] -> CLookup (bstr_of_tok n, n_of_int (int_of_string ty))
  | _ -> failwith ("cache op: " ^ l)

let print_cout = function
  | OSig (t, s, snap) ->
    let (nm, r) = match s with ShouldQuery r -> ("shouldQuery", r) | Expired r -> ("recordExpired", r) in
    out_line (Printf.sprintf "%d SIG %s %s [%s]" (int_of_z t) nm (tok_of_record r) (tok_of_list tok_of_record snap))
  | OLookup rs -> out_line (Printf.sprintf "LOOKUP [%s]" (tok_of_list tok_of_record rs))

let run_cache lines =
  let ops = List.map cop_of_line lines in
  List.iter (fun g -> List.iter print_cout g; out_line ".") (crun_g (Z0, empty_cache) ops)

(* parse an output line of the cache engine (model or implementation) *)
let strip_brackets s =
  let n = String.length s in
  if n >= 2 && s.[0] = '[' && s.[n-1] = ']' then String.sub s 1 (n - 2) else failwith ("brackets: " ^ s)
let cout_of_line l =
  match words l with
  | [t; "SIG"; nm; r; snap] ->
    let r = record_of_tok r in
    let sg = if nm = "shouldQuery" then ShouldQuery r else if nm = "recordExpired" then Expired r else failwith ("signal " ^ nm) in
    OSig (z_of_int (int_of_string t), sg, list_of_tok record_of_tok (strip_brackets snap))
  | ["LOOKUP"; rs] -> OLookup (list_of_tok record_of_tok (strip_brackets rs))
  | _ -> failwith ("cache output: " ^ l)

(* monitor input: "> op" lines each followed by the "< output" lines observed for it *)
let group_trace parse_op parse_out lines =
  let ops = ref [] and cur = ref None in
  let flush () = match !cur with None -> () | Some (o, outs) -> ops := (o, List.rev outs) :: !ops in
  List.iter (fun l ->
    if String.length l >= 2 && l.[0] = '>' then begin
      flush (); cur := Some (parse_op (String.sub l 2 (String.length l - 2)), [])
    end else if String.length l >= 2 && l.[0] = '<' then begin
      match !cur with
      | Some (o, outs) -> cur := Some (o, parse_out (String.sub l 2 (String.length l - 2)) :: outs)
      | None -> failwith "output before any operation"
    end else failwith ("trace line: " ^ l)) lines;
  flush ();
  List.rev !ops

let print_verdict = function
  | None -> out_line "ACCEPT"
  | Some (k, c) -> out_line (Printf.sprintf "REJECT op=%d code=%d" (int_of_n k) (int_of_n c))

let run_mon_cache lines =
  let tr = group_trace cop_of_line cout_of_line lines in
  print_verdict (mon_cache (List.map fst tr) (List.map snd tr))

(* ---------------- codec engine ---------------- *)
let mem_of_array (a : n array) : n -> n = fun i -> let k = int_of_n i in if k < Array.length a then a.(k) else N0
let print_res pr = function
  | Ok a -> out_line ("OK " ^ pr a)
  | Fail -> out_line "FAIL"
  | Fault -> out_line "FAULT model-read-out-of-bounds"
  | OutOfFuel -> out_line "OUTOFFUEL"

let run_codec lines =
  List.iter (fun l ->
    (match words l with
     | ["ENC"; m] -> out_line ("BYTES " ^ tok_of_bytes (to_packet (message_of_tok m)))
     | ["DEC"; h] ->
       let p = Array.of_list (bytes_of_tok h) in
       let len = n_of_int (Array.length p) and fuel = nat_of_int (Array.length p + 1) in
       print_res tok_of_message (from_packet (mem_of_array p) len fuel)
     | ["PNAME"; h; off] ->
       let p = Array.of_list (bytes_of_tok h) in
       let len = n_of_int (Array.length p) and fuel = nat_of_int (Array.length p + 1) in
       print_res (fun (nm, o) -> tok_of_bstr nm ^ " " ^ string_of_int (int_of_n o))
         (parse_name (mem_of_array p) len fuel (n_of_int (int_of_string off)) None)
     | ["PREC"; h; off] ->
       let p = Array.of_list (bytes_of_tok h) in
       let len = n_of_int (Array.length p) and fuel = nat_of_int (Array.length p + 1) in
       print_res (fun (r, o) -> tok_of_record r ^ " " ^ string_of_int (int_of_n o))
         (parse_record (mem_of_array p) len fuel (n_of_int (int_of_string off)) default_record)
     | _ -> failwith ("codec op: " ^ l));
    out_line ".") lines

(* ---------------- main ---------------- *)
let engines : (string * (string list -> string list -> unit)) list ref = ref []
let register name f = engines := (name, f) :: !engines

let () =
  register "cache" (fun _ lines -> run_cache lines);
  register "mon-cache" (fun _ lines -> run_mon_cache lines);
  register "codec" (fun _ lines -> run_codec lines)

let flush_script hdr lines =
  match hdr with
  | None -> ()
  | Some (id, engine, args) ->
    out_line ("=== " ^ id);
    (try (List.assoc engine !engines) args (List.rev lines)
     with Not_found -> out_line ("ERROR unknown engine " ^ engine)
        | Failure m -> out_line ("ERROR " ^ m))

let main () =
  let hdr = ref None and lines = ref [] in
  (try
    while true do
      let l = input_line stdin in
      if String.length l >= 4 && String.sub l 0 4 = "=== " then begin
        flush_script !hdr !lines;
        (match words l with
         | _ :: id :: engine :: args -> hdr := Some (id, engine, args)
         | _ -> failwith "bad header");
        lines := []
      end else if l <> "" && l.[0] <> '#' then lines := l :: !lines
    done
  with End_of_file -> ());
  flush_script !hdr !lines
