(* driver.ml — runs the extracted models on scripts read from stdin; prints canonical traces.
   Script stream:  "=== <id> <engine> [args]" starts a script; following lines are its operations. *)
open Model
open Io

let pr = print_string
let out_line s = pr s; pr "\n"

(* ---------------- cache engine ---------------- *)
let cop_of_line l =
  match words l with
  | ["ADD"; r; j] -> CAdd (record_of_tok r, z_of_int (int_of_string j))
  | ["ADV"; t] -> CAdv (z_of_int (int_of_string t))
  | ["LATE"; t] -> CLate (z_of_int (int_of_string t))
  | ["LOOKUP"; n; ty] -> CLookup (bstr_of_tok n, n_of_int (int_of_string ty))
  | _ -> failwith ("cache op: " ^ l)

let print_cout = function
  | OSig (t, s, snap) ->
    let (nm, r) = match s with ShouldQuery r -> ("shouldQuery", r) | Expired r -> ("recordExpired", r) in
    out_line (Printf.sprintf "%d SIG %s %s [%s]" (int_of_z t) nm (tok_of_record r) (tok_of_list tok_of_record snap))
  | OLookup rs -> out_line (Printf.sprintf "LOOKUP [%s]" (tok_of_list tok_of_record rs))

let run_cache lines =
  let ops = List.map cop_of_line lines in
  List.iter print_cout (crun (Z0, empty_cache) ops)

(* ---------------- main ---------------- *)
let engines : (string * (string list -> string list -> unit)) list ref = ref []
let register name f = engines := (name, f) :: !engines

let () =
  register "cache" (fun _ lines -> run_cache lines)

let flush_script hdr lines =
  match hdr with
  | None -> ()
  | Some (id, engine, args) ->
    out_line ("=== " ^ id);
    (try (List.assoc engine !engines) args (List.rev lines)
     with Not_found -> out_line ("ERROR unknown engine " ^ engine)
        | Failure m -> out_line ("ERROR " ^ m))

let main () =
  let hdr = ref None and lines = ref [] in
  (try
    while true do
      let l = input_line stdin in
      if String.length l >= 4 && String.sub l 0 4 = "=== " then begin
        flush_script !hdr !lines;
        (match words l with
         | _ :: id :: engine :: args -> hdr := Some (id, engine, args)
         | _ -> failwith "bad header");
        lines := []
      end else if l <> "" && l.[0] <> '#' then lines := l :: !lines
    done
  with End_of_file -> ());
  flush_script !hdr !lines
