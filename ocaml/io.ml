(* io.ml — text formats shared with the C++ harness (DESIGN.md appendix B) for the extracted types *)
open Model

let rec pos_of_int n = if n = 1 then XH else if n land 1 = 0 then XO (pos_of_int (n lsr 1)) else XI (pos_of_int (n lsr 1))
let n_of_int n = if n = 0 then N0 else if n < 0 then failwith "n_of_int" else Npos (pos_of_int n)
let z_of_int n = if n = 0 then Z0 else if n > 0 then Zpos (pos_of_int n) else Zneg (pos_of_int (-n))
let rec int_of_pos = function XH -> 1 | XO p -> 2 * int_of_pos p | XI p -> 2 * int_of_pos p + 1
let int_of_n = function N0 -> 0 | Npos p -> int_of_pos p
let int_of_z = function Z0 -> 0 | Zpos p -> int_of_pos p | Zneg p -> - (int_of_pos p)
let rec nat_of_int n = if n <= 0 then O else S (nat_of_int (n - 1))
let rec int_of_nat = function O -> 0 | S n -> 1 + int_of_nat n

let split_on c s = String.split_on_char c s
let hexval c = match c with '0'..'9' -> Char.code c - 48 | 'a'..'f' -> Char.code c - 87 | 'A'..'F' -> Char.code c - 55 | _ -> failwith ("hex: " ^ String.make 1 c)
let bytes_of_hex s =
  let n = String.length s / 2 in
  List.init n (fun i -> n_of_int (hexval s.[2*i] * 16 + hexval s.[2*i+1]))
let hex_of_bytes (l : n list) = String.concat "" (List.map (fun b -> Printf.sprintf "%02x" (int_of_n b)) l)

(* byte strings: "-" null, "." empty non-null, hex otherwise *)
let bstr_of_tok s = if s = "-" then None else if s = "." then Some [] else Some (bytes_of_hex s)
let tok_of_bstr = function None -> "-" | Some [] -> "." | Some l -> hex_of_bytes l
let bytes_of_tok s = if s = "." || s = "-" then [] else bytes_of_hex s
let tok_of_bytes l = if l = [] then "." else hex_of_bytes l

let addr_of_tok s =
  if s = "n" then ANull
  else if String.length s > 2 && s.[0] = '4' then A4 (n_of_int (int_of_string (String.sub s 2 (String.length s - 2))))
  else if String.length s > 2 && s.[0] = '6' then A6 (bytes_of_hex (String.sub s 2 (String.length s - 2)))
  else failwith ("addr: " ^ s)
let tok_of_addr = function ANull -> "n" | A4 a -> "4:" ^ string_of_int (int_of_n a) | A6 b -> "6:" ^ hex_of_bytes b

let attrs_of_tok s =
  if s = "_" then [] else
  List.map (fun kv -> match split_on '=' kv with
    | [k; v] -> (bytes_of_tok k, bstr_of_tok v)
    | _ -> failwith ("attr: " ^ kv)) (split_on '+' s)
let tok_of_attrs = function
  | [] -> "_"
  | l -> String.concat "+" (List.map (fun (k, v) -> tok_of_bytes k ^ "=" ^ tok_of_bstr v) l)

let bool_of_tok s = (s = "1")
let tok_of_bool b = if b then "1" else "0"

let record_of_tok s =
  match split_on ',' s with
  | [name; ty; fl; ttl; ad; tg; nx; pr; we; po; at; bm] ->
    { r_name = bstr_of_tok name; r_type = n_of_int (int_of_string ty); r_flush = bool_of_tok fl;
      r_ttl = n_of_int (int_of_string ttl); r_addr = addr_of_tok ad; r_target = bstr_of_tok tg;
      r_next = bstr_of_tok nx; r_prio = n_of_int (int_of_string pr); r_weight = n_of_int (int_of_string we);
      r_port = n_of_int (int_of_string po); r_attrs = attrs_of_tok at; r_bitmap = bytes_of_tok bm }
  | _ -> failwith ("record: " ^ s)
let tok_of_record r =
  String.concat "," [tok_of_bstr r.r_name; string_of_int (int_of_n r.r_type); tok_of_bool r.r_flush;
    string_of_int (int_of_n r.r_ttl); tok_of_addr r.r_addr; tok_of_bstr r.r_target; tok_of_bstr r.r_next;
    string_of_int (int_of_n r.r_prio); string_of_int (int_of_n r.r_weight); string_of_int (int_of_n r.r_port);
    tok_of_attrs r.r_attrs; tok_of_bytes r.r_bitmap]

let query_of_tok s =
  match split_on ',' s with
  | [name; ty; u] -> { q_name = bstr_of_tok name; q_type = n_of_int (int_of_string ty); q_unicast = bool_of_tok u }
  | _ -> failwith ("query: " ^ s)
let tok_of_query q = String.concat "," [tok_of_bstr q.q_name; string_of_int (int_of_n q.q_type); tok_of_bool q.q_unicast]

let list_of_tok f s = if s = "" then [] else List.map f (split_on ';' s)
let tok_of_list f l = String.concat ";" (List.map f l)

(* message: addr|port|id|response|truncated|queries|records *)
let message_of_tok s =
  match split_on '|' s with
  | [ad; po; id; re; tr; qs; rs] ->
    { m_addr = addr_of_tok ad; m_port = n_of_int (int_of_string po); m_id = n_of_int (int_of_string id);
      m_response = bool_of_tok re; m_truncated = bool_of_tok tr;
      m_queries = list_of_tok query_of_tok qs; m_records = list_of_tok record_of_tok rs }
  | _ -> failwith ("message: " ^ s)
let tok_of_message m =
  String.concat "|" [tok_of_addr m.m_addr; string_of_int (int_of_n m.m_port); string_of_int (int_of_n m.m_id);
    tok_of_bool m.m_response; tok_of_bool m.m_truncated; tok_of_list tok_of_query m.m_queries;
    tok_of_list tok_of_record m.m_records]

(* service: type,name,hostname,port,attrs *)
let service_of_tok s =
  match split_on ',' s with
  | [ty; nm; hn; po; at] -> { s_type = bstr_of_tok ty; s_name = bstr_of_tok nm; s_hostname = bstr_of_tok hn;
                              s_port = n_of_int (int_of_string po); s_attrs = attrs_of_tok at }
  | _ -> failwith ("service: " ^ s)
let tok_of_service s =
  String.concat "," [tok_of_bstr s.s_type; tok_of_bstr s.s_name; tok_of_bstr s.s_hostname;
    string_of_int (int_of_n s.s_port); tok_of_attrs s.s_attrs]

let words s = List.filter (fun w -> w <> "") (split_on ' ' s)
