let () = main ()
