// vtime.cpp — interposed clock, RNG primitive and host name
#include "vtime.h"

#include <QHostInfo>
#include <QRandomGenerator>

#include <cstdlib>
#include <sys/time.h>
#include <time.h>

namespace vt {
int64_t g_now = 0;
int g_jitter = 0;
long g_rng_draws = 0;
QString g_hostname = QStringLiteral("vm");
int g_node = 0;
static Dispatcher *g_disp = nullptr;
Dispatcher *dispatcher()
{
    if (!g_disp) g_disp = new Dispatcher;
    return g_disp;
}
void resetScript()
{
    g_now = 0;
    g_jitter = 0;
    g_rng_draws = 0;
    g_hostname = QStringLiteral("vm");
    g_node = 0;
}
}  // namespace vt

// ---- libc clock: everything Qt reads (QDateTime::currentDateTime, QElapsedTimer, ...) follows g_now
extern "C" int clock_gettime(clockid_t, struct timespec *ts)
{
    int64_t ms = vt::EPOCH_MS + vt::g_now;
    ts->tv_sec = ms / 1000;
    ts->tv_nsec = (ms % 1000) * 1000000L;
    return 0;
}
extern "C" int gettimeofday(struct timeval *tv, void *)
{
    int64_t ms = vt::EPOCH_MS + vt::g_now;
    if (tv) { tv->tv_sec = ms / 1000; tv->tv_usec = (ms % 1000) * 1000L; }
    return 0;
}
extern "C" time_t time(time_t *t)
{
    time_t s = time_t((vt::EPOCH_MS + vt::g_now) / 1000);
    if (t) *t = s;
    return s;
}

// ---- the exported primitive under the inline QRandomGenerator::bounded(): make bounded(20) == g_jitter
void QRandomGenerator::_fillRange(void *buffer, void *bufferEnd)
{
    quint32 *b = static_cast<quint32 *>(buffer), *e = static_cast<quint32 *>(bufferEnd);
    static quint64 bound = 0;
    if (!bound) { const char *e = getenv("VERIF_JITTER_BOUND"); bound = e ? strtoull(e, nullptr, 10) : 20; if (!bound) bound = 20; }
    quint64 v = ((quint64(vt::g_jitter) << 32) + bound - 1) / bound;
    for (; b != e; ++b) *b = quint32(v);
    ++vt::g_rng_draws;
}

// ---- per-node host name
QString QHostInfo::localHostName() { return vt::g_hostname; }
