// eng_cache.cpp — engine "cache": Cache alone under ADD / ADV / ADVB / LATE / LOOKUP
#include "hx.h"

#include <qmdnsengine/cache.h>
#include <qmdnsengine/dns.h>

using namespace QMdnsEngine;

static std::string snapshot(Cache &c)
{
    QList<Record> all;
    c.lookupRecords(QByteArray(), ANY, all);
    return io::tokOfList(all, io::tokOfRecord);
}

void engineCache(const std::vector<std::string> &, const std::vector<std::string> &lines)
{
    Cache cache;
    QObject::connect(&cache, &Cache::shouldQuery, [&](const Record &r) {
        outLine(tstr() + " SIG shouldQuery " + io::tokOfRecord(r) + " [" + snapshot(cache) + "]");
    });
    QObject::connect(&cache, &Cache::recordExpired, [&](const Record &r) {
        outLine(tstr() + " SIG recordExpired " + io::tokOfRecord(r) + " [" + snapshot(cache) + "]");
    });
    for (const std::string &l : lines) {
        auto w = io::words(l);
        if (w.empty()) continue;
        if (w[0] == "ADD" && w.size() == 3) {
            vt::g_jitter = std::stoi(w[2]);
            cache.addRecord(io::recordOfTok(w[1]));
        } else if (w[0] == "ADV" && w.size() == 2) {
            int64_t t = std::stoll(w[1]);
            if (t >= vt::g_now) vt::dispatcher()->advanceTo(t);
        } else if (w[0] == "ADVB" && w.size() == 2) {
            // clock ends at t with a timer due exactly at t still pending
            int64_t t = std::stoll(w[1]);
            if (t > vt::g_now) vt::dispatcher()->advanceTo(t, true);
        } else if (w[0] == "LATE" && w.size() == 2) {
            int64_t t = std::stoll(w[1]);
            if (t >= vt::g_now) vt::dispatcher()->lateTo(t);
        } else if (w[0] == "LOOKUP" && w.size() == 3) {
            QList<Record> rs;
            cache.lookupRecords(io::bstrOfTok(w[1]), quint16(std::stoul(w[2])), rs);
            outLine("LOOKUP [" + io::tokOfList(rs, io::tokOfRecord) + "]");
        } else {
            throw std::runtime_error("cache op: " + l);
        }
        outLine(".");
    }
}
