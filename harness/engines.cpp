#include "hx.h"
void engineCache(const std::vector<std::string> &, const std::vector<std::string> &);
void engineCodec(const std::vector<std::string> &, const std::vector<std::string> &);
void engineActor(const std::vector<std::string> &, const std::vector<std::string> &);
void engineValues(const std::vector<std::string> &, const std::vector<std::string> &);
void engineNet(const std::vector<std::string> &, const std::vector<std::string> &);
void engineServer(const std::vector<std::string> &, const std::vector<std::string> &);
void registerAllEngines()
{
    registerEngine("cache", engineCache);
    registerEngine("codec", engineCodec);
    registerEngine("values", engineValues);
    registerEngine("net", engineNet);
    registerEngine("server", engineServer);
    for (const char *n : {"actor", "prober", "hostname", "provider", "browser", "resolver"}) registerEngine(n, engineActor);
}
