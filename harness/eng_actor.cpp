// eng_actor.cpp — engine "actor": real Prober / Hostname / Provider / Browser / Resolver / Cache objects on one
// scripted server, under virtual time.
//   NEW <obj> prober <record> | hostname | provider <hostname-obj> | browser <type> <cache-obj|-> |
//             resolver <name> <cache-obj|-> | cache
//   DEL <obj>   UPDATE <provider> <service>   DELIVER <msg>   CADD <cache> <record> <jitter>
//   HOSTNAME <hex>   ADV t   ADVB t   LATE t   CLOOKUP <cache> <name> <type>
#include "hx.h"

#include <qmdnsengine/abstractserver.h>
#include <qmdnsengine/browser.h>
#include <qmdnsengine/cache.h>
#include <qmdnsengine/dns.h>
#include <qmdnsengine/hostname.h>
#include <qmdnsengine/prober.h>
#include <qmdnsengine/provider.h>
#include <qmdnsengine/resolver.h>

#include <QNetworkInterface>

#include <memory>

using namespace QMdnsEngine;

namespace {

class ScriptServer : public AbstractServer
{
public:
    void sendMessage(const Message &message) override { outLine(tstr() + " SEND " + io::tokOfMessage(message)); }
    void sendMessageToAll(const Message &message) override { outLine(tstr() + " SENDALL " + io::tokOfMessage(message)); }
    void deliver(const Message &message) { emit messageReceived(message); }
};

struct Obj {
    std::string kind;
    QObject *ptr = nullptr;
};

}  // namespace

void engineActor(const std::vector<std::string> &, const std::vector<std::string> &lines)
{
    auto server = std::make_unique<ScriptServer>();
    std::map<std::string, Obj> objs;
    std::vector<std::string> order;   // creation order, for polls and destruction
    std::vector<QObject *> keptGhosts;

    auto need = [&](const std::string &name, const std::string &kind) -> QObject * {
        auto it = objs.find(name);
        if (it == objs.end() || it->second.kind != kind || !it->second.ptr) throw std::runtime_error("no " + kind + " " + name);
        return it->second.ptr;
    };
    auto cacheOrNull = [&](const std::string &name) -> Cache * {
        return name == "-" ? nullptr : static_cast<Cache *>(need(name, "cache"));
    };
    auto sig = [](const std::string &obj, const std::string &name, const std::string &payload) {
        outLine(tstr() + " SIG " + obj + " " + name + " " + payload);
    };

    for (const std::string &l : lines) {
        auto w = io::words(l);
        if (w.empty()) continue;
        if (w[0] == "NEW" && w.size() >= 3) {
            const std::string name = w[1], kind = w[2];
            Obj o;
            o.kind = kind;
            if (kind == "prober" && w.size() == 4) {
                auto *p = new Prober(server.get(), io::recordOfTok(w[3]));
                QObject::connect(p, &Prober::nameConfirmed, [=](const QByteArray &n) { sig(name, "nameConfirmed", io::tokOfBstr(n)); });
                o.ptr = p;
            } else if (kind == "hostname" && w.size() == 3) {
                // the constructor already probes: connect after construction as an application would
                auto *h = new Hostname(server.get());
                // what a slot observes while the notification is being delivered: the object already reports itself
                // registered under the announced name (OBS lines are compared with the model's, not fed to the acceptors)
                QObject::connect(h, &Hostname::hostnameChanged, [=](const QByteArray &n) {
                    sig(name, "hostnameChanged", io::tokOfBstr(n));
                    outLine("OBS " + name + " " + (h->isRegistered() ? "1" : "0") + " " + io::tokOfBstr(h->hostname()));
                });
                o.ptr = h;
            } else if (kind == "provider" && w.size() == 4) {
                o.ptr = new Provider(server.get(), static_cast<Hostname *>(need(w[3], "hostname")));
            } else if (kind == "cache" && w.size() == 3) {
                o.ptr = new Cache;
            } else if (kind == "browser" && w.size() == 5) {
                auto *b = new Browser(server.get(), io::bstrOfTok(w[3]), cacheOrNull(w[4]));
                QObject::connect(b, &Browser::serviceAdded, [=](const Service &s) { sig(name, "serviceAdded", io::tokOfService(s)); });
                QObject::connect(b, &Browser::serviceUpdated, [=](const Service &s) { sig(name, "serviceUpdated", io::tokOfService(s)); });
                QObject::connect(b, &Browser::serviceRemoved, [=](const Service &s) { sig(name, "serviceRemoved", io::tokOfService(s)); });
                o.ptr = b;
            } else if (kind == "resolver" && w.size() == 5) {
                auto *r = new Resolver(server.get(), io::bstrOfTok(w[3]), cacheOrNull(w[4]));
                QObject::connect(r, &Resolver::resolved, [=](const QHostAddress &a) { sig(name, "resolved", io::tokOfAddr(a)); });
                o.ptr = r;
            } else {
                throw std::runtime_error("NEW: " + l);
            }
            objs[name] = o;
            order.push_back(name);
        } else if (w[0] == "GHOST+" && w.size() == 4 && w[1] == "resolver") {
            // a bystander resolver that stays: connected to the server (and the shared cache) before the object under test,
            // it stores the same records first; it never sends anything after its creation and its reports go nowhere
            g_mute = true;
            keptGhosts.push_back(new Resolver(server.get(), io::bstrOfTok(w[2]), cacheOrNull(w[3])));
            g_mute = false;
            continue;
        } else if (w[0] == "GHOST" && w.size() >= 2) {
            // a bystander of the given kind on the same server (and cache) is created and destroyed at once; whatever it
            // sends itself is not traced, and the operation has no group of its own: the objects under test must neither
            // notice its arrival nor suffer from its departure (an operation of the harness only - the model never sees it)
            g_mute = true;
            QObject *g = nullptr;
            if (w[1] == "hostname" && w.size() == 2) g = new Hostname(server.get());
            else if (w[1] == "provider" && w.size() == 3) g = new Provider(server.get(), static_cast<Hostname *>(need(w[2], "hostname")));
            else if (w[1] == "browser" && w.size() == 4) g = new Browser(server.get(), io::bstrOfTok(w[2]), cacheOrNull(w[3]));
            else if (w[1] == "resolver" && w.size() == 4) g = new Resolver(server.get(), io::bstrOfTok(w[2]), cacheOrNull(w[3]));
            else if (w[1] == "prober" && w.size() == 3) g = new Prober(server.get(), io::recordOfTok(w[2]));
            delete g;
            g_mute = false;
            if (!g) throw std::runtime_error("GHOST: " + l);
            continue;
        } else if (w[0] == "DEL" && w.size() == 2) {
            auto it = objs.find(w[1]);
            if (it == objs.end() || !it->second.ptr) throw std::runtime_error("DEL: " + l);
            delete it->second.ptr;
            it->second.ptr = nullptr;
        } else if (w[0] == "UPDATE" && w.size() == 3) {
            static_cast<Provider *>(need(w[1], "provider"))->update(io::serviceOfTok(w[2]));
        } else if (w[0] == "DELIVER" && w.size() == 2) {
            server->deliver(io::messageOfTok(w[1]));
        } else if (w[0] == "CADD" && w.size() == 4) {
            vt::g_jitter = std::stoi(w[3]);
            static_cast<Cache *>(need(w[1], "cache"))->addRecord(io::recordOfTok(w[2]));
        } else if (w[0] == "CLOOKUP" && w.size() == 4) {
            QList<Record> rs;
            static_cast<Cache *>(need(w[1], "cache"))->lookupRecords(io::bstrOfTok(w[2]), quint16(std::stoul(w[3])), rs);
            outLine("LOOKUP [" + io::tokOfList(rs, io::tokOfRecord) + "]");
        } else if (w[0] == "HOSTNAME" && w.size() == 2) {
            vt::g_hostname = QString::fromUtf8(io::rawOfHex(w[1]));
        } else if (w[0] == "DUMPIF" && w.size() == 1) {
            // the interface table the library will see (QNetworkInterface::allInterfaces)
            std::string tok;
            const auto ifs = QNetworkInterface::allInterfaces();
            for (const QNetworkInterface &ni : ifs) {
                if (!tok.empty()) tok += ";";
                std::string it;
                const auto es = ni.addressEntries();
                for (const QNetworkAddressEntry &e : es) {
                    if (!it.empty()) it += ",";
                    it += io::tokOfAddr(e.ip()) + "/" + std::to_string(e.prefixLength());
                }
                tok += it.empty() ? "_" : it;
            }
            outLine("IFACES " + (tok.empty() ? std::string("-") : tok));
        } else if (w[0] == "JITTER" && w.size() == 2) {
            vt::g_jitter = std::stoi(w[1]);
        } else if (w[0] == "ADV" && w.size() == 2) {
            int64_t t = std::stoll(w[1]);
            if (t >= vt::g_now) vt::dispatcher()->advanceTo(t);
        } else if (w[0] == "ADVB" && w.size() == 2) {
            int64_t t = std::stoll(w[1]);
            if (t >= vt::g_now) vt::dispatcher()->advanceTo(t, true);
        } else if (w[0] == "LATE" && w.size() == 2) {
            int64_t t = std::stoll(w[1]);
            if (t >= vt::g_now) vt::dispatcher()->lateTo(t);
        } else {
            throw std::runtime_error("actor op: " + l);
        }
        // state polls between handlers
        for (const std::string &n : order) {
            const Obj &o = objs[n];
            if (o.kind == "hostname" && o.ptr) {
                auto *h = static_cast<Hostname *>(o.ptr);
                outLine("POLL " + n + " " + (h->isRegistered() ? "1" : "0") + " " + io::tokOfBstr(h->hostname()));
            }
        }
        outLine(".");
    }
    for (QObject *g : keptGhosts) delete g;
    // destroy what is left, newest first (a provider before the hostname it uses), then the server
    for (auto it = order.rbegin(); it != order.rend(); ++it) {
        Obj &o = objs[*it];
        if (o.ptr) { delete o.ptr; o.ptr = nullptr; }
    }
    outLine(".");
}
