// eng_net.cpp — engine "net": several simulated nodes, each with its own server; every message sent goes through the real
// codec (toPacket / fromPacket), is queued with the per-link delay (optionally duplicated) and delivered with the sender's
// address and port 5353; multicasts loop back to the sender as on a real host.
//   NODE <i> <addr> <hostname-hex>   DELAY <i> <j> <ms>   DUP on|off   HOST <i>   PROVIDER <i>   UPDATE <i> <service>
//   DESTROY <i>   DISCONNECT <i>   BROWSER <i> <type>   ADV <t>
#include "hx.h"

#include <qmdnsengine/abstractserver.h>
#include <qmdnsengine/browser.h>
#include <qmdnsengine/dns.h>
#include <qmdnsengine/hostname.h>
#include <qmdnsengine/mdns.h>
#include <qmdnsengine/provider.h>

#include <memory>
#include <set>

using namespace QMdnsEngine;

namespace {

struct Packet {
    int64_t at;
    uint64_t seq;
    int from, to;
    QByteArray bytes;
};

struct Net;

class NodeServer : public AbstractServer
{
public:
    Net *net = nullptr;
    int node = 0;
    void sendMessage(const Message &message) override;
    void sendMessageToAll(const Message &message) override;
    void deliver(const Message &message) { emit messageReceived(message); }
};

struct Node {
    QHostAddress addr;
    QString hostname;
    bool connected = true;
    std::unique_ptr<NodeServer> server;
    Hostname *host = nullptr;
    Provider *provider = nullptr;
    Browser *browser = nullptr;
    std::map<std::string, std::string> view;   // instance -> service token, from the browser's signals
};

struct Net {
    std::map<int, Node> nodes;
    std::map<std::pair<int, int>, int64_t> delay;
    int64_t defaultDelay = 5;
    bool dup = false;
    bool log = false;
    std::vector<Packet> queue;
    uint64_t seq = 0;
    long packets = 0;

    void enter(int i)
    {
        vt::g_node = i;
        vt::g_hostname = nodes[i].hostname;
    }
    int64_t delayOf(int i, int j) const
    {
        auto it = delay.find({i, j});
        return it != delay.end() ? it->second : (i == j ? 0 : defaultDelay);
    }
    void transmit(int from, const Message &m, bool multicast, const QHostAddress &dst)
    {
        if (!nodes[from].connected) return;
        QByteArray bytes;
        toPacket(m, bytes);
        ++packets;
        if (log) outLine(tstr() + " NODE " + std::to_string(from) + (multicast ? " SENTALL " : " SENT ") + io::tokOfMessage(m));
        for (auto &kv : nodes) {
            int to = kv.first;
            if (!multicast && kv.second.addr != dst) continue;
            int copies = (multicast && dup && to != from) ? 2 : 1;
            for (int c = 0; c < copies; ++c) queue.push_back({vt::g_now + delayOf(from, to) + c, ++seq, from, to, bytes});
        }
    }
    // earliest packet due at or before t, or -1
    int nextPacket(int64_t t) const
    {
        int best = -1;
        for (size_t k = 0; k < queue.size(); ++k) {
            if (queue[k].at > t) continue;
            if (best < 0 || queue[k].at < queue[best].at || (queue[k].at == queue[best].at && queue[k].seq < queue[best].seq)) best = int(k);
        }
        return best;
    }
    void deliver(const Packet &p)
    {
        Node &n = nodes[p.to];
        if (!n.connected || !nodes[p.from].connected) return;
        Message m;
        if (!fromPacket(p.bytes, m)) { outLine(tstr() + " NODE " + std::to_string(p.to) + " UNDECODABLE " + io::hexOf(p.bytes)); return; }
        m.setAddress(nodes[p.from].addr);
        m.setPort(MdnsPort);
        enter(p.to);
        n.server->deliver(m);
    }
    void advanceTo(int64_t t)
    {
        vt::Dispatcher *d = vt::dispatcher();
        for (;;) {
            int pk = nextPacket(t);
            int tm = d->nextDue(t, false);
            if (pk < 0 && tm < 0) break;
            bool packetFirst = pk >= 0 && (tm < 0 || queue[pk].at <= d->timers[tm].deadline);
            if (packetFirst) {
                Packet p = queue[pk];
                queue.erase(queue.begin() + pk);
                if (p.at > vt::g_now) vt::g_now = p.at;
                deliver(p);
            } else {
                if (d->timers[tm].deadline > vt::g_now) vt::g_now = d->timers[tm].deadline;
                enter(d->timers[tm].node);
                d->fire(tm);
            }
        }
        if (t > vt::g_now) vt::g_now = t;
    }
};

void NodeServer::sendMessage(const Message &message)
{
    bool multicast = message.address() == MdnsIpv4Address || message.address() == MdnsIpv6Address;
    net->transmit(node, message, multicast, message.address());
}
void NodeServer::sendMessageToAll(const Message &message) { net->transmit(node, message, true, QHostAddress()); }

}  // namespace

void engineNet(const std::vector<std::string> &, const std::vector<std::string> &lines)
{
    Net net;
    auto nodeOf = [&](const std::string &s) -> Node & {
        int i = std::stoi(s);
        if (!net.nodes.count(i)) throw std::runtime_error("no node " + s);
        return net.nodes[i];
    };
    for (const std::string &l : lines) {
        auto w = io::words(l);
        if (w.empty()) continue;
        if (w[0] == "NODE" && w.size() == 4) {
            int i = std::stoi(w[1]);
            Node &n = net.nodes[i];
            n.addr = io::addrOfTok(w[2]);
            n.hostname = QString::fromUtf8(io::rawOfHex(w[3]));
            n.server.reset(new NodeServer);
            n.server->net = &net;
            n.server->node = i;
        } else if (w[0] == "DELAY" && w.size() == 4) {
            net.delay[{std::stoi(w[1]), std::stoi(w[2])}] = std::stoll(w[3]);
        } else if (w[0] == "LOG" && w.size() == 2) {
            net.log = (w[1] == "on");
        } else if (w[0] == "DUP" && w.size() == 2) {
            net.dup = (w[1] == "on");
        } else if (w[0] == "HOST" && w.size() == 2) {
            int i = std::stoi(w[1]);
            Node &n = nodeOf(w[1]);
            net.enter(i);
            n.host = new Hostname(n.server.get());
            QObject::connect(n.host, &Hostname::hostnameChanged, [i](const QByteArray &h) {
                outLine(tstr() + " NODE " + std::to_string(i) + " SIG hostnameChanged " + io::tokOfBstr(h));
            });
        } else if (w[0] == "PROVIDER" && w.size() == 2) {
            int i = std::stoi(w[1]);
            Node &n = nodeOf(w[1]);
            if (!n.host) throw std::runtime_error("PROVIDER needs HOST");
            net.enter(i);
            n.provider = new Provider(n.server.get(), n.host);
        } else if (w[0] == "UPDATE" && w.size() == 3) {
            int i = std::stoi(w[1]);
            Node &n = nodeOf(w[1]);
            if (!n.provider) throw std::runtime_error("UPDATE needs PROVIDER");
            net.enter(i);
            n.provider->update(io::serviceOfTok(w[2]));
        } else if (w[0] == "DESTROY" && w.size() == 2) {
            int i = std::stoi(w[1]);
            Node &n = nodeOf(w[1]);
            net.enter(i);
            delete n.provider;
            n.provider = nullptr;
        } else if (w[0] == "DISCONNECT" && w.size() == 2) {
            nodeOf(w[1]).connected = false;
        } else if (w[0] == "BROWSER" && w.size() == 3) {
            int i = std::stoi(w[1]);
            Node &n = nodeOf(w[1]);
            net.enter(i);
            n.browser = new Browser(n.server.get(), io::bstrOfTok(w[2]));
            Node *np = &n;
            auto key = [](const Service &s) { return io::tokOfBstr(s.name()) + "." + io::tokOfBstr(s.type()); };
            QObject::connect(n.browser, &Browser::serviceAdded, [=](const Service &s) {
                outLine(tstr() + " NODE " + std::to_string(i) + " SIG serviceAdded " + io::tokOfService(s));
                np->view[key(s)] = io::tokOfService(s);
            });
            QObject::connect(n.browser, &Browser::serviceUpdated, [=](const Service &s) {
                outLine(tstr() + " NODE " + std::to_string(i) + " SIG serviceUpdated " + io::tokOfService(s));
                np->view[key(s)] = io::tokOfService(s);
            });
            QObject::connect(n.browser, &Browser::serviceRemoved, [=](const Service &s) {
                outLine(tstr() + " NODE " + std::to_string(i) + " SIG serviceRemoved " + io::tokOfService(s));
                np->view.erase(key(s));
            });
        } else if (w[0] == "ADV" && w.size() == 2) {
            int64_t t = std::stoll(w[1]);
            if (t >= vt::g_now) net.advanceTo(t);
        } else if (w[0] == "VIEWS" && w.size() == 1) {
            for (auto &kv : net.nodes) {
                Node &n = kv.second;
                if (n.browser) {
                    std::string s;
                    for (auto &v : n.view) { if (!s.empty()) s += ";"; s += v.second; }
                    outLine(tstr() + " VIEW " + std::to_string(kv.first) + " {" + s + "}");
                }
                if (n.host) outLine(tstr() + " HOSTNAME " + std::to_string(kv.first) + " " + (n.host->isRegistered() ? "1" : "0") + " " + io::tokOfBstr(n.host->hostname()));
            }
            outLine(tstr() + " PACKETS " + std::to_string(net.packets));
        } else {
            throw std::runtime_error("net op: " + l);
        }
        outLine(".");
    }
    for (auto &kv : net.nodes) {
        Node &n = kv.second;
        net.enter(kv.first);
        n.connected = false;   // tear down silently
        delete n.browser;
        delete n.provider;
        delete n.host;
    }
    outLine(".");
}
