#pragma once
#include "io.h"
#include "vtime.h"

#include <functional>
#include <map>
#include <string>
#include <vector>

typedef std::function<void(const std::vector<std::string> &args, const std::vector<std::string> &lines)> EngineFn;
void registerEngine(const std::string &name, EngineFn f);
void outLine(const std::string &s);
extern bool g_mute;
unsigned watchdogSeconds();
void registerAllEngines();

inline std::string tstr() { return std::to_string(vt::g_now); }
