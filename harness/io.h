// io.h — text formats shared with the OCaml driver (DESIGN.md appendix B)
#pragma once
#include <QByteArray>
#include <QHostAddress>
#include <QList>
#include <QMap>
#include <QString>
#include <QStringList>

#include <qmdnsengine/bitmap.h>
#include <qmdnsengine/message.h>
#include <qmdnsengine/query.h>
#include <qmdnsengine/record.h>
#include <qmdnsengine/service.h>

#include <stdexcept>
#include <string>
#include <vector>

namespace io {

using namespace QMdnsEngine;

inline std::vector<std::string> split(const std::string &s, char c)
{
    std::vector<std::string> out;
    std::string cur;
    for (char ch : s) {
        if (ch == c) { out.push_back(cur); cur.clear(); }
        else cur.push_back(ch);
    }
    out.push_back(cur);
    return out;
}

inline std::vector<std::string> words(const std::string &s)
{
    std::vector<std::string> out;
    for (auto &w : split(s, ' ')) if (!w.empty()) out.push_back(w);
    return out;
}

inline int hexval(char c)
{
    if (c >= '0' && c <= '9') return c - '0';
    if (c >= 'a' && c <= 'f') return c - 'a' + 10;
    if (c >= 'A' && c <= 'F') return c - 'A' + 10;
    throw std::runtime_error("hex");
}

inline QByteArray rawOfHex(const std::string &s)
{
    QByteArray b;
    for (size_t i = 0; i + 1 < s.size(); i += 2) b.append(char(hexval(s[i]) * 16 + hexval(s[i + 1])));
    return b;
}

inline std::string hexOf(const QByteArray &b)
{
    static const char *d = "0123456789abcdef";
    std::string s;
    for (int i = 0; i < b.size(); ++i) { unsigned char c = b[i]; s.push_back(d[c >> 4]); s.push_back(d[c & 15]); }
    return s;
}

// "-" null, "." empty non-null, hex otherwise
inline QByteArray bstrOfTok(const std::string &s)
{
    if (s == "-") return QByteArray();
    if (s == ".") return QByteArray("");
    QByteArray b = rawOfHex(s);
    return b;
}
inline std::string tokOfBstr(const QByteArray &b)
{
    if (b.isNull()) return "-";
    if (b.isEmpty()) return ".";
    return hexOf(b);
}
inline std::string tokOfBytes(const QByteArray &b) { return b.isEmpty() ? "." : hexOf(b); }

inline QHostAddress addrOfTok(const std::string &s)
{
    if (s == "n") return QHostAddress();
    if (s.size() > 2 && s[0] == '4') return QHostAddress(quint32(std::stoul(s.substr(2))));
    if (s.size() > 2 && s[0] == '6') {
        QByteArray b = rawOfHex(s.substr(2));
        if (b.size() != 16) throw std::runtime_error("addr6 length");
        return QHostAddress(reinterpret_cast<const quint8 *>(b.constData()));
    }
    throw std::runtime_error("addr");
}
inline std::string tokOfAddr(const QHostAddress &a)
{
    switch (a.protocol()) {
    case QAbstractSocket::IPv4Protocol: return "4:" + std::to_string(a.toIPv4Address());
    case QAbstractSocket::IPv6Protocol: {
        Q_IPV6ADDR v = a.toIPv6Address();
        return "6:" + hexOf(QByteArray(reinterpret_cast<const char *>(&v), 16));
    }
    default: return "n";
    }
}

inline QMap<QByteArray, QByteArray> attrsOfTok(const std::string &s)
{
    QMap<QByteArray, QByteArray> m;
    if (s == "_") return m;
    for (auto &kv : split(s, '+')) {
        auto p = split(kv, '=');
        if (p.size() != 2) throw std::runtime_error("attr");
        QByteArray k = bstrOfTok(p[0]);
        if (k.isNull()) k = QByteArray("");
        m.insert(k, bstrOfTok(p[1]));
    }
    return m;
}
inline std::string tokOfAttrs(const QMap<QByteArray, QByteArray> &m)
{
    if (m.isEmpty()) return "_";
    std::string s;
    for (auto i = m.constBegin(); i != m.constEnd(); ++i) {
        if (!s.empty()) s += "+";
        s += tokOfBytes(i.key()) + "=" + tokOfBstr(i.value());
    }
    return s;
}

inline Record recordOfTok(const std::string &s)
{
    auto f = split(s, ',');
    if (f.size() != 12) throw std::runtime_error("record: " + s);
    Record r;
    r.setName(bstrOfTok(f[0]));
    r.setType(quint16(std::stoul(f[1])));
    r.setFlushCache(f[2] == "1");
    r.setTtl(quint32(std::stoul(f[3])));
    r.setAddress(addrOfTok(f[4]));
    r.setTarget(bstrOfTok(f[5]));
    r.setNextDomainName(bstrOfTok(f[6]));
    r.setPriority(quint16(std::stoul(f[7])));
    r.setWeight(quint16(std::stoul(f[8])));
    r.setPort(quint16(std::stoul(f[9])));
    r.setAttributes(attrsOfTok(f[10]));
    QByteArray bm = (f[11] == "." || f[11] == "-") ? QByteArray() : rawOfHex(f[11]);
    if (!bm.isEmpty()) {
        Bitmap b;
        b.setData(quint8(bm.size()), reinterpret_cast<const quint8 *>(bm.constData()));
        r.setBitmap(b);
    }
    return r;
}
inline std::string tokOfRecord(const Record &r)
{
    Bitmap bm = r.bitmap();
    QByteArray bmb(reinterpret_cast<const char *>(bm.data()), bm.length());
    return tokOfBstr(r.name()) + "," + std::to_string(r.type()) + "," + (r.flushCache() ? "1" : "0") + "," +
           std::to_string(r.ttl()) + "," + tokOfAddr(r.address()) + "," + tokOfBstr(r.target()) + "," +
           tokOfBstr(r.nextDomainName()) + "," + std::to_string(r.priority()) + "," + std::to_string(r.weight()) +
           "," + std::to_string(r.port()) + "," + tokOfAttrs(r.attributes()) + "," + tokOfBytes(bmb);
}

inline Query queryOfTok(const std::string &s)
{
    auto f = split(s, ',');
    if (f.size() != 3) throw std::runtime_error("query: " + s);
    Query q;
    q.setName(bstrOfTok(f[0]));
    q.setType(quint16(std::stoul(f[1])));
    q.setUnicastResponse(f[2] == "1");
    return q;
}
inline std::string tokOfQuery(const Query &q)
{
    return tokOfBstr(q.name()) + "," + std::to_string(q.type()) + "," + (q.unicastResponse() ? "1" : "0");
}

template <class T, class F> std::string tokOfList(const QList<T> &l, F f)
{
    std::string s;
    bool first = true;
    for (const T &x : l) { if (!first) s += ";"; first = false; s += f(x); }
    return s;
}

// message: addr|port|id|response|truncated|queries|records
inline Message messageOfTok(const std::string &s)
{
    auto f = split(s, '|');
    if (f.size() != 7) throw std::runtime_error("message: " + s);
    Message m;
    m.setAddress(addrOfTok(f[0]));
    m.setPort(quint16(std::stoul(f[1])));
    m.setTransactionId(quint16(std::stoul(f[2])));
    m.setResponse(f[3] == "1");
    m.setTruncated(f[4] == "1");
    if (!f[5].empty()) for (auto &q : split(f[5], ';')) m.addQuery(queryOfTok(q));
    if (!f[6].empty()) for (auto &r : split(f[6], ';')) m.addRecord(recordOfTok(r));
    return m;
}
inline std::string tokOfMessage(const Message &m)
{
    return tokOfAddr(m.address()) + "|" + std::to_string(m.port()) + "|" + std::to_string(m.transactionId()) + "|" +
           (m.isResponse() ? "1" : "0") + "|" + (m.isTruncated() ? "1" : "0") + "|" +
           tokOfList(m.queries(), tokOfQuery) + "|" + tokOfList(m.records(), tokOfRecord);
}

// service: type,name,hostname,port,attrs
inline Service serviceOfTok(const std::string &s)
{
    auto f = split(s, ',');
    if (f.size() != 5) throw std::runtime_error("service: " + s);
    Service v;
    v.setType(bstrOfTok(f[0]));
    v.setName(bstrOfTok(f[1]));
    v.setHostname(bstrOfTok(f[2]));
    v.setPort(quint16(std::stoul(f[3])));
    v.setAttributes(attrsOfTok(f[4]));
    return v;
}
inline std::string tokOfService(const Service &v)
{
    return tokOfBstr(v.type()) + "," + tokOfBstr(v.name()) + "," + tokOfBstr(v.hostname()) + "," +
           std::to_string(v.port()) + "," + tokOfAttrs(v.attributes());
}

}  // namespace io
