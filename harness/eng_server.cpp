// eng_server.cpp — engine "server": the real QMdnsEngine::Server on the loopback interface.  Each DGRAM <hex> is sent
// from a client socket to 127.0.0.1:5353, the server's readyRead is raised by hand (there is no event loop) until
// nothing is pending, and what the server hands to the application (messageReceived) is printed next to what the
// decoder returns for exactly those bytes.  server.cpp is outside every model: this only ties "what the application
// receives" to "fromPacket of the datagram", to which the C02 / C03 theorems then apply.
#include "hx.h"

#include <QUdpSocket>
#include <QHostAddress>
#include <QTimer>

#define private public
#include <qmdnsengine/server.h>
#undef private
#include "server_p.h"
#include <qmdnsengine/dns.h>
#include <qmdnsengine/message.h>

using namespace QMdnsEngine;

void engineServer(const std::vector<std::string> &, const std::vector<std::string> &lines)
{
    Server server;
    std::vector<std::string> got;
    QObject::connect(&server, &Server::messageReceived, [&](const Message &m) {
        Message c(m);
        std::string from = io::tokOfAddr(m.address()) + " " + std::to_string(m.port());
        c.setAddress(QHostAddress());
        c.setPort(0);
        got.push_back(from + " " + io::tokOfMessage(c));
    });
    QUdpSocket client;
    bool bound = client.bind(QHostAddress(QHostAddress::LocalHost), quint16(0)) &&
                 server.d->ipv4Socket.state() == QAbstractSocket::BoundState;
    outLine(std::string("BOUND ") + (bound ? "1 " : "0 ") + std::to_string(client.localPort()));
    outLine(".");
    for (const std::string &l : lines) {
        auto w = io::words(l);
        if (w.empty()) continue;
        if (w[0] == "DGRAM" && w.size() == 2) {
            QByteArray bytes = io::bstrOfTok(w[1]);
            // what the decoder returns for exactly these bytes
            Message direct;
            if (fromPacket(QByteArray(bytes.constData(), bytes.size()), direct)) outLine("WANT OK " + io::tokOfMessage(direct));
            else outLine("WANT FAIL");
            got.clear();
            if (bound) {
                client.writeDatagram(bytes, QHostAddress(QHostAddress::LocalHost), quint16(5353));
                QUdpSocket &s = server.d->ipv4Socket;
                int reads = 0;
                if (s.hasPendingDatagrams() || s.waitForReadyRead(300)) {
                    while (s.hasPendingDatagrams() && reads < 64) { emit s.readyRead(); ++reads; }
                }
                outLine("READS " + std::to_string(reads));
                for (const std::string &g : got) outLine("RECV " + g);
            } else {
                outLine("READS -1");
            }
        } else {
            throw std::runtime_error("server op: " + l);
        }
        outLine(".");
    }
}
