// eng_values.cpp — engine "values": short programs of construction, copy, assignment (incl. self), mutation, comparison
// and destruction over Bitmap / Record / Message / Query / Service objects (run under ASan).
//   NEW v bitmap|record|message|query|service   COPY v w   ASSIGN v w   SETBYTES v <hex>   SETSELF v n
//   SETREC v <record>   SETMSG v <message>   SETQRY v <query>   SETSVC v <service>   EQ v w   GET v   DEL v
#include "hx.h"

#include <qmdnsengine/bitmap.h>

#include <cstring>

using namespace QMdnsEngine;

namespace {
struct Var {
    std::string kind;
    void *p = nullptr;
};
std::string bmTok(const Bitmap &b)
{
    return io::tokOfBytes(QByteArray(reinterpret_cast<const char *>(b.data()), b.length()));
}
}  // namespace

void engineValues(const std::vector<std::string> &, const std::vector<std::string> &lines)
{
    std::map<std::string, Var> vars;
    auto live = [&](const std::string &n) -> Var * {
        auto it = vars.find(n);
        return (it != vars.end() && it->second.p) ? &it->second : nullptr;
    };
    auto destroy = [](Var &v) {
        if (v.kind == "bitmap") delete static_cast<Bitmap *>(v.p);
        else if (v.kind == "record") delete static_cast<Record *>(v.p);
        else if (v.kind == "message") delete static_cast<Message *>(v.p);
        else if (v.kind == "query") delete static_cast<Query *>(v.p);
        else if (v.kind == "service") delete static_cast<Service *>(v.p);
        v.p = nullptr;
    };
    for (const std::string &l : lines) {
        auto w = io::words(l);
        if (w.empty()) continue;
        bool ok = true;
        if (w[0] == "NEW" && w.size() == 3) {
            if (live(w[1])) ok = false;
            else {
                Var v;
                v.kind = w[2];
                if (w[2] == "bitmap") v.p = new Bitmap;
                else if (w[2] == "record") v.p = new Record;
                else if (w[2] == "message") v.p = new Message;
                else if (w[2] == "query") v.p = new Query;
                else if (w[2] == "service") { auto *s = new Service; s->setPort(0); v.p = s; }
                else ok = false;
                if (ok) vars[w[1]] = v;
            }
        } else if (w[0] == "COPY" && w.size() == 3) {
            Var *src = live(w[2]);
            if (live(w[1]) || !src) ok = false;
            else {
                Var v;
                v.kind = src->kind;
                if (v.kind == "bitmap") v.p = new Bitmap(*static_cast<Bitmap *>(src->p));
                else if (v.kind == "record") v.p = new Record(*static_cast<Record *>(src->p));
                else if (v.kind == "message") v.p = new Message(*static_cast<Message *>(src->p));
                else if (v.kind == "query") v.p = new Query(*static_cast<Query *>(src->p));
                else v.p = new Service(*static_cast<Service *>(src->p));
                vars[w[1]] = v;
            }
        } else if (w[0] == "ASSIGN" && w.size() == 3) {
            Var *a = live(w[1]), *b = live(w[2]);
            if (!a || !b || a->kind != b->kind) ok = false;
            else if (a->kind == "bitmap") *static_cast<Bitmap *>(a->p) = *static_cast<Bitmap *>(b->p);
            else if (a->kind == "record") *static_cast<Record *>(a->p) = *static_cast<Record *>(b->p);
            else if (a->kind == "message") *static_cast<Message *>(a->p) = *static_cast<Message *>(b->p);
            else if (a->kind == "query") *static_cast<Query *>(a->p) = *static_cast<Query *>(b->p);
            else *static_cast<Service *>(a->p) = *static_cast<Service *>(b->p);
        } else if (w[0] == "SETBYTES" && w.size() == 3) {
            Var *a = live(w[1]);
            QByteArray b = (w[2] == ".") ? QByteArray() : io::rawOfHex(w[2]);
            if (!a || a->kind != "bitmap" || b.size() > 255) ok = false;
            else {
                // an exact-size source buffer so that ASan sees an over-read
                quint8 *src = new quint8[b.size() ? b.size() : 1];
                memcpy(src, b.constData(), size_t(b.size()));
                static_cast<Bitmap *>(a->p)->setData(quint8(b.size()), src);
                delete[] src;
            }
        } else if (w[0] == "SETSELF" && w.size() == 3) {
            Var *a = live(w[1]);
            int n = std::stoi(w[2]);
            if (!a || a->kind != "bitmap" || n > static_cast<Bitmap *>(a->p)->length()) ok = false;
            else { auto *bm = static_cast<Bitmap *>(a->p); bm->setData(quint8(n), bm->data()); }
        } else if (w[0] == "SETREC" && w.size() == 3) {
            Var *a = live(w[1]);
            if (!a || a->kind != "record") ok = false;
            else {
                Record src = io::recordOfTok(w[2]);
                Record *r = static_cast<Record *>(a->p);
                r->setName(src.name()); r->setType(src.type()); r->setFlushCache(src.flushCache()); r->setTtl(src.ttl());
                r->setAddress(src.address()); r->setTarget(src.target()); r->setNextDomainName(src.nextDomainName());
                r->setPriority(src.priority()); r->setWeight(src.weight()); r->setPort(src.port());
                r->setAttributes(src.attributes()); r->setBitmap(src.bitmap());
            }
        } else if (w[0] == "SETMSG" && w.size() == 3) {
            Var *a = live(w[1]);
            if (!a || a->kind != "message") ok = false; else *static_cast<Message *>(a->p) = io::messageOfTok(w[2]);
        } else if (w[0] == "SETQRY" && w.size() == 3) {
            Var *a = live(w[1]);
            if (!a || a->kind != "query") ok = false;
            else { Query s = io::queryOfTok(w[2]); auto *q = static_cast<Query *>(a->p); q->setName(s.name()); q->setType(s.type()); q->setUnicastResponse(s.unicastResponse()); }
        } else if (w[0] == "SETSVC" && w.size() == 3) {
            Var *a = live(w[1]);
            if (!a || a->kind != "service") ok = false;
            else { Service s = io::serviceOfTok(w[2]); auto *v = static_cast<Service *>(a->p); v->setType(s.type()); v->setName(s.name()); v->setHostname(s.hostname()); v->setPort(s.port()); v->setAttributes(s.attributes()); }
        } else if (w[0] == "EQ" && w.size() == 3) {
            Var *a = live(w[1]), *b = live(w[2]);
            if (!a || !b || a->kind != b->kind) ok = false;
            else if (a->kind == "bitmap") outLine(std::string("EQ ") + ((*static_cast<Bitmap *>(a->p) == *static_cast<Bitmap *>(b->p)) ? "1" : "0"));
            else if (a->kind == "record") {
                const Record &x = *static_cast<Record *>(a->p), &y = *static_cast<Record *>(b->p);
                const bool eq = x == y;
                // the other comparison operator of the public interface must be the negation of the first
                if ((x != y) == eq) outLine("FAULT Record::operator!= disagrees with operator==");
                outLine(std::string("EQ ") + (eq ? "1" : "0"));
            } else if (a->kind == "service") {
                const Service &x = *static_cast<Service *>(a->p), &y = *static_cast<Service *>(b->p);
                const bool eq = x == y;
                if ((x != y) == eq) outLine("FAULT Service::operator!= disagrees with operator==");
                outLine(std::string("EQ ") + (eq ? "1" : "0"));
            }
            else ok = false;
        } else if (w[0] == "GET" && w.size() == 2) {
            Var *a = live(w[1]);
            if (!a) ok = false;
            else if (a->kind == "bitmap") outLine("VAL bitmap " + bmTok(*static_cast<Bitmap *>(a->p)));
            else if (a->kind == "record") outLine("VAL record " + io::tokOfRecord(*static_cast<Record *>(a->p)));
            else if (a->kind == "message") outLine("VAL message " + io::tokOfMessage(*static_cast<Message *>(a->p)));
            else if (a->kind == "query") outLine("VAL query " + io::tokOfQuery(*static_cast<Query *>(a->p)));
            else outLine("VAL service " + io::tokOfService(*static_cast<Service *>(a->p)));
        } else if (w[0] == "DEL" && w.size() == 2) {
            Var *a = live(w[1]);
            if (!a) ok = false; else destroy(*a);
        } else {
            throw std::runtime_error("values op: " + l);
        }
        if (!ok) outLine("ERR");
        outLine(".");
    }
    for (auto &kv : vars) if (kv.second.p) destroy(kv.second);
}
