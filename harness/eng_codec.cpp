// eng_codec.cpp — engine "codec": toPacket / fromPacket / parseName / parseRecord on exact-size buffers
#include "hx.h"

#include <qmdnsengine/dns.h>

#include <cstdlib>
#include <cstring>

using namespace QMdnsEngine;

namespace {
// an exact-size heap copy, so that ASan sees any read past the end
struct Exact {
    char *buf;
    QByteArray arr;
    explicit Exact(const QByteArray &src)
    {
        buf = static_cast<char *>(malloc(src.size() ? size_t(src.size()) : 1));
        memcpy(buf, src.constData(), size_t(src.size()));
        arr = QByteArray::fromRawData(buf, src.size());
    }
    ~Exact() { arr.clear(); free(buf); }
};
}

void engineCodec(const std::vector<std::string> &, const std::vector<std::string> &lines)
{
    // objects that live across operations: decoding into (or assigning over) a value that already holds data must be as
    // safe as decoding into a fresh one ("any message that is returned can be re-encoded without a memory error")
    Record reusedRecord;
    Record latest;
    for (const std::string &l : lines) {
        auto w = io::words(l);
        if (w.empty()) continue;
        if (w[0] == "ENC" && w.size() == 2) {
            Message m = io::messageOfTok(w[1]);
            QByteArray packet;
            toPacket(m, packet);
            outLine("BYTES " + io::tokOfBytes(packet));
        } else if (w[0] == "DEC" && w.size() == 2) {
            // the decoded value must own its data: the datagram buffer is wiped and released before the message is read
            Message m;
            bool ok;
            {
                Exact e(io::bstrOfTok(w[1]));
                ok = fromPacket(e.arr, m);
                memset(e.buf, 0x23, size_t(e.arr.size()));
            }
            if (ok) {
                outLine("OK " + io::tokOfMessage(m));
                if (!m.records().isEmpty()) latest = m.records().last();
                // any message that is returned can be re-encoded without a memory error
                QByteArray again;
                toPacket(m, again);
            } else {
                outLine("FAIL");
            }
        } else if (w[0] == "PNAME" && w.size() == 3) {
            quint16 off = quint16(std::stoul(w[2]));
            QByteArray name;
            bool ok;
            {
                Exact e(io::bstrOfTok(w[1]));
                ok = parseName(e.arr, off, name);
                memset(e.buf, 0x23, size_t(e.arr.size()));
            }
            if (ok) outLine("OK " + io::tokOfBstr(name) + " " + std::to_string(off));
            else outLine("FAIL");
        } else if (w[0] == "PREC" && w.size() == 3) {
            quint16 off = quint16(std::stoul(w[2]));
            Record r;
            bool ok;
            {
                Exact e(io::bstrOfTok(w[1]));
                ok = parseRecord(e.arr, off, r);
                memset(e.buf, 0x23, size_t(e.arr.size()));
            }
            if (ok) outLine("OK " + io::tokOfRecord(r) + " " + std::to_string(off));
            else outLine("FAIL");
            {
                // the same bytes once more, into a record that has been used before (result not printed)
                Exact e2(io::bstrOfTok(w[1]));
                quint16 off2 = quint16(std::stoul(w[2]));
                parseRecord(e2.arr, off2, reusedRecord);
            }
        } else {
            throw std::runtime_error("codec op: " + l);
        }
        outLine(".");
    }
}
