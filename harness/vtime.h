// vtime.h — the library under a virtual clock, with no change to its sources (DESIGN.md 3.3)
#pragma once
#include <QAbstractEventDispatcher>
#include <QCoreApplication>
#include <QList>
#include <QObject>
#include <QTimerEvent>

#include <cstdint>
#include <functional>
#include <vector>

namespace vt {

// virtual milliseconds since the start of the current script
extern int64_t g_now;
// jitter the next QRandomGenerator::bounded(20) must return, and how many draws happened
extern int g_jitter;
extern long g_rng_draws;
// host name returned by QHostInfo::localHostName()
extern QString g_hostname;
// the simulated node on whose behalf code is currently running (engine "net"); timers remember it
extern int g_node;

static const int64_t EPOCH_MS = 1600000000000LL;  // virtual instant 0 on the wall clock

struct TimerRec {
    int id;
    QObject *obj;
    int interval;
    int64_t deadline;
    uint64_t seq;
    int node;
};

class Dispatcher : public QAbstractEventDispatcher
{
public:
    std::vector<TimerRec> timers;
    uint64_t seq = 0;

    bool processEvents(QEventLoop::ProcessEventsFlags) override { return false; }
    bool hasPendingEvents() override { return false; }
    void registerSocketNotifier(QSocketNotifier *) override {}
    void unregisterSocketNotifier(QSocketNotifier *) override {}
    void registerTimer(int timerId, int interval, Qt::TimerType type, QObject *object) override
    {
        int64_t deadline = g_now + interval;
        if (type == Qt::VeryCoarseTimer) {
            // as QTimerInfoList::registerTimer: the interval is rounded to whole seconds and the timer fires on a
            // whole second of the clock (the library's timers are Qt::CoarseTimer, whose <= 5 % slack is not modelled)
            int64_t secs = ((interval / 500) + 1) >> 1;
            deadline = (g_now / 1000 + secs + (g_now % 1000 > 500 ? 1 : 0)) * 1000;
        }
        timers.push_back({timerId, object, interval, deadline, ++seq, g_node});
    }
    bool unregisterTimer(int timerId) override
    {
        for (size_t i = 0; i < timers.size(); ++i)
            if (timers[i].id == timerId) { timers.erase(timers.begin() + i); return true; }
        return false;
    }
    bool unregisterTimers(QObject *object) override
    {
        bool any = false;
        for (size_t i = 0; i < timers.size();)
            if (timers[i].obj == object) { timers.erase(timers.begin() + i); any = true; } else ++i;
        return any;
    }
    QList<TimerInfo> registeredTimers(QObject *object) const override
    {
        QList<TimerInfo> l;
        for (auto &t : timers) if (t.obj == object) l.append(TimerInfo(t.id, t.interval, Qt::CoarseTimer));
        return l;
    }
    int remainingTime(int timerId) override
    {
        for (auto &t : timers) if (t.id == timerId) return int(t.deadline - g_now);
        return -1;
    }
    void wakeUp() override {}
    void interrupt() override {}
    void flush() override {}

    // index of the due timer with the least (deadline, seq), or -1
    int nextDue(int64_t upTo, bool strict) const
    {
        int best = -1;
        for (size_t i = 0; i < timers.size(); ++i) {
            const TimerRec &t = timers[i];
            bool due = strict ? t.deadline < upTo : t.deadline <= upTo;
            if (!due) continue;
            if (best < 0 || t.deadline < timers[best].deadline ||
                (t.deadline == timers[best].deadline && t.seq < timers[best].seq))
                best = int(i);
        }
        return best;
    }

    void fire(int idx)
    {
        TimerRec t = timers[idx];
        // a repeating timer stays registered; the library only uses single-shot QTimers,
        // whose timerEvent unregisters before emitting
        timers[idx].deadline = g_now + (t.interval > 0 ? t.interval : 1);
        QTimerEvent ev(t.id);
        QCoreApplication::sendEvent(t.obj, &ev);
    }

    // exact scheduling: every due timer fires with the clock set to its own deadline
    void advanceTo(int64_t t, bool strict = false)
    {
        for (;;) {
            int i = nextDue(t, strict);
            if (i < 0) break;
            if (timers[i].deadline > g_now) g_now = timers[i].deadline;
            fire(i);
        }
        if (t > g_now) g_now = t;   // ADVB leaves timers due exactly at t pending, clock at t
    }

    // late delivery: jump to t first, then fire whatever is due (in deadline order) at instant t
    void lateTo(int64_t t)
    {
        if (t > g_now) g_now = t;
        for (;;) {
            int i = nextDue(t, false);
            if (i < 0) break;
            fire(i);
        }
    }
};

Dispatcher *dispatcher();
void resetScript();   // clock back to 0, counters reset (timers must be gone with their objects)

}  // namespace vt
