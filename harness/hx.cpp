// hx.cpp — runs the real library on scripts read from stdin; prints canonical traces.
// Script stream: "=== <id> <engine> [args]" starts a script; following lines are its operations.
#include "hx.h"

#include <csignal>
#include <cstdio>
#include <iostream>
#include <unistd.h>

static std::map<std::string, EngineFn> &engines()
{
    static std::map<std::string, EngineFn> m;
    return m;
}
void registerEngine(const std::string &name, EngineFn f) { engines()[name] = f; }

bool g_mute = false;     // a bystander object is being created and destroyed: its own output is not part of the trace
void outLine(const std::string &s)
{
    if (g_mute) return;
    fputs(s.c_str(), stdout);
    fputc('\n', stdout);
}

static void onAlarm(int)
{
    const char msg[] = "FAULT watchdog\n";
    fflush(stdout);
    ssize_t r = write(1, msg, sizeof(msg) - 1);
    (void)r;
    _exit(3);
}

static void runScript(const std::vector<std::string> &hdr, const std::vector<std::string> &lines)
{
    if (hdr.size() < 3) return;
    outLine("=== " + hdr[1]);
    fflush(stdout);
    auto it = engines().find(hdr[2]);
    if (it == engines().end()) { outLine("ERROR unknown engine " + hdr[2]); return; }
    vt::resetScript();
    alarm(watchdogSeconds());
    try {
        std::vector<std::string> args(hdr.begin() + 3, hdr.end());
        it->second(args, lines);
    } catch (const std::exception &e) {
        outLine(std::string("ERROR ") + e.what());
    }
    alarm(0);
    if (!vt::dispatcher()->timers.empty()) {
        outLine("ERROR timers left registered after script");
        vt::dispatcher()->timers.clear();
    }
    fflush(stdout);
}

unsigned watchdogSeconds()
{
    static unsigned w = 0;
    if (!w) { const char *e = getenv("VERIF_WATCHDOG"); w = e ? unsigned(atoi(e)) : 20; if (!w) w = 20; }
    return w;
}

int main(int argc, char **argv)
{
    setenv("TZ", "UTC", 1);
    signal(SIGALRM, onAlarm);
    QCoreApplication::setEventDispatcher(vt::dispatcher());
    QCoreApplication app(argc, argv);
    registerAllEngines();

    std::vector<std::string> hdr, lines;
    std::string l;
    while (std::getline(std::cin, l)) {
        if (l.rfind("=== ", 0) == 0) {
            runScript(hdr, lines);
            hdr = io::words(l);
            lines.clear();
        } else if (!l.empty() && l[0] != '#') {
            lines.push_back(l);
        }
    }
    runScript(hdr, lines);
    fflush(stdout);
    _exit(0);   // skip static destruction of Qt under the custom dispatcher
}
