(* Properties_C14.v — browser notifications form well-formed life cycles for its own type only. *)
From QV Require Import Base Fields SrcFacts Msg SrcDecisions Cache Sim SimProofs Browser BrowserSpec BrowserProofs BrowserInv.
Local Open Scope Z_scope.

(* Handler level (the run-level statements follow below).  updateService emits at most one notification: serviceAdded iff the instance is not in the map
   of added services, serviceUpdated only for an instance in the map whose stored description differs (Service::operator==,
   which compares every member - tie to service.cpp below), and in both cases stores the reported description; it reports
   only instances whose type equals the browser's type, unless the browser enumerates all types.  A removal names the
   service exactly as stored and removes it.  Hence, with "map of added services" as the life-cycle state, every
   notification of every handler respects added (updated)* removed.  The run-level statement over whole histories
   (several browsers, shared caches, timers) is decided on every run by the acceptor mon_browser (codes 50-55). *)
Theorem C14_update_service_partial j v fq b :
  let '(need, b', es) := update_service j v fq b in
  let '(sname, stype) := split_fq fq in
  let key := bs_data fq in
  (es = [] /\ (b_services b' = b_services b \/
               exists s, smap_find key (b_services b) = Some s /\ exists s', service_eqb s s' = true /\ b_services b' = smap_insert key s' (b_services b)))
  \/
  (exists srv s, lookup_view stype T_PTR v <> [] /\ hd_error (lookup_view fq T_SRV v) = Some srv /\
     s = mkService stype sname (r_target srv) (r_port srv) (merged_attrs fq v) /\
     (bs_eqb (b_type b) (Some browse_type) = true \/ bs_eqb stype (b_type b) = true) /\
     b_services b' = smap_insert key s (b_services b) /\
     ((smap_find key (b_services b) = None /\ es = [ESig (N.of_nat j) SIG_serviceAdded (PService s)]) \/
      (exists old, smap_find key (b_services b) = Some old /\ service_eqb old s = false /\
                   es = [ESig (N.of_nat j) SIG_serviceUpdated (PService s)]))).
Proof. exact (update_service_spec j v fq b). Qed.
Print Assumptions C14_update_service_partial.

Theorem C14_removal_names_stored_partial j v r b :
  r_type r = T_SRV ->
  let '(b', es) := on_record_expired j v r b in
  (es = [] /\ b' = b) \/
  (exists s, smap_find (bs_data (r_name r)) (b_services b) = Some s /\
             es = [ESig (N.of_nat j) SIG_serviceRemoved (PService s)] /\
             b_services b' = smap_remove (bs_data (r_name r)) (b_services b)).
Proof. exact (record_expired_srv_spec j v r b). Qed.
Print Assumptions C14_removal_names_stored_partial.

Theorem C14_equality_compares_every_field : forallb (fun f => existsb (sfield_eqb f) service_eq_fields) all_sfields = true.
Proof. exact service_eq_all_fields. Qed.
Print Assumptions C14_equality_compares_every_field.

(* ---- the run-level statement ----
   [LC ty j p es p']: the notifications of browser j among the effects es form, starting from the ghost map p
   (instance -> description as last reported) and ending in p', well-formed life cycles: serviceAdded only for an
   instance not currently added; serviceUpdated only for one currently added, and different (Service::operator==) from
   the last report; serviceRemoved only for one currently added, naming it as last reported; every reported service is
   of the browser's type ty unless the browser enumerates all types.  The instance of a report is a name k that splits
   ([names]) into the reported name and type; for every name containing a dot - every name decoded from the wire - k is
   name ++ "." ++ type (C14_instance_is_name_dot_type). *)

(* any world - any number of browsers of any types, private or shared caches, any cache content - in which browser j has
   nothing added (as when it is created), followed through ANY sequence of handler invocations at any instants: messages,
   cache and browser timers, API calls creating further browsers and caches *)
Theorem C14_life_cycles evs w j b :
  nth_error (w_browsers w) j = Some b -> b_services b = [] ->
  let '(w', es) := world_life evs w in
  exists p b', LC (b_type b) j [] es p /\ nth_error (w_browsers w') j = Some b' /\ b_type b' = b_type b /\
               R (b_type b) p (b_services b').
Proof. exact (browser_life_cycles evs w j b). Qed.
Print Assumptions C14_life_cycles.

(* the same for the signal outputs of every script run by the virtual-time kernel (the executable model that the
   correspondence check compares with the real Browser) *)
Theorem C14_life_cycles_kernel fuel ops (s : sim world) j b :
  nth_error (w_browsers (s_st s)) j = Some b -> b_services b = [] ->
  exists p, LC (b_type b) j [] (out_sigs (snd (run_outs world bapi world_handle fuel s ops))) p.
Proof. exact (browser_life_cycles_kernel fuel ops s j b). Qed.
Print Assumptions C14_life_cycles_kernel.

(* what LC says about each notification *)
Theorem C14_each_notification ty j p e es p' sg s :
  LC ty j p (e :: es) p' -> sig_for j e = Some (sg, s) ->
  type_ok ty s = true /\
  exists k, names k s /\
    ((sg = SIG_serviceAdded /\ smap_find k p = None) \/
     (sg = SIG_serviceUpdated /\ exists old, smap_find k p = Some old /\ service_eqb old s = false) \/
     (sg = SIG_serviceRemoved /\ exists old, smap_find k p = Some old /\ service_eqb old s = true)).
Proof. exact (LC_first_signal ty j p e es p' sg s). Qed.
Print Assumptions C14_each_notification.

Theorem C14_instance_is_name_dot_type k s :
  In DOT k -> names k s -> k = bs_data (s_name s) ++ DOT :: bs_data (s_type s).
Proof. exact (names_dotted k s). Qed.
Print Assumptions C14_instance_is_name_dot_type.

(* non-vacuity: a concrete run with an add, an update and a removal *)
Example C14_nonvacuous :
  let ty := [95; 116; 46]%N in let inst := [97; 46; 95; 116; 46]%N in let host := [104; 46]%N in
  let ptr := set_target (Some inst) (set_ttl 120 (set_type 12 (set_name (Some ty) default_record))) in
  let srv := fun p t f => set_flush f (set_port p (set_target (Some host) (set_ttl t (set_type 33 (set_name (Some inst) default_record))))) in
  let resp := fun rs => mkMessage (A4 1) 5353 0 true false [] rs in
  let ops := [AApi (BNewBrowser (Some ty) None); ADeliver (resp [ptr; srv 80%N 120%N false]);
              ADeliver (resp [srv 81%N 120%N true]); ADeliver (resp [srv 81%N 0%N true])] in
  map (fun e => match e with ESig ob sg (PService s) => (ob, sg, s_port s) | _ => (0, 0, 0)%N end)
      (out_sigs (snd (run_outs world bapi world_handle 10 (mkSim 0 [] 0%N (mkWorld [] [] 0)) ops)))
  = [(0, SIG_serviceAdded, 80); (0, SIG_serviceUpdated, 81); (0, SIG_serviceRemoved, 81)]%N.
Proof. vm_compute. reflexivity. Qed.

(* the decisions of browser.cpp the theorems above rest on are regenerated from the source on every run (SrcDecisions.v):
   which service types updateService ignores, and which records of a response onMessageReceived keeps and re-evaluates;
   the model calls the generated definitions, and they are what the property needs: *)
Theorem C14_decisions_read_from_the_source :
  (forall st ty, browser_not_of_interest st ty =
     ((match bs_data st with [] => true | _ :: _ => false end) || (negb (bs_eqb ty (Some browse_type)) && negb (bs_eqb st ty)))) /\
  (forall ty, browser_any ty = bs_eqb ty (Some browse_type)) /\
  (forall any r ty, browser_ptr_browse any r ty = any && bs_eqb (r_name r) (Some browse_type)) /\
  (forall any r ty, browser_ptr_type any r ty = any || bs_eqb (r_name r) ty) /\
  (forall any r ty, browser_srvtxt any r ty = any || ends_with ([DOT] ++ bs_data ty) (bs_data (r_name r))).
Proof.
  exact (conj not_of_interest_spec (conj browser_any_spec (conj browser_ptr_browse_spec (conj browser_ptr_type_spec browser_srvtxt_spec)))).
Qed.
Print Assumptions C14_decisions_read_from_the_source.
