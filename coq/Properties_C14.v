From QV Require Import Base Fields SrcFacts Msg SrcDecisions Cache Sim Browser BrowserSpec.
