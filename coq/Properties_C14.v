(* Properties_C14.v — browser notifications form well-formed life cycles for its own type only (partial). *)
From QV Require Import Base Fields SrcFacts Msg SrcDecisions Cache Sim Browser BrowserSpec BrowserProofs.
Local Open Scope Z_scope.

(* PARTIAL (handler level).  updateService emits at most one notification: serviceAdded iff the instance is not in the map
   of added services, serviceUpdated only for an instance in the map whose stored description differs (Service::operator==,
   which compares every member - tie to service.cpp below), and in both cases stores the reported description; it reports
   only instances whose type equals the browser's type, unless the browser enumerates all types.  A removal names the
   service exactly as stored and removes it.  Hence, with "map of added services" as the life-cycle state, every
   notification of every handler respects added (updated)* removed.  The run-level statement over whole histories
   (several browsers, shared caches, timers) is decided on every run by the acceptor mon_browser (codes 50-55). *)
Theorem C14_update_service_partial j v fq b :
  let '(need, b', es) := update_service j v fq b in
  let '(sname, stype) := split_fq fq in
  let key := bs_data fq in
  (es = [] /\ (b_services b' = b_services b \/
               exists s, smap_find key (b_services b) = Some s /\ exists s', service_eqb s s' = true /\ b_services b' = smap_insert key s' (b_services b)))
  \/
  (exists srv s, lookup_view stype T_PTR v <> [] /\ hd_error (lookup_view fq T_SRV v) = Some srv /\
     s = mkService stype sname (r_target srv) (r_port srv) (merged_attrs fq v) /\
     (bs_eqb (b_type b) (Some browse_type) = true \/ bs_eqb stype (b_type b) = true) /\
     b_services b' = smap_insert key s (b_services b) /\
     ((smap_find key (b_services b) = None /\ es = [ESig (N.of_nat j) SIG_serviceAdded (PService s)]) \/
      (exists old, smap_find key (b_services b) = Some old /\ service_eqb old s = false /\
                   es = [ESig (N.of_nat j) SIG_serviceUpdated (PService s)]))).
Proof. exact (update_service_spec j v fq b). Qed.
Print Assumptions C14_update_service_partial.

Theorem C14_removal_names_stored_partial j v r b :
  r_type r = T_SRV ->
  let '(b', es) := on_record_expired j v r b in
  (es = [] /\ b' = b) \/
  (exists s, smap_find (bs_data (r_name r)) (b_services b) = Some s /\
             es = [ESig (N.of_nat j) SIG_serviceRemoved (PService s)] /\
             b_services b' = smap_remove (bs_data (r_name r)) (b_services b)).
Proof. exact (record_expired_srv_spec j v r b). Qed.
Print Assumptions C14_removal_names_stored_partial.

Theorem C14_equality_compares_every_field : forallb (fun f => existsb (sfield_eqb f) service_eq_fields) all_sfields = true.
Proof. exact service_eq_all_fields. Qed.
Print Assumptions C14_equality_compares_every_field.
