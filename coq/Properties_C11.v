(* Properties_C11.v — a confirmed provider answers questions about its records correctly. *)
From QV Require Import Base Fields SrcFacts Msg SrcDecisions Sim Prober Hostname Provider ProviderSpec ProviderProofs.
Local Open Scope Z_scope.

(* For every provider state and every message: what ProviderPrivate::onMessageReceived sends is exactly what the
   declarative specification spec_prov_reply says: nothing when not confirmed, for responses, or when no PTR/SRV/TXT
   question names a served record; otherwise exactly one reply with (enumeration PTR if asked) (service PTR if asked
   and not listed as known) (SRV and TXT if the PTR is sent, or asked and not listed as known), the records as
   currently published; addressed by the reply rule (group of the querier's family for port 5353, otherwise unicast
   to address and port; transaction id copied; response flag set).  Question matching and known-answer conditions
   are the ones read from provider.cpp (SrcDecisions), Record::operator== is tied to "same name, type and data". *)
Theorem C11_answers p m :
  prov_on_message p m =
  match spec_prov_reply (pv_confirmed p) (pv_browse p) (pv_ptr p) (pv_srv p) (pv_txt p) m with
  | Some r => [ESend r] | None => [] end.
Proof. exact (prov_reply_spec p m). Qed.
Print Assumptions C11_answers.

(* non-vacuity: PTR question with the SRV listed as known -> PTR, SRV and TXT are all sent (SRV accompanies the PTR) *)
Example C11_example :
  let ty := Some [95;120;46]%N in let i := Some [105;46;95;120;46]%N in
  let ptr := set_target i (set_type 12 (set_name ty default_record)) in
  let srv := set_port 80 (set_type 33 (set_name i default_record)) in
  let txt := set_type 16 (set_name i default_record) in
  let m := mkMessage (A4 1) 5353 9 false false [mkQuery ty 12 false] [srv] in
  match spec_prov_reply true default_record ptr srv txt m with
  | Some r => length (m_records r) = 3%nat /\ m_addr r = A4 3758096635
  | None => False
  end.
Proof. vm_compute. auto. Qed.
