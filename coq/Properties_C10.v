From QV Require Import Base Fields SrcFacts Msg SrcDecisions Sim Prober Hostname Provider ProviderSpec.
