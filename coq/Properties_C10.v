(* Properties_C10.v — a provider never speaks for names it has not verified. *)
From QV Require Import Base Fields SrcFacts Msg SrcDecisions Sim Prober Hostname Provider ProviderSpec ProviderProofs.
Local Open Scope Z_scope.

(* In every state of the provider / hostname / prober composite reachable by ANY sequence of handler invocations
   (messages of every kind, any of the timers firing at any instant - early, on time or late -, update, destroy),
   every SRV record in every response the composite sends (announcement, answer or goodbye) has a target that is
   empty or one of the names under which the hostname object actually became registered (the ghost list G grows
   exactly when the registration timer handler sets the registered flag).  Never an unverified candidate. *)
Theorem C10_srv_targets_registered G c now ev :
  creachable G c -> all_ok (ghost_after G c ev) (snd (comp_handle now c ev)).
Proof. intro H. exact (proj2 (comp_step_ok G now c ev (creachable_PInv G c H))). Qed.
Print Assumptions C10_srv_targets_registered.

(* no answer before confirmation *)
Theorem C10_silent_until_confirmed p m : pv_confirmed p = false -> prov_on_message p m = [].
Proof. intro H. rewrite prov_reply_spec. unfold spec_prov_reply. rewrite H. reflexivity. Qed.
Print Assumptions C10_silent_until_confirmed.

(* PARTIAL: the clauses "no response before (registered, updated, probe completed)", "nonzero-TTL records carry the
   latest confirmed instance name" and "every goodbye names records announced before" are enforced on every run of
   the check by the extracted acceptor mon_provider (codes 10, 11, 12, 14) on the implementation's and the model's
   traces; their coupling proof (as done for C07) is not yet written. *)
