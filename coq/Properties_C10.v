(* Properties_C10.v — a provider never speaks for names it has not verified. *)
From QV Require Import Base Fields SrcFacts Msg SrcDecisions Cache CacheSpec Sim Prober Hostname Provider ProviderSpec ProviderProofs ProviderListener ProviderConverge ProviderGoodbye ProviderReply ProviderNames.
Local Open Scope Z_scope.

(* In every state of the provider / hostname / prober composite reachable by ANY sequence of handler invocations
   (messages of every kind, any of the timers firing at any instant - early, on time or late -, update, destroy),
   every SRV record in every response the composite sends (announcement, answer or goodbye) has a target that is
   empty or one of the names under which the hostname object actually became registered (the ghost list G grows
   exactly when the registration timer handler sets the registered flag).  Never an unverified candidate. *)
Theorem C10_srv_targets_registered G c now ev :
  creachable G c -> all_ok (ghost_after G c ev) (snd (comp_handle now c ev)).
Proof. intro H. exact (proj2 (comp_step_ok G now c ev (creachable_PInv G c H))). Qed.
Print Assumptions C10_srv_targets_registered.

(* no answer before confirmation *)
Theorem C10_silent_until_confirmed p m : pv_confirmed p = false -> prov_on_message p m = [].
Proof. intro H. rewrite prov_reply_spec. unfold spec_prov_reply. rewrite H. reflexivity. Qed.
Print Assumptions C10_silent_until_confirmed.

(* ---- run level: nothing before verification ---- *)

(* a handler invocation that neither starts nor ends with a confirmed provider multicasts no response at all (only
   questions: the hostname's and the prober's probes); together with C10_silent_until_confirmed (no unicast answer
   either) the provider is mute until a probe has completed *)
Theorem C10_mute_until_confirmed now c ev :
  pv_confirmed (cp_prov c) = false -> pv_confirmed (cp_prov (fst (comp_handle now c ev))) = false ->
  forall m, In (ESendAll m) (snd (comp_handle now c ev)) -> m_response m = false.
Proof. exact (unconfirmed_is_mute now c ev). Qed.
Print Assumptions C10_mute_until_confirmed.

(* and "confirmed" means verified, in every state reachable by any sequence of handler invocations: the application has
   supplied a service, the SRV proposal points at a host name (by C10_srv_targets_registered a registered one), and the
   confirmation was the completion of a probe (the flag is set by no other transition: C10_only_a_completed_probe_confirms) *)
Theorem C10_confirmed_means_verified c L g :
  kreach12 c L g -> pv_exists (cp_prov c) = true -> pv_confirmed (cp_prov c) = true ->
  pv_initialized (cp_prov c) = true /\ g <> None /\ bs_data (r_target (pv_srvP (cp_prov c))) <> [].
Proof.
  intros R E C. pose proof (kreach12_inv _ _ _ R) as K. pose proof (lreach_inv _ _ (kreach12_lreach _ _ _ R)) as I.
  pose proof (ci_conf_init _ _ I C) as In_. split; [exact In_|]. split; [exact (ki_noreq _ _ K E In_)|exact (ki_tgt _ _ K E C)].
Qed.
Print Assumptions C10_confirmed_means_verified.

Theorem C10_only_a_completed_probe_confirms now c ev :
  pv_confirmed (cp_prov c) = false -> pv_confirmed (cp_prov (fst (comp_handle now c ev))) = true ->
  ev = EvTimer T_PROBER /\ cp_prober c <> None.
Proof.
  intros C0 C1. destruct ev as [m|tid|a]; cbn [comp_handle] in C1.
  - exfalso. destruct (host_handle now (cp_host c) (EvMsg m)) as [h1 e1].
    destruct (match cp_prober c with Some pb => _ | None => (None, []) end) as [pb e3]. cbn in C1. congruence.
  - destruct (tid =? T_PROBER)%N eqn:E.
    + apply N.eqb_eq in E. subst. split; [reflexivity|]. destruct (cp_prober c); [discriminate|]. cbn in C1. congruence.
    + exfalso. destruct (host_handle now (cp_host c) (EvTimer tid)) as [h1 e1]. cbn [fst snd] in C1.
      assert (K : forall es c0, pv_confirmed (cp_prov (fst (with_hostname_slot c0 es))) = pv_confirmed (cp_prov c0)).
      { induction es as [|e es IH]; intro c0; cbn [with_hostname_slot]; [reflexivity|].
        assert (G : pv_confirmed (cp_prov (fst (let '(c2, e2) := with_hostname_slot c0 es in (c2, e :: e2)))) = pv_confirmed (cp_prov c0))
          by (specialize (IH c0); destruct (with_hostname_slot c0 es); exact IH).
        destruct e as [m|m|ob sg p|t ms|t|rs]; try exact G. destruct p as [|b|sv|a|r]; try exact G. destruct b as [n|]; [|exact G].
        destruct (sg =? SIG_hostnameChanged)%N; [|exact G].
        assert (H1 : pv_confirmed (cp_prov (fst (prov_on_hostname_changed c0 n))) = pv_confirmed (cp_prov c0)).
        { unfold prov_on_hostname_changed. destruct (negb (pv_exists (cp_prov c0))); [reflexivity|].
          match goal with |- context [if pv_initialized ?p1 then _ else _] => destruct (pv_initialized p1) end; [|reflexivity].
          match goal with |- context [confirm ?p1 ?pb] => destruct (confirm p1 pb) end. reflexivity. }
        destruct (prov_on_hostname_changed c0 n) as [c1 e1']. specialize (IH c1). destruct (with_hostname_slot c1 es). cbn [fst] in *. congruence. }
      rewrite K in C1. cbn in C1. congruence.
  - exfalso. destruct a as [| |s|].
    + cbn [fst] in C1. congruence.
    + cbn [fst cp_prov] in C1. destruct (h_reg (cp_host c)); cbn in C1; discriminate.
    + destruct (pv_exists (cp_prov c)); [|cbn [fst] in C1; congruence]. rewrite prov_update_eq in C1. unfold prov_update_old in C1.
      set (p := set_prov (cp_prov c) true (pv_confirmed (cp_prov c))) in *.
      match type of C1 with context [if negb (match bs_data (r_target (pv_srvP ?q)) with [] => true | _ :: _ => false end) then _ else _] => set (p1 := q) in * end.
      assert (E : pv_confirmed p1 = false) by (unfold p1, p; cbn; exact C0).
      destruct (negb (match bs_data (r_target (pv_srvP p1)) with [] => true | _ :: _ => false end)); [|cbn [fst cp_prov] in C1; congruence].
      rewrite E in C1. cbn [negb orb] in C1. destruct (confirm p1 (cp_prober c)). cbn [fst cp_prov] in C1. congruence.
    + destruct (pv_exists (cp_prov c)); [|cbn [fst] in C1; congruence]. rewrite C0 in C1. cbn in C1. discriminate.
Qed.
Print Assumptions C10_only_a_completed_probe_confirms.

(* The clauses "nonzero-TTL records carry the latest confirmed instance name" and "every goodbye names records announced
   before" are proved below for every history (C10_nonzero_ttl_records_carry_the_confirmed_name,
   C10_every_goodbye_names_an_announced_record) and are also enforced on every run of the implementation by the
   extracted acceptor mon_provider (codes 10, 11, 12, 14). *)

(* the decisions of Provider::update (is there a target yet, must the name be probed, is a probe for this very name
   pending, do the records point at a previous hostname) and the entry guard of onMessageReceived are regenerated from
   provider.cpp on every run (SrcDecisions.v); the model calls the generated definitions, and they are what the theorems
   of C10 - C13 were proved against (prov_update_old / prov_on_message_old in ProviderProofs.v spell that shape out): *)
Theorem C10_decisions_read_from_the_source :
  (forall c s, prov_update c s = prov_update_old c s) /\ (forall p m, prov_on_message p m = prov_on_message_old p m).
Proof. exact (conj prov_update_eq prov_on_message_eq). Qed.
Print Assumptions C10_decisions_read_from_the_source.

(* The clause "every goodbye names records announced before", for every history of the hostname + provider + prober
   composite: read in order against the passive RFC 6762 listener of C13 (which holds what was announced with a nonzero
   TTL and not withdrawn since), every TTL-0 record of every multicast response of every handler invocation has the
   data of a record the listener holds at that moment. *)
Theorem C10_every_goodbye_names_an_announced_record c L now ev :
  lreach c L -> one_provider c ev -> gb_ok L (snd (comp_handle now c ev)).
Proof. exact (goodbyes_name_announced_records c L now ev). Qed.
Print Assumptions C10_every_goodbye_names_an_announced_record.

(* gb_ok is not trivially true: a goodbye heard by a listener that holds nothing is rejected *)
Example C10_goodbye_for_nothing_is_rejected : ~ gb_ok [] (snd (farewell prov_new)).
Proof.
  intros [H _]. destruct (H eq_refl (set_ttl 0 (pv_ptr prov_new))) as (r' & [] & _); [left; reflexivity|reflexivity].
Qed.

(* The clause "every service record it sends with a nonzero TTL carries the most recently confirmed instance name", for
   every history of the composite: G is the name handed over by the latest completed probe (conf_step); every
   nonzero-TTL PTR / SRV / TXT record of every multicast response of every handler invocation, and of every answer to a
   question, speaks for the instance G (rec_instance: the reading used by the acceptor, rule 11). *)
Theorem C10_nonzero_ttl_records_carry_the_confirmed_name c L G now ev :
  nreach c L G -> one_provider c ev ->
  names_ok (conf_step G c ev) (snd (comp_handle now c ev)) /\
  (forall m m', pv_exists (cp_prov c) = true -> In (ESend m') (prov_on_message (cp_prov c) m) -> carries G m').
Proof. exact (nonzero_ttl_records_carry_the_confirmed_name c L G now ev). Qed.
Print Assumptions C10_nonzero_ttl_records_carry_the_confirmed_name.

(* carries is not trivially true: an SRV record named otherwise is rejected *)
Example C10_foreign_name_is_rejected :
  let srv := set_ttl 120 (set_type 33 (set_name (Some [120; 46]%N) default_record)) in
  ~ carries (Some [121; 46]%N) (add_record srv (set_response true default_message)).
Proof.
  cbv zeta. intro H.
  specialize (H _ (or_introl eq_refl) ltac:(cbn; discriminate) _ eq_refl). discriminate.
Qed.
