(* Properties_C16.v — a resolver reports exactly the valid addresses of its host. *)
From QV Require Import Base Fields SrcFacts Msg SrcDecisions Cache Sim SimProofs Prober Resolver ResolverProofs ResolverInv CacheSpec CacheProofs ResolverAccept ResolverFuel.
Local Open Scope Z_scope.

(* PARTIAL.  Proved on the model: the shape of the initial query, soundness of the reports caused by responses
   (right name and type, nonzero TTL, not reported before), and that the received address records are stored.
   The full statement (every such address IS reported, the zero-delay report of the cached addresses, cache
   content) is enforced on every run by the acceptor mon_resolver on the implementation's and the model's traces. *)
Theorem C16_initial_query_partial s :
  m_response (res_query s) = false /\
  m_queries (res_query s) = [mkQuery (rs_name s) 1 false; mkQuery (rs_name s) 28 false] /\
  m_records (res_query s) = lookup (rs_name s) 1 (rs_cache s) ++ lookup (rs_name s) 28 (rs_cache s).
Proof. exact (res_query_shape s). Qed.
Print Assumptions C16_initial_query_partial.

Theorem C16_reports_sound_partial now rs s a :
  In (ESig OBJ SIG_resolved (PAddr a)) (snd (res_records now rs s)) ->
  exists r, In r rs /\ resolver_filter r (rs_name s) = true /\ r_ttl r <> 0%N /\ r_addr r = a /\
            existsb (addr_eqb a) (rs_addrs s) = false.
Proof. exact (res_records_sound now rs s a). Qed.
Print Assumptions C16_reports_sound_partial.

Theorem C16_filter_is_name_and_address_type r name :
  resolver_filter r name = bs_eqb (r_name r) name && ((r_type r =? 1)%N || (r_type r =? 28)%N).
Proof. exact (resolver_filter_spec r name). Qed.
Print Assumptions C16_filter_is_name_and_address_type.

Theorem C16_received_records_stored_partial now rs s :
  rs_cache (fst (res_records now rs s)) =
  fold_left (fun c r => fst (add now (rs_jitter s) r c)) (filter (fun r => resolver_filter r (rs_name s)) rs) (rs_cache s).
Proof. exact (res_records_cache now rs s). Qed.
Print Assumptions C16_received_records_stored_partial.

(* ---- full statements for the reports caused by responses ---- *)
(* the reports of one response are exactly [spec_reports]: in record order, the address of every A/AAAA record for
   exactly the name with nonzero TTL unless already reported; and they are appended to the resolver's memory *)
Theorem C16_response_reports now rs s :
  reports (snd (res_records now rs s)) = spec_reports (rs_name s) rs (rs_addrs s) /\
  rs_addrs (fst (res_records now rs s)) = rs_addrs s ++ spec_reports (rs_name s) rs (rs_addrs s) /\
  rs_name (fst (res_records now rs s)) = rs_name s /\ rs_active (fst (res_records now rs s)) = rs_active s.
Proof. exact (res_records_reports now rs s). Qed.
Print Assumptions C16_response_reports.

(* "reports an address only if ...": every reported address is new and comes from a qualifying record *)
Theorem C16_reports_only_valid name rs acc a :
  In a (spec_reports name rs acc) -> ~ In a acc /\ exists r, In r rs /\ qualifies name r = true /\ r_addr r = a.
Proof. exact (spec_reports_sound name rs acc a). Qed.
Print Assumptions C16_reports_only_valid.

(* "every such address is reported": now or earlier *)
Theorem C16_every_valid_address_reported name rs acc r :
  In r rs -> qualifies name r = true -> In (r_addr r) (acc ++ spec_reports name rs acc).
Proof. exact (spec_reports_complete name rs acc r). Qed.
Print Assumptions C16_every_valid_address_reported.

(* "no address is reported twice because of repeated responses": over any sequence of handler invocations at any
   instants, the ghost list of everything reported because of responses since the resolver was created equals the
   resolver's memory and holds no address twice *)
Theorem C16_never_twice evs s g :
  RInv s g -> RInv (fst (res_life evs s g)) (snd (res_life evs s g)).
Proof. exact (res_life_inv evs s g). Qed.
Print Assumptions C16_never_twice.

(* the same for every run of the executable model under the kernel *)
Theorem C16_never_twice_kernel fuel ops :
  NoDup (rs_addrs (s_st (state_after resst rapi res_handle fuel (mkSim 0 [] 0%N (mkRes empty_cache 0 None false [])) ops))).
Proof. exact (res_run_nodup fuel ops). Qed.
Print Assumptions C16_never_twice_kernel.

(* "present in the supplied cache when resolving starts": the zero-delay timer reports exactly the addresses of the
   A and AAAA records the cache returns for the name *)
Theorem C16_cached_addresses_reported now s :
  reports (snd (res_handle now s (EvTimer T_RES))) =
  map r_addr (lookup (rs_name s) 1 (rs_cache s) ++ lookup (rs_name s) 28 (rs_cache s)).
Proof. exact (res_timer_reports now s). Qed.
Print Assumptions C16_cached_addresses_reported.

Example C16_nonvacuous :
  let r := set_addr (A4 1) (set_ttl 120 (set_type 1 (set_name (Some [104]%N) default_record))) in
  spec_reports (Some [104]%N) [r; r] [] = [A4 1].
Proof. vm_compute. reflexivity. Qed.

(* ------------------------------------------------------------------ the whole property, over whole runs
   Resolver.mon_resolver is the acceptor written from the text of C16; it keeps its own reference RFC 6762 cache and
   rejects when - the creation question is not exactly the A + AAAA question for the name listing exactly the valid
   cached address records (1), - an address is reported that no valid record supports, or a due report is missing or
   out of order: the addresses of the unexpired cached records at creation, then each received address with nonzero
   TTL not reported before (2), - an address is reported twice because of repeated responses (3), - the cache content
   seen by lookups differs from the reference: received address records must be stored, goodbyes must withdraw (6).
   For EVERY script of cache additions, resolver creations (with a name), lookups, delivered messages and exact or
   "before" advances (TTLs up to 2 000 000 s, jitter 0..19, no fuel exhaustion) it accepts the run of the model of
   resolver.cpp + cache.cpp under the virtual-time kernel. *)
Theorem C16_every_run_is_accepted fuel ops :
  Forall rop_ok ops -> no_fuel_exhaustion (res_run fuel ops) -> mon_resolver ops (res_run fuel ops) = None.
Proof. exact (res_run_accepted fuel ops). Qed.
Print Assumptions C16_every_run_is_accepted.

(* the same with purely syntactic hypotheses: the kernel's fuel never runs out when it covers what the script can store
   (W = 1 + |cache_multipliers| triggers per stored record, cache_multipliers regenerated from cache.cpp), because every
   firing of the cache's timer consumes a trigger and the resolver's zero-delay timer fires once *)
Theorem C16_every_run_is_accepted_when_the_fuel_covers_the_script fuel ops :
  Forall rop_ok ops -> (W * weights ops + 3 <= fuel)%nat -> mon_resolver ops (res_run fuel ops) = None.
Proof. exact (res_run_accepted_syntactic fuel ops). Qed.
Print Assumptions C16_every_run_is_accepted_when_the_fuel_covers_the_script.

(* the acceptor is not vacuous: it accepts the real run below and rejects the same run when the address received in
   the response is not reported, and when the cached address is reported twice *)
Example C16_acceptor_discriminates :
  let h := Some [104; 46]%N in
  let a k := set_addr (A4 k) (set_ttl 120 (set_type 1 (set_name h default_record))) in
  let resp := mkMessage (A4 9) 5353 0 true false [] [a 2%N; a 2%N] in
  let ops := [AApi (RCadd (a 1%N) 7); AApi (RNew h); AAdv 0; ADeliver resp] in
  let sig k := OSignal 0 OBJ SIG_resolved (PAddr (A4 k)) in
  Forall rop_ok ops /\ no_fuel_exhaustion (res_run 50 ops) /\ (W * weights ops + 3 <= 50)%nat /\
  concat (skipn 2 (res_run 50 ops)) = [sig 1%N; sig 2%N] /\
  mon_resolver ops (firstn 3 (res_run 50 ops) ++ [[]]) = Some (3%N, 2%N) /\
  mon_resolver ops (firstn 2 (res_run 50 ops) ++ [[sig 1%N; sig 1%N]; [sig 2%N]]) <> None.
Proof.
  cbv zeta. split; [|split; [|split; [|split; [|split]]]].
  - repeat apply Forall_cons; try apply Forall_nil; cbn [rop_ok]; try exact I; try discriminate.
    all: try (split; [unfold ttl_ok; vm_compute; discriminate|lia]).
    all: repeat apply Forall_cons; try apply Forall_nil; unfold ttl_ok; vm_compute; discriminate.
  - unfold no_fuel_exhaustion. vm_compute. intros [H|[H|[H|[]]]]; discriminate.
  - vm_compute. lia.
  - vm_compute. reflexivity.
  - vm_compute. reflexivity.
  - vm_compute. discriminate.
Qed.

(* the two decisions of ResolverPrivate::onMessageReceived are regenerated from resolver.cpp on every run (SrcDecisions.v):
   which records are taken (resolver_filter, used by the model directly) and when an address is reported - the record is
   not a withdrawal and the address has not been reported before: *)
Theorem C16_report_decision_read_from_the_source r known :
  resolver_report r known = negb (r_ttl r =? 0)%N && negb known.
Proof. reflexivity. Qed.
Print Assumptions C16_report_decision_read_from_the_source.
