(* Properties_C16.v — a resolver reports exactly the valid addresses of its host (partial). *)
From QV Require Import Base Fields SrcFacts Msg SrcDecisions Cache Sim Prober Resolver ResolverProofs.
Local Open Scope Z_scope.

(* PARTIAL.  Proved on the model: the shape of the initial query, soundness of the reports caused by responses
   (right name and type, nonzero TTL, not reported before), and that the received address records are stored.
   The full statement (every such address IS reported, the zero-delay report of the cached addresses, cache
   content) is enforced on every run by the acceptor mon_resolver on the implementation's and the model's traces. *)
Theorem C16_initial_query_partial s :
  m_response (res_query s) = false /\
  m_queries (res_query s) = [mkQuery (rs_name s) 1 false; mkQuery (rs_name s) 28 false] /\
  m_records (res_query s) = lookup (rs_name s) 1 (rs_cache s) ++ lookup (rs_name s) 28 (rs_cache s).
Proof. exact (res_query_shape s). Qed.
Print Assumptions C16_initial_query_partial.

Theorem C16_reports_sound_partial now rs s a :
  In (ESig OBJ SIG_resolved (PAddr a)) (snd (res_records now rs s)) ->
  exists r, In r rs /\ resolver_filter r (rs_name s) = true /\ r_ttl r <> 0%N /\ r_addr r = a /\
            existsb (addr_eqb a) (rs_addrs s) = false.
Proof. exact (res_records_sound now rs s a). Qed.
Print Assumptions C16_reports_sound_partial.

Theorem C16_filter_is_name_and_address_type r name :
  resolver_filter r name = bs_eqb (r_name r) name && ((r_type r =? 1)%N || (r_type r =? 28)%N).
Proof. exact (resolver_filter_spec r name). Qed.
Print Assumptions C16_filter_is_name_and_address_type.

Theorem C16_received_records_stored_partial now rs s :
  rs_cache (fst (res_records now rs s)) =
  fold_left (fun c r => fst (add now (rs_jitter s) r c)) (filter (fun r => resolver_filter r (rs_name s)) rs) (rs_cache s).
Proof. exact (res_records_cache now rs s). Qed.
Print Assumptions C16_received_records_stored_partial.
