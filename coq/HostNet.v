(* HostNet.v — C09 for host names, over whole schedules of a two-host network without loss and without delay: an incumbent
   that is registered (and not re-asserting) keeps a newcomer from ever registering the same name. *)
From QV Require Import Base Fields SrcFacts Msg SrcDecisions Sim Prober Hostname HostnameProofs.
From Coq Require Import ZifyBool ZifyNat ZifyN.
Local Open Scope Z_scope.

(* what a host puts on the wire, and how it arrives: from the sender's address, on the mDNS port *)
Definition out_msgs (es : list eff) : list message :=
  flat_map (fun e => match e with ESend m | ESendAll m => [m] | _ => [] end) es.
Definition stamp (src : addr) (m : message) : message :=
  mkMessage src 5353 (m_id m) (m_response m) (m_truncated m) (m_queries m) (m_records m).

Record net := mkNet { nA : hostst; nB : hostst; toA : list message; toB : list message }.

Section Net.
  Variables srcA srcB : addr.     (* the address under which each host's packets reach the other *)

  (* no loss, no delay: a packet in flight is delivered before any timer fires; the incumbent A runs no timer (it stays
     registered: the open finding dup-hostname:incumbent-reprobing is about exactly the excluded case) *)
  Inductive nstep : net -> net -> Prop :=
  | ns_A now s m rest : toA s = m :: rest ->
      nstep s (mkNet (fst (host_handle now (nA s) (EvMsg m))) (nB s) rest
                     (toB s ++ map (stamp srcA) (out_msgs (snd (host_handle now (nA s) (EvMsg m))))))
  | ns_B now s m rest : toB s = m :: rest ->
      nstep s (mkNet (nA s) (fst (host_handle now (nB s) (EvMsg m)))
                     (toA s ++ map (stamp srcB) (out_msgs (snd (host_handle now (nB s) (EvMsg m))))) rest)
  | ns_Btimer now s tid : toA s = [] -> toB s = [] ->
      nstep s (mkNet (nA s) (fst (host_handle now (nB s) (EvTimer tid)))
                     (map (stamp srcB) (out_msgs (snd (host_handle now (nB s) (EvTimer tid))))) []).

  Inductive nreach (s0 : net) : net -> Prop :=
  | nr_refl : nreach s0 s0
  | nr_step s s' : nreach s0 s -> nstep s s' -> nreach s0 s'.

  Definition is_probe_of (n : bytes) (m : message) : Prop := m = host_probe n srcB.
  Definition conflicts (n : bytes) (m : message) : Prop :=
    m_response m = true /\ exists r, In r (m_records m) /\ hostname_conflict r n = true.

  Definition Inv (n : bytes) (s : net) : Prop :=
    h_reg (nA s) = true /\ h_name (nA s) = n /\
    (spec_address srcB 1 (h_ifaces (nA s)) <> None \/ spec_address srcB 28 (h_ifaces (nA s)) <> None) /\
    (h_reg (nB s) = true -> h_name (nB s) <> n) /\
    (h_reg (nB s) = false -> h_name (nB s) = n ->
       (exists m, In m (toA s) /\ is_probe_of n m) \/ (exists m, In m (toB s) /\ conflicts n m)).

  (* ---- the incumbent ---- *)
  Lemma registered_unchanged now h m : h_reg h = true -> fst (host_handle now h (EvMsg m)) = h.
  Proof.
    intro R. cbn [host_handle]. rewrite R. destruct (m_response m); [reflexivity|]. cbn [negb].
    destruct (host_answers h (m_addr m) (m_queries m)); reflexivity.
  Qed.

  Lemma incumbent_answers now h n :
    h_reg h = true -> h_name h = n ->
    (spec_address srcB 1 (h_ifaces h) <> None \/ spec_address srcB 28 (h_ifaces h) <> None) ->
    exists reply, out_msgs (snd (host_handle now h (EvMsg (host_probe n srcB)))) = [reply] /\ conflicts n (stamp srcA reply).
  Proof.
    intros R Hn Hs. rewrite (host_query_reply now h (host_probe n srcB) eq_refl). cbn [snd].
    unfold spec_host_reply. rewrite R, Hn. cbn [negb orb host_probe m_response m_queries m_addr m_port m_id].
    rewrite spec_answers_probe.
    destruct (spec_address srcB 1 (h_ifaces h)) as [a4|] eqn:S4; destruct (spec_address srcB 28 (h_ifaces h)) as [a6|] eqn:S6; cbn [app].
    - eexists. split; [reflexivity|]. split; [reflexivity|]. exists (addr_answer n 1 a4). split; [left; reflexivity|apply conflict_of_answer; auto].
    - eexists. split; [reflexivity|]. split; [reflexivity|]. exists (addr_answer n 1 a4). split; [left; reflexivity|apply conflict_of_answer; auto].
    - eexists. split; [reflexivity|]. split; [reflexivity|]. exists (addr_answer n 28 a6). split; [left; reflexivity|apply conflict_of_answer; auto].
    - destruct Hs as [X|X]; congruence.
  Qed.

  (* ---- the newcomer: whenever it ends a handler under some name it did not hold before, it has just probed that name ---- *)
  Lemma assert_probe h : out_msgs (snd (assert_hostname h)) = [mkMessage ANull 0 0 false false
       [mkQuery (Some (h_name (fst (assert_hostname h)))) T_A false; mkQuery (Some (h_name (fst (assert_hostname h)))) T_AAAA false] []].
  Proof. reflexivity. Qed.

  Lemma host_records_probe : forall rs h,
    (fst (host_records rs h) = h /\ snd (host_records rs h) = []) \/
    (In (host_probe (h_name (fst (host_records rs h))) srcB) (map (stamp srcB) (out_msgs (snd (host_records rs h)))) /\
     h_reg (fst (host_records rs h)) = h_reg h).
  Proof.
    induction rs as [|r rs IH]; intro h; cbn [host_records]; [left; auto|].
    destruct (hostname_conflict r (h_name h)); [|apply IH]. right.
    set (hk := set_host h (h_name h) (h_prev h) (h_reg h) (h_suffix h + 1)).
    pose proof (assert_probe hk) as AP. assert (AR : h_reg (fst (assert_hostname hk)) = h_reg h) by reflexivity.
    destruct (assert_hostname hk) as [h1 e1]. cbn [fst snd] in *.
    specialize (IH h1). destruct (host_records rs h1) as [h2 e2]. cbn [fst snd] in *.
    unfold out_msgs in *. rewrite flat_map_app, map_app.
    destruct IH as [[-> ->]|[I1 I2]].
    - split; [|exact AR]. apply in_app_iff. left. rewrite AP. left. reflexivity.
    - split; [apply in_app_iff; right; exact I1|congruence].
  Qed.

  Lemma no_conflict_unchanged : forall rs h, (forall r, In r rs -> hostname_conflict r (h_name h) = false) ->
    host_records rs h = (h, []).
  Proof.
    induction rs as [|r rs IH]; intros h H; cbn [host_records]; [reflexivity|].
    rewrite (H r (or_introl eq_refl)). apply IH. intros r0 H0. apply H. right. exact H0.
  Qed.

  Theorem nstep_inv n s s' : Inv n s -> nstep s s' -> Inv n s'.
  Proof.
    intros (A1 & A2 & A3 & B1 & B2) St. destruct St as [now s m rest Hq|now s m rest Hq|now s tid HqA HqB]; unfold Inv; cbn [nA nB toA toB].
    - (* a packet reaches the incumbent: it does not change; a probe for its name is answered with a conflicting record *)
      rewrite (registered_unchanged now (nA s) m A1). split; [exact A1|]. split; [exact A2|]. split; [exact A3|]. split; [exact B1|].
      intros R Hn. destruct (B2 R Hn) as [(m0 & Hin & Hp)|(m0 & Hin & Hc)].
      + rewrite Hq in Hin. destruct Hin as [<-|Hin]; [|left; exists m0; auto].
        unfold is_probe_of in Hp. subst m. destruct (incumbent_answers now (nA s) n A1 A2 A3) as (reply & Hr & Hc).
        right. exists (stamp srcA reply). split; [|exact Hc]. apply in_app_iff. right. rewrite Hr. left. reflexivity.
      + right. exists m0. split; [apply in_app_iff; left; exact Hin|exact Hc].
    - (* a packet reaches the newcomer *)
      split; [exact A1|]. split; [exact A2|]. split; [exact A3|].
      destruct (h_reg (nB s)) eqn:R.
      + rewrite (registered_unchanged now (nB s) m R). split; [intros _; exact (B1 eq_refl)|]. intro X. congruence.
      + cbn [host_handle]. rewrite R. destruct (m_response m) eqn:Rs.
        * destruct (host_records_probe (m_records m) (nB s)) as [[E1 E2]|[P1 P2]].
          -- rewrite E1, E2. split; [intro X; congruence|]. intros _ Hn. destruct (B2 eq_refl Hn) as [(m0 & Hin & Hp)|(m0 & Hin & Hc)].
             ++ left. exists m0. split; [cbn; rewrite app_nil_r; exact Hin|exact Hp].
             ++ rewrite Hq in Hin. destruct Hin as [<-|Hin]; [|right; exists m0; auto].
                (* the conflicting record would have moved it on *)
                exfalso. destruct Hc as (_ & r & Hr & Hc). rewrite <- Hn in Hc.
                assert (X : host_records (m_records m) (nB s) <> (nB s, [])).
                { clear E1 E2. revert Hr. generalize (m_records m). induction l as [|r0 l IHl]; intros Hr; [destruct Hr|]. cbn [host_records].
                  destruct (hostname_conflict r0 (h_name (nB s))) eqn:C0.
                  - unfold assert_hostname. match goal with |- context [host_records l ?h1] => destruct (host_records l h1) as [h2 e2] end.
                    intro Y. injection Y as _ Y. discriminate.
                  - destruct Hr as [->|Hr]; [congruence|]. apply IHl, Hr. }
                apply X. destruct (host_records (m_records m) (nB s)) as [h' es']. cbn [fst snd] in *. congruence.
          -- split; [intro X; congruence|]. intros _ Hn. left. exists (host_probe n srcB). split; [|reflexivity].
             apply in_app_iff. right. rewrite <- Hn. exact P1.
        * cbn [negb fst snd out_msgs flat_map map]. rewrite app_nil_r. split; [intro X; congruence|]. intros _ Hn.
          destruct (B2 eq_refl Hn) as [(m0 & Hin & Hp)|(m0 & Hin & Hc)]; [left; exists m0; auto|].
          rewrite Hq in Hin. destruct Hin as [<-|Hin]; [destruct Hc as (Hc & _); congruence|right; exists m0; auto].
    - (* a timer of the newcomer, with nothing in flight *)
      split; [exact A1|]. split; [exact A2|]. split; [exact A3|]. cbn [host_handle].
      destruct (tid =? T_REG)%N.
      + cbn [fst set_host h_reg h_name]. split; [|intro X; discriminate]. intros _ Hn.
        destruct (h_reg (nB s)) eqn:R; [exact (B1 eq_refl Hn)|].
        destruct (B2 eq_refl Hn) as [(m0 & Hin & _)|(m0 & Hin & _)]; [rewrite HqA in Hin|rewrite HqB in Hin]; destruct Hin.
      + unfold on_rebroadcast. set (h0 := set_host (nB s) (h_name (nB s)) (h_name (nB s)) false 1).
        pose proof (assert_probe h0) as AP. assert (AR : h_reg (fst (assert_hostname h0)) = false) by reflexivity.
        destruct (assert_hostname h0) as [h1 e1]. cbn [fst snd] in *. rewrite AR. split; [intro X; discriminate|].
        intros _ Hn. left. exists (host_probe n srcB). split; [|reflexivity]. rewrite AP, Hn. left. reflexivity.
  Qed.

  Theorem incumbent_keeps_its_name n s0 s :
    Inv n s0 -> nreach s0 s -> h_reg (nB s) = true -> h_name (nB s) <> h_name (nA s).
  Proof.
    intros I0 R. assert (I : Inv n s) by (induction R as [|s s' _ IH St]; [exact I0|exact (nstep_inv n s s' IH St)]).
    destruct I as (_ & A2 & _ & B1 & _). rewrite A2. exact B1.
  Qed.
End Net.
