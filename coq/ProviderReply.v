(* ProviderReply.v — C13, acceptor rule 43 on the model: whatever a provider answers to a question is, apart from the
   service-type enumeration record, a record a passive listener of its multicast announcements holds. *)
From QV Require Import Base Fields SrcFacts Msg SrcDecisions Cache CacheSpec Sim Prober Hostname Provider ProviderSpec ProviderProofs ProviderListener.
Local Open Scope Z_scope.

Lemma reply_records p m m' : In (ESend m') (prov_on_message p m) ->
  pv_confirmed p = true /\ forall r, In r (m_records m') -> r = pv_browse p \/ In r [pv_ptr p; pv_srv p; pv_txt p].
Proof.
  rewrite prov_on_message_eq. unfold prov_on_message_old. destruct (pv_confirmed p); cbn [negb orb]; [|intros []].
  destruct (m_response m); [intros []|].
  destruct (fold_left _ (m_queries m) (false, false, false, false)) as [[[sb sp] ss] st].
  destruct (fold_left _ (m_records m) (sp, ss, st)) as [[sp' ss'] st'].
  destruct (sb || sp' || (sp' || ss') || (sp' || st')); [|intros []].
  intros [H|[]]. injection H as <-. split; [reflexivity|]. cbn [m_records]. intros r Hr.
  repeat (apply in_app_iff in Hr as [Hr|Hr]).
  - destruct sb; [destruct Hr as [<-|[]]; left; reflexivity|destruct Hr].
  - destruct sp'; [destruct Hr as [<-|[]]; right; left; reflexivity|destruct Hr].
  - destruct (sp' || ss'); [destruct Hr as [<-|[]]; right; right; left; reflexivity|destruct Hr].
  - destruct (sp' || st'); [destruct Hr as [<-|[]]; right; right; right; left; reflexivity|destruct Hr].
Qed.

(* for every state a provider reaches together with a passive listener of its multicast responses *)
Theorem replies_are_announced c L m m' : lreach c L -> pv_exists (cp_prov c) = true ->
  In (ESend m') (prov_on_message (cp_prov c) m) ->
  forall r, In r (m_records m') -> r = pv_browse (cp_prov c) \/ In r L.
Proof.
  intros R Hex Hin r Hr. destruct (reply_records _ _ _ Hin) as [Hc Hrec].
  destruct (ci_served _ _ (lreach_inv c L R) Hex Hc) as (_ & _ & _ & _ & ->). apply Hrec, Hr.
Qed.
