(* Properties_C04.v — end to end, browsers converge to the services actually offered (partial). *)
From QV Require Import Base Fields SrcFacts Msg SrcDecisions Cache CacheSpec Sim Prober Hostname Provider ProviderSpec ProviderListener Browser BrowserProofs NetProofs.
Local Open Scope Z_scope.

(* PARTIAL.  The end-to-end statement quantifies over networks, delays, duplications and histories; it is decided on
   every run on simulated networks of the REAL stacks exchanging packets through the real codec (engine "net"), judged
   against the ground truth of the script.  What is proved here is the single hop on the tied component models:
   - the provider's announcement is the response [PTR; SRV; TXT] of its published records;
   - a browser of that type (or enumerating all types) that holds exactly those records and has not reported the
     instance reports it as added with the provider's type, name, SRV target, port and (normalised) attributes;
   together with C01/C02 (the packet decodes to the message sent), C13 (what a listener's cache holds), C05/C06 (cache
   content = valid records), C14/C15 (removal on goodbye / expiry) these are the steps of the convergence argument in
   DESIGN.md section 4 (C04); the induction over the network schedule itself is not mechanised. *)
Theorem C04_announcement_shape_partial p :
  m_records (announce_msg p) = [pv_ptr p; pv_srv p; pv_txt p] /\ m_response (announce_msg p) = true.
Proof. exact (announce_records p). Qed.
Print Assumptions C04_announcement_shape_partial.

Theorem C04_announcement_reported_partial j ptr srv txt (T nm : list N) b :
  announces ptr srv txt T nm -> index_of DOT nm = None -> T <> [] ->
  (bs_eqb (b_type b) (Some browse_type) = true \/ b_type b = Some T) ->
  smap_find (nm ++ DOT :: T) (b_services b) = None ->
  snd (update_service j [ptr; srv; txt] (Some (nm ++ DOT :: T)) b) =
  [ESig (N.of_nat j) SIG_serviceAdded
        (PService (mkService (Some T) (Some nm) (r_target srv) (r_port srv)
                             (fold_left (fun a kv => attrs_insert (fst kv) (snd kv) a) (r_attrs txt) [])))].
Proof. exact (announcement_reported j ptr srv txt T nm b). Qed.
Print Assumptions C04_announcement_reported_partial.

(* A further hop, for every history of a provider: a remote cache - the library's own Cache::addRecord, model Cache.v -
   that hears every multicast response of the hostname + provider + prober composite, in order, at any instants and with
   any jitter, without loss and without a record expiring in between, holds exactly the provider's current PTR, SRV and
   TXT records while the provider exists and is confirmed, and none of them otherwise (never confirmed, or destroyed).
   This composes the run-level listener invariant of C13 with the cache's replacement rule of C06
   (cache_refines_listener: Cache::addRecord refines the abstract RFC 6762 listener step). *)
Theorem C04_remote_cache_holds_the_served_records_partial c L C :
  lcreach c L C ->
  (pv_exists (cp_prov c) = true -> pv_confirmed (cp_prov c) = true ->
   held C = [pv_ptr (cp_prov c); pv_srv (cp_prov c); pv_txt (cp_prov c)]) /\
  (pv_exists (cp_prov c) && pv_confirmed (cp_prov c) = false -> held C = []).
Proof. intro R. destruct (remote_cache_holds_served c L C R) as (_ & _ & A & B). exact (conj A B). Qed.
Print Assumptions C04_remote_cache_holds_the_served_records_partial.
