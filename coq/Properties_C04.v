From QV Require Import Base Fields SrcFacts Msg.
