(* Properties_C04.v — end to end, browsers converge to the services actually offered (partial). *)
From QV Require Import Base Fields SrcFacts Msg SrcDecisions Cache CacheSpec Sim Prober Hostname Provider ProviderSpec ProviderListener Browser BrowserProofs NetProofs NetHop NetPair NetLag NetTwo NetMany NetManyDup.
From QV Require Import Decoder Encoder WireSpec WireMsg DecoderMsg EncoderMsg.
Local Open Scope Z_scope.

(* PARTIAL.  The end-to-end statement quantifies over networks, delays, duplications and histories; it is decided on
   every run on simulated networks of the REAL stacks exchanging packets through the real codec (engine "net"), judged
   against the ground truth of the script.  What is proved here is the single hop on the tied component models:
   - the provider's announcement is the response [PTR; SRV; TXT] of its published records;
   - a browser of that type (or enumerating all types) that holds exactly those records and has not reported the
     instance reports it as added with the provider's type, name, SRV target, port and (normalised) attributes;
   together with C01/C02 (the packet decodes to the message sent), C13 (what a listener's cache holds), C05/C06 (cache
   content = valid records), C14/C15 (removal on goodbye / expiry) these are the steps of the convergence argument in
   DESIGN.md section 4 (C04).  The induction over the schedule is mechanised for the smallest network - one provider, one
   passive browser, lossless in-order link with or without duplicated multicasts, every provider history
   (C04_pair_converges_partial, C04_pair_converges_duplicated_partial at the end of this file); and on a FIFO link
   with arbitrary delay (C04_lagging_pair_converges_partial); for larger networks it is not. *)
Theorem C04_announcement_shape_partial p :
  m_records (announce_msg p) = [pv_ptr p; pv_srv p; pv_txt p] /\ m_response (announce_msg p) = true.
Proof. exact (announce_records p). Qed.
Print Assumptions C04_announcement_shape_partial.

Theorem C04_announcement_reported_partial j ptr srv txt (T nm : list N) b :
  announces ptr srv txt T nm -> index_of DOT nm = None -> T <> [] ->
  (bs_eqb (b_type b) (Some browse_type) = true \/ b_type b = Some T) ->
  smap_find (nm ++ DOT :: T) (b_services b) = None ->
  snd (update_service j [ptr; srv; txt] (Some (nm ++ DOT :: T)) b) =
  [ESig (N.of_nat j) SIG_serviceAdded
        (PService (mkService (Some T) (Some nm) (r_target srv) (r_port srv)
                             (fold_left (fun a kv => attrs_insert (fst kv) (snd kv) a) (r_attrs txt) [])))].
Proof. exact (announcement_reported j ptr srv txt T nm b). Qed.
Print Assumptions C04_announcement_reported_partial.

(* A further hop, for every history of a provider: a remote cache - the library's own Cache::addRecord, model Cache.v -
   that hears every multicast response of the hostname + provider + prober composite, in order, at any instants and with
   any jitter, without loss and without a record expiring in between, holds exactly the provider's current PTR, SRV and
   TXT records while the provider exists and is confirmed, and none of them otherwise (never confirmed, or destroyed).
   This composes the run-level listener invariant of C13 with the cache's replacement rule of C06
   (cache_refines_listener: Cache::addRecord refines the abstract RFC 6762 listener step). *)
Theorem C04_remote_cache_holds_the_served_records_partial c L C :
  lcreach c L C ->
  (pv_exists (cp_prov c) = true -> pv_confirmed (cp_prov c) = true ->
   held C = [pv_ptr (cp_prov c); pv_srv (cp_prov c); pv_txt (cp_prov c)]) /\
  (pv_exists (cp_prov c) && pv_confirmed (cp_prov c) = false -> held C = []).
Proof. intro R. destruct (remote_cache_holds_served c L C R) as (_ & _ & A & B). exact (conj A B). Qed.
Print Assumptions C04_remote_cache_holds_the_served_records_partial.

(* One hop, end to end on the models.  (1) A response carrying the three records of an announcement, heard by a browser
   of that type that has heard nothing yet, goes through the browser's message handler, its cache (the model of
   cache.cpp) and updateService, and is reported as serviceAdded with the announced type, name, target, port and
   attributes.  (2) In EVERY reachable state in which the provider is confirmed, what it serves has that shape, so its
   announcement is reported.  (3) ... also through the wire format: the packet the encoder produces for the announcement
   decodes (C01) to a message that yields the same report - provider state -> bytes -> browser notification. *)
Theorem C04_announcement_heard_partial now (ptr srv txt : record) (T nm : list N) addr port id :
  announces ptr srv txt T nm -> index_of DOT nm = None -> T <> [] -> bytes_eqb T browse_type = false ->
  (r_ttl ptr =? 0)%N = false -> (r_ttl srv =? 0)%N = false -> (r_ttl txt =? 0)%N = false ->
  In (ESig 0%N SIG_serviceAdded
        (PService (mkService (Some T) (Some nm) (r_target srv) (r_port srv)
                             (fold_left (fun a kv => attrs_insert (fst kv) (snd kv) a) (r_attrs txt) []))))
     (snd (browser_on_message now 0 (mkMessage addr port id true false [] [ptr; srv; txt])
                              (mkWorld [empty_cache] [mkBrowser (Some T) 0 [] [] []] 0))).
Proof. exact (announcement_heard now ptr srv txt T nm addr port id). Qed.
Print Assumptions C04_announcement_heard_partial.

Theorem C04_served_announcement_through_the_codec_partial c L (now : Z) (T : list N) :
  lreach c L -> pv_exists (cp_prov c) = true -> pv_confirmed (cp_prov c) = true ->
  r_name (pv_ptr (cp_prov c)) = Some T -> T <> [] -> bytes_eqb T browse_type = false ->
  let p := cp_prov c in
  wf_message (announce_msg p) ->
  exists (m' : message) (nm : list N), decode (to_packet (announce_msg p)) = Ok m' /\ r_name (pv_srv p) = Some (nm ++ DOT :: T) /\
    In (ESig 0%N SIG_serviceAdded
          (PService (mkService (Some T) (Some nm) (r_target (pv_srv p)) (r_port (pv_srv p))
                               (fold_left (fun a kv => attrs_insert (fst kv) (snd kv) a) (r_attrs (pv_txt p)) []))))
       (snd (browser_on_message now 0 m' (mkWorld [empty_cache] [mkBrowser (Some T) 0 [] [] []] 0))).
Proof. exact (served_announcement_through_the_codec c L now T). Qed.
Print Assumptions C04_served_announcement_through_the_codec_partial.

(* non-vacuity, by computation: register the host name, offer "a" of type "_t.", let the probe complete; the announcement
   is encoded, decoded and handed to a fresh browser of type "_t.", which reports the service with port 80 *)
Example C04_hop_nonvacuous :
  let h0 := fst (on_rebroadcast (mkHost [118; 109]%N [] [] [] false 1)) in
  let svc := mkService (Some [95; 116; 46]%N) (Some [97]%N) None 80 [] in
  let evs := [(2000, EvTimer T_REG); (2000, EvApi PNewProv); (2000, EvApi (PUpdate svc)); (4000, EvTimer T_PROBER)] in
  let c := fold_left (fun c ne => fst (comp_handle (fst ne) c (snd ne))) evs (mkComp h0 no_prov None) in
  match decode (to_packet (announce_msg (cp_prov c))) with
  | Ok m' => map (fun e => match e with ESig ob sg (PService s) => (ob, sg, bs_data (s_name s), s_port s) | _ => (9, 9, [], 0)%N end)
                 (filter (fun e => match e with ESig _ _ _ => true | _ => false end)
                         (snd (browser_on_message 4100 0 m' (mkWorld [empty_cache] [mkBrowser (Some [95; 116; 46]%N) 0 [] [] []] 0))))
             = [(0, SIG_serviceAdded, [97], 80)]%N
  | _ => False
  end.
Proof. vm_compute. reflexivity. Qed.

(* The reverse hop: the goodbye a provider multicasts when it stops serving carries exactly the served records with TTL 0
   (every reachable confirmed state); a browser of its type that reports the instance and whose cache holds those records
   hears it - the cache drops the records, its expiry notification for the SRV record reaches the browser's slot - and
   reports the service as removed. *)
Theorem C04_served_goodbye_is_reported_partial c L now addr port id T b t1 t2 t3 nxt tm s :
  lreach c L -> pv_exists (cp_prov c) = true -> pv_confirmed (cp_prov c) = true ->
  r_name (pv_ptr (cp_prov c)) = Some T -> bytes_eqb T browse_type = false ->
  b_type b = Some T -> b_cache b = 0%nat ->
  let p := cp_prov c in
  smap_find (bs_data (r_name (pv_srv p))) (b_services b) = Some s -> bs_is_null (s_name s) = false ->
  In (ESig 0%N SIG_serviceRemoved (PService s))
     (snd (browser_on_message now 0 (mkMessage addr port id true false [] (m_records (announce_msg (fst (farewell p)))))
                              (mkWorld [mkCache [mkEntry (pv_ptr p) t1; mkEntry (pv_srv p) t2; mkEntry (pv_txt p) t3] nxt tm] [b] 0))).
Proof. exact (served_goodbye_is_reported c L now addr port id T b t1 t2 t3 nxt tm s). Qed.
Print Assumptions C04_served_goodbye_is_reported_partial.

(* non-vacuity, by computation: the run of C04_hop_nonvacuous continued - the provider is destroyed, its goodbye is
   encoded, decoded and handed to the browser in the state the announcement left it in: exactly one serviceRemoved *)
Example C04_goodbye_hop_nonvacuous :
  let h0 := fst (on_rebroadcast (mkHost [118; 109]%N [] [] [] false 1)) in
  let svc := mkService (Some [95; 116; 46]%N) (Some [97]%N) None 80 [] in
  let evs := [(2000, EvTimer T_REG); (2000, EvApi PNewProv); (2000, EvApi (PUpdate svc)); (4000, EvTimer T_PROBER)] in
  let c := fold_left (fun c ne => fst (comp_handle (fst ne) c (snd ne))) evs (mkComp h0 no_prov None) in
  let w0 := mkWorld [empty_cache] [mkBrowser (Some [95; 116; 46]%N) 0 [] [] []] 0 in
  let bye := match snd (comp_handle 9000 c (EvApi PDestroy)) with ESendAll m :: _ => m | _ => default_message end in
  match decode (to_packet (announce_msg (cp_prov c))), decode (to_packet bye) with
  | Ok m1, Ok m2 =>
      let w1 := fst (browser_on_message 4100 0 m1 w0) in
      map (fun e => match e with ESig ob sg (PService s) => (ob, sg, bs_data (s_name s)) | _ => (9, 9, [])%N end)
          (filter (fun e => match e with ESig _ _ _ => true | _ => false end) (snd (browser_on_message 9100 0 m2 w1)))
      = [(0, SIG_serviceRemoved, [97])]%N
  | _, _ => False
  end.
Proof. vm_compute. reflexivity. Qed.

(* The update hop (C13: "changed SRV or TXT data under an unchanged name is announced so that it replaces the old data in
   receivers' caches"): a browser that reports the instance and holds the three announced records hears a new
   announcement whose SRV record - cache-flush bit set, same name - carries other data; the cache replaces the old SRV
   record and the service is reported as updated with the new description. *)
Theorem C04_replacement_heard_partial now (ptr srv srv' txt : record) (T nm : list N) addr port id b t1 t2 t3 nxt tm old :
  announces ptr srv txt T nm -> announces ptr srv' txt T nm -> r_flush srv' = true ->
  index_of DOT nm = None -> T <> [] -> bytes_eqb T browse_type = false ->
  (r_ttl ptr =? 0)%N = false -> (r_ttl srv' =? 0)%N = false -> (r_ttl txt =? 0)%N = false ->
  b_type b = Some T -> b_cache b = 0%nat ->
  smap_find (nm ++ DOT :: T) (b_services b) = Some old ->
  let s := mkService (Some T) (Some nm) (r_target srv') (r_port srv')
                     (fold_left (fun a kv => attrs_insert (fst kv) (snd kv) a) (r_attrs txt) []) in
  service_eqb old s = false ->
  In (ESig 0%N SIG_serviceUpdated (PService s))
     (snd (browser_on_message now 0 (mkMessage addr port id true false [] [ptr; srv'; txt])
                              (mkWorld [mkCache [mkEntry ptr t1; mkEntry srv t2; mkEntry txt t3] nxt tm] [b] 0))).
Proof. exact (replacement_heard now ptr srv srv' txt T nm addr port id b t1 t2 t3 nxt tm old). Qed.
Print Assumptions C04_replacement_heard_partial.

(* non-vacuity, by computation: after the announcement of C04_hop_nonvacuous the application changes the port to 81; the
   provider (confirmed under that name) re-announces, the packet is decoded and handed to the browser: one serviceUpdated *)
Example C04_update_hop_nonvacuous :
  let h0 := fst (on_rebroadcast (mkHost [118; 109]%N [] [] [] false 1)) in
  let svc := fun po => mkService (Some [95; 116; 46]%N) (Some [97]%N) None po [] in
  let evs := [(2000, EvTimer T_REG); (2000, EvApi PNewProv); (2000, EvApi (PUpdate (svc 80%N))); (4000, EvTimer T_PROBER)] in
  let c := fold_left (fun c ne => fst (comp_handle (fst ne) c (snd ne))) evs (mkComp h0 no_prov None) in
  let w0 := mkWorld [empty_cache] [mkBrowser (Some [95; 116; 46]%N) 0 [] [] []] 0 in
  let again := match filter (fun e => match e with ESendAll _ => true | _ => false end) (snd (comp_handle 5000 c (EvApi (PUpdate (svc 81%N))))) with
               | ESendAll m :: _ => m | _ => default_message end in
  match decode (to_packet (announce_msg (cp_prov c))), decode (to_packet again) with
  | Ok m1, Ok m2 =>
      let w1 := fst (browser_on_message 4100 0 m1 w0) in
      map (fun e => match e with ESig ob sg (PService s) => (ob, sg, bs_data (s_name s), s_port s) | _ => (9, 9, [], 0)%N end)
          (filter (fun e => match e with ESig _ _ _ => true | _ => false end) (snd (browser_on_message 5100 0 m2 w1)))
      = [(0, SIG_serviceUpdated, [97], 81)]%N
  | _, _ => False
  end.
Proof. vm_compute. reflexivity. Qed.

(* The smallest network, over EVERY history of the provider (NetPair.v).  [preach T c L w]: the hostname + provider +
   prober composite has gone through any sequence of handler invocations (messages of every kind, timers firing at any
   instants, update with a service of type T, destruction, re-creation) and a passive browser of type T - or one that enumerates all types - has heard every
   multicast response it sent, in order, without loss (bhear: the browser's own onMessageReceived, cache and
   updateService).  Then, after every handler invocation: while the provider exists and is confirmed the browser reports
   exactly one service - the served type, instance name, SRV target, port and TXT attributes - and its cache holds
   exactly the served PTR, SRV and TXT records; otherwise it reports none and its cache is empty.  (No record expires:
   the statement is about histories shorter than the TTLs; T is neither empty nor the enumeration name.) *)
Theorem C04_pair_converges_partial T c L w :
  T <> [] -> bytes_eqb T browse_type = false -> preach bhear T c L w ->
  exists cch b, w = mkWorld [cch] [b] 0 /\
    (pv_exists (cp_prov c) = true -> pv_confirmed (cp_prov c) = true ->
       exists nm, r_name (pv_srv (cp_prov c)) = Some (nm ++ DOT :: T) /\
                  b_services b = [(nm ++ DOT :: T, svc_of T nm (pv_srv (cp_prov c)) (pv_txt (cp_prov c)))] /\
                  held cch = [pv_ptr (cp_prov c); pv_srv (cp_prov c); pv_txt (cp_prov c)]) /\
    (pv_exists (cp_prov c) && pv_confirmed (cp_prov c) = false -> b_services b = [] /\ held cch = []).
Proof. exact (pair_converges_once T c L w). Qed.
Print Assumptions C04_pair_converges_partial.

(* the same when multicasts are duplicated: every multicast response arrives 1 + d(message) times in a row, for any d *)
Theorem C04_pair_converges_duplicated_partial (d : message -> nat) T c L w :
  T <> [] -> bytes_eqb T browse_type = false -> preach (bheard d) T c L w ->
  exists cch b, w = mkWorld [cch] [b] 0 /\
    (pv_exists (cp_prov c) = true -> pv_confirmed (cp_prov c) = true ->
       exists nm, r_name (pv_srv (cp_prov c)) = Some (nm ++ DOT :: T) /\
                  b_services b = [(nm ++ DOT :: T, svc_of T nm (pv_srv (cp_prov c)) (pv_txt (cp_prov c)))] /\
                  held cch = [pv_ptr (cp_prov c); pv_srv (cp_prov c); pv_txt (cp_prov c)]) /\
    (pv_exists (cp_prov c) && pv_confirmed (cp_prov c) = false -> b_services b = [] /\ held cch = []).
Proof. exact (pair_converges_duplicated d T c L w). Qed.
Print Assumptions C04_pair_converges_duplicated_partial.

(* non-vacuity: the history register - create - update - probe completes is a [preach] history ending confirmed *)
Example C04_pair_nonvacuous :
  let T := [95; 116; 46]%N in
  let svc := mkService (Some T) (Some [97]%N) None 80 [] in
  exists c L w, preach bhear T c L w /\ pv_exists (cp_prov c) = true /\ pv_confirmed (cp_prov c) = true /\ length L = 3%nat.
Proof.
  cbv zeta. eexists. eexists. eexists. split.
  - eapply (pr_step bhear _ _ _ _ 4000 4000 (EvTimer T_PROBER)).
    + eapply (pr_step bhear _ _ _ _ 2000 2000 (EvApi (PUpdate (mkService (Some [95; 116; 46]%N) (Some [97]%N) None 80 [])))).
      * eapply (pr_step bhear _ _ _ _ 2000 2000 (EvApi PNewProv)).
        -- eapply (pr_step bhear _ _ _ _ 2000 2000 (EvTimer T_REG)).
           ++ apply (pr_init bhear _ [118; 109]%N [] (Some [95; 116; 46]%N)). left. reflexivity.
           ++ exact I.
           ++ exact I.
        -- vm_compute. reflexivity.
        -- exact I.
      * exact I.
      * reflexivity.
    + exact I.
    + exact I.
  - vm_compute. repeat split.
Qed.

(* A FIFO link with arbitrary delay (NetLag.v).  [qreach hear T c L q Lh w]: the provider's effects queue up on the link (q)
   and are delivered to the browser one at a time, at any later moments, interleaved in any way with the provider's
   further handler invocations (q_send / q_deliver in any order).  Whenever the link has drained, the browser reports
   exactly what the provider serves now - also when every multicast is delivered 1 + d(message) times.  The synchronous
   link of C04_pair_converges_partial is the special case "deliver everything before the provider goes on". *)
Theorem C04_lagging_pair_converges_partial T c L Lh w :
  T <> [] -> bytes_eqb T browse_type = false -> qreach bhear T c L [] Lh w ->
  exists cch b, w = mkWorld [cch] [b] 0 /\
    (pv_exists (cp_prov c) = true -> pv_confirmed (cp_prov c) = true ->
       exists nm, r_name (pv_srv (cp_prov c)) = Some (nm ++ DOT :: T) /\
                  b_services b = [(nm ++ DOT :: T, svc_of T nm (pv_srv (cp_prov c)) (pv_txt (cp_prov c)))] /\
                  held cch = [pv_ptr (cp_prov c); pv_srv (cp_prov c); pv_txt (cp_prov c)]) /\
    (pv_exists (cp_prov c) && pv_confirmed (cp_prov c) = false -> b_services b = [] /\ held cch = []).
Proof. exact (lagging_pair_converges T c L Lh w). Qed.
Print Assumptions C04_lagging_pair_converges_partial.

Theorem C04_lagging_pair_converges_duplicated_partial (d : message -> nat) T c L Lh w :
  T <> [] -> bytes_eqb T browse_type = false -> qreach (bheard d) T c L [] Lh w ->
  exists cch b, w = mkWorld [cch] [b] 0 /\
    (pv_exists (cp_prov c) = true -> pv_confirmed (cp_prov c) = true ->
       exists nm, r_name (pv_srv (cp_prov c)) = Some (nm ++ DOT :: T) /\
                  b_services b = [(nm ++ DOT :: T, svc_of T nm (pv_srv (cp_prov c)) (pv_txt (cp_prov c)))] /\
                  held cch = [pv_ptr (cp_prov c); pv_srv (cp_prov c); pv_txt (cp_prov c)]) /\
    (pv_exists (cp_prov c) && pv_confirmed (cp_prov c) = false -> b_services b = [] /\ held cch = []).
Proof. exact (lagging_pair_converges_duplicated d T c L Lh w). Qed.
Print Assumptions C04_lagging_pair_converges_duplicated_partial.

Theorem C04_synchronous_is_lagging T c L w : preach bhear T c L w -> qreach bhear T c L [] L w.
Proof. exact (synchronous_is_lagging T c L w). Qed.
Print Assumptions C04_synchronous_is_lagging.

(* The expiry hop ("one whose provider silently vanishes disappears when the TTL of its SRV record runs out"): when the
   lifetime of the held SRV record has run out - alone, or together with the PTR and TXT records announced with it - the
   cache's timer handler drops it and announces the expiry, and the browser that reports the instance reports it as removed. *)
Theorem C04_srv_expiry_heard_partial now (ptr srv txt : record) (T nm : list N) b x1 r1 x3 r3 t2 nxt tm s :
  announces ptr srv txt T nm -> b_cache b = 0%nat ->
  smap_find (nm ++ DOT :: T) (b_services b) = Some s -> bs_is_null (s_name s) = false ->
  t2 <> [] -> Forall (fun x => x <= now) t2 -> now < x1 -> now < x3 ->
  In (ESig 0%N SIG_serviceRemoved (PService s))
     (snd (world_cache_timeout now 0 (mkWorld [mkCache [mkEntry ptr (x1 :: r1); mkEntry srv t2; mkEntry txt (x3 :: r3)] nxt tm] [b] 0))).
Proof. exact (srv_expiry_heard now ptr srv txt T nm b x1 r1 x3 r3 t2 nxt tm s). Qed.
Print Assumptions C04_srv_expiry_heard_partial.

Theorem C04_all_expire_heard_partial now (ptr srv txt : record) (T nm : list N) b t1 t2 t3 nxt tm s :
  announces ptr srv txt T nm -> b_cache b = 0%nat ->
  smap_find (nm ++ DOT :: T) (b_services b) = Some s -> bs_is_null (s_name s) = false ->
  t1 <> [] -> t2 <> [] -> t3 <> [] ->
  Forall (fun x => x <= now) t1 -> Forall (fun x => x <= now) t2 -> Forall (fun x => x <= now) t3 ->
  In (ESig 0%N SIG_serviceRemoved (PService s))
     (snd (world_cache_timeout now 0 (mkWorld [mkCache [mkEntry ptr t1; mkEntry srv t2; mkEntry txt t3] nxt tm] [b] 0))).
Proof. exact (all_expire_heard now ptr srv txt T nm b t1 t2 t3 nxt tm s). Qed.
Print Assumptions C04_all_expire_heard_partial.

(* non-vacuity, by computation: after the announcement of C04_hop_nonvacuous (heard at 4100 ms, TTL 3600 s) nothing more
   arrives; the cache's timer handler run at the end of the lifetime makes the browser report the removal *)
Example C04_expiry_hop_nonvacuous :
  let h0 := fst (on_rebroadcast (mkHost [118; 109]%N [] [] [] false 1)) in
  let svc := mkService (Some [95; 116; 46]%N) (Some [97]%N) None 80 [] in
  let evs := [(2000, EvTimer T_REG); (2000, EvApi PNewProv); (2000, EvApi (PUpdate svc)); (4000, EvTimer T_PROBER)] in
  let c := fold_left (fun c ne => fst (comp_handle (fst ne) c (snd ne))) evs (mkComp h0 no_prov None) in
  let w0 := mkWorld [empty_cache] [mkBrowser (Some [95; 116; 46]%N) 0 [] [] []] 0 in
  match decode (to_packet (announce_msg (cp_prov c))) with
  | Ok m1 =>
      let w1 := fst (browser_on_message 4100 0 m1 w0) in
      map (fun e => match e with ESig ob sg (PService s) => (ob, sg, bs_data (s_name s)) | _ => (9, 9, [])%N end)
          (filter (fun e => match e with ESig _ _ _ => true | _ => false end) (snd (world_cache_timeout 3604100 0 w1)))
      = [(0, SIG_serviceRemoved, [97])]%N
  | _ => False
  end.
Proof. vm_compute. reflexivity. Qed.

(* A browser that joins late ("arbitrary start order"): created while the provider is already serving, it has heard no
   announcement.  Its creation question - PTR for its type, no known answers - reaches the provider, whose answer (C11: a
   PTR answer is accompanied by the SRV and TXT records) carries the three served records; hearing it, the browser
   reports the service and is in the state of a browser that heard the announcement (BI: the invariant of
   C04_pair_converges_partial holds from then on). *)
Theorem C04_late_joiner_reported_partial T c L nowb (wq : world) src port id :
  T <> [] -> bytes_eqb T browse_type = false ->
  lreach c L -> TInv T c -> pv_exists (cp_prov c) = true -> pv_confirmed (cp_prov c) = true ->
  BI T [] wq ->
  let q := mkMessage src port id false false [mkQuery (Some T) T_PTR false] [] in
  exists reply nm,
    prov_on_message (cp_prov c) q = [ESend reply] /\
    m_records reply = [pv_ptr (cp_prov c); pv_srv (cp_prov c); pv_txt (cp_prov c)] /\ m_response reply = true /\
    BI T [pv_ptr (cp_prov c); pv_srv (cp_prov c); pv_txt (cp_prov c)] (fst (browser_on_message nowb 0 reply wq)) /\
    In (ESig 0%N SIG_serviceAdded (PService (svc_of T nm (pv_srv (cp_prov c)) (pv_txt (cp_prov c)))))
       (snd (browser_on_message nowb 0 reply wq)).
Proof. exact (late_joiner_reported T c L nowb wq src port id). Qed.
Print Assumptions C04_late_joiner_reported_partial.

Theorem C04_creation_question T :
  exists m, browser_query_timeout 0 (mkWorld [empty_cache] [mkBrowser (Some T) 0 [] [] []] 0) = [ESendAll m; EStart (T_QUERY_OF 0) browse_period_ms] /\
            m_queries m = [mkQuery (Some T) T_PTR false] /\ m_records m = [] /\ m_response m = false.
Proof. exact (creation_question T). Qed.
Print Assumptions C04_creation_question.

(* "... of its type": the announcement or goodbye of a service of another type T' leaves a browser of type T exactly as
   it was - cache, reported services and output (T is not the enumeration name; the instance's full name does not happen
   to end in ".T", which a type like "_sub._t." nested under "_t." would make it do) *)
Theorem C04_other_type_ignored_partial now (ptr srv txt : record) (T T' nm : list N) addr port id c b :
  announces ptr srv txt T' nm -> b_type b = Some T -> bytes_eqb T browse_type = false ->
  bytes_eqb T' T = false -> ends_with ([DOT] ++ T) (nm ++ DOT :: T') = false ->
  browser_on_message now 0 (mkMessage addr port id true false [] [ptr; srv; txt]) (mkWorld [c] [b] 0) = (mkWorld [c] [b] 0, []).
Proof. exact (other_type_ignored now ptr srv txt T T' nm addr port id c b). Qed.
Print Assumptions C04_other_type_ignored_partial.

(* "every browser's set of currently added services": one provider and ANY NUMBER of passive browsers, each of type T or
   enumerating all types, each with its own cache, each hearing every multicast response in order; after every handler
   invocation of the provider every one of them reports exactly what the provider serves (reports_served spells out
   the conclusion of C04_pair_converges_partial for one browser) *)
Theorem C04_every_browser_converges_partial T c L ws :
  T <> [] -> bytes_eqb T browse_type = false -> preachN T c L ws -> Forall (reports_served T c) ws.
Proof. exact (every_browser_reports_what_is_served T c L ws). Qed.
Print Assumptions C04_every_browser_converges_partial.

(* Two providers of different service types (NetTwo.v): each a hostname + provider + prober composite on its own host, acting
   in ANY interleaving; any number of browsers of type T1, each with its own cache, hear every multicast response of BOTH
   providers, in order.  After every step each of them reports exactly what the provider of type T1 serves: the other
   provider's traffic leaves them untouched (every message it puts on the link is a goodbye or an announcement of type T2 -
   step_script - which a browser of type T1 ignores).  The types are unrelated: different, and T2 does not end in ".T1"
   (C04_unrelated_when gives that condition; by symmetry the theorem applies to the browsers of type T2 as well). *)
Theorem C04_browsers_follow_their_provider_partial T1 T2 c1 L1 c2 L2 ws :
  T1 <> [] -> bytes_eqb T1 browse_type = false -> Unrelated T1 T2 ->
  net2 T1 T2 c1 L1 c2 L2 ws -> Forall (reports_served T1 c1) ws.
Proof. exact (browsers_follow_their_provider T1 T2 c1 L1 c2 L2 ws). Qed.
Print Assumptions C04_browsers_follow_their_provider_partial.

Theorem C04_unrelated_when T T' : bytes_eqb T' T = false -> ends_with ([DOT] ++ T) T' = false -> Unrelated T T'.
Proof. exact (unrelated_when T T'). Qed.
Print Assumptions C04_unrelated_when.

Example C04_unrelated_example : Unrelated [95; 97; 46]%N [95; 98; 46]%N.      (* "_a." and "_b." *)
Proof. exact unrelated_example. Qed.

(* Any number of providers (NetMany.v): the provider of type T and a list of further providers - each its own hostname +
   provider + prober composite, of a type unrelated to T; they may share types among themselves - acting in ANY
   interleaving; any number of browsers of type T, each with its own cache, hear every multicast response of ALL of them,
   in order.  After every step each browser reports exactly what the provider of type T serves. *)
Theorem C04_browsers_follow_their_provider_among_many_partial T c L os ws :
  T <> [] -> bytes_eqb T browse_type = false -> Forall (fun o => Unrelated T (o_type o)) os ->
  netN T c L os ws -> Forall (reports_served T c) ws.
Proof. exact (browsers_follow_their_provider_among_many T c L os ws). Qed.
Print Assumptions C04_browsers_follow_their_provider_among_many_partial.

(* non-vacuity: two providers ("_t." and "_b.") register, create, update and complete their probes, interleaved step by
   step, a third one ("_b." too) stays idle, two browsers listen; both active providers end confirmed *)
Example C04_many_nonvacuous :
  let T := [95; 116; 46]%N in let T' := [95; 98; 46]%N in
  exists c L o o' ws, netN T c L [o; o'] ws /\ pv_confirmed (cp_prov c) = true /\ pv_confirmed (cp_prov (o_comp o)) = true
    /\ o_type o = T' /\ o_type o' = T' /\ length L = 3%nat /\ length (o_link o) = 3%nat /\ length ws = 2%nat
    /\ Forall (fun o => Unrelated T (o_type o)) [o; o'].
Proof. exact many_nonvacuous. Qed.

(* The symmetric statement (NetMany.v): a family of providers indexed by nat (those that never act stay idle), acting in
   ANY interleaving, and any number of browsers of ANY types, each with its own cache, hearing every multicast response of
   all providers in order.  A browser "follows" provider i when its type is provider i's type, that type is unrelated to
   the type of every other provider, non-empty and not the enumeration type.  After every step every browser reports
   exactly what the provider it follows serves. *)
Theorem C04_every_browser_follows_its_provider_partial P bs :
  netS P bs -> forall i b, In b bs -> follows P i b -> reports_served (bn_type b) (o_comp (P i)) (bn_world b).
Proof. exact (every_browser_follows_its_provider P bs). Qed.
Print Assumptions C04_every_browser_follows_its_provider_partial.

(* non-vacuity: providers of "_t.", "_b." and idle ones of "_c." with a browser of "_t." and one of "_b."; provider 0 registers,
   creates, updates and completes its probe (three records on the link) while provider 1 registers; each browser follows its provider *)
Example C04_symmetric_nonvacuous :
  exists P bs, netS P bs /\ pv_confirmed (cp_prov (o_comp (P 0%nat))) = true /\ h_reg (cp_host (o_comp (P 1%nat))) = true
    /\ length (o_link (P 0%nat)) = 3%nat /\ map bn_type bs = map bn_type B0 /\ forall j, o_type (P j) = o_type (Fam0 j).
Proof. exact symmetric_nonvacuous. Qed.
Example C04_symmetric_follows P b0 b1 : (forall j, o_type (P j) = o_type (Fam0 j)) -> map bn_type [b0; b1] = map bn_type B0 ->
  follows P 0 b0 /\ follows P 1 b1.
Proof. exact (symmetric_follows P b0 b1). Qed.

(* ... and on a duplicating link (NetManyDup.v): every multicast response arrives 1 + d(message) times in a row at every
   browser; the same conclusion. *)
Theorem C04_every_browser_follows_its_provider_duplicated_partial (d : message -> nat) P bs :
  netSd d P bs -> forall i b, In b bs -> follows P i b -> reports_served (bn_type b) (o_comp (P i)) (bn_world b).
Proof. exact (every_browser_follows_its_provider_duplicated d P bs). Qed.
Print Assumptions C04_every_browser_follows_its_provider_duplicated_partial.
