(* BrowserSpec.v — C14 / C15 / C19 as one acceptor over script and outputs
   (rejection codes 50-59: C14, 60-69: C15, 70-79: C19; focus as in ProviderSpec). *)
From QV Require Import Base Fields SrcFacts Msg Cache CacheSpec Sim Prober Hostname Resolver Provider ProviderSpec Browser.
Local Open Scope Z_scope.

Record bbmon := mkBb {
  bb_type : bytes; bb_cache : nat;
  bb_present : list (bytes * service);     (* currently added: instance -> last reported description *)
  bb_last_q : Z;                           (* instant of the latest browse question for the type *)
  bb_targets : list (bytes * Z) }.         (* enumerate-all: service types learned and not yet asked for, with the instant *)

(* bm_exact: no late firing so far; bm_pending: the last clock move was a "before" advance, so timers due exactly now have not fired yet *)
Record bmon := mkBmF { bm_refs : list (list ment); bm_bs : list bbmon; bm_now : Z; bm_exact : bool; bm_pending : bool }.
Definition mkBm refs bs now ex := mkBmF refs bs now ex false.
Definition bmon0 := mkBm [] [] 0 true.

Definition full_service_eqb (a b : service) : bool := forallb (fun f => sfield_agree f a b) all_sfields.
Definition instance_key (s : service) : bytes := bs_data (s_name s) ++ [DOT] ++ bs_data (s_type s).

(* the browser's filter, from the property: PTR named the type, SRV/TXT under the type; everything for enumerate-all *)
Definition bb_any (b : bbmon) : bool := bytes_eqb (bb_type b) BROWSE.
Definition accepts (b : bbmon) (r : record) : bool :=
  if (r_type r =? 12)%N then bb_any b || bytes_eqb (bs_data (r_name r)) (bb_type b)
  else if (r_type r =? 33)%N || (r_type r =? 16)%N then bb_any b || ends_with ([DOT] ++ bb_type b) (bs_data (r_name r))
  else false.

Definition ref_nth (refs : list (list ment)) (i : nat) : list ment := nth i refs [].
Definition ref_set (refs : list (list ment)) (i : nat) (l : list ment) : list (list ment) := replace_nth i l refs.

(* what a description must look like given the valid records: first SRV, merge of all TXT *)
Definition describe (ref : list ment) (inst : bytes) : option (bstr * N * attrs) :=
  match ref_lookup (Some inst) 33 ref with
  | [] => None
  | srv :: _ =>
      let txts := ref_lookup (Some inst) 16 ref in
      Some (r_target srv, r_port srv,
            fold_left (fun acc r => fold_left (fun a kv => attrs_insert (fst kv) (snd kv) a) (r_attrs r) acc) txts [])
  end.
Definition type_of_instance (inst : bytes) : bytes :=
  match index_of DOT inst with Some i => skipn (S i) inst | None => inst end.
Definition has_ptr (ref : list ment) (ty inst : bytes) : bool :=
  existsb (fun r => bytes_eqb (bs_data (r_target r)) inst) (ref_lookup (Some ty) 12 ref).

Fixpoint pm_find (k : bytes) (m : list (bytes * service)) : option service :=
  match m with [] => None | (k', v) :: m' => if bytes_eqb k k' then Some v else pm_find k m' end.
Definition pm_remove (k : bytes) (m : list (bytes * service)) := filter (fun kv => negb (bytes_eqb k (fst kv))) m.

(* 50 added while already added   51 updated while not added   52 update equal to the last report   53 removed while not added
   54 removal does not name the service as last described   55 service of another type reported by a typed browser
   60 report without a valid PTR for its type   61 ... without a valid SRV with that target and port   62 attributes differ from the
   valid TXT records   63 still added although no valid SRV is left   64 last report is stale although a valid PTR points to the instance *)
Definition backed_by (ref : list ment) (k : bytes) (s : service) : option N :=
  (* "a PTR record for the service's type": any valid PTR named the type *)
  if match ref_lookup (Some (bs_data (s_type s))) 12 ref with [] => true | _ :: _ => false end then Some 60%N else
  match describe ref k with
  | None => Some 61%N
  | Some (tg, po, ats) =>
      if negb (existsb (fun r => bs_eqb (r_target r) (s_hostname s) && (r_port r =? s_port s)%N) (ref_lookup (Some k) 33 ref)) then Some 61%N
      else if negb (attrs_eqb ats (s_attrs s)) then Some 62%N else None
  end.

(* [cands]: the reference states the cache passes through while the handler runs (a multi-record message, or several records
   expiring at one instant, are processed one record at a time); a report must be backed by one of them *)
Definition c14_signal (focus : N) (b : bbmon) (cands : list (list ment)) (sg : N) (s : service) : bbmon + N :=
  let k := instance_key s in
  let cur := pm_find k (bb_present b) in
  let setp := fun p => mkBb (bb_type b) (bb_cache b) p (bb_last_q b) (bb_targets b) in
  if negb (bb_any b) && negb (bytes_eqb (bs_data (s_type s)) (bb_type b)) && in_focus focus 55 then inr 55%N else
  let backed :=
    match cands with
    | [] => Some 60%N
    | c0 :: _ => if existsb (fun ref => match backed_by ref k s with None => true | Some _ => false end) cands then None
                 else backed_by (last cands c0) k s
    end in
  if (sg =? SIG_serviceAdded)%N then
    match cur with
    | Some _ => if in_focus focus 50 then inr 50%N else inl (setp ((k, s) :: pm_remove k (bb_present b)))
    | None => match backed with
              | Some c => if in_focus focus c then inr c else inl (setp ((k, s) :: bb_present b))
              | None => inl (setp ((k, s) :: bb_present b))
              end
    end
  else if (sg =? SIG_serviceUpdated)%N then
    match cur with
    | None => if in_focus focus 51 then inr 51%N else inl (setp ((k, s) :: bb_present b))
    | Some old =>
        if full_service_eqb old s && in_focus focus 52 then inr 52%N else
        match backed with
        | Some c => if in_focus focus c then inr c else inl (setp ((k, s) :: pm_remove k (bb_present b)))
        | None => inl (setp ((k, s) :: pm_remove k (bb_present b)))
        end
    end
  else if (sg =? SIG_serviceRemoved)%N then
    match cur with
    | None => if in_focus focus 53 then inr 53%N else inl b
    | Some old => if negb (full_service_eqb old s) && in_focus focus 54 then inr 54%N else inl (setp (pm_remove k (bb_present b)))
    end
  else inl b.

Definition fresh_ok (focus : N) (b : bbmon) (ref : list ment) : option N :=
  fold_left (fun acc kv =>
    match acc with
    | Some c => Some c
    | None =>
        let '(k, s) := kv in
        match describe ref k with
        | None => if in_focus focus 63 then Some 63%N else None
        | Some (tg, po, ats) =>
            if has_ptr ref (bs_data (s_type s)) k &&
               negb (bs_eqb tg (s_hostname s) && (po =? s_port s)%N && attrs_eqb ats (s_attrs s)) && in_focus focus 64
            then Some 64%N else None
        end
    end) (bb_present b) None.

(* ---- C19 helpers ---- *)
Definition is_query_for (name : bytes) (type : N) (m : message) : bool :=
  negb (m_response m) && existsb (fun q => bytes_eqb (bs_data (q_name q)) name && (q_type q =? type)%N) (m_queries m).

Fixpoint sorted_insert (r : record) (l : list record) : list record :=
  match l with
  | [] => [r]
  | x :: l' => if bytes_ltb (bs_data (r_target r)) (bs_data (r_target x)) then r :: l else x :: sorted_insert r l'
  end.
Definition same_record_set (a b : list record) : bool :=
  records_eqb (fold_right sorted_insert [] a) (fold_right sorted_insert [] b).

(* 70 more than 60 s without a browse question   71 a PTR for an instance without SRV was not followed by SRV+TXT questions
   72 a refresh instant (50/85/90/95 % of a held record's TTL) passed without a question for that record
   73 enumerate-all: a learned service type was not asked for within 100 ms   74 creation / periodic browse question malformed
   (wrong name or known answers differ from the valid PTR records held) *)
Definition sends_of (outs : list out) : list (Z * message) :=
  filter_map (fun o => match o with OSendAll t m => Some (t, m) | _ => None end) outs.

Definition browse_question_ok (ref : list ment) (ty : bytes) (m : message) : bool :=
  match m_queries m with
  | [q] => bytes_eqb (bs_data (q_name q)) ty && (q_type q =? 12)%N && same_record_set (m_records m) (ref_lookup (Some ty) 12 ref)
  | _ => false
  end.

(* feed the accepted records of a response to the reference cache of each browser's cache *)
Definition feed (now : Z) (bs : list bbmon) (rs : list record) (refs : list (list ment)) : list (list ment) :=
  fold_left (fun refs b =>
     fold_left (fun refs r => if accepts b r then ref_set refs (bb_cache b) (ref_add now r (ref_nth refs (bb_cache b))) else refs) rs refs)
   bs refs.

Definition purge_all (t : Z) (refs : list (list ment)) : list (list ment) := map (ref_purge t) refs.

(* refresh obligations of the entries of one reference cache between two instants (exact scheduling):
   every browser attached to the cache hears every warning and each must ask, so a cache shared by n browsers
   owes n questions for the record inside the window *)
Definition refresh_ok (n : nat) (lo hi : Z) (sends : list (Z * message)) (ref : list ment) : bool :=
  forallb (fun e =>
    forallb (fun f =>
      let t0 := me_t0 e + me_ttl e * f in
      (* due strictly inside (lo, hi - 19): its latest possible instant has passed, and it was not yet due at lo *)
      if (lo <? t0) && (t0 + 19 <? hi) && (t0 + 19 <? me_expiry e) then
        Nat.leb n (length (filter (fun tm => (t0 <=? fst tm) && (fst tm <=? t0 + 19) &&
                           is_query_for (bs_data (r_name (me_rec e))) (r_type (me_rec e)) (snd tm)) sends))
      else true) fractions) ref.

Definition set_bs (q : bmon) (bs : list bbmon) : bmon := mkBmF (bm_refs q) bs (bm_now q) (bm_exact q) (bm_pending q).

(* the states a reference cache passes through at instant t: valid up to t-1, then the entries expiring exactly at t
   leave one by one in order *)
Fixpoint drop_first_due (t : Z) (l : list ment) : option (list ment) :=
  match l with
  | [] => None
  | e :: l' => if me_expiry e <=? t then Some l'
               else match drop_first_due t l' with Some l'' => Some (e :: l'') | None => None end
  end.
Fixpoint expiry_trace (fuel : nat) (t : Z) (l : list ment) : list (list ment) :=
  match fuel with
  | O => [l]
  | S f => match drop_first_due t l with Some l' => l :: expiry_trace f t l' | None => [l] end
  end.

(* apply the signals of one output group; [cands_of cache_index t] gives the admissible reference states *)
Fixpoint bmon_signals (focus : N) (cands_of : nat -> Z -> list (list ment)) (q : bmon) (outs : list out) : bmon + N :=
  match outs with
  | [] => inl q
  | OSignal t ob sg (PService s) :: outs' =>
      let j := N.to_nat ob in
      match nth_error (bm_bs q) j with
      | None => inr 4%N
      | Some b =>
          match c14_signal focus b (cands_of (bb_cache b) t) sg s with
          | inl b' => bmon_signals focus cands_of (set_bs q (replace_nth j b' (bm_bs q))) outs'
          | inr c => inr c
          end
      end
  | _ :: outs' => bmon_signals focus cands_of q outs'
  end.

(* all reference states visited while a response is processed: browser by browser, record by record *)
(* the matching entries leave one at a time, in order (each removal is announced before the next) *)
Fixpoint removal_steps (r : record) (kept l : list ment) : list (list ment) :=
  match l with
  | [] => []
  | e :: l' => if spec_match r (me_rec e) then (kept ++ l') :: removal_steps r kept l'
               else removal_steps r (kept ++ [e]) l'
  end.
Fixpoint feed_records (now : Z) (b : bbmon) (rs : list record) (refs : list (list ment)) (acc : list (list (list ment)))
  : list (list ment) * list (list (list ment)) :=
  match rs with
  | [] => (refs, acc)
  | r :: rs' =>
      if accepts b r then
        let old := ref_nth refs (bb_cache b) in
        let mids := map (fun l => ref_set refs (bb_cache b) l) (removal_steps r [] old) in
        let refs' := ref_set refs (bb_cache b) (ref_add now r old) in
        feed_records now b rs' refs' (acc ++ mids ++ [refs'])
      else feed_records now b rs' refs acc
  end.
Fixpoint feed_trace (now : Z) (bs : list bbmon) (rs : list record) (refs : list (list ment)) (acc : list (list (list ment)))
  : list (list ment) * list (list (list ment)) :=
  match bs with
  | [] => (refs, acc)
  | b :: bs' => let '(refs', acc') := feed_records now b rs refs acc in feed_trace now bs' rs refs' acc'
  end.

Definition end_checks (focus : N) (q : bmon) (lo : Z) (outs : list out) (strict : bool) : bmon + N :=
  let t := bm_now q in
  let refs := purge_all (if strict then t - 1 else t) (bm_refs q) in
  let sends := sends_of outs in
  (* browse questions sent in this group update the per-browser clock; enumerate-all questions clear pending types *)
  let bs := map (fun b =>
      let asked := filter (fun tm => is_query_for (bb_type b) 12 (snd tm)) sends in
      let lastq := fold_left (fun acc tm => Z.max acc (fst tm)) asked (bb_last_q b) in
      let tg := filter (fun kt => negb (existsb (fun tm => is_query_for (fst kt) 12 (snd tm) && (snd kt <=? fst tm)) sends)) (bb_targets b) in
      mkBb (bb_type b) (bb_cache b) (bb_present b) lastq tg) (bm_bs q) in
  let q1 := mkBmF refs bs t (bm_exact q) strict in
  match fold_left (fun acc b => match acc with Some c => Some c | None => fresh_ok focus b (ref_nth refs (bb_cache b)) end) bs None with
  | Some c => inr c
  | None =>
      if bm_exact q && in_focus focus 70 && existsb (fun b => bb_last_q b + 60000 <? t) bs then inr 70%N else
      if bm_exact q && in_focus focus 73 && existsb (fun b => existsb (fun kt => snd kt + 100 <? t) (bb_targets b)) bs then inr 73%N else
      if bm_exact q && in_focus focus 72 && negb strict &&
         negb (forallb (fun b => refresh_ok (length (filter (fun b' => Nat.eqb (bb_cache b') (bb_cache b)) (bm_bs q))) lo t sends
                                           (ref_nth (bm_refs q) (bb_cache b))) (bm_bs q)) then inr 72%N else
      inl q1
  end.

Definition bmon_step (focus : N) (q : bmon) (o : aop bapi) (outs : list out) : bmon + N :=
  let now := bm_now q in
  match o with
  | AApi BNewCache => inl (mkBmF (bm_refs q ++ [[]]) (bm_bs q) now (bm_exact q) (bm_pending q))
  | AApi (BNewBrowser ty co) =>
      let '(refs, ci) := match co with Some ci => (bm_refs q, ci) | None => (bm_refs q ++ [[]], length (bm_refs q)) end in
      let b := mkBb (bs_data ty) ci [] now [] in
      let ok := existsb (fun tm => browse_question_ok (ref_purge (if bm_pending q then now - 1 else now) (ref_nth refs ci)) (bs_data ty) (snd tm)) (sends_of outs) in
      if negb ok && in_focus focus 74 then inr 74%N else inl (mkBmF refs (bm_bs q ++ [b]) now (bm_exact q) (bm_pending q))
  | AApi (BJitter _) => inl q
  | AApi (BCadd ci r j) => inl (mkBmF (ref_set (bm_refs q) ci (ref_add now r (ref_nth (bm_refs q) ci))) (bm_bs q) now (bm_exact q) (bm_pending q))
  | AApi (BLookup ci n ty) =>
      match outs with
      | [OLook rs] => inl q
      | _ => inr 4%N
      end
  | ADeliver m =>
      if negb (m_response m) then (match sends_of outs with [] => inl q | _ => inr 4%N end) else
      let '(refs, visited) := feed_trace now (bm_bs q) (m_records m) (bm_refs q) [bm_refs q] in
      (* enumerate-all browsers learn service types from browse PTRs *)
      let bs := map (fun b =>
          if bb_any b then
            mkBb (bb_type b) (bb_cache b) (bb_present b) (bb_last_q b)
                 (fold_left (fun acc r => if (r_type r =? 12)%N && bytes_eqb (bs_data (r_name r)) BROWSE
                                          then (bs_data (r_target r), now) :: filter (fun kt => negb (bytes_eqb (fst kt) (bs_data (r_target r)))) acc
                                          else acc) (m_records m) (bb_targets b))
          else b) (bm_bs q) in
      match bmon_signals focus (fun ci _ => map (fun rf => ref_purge (if bm_pending q then now - 1 else now) (ref_nth rf ci)) visited)
                         (mkBmF refs bs now (bm_exact q) (bm_pending q)) outs with
      | inr c => inr c
      | inl q1 =>
          (* follow-up questions for instances named by a received PTR that lack an SRV record *)
          let sends := sends_of outs in
          let missing := existsb (fun b =>
              existsb (fun r =>
                 (r_type r =? 12)%N && accepts b r && negb (r_ttl r =? 0)%N && negb (bytes_eqb (bs_data (r_name r)) BROWSE) &&
                 bytes_eqb (type_of_instance (bs_data (r_target r))) (bs_data (r_name r)) &&
                 negb (bytes_eqb (bs_data (r_target r)) []) &&
                 has_ptr (ref_nth (bm_refs q1) (bb_cache b)) (bs_data (r_name r)) (bs_data (r_target r)) &&
                 (match describe (ref_nth (bm_refs q1) (bb_cache b)) (bs_data (r_target r)) with None => true | Some _ => false end) &&
                 negb (existsb (fun tm => is_query_for (bs_data (r_target r)) 33 (snd tm) && is_query_for (bs_data (r_target r)) 16 (snd tm)) sends))
               (m_records m)) (bm_bs q1) in
          if missing && in_focus focus 71 then inr 71%N else end_checks focus q1 now outs (bm_pending q)
      end
  | AAdv t | AAdvB t | ALate t =>
      if t <? now then inl q else
      let exact := match o with ALate _ => false | _ => bm_exact q end in
      let strict := match o with AAdvB _ => true | _ => false end in
      (* a late firing processes, at one instant, everything that expired since the previous instant (including the
         previous instant itself when the last move was a "before" advance that left its timers pending) *)
      match bmon_signals focus (fun ci T => let l := ref_purge (match o with ALate _ => if bm_pending q then now - 1 else now | _ => T - 1 end) (ref_nth (bm_refs q) ci) in
                                            expiry_trace (length l) T l)
                         (mkBm (bm_refs q) (bm_bs q) now exact) outs with
      | inr c => inr c
      | inl q1 => end_checks focus (mkBm (bm_refs q1) (bm_bs q1) t exact) now outs strict
      end
  end.

Fixpoint bmon_run (focus : N) (q : bmon) (k : N) (ops : list (aop bapi)) (outs : list (list out)) : option (N * N) :=
  match ops, outs with
  | [], _ => None
  | o :: ops', og :: outs' =>
      match bmon_step focus q o og with
      | inl q' => bmon_run focus q' (k + 1)%N ops' outs'
      | inr c => Some (k, c)
      end
  | _ :: _, [] => Some (k, 4%N)
  end.

Definition mon_browser (focus : N) (ops : list (aop bapi)) (outs : list (list out)) : option (N * N) :=
  bmon_run focus bmon0 0%N ops outs.
