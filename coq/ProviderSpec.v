(* ProviderSpec.v — C11 as a declarative reply function; C10 / C12 / C13 as one acceptor over script and outputs
   (rejection codes 10-19: C10, 20-29: C11, 30-39: C12, 40-49: C13). *)
From QV Require Import Base Fields SrcFacts Msg SrcDecisions Cache CacheSpec Sim Prober Hostname Resolver Provider.
Local Open Scope Z_scope.

(* ------------------------------------------------------------------ C11: the reply to a query, from the property text *)
Definition BROWSE : bytes := [95;115;101;114;118;105;99;101;115;46;95;100;110;115;45;115;100;46;95;117;100;112;46;108;111;99;97;108;46]%N.

Definition q_is (q : query) (type : N) (name : bstr) : bool := (q_type q =? type)%N && bs_eqb (q_name q) name.

(* which of (browse, ptr, srv, txt) the questions ask for; a PTR question for the enumeration name is taken as such *)
Definition spec_asked (browse ptr srv txt : record) (qs : list query) : bool * bool * bool * bool :=
  fold_left (fun (acc : bool * bool * bool * bool) q =>
    let '(sb, sp, ss, st) := acc in
    if q_is q 12 (Some BROWSE) then (true, sp, ss, st)
    else if q_is q 12 (r_name ptr) then (sb, true, ss, st)
    else if q_is q 33 (r_name srv) then (sb, sp, true, st)
    else if q_is q 16 (r_name txt) then (sb, sp, ss, true)
    else acc) qs (false, false, false, false).

(* known-answer suppression: a listed record equal (name, type, data) to a served one *)
Definition spec_known (ptr srv txt : record) (known : list record) (acc : bool * bool * bool) : bool * bool * bool :=
  fold_left (fun (acc : bool * bool * bool) r =>
    let '(sp, ss, st) := acc in
    if same_data r ptr then (false, ss, st)
    else if same_data r srv then (sp, false, st)
    else if same_data r txt then (sp, ss, false)
    else acc) known acc.

Definition spec_prov_reply (confirmed : bool) (browse ptr srv txt : record) (m : message) : option message :=
  if negb confirmed || m_response m then None else
  let '(sb, sp0, ss0, st0) := spec_asked browse ptr srv txt (m_queries m) in
  let '(sp, ss1, st1) := spec_known ptr srv txt (m_records m) (sp0, ss0, st0) in
  let ss := sp || ss1 in
  let st := sp || st1 in
  if sb || sp || ss || st then
    Some (mkMessage (spec_reply_addr m) (m_port m) (m_id m) true false []
            ((if sb then [browse] else []) ++ (if sp then [ptr] else []) ++ (if ss then [srv] else []) ++ (if st then [txt] else [])))
  else None.

(* ------------------------------------------------------------------ the acceptor
   [focus] = 10, 20, 30, 40 restricts rejections to one property (the others' checks then let the trace pass and the
   acceptor carries on with the state it would have had), 0 = all *)
Definition in_focus (focus c : N) : bool := (focus =? 0)%N || (c / 10 =? focus / 10)%N || (c <? 10)%N.
Definition soft {A} (focus c : N) (fallback : A) : A + N := if in_focus focus c then inr c else inl fallback.
Record vmon := mkVmon {
  vm_reg_names : list bytes;          (* host names seen registered *)
  vm_host_reg : bool; vm_host_name : bytes;
  vm_updated : bool; vm_last_req : option service;
  vm_probe : option (bytes * Z);      (* latest service probe: name, instant *)
  vm_disturbed : bool * bool;         (* since the latest probe a conflicting response named like it arrived: (at all, strictly within its 2000 ms) *)
  vm_conf : option bytes;             (* instance name the provider is entitled to speak for *)
  vm_announced : list record;         (* announced with nonzero TTL and not withdrawn *)
  vm_served : option (record * record * record * record);    (* browse, ptr, srv, txt of the last announcement; None after a goodbye *)
  vm_listener : list ment;            (* a passive RFC 6762 cache fed with the provider's multicast responses *)
  vm_alive : bool; vm_now : Z }.

Definition vmon0 := mkVmon [] false [] false None None (false, false) None [] None [] false 0.

Definition is_addr_type (t : N) : bool := (t =? 1)%N || (t =? 28)%N.
Definition is_host_reply (m : message) : bool := forallb (fun r => is_addr_type (r_type r)) (m_records m).
Definition is_service_probe (m : message) : option bytes :=
  if m_response m then None else
  match m_queries m, m_records m with
  | [q], [r] => if (q_type q =? 255)%N && bs_eqb (q_name q) (r_name r) then Some (bs_data (r_name r)) else None
  | _, _ => None
  end.
Definition mem_bytes (x : bytes) (l : list bytes) : bool := existsb (bytes_eqb x) l.

(* record-level obligations of C10 for one record the provider sends *)
Definition rec_instance (r : record) : option bstr :=
  if (r_type r =? 12)%N then (if bs_eqb (r_name r) (Some BROWSE) then None else Some (r_target r))
  else if (r_type r =? 33)%N || (r_type r =? 16)%N then Some (r_name r) else None.

Fixpoint remove_first (f : record -> bool) (l : list record) : option (list record) :=
  match l with
  | [] => None
  | x :: l' => if f x then Some l' else match remove_first f l' with Some l'' => Some (x :: l'') | None => None end
  end.

(* 10 response before registration+update+confirmation   11 nonzero-TTL record not under the confirmed instance name
   12 goodbye for a record never announced (or already withdrawn)   13 SRV target was never a registered hostname
   14 confirmation (first announcement under a name) without a full undisturbed probe for it *)
Fixpoint c10_records (focus : N) (q : vmon) (rs : list record) (ann : list record) : list record + N :=
  match rs with
  | [] => inl ann
  | r :: rs' =>
      if (r_type r =? 33)%N && negb (mem_bytes (bs_data (r_target r)) (vm_reg_names q)) && in_focus focus 13 then inr 13%N else
      if (r_ttl r =? 0)%N then
        match remove_first (same_data r) ann with
        | Some ann' => c10_records focus q rs' ann'
        | None => if in_focus focus 12 then inr 12%N else c10_records focus q rs' ann
        end
      else
        match rec_instance r, vm_conf q with
        | Some i, Some c => if bytes_eqb (bs_data i) c || negb (in_focus focus 11) then c10_records focus q rs' ann else inr 11%N
        | Some _, None => if in_focus focus 11 then inr 11%N else c10_records focus q rs' ann
        | None, _ => c10_records focus q rs' ann
        end
  end.

Definition response_instance (m : message) : option bytes :=
  match filter (fun r => (r_type r =? 33)%N && negb (r_ttl r =? 0)%N) (m_records m) with
  | r :: _ => Some (bs_data (r_name r))
  | [] => None
  end.

(* entitlement: an announcement under a new name needs the latest probe to be for it, >= 2000 ms old, undisturbed *)
Definition entitle (focus : N) (q : vmon) (t : Z) (m : message) : vmon + N :=
  match response_instance m with
  | None => inl q
  | Some n =>
      if match vm_conf q with Some c => bytes_eqb c n | None => false end then inl q else
      match vm_probe q with
      | Some (pn, t') =>
          if (bytes_eqb pn n && negb (fst (vm_disturbed q)) && (t' + 2000 <=? t)) || negb (in_focus focus 14)
          then inl (mkVmon (vm_reg_names q) (vm_host_reg q) (vm_host_name q) (vm_updated q) (vm_last_req q) (vm_probe q)
                           (vm_disturbed q) (Some n) (vm_announced q) (vm_served q) (vm_listener q) (vm_alive q) (vm_now q))
          else inr 14%N
      | None => soft focus 14 (mkVmon (vm_reg_names q) (vm_host_reg q) (vm_host_name q) (vm_updated q) (vm_last_req q) (vm_probe q)
                                       (vm_disturbed q) (Some n) (vm_announced q) (vm_served q) (vm_listener q) (vm_alive q) (vm_now q))
      end
  end.

Definition set_ann (q : vmon) (ann : list record) (served : option (record * record * record * record)) (lis : list ment) : vmon :=
  mkVmon (vm_reg_names q) (vm_host_reg q) (vm_host_name q) (vm_updated q) (vm_last_req q) (vm_probe q) (vm_disturbed q)
         (vm_conf q) ann served lis (vm_alive q) (vm_now q).

(* a provider response (announcement, goodbye or answer) *)
Definition c10_response (focus : N) (q : vmon) (t : Z) (m : message) (multicast : bool) : vmon + N :=
  if (negb (vm_updated q) || (match vm_reg_names q with [] => true | _ => false end)) && in_focus focus 10 then inr 10%N else
  match entitle focus q t m with
  | inr c => inr c
  | inl q1 =>
      match vm_conf q1, in_focus focus 10 with
      | None, true => inr 10%N
      | _, _ =>
          match c10_records focus q1 (m_records m) (vm_announced q1) with
          | inr c => inr c
          | inl ann =>
              if multicast then
                (* announced set: a nonzero-TTL record replaces what was announced under its name and type *)
                let fresh := filter (fun r => negb (r_ttl r =? 0)%N) (m_records m) in
                let ann' := filter (fun a => negb (existsb (fun r => bs_eqb (r_name r) (r_name a) && (r_type r =? r_type a)%N) fresh)) ann ++ fresh in
                let lis := fold_left (fun l r => ref_add t r l) (m_records m) (vm_listener q1) in
                (* 42: records stop being served (other instance name, type or SRV target) without a goodbye for them *)
                let unwithdrawn := match m_records m, vm_served q1 with
                                   | [p; s; x], Some (_, p0, s0, _) =>
                                       negb (r_ttl p =? 0)%N &&
                                       negb (bs_eqb (r_name s) (r_name s0) && bs_eqb (r_name p) (r_name p0) && bs_eqb (r_target s) (r_target s0))
                                   | _, _ => false
                                   end in
                if unwithdrawn && in_focus focus 42 then inr 42%N else
                (* 44: a service multicast names some of PTR / SRV / TXT with TTL 0 and others with a live TTL: neither a goodbye
                   nor an announcement - the listener is left holding part of the service *)
                let mixed := match m_records m with
                             | [p; s; x] => negb (Bool.eqb (r_ttl p =? 0)%N (r_ttl s =? 0)%N && Bool.eqb (r_ttl p =? 0)%N (r_ttl x =? 0)%N)
                             | _ => false
                             end in
                if mixed && in_focus focus 44 then inr 44%N else
                let served := match m_records m with
                              | [p; s; x] => if (r_ttl p =? 0)%N then None
                                             else Some (set_target (r_name p) (set_type 12 (set_name (Some BROWSE) default_record)), p, s, x)
                              | _ => vm_served q1
                              end in
                inl (set_ann q1 ann' served lis)
              else inl (set_ann q1 ann (vm_served q1) (vm_listener q1))
          end
      end
  end.

Definition note_poll (q : vmon) (f : bool) (b : bstr) : vmon :=
  mkVmon (if f && negb (mem_bytes (bs_data b) (vm_reg_names q)) then vm_reg_names q ++ [bs_data b] else vm_reg_names q)
         f (bs_data b) (vm_updated q) (vm_last_req q) (vm_probe q) (vm_disturbed q) (vm_conf q) (vm_announced q)
         (vm_served q) (vm_listener q) (vm_alive q) (vm_now q).
Definition note_probe (q : vmon) (n : bytes) (t : Z) : vmon :=
  mkVmon (vm_reg_names q) (vm_host_reg q) (vm_host_name q) (vm_updated q) (vm_last_req q) (Some (n, t)) (false, false) (vm_conf q)
         (vm_announced q) (vm_served q) (vm_listener q) (vm_alive q) (vm_now q).

(* 20 answer differs from the C11 specification   21 an answer is missing   22 an answer although none is due *)
Definition c11_expected (q : vmon) (o : aop papi) : option message :=
  match o, vm_served q with
  | ADeliver m, Some (b, p, s, x) => spec_prov_reply true b p s x m
  | _, _ => None
  end.

(* 43 a reply to a question carries a live PTR / SRV / TXT record that a passive listener of the provider's multicast
   announcements does not hold: what the provider serves has not (or no longer) been announced *)
Definition reply_unannounced (q : vmon) (o : aop papi) (m : message) : bool :=
  match o with
  | ADeliver mq =>
      negb (m_response mq) &&
      negb (forallb (fun r => (r_ttl r =? 0)%N || bs_eqb (r_name r) (Some BROWSE) ||
                              negb ((r_type r =? 12)%N || (r_type r =? 33)%N || (r_type r =? 16)%N) ||
                              existsb (same_data r) (map me_rec (vm_listener q))) (m_records m))
  | _ => false
  end.

Fixpoint vmon_outs (focus : N) (q : vmon) (o : aop papi) (expect : option message) (outs : list out) : (vmon * option message) + N :=
  match outs with
  | [] => inl (q, expect)
  | OSendAll t m :: outs' =>
      if m_response m then
        if reply_unannounced q o m && in_focus focus 43 then inr 43%N else
        match c10_response focus q t m true with inl q' => vmon_outs focus q' o expect outs' | inr c => inr c end
      else
        match is_service_probe m with
        | Some n => vmon_outs focus (note_probe q n t) o expect outs'
        | None => vmon_outs focus q o expect outs'
        end
  | OSend t m :: outs' =>
      if is_host_reply m then vmon_outs focus q o expect outs' else
      if reply_unannounced q o m && in_focus focus 43 then inr 43%N else
      match c10_response focus q t m false with
      | inr c => inr c
      | inl q' =>
          match expect with
          | Some e => if message_eqb e m || negb (in_focus focus 20) then vmon_outs focus q' o None outs' else inr 20%N
          | None => if in_focus focus 22 then inr 22%N else vmon_outs focus q' o None outs'
          end
      end
  | OPoll _ f b :: outs' => vmon_outs focus (note_poll q f b) o expect outs'
  | OSignal _ _ sg (PBytes n) :: outs' =>
      (* a change notification is evidence of a registration under that name (C08 ties it to a probe) *)
      if (sg =? SIG_hostnameChanged)%N then vmon_outs focus (note_poll q true n) o expect outs' else vmon_outs focus q o expect outs'
  | _ :: outs' => vmon_outs focus q o expect outs'
  end.

Definition vmon_input (q : vmon) (o : aop papi) : vmon :=
  match o with
  | ADeliver m =>
      if m_response m && match vm_probe q with
                         | Some (pn, _) => existsb (fun r => bytes_eqb (bs_data (r_name r)) pn && (r_type r =? 33)%N) (m_records m)
                         | None => false
                         end
      then mkVmon (vm_reg_names q) (vm_host_reg q) (vm_host_name q) (vm_updated q) (vm_last_req q) (vm_probe q)
                  (true, snd (vm_disturbed q) || match vm_probe q with Some (_, t') => vm_now q <? t' + 2000 | None => false end) (vm_conf q)
                  (vm_announced q) (vm_served q) (vm_listener q) (vm_alive q) (vm_now q)
      else q
  | AApi (PUpdate s) =>
      mkVmon (vm_reg_names q) (vm_host_reg q) (vm_host_name q) true (Some s) (vm_probe q) (vm_disturbed q) (vm_conf q)
             (vm_announced q) (vm_served q) (vm_listener q) (vm_alive q) (vm_now q)
  | AApi PNewProv =>
      mkVmon (vm_reg_names q) (vm_host_reg q) (vm_host_name q) false None None (false, false) None [] None [] true (vm_now q)
  | AAdv t | AAdvB t | ALate t =>
      mkVmon (vm_reg_names q) (vm_host_reg q) (vm_host_name q) (vm_updated q) (vm_last_req q) (vm_probe q) (vm_disturbed q) (vm_conf q)
             (vm_announced q) (vm_served q) (vm_listener q) (vm_alive q) (Z.max (vm_now q) t)
  | _ => q
  end.

(* 40 after destruction a passive listener still holds records of the provider *)
Definition vmon_step (focus : N) (q : vmon) (o : aop papi) (outs : list out) : vmon + N :=
  let q0 := vmon_input q o in
  match vmon_outs focus q0 o (c11_expected q0 o) outs with
  | inr c => inr c
  | inl (q1, missing) =>
      if match missing with Some _ => in_focus focus 21 | None => false end then inr 21%N else
      match o with
      | AApi PDestroy =>
          if vm_alive q1 then
            match vm_listener q1 with
            | [] => inl (mkVmon (vm_reg_names q1) (vm_host_reg q1) (vm_host_name q1) false None None (false, false) None [] None [] false (vm_now q1))
            | _ :: _ => soft focus 40 (mkVmon (vm_reg_names q1) (vm_host_reg q1) (vm_host_name q1) false None None (false, false) None [] None [] false (vm_now q1))
            end
          else inl q1
      | _ => inl q1
      end
  end.

(* ---- end of script, after settling: C12 (serves exactly the last supplied service) and C13 (listener = served) ----
   30 nothing served although a service was supplied and everything is quiescent     31 wrong type / instance is not the latest
   probed candidate of the requested name   32 wrong port   33 wrong attributes   34 SRV target is not the registered hostname
   35 the served instance name is taken (a conflicting response arrived strictly inside the 2000 ms after its latest probe)
   41 the listener's records differ from the served PTR, SRV, TXT *)
Definition starts_with (p l : bytes) : bool := bytes_eqb (firstn (length p) l) p.
Definition is_candidate_of (base tail n : bytes) : bool :=
  bytes_eqb n (base ++ tail) ||
  (starts_with (base ++ [DASH]) n && ends_with tail n &&
   (length (base ++ [DASH]) + length tail <? length n)%nat &&
   forallb (fun c => (48 <=? c)%N && (c <=? 57)%N)
           (firstn (length n - length (base ++ [DASH]) - length tail) (skipn (length (base ++ [DASH])) n))).

Definition vmon_final (q : vmon) : option N :=
  if negb (vm_alive q) then None else
  match vm_last_req q with
  | None => None
  | Some s =>
      let quiescent := vm_host_reg q && match vm_probe q with Some (_, t') => t' + 2000 <=? vm_now q | None => true end in
      if negb quiescent then None else
      match vm_served q with
      | None => Some 30%N
      | Some (b, p, sr, x) =>
          let base := replace_byte DOT DASH (bs_data (s_name s)) in
          let tail := [DOT] ++ bs_data (s_type s) in
          let inst := bs_data (r_name sr) in
          if negb (bs_eqb (r_name p) (s_type s) && bs_eqb (r_target p) (r_name sr) && bs_eqb (r_name x) (r_name sr)
                   && is_candidate_of base tail inst
                   (* the latest probe for a candidate of the requested name decides (first free alternative, by C07);
                      a later probe for another name is one that update() cancelled by returning to the served name *)
                   && match vm_probe q with
                      | Some (pn, _) => if is_candidate_of base tail pn then bytes_eqb pn inst else true
                      | None => false
                      end) then Some 31%N else
          (* the served name is taken: its owner answered strictly within the 2000 ms that followed the latest probe for it *)
          if match vm_probe q with
             | Some (pn, _) => is_candidate_of base tail pn && bytes_eqb pn inst && snd (vm_disturbed q)
             | None => false
             end then Some 35%N else
          if negb (r_port sr =? s_port s)%N then Some 32%N else
          if negb (attrs_eqb (r_attrs x) (s_attrs s)) then Some 33%N else
          if negb (bytes_eqb (bs_data (r_target sr)) (vm_host_name q)) then Some 34%N else
          let held := map me_rec (vm_listener q) in
          if (length held =? 3)%nat && existsb (same_data p) held && existsb (same_data sr) held && existsb (same_data x) held
          then None else Some 41%N
      end
  end.

Fixpoint vmon_run (focus : N) (q : vmon) (k : N) (ops : list (aop papi)) (outs : list (list out)) : option (N * N) :=
  match ops, outs with
  | [], _ => match vmon_final q with Some c => if in_focus focus c then Some (k, c) else None | None => None end
  | o :: ops', og :: outs' =>
      match vmon_step focus q o og with
      | inl q' => vmon_run focus q' (k + 1)%N ops' outs'
      | inr c => Some (k, c)
      end
  | _ :: _, [] => Some (k, 4%N)
  end.

(* outs: the group of the hostname constructor, then one group per operation *)
Definition mon_provider (focus : N) (ops : list (aop papi)) (outs : list (list out)) : option (N * N) :=
  match outs with
  | og :: outs' =>
      match vmon_outs focus vmon0 (AApi PNewHost) None og with
      | inl (q, _) => vmon_run focus q 0%N ops outs'
      | inr c => Some (0%N, c)
      end
  | [] => Some (0%N, 4%N)
  end.
