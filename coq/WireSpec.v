(* WireSpec.v — RFC 1035 / 6762 wire format as a relation on (buffer, offset), independent of the decoder. *)
From QV Require Import Base Fields SrcFacts Msg.
Local Open Scope N_scope.

Definition dotted (ls : list bytes) : bytes := concat (map (fun l => l ++ [DOT]) ls).
(* the QByteArray the decoder returns for a name: null for the root name *)
Definition name_of (acc : bstr) (ls : list bytes) : bstr :=
  match ls with [] => acc | _ :: _ => Some (bs_data acc ++ dotted ls) end.

Section Spec.
  Variable mem : N -> N.
  Variable len : N.

  Definition bytes_at (off : N) (l : bytes) : Prop :=
    forall i, (i < length l)%nat -> mem (off + N.of_nat i) = nth i l 0.

  (* NameAt seg off ls e: reading at off, inside the segment that started at seg, one finds the labels ls;
     e is where the name ends in place (after the zero byte, or after the first pointer).  A pointer may
     target any earlier place t < seg where the remaining labels are encoded; chains strictly decrease. *)
  Inductive NameAt : N -> N -> list bytes -> N -> Prop :=
  | NA_end seg off : off < len -> mem off = 0 -> NameAt seg off [] (off + 1)
  | NA_label seg off l ls e :
      l <> [] -> lenN l <= 63 -> off + 1 + lenN l <= len -> mem off = lenN l -> bytes_at (off + 1) l ->
      NameAt seg (off + 1 + lenN l) ls e -> NameAt seg off (l :: ls) e
  | NA_ptr seg off hi lo ls e' :
      off + 2 <= len -> 192 <= hi < 256 -> lo < 256 -> (hi - 192) * 256 + lo < seg ->
      mem off = hi -> mem (off + 1) = lo ->
      NameAt ((hi - 192) * 256 + lo) ((hi - 192) * 256 + lo) ls e' -> NameAt seg off ls (off + 2).
End Spec.
