(* HostnameAccept.v — refinement: the acceptor written from the text of C08 / C17 (Hostname.mon_hostname) accepts
   EVERY run of the model of hostname.cpp under the virtual-time kernel: any delivered messages, exact advances,
   advances leaving what is due at t pending, and late firings, provided the kernel's fuel covers the advances. *)
From QV Require Import Base Fields SrcFacts Msg SrcDecisions Sim Prober Hostname HostnameProofs HostnameInv.
From Coq Require Import ZifyBool ZifyNat ZifyN.
Local Open Scope Z_scope.

Lemma reg_wait_value : registration_wait_ms = 2000.  Proof. reflexivity. Qed.
Lemma reb_value : rebroadcast_ms = 1800000.  Proof. reflexivity. Qed.

Lemma message_eqb_refl m : message_eqb m m = true.
Proof.
  unfold message_eqb.
  assert (A : addr_eqb (m_addr m) (m_addr m) = true) by (destruct (m_addr m); cbn; auto using N.eqb_refl, bytes_eqb_true).
  rewrite A, !N.eqb_refl, !Bool.eqb_reflx, Nat.eqb_refl. cbn [andb].
  induction (m_records m) as [|r l IH]; [reflexivity|]. rewrite IH, andb_true_r.
  apply forallb_forall. intros f _. destruct f; cbn; unfold bs_eqb; auto using bytes_eqb_true, N.eqb_refl.
  - destruct (r_flush r); reflexivity.
  - destruct (r_addr r); cbn; auto using bytes_eqb_true, N.eqb_refl.
  - induction (r_attrs r) as [|[k v] l' IH']; cbn; [reflexivity|]. unfold bs_eqb. rewrite !bytes_eqb_true, IH'. reflexivity.
Qed.

Lemma bytes_eqb_sym a b : bytes_eqb a b = bytes_eqb b a.
Proof.
  destruct (bytes_eqb a b) eqn:E1, (bytes_eqb b a) eqn:E2; try reflexivity.
  - apply bytes_eqb_eq in E1. subst. rewrite bytes_eqb_true in E2. discriminate.
  - apply bytes_eqb_eq in E2. subst. rewrite bytes_eqb_true in E1. discriminate.
Qed.

Section Accept.
  Variable local : bytes.
  Variable ifs : list iface.

  Definition probe_msg (nm : bytes) : message :=
    add_query (mkQuery (Some nm) T_AAAA false) (add_query (mkQuery (Some nm) T_A false) default_message).

  Lemma probe_is_probe nm : is_host_probe nm (probe_msg nm) = true.
  Proof. unfold is_host_probe, probe_msg. cbn. unfold bs_eqb. cbn. rewrite bytes_eqb_true. reflexivity. Qed.

  (* the coupling between the kernel state and the acceptor's state (without the acceptor's clock) *)
  Inductive mode := MUnreg | MReg | MLag.

  Record J (md : mode) (s : hsim) (q : hmon) (tp : Z) : Prop := {
    j_local : h_local (s_st s) = local;
    j_ifs : h_ifaces (s_st s) = ifs;
    j_k : hm_k q = h_suffix (s_st s);
    j_name : h_name (s_st s) = host_candidate local (h_suffix (s_st s));
    j_last : hm_last q = Some (h_name (s_st s), tp);
    j_tp : tp <= s_now s;
    j_mode : match md with
             | MUnreg => h_reg (s_st s) = false /\ hm_reg q = false /\
                         (exists sq, s_tm s = [(T_REG, tp + 2000, sq)]) /\
                         match hm_emitted q with Some x => x = h_prev (s_st s) | None => h_prev (s_st s) = [] end
             | MReg => h_reg (s_st s) = true /\ hm_reg q = true /\ hm_emitted q = Some (h_name (s_st s)) /\
                       exists d sq, s_tm s = [(T_REB, d, sq)]
             | MLag => h_reg (s_st s) = true /\ hm_reg q = false /\ hm_emitted q = Some (h_name (s_st s)) /\
                       tp + 2000 <= s_now s /\ exists d sq, s_tm s = [(T_REB, d, sq)]
             end }.

  Definition hdispatch := dispatch hostst unit host_handle.
  Definition hfire_due := fire_due hostst unit host_handle.

  Lemma dispatch_reg now' sq0 h :
    hdispatch (mkSim now' [] sq0 h) (EvTimer T_REG) =
    (mkSim now' [(T_REB, now' + rebroadcast_ms, (sq0 + 1)%N)] (sq0 + 1)%N (set_host h (h_name h) (h_prev h) true (h_suffix h)),
     if bytes_eqb (h_name h) (h_prev h) then [] else [OSignal now' OBJ SIG_hostnameChanged (PBytes (Some (h_name h)))]).
  Proof.
    unfold hdispatch, dispatch. cbn [host_handle s_now s_st s_tm s_seq]. rewrite N.eqb_refl.
    rewrite ?host_announce_old in *. destruct (bytes_eqb (h_name h) (h_prev h)); reflexivity.
  Qed.

  Lemma dispatch_reb now' sq0 h :
    hdispatch (mkSim now' [] sq0 h) (EvTimer T_REB) =
    (mkSim now' [(T_REG, now' + registration_wait_ms, (sq0 + 1)%N)] (sq0 + 1)%N
           (set_host h (host_candidate (h_local h) 1) (h_name h) false 1),
     [OSendAll now' (probe_msg (host_candidate (h_local h) 1))]).
  Proof. reflexivity. Qed.

  Lemma fire_due_single fuel t strict late (s : hsim) tid d sq : s_tm s = [(tid, d, sq)] ->
    hfire_due (S fuel) t strict late s =
    if (if strict then d <? t else d <=? t) then
      let now' := if late then s_now s else Z.max (s_now s) d in
      let '(s2, o1) := hdispatch (mkSim now' [] (s_seq s) (s_st s)) (EvTimer tid) in
      let '(s3, o2) := hfire_due fuel t strict late s2 in (s3, o1 ++ o2)
    else (s, []).
  Proof.
    intro H. unfold hfire_due. cbn [fire_due]. rewrite H. cbn [tm_next].
    destruct (if strict then d <? t else d <=? t); cbn [andb]; [|reflexivity].
    unfold tm_remove. cbn [filter]. rewrite N.eqb_refl. cbn [negb]. reflexivity.
  Qed.

  (* enough fuel for the firings still ahead *)
  Definition budget (fuel : nat) (t : Z) (strict : bool) (s : hsim) : Prop :=
    (1 <= fuel)%nat /\
    forall tid d sq, s_tm s = [(tid, d, sq)] -> (if strict then d <? t else d <=? t) = true ->
      t - Z.max d (s_now s) < 2000 * Z.of_nat fuel - 2000.

  Lemma fire_accepted : forall fuel t strict late lo (s : hsim) q md tp,
    J md s q tp -> lo <= s_now s -> s_now s <= t -> (late = true -> s_now s = t) -> budget fuel t strict s ->
    exists q' md' tp',
      hmon_timed local (S (length (snd (hfire_due fuel t strict late s)))) q (snd (hfire_due fuel t strict late s)) = inl q' /\
      J md' (fst (hfire_due fuel t strict late s)) q' tp' /\
      forallb (out_in lo t) (snd (hfire_due fuel t strict late s)) = true /\
      non_polls (snd (hfire_due fuel t strict late s)) = snd (hfire_due fuel t strict late s) /\
      s_now s <= s_now (fst (hfire_due fuel t strict late s)) <= t /\ hm_now q' = hm_now q.
  Proof.
    induction fuel as [|f IH]; intros t strict late lo s q md tp HJ Hlo Hnt Hlate [Hf1 Hb]; [lia|].
    pose proof reg_wait_value as RW. pose proof reb_value as RB.
    assert (Hsingle : exists tid d sq, s_tm s = [(tid, d, sq)]).
    { destruct md; destruct (j_mode _ _ _ _ HJ) as (_ & _ & X); [destruct X as ((sq & E) & _)|destruct X as (_ & d & sq & E)|destruct X as (_ & _ & d & sq & E)]; eauto. }
    destruct Hsingle as (tid & d & sq & Etm). rewrite (fire_due_single f t strict late s tid d sq Etm).
    destruct (if strict then d <? t else d <=? t) eqn:Hdue.
    2:{ cbn [fst snd length hmon_timed forallb non_polls filter]. exists q, md, tp. split; [reflexivity|]. split; [exact HJ|]. split; [reflexivity|]. split; [reflexivity|]. split; [lia|reflexivity]. }
    specialize (Hb tid d sq Etm Hdue). cbv zeta.
    set (now' := if late then s_now s else Z.max (s_now s) d).
    assert (Hd : d <= t) by (destruct strict; lia).
    assert (Hn1 : s_now s <= now' <= t) by (unfold now'; destruct late; lia).
    assert (Hn2 : d <= now') by (unfold now'; destruct late; [rewrite (Hlate eq_refl)|]; lia).
    (* the budget of the state after the firing, whatever fresh timer it arms *)
    assert (Hbud : forall (s2 : hsim) tid2 d2 sq2, s_now s2 = now' -> s_tm s2 = [(tid2, d2, sq2)] -> now' + 2000 <= d2 -> budget f t strict s2).
    { intros s2 tid2 d2 sq2 E1 E2 E3. split; [lia|]. intros tid3 d3 sq3 E4 Hdue3. rewrite E2 in E4. injection E4 as <- <- <-. rewrite E1.
      assert (d2 <= t) by (destruct strict; lia). lia. }
    destruct md.
    - (* unregistered: the registration timer *)
      destruct (j_mode _ _ _ _ HJ) as (Hr & Hqr & (sq0 & Etm') & Hem). rewrite Etm in Etm'. injection Etm' as -> -> ->.
      rewrite dispatch_reg.
      set (s2 := mkSim now' [(T_REB, now' + rebroadcast_ms, (s_seq s + 1)%N)] (s_seq s + 1)%N
                       (set_host (s_st s) (h_name (s_st s)) (h_prev (s_st s)) true (h_suffix (s_st s)))).
      assert (B2 : budget f t strict s2) by (apply (Hbud s2 T_REB (now' + rebroadcast_ms) (s_seq s + 1)%N); [reflexivity|reflexivity|lia]).
      rewrite ?host_announce_old in *. destruct (bytes_eqb (h_name (s_st s)) (h_prev (s_st s))) eqn:Esame.
      + (* same name as before: silent, the acceptor lags *)
        assert (J2 : J MLag s2 q tp).
        { destruct HJ as [A1 A2 A3 A4 A5 A6 _]. constructor; cbn [s2 s_st s_now s_tm set_host h_local h_ifaces h_suffix h_name h_reg]; auto; try lia.
          repeat split; auto; try lia; [|eauto]. apply bytes_eqb_eq in Esame.
          destruct (hm_emitted q) as [x|]; [rewrite Hem, Esame; reflexivity|]. exfalso.
          apply (candidate_nonempty local (h_suffix (s_st s))). rewrite <- A4, Esame. exact Hem. }
        destruct (IH t strict late lo s2 q MLag tp J2 ltac:(cbn; lia) ltac:(cbn; lia) ltac:(intro L; cbn; unfold now'; rewrite L; auto) B2)
          as (q' & md' & tp' & M & J' & O & NP & T & N'). change (s_now s2) with now' in T.
        destruct (hfire_due f t strict late s2) as [s3 o2]. cbn [fst snd app] in *.
        exists q', md', tp'. split; [exact M|]. split; [exact J'|]. split; [exact O|]. split; [exact NP|]. split; [lia|exact N'].
      + (* a new name: announced *)
        set (q1 := mkHmon (hm_k q) (hm_last q) true (Some (h_name (s_st s))) (hm_now q)).
        assert (J2 : J MReg s2 q1 tp).
        { destruct HJ as [A1 A2 A3 A4 A5 A6 _]. constructor; cbn [q1 s2 s_st s_now s_tm set_host h_local h_ifaces h_suffix h_name h_reg hm_k hm_last hm_reg hm_emitted]; auto; try lia.
          repeat split; auto. eauto. }
        destruct (IH t strict late lo s2 q1 MReg tp J2 ltac:(cbn; lia) ltac:(cbn; lia) ltac:(intro L; cbn; unfold now'; rewrite L; auto) B2)
          as (q' & md' & tp' & M & J' & O & NP & T & N'). change (s_now s2) with now' in T.
        destruct (hfire_due f t strict late s2) as [s3 o2]. cbn [fst snd app length] in *.
        exists q', md', tp'. split; [|split; [exact J'|split; [|split; [|split; [lia|exact N']]]]].
        * set (f2 := S (length o2)) in *. cbn [hmon_timed]. change (SIG_hostnameChanged =? SIG_hostnameChanged)%N with true. cbn [negb]. rewrite Hqr.
          rewrite (j_last _ _ _ _ HJ). cbn [bs_data]. rewrite bytes_eqb_true. cbn [negb].
          replace (tp + 2000 <=? now') with true by lia. cbn [negb].
          assert (match hm_emitted q with Some e => bytes_eqb e (h_name (s_st s)) | None => false end = false) as ->.
          { destruct (hm_emitted q) as [x|]; [|reflexivity]. rewrite Hem, bytes_eqb_sym. exact Esame. }
          unfold q1 in M. rewrite (j_last _ _ _ _ HJ) in M. exact M.
        * cbn [forallb out_in]. rewrite O. replace (lo <=? now') with true by lia. replace (now' <=? t) with true by lia. reflexivity.
        * cbn [non_polls filter]. unfold non_polls in NP. rewrite NP. reflexivity.
    - (* registered: the half-hourly re-assertion *)
      destruct (j_mode _ _ _ _ HJ) as (Hr & Hqr & Hem & (d0 & sq0 & Etm')). rewrite Etm in Etm'. injection Etm' as -> -> ->.
      rewrite dispatch_reb.
      set (s2 := mkSim now' [(T_REG, now' + registration_wait_ms, (s_seq s + 1)%N)] (s_seq s + 1)%N
                       (set_host (s_st s) (host_candidate (h_local (s_st s)) 1) (h_name (s_st s)) false 1)).
      set (q1 := mkHmon (0 + 1) (Some (host_candidate local 1, now')) false (hm_emitted q) (hm_now q)).
      assert (B2 : budget f t strict s2) by (apply (Hbud s2 T_REG (now' + registration_wait_ms) (s_seq s + 1)%N); [reflexivity|reflexivity|lia]).
      assert (J2 : J MUnreg s2 q1 now').
      { destruct HJ as [A1 A2 A3 A4 A5 A6 _]. constructor; cbn [q1 s2 s_st s_now s_tm set_host h_local h_ifaces h_suffix h_name h_reg h_prev hm_k hm_last hm_reg hm_emitted]; auto; try lia.
        - rewrite A1. reflexivity.
        - rewrite A1. reflexivity.
        - repeat split; auto. + exists (s_seq s + 1)%N. rewrite RW. reflexivity. + rewrite Hem. reflexivity. }
      destruct (IH t strict late lo s2 q1 MUnreg now' J2 ltac:(cbn; lia) ltac:(cbn; lia) ltac:(intro L; cbn; unfold now'; rewrite L; auto) B2)
        as (q' & md' & tp' & M & J' & O & NP & T & N'). change (s_now s2) with now' in T.
      destruct (hfire_due f t strict late s2) as [s3 o2]. cbn [fst snd app length] in *.
      exists q', md', tp'. split; [|split; [exact J'|split; [|split; [|split; [lia|exact N']]]]].
      + set (f2 := S (length o2)) in *. cbn [hmon_timed]. rewrite Hqr. cbn [orb negb expect_probe hm_k]. rewrite (j_local _ _ _ _ HJ), probe_is_probe. exact M.
      + cbn [forallb out_in]. rewrite O. replace (lo <=? now') with true by lia. replace (now' <=? t) with true by lia. reflexivity.
      + cbn [non_polls filter]. unfold non_polls in NP. rewrite NP. reflexivity.
    - (* registered, the acceptor has not yet noticed (silent registration) *)
      destruct (j_mode _ _ _ _ HJ) as (Hr & Hqr & Hem & Htp & (d0 & sq0 & Etm')). rewrite Etm in Etm'. injection Etm' as -> -> ->.
      rewrite dispatch_reb.
      set (s2 := mkSim now' [(T_REG, now' + registration_wait_ms, (s_seq s + 1)%N)] (s_seq s + 1)%N
                       (set_host (s_st s) (host_candidate (h_local (s_st s)) 1) (h_name (s_st s)) false 1)).
      set (q1 := mkHmon (0 + 1) (Some (host_candidate local 1, now')) false (hm_emitted q) (hm_now q)).
      assert (B2 : budget f t strict s2) by (apply (Hbud s2 T_REG (now' + registration_wait_ms) (s_seq s + 1)%N); [reflexivity|reflexivity|lia]).
      assert (J2 : J MUnreg s2 q1 now').
      { destruct HJ as [A1 A2 A3 A4 A5 A6 _]. constructor; cbn [q1 s2 s_st s_now s_tm set_host h_local h_ifaces h_suffix h_name h_reg h_prev hm_k hm_last hm_reg hm_emitted]; auto; try lia.
        - rewrite A1. reflexivity.
        - rewrite A1. reflexivity.
        - repeat split; auto. + exists (s_seq s + 1)%N. rewrite RW. reflexivity. + rewrite Hem. reflexivity. }
      destruct (IH t strict late lo s2 q1 MUnreg now' J2 ltac:(cbn; lia) ltac:(cbn; lia) ltac:(intro L; cbn; unfold now'; rewrite L; auto) B2)
        as (q' & md' & tp' & M & J' & O & NP & T & N'). change (s_now s2) with now' in T.
      destruct (hfire_due f t strict late s2) as [s3 o2]. cbn [fst snd app length] in *.
      exists q', md', tp'. split; [|split; [exact J'|split; [|split; [|split; [lia|exact N']]]]].
      + set (f2 := S (length o2)) in *. cbn [hmon_timed]. rewrite Hqr, (j_last _ _ _ _ HJ), Hem. cbn [orb].
        replace (tp + 2000 <=? now') with true by lia. rewrite bytes_eqb_true. cbn [andb negb expect_probe hm_k].
        rewrite (j_local _ _ _ _ HJ), probe_is_probe. unfold q1 in M. rewrite Hem in M. exact M.
      + cbn [forallb out_in]. rewrite O. replace (lo <=? now') with true by lia. replace (now' <=? t) with true by lia. reflexivity.
      + cbn [non_polls filter]. unfold non_polls in NP. rewrite NP. reflexivity.
  Qed.

  (* ---------------------------------------------------------------- between operations *)
  Definition with_now (q : hmon) (t : Z) : hmon := mkHmon (hm_k q) (hm_last q) (hm_reg q) (hm_emitted q) t.

  Lemma J_mono md (s : hsim) q tp t t' : J md s q tp -> J md (set_now hostst t s) (with_now q t') tp.
  Proof.
    intros [A1 A2 A3 A4 A5 A6 A7]. constructor; cbn [set_now with_now s_st s_now s_tm hm_k hm_last hm_reg hm_emitted]; auto; try lia.
    destruct md; auto. destruct A7 as (B1 & B2 & B3 & B4 & B5). repeat split; auto. lia.
  Qed.

  Lemma last_poll_app o (h : hostst) : last_poll (o ++ host_poll h) = Some (h_reg h, h_name h).
  Proof. unfold last_poll, host_poll. rewrite rev_unit. reflexivity. Qed.
  Lemma non_polls_app o (h : hostst) : non_polls o = o -> non_polls (o ++ host_poll h) = o.
  Proof. intro H. unfold non_polls in *. rewrite filter_app, H. cbn. apply app_nil_r. Qed.

  Lemma check_poll_ok md (s : hsim) q tp o : J md s q tp -> md <> MLag ->
    check_poll q (o ++ host_poll (s_st s)) = inl q.
  Proof.
    intros HJ Hmd. unfold check_poll. rewrite last_poll_app, (j_last _ _ _ _ HJ), bytes_eqb_true. cbn [negb].
    destruct md; [| |congruence]; destruct (j_mode _ _ _ _ HJ) as (Hr & Hq & X); rewrite Hr, Hq; cbn [Bool.eqb negb]; [reflexivity|].
    destruct X as (-> & _). rewrite bytes_eqb_true. reflexivity.
  Qed.

  Lemma settle_ok md (s : hsim) q tp t : J md s q tp -> s_now s <= t ->
    exists q2 md2, settle_registration q t (Some (h_reg (s_st s), h_name (s_st s))) = inl q2 /\ md2 <> MLag /\
                   J md2 s q2 tp /\ hm_now q2 = hm_now q.
  Proof.
    intros HJ Ht. destruct md.
    - destruct (j_mode _ _ _ _ HJ) as (Hr & _). rewrite Hr. exists q, MUnreg. split; [reflexivity|]. split; [discriminate|]. split; [exact HJ|reflexivity].
    - destruct (j_mode _ _ _ _ HJ) as (Hr & Hq & _). rewrite Hr. exists q, MReg. cbn [settle_registration]. rewrite Hq. split; [reflexivity|]. split; [discriminate|]. split; [exact HJ|reflexivity].
    - destruct (j_mode _ _ _ _ HJ) as (Hr & Hq & Hem & Htp & X). rewrite Hr. cbn [settle_registration]. rewrite Hq, (j_last _ _ _ _ HJ), Hem.
      replace (tp + 2000 <=? t) with true by lia. rewrite bytes_eqb_true. cbn [negb].
      eexists. exists MReg. split; [reflexivity|]. split; [discriminate|]. split; [|reflexivity].
      destruct HJ as [A1 A2 A3 A4 A5 A6 _]. constructor; cbn [hm_k hm_last hm_reg hm_emitted]; auto.
  Qed.

  (* the coupling at operation boundaries: the acceptor is never lagging there, and the clocks agree *)
  Definition K (s : hsim) (q : hmon) : Prop :=
    exists md tp, md <> MLag /\ J md s q tp /\ hm_now q = s_now s /\ 0 <= s_now s.

  Definition hstep := step hostst unit host_handle.

  Lemma advance_accepted fuel (s : hsim) q t (strict late : bool) :
    K s q -> s_now s <= t -> t < 2000 * Z.of_nat fuel - 2000 ->
    let s0 : hsim := if late then set_now hostst t s else s in
    let res := hfire_due fuel t strict late s0 in
    let s' : hsim := if late then fst res else set_now hostst t (fst res) in
    let outs := snd res ++ host_poll (s_st s') in
    forall o, (o = AAdv t \/ o = AAdvB t \/ o = ALate t) ->
    exists q', hmon_step local ifs q o outs = inl q' /\ K s' q'.
  Proof.
    intros (md & tp & Hmd & HJ & Hnow & H0) Hnt Hfuel. cbv zeta.
    set (s0 := (if late then set_now hostst t s else s) : hsim).
    assert (J0 : J md s0 q tp).
    { unfold s0. destruct late; [|exact HJ]. replace q with (with_now q (hm_now q)) by (destruct q; reflexivity). apply J_mono, HJ. }
    assert (N0 : s_now s <= s_now s0 <= t) by (unfold s0; destruct late; cbn; lia).
    assert (L0 : late = true -> s_now s0 = t) by (intro L; unfold s0; rewrite L; cbn; lia).
    assert (B0 : budget fuel t strict s0).
    { split; [lia|]. intros tid d sq _ _. lia. }
    destruct (fire_accepted fuel t strict late (hm_now q) s0 q md tp J0 ltac:(lia) ltac:(lia) L0 B0)
      as (q1 & md1 & tp1 & M & J1 & O & NP & T & N1).
    destruct (hfire_due fuel t strict late s0) as [s1 o1]. cbn [fst snd] in *.
    set (s' := (if late then s1 else set_now hostst t s1) : hsim).
    assert (Est : s_st s' = s_st s1) by (unfold s'; destruct late; reflexivity).
    assert (Enow : s_now s' = t).
    { unfold s'. destruct late; cbn; [|lia]. specialize (L0 eq_refl). lia. }
    intros o Ho.
    assert (Hstep : hmon_step local ifs q o (o1 ++ host_poll (s_st s')) =
                    match match hmon_timed local (S (length o1)) q o1 with
                          | inl q1 => match settle_registration q1 t (last_poll (o1 ++ host_poll (s_st s'))) with
                                      | inl q2 => inl (with_now q2 t) | inr c => inr c end
                          | inr c => inr c end with
                    | inl q' => check_poll q' (o1 ++ host_poll (s_st s')) | inr c => inr c end).
    { unfold hmon_step. rewrite (non_polls_app o1 _ NP).
      destruct Ho as [-> | [-> | ->]]; replace (t <? hm_now q) with false by lia; rewrite O; reflexivity. }
    rewrite Hstep, M, last_poll_app, Est.
    destruct (settle_ok md1 s1 q1 tp1 t J1 ltac:(lia)) as (q2 & md2 & S2 & Hmd2 & J2 & N2). rewrite S2.
    assert (J3 : J md2 s' (with_now q2 t) tp1).
    { unfold s'. destruct late; [|apply J_mono, J2].
      destruct J2 as [A1 A2 A3 A4 A5 A6 A7]. constructor; auto. }
    exists (with_now q2 t). split.
    - rewrite <- Est. apply (check_poll_ok md2 s' _ tp1 o1 J3 Hmd2).
    - exists md2, tp1. split; [exact Hmd2|]. split; [exact J3|]. split; [cbn; lia|lia].
  Qed.

  (* ---------------------------------------------------------------- a delivered message *)
  Lemma records_accepted now : forall rs h tm sq q tp,
    J MUnreg (mkSim now tm sq h) q tp ->
    exists q' tp',
      hmon_records local q rs (snd (apply_effs now tm sq (snd (host_records rs h)))) = inl q' /\
      J MUnreg (mkSim now (fst (fst (apply_effs now tm sq (snd (host_records rs h)))))
                          (snd (fst (apply_effs now tm sq (snd (host_records rs h))))) (fst (host_records rs h))) q' tp' /\
      forallb (out_in now now) (snd (apply_effs now tm sq (snd (host_records rs h)))) = true /\
      non_polls (snd (apply_effs now tm sq (snd (host_records rs h)))) = snd (apply_effs now tm sq (snd (host_records rs h))) /\
      hm_now q' = hm_now q.
  Proof.
    pose proof reg_wait_value as RW.
    induction rs as [|r rs IH]; intros h tm sq q tp HJ; cbn [host_records hmon_records].
    - cbn [snd fst apply_effs forallb non_polls filter]. exists q, tp. split; [reflexivity|]. split; [exact HJ|]. auto.
    - assert (Ec : hostname_conflict r (h_name h) =
                   ((r_type r =? 1)%N || (r_type r =? 28)%N) && bs_eqb (r_name r) (Some (host_candidate local (hm_k q)))).
      { pose proof (j_k _ _ _ _ HJ) as Ek. pose proof (j_name _ _ _ _ HJ) as En. cbn [s_st] in Ek, En.
        unfold hostname_conflict. rewrite Ek, En. reflexivity. }
      rewrite <- Ec. destruct (hostname_conflict r (h_name h)); [|apply (IH h tm sq q tp HJ)].
      destruct (j_mode _ _ _ _ HJ) as (Hr & Hqr & (sq0 & Etm) & Hem). cbn [s_st s_tm] in *.
      unfold assert_hostname. cbn [set_host h_local h_suffix h_prev h_reg h_ifaces h_name].
      set (nm := host_candidate (h_local h) (h_suffix h + 1)).
      set (h1 := set_host (set_host h (h_name h) (h_prev h) (h_reg h) (h_suffix h + 1)) nm (h_prev h) (h_reg h) (h_suffix h + 1)).
      set (q1 := mkHmon (hm_k q + 1) (Some (host_candidate local (hm_k q + 1), now)) (hm_reg q) (hm_emitted q) (hm_now q)).
      set (tm1 := tm_remove T_REG tm ++ [(T_REG, now + registration_wait_ms, (sq + 1)%N)]).
      assert (J1 : J MUnreg (mkSim now tm1 (sq + 1)%N h1) q1 now).
      { destruct HJ as [A1 A2 A3 A4 A5 A6 _]. cbn [s_st s_now s_tm] in *.
        constructor; cbn [q1 h1 set_host s_st s_now s_tm h_local h_ifaces h_suffix h_name h_reg h_prev hm_k hm_last hm_reg hm_emitted]; auto; try lia.
        - unfold nm. rewrite A1. reflexivity.
        - unfold nm. rewrite A1, A3. reflexivity.
        - repeat split; auto. exists (sq + 1)%N. unfold tm1. rewrite Etm, RW. unfold tm_remove. cbn [filter]. rewrite N.eqb_refl. reflexivity. }
      destruct (IH h1 tm1 (sq + 1)%N q1 now J1) as (q' & tp' & M & J' & O & NP & N').
      destruct (host_records rs h1) as [h2 e2]. cbn [fst snd app apply_effs] in *. fold tm1.
      destruct (apply_effs now tm1 (sq + 1)%N e2) as [[tm2 sq2] o2]. cbn [fst snd] in *.
      exists q', tp'. split; [|split; [exact J'|split; [|split; [|exact N']]]].
      + pose proof (j_k _ _ _ _ HJ) as Ek. pose proof (j_local _ _ _ _ HJ) as El. cbn [s_st] in Ek, El.
        cbn [expect_probe]. rewrite Ek, <- El. fold nm.
        change (add_query (mkQuery (Some nm) T_AAAA false) (add_query (mkQuery (Some nm) T_A false) default_message)) with (probe_msg nm).
        rewrite probe_is_probe. unfold q1 in M. rewrite Ek, <- El in M. exact M.
      + cbn [forallb out_in]. rewrite O. replace (now <=? now) with true by lia. reflexivity.
      + cbn [non_polls filter]. unfold non_polls in NP. rewrite NP. reflexivity.
  Qed.

  Lemma deliver_accepted (s : hsim) q m : K s q ->
    exists q', hmon_step local ifs q (ADeliver m)
                 (snd (hdispatch s (EvMsg m)) ++ host_poll (s_st (fst (hdispatch s (EvMsg m))))) = inl q' /\
               K (fst (hdispatch s (EvMsg m))) q'.
  Proof.
    intros (md & tp & Hmd & HJ & Hnow & H0). destruct s as [now tm sq h]. cbn [s_now] in *.
    unfold hdispatch, dispatch. cbn [s_now s_st s_tm s_seq].
    destruct (m_response m) eqn:Hresp.
    - destruct md; [| |congruence].
      + (* unregistered: conflicts are answered by probes for the next candidates *)
        destruct (j_mode _ _ _ _ HJ) as (Hr & Hqr & _). cbn [s_st] in Hr.
        cbn [host_handle]. rewrite Hresp, Hr.
        destruct (records_accepted now (m_records m) h tm sq q tp HJ) as (q' & tp' & M & J' & O & NP & N').
        destruct (host_records (m_records m) h) as [h' es]. cbn [fst snd] in *.
        destruct (apply_effs now tm sq es) as [[tm' sq'] o]. cbn [fst snd s_st] in *.
        exists q'. split.
        * unfold hmon_step. rewrite (non_polls_app o h' NP), Hnow, O, Hresp, Hqr, M. cbn [negb].
          apply (check_poll_ok MUnreg (mkSim now tm' sq' h') q' tp' o J'). discriminate.
        * exists MUnreg, tp'. split; [discriminate|]. split; [exact J'|]. cbn [s_now]. split; [congruence|exact H0].
      + (* registered: responses are ignored *)
        destruct (j_mode _ _ _ _ HJ) as (Hr & Hqr & _). cbn [s_st] in Hr.
        cbn [host_handle]. rewrite Hresp, Hr. cbn [apply_effs fst snd s_st app].
        exists q. split.
        * unfold hmon_step. cbn [non_polls host_poll filter forallb negb]. rewrite Hresp, Hqr.
          apply (check_poll_ok MReg (mkSim now tm sq h) q tp [] HJ). discriminate.
        * exists MReg, tp. auto.
    - (* a query: answered exactly as C17 specifies *)
      rewrite (host_query_reply now h m Hresp). cbn [fst snd].
      pose proof (j_last _ _ _ _ HJ) as EL. pose proof (j_ifs _ _ _ _ HJ) as EI. cbn [s_st] in EL, EI.
      assert (Hreg : hm_reg q = h_reg h).
      { destruct md; [| |congruence]; destruct (j_mode _ _ _ _ HJ) as (Hr & Hqr & _); cbn [s_st] in Hr; congruence. }
      destruct (spec_host_reply (h_reg h) (h_name h) (h_ifaces h) m) as [r|] eqn:SR; cbn [apply_effs fst snd s_st app].
      + exists q. split.
        * unfold hmon_step. cbn [non_polls host_poll filter app forallb out_in]. rewrite Hnow. replace (now <=? now) with true by lia.
          cbn [andb negb]. rewrite Hresp, EL, Hreg, <- EI, SR, message_eqb_refl.
          apply (check_poll_ok md (mkSim now tm sq h) q tp [OSend now r] HJ Hmd).
        * exists md, tp. auto.
      + exists q. split.
        * unfold hmon_step. cbn [non_polls host_poll filter app forallb negb]. rewrite Hresp, EL, Hreg, <- EI, SR.
          apply (check_poll_ok md (mkSim now tm sq h) q tp [] HJ Hmd).
        * exists md, tp. auto.
  Qed.

  (* ---------------------------------------------------------------- every operation, every script *)
  Definition op_ok (fuel : nat) (o : aop unit) : Prop :=
    match o with
    | ADeliver _ => True
    | AAdv t | AAdvB t | ALate t => t < 2000 * Z.of_nat fuel - 2000
    | AApi _ => False
    end.

  Theorem step_accepted fuel (s : hsim) q o : K s q -> op_ok fuel o ->
    exists q', hmon_step local ifs q o (snd (hstep fuel s o) ++ host_poll (s_st (fst (hstep fuel s o)))) = inl q' /\
               K (fst (hstep fuel s o)) q'.
  Proof.
    intros HK Hok. destruct o as [m|t|t|t|a]; cbn [op_ok] in Hok.
    - apply (deliver_accepted s q m HK).
    - unfold hstep. cbn [step]. destruct (t <? s_now s) eqn:E.
      + cbn [fst snd app]. destruct HK as (md & tp & Hmd & HJ & Hnow & H0). exists q. split; [|exists md, tp; auto].
        unfold hmon_step. cbn [non_polls host_poll filter]. rewrite Hnow, E. apply (check_poll_ok md s q tp [] HJ Hmd).
      + pose proof (advance_accepted fuel s q t false false HK ltac:(lia) Hok (AAdv t) (or_introl eq_refl)) as A. cbv zeta in A.
        fold hfire_due. destruct (hfire_due fuel t false false s) as [s1 o1]. cbn [fst snd] in *. exact A.
    - unfold hstep. cbn [step]. destruct (t <? s_now s) eqn:E.
      + cbn [fst snd app]. destruct HK as (md & tp & Hmd & HJ & Hnow & H0). exists q. split; [|exists md, tp; auto].
        unfold hmon_step. cbn [non_polls host_poll filter]. rewrite Hnow, E. apply (check_poll_ok md s q tp [] HJ Hmd).
      + pose proof (advance_accepted fuel s q t true false HK ltac:(lia) Hok (AAdvB t) (or_intror (or_introl eq_refl))) as A. cbv zeta in A.
        fold hfire_due. destruct (hfire_due fuel t true false s) as [s1 o1]. cbn [fst snd] in *. exact A.
    - unfold hstep. cbn [step]. destruct (t <? s_now s) eqn:E.
      + cbn [fst snd app]. destruct HK as (md & tp & Hmd & HJ & Hnow & H0). exists q. split; [|exists md, tp; auto].
        unfold hmon_step. cbn [non_polls host_poll filter]. rewrite Hnow, E. apply (check_poll_ok md s q tp [] HJ Hmd).
      + pose proof (advance_accepted fuel s q t false true HK ltac:(lia) Hok (ALate t) (or_intror (or_intror eq_refl))) as A. cbv zeta in A.
        fold hfire_due. exact A.
    - destruct Hok.
  Qed.

  Theorem run_accepted_from fuel : forall ops (s : hsim) q k, K s q -> Forall (op_ok fuel) ops ->
    hmon_run local ifs q k ops (run_g hostst unit host_handle host_poll fuel s ops) = None.
  Proof.
    induction ops as [|o ops IH]; intros s q k HK Hok; [reflexivity|]. inversion Hok as [|? ? Ho Hops]; subst.
    cbn [run_g hmon_run]. destruct (step_accepted fuel s q o HK Ho) as (q' & M & K').
    unfold hstep in *. destruct (step hostst unit host_handle fuel s o) as [s' out]. cbn [fst snd] in *.
    rewrite M. apply IH; assumption.
  Qed.
End Accept.

(* the acceptor of C08 / C17 accepts every run of the model of hostname.cpp *)
Theorem host_run_accepted fuel rawlocal ifs ops :
  Forall (op_ok fuel) ops -> mon_hostname rawlocal ifs ops (host_run fuel rawlocal ifs ops) = None.
Proof.
  intro Hok. unfold mon_hostname, host_run. set (local := replace_byte DOT DASH rawlocal).
  unfold on_rebroadcast, assert_hostname. cbn [set_host h_local h_suffix h_name h_prev h_reg h_ifaces apply_effs fst snd app].
  unfold mon_hostname_loc. cbn [non_polls host_poll filter app expect_probe hm_k].
  change (add_query (mkQuery (Some (host_candidate local 1)) T_AAAA false)
            (add_query (mkQuery (Some (host_candidate local 1)) T_A false) default_message)) with (probe_msg (host_candidate local 1)).
  change (0 + 1)%N with 1%N. rewrite probe_is_probe.
  set (h0 := mkHost local ifs (host_candidate local 1) [] false 1).
  set (s0 := mkSim 0 (tm_remove T_REG [] ++ [(T_REG, 0 + registration_wait_ms, (0 + 1)%N)]) (0 + 1)%N h0).
  set (q0 := mkHmon 1 (Some (host_candidate local 1, 0)) false None 0).
  assert (J0 : J local ifs MUnreg s0 q0 0).
  { constructor; cbn; auto; try lia. repeat split; auto. eexists. reflexivity. }
  pose proof (check_poll_ok local ifs MUnreg s0 q0 0 [OSendAll 0 (probe_msg (host_candidate local 1))] J0 ltac:(discriminate)) as CP.
  match goal with |- match ?c with _ => _ end = None =>
    change c with (check_poll q0 ([OSendAll 0 (probe_msg (host_candidate local 1))] ++ host_poll (s_st s0))) end.
  rewrite CP.
  apply (run_accepted_from local ifs fuel ops s0 q0 0%N); [|exact Hok]. exists MUnreg, 0. split; [discriminate|]. split; [exact J0|]. cbn. split; [reflexivity|lia].
Qed.
