(* Properties_C15.v — every browser report is backed by valid records and never goes stale (partial). *)
From QV Require Import Base Fields SrcFacts Msg SrcDecisions Cache Sim SimProofs Browser BrowserSpec BrowserProofs BrowserInv BrowserBacked BrowserSrv.
Local Open Scope Z_scope.

(* Handler level (a run-level statement of the first clause follows below).  Every description updateService reports is assembled from the cache content it sees: a PTR
   record named the service's type exists, the hostname and port are those of the first SRV record of the instance, the
   attributes are the merge of all its TXT records.  By C05/C06 (Properties_C05/C06) the cache content is exactly the
   unexpired, not withdrawn records - and since the expiry announcement now follows the removal (fix recorded in
   known_findings.json) the re-evaluation on TXT expiry no longer sees the expired record.  Freshness over whole
   histories (codes 60-64) is decided on every run by the acceptor mon_browser with its reference cache. *)
Theorem C15_report_assembled_from_cache_partial j v fq b :
  let '(need, b', es) := update_service j v fq b in
  let '(sname, stype) := split_fq fq in
  forall sg s, In (ESig (N.of_nat j) sg (PService s)) es ->
  lookup_view stype T_PTR v <> [] /\
  exists srv, hd_error (lookup_view fq T_SRV v) = Some srv /\
              s = mkService stype sname (r_target srv) (r_port srv) (merged_attrs fq v).
Proof.
  pose proof (update_service_spec j v fq b) as U.
  destruct (update_service j v fq b) as [[need b'] es]. destruct (split_fq fq) as [sname stype].
  intros sg s H. destruct U as [[-> _]|(srv & s0 & P & S & -> & _ & _ & [[_ ->]|(old & _ & _ & ->)])]; [destruct H| |];
    destruct H as [H|[]]; injection H as _ <-; split; try exact P; exists srv; auto.
Qed.
Print Assumptions C15_report_assembled_from_cache_partial.

(* ---- run level, first clause ("every report is backed by records it holds") ----
   For ANY world (any number of browsers and caches, shared or private, any content) and ANY handler invocation - a
   message, a cache timer with any number of records expiring, a browser timer, an API call -, every serviceAdded /
   serviceUpdated that any browser emits carries a description that is [Backed] by a set v of records: a PTR named the
   service's type is in v, the reported hostname and port are those of the first SRV record of the instance in v, the
   reported attributes are the merge of all TXT records of the instance in v; and every record of v was either held by a
   cache before this invocation or delivered by it (v is one of the contents the cache passes through while the handler
   processes the message record by record, or expires records one by one).  By the cache invariant of C05
   (CacheProofs.GInv, every stored record's last trigger lies in the future) the records held are unexpired; by C06 none
   of them has TTL 0.
   The second clause (no stale description while a valid PTR points at the instance) is decided on every run by the
   acceptor mon_browser with its reference cache (codes 63, 64); it has the open finding `shared-cache-replay`. *)
Theorem C15_reports_backed now w ev ob sg s :
  In (ESig ob sg (PService s)) (snd (world_handle now w ev)) -> sg = SIG_serviceAdded \/ sg = SIG_serviceUpdated ->
  exists v, incl v (sources w ev) /\ Backed v s.
Proof. intros H R. exact (world_handle_backed now w ev ob sg s H R). Qed.
Print Assumptions C15_reports_backed.

(* ---- run level, removal clause ("reported removed no later than the moment its last SRV record expires or is
   withdrawn") ----
   [SrvInv w]: for every browser of the world and every instance it currently has added, its cache holds an SRV record
   for that instance (and the stored description has a name).  It holds in the empty world and is preserved by EVERY
   handler invocation - messages (record by record), cache timers with any number of records leaving one by one (each
   removal is shown to every browser attached to that cache, which drops the instance when the record is an SRV of it),
   goodbyes, flush replacements (the replacing record is itself an SRV of the instance), API calls, any number of
   browsers and shared caches.  Hence an instance never stays added beyond the handler in which its last SRV record left
   the cache; under exact scheduling the cache drops a record at its expiry instant (C05). *)
Theorem C15_added_implies_srv_held now w ev : SrvInv w -> SrvInv (fst (world_handle now w ev)).
Proof. exact (world_handle_srv now w ev). Qed.
Print Assumptions C15_added_implies_srv_held.

(* every script of the executable model, from the empty world *)
Theorem C15_added_implies_srv_held_runs fuel ops b k s :
  let w := s_st (state_after world bapi world_handle fuel (mkSim 0 [] 0%N (mkWorld [] [] 0)) ops) in
  In b (w_browsers w) -> smap_find k (b_services b) = Some s -> has_srv k (cache_view w (b_cache b)).
Proof.
  intros w Hb Hk.
  assert (I : SrvInv w).
  { apply (run_P world bapi world_handle SrvInv (fun now st ev H => world_handle_srv now st ev H)). intros b0 []. }
  exact (proj1 (I b Hb) k s Hk).
Qed.
Print Assumptions C15_added_implies_srv_held_runs.
