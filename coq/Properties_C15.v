(* Properties_C15.v — every browser report is backed by valid records and never goes stale (partial). *)
From QV Require Import Base Fields SrcFacts Msg SrcDecisions Cache Sim Browser BrowserSpec BrowserProofs.
Local Open Scope Z_scope.

(* PARTIAL (handler level).  Every description updateService reports is assembled from the cache content it sees: a PTR
   record named the service's type exists, the hostname and port are those of the first SRV record of the instance, the
   attributes are the merge of all its TXT records.  By C05/C06 (Properties_C05/C06) the cache content is exactly the
   unexpired, not withdrawn records - and since the expiry announcement now follows the removal (fix recorded in
   known_findings.json) the re-evaluation on TXT expiry no longer sees the expired record.  Freshness over whole
   histories (codes 60-64) is decided on every run by the acceptor mon_browser with its reference cache. *)
Theorem C15_report_assembled_from_cache_partial j v fq b :
  let '(need, b', es) := update_service j v fq b in
  let '(sname, stype) := split_fq fq in
  forall sg s, In (ESig (N.of_nat j) sg (PService s)) es ->
  lookup_view stype T_PTR v <> [] /\
  exists srv, hd_error (lookup_view fq T_SRV v) = Some srv /\
              s = mkService stype sname (r_target srv) (r_port srv) (merged_attrs fq v).
Proof.
  pose proof (update_service_spec j v fq b) as U.
  destruct (update_service j v fq b) as [[need b'] es]. destruct (split_fq fq) as [sname stype].
  intros sg s H. destruct U as [[-> _]|(srv & s0 & P & S & -> & _ & _ & [[_ ->]|(old & _ & _ & ->)])]; [destruct H| |];
    destruct H as [H|[]]; injection H as _ <-; split; try exact P; exists srv; auto.
Qed.
Print Assumptions C15_report_assembled_from_cache_partial.
