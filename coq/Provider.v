(* Provider.v — model of provider.cpp composed with its Hostname and (at most one) Prober on one server. *)
From QV Require Import Base Fields SrcFacts Msg SrcDecisions Sim Prober Hostname.
Local Open Scope Z_scope.

Record provst := mkProv {
  pv_exists : bool;                 (* the Provider object has been created and not destroyed *)
  pv_initialized : bool; pv_confirmed : bool;
  pv_browse : record; pv_ptr : record; pv_srv : record; pv_txt : record;            (* published *)
  pv_browseP : record; pv_ptrP : record; pv_srvP : record; pv_txtP : record }.      (* proposed *)

Definition OBJ_HOST : N := 0.  Definition OBJ_PROV : N := 1.

Definition prov_new : provst :=
  mkProv true false false default_record default_record default_record default_record
         (set_type T_PTR (set_name (Some browse_type) default_record))
         (set_type T_PTR default_record) (set_flush true (set_type T_SRV default_record)) (set_flush true (set_type T_TXT default_record)).

Record comp := mkComp { cp_host : hostst; cp_prov : provst; cp_prober : option prober }.

Definition set_prov (p : provst) (ini conf : bool) : provst :=
  mkProv (pv_exists p) ini conf (pv_browse p) (pv_ptr p) (pv_srv p) (pv_txt p) (pv_browseP p) (pv_ptrP p) (pv_srvP p) (pv_txtP p).
Definition set_published (p : provst) (b pt sr tx : record) : provst :=
  mkProv (pv_exists p) (pv_initialized p) (pv_confirmed p) b pt sr tx (pv_browseP p) (pv_ptrP p) (pv_srvP p) (pv_txtP p).
Definition set_proposed (p : provst) (b pt sr tx : record) : provst :=
  mkProv (pv_exists p) (pv_initialized p) (pv_confirmed p) (pv_browse p) (pv_ptr p) (pv_srv p) (pv_txt p) b pt sr tx.

(* announce(): one response carrying PTR, SRV, TXT *)
Definition announce_msg (p : provst) : message :=
  add_record (pv_txt p) (add_record (pv_srv p) (add_record (pv_ptr p) (set_response true default_message))).

Definition farewell (p : provst) : provst * list eff :=
  let p' := set_published p (pv_browse p) (set_ttl 0 (pv_ptr p)) (set_ttl 0 (pv_srv p)) (set_ttl 0 (pv_txt p)) in
  (p', [ESendAll (announce_msg p')]).

Definition publish (p : provst) : provst * list eff :=
  let p' := set_published p (pv_browseP p) (pv_ptrP p) (pv_srvP p) (pv_txtP p) in
  (p', [ESendAll (announce_msg p')]).

(* confirm(): delete the pending prober (its timer goes with it), start a new one for the proposed SRV record *)
Definition confirm (p : provst) (pb : option prober) : option prober * list eff :=
  let '(pb', es) := prober_new (pv_srvP p) in
  (Some pb', (match pb with Some _ => [EStop T_PROBER] | None => [] end) ++ es).

(* the lambda connected to Prober::nameConfirmed *)
Definition on_name_confirmed (name : bstr) (p : provst) : provst * list eff :=
  let '(p1, e1) := if pv_confirmed p then farewell p else (set_prov p (pv_initialized p) true, []) in
  let p2 := set_proposed p1 (pv_browseP p1) (set_target name (pv_ptrP p1)) (set_name name (pv_srvP p1)) (set_name name (pv_txtP p1)) in
  let '(p3, e3) := publish p2 in
  (* the proposals go back to the requested name (a later re-probe starts from it again) *)
  (set_proposed p3 (pv_browseP p1) (pv_ptrP p1) (pv_srvP p1) (pv_txtP p1), e1 ++ e3).

(* ProviderPrivate::onMessageReceived *)
Definition prov_on_message (p : provst) (m : message) : list eff :=
  if provider_ignore_message (pv_confirmed p) (m_response m) then [] else
  let qs := m_queries m in
  (* the if / else-if chain over the questions *)
  let step := fun (acc : bool * bool * bool * bool) (q : query) =>
    let '(sb, sp, ss, st) := acc in
    if provider_q_browse q (pv_ptr p) (pv_srv p) (pv_txt p) then (true, sp, ss, st)
    else if provider_q_ptr q (pv_ptr p) (pv_srv p) (pv_txt p) then (sb, true, ss, st)
    else if provider_q_srv q (pv_ptr p) (pv_srv p) (pv_txt p) then (sb, sp, true, st)
    else if provider_q_txt q (pv_ptr p) (pv_srv p) (pv_txt p) then (sb, sp, ss, true)
    else acc in
  let '(sb, sp, ss, st) := fold_left step qs (false, false, false, false) in
  (* known-answer suppression *)
  let kstep := fun (acc : bool * bool * bool) (r : record) =>
    let '(sp, ss, st) := acc in
    if provider_known_ptr r (pv_ptr p) (pv_srv p) (pv_txt p) then (false, ss, st)
    else if provider_known_srv r (pv_ptr p) (pv_srv p) (pv_txt p) then (sp, false, st)
    else if provider_known_txt r (pv_ptr p) (pv_srv p) (pv_txt p) then (sp, ss, false)
    else acc in
  let '(sp, ss, st) := fold_left kstep (m_records m) (sp, ss, st) in
  let ss := sp || ss in
  let st := sp || st in
  if sb || sp || ss || st then
    let r0 := reply_to m in
    let recs := (if sb then [pv_browse p] else []) ++ (if sp then [pv_ptr p] else []) ++
                (if ss then [pv_srv p] else []) ++ (if st then [pv_txt p] else []) in
    [ESend (mkMessage (m_addr r0) (m_port r0) (m_id r0) true false [] recs)]
  else [].

Inductive papi := PNewHost | PNewProv | PUpdate (s : service) | PDestroy.

(* Provider::update *)
Definition prov_update (c : comp) (s : service) : comp * list eff :=
  let p := set_prov (cp_prov c) true (pv_confirmed (cp_prov c)) in
  let sname := replace_byte DOT DASH (bs_data (s_name s)) in
  let fq := sname ++ [DOT] ++ bs_data (s_type s) in
  let p1 := set_proposed p (set_target (s_type s) (pv_browseP p))
                           (set_target (Some fq) (set_name (s_type s) (pv_ptrP p)))
                           (let sr := set_port (s_port s) (set_name (Some fq) (pv_srvP p)) in
                            if h_reg (cp_host c) then set_target (Some (h_name (cp_host c))) sr else sr)
                           (set_attrs (s_attrs s) (set_name (Some fq) (pv_txtP p))) in
  if provider_has_target (pv_srvP p1) then
    if provider_must_confirm (pv_confirmed p1) (Some fq) (pv_srv p1) then
      let '(pb, es) := confirm p1 (cp_prober c) in (mkComp (cp_host c) p1 pb, es)
    else if provider_probe_pending (match cp_prober c with Some _ => true | None => false end)
                                   (match cp_prober c with Some pb => Some (pb_base pb ++ pb_tail pb) | None => None end) (Some fq) then
      (* a probe for this very name is pending (probedName == fqName; the prober's base ++ tail is the name confirm() was
         called for): it publishes the updated proposals when it completes *)
      (mkComp (cp_host c) p1 (cp_prober c), [])
    else
      (* the obsolete prober (if any) is deleted, its timer with it; records pointing at a previous hostname are withdrawn *)
      let '(p2, e2) := if provider_retarget (pv_srvP p1) (pv_srv p1) then farewell p1 else (p1, []) in
      let '(p3, e3) := publish p2 in
      (mkComp (cp_host c) p3 None, (match cp_prober c with Some _ => [EStop T_PROBER] | None => [] end) ++ e2 ++ e3)
  else (mkComp (cp_host c) p1 (cp_prober c), []).

(* ProviderPrivate::onHostnameChanged *)
Definition prov_on_hostname_changed (c : comp) (newname : bytes) : comp * list eff :=
  let p := cp_prov c in
  if negb (pv_exists p) then (c, []) else
  let p1 := set_proposed p (pv_browseP p) (pv_ptrP p) (set_target (Some newname) (pv_srvP p)) (pv_txtP p) in
  if pv_initialized p1 then
    let '(pb, es) := confirm p1 (cp_prober c) in (mkComp (cp_host c) p1 pb, es)
  else (mkComp (cp_host c) p1 (cp_prober c), []).

(* effects of the hostname object, with the provider's slot run at the emission point of hostnameChanged *)
Fixpoint with_hostname_slot (c : comp) (es : list eff) : comp * list eff :=
  match es with
  | [] => (c, [])
  | ESig ob sg (PBytes (Some n)) :: es' =>
      if (sg =? SIG_hostnameChanged)%N then
        let '(c1, e1) := prov_on_hostname_changed c n in
        let '(c2, e2) := with_hostname_slot c1 es' in
        (c2, ESig ob sg (PBytes (Some n)) :: e1 ++ e2)
      else let '(c2, e2) := with_hostname_slot c es' in (c2, ESig ob sg (PBytes (Some n)) :: e2)
  | e :: es' => let '(c2, e2) := with_hostname_slot c es' in (c2, e :: e2)
  end.

Definition comp_handle (now : Z) (c : comp) (ev : event papi) : comp * list eff :=
  match ev with
  | EvMsg m =>
      (* slots in connection order: hostname, provider, prober *)
      let '(h1, e1) := host_handle now (cp_host c) (EvMsg m) in
      let e2 := if pv_exists (cp_prov c) then prov_on_message (cp_prov c) m else [] in
      let '(pb, e3) := match cp_prober c with
                       | Some pb => let '(pb', e) := prober_handle now pb (EvMsg m) in (Some pb', e)
                       | None => (None, [])
                       end in
      (mkComp h1 (cp_prov c) pb, e1 ++ e2 ++ e3)
  | EvTimer tid =>
      if (tid =? T_PROBER)%N then
        match cp_prober c with
        | Some pb =>
            (* ProberPrivate::onTimeout -> nameConfirmed -> the provider's lambda, which deletes the prober *)
            let '(p', es) := on_name_confirmed (r_name (pb_proposed pb)) (cp_prov c) in
            (mkComp (cp_host c) p' None, es)
        | None => (c, [])
        end
      else
        let '(h1, e1) := host_handle now (cp_host c) (EvTimer tid) in
        with_hostname_slot (mkComp h1 (cp_prov c) (cp_prober c)) e1
  | EvApi PNewHost => (c, [])     (* handled by comp_run: the hostname object exists from the start *)
  | EvApi PNewProv =>
      let p := prov_new in
      let p' := if h_reg (cp_host c)
                then set_proposed p (pv_browseP p) (pv_ptrP p) (set_target (Some (h_name (cp_host c))) (pv_srvP p)) (pv_txtP p)
                else p in
      (mkComp (cp_host c) p' (cp_prober c), [])
  | EvApi (PUpdate s) => if pv_exists (cp_prov c) then prov_update c s else (c, [])
  | EvApi PDestroy =>
      if pv_exists (cp_prov c) then
        (* ~ProviderPrivate says goodbye if confirmed; the child Prober (and its timer) dies with the provider *)
        let '(p', es) := if pv_confirmed (cp_prov c) then farewell (cp_prov c) else (cp_prov c, []) in
        (mkComp (cp_host c)
                (mkProv false false false (pv_browse p') (pv_ptr p') (pv_srv p') (pv_txt p') (pv_browseP p') (pv_ptrP p') (pv_srvP p') (pv_txtP p'))
                None,
         es ++ match cp_prober c with Some _ => [EStop T_PROBER] | None => [] end)
      else (c, [])
  end.

Definition comp_poll (c : comp) : list out := host_poll (cp_host c).

Definition no_prov : provst :=
  mkProv false false false default_record default_record default_record default_record
         default_record default_record default_record default_record.

(* scripts start with HOSTNAME / NEW 0 hostname; the rest are operations (NEW 1 provider 0, UPDATE, DEL, ...) *)
Definition comp_run (fuel : nat) (rawlocal : bytes) (ifs : list iface) (ops : list (aop papi)) : list (list out) :=
  let local := replace_byte DOT DASH rawlocal in
  let '(h, es) := on_rebroadcast (mkHost local ifs [] [] false 1) in
  let '(tm, sq, o) := apply_effs 0 [] 0%N es in
  (o ++ host_poll h) :: run_g comp papi comp_handle comp_poll fuel (mkSim 0 tm sq (mkComp h no_prov None)) ops.
