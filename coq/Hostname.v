(* Hostname.v — model of hostname.cpp; the C17 reply specification; the C08 acceptor. *)
From QV Require Import Base Fields SrcFacts Msg SrcDecisions Sim Prober.
Local Open Scope Z_scope.

(* ---- QHostAddress::isInSubnet (Qt 5.15): same family, 0 <= prefix <= width, top prefix bits equal ---- *)
Fixpoint bits_of_bytes (l : bytes) : N := match l with [] => 0%N | b :: l' => (b * N.pow 256 (lenN l') + bits_of_bytes l')%N end.
Definition top_bits_eq (width : Z) (a b : N) (prefix : Z) : bool :=
  let sh := Z.to_N (width - prefix) in (N.shiftr a sh =? N.shiftr b sh)%N.
Definition in_subnet (src ip : addr) (prefix : Z) : bool :=
  match src, ip with
  | A4 a, A4 b => (0 <=? prefix) && (prefix <=? 32) && top_bits_eq 32 a b prefix
  | A6 a, A6 b => (0 <=? prefix) && (prefix <=? 128) && top_bits_eq 128 (bits_of_bytes a) (bits_of_bytes b) prefix
  | _, _ => false
  end.

Definition iface := list (addr * Z).      (* addressEntries(): (ip, prefixLength) *)
Definition family_matches (a : addr) (type : N) : bool :=
  match a with
  | A4 _ => (type =? T_A)%N
  | A6 _ => (type =? T_AAAA)%N
  | ANull => false
  end.

(* generateRecord: the three nested loops, with the early return *)
Definition first_family (entries : iface) (type : N) : option addr :=
  match filter (fun e => family_matches (fst e) type) entries with e :: _ => Some (fst e) | [] => None end.
Fixpoint gen_entries (src : addr) (type : N) (all rest : iface) : option addr :=
  match rest with
  | [] => None
  | e :: rest' =>
      if in_subnet src (fst e) (snd e) then
        match first_family all type with
        | Some a => Some a
        | None => gen_entries src type all rest'
        end
      else gen_entries src type all rest'
  end.
Fixpoint gen_ifaces (src : addr) (type : N) (ifs : list iface) : option addr :=
  match ifs with
  | [] => None
  | i :: ifs' => match gen_entries src type i i with Some a => Some a | None => gen_ifaces src type ifs' end
  end.

Record hostst := mkHost {
  h_local : bytes;            (* QHostInfo::localHostName().toUtf8() with '.' replaced by '-' *)
  h_ifaces : list iface;      (* QNetworkInterface::allInterfaces() *)
  h_name : bytes; h_prev : bytes; h_reg : bool; h_suffix : N }.

Definition T_REG : N := 2.  Definition T_REB : N := 3.
Definition LOCAL_SUFFIX : bytes := [46; 108; 111; 99; 97; 108; 46]%N.   (* ".local." *)

Definition host_candidate (local : bytes) (k : N) : bytes :=
  (if (k =? 1)%N then local else local ++ [DASH] ++ dec_of_N k) ++ LOCAL_SUFFIX.

Definition set_host (h : hostst) (name prev : bytes) (reg : bool) (suffix : N) : hostst :=
  mkHost (h_local h) (h_ifaces h) name prev reg suffix.

Definition assert_hostname (h : hostst) : hostst * list eff :=
  let nm := host_candidate (h_local h) (h_suffix h) in
  let msg := add_query (mkQuery (Some nm) T_AAAA false) (add_query (mkQuery (Some nm) T_A false) default_message) in
  (set_host h nm (h_prev h) (h_reg h) (h_suffix h), [ESendAll msg; EStart T_REG registration_wait_ms]).

Definition on_rebroadcast (h : hostst) : hostst * list eff :=
  assert_hostname (set_host h (h_name h) (h_name h) false 1).

Fixpoint host_records (rs : list record) (h : hostst) : hostst * list eff :=
  match rs with
  | [] => (h, [])
  | r :: rs' =>
      if hostname_conflict r (h_name h) then
        let '(h1, e1) := assert_hostname (set_host h (h_name h) (h_prev h) (h_reg h) (h_suffix h + 1)) in
        let '(h2, e2) := host_records rs' h1 in (h2, e1 ++ e2)
      else host_records rs' h
  end.

Definition answer_record (h : hostst) (type : N) (a : addr) : record :=
  set_addr a (set_type type (set_name (Some (h_name h)) default_record)).

Fixpoint host_answers (h : hostst) (src : addr) (qs : list query) : list record :=
  match qs with
  | [] => []
  | q :: qs' =>
      if hostname_question q (h_name h) then
        match gen_ifaces src (q_type q) (h_ifaces h) with
        | Some a => answer_record h (q_type q) a :: host_answers h src qs'
        | None => host_answers h src qs'
        end
      else host_answers h src qs'
  end.

Definition host_handle (now : Z) (h : hostst) (ev : event unit) : hostst * list eff :=
  match ev with
  | EvMsg m =>
      if m_response m then
        if h_reg h then (h, []) else host_records (m_records m) h
      else
        if negb (h_reg h) then (h, []) else
        match host_answers h (m_addr m) (m_queries m) with
        | [] => (h, [])
        | rs => let r0 := reply_to m in
                (h, [ESend (mkMessage (m_addr r0) (m_port r0) (m_id r0) true false [] rs)])
        end
  | EvTimer tid =>
      if (tid =? T_REG)%N then
        (set_host h (h_name h) (h_prev h) true (h_suffix h),
         (if hostname_announce (Some (h_name h)) (Some (h_prev h)) then [ESig OBJ SIG_hostnameChanged (PBytes (Some (h_name h)))] else [])
         ++ [EStart T_REB rebroadcast_ms])
      else on_rebroadcast h
  | EvApi _ => (h, [])
  end.

Definition host_poll (h : hostst) : list out := [OPoll OBJ (h_reg h) (Some (h_name h))].

Definition host_run (fuel : nat) (rawlocal : bytes) (ifs : list iface) (ops : list (aop unit)) : list (list out) :=
  let local := replace_byte DOT DASH rawlocal in
  let '(h, es) := on_rebroadcast (mkHost local ifs [] [] false 1) in
  let '(tm, sq, o) := apply_effs 0 [] 0%N es in
  (o ++ host_poll h) :: run_g hostst unit host_handle host_poll fuel (mkSim 0 tm sq h) ops.

(* ------------------------------------------------------------------ C17: the reply, specified declaratively
   per question for the hostname (type A / AAAA), in order: an address of the asked family of the first
   interface that has both an entry whose subnet contains the source and an address of that family *)
Definition iface_contains (src : addr) (i : iface) : bool := existsb (fun e => in_subnet src (fst e) (snd e)) i.
Fixpoint spec_address (src : addr) (type : N) (ifs : list iface) : option addr :=
  match ifs with
  | [] => None
  | i :: ifs' =>
      if iface_contains src i then
        match first_family i type with Some a => Some a | None => spec_address src type ifs' end
      else spec_address src type ifs'
  end.

Definition spec_question (name : bytes) (q : query) : bool :=
  ((q_type q =? 1)%N || (q_type q =? 28)%N) && bytes_eqb (bs_data (q_name q)) name.

Fixpoint spec_answers (name : bytes) (ifs : list iface) (src : addr) (qs : list query) : list record :=
  match qs with
  | [] => []
  | q :: qs' =>
      if spec_question name q then
        match spec_address src (q_type q) ifs with
        | Some a => set_addr a (set_type (q_type q) (set_name (Some name) default_record)) :: spec_answers name ifs src qs'
        | None => spec_answers name ifs src qs'
        end
      else spec_answers name ifs src qs'
  end.

(* the reply rule shared with C11: multicast group of the querier's family for port 5353, else unicast *)
Definition spec_reply_addr (m : message) : addr :=
  if (m_port m =? 5353)%N then match m_addr m with A4 _ => A4 3758096635 | _ => A6 [255; 2; 0; 0; 0; 0; 0; 0; 0; 0; 0; 0; 0; 0; 0; 251]%N end
  else m_addr m.

Definition spec_host_reply (registered : bool) (name : bytes) (ifs : list iface) (m : message) : option message :=
  if negb registered || m_response m then None else
  match spec_answers name ifs (m_addr m) (m_queries m) with
  | [] => None
  | rs => Some (mkMessage (spec_reply_addr m) (m_port m) (m_id m) true false [] rs)
  end.

(* ------------------------------------------------------------------ C08 (+ C17) as an acceptor over script and outputs *)
Record hmon := mkHmon {
  hm_k : N;                        (* candidates probed in the current cycle *)
  hm_last : option (bytes * Z);    (* the latest probe: name, instant *)
  hm_reg : bool;                   (* registered, as last polled *)
  hm_emitted : option bytes;       (* value carried by the most recent hostnameChanged *)
  hm_now : Z }.

(* 1 a send that is not the expected probe        2 registered without a full undisturbed 2 s probe for that name
   3 registered name differs from the last change notification   4 unexpected output
   5 time      6 conflict not followed by a probe for the next candidate   7 reply differs from the C17 specification
   8 missing / inconsistent state poll   9 change notification wrong (missing, spurious or wrong value) *)
Definition is_host_probe (nm : bytes) (m : message) : bool :=
  negb (m_response m) &&
  match m_queries m, m_records m with
  | [q1; q2], [] => bs_eqb (q_name q1) (Some nm) && bs_eqb (q_name q2) (Some nm) &&
                    (((q_type q1 =? 1) && (q_type q2 =? 28)) || ((q_type q1 =? 28) && (q_type q2 =? 1)))%N
  | _, _ => false
  end.

Definition message_eqb (a b : message) : bool :=
  addr_eqb (m_addr a) (m_addr b) && (m_port a =? m_port b)%N && (m_id a =? m_id b)%N &&
  Bool.eqb (m_response a) (m_response b) && Bool.eqb (m_truncated a) (m_truncated b) &&
  (length (m_queries a) =? length (m_queries b))%nat &&
  (fix go (x y : list record) : bool :=
     match x, y with
     | [], [] => true
     | r :: x', s :: y' => forallb (fun f => rfield_agree f r s) all_rfields && go x' y'
     | _, _ => false
     end) (m_records a) (m_records b).

Section HMon.
  Variable local : bytes.
  Variable ifs : list iface.

  (* the final poll of a group: (registered, hostname) *)
  Definition last_poll (outs : list out) : option (bool * bytes) :=
    match rev outs with OPoll _ f b :: _ => Some (f, bs_data b) | _ => None end.
  Definition non_polls (outs : list out) : list out :=
    filter (fun o => match o with OPoll _ _ _ => false | _ => true end) outs.

  (* a probe for the next candidate of the cycle *)
  Definition expect_probe (q : hmon) (o : out) : hmon + N :=
    match o with
    | OSendAll t m =>
        let nm := host_candidate local (hm_k q + 1) in
        if is_host_probe nm m then inl (mkHmon (hm_k q + 1) (Some (nm, t)) (hm_reg q) (hm_emitted q) (hm_now q))
        else inr 1%N
    | _ => inr 1%N
    end.

  (* a delivered response while unregistered: each A/AAAA record named like the current candidate is a conflict *)
  Fixpoint hmon_records (q : hmon) (rs : list record) (outs : list out) : hmon + N :=
    match rs with
    | [] => match outs with [] => inl q | _ :: _ => inr 1%N end
    | r :: rs' =>
        let cur := host_candidate local (hm_k q) in
        if ((r_type r =? 1)%N || (r_type r =? 28)%N) && bs_eqb (r_name r) (Some cur) then
          match outs with
          | o :: outs' => match expect_probe q o with inl q' => hmon_records q' rs' outs' | inr c => inr c end
          | [] => inr 6%N
          end
        else hmon_records q rs' outs
    end.

  (* after every operation: the poll must be consistent with the acceptor's view *)
  Definition check_poll (q : hmon) (outs : list out) : hmon + N :=
    match last_poll outs with
    | None => inr 8%N
    | Some (f, nm) =>
        if negb (Bool.eqb f (hm_reg q)) then inr 8%N else
        match hm_last q with
        | Some (cur, _) =>
            if negb (bytes_eqb nm cur) then inr 8%N else
            if f then match hm_emitted q with
                      | Some e => if bytes_eqb nm e then inl q else inr 3%N
                      | None => inr 3%N
                      end
            else inl q
        | None => inr 8%N
        end
    end.

  Definition out_in (lo hi : Z) (o : out) : bool :=
    match o with
    | OSend t _ | OSendAll t _ | OSignal t _ _ _ => (lo <=? t) && (t <=? hi)
    | _ => true
    end.

  (* the events a clock advance may produce, in order: registration (optional change notification), then a
     re-probe half an hour later, registration again, ...  *)
  Fixpoint hmon_timed (fuel : nat) (q : hmon) (outs : list out) : hmon + N :=
    match fuel with
    | O => inr 4%N
    | S f =>
        match outs with
        | [] => inl q
        | OSendAll t m :: outs' =>
            (* only a re-probe can be sent from a timer: it starts a new cycle at candidate 1, unregistered *)
            (* (a registration under an unchanged name is silent: it is inferred here, with the same justification) *)
            let silent := match hm_last q, hm_emitted q with
                          | Some (cur, t'), Some e => (t' + 2000 <=? t) && bytes_eqb e cur
                          | _, _ => false
                          end in
            if negb (hm_reg q || silent) then inr 1%N else
            match expect_probe (mkHmon 0 (hm_last q) false (hm_emitted q) (hm_now q)) (OSendAll t m) with
            | inl q' => hmon_timed f q' outs'
            | inr c => inr c
            end
        | OSignal t ob sg (PBytes n) :: outs' =>
            (* a change notification marks a registration with a new name *)
            if negb (sg =? SIG_hostnameChanged)%N then inr 4%N else
            if hm_reg q then inr 9%N else
            match hm_last q with
            | Some (cur, t') =>
                if negb (bytes_eqb (bs_data n) cur) then inr 9%N else
                if negb (t' + 2000 <=? t) then inr 2%N else
                if match hm_emitted q with Some e => bytes_eqb e cur | None => false end then inr 9%N else
                hmon_timed f (mkHmon (hm_k q) (hm_last q) true (Some cur) (hm_now q)) outs'
            | None => inr 2%N
            end
        | _ => inr 4%N
        end
    end.

  (* silent registration (same name as before): seen only through the poll; needs the same justification *)
  Definition settle_registration (q : hmon) (t : Z) (polled : option (bool * bytes)) : hmon + N :=
    match polled with
    | Some (true, nm) =>
        if hm_reg q then inl q else
        match hm_last q with
        | Some (cur, t') =>
            if negb (t' + 2000 <=? t) then inr 2%N else
            match hm_emitted q with
            | Some e => if bytes_eqb e cur then inl (mkHmon (hm_k q) (hm_last q) true (hm_emitted q) (hm_now q)) else inr 9%N
            | None => inr 9%N
            end
        | None => inr 2%N
        end
    | _ => inl q
    end.

  Definition hmon_step (q : hmon) (o : aop unit) (outs : list out) : hmon + N :=
    let evs := non_polls outs in
    let r :=
      match o with
      | ADeliver m =>
          if negb (forallb (out_in (hm_now q) (hm_now q)) evs) then inr 5%N else
          if m_response m then
            if hm_reg q then match evs with [] => inl q | _ => inr 1%N end
            else hmon_records q (m_records m) evs
          else
            match hm_last q with
            | Some (cur, _) =>
                match spec_host_reply (hm_reg q) cur ifs m, evs with
                | None, [] => inl q
                | Some r, [OSend _ r'] => if message_eqb r r' then inl q else inr 7%N
                | _, _ => inr 7%N
                end
            | None => inr 8%N
            end
      | AAdv t | AAdvB t | ALate t =>
          if t <? hm_now q then (match evs with [] => inl q | _ => inr 5%N end) else
          if negb (forallb (out_in (hm_now q) t) evs) then inr 5%N else
          match hmon_timed (S (length evs)) q evs with
          | inl q1 => match settle_registration q1 t (last_poll outs) with
                      | inl q2 => inl (mkHmon (hm_k q2) (hm_last q2) (hm_reg q2) (hm_emitted q2) t)
                      | inr c => inr c
                      end
          | inr c => inr c
          end
      | AApi _ => inr 4%N
      end in
    match r with inl q' => check_poll q' outs | inr c => inr c end.

  Fixpoint hmon_run (q : hmon) (k : N) (ops : list (aop unit)) (outs : list (list out)) : option (N * N) :=
    match ops, outs with
    | [], _ => None
    | o :: ops', og :: outs' =>
        match hmon_step q o og with
        | inl q' => hmon_run q' (k + 1)%N ops' outs'
        | inr c => Some (k, c)
        end
    | _ :: _, [] => Some (k, 4%N)
    end.

  Definition mon_hostname_loc (ops : list (aop unit)) (outs : list (list out)) : option (N * N) :=
    match outs with
    | og :: outs' =>
        match non_polls og with
        | [o] => match expect_probe (mkHmon 0 None false None 0) o with
                 | inl q => match check_poll q og with
                            | inl q' => hmon_run q' 0%N ops outs'
                            | inr c => Some (0%N, c)
                            end
                 | inr c => Some (0%N, c)
                 end
        | _ => Some (0%N, 1%N)
        end
    | [] => Some (0%N, 4%N)
    end.
End HMon.

Definition mon_hostname (rawlocal : bytes) (ifs : list iface) := mon_hostname_loc (replace_byte DOT DASH rawlocal) ifs.

