(* Extract.v — extraction of the executable models and monitors (ExtrOcamlBasic only). *)
From QV Require Import Base Fields SrcFacts Msg SrcDecisions Cache CacheSpec Decoder Encoder Sim Prober Hostname Resolver Provider ProviderSpec Browser BrowserSpec Values.
Require Extraction.
Require Import ExtrOcamlBasic.
Extraction Language OCaml.
Extraction "model.ml" crun_g mon_cache from_packet parse_name parse_record to_packet prober_run mon_prober host_run mon_hostname spec_host_reply res_run mon_resolver comp_run mon_provider spec_prov_reply world_run mon_browser values_run values_pure empty_cache default_record default_query default_message record_eqb service_eqb.
