(* DecoderSafety.v — C03: the decoder model never reads outside the buffer and never runs out of fuel. *)
From QV Require Import Base Fields SrcFacts Msg Decoder.
From Coq Require Import ZifyBool ZifyNat ZifyN.
Local Open Scope N_scope.

Definition safe {A} (r : res A) : Prop := match r with Fault => False | OutOfFuel => False | _ => True end.

Lemma safe_bind {A B} (r : res A) (f : A -> res B) :
  safe r -> (forall a, r = Ok a -> safe (f a)) -> safe (bind r f).
Proof. destruct r; cbn; auto. Qed.

Section Safety.
  Variable mem : N -> N.
  Variable len : N.
  Hypothesis len_ok : len <= 65535.

  Notation get := (get mem len).
  Notation rd8 := (rd8 mem len).
  Notation rd16 := (rd16 mem len).
  Notation rd32 := (rd32 mem len).

  Lemma get_in i : i < len -> get i = Ok (mem i).
  Proof. intro H. unfold Decoder.get. replace (i <? len) with true by lia. reflexivity. Qed.

  Lemma w16_small x : x <= 65535 -> w16 x = x.
  Proof. intro H. unfold w16. apply N.mod_small. lia. Qed.

  Lemma rd8_spec off :
    match rd8 off with
    | Ok (b, o) => off < len /\ o = off + 1 /\ b = mem off
    | Fail => True
    | _ => False
    end.
  Proof.
    unfold Decoder.rd8. destruct (len <? off + 1) eqn:E; [exact I|].
    rewrite get_in by lia. cbn. rewrite w16_small by lia. repeat split; lia.
  Qed.

  Lemma rd16_spec off :
    match rd16 off with
    | Ok (v, o) => off + 2 <= len /\ o = off + 2 /\ v = mem off * 256 + mem (off + 1)
    | Fail => True
    | _ => False
    end.
  Proof.
    unfold Decoder.rd16. destruct (len <? off + 2) eqn:E; [exact I|].
    rewrite !get_in by lia. cbn. rewrite w16_small by lia. repeat split; lia.
  Qed.

  Lemma rd32_spec off :
    match rd32 off with
    | Ok (v, o) => off + 4 <= len /\ o = off + 4
    | Fail => True
    | _ => False
    end.
  Proof.
    unfold Decoder.rd32. destruct (len <? off + 4) eqn:E; [exact I|].
    rewrite !get_in by lia. cbn. rewrite w16_small by lia. split; lia.
  Qed.

  Lemma rd8_safe off : safe (rd8 off).
  Proof. pose proof (rd8_spec off). destruct (rd8 off) as [[? ?]| | |]; cbn; auto. Qed.
  Lemma rd16_safe off : safe (rd16 off).
  Proof. pose proof (rd16_spec off). destruct (rd16 off) as [[? ?]| | |]; cbn; auto. Qed.
  Lemma rd32_safe off : safe (rd32 off).
  Proof. pose proof (rd32_spec off). destruct (rd32 off) as [[? ?]| | |]; cbn; auto. Qed.

  Lemma get_many_ok n : forall off, off + N.of_nat n <= len -> exists l, get_many mem len n off = Ok l /\ length l = n.
  Proof.
    induction n as [|n IH]; intros off H; cbn [get_many].
    - exists []. auto.
    - rewrite get_in by lia. cbn [bind]. destruct (IH (off + 1)) as [l [E L]]; [lia|].
      rewrite E. cbn [bind]. exists (mem off :: l). cbn. auto.
  Qed.
  Lemma get_many_safe n off : off + N.of_nat n <= len -> safe (get_many mem len n off).
  Proof. intro H. destruct (get_many_ok n off H) as [l [E _]]. rewrite E. exact I. Qed.

  (* ---- parseName ---- *)
  Lemma labels_safe : forall lf k off offEnd offPtr acc,
    off <= len -> len < off + N.of_nat lf ->
    (forall no oe a, no < offPtr -> safe (k no oe no a)) ->
    safe (labels mem len lf k off offEnd offPtr acc).
  Proof.
    induction lf as [|lf IH]; intros k off offEnd offPtr acc Hle Hf Hk.
    - exfalso. lia.
    - cbn [labels]. pose proof (rd8_spec off) as R. destruct (rd8 off) as [[nb off1]| | |]; cbn [bind]; auto.
      destruct R as (R1 & -> & _).
      destruct (nb =? 0); [exact I|].
      destruct (N.land nb label_kind_mask =? label_kind_plain).
      + destruct (len <? off + 1 + nb) eqn:E; [exact I|].
        destruct (get_many_ok (N.to_nat nb) (off + 1)) as [l [G _]]; [lia|]. rewrite G. cbn [bind].
        rewrite w16_small by lia. apply IH; [lia|lia|exact Hk].
      + destruct (N.land nb label_kind_mask =? label_kind_pointer); [|exact I].
        pose proof (rd8_spec (off + 1)) as R2. destruct (rd8 (off + 1)) as [[nb2 off2]| | |]; cbn [bind]; auto.
        match goal with |- context [if ?c then _ else _] => destruct c eqn:C end; [exact I|].
        apply Hk. lia.
  Qed.

  Lemma hops_safe lfuel : len < N.of_nat lfuel ->
    forall hf off offEnd offPtr acc, (hf <= S (N.to_nat len))%nat -> off <= len -> offPtr < N.of_nat hf ->
    safe (hops mem len hf lfuel off offEnd offPtr acc).
  Proof.
    intros Hl. induction hf as [|hf IH]; intros off offEnd offPtr acc Hh Hle Hp.
    - exfalso. lia.
    - cbn [hops]. apply labels_safe; [exact Hle|lia|].
      intros no oe a Hno. apply IH; lia.
  Qed.

  Definition FUEL : nat := S (N.to_nat len).

  Theorem parse_name_safe off acc : safe (parse_name mem len FUEL off acc).
  Proof.
    unfold parse_name. destruct (off <=? len) eqn:E.
    - destruct (off =? len) eqn:E2.
      + (* the first read already fails *)
        unfold FUEL. cbn [hops labels]. pose proof (rd8_spec off) as R.
        destruct (rd8 off) as [[nb off1]| | |]; cbn [bind]; auto. exfalso. lia.
      + apply hops_safe; unfold FUEL; lia.
    - unfold FUEL. cbn [hops labels]. pose proof (rd8_spec off) as R.
      destruct (rd8 off) as [[nb off1]| | |]; cbn [bind]; auto. exfalso. lia.
  Qed.

  (* where a successful name parse leaves the cursor is irrelevant for safety: every later read is checked *)

  Lemma txt_loop_safe stop : forall f off acc, off <= len -> len < off + N.of_nat f -> safe (txt_loop mem len f off stop acc).
  Proof.
    induction f as [|f IH]; intros off acc Hle Hf.
    - exfalso. lia.
    - cbn [txt_loop]. destruct (off <? stop); [|exact I].
      pose proof (rd8_spec off) as R. destruct (rd8 off) as [[nb off1]| | |]; cbn [bind]; auto.
      destruct R as (R1 & -> & _).
      destruct (len <? off + 1 + nb) eqn:E; [exact I|].
      destruct (nb =? 0); [apply IH; lia|].
      destruct (get_many_ok (N.to_nat nb) (off + 1)) as [l [G _]]; [lia|]. rewrite G. cbn [bind].
      rewrite w16_small by lia. apply IH; lia.
  Qed.

  Theorem parse_record_safe off r0 : safe (parse_record mem len FUEL off r0).
  Proof.
    unfold parse_record.
    apply safe_bind; [apply parse_name_safe|]. intros [name o1] _.
    pose proof (rd16_spec o1) as R1. destruct (rd16 o1) as [[type o2]| | |]; cbn [bind]; auto.
    pose proof (rd16_spec o2) as R2. destruct (rd16 o2) as [[class o3]| | |]; cbn [bind]; auto.
    pose proof (rd32_spec o3) as R3. destruct (rd32 o3) as [[ttl o4]| | |]; cbn [bind]; auto.
    pose proof (rd16_spec o4) as R4. destruct (rd16 o4) as [[dlen o5]| | |]; cbn [bind]; auto.
    destruct R4 as (R4 & -> & _).
    destruct (type =? T_A).
    { pose proof (rd32_spec (o4 + 2)) as R. destruct (rd32 (o4 + 2)) as [[a o6]| | |]; cbn [bind]; auto; try exact I. }
    destruct (type =? T_AAAA).
    { destruct (len <? o4 + 2 + aaaa_len) eqn:E; [exact I|].
      destruct (get_many_ok (N.to_nat aaaa_len) (o4 + 2)) as [l [G _]]; [lia|]. rewrite G. exact I. }
    destruct (type =? T_NSEC).
    { apply safe_bind; [apply parse_name_safe|]. intros [next o6] _.
      pose proof (rd8_spec o6) as Ra. destruct (rd8 o6) as [[number o7]| | |]; cbn [bind]; auto.
      pose proof (rd8_spec o7) as Rb. destruct (rd8 o7) as [[blen o8]| | |]; cbn [bind]; auto.
      destruct (nonzero number); cbn [orb]; [exact I|].
      destruct (len <? o8 + blen) eqn:E; [exact I|].
      destruct (get_many_ok (N.to_nat blen) o8) as [l [G _]]; [lia|]. rewrite G. exact I. }
    destruct (type =? T_PTR).
    { apply safe_bind; [apply parse_name_safe|]. intros [t o6] _. exact I. }
    destruct (type =? T_SRV).
    { pose proof (rd16_spec (o4 + 2)) as Ra. destruct (rd16 (o4 + 2)) as [[p o6]| | |]; cbn [bind]; auto.
      pose proof (rd16_spec o6) as Rb. destruct (rd16 o6) as [[w o7]| | |]; cbn [bind]; auto.
      pose proof (rd16_spec o7) as Rc. destruct (rd16 o7) as [[po o8]| | |]; cbn [bind]; auto.
      apply safe_bind; [apply parse_name_safe|]. intros [t o9] _. exact I. }
    destruct (type =? T_TXT); [|exact I].
    apply safe_bind; [|intros [ats o6] _; exact I].
    apply txt_loop_safe; unfold FUEL; lia.
  Qed.

  Lemma parse_queries_safe : forall n off acc, safe (parse_queries mem len FUEL n off acc).
  Proof.
    induction n as [|n IH]; intros off acc; cbn [parse_queries]; [exact I|].
    apply safe_bind; [apply parse_name_safe|]. intros [name o1] _.
    pose proof (rd16_safe o1). destruct (rd16 o1) as [[t o2]| | |]; cbn [bind] in *; auto.
    pose proof (rd16_safe o2). destruct (rd16 o2) as [[c o3]| | |]; cbn [bind] in *; auto.
  Qed.

  Lemma parse_records_safe : forall n off acc, safe (parse_records mem len FUEL n off acc).
  Proof.
    induction n as [|n IH]; intros off acc; cbn [parse_records]; [exact I|].
    apply safe_bind; [apply parse_record_safe|]. intros [r o1] _. apply IH.
  Qed.

  Theorem from_packet_safe : safe (from_packet mem len FUEL).
  Proof.
    unfold from_packet.
    repeat (match goal with |- safe (bind (Decoder.rd16 mem len ?o) _) =>
      let H := fresh in pose proof (rd16_safe o) as H; destruct (Decoder.rd16 mem len o) as [[? ?]| | |]; cbn [bind] in *; auto end).
    apply safe_bind; [apply parse_queries_safe|]. intros [qs o7] _.
    apply safe_bind; [apply parse_records_safe|]. intros [rs o8] _. exact I.
  Qed.
End Safety.

(* ------------------------------------------------------------------ self-containedness *)
Lemma bind_ext {A B} (r1 r2 : res A) (f1 f2 : A -> res B) :
  r1 = r2 -> (forall a, f1 a = f2 a) -> bind r1 f1 = bind r2 f2.
Proof. intros -> H. destruct r2; cbn; auto. Qed.

Section Ext.
  Variables mem1 mem2 : N -> N.
  Variable len : N.
  Hypothesis agree : forall i, i < len -> mem1 i = mem2 i.

  Lemma get_ext i : get mem1 len i = get mem2 len i.
  Proof. unfold get. destruct (i <? len) eqn:E; [|reflexivity]. rewrite agree by lia. reflexivity. Qed.
  Lemma get_many_ext n : forall off, get_many mem1 len n off = get_many mem2 len n off.
  Proof. induction n as [|n IH]; intro off; cbn [get_many]; [reflexivity|]. rewrite get_ext. apply bind_ext; [reflexivity|]. intro b. rewrite IH. reflexivity. Qed.
  Lemma rd8_ext off : rd8 mem1 len off = rd8 mem2 len off.
  Proof. unfold rd8. rewrite get_ext. reflexivity. Qed.
  Lemma rd16_ext off : rd16 mem1 len off = rd16 mem2 len off.
  Proof. unfold rd16. rewrite !get_ext. reflexivity. Qed.
  Lemma rd32_ext off : rd32 mem1 len off = rd32 mem2 len off.
  Proof. unfold rd32. rewrite !get_ext. reflexivity. Qed.

  Ltac ext_if := match goal with |- (if ?c then _ else _) = (if ?c then _ else _) => destruct c end.

  Lemma labels_ext : forall lf k1 k2 off offEnd offPtr acc,
    (forall a b c d, k1 a b c d = k2 a b c d) ->
    labels mem1 len lf k1 off offEnd offPtr acc = labels mem2 len lf k2 off offEnd offPtr acc.
  Proof.
    induction lf as [|lf IH]; intros k1 k2 off offEnd offPtr acc Hk; cbn [labels]; [reflexivity|].
    apply bind_ext; [apply rd8_ext|]. intros [nb off1].
    ext_if; [reflexivity|]. ext_if.
    - ext_if; [reflexivity|]. apply bind_ext; [apply get_many_ext|]. intro l. apply IH, Hk.
    - ext_if; [|reflexivity]. apply bind_ext; [apply rd8_ext|]. intros [nb2 off2]. ext_if; [reflexivity|]. apply Hk.
  Qed.
  Lemma hops_ext lf : forall hf off offEnd offPtr acc,
    hops mem1 len hf lf off offEnd offPtr acc = hops mem2 len hf lf off offEnd offPtr acc.
  Proof. induction hf as [|hf IH]; intros; cbn [hops]; [reflexivity|]. apply labels_ext. intros. apply IH. Qed.
  Lemma parse_name_ext fuel off acc : parse_name mem1 len fuel off acc = parse_name mem2 len fuel off acc.
  Proof. apply hops_ext. Qed.
  Lemma txt_loop_ext stop : forall f off acc, txt_loop mem1 len f off stop acc = txt_loop mem2 len f off stop acc.
  Proof.
    induction f as [|f IH]; intros off acc; cbn [txt_loop]; [reflexivity|]. ext_if; [|reflexivity].
    apply bind_ext; [apply rd8_ext|]. intros [nb off1]. ext_if; [reflexivity|]. ext_if; [apply IH|].
    apply bind_ext; [apply get_many_ext|]. intro a. apply IH.
  Qed.

  Theorem parse_record_ext fuel off r0 : parse_record mem1 len fuel off r0 = parse_record mem2 len fuel off r0.
  Proof.
    unfold parse_record.
    apply bind_ext; [apply parse_name_ext|]. intros [name o1].
    apply bind_ext; [apply rd16_ext|]. intros [type o2].
    apply bind_ext; [apply rd16_ext|]. intros [class o3].
    apply bind_ext; [apply rd32_ext|]. intros [ttl o4].
    apply bind_ext; [apply rd16_ext|]. intros [dlen o5].
    ext_if. { apply bind_ext; [apply rd32_ext|]. intros [a o6]. reflexivity. }
    ext_if. { ext_if; [reflexivity|]. apply bind_ext; [apply get_many_ext|]. reflexivity. }
    ext_if. { apply bind_ext; [apply parse_name_ext|]. intros [next o6].
              apply bind_ext; [apply rd8_ext|]. intros [number o7].
              apply bind_ext; [apply rd8_ext|]. intros [blen o8].
              ext_if; [reflexivity|]. apply bind_ext; [apply get_many_ext|]. reflexivity. }
    ext_if. { apply bind_ext; [apply parse_name_ext|]. intros [t o6]. reflexivity. }
    ext_if. { apply bind_ext; [apply rd16_ext|]. intros [p o6].
              apply bind_ext; [apply rd16_ext|]. intros [w o7].
              apply bind_ext; [apply rd16_ext|]. intros [po o8].
              apply bind_ext; [apply parse_name_ext|]. intros [t o9]. reflexivity. }
    ext_if; [|reflexivity]. apply bind_ext; [apply txt_loop_ext|]. intros [ats o6]. reflexivity.
  Qed.

  Lemma parse_queries_ext fuel : forall n off acc, parse_queries mem1 len fuel n off acc = parse_queries mem2 len fuel n off acc.
  Proof.
    induction n as [|n IH]; intros; cbn [parse_queries]; [reflexivity|].
    apply bind_ext; [apply parse_name_ext|]. intros [name o1].
    apply bind_ext; [apply rd16_ext|]. intros [t o2].
    apply bind_ext; [apply rd16_ext|]. intros [c o3]. apply IH.
  Qed.
  Lemma parse_records_ext fuel : forall n off acc, parse_records mem1 len fuel n off acc = parse_records mem2 len fuel n off acc.
  Proof.
    induction n as [|n IH]; intros; cbn [parse_records]; [reflexivity|].
    apply bind_ext; [apply parse_record_ext|]. intros [r o1]. apply IH.
  Qed.
  Theorem from_packet_ext fuel : from_packet mem1 len fuel = from_packet mem2 len fuel.
  Proof.
    unfold from_packet.
    do 6 (apply bind_ext; [apply rd16_ext|]; intros [? ?]).
    apply bind_ext; [apply parse_queries_ext|]. intros [qs o7].
    apply bind_ext; [apply parse_records_ext|]. intros [rs o8]. reflexivity.
  Qed.
End Ext.

(* ------------------------------------------------------------------ loop prevention *)
(* the continuation (pointer following) is only ever invoked strictly below the current bound *)
Lemma labels_pointer_bound mem len : forall lf k1 k2 off offEnd offPtr acc,
  (forall no oe a, no < offPtr -> k1 no oe no a = k2 no oe no a) ->
  labels mem len lf k1 off offEnd offPtr acc = labels mem len lf k2 off offEnd offPtr acc.
Proof.
  induction lf as [|lf IH]; intros k1 k2 off offEnd offPtr acc Hk; cbn [labels]; [reflexivity|].
  apply bind_ext; [reflexivity|]. intros [nb off1].
  destruct (nb =? 0); [reflexivity|].
  destruct (N.land nb label_kind_mask =? label_kind_plain).
  - destruct (len <? off1 + nb); [reflexivity|]. apply bind_ext; [reflexivity|]. intro l. apply IH, Hk.
  - destruct (N.land nb label_kind_mask =? label_kind_pointer); [|reflexivity].
    apply bind_ext; [reflexivity|]. intros [nb2 off2].
    match goal with |- context [if ?c then _ else _] => destruct c eqn:C end; [reflexivity|].
    apply Hk. lia.
Qed.

(* a first byte whose top two bits are 01 or 10 is rejected *)
Lemma reserved_label_rejected mem len fuel off acc b :
  off < len -> mem off = b -> b <> 0 ->
  N.land b label_kind_mask <> label_kind_plain -> N.land b label_kind_mask <> label_kind_pointer ->
  len <= 65535 -> parse_name mem len (S fuel) off acc = Fail.
Proof.
  intros Hoff Hb Hnz H1 H2 Hlen. unfold parse_name. cbn [hops labels]. unfold rd8.
  replace (len <? off + 1) with false by lia. rewrite get_in by assumption. cbn [bind]. rewrite Hb.
  replace (b =? 0) with false by lia.
  apply N.eqb_neq in H1, H2. rewrite H1, H2. reflexivity.
Qed.

(* a pointer that does not point strictly before the name's first byte (self, forward) is rejected *)
Lemma forward_pointer_rejected mem len fuel off acc b b2 :
  off + 1 < len -> mem off = b -> mem (off + 1) = b2 -> b <> 0 ->
  N.land b label_kind_mask = label_kind_pointer -> label_kind_pointer <> label_kind_plain ->
  off <= w16 (N.lor (N.shiftl (N.ldiff b pointer_clear_mask) pointer_shift) b2) ->
  len <= 65535 -> parse_name mem len (S fuel) off acc = Fail.
Proof.
  intros Hoff Hb Hb2 Hnz Hk Hd Ht Hlen. unfold parse_name. cbn [hops labels]. unfold rd8.
  replace (len <? off + 1) with false by lia. rewrite get_in by lia. cbn [bind]. rewrite Hb.
  replace (b =? 0) with false by lia. rewrite Hk.
  replace (label_kind_pointer =? label_kind_plain) with false by (symmetry; apply N.eqb_neq; exact Hd).
  rewrite N.eqb_refl. replace (w16 (off + 1)) with (off + 1) by (unfold w16; rewrite N.mod_small; lia).
  replace (len <? off + 1 + 1) with false by lia. rewrite get_in by lia. cbn [bind]. rewrite Hb2.
  match goal with |- context [if ?c then _ else _] => replace c with true by lia end. reflexivity.
Qed.
