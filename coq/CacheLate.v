(* CacheLate.v — C05 under late firings: the invariant of the cache (GInv) survives a timeout serviced at ANY instant at
   or after its deadline (several triggers of one record may have passed), so that it holds after every history of
   ADD / exact ADV / ADVB / LATE / LOOKUP operations; and whatever the history was, an exact advance past the last
   trigger of every entry leaves the cache empty: nothing lingers. *)
From QV Require Import Base Fields SrcFacts Msg SrcDecisions Cache CacheSpec CacheProofs.
From Coq Require Import ZifyBool ZifyNat ZifyN Sorted.
Local Open Scope Z_scope.

(* what a timeout serviced at instant t leaves of one entry: its triggers later than t *)
Definition later (t : Z) (tr : list Z) : list Z := filter (fun x => t <? x) tr.
Definition ltrim (t : Z) (e : entry) : option entry :=
  match later t (e_trig e) with [] => None | tr => Some (mkEntry (e_rec e) tr) end.

Lemma later_all t tr : (forall x, In x tr -> t < x) -> later t tr = tr.
Proof.
  unfold later. induction tr as [|a tr IH]; intro H; [reflexivity|]. cbn [filter].
  pose proof (H a (or_introl eq_refl)). replace (t <? a) with true by lia. rewrite IH; [reflexivity|].
  intros x Hx. apply H. right. exact Hx.
Qed.

Lemma drop_passed_later t tr : sorted tr -> snd (drop_passed t tr) = later t tr.
Proof.
  induction tr as [|a tr IH]; intro Hs; [reflexivity|]. cbn [drop_passed]. unfold cache_trigger_passed. apply sorted_tail in Hs as [Hs Hgt].
  destruct (a <=? t) eqn:E; cbn [snd].
  - rewrite (IH Hs). unfold later. cbn [filter]. replace (t <? a) with false by lia. reflexivity.
  - symmetry. apply later_all. intros x [<-|Hx]; [lia|]. specialize (Hgt x Hx). lia.
Qed.

Lemma later_sorted t tr : sorted tr -> sorted (later t tr).
Proof.
  unfold sorted, later. induction 1 as [|a tr Hs IH Ha]; cbn [filter]; [apply SSorted_nil|].
  destruct (t <? a); [|exact IH]. apply SSorted_cons; [exact IH|].
  rewrite Forall_forall in *. intros x Hx. apply filter_In in Hx as [Hx _]. apply Ha, Hx.
Qed.

Lemma later_In t tr x : In x (later t tr) <-> In x tr /\ t < x.
Proof. unfold later. rewrite filter_In. split; intros [A B]; split; auto; lia. Qed.

(* the outer loop of onTimeout at an arbitrary instant *)
Lemma pass_late t : forall es kept nn,
  (forall e, In e es -> sorted (e_trig e)) ->
  fst (fst (pass t kept es nn)) = kept ++ filter_map (ltrim t) es /\
  snd (fst (pass t kept es nn)) = fold_left min_opt (firsts (filter_map (ltrim t) es)) nn.
Proof.
  induction es as [|e es IH]; intros kept nn Hs.
  - cbn. rewrite app_nil_r. auto.
  - assert (He := Hs e (or_introl eq_refl)). assert (Hes : forall e', In e' es -> sorted (e_trig e')) by (intros; apply Hs; right; assumption).
    cbn [pass filter_map]. pose proof (drop_passed_later t (e_trig e) He) as DL.
    destruct (drop_passed t (e_trig e)) as [sq rest]. cbn [snd] in DL. subst rest.
    assert (LT : ltrim t e = match later t (e_trig e) with [] => None | tr => Some (mkEntry (e_rec e) tr) end) by reflexivity.
    rewrite LT. destruct (later t (e_trig e)) as [|t0 rest'] eqn:EL.
    + destruct (IH kept nn Hes) as [I1 I2]. destruct (pass t kept es nn) as [[k n] sg]. cbn [fst snd] in *. auto.
    + destruct (IH (kept ++ [mkEntry (e_rec e) (t0 :: rest')]) (min_opt nn t0) Hes) as [I1 I2].
      destruct (pass t (kept ++ [mkEntry (e_rec e) (t0 :: rest')]) es (min_opt nn t0)) as [[k n] sg]. cbn [fst snd] in *.
      cbn [firsts flat_map first_of e_trig app fold_left]. rewrite I1, I2, <- app_assoc. auto.
Qed.

(* a timeout serviced at any instant t at or after the armed deadline re-establishes the invariant at t *)
Lemma late_firing d t now c :
  GInv now c -> c_next c = Some d -> now <= t -> d <= t ->
  let c1 := fst (on_timeout t (mkCache (c_entries c) (c_next c) None)) in
  c_entries c1 = filter_map (ltrim t) (c_entries c) /\ GInv t c1.
Proof.
  intros G Hn Hnt Hdt. pose proof (on_timeout_preserves_EInv t (mkCache (c_entries c) (c_next c) None) (g_einv _ _ G)) as HE.
  destruct G as [Hei Hwf Htm Hnx]. cbv zeta in *.
  assert (Hs : forall e, In e (c_entries c) -> sorted (e_trig e)) by (intros e He; apply (Hwf e He)).
  unfold on_timeout in *. cbn [c_entries] in *.
  destruct (pass_late t (c_entries c) [] None Hs) as [P1 P2].
  destruct (pass t [] (c_entries c) None) as [[k n] sg]. cbn [fst snd app c_entries] in *. subst k n.
  split; [reflexivity|].
  set (es1 := filter_map (ltrim t) (c_entries c)) in *.
  assert (Hes1 : forall e', In e' es1 -> exists e, In e (c_entries c) /\ ltrim t e = Some e').
  { intros e' H. apply In_filter_map in H. exact H. }
  assert (Hwf1 : forall e', In e' es1 -> sorted (e_trig e') /\ e_trig e' <> [] /\
                   (forall x, In x (e_trig e') -> x <= t + LIMIT) /\ (forall x, In x (e_trig e') -> t < x)).
  { intros e' H. destruct (Hes1 e' H) as (e & He & Ht). unfold ltrim in Ht.
    destruct (later t (e_trig e)) as [|a l] eqn:EL; [discriminate|]. injection Ht as <-. cbn [e_trig]. rewrite <- EL.
    destruct (Hwf e He) as (S1 & _ & S3). split; [apply later_sorted, S1|]. split; [rewrite EL; discriminate|]. split.
    - intros x Hx. apply later_In in Hx as [Hx _]. specialize (S3 x Hx). lia.
    - intros x Hx. apply later_In in Hx as [_ Hx]. exact Hx. }
  pose proof (fold_min_opt (firsts es1) None) as FM.
  constructor; cbn [c_entries c_next c_timer].
  - exact HE.
  - intros e' H. destruct (Hwf1 e' H) as (A & B & C & _). auto.
  - destruct (fold_left min_opt (firsts es1) None) as [m|] eqn:F; [|reflexivity].
    destruct FM as (F1 & _ & [F3|F3]); [|discriminate].
    apply In_firsts in F3 as (e' & rest & He' & Et). destruct (Hwf1 e' He') as (_ & _ & C & D).
    apply timer_start_small. rewrite Et in C, D. specialize (C m (or_introl eq_refl)). specialize (D m (or_introl eq_refl)). lia.
  - destruct (fold_left min_opt (firsts es1) None) as [m|] eqn:F.
    + destruct FM as (F1 & _ & [F3|F3]); [|discriminate]. split.
      * apply In_firsts in F3 as (e' & rest & He' & Et). destruct (Hwf1 e' He') as (_ & _ & _ & D).
        apply Z.lt_le_incl, D. rewrite Et. left; reflexivity.
      * intros e' He' x Hx. destruct (Hwf1 e' He') as (S1 & S2 & _).
        destruct (e_trig e') as [|t0 rest] eqn:Et; [congruence|].
        assert (m <= t0) by (apply F1, In_firsts; eauto).
        destruct Hx as [<-|Hx]; [lia|]. apply sorted_tail in S1 as [_ Hgt]. specialize (Hgt x Hx). lia.
    + destruct FM as [FM _]. destruct es1 as [|e' es1']; [reflexivity|].
      destruct (Hwf1 e' (or_introl eq_refl)) as (_ & S2 & _).
      unfold firsts in FM. cbn [flat_map] in FM. unfold first_of in FM at 1.
      destruct (e_trig e'); [congruence|discriminate].
Qed.

Lemma GInv_later now t c : GInv now c -> now <= t -> (forall n, c_next c = Some n -> t <= n) -> GInv t c.
Proof.
  intros [G1 G2 G3 G4] Hnt Hn. constructor; auto.
  - intros e He. destruct (G2 e He) as (A & B & C). repeat split; auto. intros x Hx. specialize (C x Hx). lia.
  - destruct (c_next c) as [n|]; [|exact G4]. destruct G4 as [A B]. split; [apply Hn; reflexivity|exact B].
Qed.

(* ------------------------------------------------------------------ every history, late firings included *)
Definition wf_op_late (o : cop) : Prop :=
  match o with
  | CAdd r j => ttl_ok r /\ 0 <= j < cache_jitter_bound
  | _ => True
  end.

Lemma cstep_GInv_late st o :
  GInv (fst st) (snd st) -> wf_op_late o -> GInv (fst (fst (cstep st o))) (snd (fst (cstep st o))).
Proof.
  intros G W. destruct o as [r j|t|t|t|n ty]; try (apply cstep_GInv; [exact G|exact W || exact I]).
  destruct st as [now c]. cbn [fst snd] in *. cbn [cstep]. destruct (t <? now) eqn:E; [exact G|].
  pose proof (g_timer _ _ G) as GT. destruct (c_timer c) as [d|] eqn:ET.
  - destruct (d <=? t) eqn:Ed.
    + destruct (late_firing d t now c G ltac:(rewrite <- GT; reflexivity) ltac:(lia) ltac:(lia)) as [_ G'].
      cbv zeta in G'. destruct (on_timeout t (mkCache (c_entries c) (c_next c) None)) as [c1 sg]. exact G'.
    + cbn [fst snd]. apply (GInv_later now t c G); [lia|]. intros m Hm. rewrite <- GT in Hm. injection Hm as <-. lia.
  - cbn [fst snd]. apply (GInv_later now t c G); [lia|]. intros m Hm. rewrite <- GT in Hm. discriminate.
Qed.

Lemma filter_map_nothing {A B} (f : A -> option B) l : (forall x, In x l -> f x = None) -> filter_map f l = [].
Proof.
  induction l as [|x l IH]; intro H; cbn [filter_map]; [reflexivity|].
  rewrite (H x (or_introl eq_refl)). apply IH. intros y Hy. apply H. right. exact Hy.
Qed.

Theorem crun_GInv_late ops : Forall wf_op_late ops ->
  GInv (fst (cstate_after (0, empty_cache) ops)) (snd (cstate_after (0, empty_cache) ops)).
Proof.
  unfold cstate_after.
  assert (G0 : GInv (fst (0, empty_cache)) (snd (0, empty_cache))) by exact GInv_empty.
  revert G0. generalize (0, empty_cache) as st.
  induction ops as [|o ops IH]; intros st G W; cbn [fold_left]; [exact G|].
  inversion W as [|? ? W1 W2]; subst. apply IH; [|exact W2]. apply cstep_GInv_late; assumption.
Qed.

(* whatever happened before - late firings included - once the clock is advanced (exactly) past the last trigger of every
   entry, i.e. past the end of every lifetime, the cache is empty and every lookup returns nothing *)
Theorem nothing_lingers now c t name type :
  GInv now c -> now <= t -> (forall e, In e (c_entries c) -> forall x, In x (e_trig e) -> x <= t) ->
  let c' := snd (fst (cstep (now, c) (CAdv t))) in
  c_entries c' = [] /\ lookup name type c' = [].
Proof.
  intros G Hnt Hall. destruct (cadv_spec now c t default_record G Hnt) as (_ & _ & E & _). cbv zeta in *.
  assert (E0 : c_entries (snd (fst (cstep (now, c) (CAdv t)))) = []).
  { rewrite E. apply filter_map_nothing. intros e He. unfold trim_upto.
    assert (filter (fun x => t <? x) (e_trig e) = []) as ->; [|reflexivity].
    specialize (Hall e He). induction (e_trig e) as [|a l IH]; [reflexivity|]. cbn [filter].
    pose proof (Hall a (or_introl eq_refl)). replace (t <? a) with false by lia. apply IH. intros x Hx. apply Hall. right. exact Hx. }
  split; [exact E0|]. unfold lookup. rewrite E0. reflexivity.
Qed.

(* every trigger of every entry of a reachable cache lies at most [bound] after the clock, where bound is the largest
   lifetime ever added: the end of all lifetimes is a known instant *)
Theorem all_triggers_bounded now c : GInv now c -> forall e, In e (c_entries c) -> forall x, In x (e_trig e) -> x <= now + LIMIT.
Proof. intros G e He x Hx. exact (proj2 (proj2 (g_wf _ _ G e He)) x Hx). Qed.

(* C18, last sentence, for a timeout serviced at ANY instant: a refresh warning names a record that is held at the moment
   of emission and is still held after the pass - never one that has expired (replaced and withdrawn records are not
   entries any more: C06_add_shape) *)
Lemma pass_warning_alive t : forall es kept nn r snap,
  In (ShouldQuery r, snap) (snd (pass t kept es nn)) ->
  In r snap /\ exists e, In e es /\ e_rec e = r /\ snd (drop_passed t (e_trig e)) <> [] /\
                        In r (map e_rec (fst (fst (pass t kept es nn)))).
Proof.
  induction es as [|e es IH]; intros kept nn r snap; cbn [pass]; [intros []|].
  destruct (drop_passed t (e_trig e)) as [sq rest] eqn:DP. destruct rest as [|t0 rest'].
  - specialize (IH kept nn r snap). destruct (pass t kept es nn) as [[k n] sg]. cbn [fst snd] in *.
    intros [H|H]; [discriminate|]. destruct (IH H) as (A & e' & B & C & D & E). split; [exact A|].
    exists e'. split; [right; exact B|]. auto.
  - pose proof (IH (kept ++ [mkEntry (e_rec e) (t0 :: rest')]) (min_opt nn t0) r snap) as IH'.
    pose proof (pass_records t (kept ++ [mkEntry (e_rec e) (t0 :: rest')]) es (min_opt nn t0)) as PR.
    destruct (pass t (kept ++ [mkEntry (e_rec e) (t0 :: rest')]) es (min_opt nn t0)) as [[k n] sg]. cbn [fst snd] in *.
    intro H. assert (Hrest : In (ShouldQuery r, snap) sg \/ (sq = true /\ r = e_rec e /\ snap = map e_rec (kept ++ mkEntry (e_rec e) (t0 :: rest') :: es))).
    { destruct sq; [|left; exact H]. destruct H as [H|H]; [right; injection H as <- <-; auto|left; exact H]. }
    destruct Hrest as [H'|(_ & -> & ->)].
    + destruct (IH' H') as (A & e' & B & C & D & E). split; [exact A|]. exists e'. split; [right; exact B|]. auto.
    + split; [rewrite map_app; apply in_app_iff; right; left; reflexivity|].
      exists e. split; [left; reflexivity|]. split; [reflexivity|]. split; [rewrite DP; discriminate|].
      rewrite PR, map_app. apply in_app_iff. left. apply in_app_iff. right. left. reflexivity.
Qed.
