(* HostnameProofs.v — C17: the hostname's replies equal the declarative specification; C08 invariants. *)
From QV Require Import Base Fields SrcFacts Msg SrcDecisions Sim Prober Hostname CacheProofs.
From Coq Require Import ZifyBool ZifyNat ZifyN.
Local Open Scope Z_scope.

(* the decision of onRegistrationTimeout regenerated from hostname.cpp (SrcDecisions), in the shape the proofs use *)
Lemma host_announce_old {A} (a b : bytes) (x y : A) :
  (if hostname_announce (Some a) (Some b) then x else y) = (if bytes_eqb a b then y else x).
Proof. unfold hostname_announce, bs_eqb. cbn [bs_data]. destruct (bytes_eqb a b); reflexivity. Qed.

(* ---- ties to hostname.cpp / mdns.cpp / message.cpp ---- *)
Lemma hostname_question_spec q name : hostname_question q name = spec_question name q.
Proof. reflexivity. Qed.
Lemma reply_addr_spec m : m_addr (reply_to m) = spec_reply_addr m.
Proof. reflexivity. Qed.
Lemma reply_fields m : m_port (reply_to m) = m_port m /\ m_id (reply_to m) = m_id m.
Proof. split; reflexivity. Qed.

(* ---- generateRecord's three loops = "first interface that contains the source and has the family" ---- *)
Lemma gen_entries_spec src type all : forall rest,
  gen_entries src type all rest =
  if existsb (fun e => in_subnet src (fst e) (snd e)) rest then first_family all type else None.
Proof.
  induction rest as [|e rest IH]; cbn [gen_entries existsb]; [reflexivity|].
  destruct (in_subnet src (fst e) (snd e)); cbn [orb].
  - destruct (first_family all type) eqn:F; [reflexivity|]. rewrite IH. destruct (existsb _ rest); reflexivity.
  - exact IH.
Qed.

Lemma gen_ifaces_spec src type : forall ifs, gen_ifaces src type ifs = spec_address src type ifs.
Proof.
  induction ifs as [|i ifs IH]; cbn [gen_ifaces spec_address]; [reflexivity|].
  rewrite gen_entries_spec. unfold iface_contains.
  destruct (existsb (fun e => in_subnet src (fst e) (snd e)) i).
  - destruct (first_family i type); [reflexivity|exact IH].
  - exact IH.
Qed.

Lemma host_answers_spec h src : forall qs, host_answers h src qs = spec_answers (h_name h) (h_ifaces h) src qs.
Proof.
  induction qs as [|q qs IH]; cbn [host_answers spec_answers]; [reflexivity|].
  rewrite hostname_question_spec, gen_ifaces_spec. destruct (spec_question (h_name h) q); [|exact IH].
  destruct (spec_address src (q_type q) (h_ifaces h)); rewrite IH; reflexivity.
Qed.

(* what the hostname object does with a query message, in one equation *)
Theorem host_query_reply now h m :
  m_response m = false ->
  host_handle now h (EvMsg m) =
  (h, match spec_host_reply (h_reg h) (h_name h) (h_ifaces h) m with Some r => [ESend r] | None => [] end).
Proof.
  intro Hq. cbn [host_handle]. unfold spec_host_reply. rewrite Hq, host_answers_spec. rewrite orb_false_r.
  destruct (h_reg h); cbn [negb]; [|reflexivity].
  destruct (spec_answers (h_name h) (h_ifaces h) (m_addr m) (m_queries m)); reflexivity.
Qed.

(* responses never make it answer, and never change anything once registered *)
Theorem host_response_silent now h m :
  m_response m = true -> h_reg h = true -> host_handle now h (EvMsg m) = (h, []).
Proof. intros H1 H2. cbn [host_handle]. rewrite H1, H2. reflexivity. Qed.

(* ---- C08 (3): nothing is ever sent to a querier while unregistered ---- *)
Lemma host_records_no_send : forall rs h m, ~ In (ESend m) (snd (host_records rs h)).
Proof.
  induction rs as [|r rs IH]; intros h m; cbn [host_records]; [intros []|].
  destruct (hostname_conflict r (h_name h)); [|apply IH].
  unfold assert_hostname.
  match goal with |- context [host_records rs ?h1] => specialize (IH h1 m); destruct (host_records rs h1) as [h2 e2] end.
  cbn [snd app] in *. intros [H|[H|H]]; [discriminate|discriminate|auto].
Qed.

Theorem host_unregistered_never_replies now h ev m :
  h_reg h = false -> ~ In (ESend m) (snd (host_handle now h ev)).
Proof.
  intro Hr. destruct ev as [msg|tid|a]; cbn [host_handle].
  - rewrite Hr. destruct (m_response msg); cbn [negb snd]; [apply host_records_no_send|intros []].
  - destruct (tid =? T_REG)%N; cbn [snd].
    + intro H. apply in_app_iff in H as [H|[H|[]]]; [|discriminate].
      rewrite ?host_announce_old in *. destruct (bytes_eqb (h_name h) (h_prev h)); [destruct H|destruct H as [H|[]]; discriminate].
    + unfold on_rebroadcast, assert_hostname. cbn [snd]. intros [H|[H|[]]]; discriminate.
  - intros [].
Qed.

(* ------------------------------------------------------------------ C09: one defence round between two hostname objects *)
Lemma host_records_suffix : forall rs h, (h_suffix h <= h_suffix (fst (host_records rs h)))%N.
Proof.
  induction rs as [|r rs IH]; intro h; cbn [host_records]; [cbn; lia|].
  destruct (hostname_conflict r (h_name h)); [|apply IH].
  unfold assert_hostname.
  match goal with |- context [host_records rs ?h1] => specialize (IH h1); destruct (host_records rs h1) as [h2 e2] end.
  cbn [fst h_suffix set_host] in *. lia.
Qed.

Lemma bytes_eqb_true a : bytes_eqb a a = true.
Proof. apply bytes_eqb_refl. Qed.

(* the probe a newcomer sends for candidate name n *)
Definition host_probe (n : bytes) (src : addr) : message :=
  mkMessage src 5353 0 false false [mkQuery (Some n) T_A false; mkQuery (Some n) T_AAAA false] [].

Definition addr_answer (n : bytes) (type : N) (a : addr) : record :=
  set_addr a (set_type type (set_name (Some n) default_record)).

Lemma spec_answers_probe n ifs src :
  spec_answers n ifs src [mkQuery (Some n) T_A false; mkQuery (Some n) T_AAAA false] =
  (match spec_address src 1 ifs with Some a => [addr_answer n 1 a] | None => [] end) ++
  (match spec_address src 28 ifs with Some a => [addr_answer n 28 a] | None => [] end).
Proof.
  cbn [spec_answers]. unfold spec_question. cbn [q_type q_name bs_data]. rewrite bytes_eqb_refl.
  change (T_A =? 1)%N with true. change (T_A =? 28)%N with false. change (T_AAAA =? 1)%N with false. change (T_AAAA =? 28)%N with true.
  cbn [orb andb]. change T_A with 1%N. change T_AAAA with 28%N.
  destruct (spec_address src 1 ifs), (spec_address src 28 ifs); reflexivity.
Qed.

Lemma conflict_of_answer n type a : (type = 1 \/ type = 28)%N -> hostname_conflict (addr_answer n type a) n = true.
Proof. intros [-> | ->]; unfold hostname_conflict, addr_answer; cbn; unfold bs_eqb; cbn; rewrite bytes_eqb_refl; reflexivity. Qed.

Theorem defence_round now now' h1 h2 src :
  h_reg h1 = true -> h_reg h2 = false -> h_name h2 = h_name h1 ->
  (spec_address src 1 (h_ifaces h1) <> None \/ spec_address src 28 (h_ifaces h1) <> None) ->
  exists reply,
    snd (host_handle now h1 (EvMsg (host_probe (h_name h1) src))) = [ESend reply] /\
    m_response reply = true /\ m_port reply = 5353%N /\
    (h_suffix h2 + 1 <= h_suffix (fst (host_handle now' h2 (EvMsg reply))))%N.
Proof.
  intros R1 R2 Hn Hsrc.
  rewrite (host_query_reply now h1 (host_probe (h_name h1) src) eq_refl). cbn [snd].
  unfold spec_host_reply. rewrite R1. cbn [negb orb host_probe m_response m_queries m_addr m_port m_id].
  rewrite spec_answers_probe.
  assert (Step : forall type a rest, (type = 1 \/ type = 28)%N ->
            (h_suffix h2 + 1 <= h_suffix (fst (host_records (addr_answer (h_name h1) type a :: rest) h2)))%N).
  { intros type a rest Ht. cbn [host_records]. rewrite Hn, (conflict_of_answer (h_name h1) type a Ht).
    unfold assert_hostname.
    match goal with |- context [host_records rest ?hh] => pose proof (host_records_suffix rest hh) as HS; destruct (host_records rest hh) as [h3 e3] end.
    cbn [fst h_suffix set_host] in *. lia. }
  destruct (spec_address src 1 (h_ifaces h1)) as [a4|] eqn:S4; destruct (spec_address src 28 (h_ifaces h1)) as [a6|] eqn:S6;
    cbn [app].
  - eexists. split; [reflexivity|]. split; [reflexivity|]. split; [reflexivity|].
    cbn [host_handle m_response m_records]. rewrite R2. apply Step. left; reflexivity.
  - eexists. split; [reflexivity|]. split; [reflexivity|]. split; [reflexivity|].
    cbn [host_handle m_response m_records]. rewrite R2. apply Step. left; reflexivity.
  - eexists. split; [reflexivity|]. split; [reflexivity|]. split; [reflexivity|].
    cbn [host_handle m_response m_records]. rewrite R2. apply Step. right; reflexivity.
  - destruct Hsrc as [X|X]; congruence.
Qed.
