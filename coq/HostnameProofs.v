(* HostnameProofs.v — C17: the hostname's replies equal the declarative specification; C08 invariants. *)
From QV Require Import Base Fields SrcFacts Msg SrcDecisions Sim Prober Hostname CacheProofs.
From Coq Require Import ZifyBool ZifyNat ZifyN.
Local Open Scope Z_scope.

(* ---- ties to hostname.cpp / mdns.cpp / message.cpp ---- *)
Lemma hostname_question_spec q name : hostname_question q name = spec_question name q.
Proof. reflexivity. Qed.
Lemma reply_addr_spec m : m_addr (reply_to m) = spec_reply_addr m.
Proof. reflexivity. Qed.
Lemma reply_fields m : m_port (reply_to m) = m_port m /\ m_id (reply_to m) = m_id m.
Proof. split; reflexivity. Qed.

(* ---- generateRecord's three loops = "first interface that contains the source and has the family" ---- *)
Lemma gen_entries_spec src type all : forall rest,
  gen_entries src type all rest =
  if existsb (fun e => in_subnet src (fst e) (snd e)) rest then first_family all type else None.
Proof.
  induction rest as [|e rest IH]; cbn [gen_entries existsb]; [reflexivity|].
  destruct (in_subnet src (fst e) (snd e)); cbn [orb].
  - destruct (first_family all type) eqn:F; [reflexivity|]. rewrite IH. destruct (existsb _ rest); reflexivity.
  - exact IH.
Qed.

Lemma gen_ifaces_spec src type : forall ifs, gen_ifaces src type ifs = spec_address src type ifs.
Proof.
  induction ifs as [|i ifs IH]; cbn [gen_ifaces spec_address]; [reflexivity|].
  rewrite gen_entries_spec. unfold iface_contains.
  destruct (existsb (fun e => in_subnet src (fst e) (snd e)) i).
  - destruct (first_family i type); [reflexivity|exact IH].
  - exact IH.
Qed.

Lemma host_answers_spec h src : forall qs, host_answers h src qs = spec_answers (h_name h) (h_ifaces h) src qs.
Proof.
  induction qs as [|q qs IH]; cbn [host_answers spec_answers]; [reflexivity|].
  rewrite hostname_question_spec, gen_ifaces_spec. destruct (spec_question (h_name h) q); [|exact IH].
  destruct (spec_address src (q_type q) (h_ifaces h)); rewrite IH; reflexivity.
Qed.

(* what the hostname object does with a query message, in one equation *)
Theorem host_query_reply now h m :
  m_response m = false ->
  host_handle now h (EvMsg m) =
  (h, match spec_host_reply (h_reg h) (h_name h) (h_ifaces h) m with Some r => [ESend r] | None => [] end).
Proof.
  intro Hq. cbn [host_handle]. unfold spec_host_reply. rewrite Hq, host_answers_spec. rewrite orb_false_r.
  destruct (h_reg h); cbn [negb]; [|reflexivity].
  destruct (spec_answers (h_name h) (h_ifaces h) (m_addr m) (m_queries m)); reflexivity.
Qed.

(* responses never make it answer, and never change anything once registered *)
Theorem host_response_silent now h m :
  m_response m = true -> h_reg h = true -> host_handle now h (EvMsg m) = (h, []).
Proof. intros H1 H2. cbn [host_handle]. rewrite H1, H2. reflexivity. Qed.

(* ---- C08 (3): nothing is ever sent to a querier while unregistered ---- *)
Lemma host_records_no_send : forall rs h m, ~ In (ESend m) (snd (host_records rs h)).
Proof.
  induction rs as [|r rs IH]; intros h m; cbn [host_records]; [intros []|].
  destruct (hostname_conflict r (h_name h)); [|apply IH].
  unfold assert_hostname.
  match goal with |- context [host_records rs ?h1] => specialize (IH h1 m); destruct (host_records rs h1) as [h2 e2] end.
  cbn [snd app] in *. intros [H|[H|H]]; [discriminate|discriminate|auto].
Qed.

Theorem host_unregistered_never_replies now h ev m :
  h_reg h = false -> ~ In (ESend m) (snd (host_handle now h ev)).
Proof.
  intro Hr. destruct ev as [msg|tid|a]; cbn [host_handle].
  - rewrite Hr. destruct (m_response msg); cbn [negb snd]; [apply host_records_no_send|intros []].
  - destruct (tid =? T_REG)%N; cbn [snd].
    + intro H. apply in_app_iff in H as [H|[H|[]]]; [|discriminate].
      destruct (bytes_eqb (h_name h) (h_prev h)); [destruct H|destruct H as [H|[]]; discriminate].
    + unfold on_rebroadcast, assert_hostname. cbn [snd]. intros [H|[H|[]]]; discriminate.
  - intros [].
Qed.
