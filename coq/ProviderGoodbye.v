(* ProviderGoodbye.v — C10, the clause "every goodbye names records announced before": in every history of the
   hostname + provider + prober composite, every record with TTL 0 that a multicast response carries has the data of a
   record the passive RFC 6762 listener holds at that moment, i.e. of a record announced with a nonzero TTL and not
   withdrawn since.  (The listener and its invariant are those of ProviderListener.v.) *)
From QV Require Import Base Fields SrcFacts Msg SrcDecisions Cache CacheSpec CacheProofs Sim Prober Hostname HostnameInv Provider ProviderProofs ProviderListener.
From Coq Require Import ZifyBool ZifyNat ZifyN.
Local Open Scope Z_scope.

Definition named_by (L : list record) (m : message) : Prop :=
  forall r, In r (m_records m) -> r_ttl r = 0%N -> exists r', In r' L /\ same_data r r' = true.

(* the effects of one handler, read in order against the listener's content *)
Fixpoint gb_ok (L : list record) (es : list eff) : Prop :=
  match es with
  | [] => True
  | ESendAll m :: es' => (m_response m = true -> named_by L m) /\ gb_ok (if m_response m then listen_msg L m else L) es'
  | _ :: es' => gb_ok L es'
  end.

Lemma gb_ok_app L a b : gb_ok L (a ++ b) <-> gb_ok L a /\ gb_ok (listen L a) b.
Proof.
  revert L. induction a as [|e a IH]; intro L; cbn [app gb_ok listen]; [tauto|].
  destruct e; try apply IH. rewrite IH. tauto.
Qed.

Lemma gb_ok_silent L es : silent es -> gb_ok L es.
Proof.
  revert L. induction es as [|e es IH]; intros L S; cbn [gb_ok]; [exact I|].
  assert (S' : silent es) by (intros m H; apply S; right; exact H).
  destruct e; try (apply IH; exact S').
  assert (E : m_response m = false) by (apply S; left; reflexivity). rewrite E. split; [discriminate|apply IH, S'].
Qed.

Lemma announce_recs p : m_records (announce_msg p) = [pv_ptr p; pv_srv p; pv_txt p] /\ m_response (announce_msg p) = true.
Proof. split; reflexivity. Qed.

Lemma gb_farewell p : gb_ok [pv_ptr p; pv_srv p; pv_txt p] (snd (farewell p)).
Proof.
  unfold farewell. cbn [snd gb_ok]. split; [|exact I].
  intros _ r Hr _. destruct (announce_recs (set_published p (pv_browse p) (set_ttl 0 (pv_ptr p)) (set_ttl 0 (pv_srv p)) (set_ttl 0 (pv_txt p)))) as [E _].
  rewrite E in Hr. cbn [set_published pv_ptr pv_srv pv_txt] in Hr.
  destruct Hr as [<-|[<-|[<-|[]]]].
  - exists (pv_ptr p). split; [left; reflexivity|]. rewrite same_data_sym. apply same_data_set_ttl.
  - exists (pv_srv p). split; [right; left; reflexivity|]. rewrite same_data_sym. apply same_data_set_ttl.
  - exists (pv_txt p). split; [right; right; left; reflexivity|]. rewrite same_data_sym. apply same_data_set_ttl.
Qed.

Lemma gb_publish L p : Live (pv_ptrP p) (pv_srvP p) (pv_txtP p) -> gb_ok L (snd (publish p)).
Proof.
  intros (L1 & L2 & L3). unfold publish. cbn [snd gb_ok]. split; [|exact I].
  intros _ r Hr Hz. destruct (announce_recs (set_published p (pv_browseP p) (pv_ptrP p) (pv_srvP p) (pv_txtP p))) as [E _].
  rewrite E in Hr. cbn [set_published pv_ptr pv_srv pv_txt] in Hr. destruct Hr as [<-|[<-|[<-|[]]]]; congruence.
Qed.

Lemma hostname_changed_silent c n : silent (snd (prov_on_hostname_changed c n)).
Proof.
  unfold prov_on_hostname_changed. destruct (negb (pv_exists (cp_prov c))); [apply silent_nil|].
  match goal with |- context [if pv_initialized ?p1 then _ else _] => destruct (pv_initialized p1); [|apply silent_nil];
    pose proof (confirm_silent p1 (cp_prober c)) as S; destruct (confirm p1 (cp_prober c)) as [pb es]; exact S end.
Qed.

Lemma with_slot_silent : forall es c, silent es -> silent (snd (with_hostname_slot c es)).
Proof.
  induction es as [|e es IH]; intros c S; cbn [with_hostname_slot]; [apply silent_nil|].
  assert (S' : silent es) by (intros m H; apply S; right; exact H).
  assert (S1 : silent [e]) by (intros m [H|[]]; apply S; left; exact H).
  assert (Generic : forall c0, silent (snd (let '(c2, e2) := with_hostname_slot c0 es in (c2, e :: e2)))).
  { intro c0. specialize (IH c0 S'). destruct (with_hostname_slot c0 es) as [c2 e2]. cbn [snd] in *.
    change (e :: e2) with ([e] ++ e2). apply silent_app; assumption. }
  destruct e as [m|m|ob sg p|tid ms|tid|rs]; try apply Generic.
  destruct p as [|b|sv|a|r]; try apply Generic. destruct b as [n|]; [|apply Generic].
  destruct (sg =? SIG_hostnameChanged)%N; [|apply Generic].
  pose proof (hostname_changed_silent c n) as H1. destruct (prov_on_hostname_changed c n) as [c1 e1]. cbn [snd] in H1.
  specialize (IH c1 S'). destruct (with_hostname_slot c1 es) as [c2 e2]. cbn [snd] in *.
  change (ESig ob sg (PBytes (Some n)) :: e1 ++ e2) with ([ESig ob sg (PBytes (Some n))] ++ e1 ++ e2).
  apply silent_app; [exact S1|]. apply silent_app; assumption.
Qed.

Lemma stop_silent (o : option prober) : silent (match o with Some _ => [EStop T_PROBER] | None => [] end).
Proof. destruct o; [intros m [H|[]]; discriminate|apply silent_nil]. Qed.

(* ------------------------------------------------------------------ one handler invocation *)
Theorem comp_step_gb now c ev L :
  CInv c L -> one_provider c ev -> gb_ok L (snd (comp_handle now c ev)).
Proof.
  intros Iv One. destruct ev as [m|tid|a]; cbn [comp_handle].
  - (* a message: questions and unicast answers only *)
    pose proof (host_handle_silent now (cp_host c) (EvMsg m)) as S1.
    destruct (host_handle now (cp_host c) (EvMsg m)) as [h1 e1]. cbn [snd] in S1.
    assert (S3 : silent (snd (match cp_prober c with
                       | Some pb => let '(pb', e) := prober_handle now pb (EvMsg m) in (Some pb', e)
                       | None => (None, []) end))).
    { destruct (cp_prober c) as [pb|]; [|apply silent_nil]. cbn [prober_handle].
      destruct (prober_ignore_message (pb_confirmed pb) (m_response m)); [apply silent_nil|].
      pose proof (on_records_silent (m_records m) pb) as S. destruct (on_records (m_records m) pb). exact S. }
    destruct (match cp_prober c with Some pb => _ | None => (None, []) end) as [pb e3]. cbn [snd] in *.
    apply gb_ok_silent. apply silent_app; [exact S1|]. apply silent_app; [|exact S3].
    destruct (pv_exists (cp_prov c)); [apply prov_on_message_silent|apply silent_nil].
  - destruct (tid =? T_PROBER)%N.
    + (* the probe completes: goodbye for the records served so far (if any), then the announcement *)
      destruct (cp_prober c) as [pb|] eqn:Ep; [|exact I].
      destruct Iv as [Ih Psh Pn Sv Un Pr Ci]. destruct (Pr pb Ep) as (Ex & In_ & _ & _). destruct (Psh Ex) as (Ps & Pl & Pp).
      unfold on_name_confirmed. set (p := cp_prov c) in *.
      assert (F : let '(p1, e1) := (if pv_confirmed p then farewell p else (set_prov p (pv_initialized p) true, [])) in
                  gb_ok L e1 /\ pv_ptrP p1 = pv_ptrP p /\ pv_srvP p1 = pv_srvP p /\ pv_txtP p1 = pv_txtP p).
      { destruct (pv_confirmed p) eqn:Cf.
        - destruct (Sv Ex eq_refl) as (_ & _ & _ & _ & ->). split; [apply gb_farewell|cbn; auto].
        - cbn. auto. }
      destruct (if pv_confirmed p then farewell p else (set_prov p (pv_initialized p) true, [])) as [p1 e1].
      destruct F as (F0 & F4 & F5 & F6).
      match goal with |- context [publish ?q] => set (p2 := q) end.
      assert (L2 : Live (pv_ptrP p2) (pv_srvP p2) (pv_txtP p2)) by (unfold p2; cbn; rewrite F4, F5, F6; exact Pl).
      pose proof (fun L0 => gb_publish L0 p2 L2) as GP. destruct (publish p2) as [p3 e3]. cbn [snd] in *.
      apply gb_ok_app. split; [exact F0|apply GP].
    + pose proof (host_handle_silent now (cp_host c) (EvTimer tid)) as S1.
      destruct (host_handle now (cp_host c) (EvTimer tid)) as [h1 e1]. cbn [snd] in S1.
      apply gb_ok_silent, with_slot_silent, S1.
  - destruct a as [| |s|]; try exact I.
    + (* Provider::update *)
      destruct (pv_exists (cp_prov c)) eqn:Ex; [|exact I].
      destruct Iv as [Ih Psh Pn Sv Un Pr Ci]. destruct (Psh Ex) as (Ps & Pl & Pp).
      rewrite prov_update_eq. unfold prov_update_old.
      set (p := set_prov (cp_prov c) true (pv_confirmed (cp_prov c))).
      match goal with |- context [if negb (match bs_data (r_target (pv_srvP ?q)) with [] => true | _ :: _ => false end) then _ else _] => set (p1 := q) end.
      assert (Lp1 : Live (pv_ptrP p1) (pv_srvP p1) (pv_txtP p1)).
      { unfold p1, p. cbn [set_proposed pv_ptrP pv_srvP pv_txtP set_prov]. destruct Pl as (A & B & C0).
        repeat split; [exact A| |exact C0]. destruct (h_reg (cp_host c)); exact B. }
      destruct (negb (match bs_data (r_target (pv_srvP p1)) with [] => true | _ :: _ => false end)); [|exact I].
      destruct (negb (pv_confirmed p1) || negb (bs_eqb _ (r_name (pv_srv p1)))) eqn:Br.
      * pose proof (confirm_silent p1 (cp_prober c)) as S. destruct (confirm p1 (cp_prober c)) as [pb es]. apply gb_ok_silent, S.
      * destruct (match cp_prober c with Some pb => _ | None => false end); [exact I|].
        apply orb_false_iff in Br as [Cf _]. apply negb_false_iff in Cf.
        assert (Cf0 : pv_confirmed (cp_prov c) = true) by exact Cf.
        destruct (Sv Ex Cf0) as (_ & _ & _ & _ & ->).
        assert (X : let '(p2, e2) := (if bs_eqb (r_target (pv_srvP p1)) (r_target (pv_srv p1)) then (p1, []) else farewell p1) in
                    gb_ok [pv_ptr (cp_prov c); pv_srv (cp_prov c); pv_txt (cp_prov c)] e2 /\
                    pv_ptrP p2 = pv_ptrP p1 /\ pv_srvP p2 = pv_srvP p1 /\ pv_txtP p2 = pv_txtP p1).
        { destruct (bs_eqb (r_target (pv_srvP p1)) (r_target (pv_srv p1))); [cbn; auto|].
          split; [exact (gb_farewell p1)|cbn; auto]. }
        destruct (if bs_eqb (r_target (pv_srvP p1)) (r_target (pv_srv p1)) then (p1, []) else farewell p1) as [p2 e2].
        destruct X as (X0 & X4 & X5 & X6).
        assert (L2 : Live (pv_ptrP p2) (pv_srvP p2) (pv_txtP p2)) by (rewrite X4, X5, X6; exact Lp1).
        pose proof (fun L0 => gb_publish L0 p2 L2) as GP. destruct (publish p2) as [p3 e3]. cbn [snd] in *.
        apply gb_ok_app. split; [apply gb_ok_silent, stop_silent|]. rewrite (listen_silent _ _ (stop_silent _)).
        apply gb_ok_app. split; [exact X0|apply GP].
    + (* destruction *)
      destruct (pv_exists (cp_prov c)) eqn:Ex; [|exact I].
      destruct Iv as [Ih Psh Pn Sv Un Pr Ci].
      assert (X : gb_ok L (snd (if pv_confirmed (cp_prov c) then farewell (cp_prov c) else (cp_prov c, [])))).
      { destruct (pv_confirmed (cp_prov c)) eqn:Cf; [|exact I]. destruct (Sv Ex eq_refl) as (_ & _ & _ & _ & ->). apply gb_farewell. }
      destruct (if pv_confirmed (cp_prov c) then farewell (cp_prov c) else (cp_prov c, [])) as [p' es]. cbn [snd] in *.
      apply gb_ok_app. split; [exact X|apply gb_ok_silent, stop_silent].
Qed.

(* ------------------------------------------------------------------ every history *)
Theorem goodbyes_name_announced_records c L now ev :
  lreach c L -> one_provider c ev -> gb_ok L (snd (comp_handle now c ev)).
Proof. intros R One. apply comp_step_gb; [apply lreach_inv, R|exact One]. Qed.
