(* ResolverInv.v — C16: the reports of a resolver over its whole life, for every sequence of handler invocations
   (hence every kernel run): exactly the declaratively specified addresses, none twice. *)
From QV Require Import Base Fields SrcFacts Msg SrcDecisions Cache CacheSpec CacheProofs Sim SimProofs Prober Resolver ResolverProofs.
From Coq Require Import ZifyBool ZifyNat ZifyN.
Local Open Scope Z_scope.

Lemma addr_eqb_eq a b : addr_eqb a b = true <-> a = b.
Proof.
  destruct a as [|x|x], b as [|y|y]; cbn; split; intro H; try congruence; try reflexivity.
  - apply N.eqb_eq in H. congruence.
  - injection H as ->. apply N.eqb_refl.
  - apply bytes_eqb_eq in H. congruence.
  - injection H as ->. apply bytes_eqb_refl.
Qed.
Lemma addr_eqb_refl a : addr_eqb a a = true.
Proof. apply addr_eqb_eq. reflexivity. Qed.
Lemma existsb_addr a l : existsb (addr_eqb a) l = true <-> In a l.
Proof.
  rewrite existsb_exists. split.
  - intros (x & Hx & E). apply addr_eqb_eq in E. subst. exact Hx.
  - intro H. exists a. split; [exact H|apply addr_eqb_refl].
Qed.

(* the addresses a handler invocation reports *)
Definition reports (es : list eff) : list addr :=
  flat_map (fun e => match e with
                     | ESig _ sg (PAddr a) => if (sg =? SIG_resolved)%N then [a] else []
                     | _ => []
                     end) es.
Lemma reports_app a b : reports (a ++ b) = reports a ++ reports b.
Proof. unfold reports. apply flat_map_app. Qed.

(* specification of the reports a response causes: in record order, the address of every A/AAAA record for exactly
   the name with nonzero TTL, unless already reported (before this response or earlier in it) *)
Definition qualifies (name : bstr) (r : record) : bool :=
  bs_eqb (r_name r) name && ((r_type r =? 1)%N || (r_type r =? 28)%N) && negb (r_ttl r =? 0)%N.
Fixpoint spec_reports (name : bstr) (rs : list record) (acc : list addr) : list addr :=
  match rs with
  | [] => []
  | r :: rs' =>
      if qualifies name r && negb (existsb (addr_eqb (r_addr r)) acc)
      then r_addr r :: spec_reports name rs' (acc ++ [r_addr r])
      else spec_reports name rs' acc
  end.

Lemma cache_add_eff_reports now j r c : reports (snd (cache_add_eff now j r c)) = [].
Proof.
  unfold cache_add_eff. destruct (add now j r c) as [c' sg]. cbn [snd].
  destruct (add_rearms now j r c); [|reflexivity]. destruct (c_timer c'); reflexivity.
Qed.

Lemma res_records_reports now : forall rs s,
  reports (snd (res_records now rs s)) = spec_reports (rs_name s) rs (rs_addrs s) /\
  rs_addrs (fst (res_records now rs s)) = rs_addrs s ++ spec_reports (rs_name s) rs (rs_addrs s) /\
  rs_name (fst (res_records now rs s)) = rs_name s /\ rs_active (fst (res_records now rs s)) = rs_active s.
Proof.
  induction rs as [|r rs IH]; intro s; cbn [res_records spec_reports]; [rewrite app_nil_r; auto|].
  unfold qualifies. rewrite <- resolver_filter_spec.
  destruct (resolver_filter r (rs_name s)) eqn:F; cbn [andb]; [|apply IH].
  pose proof (cache_add_eff_reports now (rs_jitter s) r (rs_cache s)) as CR.
  destruct (cache_add_eff now (rs_jitter s) r (rs_cache s)) as [[c' sg] ce]. cbn [snd] in CR.
  unfold resolver_report in *.
  destruct (negb (r_ttl r =? 0)%N && negb (existsb (addr_eqb (r_addr r)) (rs_addrs s))) eqn:Rp.
  - match goal with |- context [res_records now rs ?s1] => specialize (IH s1); destruct (res_records now rs s1) as [s2 e2] end.
    cbn [fst snd rs_name rs_addrs rs_active] in *. destruct IH as (I1 & I2 & I3 & I4).
    rewrite !reports_app, CR, I1, I2, <- app_assoc. cbn. auto.
  - match goal with |- context [res_records now rs ?s1] => specialize (IH s1); destruct (res_records now rs s1) as [s2 e2] end.
    cbn [fst snd rs_name rs_addrs rs_active] in *. destruct IH as (I1 & I2 & I3 & I4).
    rewrite !reports_app, CR, I1, I2. cbn. auto.
Qed.

(* the specification, read declaratively *)
Lemma spec_reports_sound name : forall rs acc a, In a (spec_reports name rs acc) ->
  ~ In a acc /\ exists r, In r rs /\ qualifies name r = true /\ r_addr r = a.
Proof.
  induction rs as [|r rs IH]; intros acc a; cbn [spec_reports]; [intros []|].
  destruct (qualifies name r && negb (existsb (addr_eqb (r_addr r)) acc)) eqn:Q.
  - apply andb_true_iff in Q as [Q1 Q2]. apply negb_true_iff in Q2. intros [<-|H].
    + split; [intro X; apply existsb_addr in X; congruence|]. exists r. split; [left; reflexivity|auto].
    + apply IH in H as [H1 (r' & H2 & H3 & H4)]. split; [intro X; apply H1, in_app_iff; left; exact X|].
      exists r'. split; [right; exact H2|auto].
  - intro H. apply IH in H as [H1 (r' & H2 & H3 & H4)]. split; [exact H1|]. exists r'. split; [right; exact H2|auto].
Qed.

Lemma spec_reports_complete name : forall rs acc r, In r rs -> qualifies name r = true ->
  In (r_addr r) (acc ++ spec_reports name rs acc).
Proof.
  induction rs as [|r0 rs IH]; intros acc r Hin Q; [destruct Hin|]. cbn [spec_reports].
  destruct (qualifies name r0 && negb (existsb (addr_eqb (r_addr r0)) acc)) eqn:Q0.
  - destruct Hin as [->|Hin].
    + apply in_app_iff. right. left. reflexivity.
    + specialize (IH (acc ++ [r_addr r0]) r Hin Q). rewrite <- app_assoc in IH. exact IH.
  - destruct Hin as [->|Hin]; [|apply IH; assumption].
    rewrite Q in Q0. cbn [andb] in Q0. apply negb_false_iff, existsb_addr in Q0. apply in_app_iff. left. exact Q0.
Qed.

Lemma NoDup_snoc {A} (l : list A) a : NoDup l -> ~ In a l -> NoDup (l ++ [a]).
Proof.
  induction l as [|x l IH]; intros H Hn; cbn [app]; [constructor; [intros []|constructor]|].
  inversion H as [|? ? H1 H2]; subst. constructor.
  - intro X. apply in_app_iff in X as [X|[X|[]]]; [contradiction|]. subst. apply Hn. left. reflexivity.
  - apply IH; [exact H2|]. intro X. apply Hn. right. exact X.
Qed.

Lemma spec_reports_nodup name : forall rs acc, NoDup acc -> NoDup (acc ++ spec_reports name rs acc).
Proof.
  induction rs as [|r rs IH]; intros acc H; cbn [spec_reports]; [rewrite app_nil_r; exact H|].
  destruct (qualifies name r && negb (existsb (addr_eqb (r_addr r)) acc)) eqn:Q; [|apply IH, H].
  apply andb_true_iff in Q as [_ Q]. apply negb_true_iff in Q.
  specialize (IH (acc ++ [r_addr r])). rewrite <- app_assoc in IH. apply IH.
  apply NoDup_snoc; [exact H|]. intro X. apply existsb_addr in X. congruence.
Qed.

(* ---- over the whole life of a resolver: ghost = the addresses reported because of responses since the resolver
   was (re)created; it always equals rs_addrs and never holds an address twice ---- *)
Definition ghost_step (g : list addr) (ev : event rapi) (es : list eff) : list addr :=
  match ev with
  | EvApi (RNew _) => []
  | EvMsg _ => g ++ reports es
  | _ => g
  end.

Definition RInv (s : resst) (g : list addr) : Prop := g = rs_addrs s /\ NoDup g.

Lemma res_handle_inv now s g ev :
  RInv s g -> RInv (fst (res_handle now s ev)) (ghost_step g ev (snd (res_handle now s ev))).
Proof.
  intros [-> ND]. unfold RInv. destruct ev as [m|tid|a]; cbn [res_handle ghost_step].
  - destruct (rs_active s && m_response m).
    + destruct (res_records_reports now (m_records m) s) as (R1 & R2 & _). rewrite R1, R2.
      split; [reflexivity|apply spec_reports_nodup, ND].
    + cbn. rewrite app_nil_r. split; [reflexivity|exact ND].
  - destruct (tid =? T_CACHE)%N.
    + destruct (cache_timeout_eff now (rs_cache s)) as [[c' sg] ce]. split; [reflexivity|exact ND].
    + split; [reflexivity|exact ND].
  - destruct a as [r j|name|j|n ty|]; cbn [fst snd rs_addrs].
    + destruct (cache_add_eff now j r (rs_cache s)) as [[c' sg] ce]. split; [reflexivity|exact ND].
    + split; [reflexivity|constructor].
    + split; [reflexivity|exact ND].
    + split; [reflexivity|exact ND].
    + split; [reflexivity|exact ND].
Qed.

(* any sequence of handler invocations, at any instants *)
Fixpoint res_life (evs : list (Z * event rapi)) (s : resst) (g : list addr) : resst * list addr :=
  match evs with
  | [] => (s, g)
  | (now, ev) :: evs' => res_life evs' (fst (res_handle now s ev)) (ghost_step g ev (snd (res_handle now s ev)))
  end.

Theorem res_life_inv : forall evs s g, RInv s g -> RInv (fst (res_life evs s g)) (snd (res_life evs s g)).
Proof.
  induction evs as [|[now ev] evs IH]; intros s g H; cbn [res_life]; [exact H|]. apply IH, res_handle_inv, H.
Qed.

(* the zero-delay report: exactly the addresses of the A and AAAA records the cache holds for the name *)
Lemma res_timer_reports now s :
  reports (snd (res_handle now s (EvTimer T_RES))) = map r_addr (existing s).
Proof.
  cbn [res_handle]. change (T_RES =? T_CACHE)%N with false. cbn [snd]. unfold reports.
  induction (existing s) as [|r l IH]; [reflexivity|]. cbn [map flat_map]. rewrite IH. reflexivity.
Qed.

(* kernel runs: the duplicate-freedom of everything reported because of responses holds after every script *)
Theorem res_run_nodup fuel ops :
  NoDup (rs_addrs (s_st (state_after resst rapi res_handle fuel (mkSim 0 [] 0%N (mkRes empty_cache 0 None false [])) ops))).
Proof.
  apply (run_P resst rapi res_handle (fun s => NoDup (rs_addrs s))); [|constructor].
  intros now st ev H. destruct (res_handle_inv now st (rs_addrs st) ev (conj eq_refl H)) as [E ND]. rewrite <- E. exact ND.
Qed.
