(* ProviderListener.v — C13 / C12 at run level: a passive listener that applies the RFC 6762 cache rules to the
   provider's multicast responses holds, after every handler invocation of every history, exactly the records the
   provider serves (and nothing once it is destroyed); and what it serves when nothing is pending is what was last
   requested. *)
From QV Require Import Base Fields SrcFacts Msg SrcDecisions Cache CacheSpec CacheProofs Sim Prober Hostname HostnameProofs HostnameInv Provider ProviderProofs.
From Coq Require Import ZifyBool ZifyNat ZifyN.
Local Open Scope Z_scope.

(* ---- the listener: RFC 6762 cache rules without expiry (TTLs of hours; the property speaks of quiescence) ---- *)
Definition listen1 (L : list record) (r : record) : list record :=
  filter (fun old => negb (spec_match r old)) L ++ (if (r_ttl r =? 0)%N then [] else [r]).
Definition listen_msg (L : list record) (m : message) : list record := fold_left listen1 (m_records m) L.
Fixpoint listen (L : list record) (es : list eff) : list record :=
  match es with
  | [] => L
  | ESendAll m :: es' => listen (if m_response m then listen_msg L m else L) es'
  | _ :: es' => listen L es'
  end.

Lemma listen_app L a b : listen L (a ++ b) = listen (listen L a) b.
Proof. revert L. induction a as [|e a IH]; intro L; cbn [app listen]; [reflexivity|]. destruct e; apply IH. Qed.

Lemma same_data_type a b : r_type a <> r_type b -> same_data a b = false.
Proof.
  intro H. unfold same_data, data_fields. cbn [forallb rfield_agree].
  replace (r_type a =? r_type b)%N with false by (symmetry; apply N.eqb_neq; exact H). rewrite andb_false_r. reflexivity.
Qed.
Lemma spec_match_type new old : r_type new <> r_type old -> spec_match new old = false.
Proof.
  intro H. unfold spec_match. rewrite same_data_type by congruence.
  replace (r_type old =? r_type new)%N with false by (symmetry; apply N.eqb_neq; congruence). rewrite andb_false_r. reflexivity.
Qed.
Lemma same_data_set_ttl t r : same_data r (set_ttl t r) = true.
Proof. rewrite <- (same_data_refl r) at 1. reflexivity. Qed.
Lemma spec_match_goodbye r : spec_match (set_ttl 0 r) r = true.
Proof. unfold spec_match. rewrite same_data_set_ttl. reflexivity. Qed.

(* the three records of an announcement *)
Definition Shape (ptr srv txt : record) : Prop :=
  r_type ptr = 12%N /\ r_type srv = 33%N /\ r_type txt = 16%N /\ r_flush ptr = false /\ r_flush srv = true /\ r_flush txt = true.
(* a PTR record carries nothing but name and target *)
Definition PlainPtr (r : record) : Prop :=
  r_addr r = ANull /\ r_next r = None /\ r_prio r = 0%N /\ r_weight r = 0%N /\ r_port r = 0%N /\ r_attrs r = [] /\ r_bitmap r = [].
Definition Live (ptr srv txt : record) : Prop := r_ttl ptr <> 0%N /\ r_ttl srv <> 0%N /\ r_ttl txt <> 0%N.

Lemma listen_goodbye ptr srv txt :
  Shape ptr srv txt ->
  listen_msg [ptr; srv; txt] (add_record (set_ttl 0 txt) (add_record (set_ttl 0 srv) (add_record (set_ttl 0 ptr) (set_response true default_message)))) = [].
Proof.
  intros (T1 & T2 & T3 & _). unfold listen_msg. cbn [m_records add_record set_response default_message app fold_left].
  unfold listen1 at 3. cbn [filter r_ttl set_ttl N.eqb app].
  rewrite spec_match_goodbye. rewrite !spec_match_type by (cbn [r_type set_ttl]; congruence). cbn [negb app].
  unfold listen1 at 2. cbn [filter r_ttl set_ttl N.eqb app].
  rewrite spec_match_goodbye. rewrite !spec_match_type by (cbn [r_type set_ttl]; congruence). cbn [negb app].
  unfold listen1. cbn [filter r_ttl set_ttl N.eqb app]. rewrite spec_match_goodbye. reflexivity.
Qed.

Lemma listen_announce_fresh ptr srv txt :
  Shape ptr srv txt -> Live ptr srv txt ->
  listen_msg [] (add_record txt (add_record srv (add_record ptr (set_response true default_message)))) = [ptr; srv; txt].
Proof.
  intros (T1 & T2 & T3 & _) (L1 & L2 & L3). unfold listen_msg. cbn [m_records add_record set_response default_message app fold_left].
  unfold listen1 at 3. cbn [filter app]. replace (r_ttl ptr =? 0)%N with false by (symmetry; apply N.eqb_neq; exact L1).
  unfold listen1 at 2. cbn [filter app]. rewrite spec_match_type by congruence. cbn [negb].
  replace (r_ttl srv =? 0)%N with false by (symmetry; apply N.eqb_neq; exact L2). cbn [app].
  unfold listen1. cbn [filter app]. rewrite !spec_match_type by congruence. cbn [negb].
  replace (r_ttl txt =? 0)%N with false by (symmetry; apply N.eqb_neq; exact L3). reflexivity.
Qed.

(* an announcement over the previous one: same PTR data, SRV and TXT under the same name (they carry the flush bit) *)
Lemma listen_announce_over ptr srv txt ptr' srv' txt' :
  Shape ptr srv txt -> Shape ptr' srv' txt' -> Live ptr' srv' txt' ->
  same_data ptr ptr' = true -> bs_eqb (r_name srv) (r_name srv') = true -> bs_eqb (r_name txt) (r_name txt') = true ->
  listen_msg [ptr; srv; txt] (add_record txt' (add_record srv' (add_record ptr' (set_response true default_message)))) = [ptr'; srv'; txt'].
Proof.
  intros (T1 & T2 & T3 & _) (U1 & U2 & U3 & F1 & F2 & F3) (L1 & L2 & L3) Sp Ns Nt.
  unfold listen_msg. cbn [m_records add_record set_response default_message app fold_left].
  assert (M1 : spec_match ptr' ptr = true) by (unfold spec_match; rewrite Sp; reflexivity).
  assert (M2 : spec_match srv' srv = true) by (unfold spec_match; rewrite F2, Ns, T2, U2; cbn; apply orb_true_r).
  assert (M3 : spec_match txt' txt = true) by (unfold spec_match; rewrite F3, Nt, T3, U3; cbn; apply orb_true_r).
  unfold listen1 at 3. cbn [filter app]. rewrite M1. rewrite !spec_match_type by congruence. cbn [negb].
  replace (r_ttl ptr' =? 0)%N with false by (symmetry; apply N.eqb_neq; exact L1). cbn [app].
  unfold listen1 at 2. cbn [filter app]. rewrite M2. rewrite !spec_match_type by congruence. cbn [negb].
  replace (r_ttl srv' =? 0)%N with false by (symmetry; apply N.eqb_neq; exact L2). cbn [app].
  unfold listen1. cbn [filter app]. rewrite M3. rewrite !spec_match_type by congruence. cbn [negb].
  replace (r_ttl txt' =? 0)%N with false by (symmetry; apply N.eqb_neq; exact L3). reflexivity.
Qed.

(* queries and unicast replies do not reach the listener's cache *)
Definition silent (es : list eff) : Prop := forall m, In (ESendAll m) es -> m_response m = false.
Lemma listen_silent L es : silent es -> listen L es = L.
Proof.
  revert L. induction es as [|e es IH]; intros L S; cbn [listen]; [reflexivity|].
  assert (S' : silent es) by (intros m H; apply S; right; exact H).
  destruct e as [m|m|ob sg p|tid ms|tid|rs]; try apply IH, S'.
  rewrite (S m (or_introl eq_refl)). apply IH, S'.
Qed.
Lemma silent_nil : silent [].
Proof. intros m []. Qed.
Lemma silent_app a b : silent a -> silent b -> silent (a ++ b).
Proof. intros A B m H. apply in_app_iff in H as [H|H]; auto. Qed.

(* ---- instance names: a dot-free label, a dot, the service type ---- *)
Definition dotfree (x : bytes) : Prop := ~ In DOT x.
Lemma split_unique : forall x y a b, dotfree x -> dotfree y -> x ++ DOT :: a = y ++ DOT :: b -> x = y /\ a = b.
Proof.
  induction x as [|c x IH]; intros [|d y] a b Hx Hy E; cbn [app] in E.
  - injection E as <-. auto.
  - injection E as <- _. exfalso. apply Hy. left. reflexivity.
  - injection E as -> _. exfalso. apply Hx. left. reflexivity.
  - injection E as <- E. destruct (IH y a b) as [-> ->]; auto.
    + intro H. apply Hx. right. exact H.
    + intro H. apply Hy. right. exact H.
Qed.
Lemma replace_dotfree l : dotfree (replace_byte DOT DASH l).
Proof.
  induction l as [|c l IH]; cbn [replace_byte]; [intros []|]. intros [H|H]; [|exact (IH H)].
  destruct (c =? DOT)%N eqn:E; [discriminate|]. apply N.eqb_neq in E. congruence.
Qed.
Lemma dec_digits_ok : forall fuel n acc, Forall (fun c => c <> DOT) acc -> Forall (fun c => c <> DOT) (dec_digits fuel n acc).
Proof.
  induction fuel as [|f IH]; intros n acc H; cbn [dec_digits]; [exact H|].
  assert (H' : Forall (fun c => c <> DOT) ((48 + n mod 10)%N :: acc)).
  { constructor; [|exact H]. unfold DOT. pose proof (N.mod_upper_bound n 10 ltac:(discriminate)). lia. }
  destruct (n / 10 =? 0)%N; [exact H'|apply IH, H'].
Qed.
Lemma dec_dotfree k : dotfree (dec_of_N k).
Proof.
  unfold dotfree, dec_of_N. intro H. pose proof (dec_digits_ok (S (N.to_nat (N.log2 k))) k [] (Forall_nil _)) as F.
  rewrite Forall_forall in F. exact (F _ H eq_refl).
Qed.
Lemma dotfree_app a b : dotfree a -> dotfree b -> dotfree (a ++ b).
Proof. intros A B H. apply in_app_iff in H as [H|H]; auto. Qed.
Lemma index_of_dotfree x a : dotfree x -> index_of DOT (x ++ DOT :: a) = Some (length x).
Proof.
  induction x as [|c x IH]; intro H; cbn [app index_of length]; [rewrite N.eqb_refl; reflexivity|].
  destruct (c =? DOT)%N eqn:E; [apply N.eqb_eq in E; exfalso; apply H; left; exact E|].
  rewrite IH; [reflexivity|]. intro X. apply H. right. exact X.
Qed.

(* candidate names keep the shape *)
Lemma candidate_shape x ty k : dotfree x -> exists x', dotfree x' /\ candidate x (DOT :: ty) k = x' ++ DOT :: ty.
Proof.
  intro H. unfold candidate. destruct (k =? 1)%N; [exists x; auto|].
  exists (x ++ [DASH] ++ dec_of_N k). split; [|rewrite <- !app_assoc; reflexivity].
  apply dotfree_app; [exact H|]. apply dotfree_app; [|apply dec_dotfree]. intros [E|[]]. discriminate.
Qed.

(* the prober splits the proposed name at its first dot *)
Lemma prober_new_split r x ty : dotfree x -> r_name r = Some (x ++ DOT :: ty) ->
  pb_base (fst (prober_new r)) = x /\ pb_tail (fst (prober_new r)) = DOT :: ty /\ pb_suffix (fst (prober_new r)) = 1%N /\
  r_name (pb_proposed (fst (prober_new r))) = Some (x ++ DOT :: ty).
Proof.
  intros H E. unfold prober_new. rewrite E. cbn [bs_data]. rewrite (index_of_dotfree x ty H).
  rewrite firstn_app, Nat.sub_diag, firstn_all, app_nil_r.
  replace (skipn (length x) (x ++ DOT :: ty)) with (DOT :: ty) by (rewrite skipn_app, Nat.sub_diag, skipn_all; reflexivity).
  cbn. repeat split.
Qed.

(* ---- the invariant ---- *)
Definition Named (ptr srv txt : record) : Prop :=
  r_target ptr = r_name srv /\ r_name txt = r_name srv /\
  exists x, dotfree x /\ r_name srv = Some (x ++ DOT :: bs_data (r_name ptr)).

Definition PbRel (pb : prober) (p : provst) : Prop :=
  dotfree (pb_base pb) /\ pb_tail pb = DOT :: bs_data (r_name (pv_ptrP p)) /\
  r_name (pb_proposed pb) = Some (candidate (pb_base pb) (pb_tail pb) (pb_suffix pb)) /\
  r_name (pv_srvP p) = Some (pb_base pb ++ pb_tail pb).

Record CInv (c : comp) (L : list record) : Prop := {
  ci_host : h_name (cp_host c) <> [];
  ci_pshape : pv_exists (cp_prov c) = true ->
              Shape (pv_ptrP (cp_prov c)) (pv_srvP (cp_prov c)) (pv_txtP (cp_prov c)) /\
              Live (pv_ptrP (cp_prov c)) (pv_srvP (cp_prov c)) (pv_txtP (cp_prov c)) /\ PlainPtr (pv_ptrP (cp_prov c));
  ci_pnamed : pv_initialized (cp_prov c) = true -> Named (pv_ptrP (cp_prov c)) (pv_srvP (cp_prov c)) (pv_txtP (cp_prov c));
  ci_served : pv_exists (cp_prov c) = true -> pv_confirmed (cp_prov c) = true ->
              Shape (pv_ptr (cp_prov c)) (pv_srv (cp_prov c)) (pv_txt (cp_prov c)) /\
              Live (pv_ptr (cp_prov c)) (pv_srv (cp_prov c)) (pv_txt (cp_prov c)) /\
              Named (pv_ptr (cp_prov c)) (pv_srv (cp_prov c)) (pv_txt (cp_prov c)) /\ PlainPtr (pv_ptr (cp_prov c)) /\
              L = [pv_ptr (cp_prov c); pv_srv (cp_prov c); pv_txt (cp_prov c)];
  ci_unserved : pv_exists (cp_prov c) && pv_confirmed (cp_prov c) = false -> L = [];
  ci_prober : forall pb, cp_prober c = Some pb ->
              pv_exists (cp_prov c) = true /\ pv_initialized (cp_prov c) = true /\ PbRel pb (cp_prov c) /\
              bs_data (r_target (pv_srvP (cp_prov c))) <> [];
  ci_conf_init : pv_confirmed (cp_prov c) = true -> pv_initialized (cp_prov c) = true }.

(* farewell and publish *)
Lemma farewell_listen p :
  Shape (pv_ptr p) (pv_srv p) (pv_txt p) ->
  listen [pv_ptr p; pv_srv p; pv_txt p] (snd (farewell p)) = [].
Proof. intro S. unfold farewell. cbn [snd listen announce_msg set_published pv_ptr pv_srv pv_txt set_response m_response]. apply listen_goodbye, S. Qed.

Lemma publish_listen_fresh p :
  Shape (pv_ptrP p) (pv_srvP p) (pv_txtP p) -> Live (pv_ptrP p) (pv_srvP p) (pv_txtP p) ->
  listen [] (snd (publish p)) = [pv_ptrP p; pv_srvP p; pv_txtP p].
Proof. intros S Lv. unfold publish. cbn [snd listen announce_msg set_published pv_ptr pv_srv pv_txt set_response m_response]. apply listen_announce_fresh; assumption. Qed.

Lemma farewell_state p : let p' := fst (farewell p) in
  pv_exists p' = pv_exists p /\ pv_initialized p' = pv_initialized p /\ pv_confirmed p' = pv_confirmed p /\
  pv_ptrP p' = pv_ptrP p /\ pv_srvP p' = pv_srvP p /\ pv_txtP p' = pv_txtP p /\ pv_browseP p' = pv_browseP p.
Proof. cbn. repeat split. Qed.
Lemma publish_state p : let p' := fst (publish p) in
  pv_exists p' = pv_exists p /\ pv_initialized p' = pv_initialized p /\ pv_confirmed p' = pv_confirmed p /\
  pv_ptrP p' = pv_ptrP p /\ pv_srvP p' = pv_srvP p /\ pv_txtP p' = pv_txtP p /\
  pv_ptr p' = pv_ptrP p /\ pv_srv p' = pv_srvP p /\ pv_txt p' = pv_txtP p.
Proof. cbn. repeat split. Qed.

(* the prober's own traffic is questions only *)
Lemma assert_record_silent pb : silent (snd (assert_record pb)).
Proof. unfold assert_record. cbn [snd]. intros m [H|[H|[H|[]]]]; try discriminate. injection H as <-. reflexivity. Qed.
Lemma prober_new_silent r : silent (snd (prober_new r)).
Proof. unfold prober_new. destruct (match index_of DOT (bs_data (r_name r)) with Some i => _ | None => _ end) as [base tail]. apply assert_record_silent. Qed.
Lemma confirm_silent p pb : silent (snd (confirm p pb)).
Proof.
  unfold confirm. pose proof (prober_new_silent (pv_srvP p)) as S. destruct (prober_new (pv_srvP p)) as [pb' es]. cbn [snd] in *.
  apply silent_app; [destruct pb; [intros m [H|[]]; discriminate|intros m []]|exact S].
Qed.
Lemma on_records_silent : forall rs pb, silent (snd (on_records rs pb)).
Proof.
  induction rs as [|r rs IH]; intro pb; cbn [on_records]; [apply silent_nil|].
  destruct (prober_conflict r (pb_proposed pb)); [|apply IH].
  match goal with |- context [assert_record ?q] => pose proof (assert_record_silent q) as A; destruct (assert_record q) as [p1 e1] end.
  specialize (IH p1). destruct (on_records rs p1) as [p2 e2]. cbn [snd] in *. apply silent_app; assumption.
Qed.
Lemma on_records_rel : forall rs pb p, PbRel pb p -> PbRel (fst (on_records rs pb)) p.
Proof.
  induction rs as [|r rs IH]; intros pb p R; cbn [on_records]; [exact R|].
  destruct (prober_conflict r (pb_proposed pb)); [|apply IH, R].
  match goal with |- context [assert_record ?q] => assert (R1 : PbRel (fst (assert_record q)) p) end.
  { destruct R as (A & B & C & D). unfold assert_record, PbRel. cbn. repeat split; assumption. }
  destruct (assert_record _) as [p1 e1]. specialize (IH p1 p R1). destruct (on_records rs p1) as [p2 e2]. exact IH.
Qed.

(* the hostname object's own traffic: questions (multicast) and unicast replies; its change notifications carry a name *)
Lemma assert_hostname_silent h : silent (snd (assert_hostname h)).
Proof. unfold assert_hostname. cbn [snd]. intros m [H|[H|[]]]; [|discriminate]. injection H as <-. reflexivity. Qed.
Lemma host_records_silent : forall rs h, silent (snd (host_records rs h)).
Proof.
  induction rs as [|r rs IH]; intro h; cbn [host_records]; [apply silent_nil|].
  destruct (hostname_conflict r (h_name h)); [|apply IH].
  match goal with |- context [assert_hostname ?q] => pose proof (assert_hostname_silent q) as A; destruct (assert_hostname q) as [h1 e1] end.
  specialize (IH h1). destruct (host_records rs h1) as [h2 e2]. cbn [snd] in *. apply silent_app; assumption.
Qed.
Lemma host_handle_silent now h ev : silent (snd (host_handle now h ev)).
Proof.
  destruct ev as [m|tid|a]; cbn [host_handle].
  - destruct (m_response m).
    + destruct (h_reg h); [apply silent_nil|apply host_records_silent].
    + destruct (negb (h_reg h)); [apply silent_nil|]. destruct (host_answers h (m_addr m) (m_queries m)); [apply silent_nil|].
      intros m0 [H|[]]. discriminate.
  - destruct (tid =? T_REG)%N.
    + cbn [snd]. intros m H. apply in_app_iff in H as [H|[H|[]]]; [|discriminate].
      rewrite ?host_announce_old in *. destruct (bytes_eqb (h_name h) (h_prev h)); [destruct H|destruct H as [H|[]]; discriminate].
    + apply assert_hostname_silent.
  - apply silent_nil.
Qed.
Lemma host_records_name : forall rs h, h_name h <> [] -> h_name (fst (host_records rs h)) <> [].
Proof.
  induction rs as [|r rs IH]; intros h H; cbn [host_records]; [exact H|].
  destruct (hostname_conflict r (h_name h)); [|apply IH, H]. unfold assert_hostname.
  match goal with |- context [host_records rs ?h1] => specialize (IH h1); destruct (host_records rs h1) as [h2 e2] end.
  apply IH. cbn [h_name set_host h_local h_suffix]. apply candidate_nonempty.
Qed.
Lemma host_handle_name now h ev : h_name h <> [] -> h_name (fst (host_handle now h ev)) <> [].
Proof.
  intro H. destruct ev as [m|tid|a]; cbn [host_handle].
  - destruct (m_response m).
    + destruct (h_reg h); [exact H|apply host_records_name, H].
    + destruct (negb (h_reg h)); [exact H|]. destruct (host_answers h (m_addr m) (m_queries m)); exact H.
  - destruct (tid =? T_REG)%N; [exact H|]. unfold on_rebroadcast, assert_hostname. cbn [fst h_name set_host h_local h_suffix].
    apply candidate_nonempty.
  - exact H.
Qed.
Definition sig_names_ok (es : list eff) : Prop :=
  forall ob sg n, In (ESig ob sg (PBytes (Some n))) es -> (sg =? SIG_hostnameChanged)%N = true -> n <> [].
Lemma host_handle_sigs now h ev : h_name h <> [] -> sig_names_ok (snd (host_handle now h ev)).
Proof.
  intros H ob sg n Hin _. destruct ev as [m|tid|a]; cbn [host_handle] in Hin.
  - destruct (m_response m).
    + destruct (h_reg h); [destruct Hin|]. exfalso. revert Hin. generalize h. induction (m_records m) as [|r rs IH]; intros h0; cbn [host_records]; [intros []|].
      destruct (hostname_conflict r (h_name h0)); [|apply IH]. unfold assert_hostname.
      match goal with |- context [host_records rs ?h1] => specialize (IH h1); destruct (host_records rs h1) as [h2 e2] end.
      cbn [snd] in *. intro X. apply in_app_iff in X as [[X|[X|[]]]|X]; try discriminate. exact (IH X).
    + destruct (negb (h_reg h)); [destruct Hin|]. destruct (host_answers h (m_addr m) (m_queries m)); [destruct Hin|]. destruct Hin as [X|[]]. discriminate.
  - destruct (tid =? T_REG)%N.
    + cbn [snd] in Hin. apply in_app_iff in Hin as [Hin|[Hin|[]]]; [|discriminate].
      rewrite ?host_announce_old in *. destruct (bytes_eqb (h_name h) (h_prev h)); [destruct Hin|]. destruct Hin as [X|[]]. injection X as _ _ <-. exact H.
    + unfold on_rebroadcast, assert_hostname in Hin. cbn in Hin. destruct Hin as [X|[X|[]]]; discriminate.
  - destruct Hin.
Qed.

(* ---- Prober::nameConfirmed -> the provider's lambda ---- *)
Lemma on_name_confirmed_inv c L pb :
  CInv c L -> cp_prober c = Some pb ->
  let '(p', es) := on_name_confirmed (r_name (pb_proposed pb)) (cp_prov c) in
  CInv (mkComp (cp_host c) p' None) (listen L es).
Proof.
  intros I Hpb. destruct I as [Ih Psh Pn Sv Un Pr Ci].
  destruct (Pr pb Hpb) as (Ex & In_ & (B1 & B2 & B3 & B4) & Tg). specialize (Pn In_). destruct (Psh Ex) as (Ps & Pl & Pp).
  set (p := cp_prov c) in *.
  destruct (candidate_shape (pb_base pb) (bs_data (r_name (pv_ptrP p))) (pb_suffix pb) B1) as (x' & Dx & Ec). rewrite <- B2 in Ec.
  rewrite B3. set (name := Some (candidate (pb_base pb) (pb_tail pb) (pb_suffix pb))).
  unfold on_name_confirmed.
  assert (F : let '(p1, e1) := (if pv_confirmed p then farewell p else (set_prov p (pv_initialized p) true, [])) in
              pv_exists p1 = true /\ pv_initialized p1 = true /\ pv_confirmed p1 = true /\
              pv_ptrP p1 = pv_ptrP p /\ pv_srvP p1 = pv_srvP p /\ pv_txtP p1 = pv_txtP p /\ listen L e1 = []).
  { destruct (pv_confirmed p) eqn:Cf.
    - destruct (Sv Ex eq_refl) as (S1 & _ & _ & _ & ->). cbn [farewell fst snd set_published pv_exists pv_initialized pv_confirmed pv_ptrP pv_srvP pv_txtP].
      repeat split; auto. apply (farewell_listen p S1).
    - cbn. repeat split; auto. apply Un. apply andb_false_r. }
  destruct (if pv_confirmed p then farewell p else (set_prov p (pv_initialized p) true, [])) as [p1 e1].
  destruct F as (F1 & F2 & F3 & F4 & F5 & F6 & F7).
  set (p2 := set_proposed p1 (pv_browseP p1) (set_target name (pv_ptrP p1)) (set_name name (pv_srvP p1)) (set_name name (pv_txtP p1))).
  assert (S2 : Shape (pv_ptrP p2) (pv_srvP p2) (pv_txtP p2)) by (unfold p2; cbn; rewrite F4, F5, F6; exact Ps).
  assert (L2 : Live (pv_ptrP p2) (pv_srvP p2) (pv_txtP p2)) by (unfold p2; cbn; rewrite F4, F5, F6; exact Pl).
  assert (N2 : Named (pv_ptrP p2) (pv_srvP p2) (pv_txtP p2)).
  { unfold p2, Named. cbn. split; [reflexivity|]. split; [reflexivity|]. exists x'. split; [exact Dx|]. rewrite F4. unfold name. rewrite Ec, B2. reflexivity. }
  assert (Q2 : PlainPtr (pv_ptrP p2)) by (unfold p2; cbn; rewrite F4; exact Pp).
  pose proof (publish_listen_fresh p2 S2 L2) as PL. pose proof (publish_state p2) as PS.
  destruct (publish p2) as [p3 e3]. cbn [fst snd] in *. destruct PS as (X1 & X2 & X3 & X4 & X5 & X6 & X7 & X8 & X9).
  assert (E2 : pv_exists p2 = true /\ pv_initialized p2 = true /\ pv_confirmed p2 = true) by (unfold p2; cbn; auto).
  destruct E2 as (E21 & E22 & E23).
  constructor; cbn [cp_host cp_prov cp_prober set_proposed pv_exists pv_initialized pv_confirmed pv_ptrP pv_srvP pv_txtP pv_ptr pv_srv pv_txt].
  - exact Ih.
  - intros _. rewrite F4, F5, F6. auto.
  - intros _. rewrite F4, F5, F6. exact Pn.
  - intros _ _. rewrite X7, X8, X9. repeat split; try apply S2; try apply L2; try apply N2; try apply Q2.
    rewrite listen_app, F7. exact PL.
  - rewrite X1, X3, E21, E23. discriminate.
  - discriminate.
  - intros _. rewrite X2. exact E22.
Qed.

(* ---- ProviderPrivate::onHostnameChanged ---- *)
Lemma hostname_changed_inv c L n :
  CInv c L -> n <> [] ->
  CInv (fst (prov_on_hostname_changed c n)) (listen L (snd (prov_on_hostname_changed c n))) /\
  cp_host (fst (prov_on_hostname_changed c n)) = cp_host c.
Proof.
  intros I Hn. unfold prov_on_hostname_changed.
  destruct (negb (pv_exists (cp_prov c))) eqn:Ex; [cbn; auto|]. apply negb_false_iff in Ex.
  destruct I as [Ih Psh Pn Sv Un Pr Ci]. destruct (Psh Ex) as (Ps & Pl & Pp). set (p := cp_prov c) in *.
  set (p1 := set_proposed p (pv_browseP p) (pv_ptrP p) (set_target (Some n) (pv_srvP p)) (pv_txtP p)).
  destruct (pv_initialized p1) eqn:In1.
  - (* re-probe the served name with the new target *)
    assert (In_ : pv_initialized p = true) by exact In1. specialize (Pn In_).
    destruct Pn as (N1 & N2 & x & Dx & N3).
    pose proof (confirm_silent p1 (cp_prober c)) as CS. unfold confirm in *.
    pose proof (prober_new_split (pv_srvP p1) x (bs_data (r_name (pv_ptrP p))) Dx ltac:(exact N3)) as (Q1 & Q2 & Q3 & Q4).
    destruct (prober_new (pv_srvP p1)) as [pb' es]. cbn [fst snd] in *.
    split; [|reflexivity]. rewrite (listen_silent L _ CS).
    constructor; cbn [cp_host cp_prov cp_prober].
    + exact Ih.
    + intros _. repeat split; try apply Ps; try apply Pl; apply Pp.
    + intros _. split; [exact N1|]. split; [exact N2|]. exists x. auto.
    + exact Sv.
    + exact Un.
    + intros pb0 E. injection E as <-. split; [exact Ex|]. split; [exact In_|]. split; [|cbn; exact Hn].
      unfold PbRel. cbn [pv_ptrP pv_srvP p1 set_proposed]. rewrite Q1, Q2, Q3. repeat split; auto.
    + exact Ci.
  - split; [|reflexivity]. cbn [fst snd listen].
    assert (Np : cp_prober c = None).
    { destruct (cp_prober c) as [pb|] eqn:E; [|reflexivity]. destruct (Pr pb eq_refl) as (_ & X & _). unfold p1 in In1. cbn in In1. congruence. }
    constructor; cbn [cp_host cp_prov cp_prober].
    + exact Ih.
    + intros _. repeat split; try apply Ps; try apply Pl; apply Pp.
    + intro X. congruence.
    + exact Sv.
    + exact Un.
    + rewrite Np. discriminate.
    + exact Ci.
Qed.

(* the hostname object's effects with the provider's slot run at each change notification *)
Lemma with_slot_inv : forall es c L,
  CInv c L -> silent es -> sig_names_ok es ->
  CInv (fst (with_hostname_slot c es)) (listen L (snd (with_hostname_slot c es))) /\
  cp_host (fst (with_hostname_slot c es)) = cp_host c.
Proof.
  induction es as [|e es IH]; intros c L I S N; cbn [with_hostname_slot]; [cbn; auto|].
  assert (S' : silent es) by (intros m H; apply S; right; exact H).
  assert (N' : sig_names_ok es) by (intros ob sg n H; apply (N ob sg n); right; exact H).
  assert (Generic : forall c0 L0, CInv c0 L0 -> listen L0 [e] = L0 ->
            CInv (fst (let '(c2, e2) := with_hostname_slot c0 es in (c2, e :: e2)))
                 (listen L0 (snd (let '(c2, e2) := with_hostname_slot c0 es in (c2, e :: e2)))) /\
            cp_host (fst (let '(c2, e2) := with_hostname_slot c0 es in (c2, e :: e2))) = cp_host c0).
  { intros c0 L0 I0 E0. destruct (IH c0 L0 I0 S' N') as [J1 J2]. destruct (with_hostname_slot c0 es) as [c2 e2]. cbn [fst snd] in *.
    split; [|exact J2]. change (e :: e2) with ([e] ++ e2). rewrite listen_app, E0. exact J1. }
  assert (E1 : listen L [e] = L).
  { apply listen_silent. intros m [H|[]]. apply S. left. exact H. }
  destruct e as [m|m|ob sg p|tid ms|tid|rs]; try (apply Generic; assumption).
  destruct p as [|b|sv|a|r]; try (apply Generic; assumption).
  destruct b as [n|]; [|apply Generic; assumption].
  destruct (sg =? SIG_hostnameChanged)%N eqn:E; [|apply Generic; assumption].
  assert (Hn : n <> []) by (apply (N ob sg n); [left; reflexivity|exact E]).
  destruct (hostname_changed_inv c L n I Hn) as [K1 K2].
  destruct (prov_on_hostname_changed c n) as [c1 e1]. cbn [fst snd] in *.
  destruct (IH c1 (listen L e1) K1 S' N') as [J1 J2]. destruct (with_hostname_slot c1 es) as [c2 e2]. cbn [fst snd] in *.
  split; [|congruence]. cbn [listen]. rewrite listen_app. exact J1.
Qed.

(* ---- Provider::update ---- *)
Lemma prov_update_inv c s L :
  CInv c L -> pv_exists (cp_prov c) = true ->
  CInv (fst (prov_update c s)) (listen L (snd (prov_update c s))).
Proof.
  intros I Ex. destruct I as [Ih Psh Pn Sv Un Pr Ci]. destruct (Psh Ex) as (Ps & Pl & Pp). rewrite prov_update_eq. unfold prov_update_old.
  set (p := set_prov (cp_prov c) true (pv_confirmed (cp_prov c))).
  set (sname := replace_byte DOT DASH (bs_data (s_name s))).
  set (fq := sname ++ [DOT] ++ bs_data (s_type s)).
  set (p1 := set_proposed p _ _ _ _).
  assert (Dn : dotfree sname) by apply replace_dotfree.
  assert (Hp1 : pv_exists p1 = true /\ pv_initialized p1 = true /\ pv_confirmed p1 = pv_confirmed (cp_prov c) /\
                pv_ptr p1 = pv_ptr (cp_prov c) /\ pv_srv p1 = pv_srv (cp_prov c) /\ pv_txt p1 = pv_txt (cp_prov c))
    by (unfold p1, p; cbn; repeat split; auto).
  destruct Hp1 as (E1 & E2 & E3 & E4 & E5 & E6).
  assert (S1 : Shape (pv_ptrP p1) (pv_srvP p1) (pv_txtP p1)).
  { destruct Ps as (A & B & C & D & E & F). unfold p1, p, Shape. cbn [pv_ptrP pv_srvP pv_txtP set_proposed set_prov].
    destruct (h_reg (cp_host c)); cbn; repeat split; assumption. }
  assert (L1 : Live (pv_ptrP p1) (pv_srvP p1) (pv_txtP p1)).
  { destruct Pl as (A & B & C). unfold p1, p, Live. cbn [pv_ptrP pv_srvP pv_txtP set_proposed set_prov]. destruct (h_reg (cp_host c)); cbn; repeat split; assumption. }
  assert (Q1 : PlainPtr (pv_ptrP p1)) by (unfold p1, p; cbn; exact Pp).
  assert (Nm : r_name (pv_srvP p1) = Some fq /\ r_name (pv_ptrP p1) = s_type s /\ r_target (pv_ptrP p1) = Some fq /\ r_name (pv_txtP p1) = Some fq).
  { unfold p1, p. cbn [pv_ptrP pv_srvP pv_txtP set_proposed set_prov]. destruct (h_reg (cp_host c)); cbn; repeat split; reflexivity. }
  destruct Nm as (Nm1 & Nm2 & Nm3 & Nm4).
  assert (N1 : Named (pv_ptrP p1) (pv_srvP p1) (pv_txtP p1)).
  { unfold Named. rewrite Nm1, Nm2, Nm3, Nm4. split; [reflexivity|]. split; [reflexivity|]. exists sname. split; [exact Dn|reflexivity]. }
  assert (Tg : forall pb, cp_prober c = Some pb -> bs_data (r_target (pv_srvP p1)) <> []).
  { intros pb E. destruct (Pr pb E) as (_ & _ & _ & T). unfold p1, p. cbn [pv_srvP set_proposed set_prov].
    destruct (h_reg (cp_host c)); cbn; [exact Ih|exact T]. }
  destruct (negb (match bs_data (r_target (pv_srvP p1)) with [] => true | _ :: _ => false end)) eqn:TgE.
  2:{ (* no registered hostname yet: nothing happens, and no probe can be pending *)
      assert (Np : cp_prober c = None).
      { destruct (cp_prober c) as [pb|] eqn:E; [|reflexivity]. specialize (Tg pb eq_refl).
        destruct (bs_data (r_target (pv_srvP p1))); [congruence|discriminate]. }
      cbn [fst snd listen]. constructor; cbn [cp_host cp_prov cp_prober].
      - exact Ih.
      - intros _. auto.
      - intros _. exact N1.
      - rewrite E3, E4, E5, E6. intros _. exact (Sv Ex).
      - rewrite E1, E3. rewrite Ex in Un. exact Un.
      - rewrite Np. discriminate.
      - intros _. exact E2. }
  assert (TgN : bs_data (r_target (pv_srvP p1)) <> []) by (destruct (bs_data (r_target (pv_srvP p1))); [discriminate|discriminate]).
  destruct (negb (pv_confirmed p1) || negb (bs_eqb (Some fq) (r_name (pv_srv p1)))) eqn:Br.
  - (* a new name (or not yet confirmed): probe it *)
    pose proof (confirm_silent p1 (cp_prober c)) as CS. unfold confirm in *.
    pose proof (prober_new_split (pv_srvP p1) sname (bs_data (s_type s)) Dn ltac:(rewrite Nm1; reflexivity)) as (B1 & B2 & B3 & B4).
    destruct (prober_new (pv_srvP p1)) as [pb' es]. cbn [fst snd] in *. rewrite (listen_silent L _ CS).
    constructor; cbn [cp_host cp_prov cp_prober].
    + exact Ih.
    + intros _. auto.
    + intros _. exact N1.
    + rewrite E3, E4, E5, E6. intros _. exact (Sv Ex).
    + rewrite E1, E3. rewrite Ex in Un. exact Un.
    + intros pb0 E. injection E as <-. split; [exact E1|]. split; [exact E2|]. split; [|exact TgN].
      unfold PbRel. rewrite B1, B2, B3, Nm2. repeat split; auto; rewrite B4; unfold candidate; reflexivity.
    + intros _. exact E2.
  - apply orb_false_iff in Br as [Cf Sn]. apply negb_false_iff in Cf, Sn. rewrite E3 in Cf.
    destruct (Sv Ex Cf) as (Sp & Lp & (Np1 & Np2 & xo & Dxo & Np3) & Pq & ->).
    (* the served name equals the requested one: same label, same type *)
    rewrite E5 in Sn. rewrite Np3 in Sn. unfold bs_eqb in Sn. cbn [bs_data] in Sn. apply bytes_eqb_eq in Sn.
    unfold fq in Sn. change ([DOT] ++ bs_data (s_type s)) with (DOT :: bs_data (s_type s)) in Sn.
    destruct (split_unique _ _ _ _ Dn Dxo Sn) as [Ex1 Ety].
    destruct (match cp_prober c with Some pb => bytes_eqb (pb_base pb ++ pb_tail pb) fq | None => false end) eqn:Pend.
    + (* a probe for this very name is pending: leave it *)
      destruct (cp_prober c) as [pb|] eqn:Epb; [|discriminate]. apply bytes_eqb_eq in Pend.
      destruct (Pr pb eq_refl) as (_ & _ & (B1 & B2 & B3 & B4) & _).
      cbn [fst snd listen]. constructor; cbn [cp_host cp_prov cp_prober].
      * exact Ih.
      * intros _. auto.
      * intros _. exact N1.
      * intros _ _. rewrite E4, E5, E6. repeat split; try apply Sp; try apply Lp; try apply Pq; auto. exists xo. auto.
      * rewrite E1, E3, Cf. discriminate.
      * intros pb0 E. injection E as <-. split; [exact E1|]. split; [exact E2|]. split; [|exact TgN].
        unfold PbRel. rewrite Nm1, Nm2. split; [exact B1|]. split; [|split; [exact B3|rewrite Pend; reflexivity]].
        rewrite B2 in Pend. unfold fq in Pend. change ([DOT] ++ bs_data (s_type s)) with (DOT :: bs_data (s_type s)) in Pend.
        destruct (split_unique _ _ _ _ B1 Dn Pend) as [_ Et]. rewrite B2, Et. reflexivity.
      * intros _. exact E2.
    + (* publish directly (after withdrawing records that point at a previous hostname) *)
      assert (SD : same_data (pv_ptr (cp_prov c)) (pv_ptrP p1) = true).
      { destruct Pq as (A1 & A2 & A3 & A4 & A5 & A6 & A7). destruct Q1 as (C1 & C2 & C3 & C4 & C5 & C6 & C7).
        destruct Sp as (T1 & _). destruct S1 as (U1 & _).
        unfold same_data, data_fields. cbn [forallb rfield_agree].
        rewrite A1, A2, A3, A4, A5, A6, A7, C1, C2, C3, C4, C5, C6, C7, T1, U1, Nm2, Nm3, Np1, Np3.
        unfold bs_eqb. cbn [bs_data addr_eqb attrs_eqb bytes_eqb N.eqb]. rewrite <- Ety, <- Ex1.
        unfold fq. change ([DOT] ++ bs_data (s_type s)) with (DOT :: bs_data (s_type s)). rewrite !bytes_eqb_refl. reflexivity. }
      assert (X : let '(p2, e2) := (if bs_eqb (r_target (pv_srvP p1)) (r_target (pv_srv p1)) then (p1, []) else farewell p1) in
                  pv_ptrP p2 = pv_ptrP p1 /\ pv_srvP p2 = pv_srvP p1 /\ pv_txtP p2 = pv_txtP p1 /\
                  pv_exists p2 = true /\ pv_initialized p2 = true /\ pv_confirmed p2 = true /\
                  listen (listen [pv_ptr (cp_prov c); pv_srv (cp_prov c); pv_txt (cp_prov c)] e2) (snd (publish p2)) = [pv_ptrP p1; pv_srvP p1; pv_txtP p1]).
      { destruct (bs_eqb (r_target (pv_srvP p1)) (r_target (pv_srv p1))).
        - split; [reflexivity|]. split; [reflexivity|]. split; [reflexivity|]. split; [exact E1|]. split; [exact E2|]. split; [congruence|].
          cbn [listen]. unfold publish.
          cbn [snd listen announce_msg set_published pv_ptr pv_srv pv_txt set_response m_response].
          apply listen_announce_over; try assumption.
          + rewrite Nm1, Np3. unfold bs_eqb. cbn [bs_data]. rewrite <- Sn. apply bytes_eqb_refl.
          + rewrite Nm4, Np2, Np3. unfold bs_eqb. cbn [bs_data]. rewrite <- Sn. apply bytes_eqb_refl.
        - pose proof (farewell_state p1) as FS. cbv zeta in FS. destruct FS as (F1 & F2 & F3 & F4 & F5 & F6 & _).
          change (farewell p1) with (fst (farewell p1), snd (farewell p1)). cbv iota beta.
          split; [exact F4|]. split; [exact F5|]. split; [exact F6|]. split; [congruence|]. split; [congruence|]. split; [congruence|].
          rewrite <- E4, <- E5, <- E6. rewrite (farewell_listen p1) by (rewrite E4, E5, E6; exact Sp).
          rewrite <- F4, <- F5, <- F6. apply publish_listen_fresh; rewrite F4, F5, F6; assumption. }
      destruct (if bs_eqb (r_target (pv_srvP p1)) (r_target (pv_srv p1)) then (p1, []) else farewell p1) as [p2 e2].
      destruct X as (X1 & X2 & X3 & X4 & X5 & X6 & X7).
      pose proof (publish_state p2) as PS. destruct (publish p2) as [p3 e3]. cbn [fst snd] in *.
      destruct PS as (Y1 & Y2 & Y3 & Y4 & Y5 & Y6 & Y7 & Y8 & Y9).
      assert (EL : listen [pv_ptr (cp_prov c); pv_srv (cp_prov c); pv_txt (cp_prov c)]
                          ((match cp_prober c with Some _ => [EStop T_PROBER] | None => [] end) ++ e2 ++ e3) = [pv_ptrP p1; pv_srvP p1; pv_txtP p1]).
      { rewrite listen_app. rewrite (listen_silent _ (match cp_prober c with Some _ => [EStop T_PROBER] | None => [] end))
          by (destruct (cp_prober c); [intros m [H|[]]; discriminate|intros m []]).
        rewrite listen_app. exact X7. }
      rewrite EL. constructor; cbn [cp_host cp_prov cp_prober].
      * exact Ih.
      * intros _. rewrite Y4, Y5, Y6, X1, X2, X3. auto.
      * intros _. rewrite Y4, Y5, Y6, X1, X2, X3. exact N1.
      * intros _ _. rewrite Y7, Y8, Y9, X1, X2, X3. repeat split; try apply S1; try apply L1; try apply N1; apply Q1.
      * rewrite Y1, Y3, X4, X6. discriminate.
      * discriminate.
      * intros _. rewrite Y2. exact X5.
Qed.

(* ---- every handler invocation of the composite ---- *)
Definition one_provider (c : comp) (ev : event papi) : Prop :=
  match ev with EvApi PNewProv => pv_exists (cp_prov c) = false | _ => True end.

Lemma prov_on_message_silent p m : silent (prov_on_message p m).
Proof.
  rewrite prov_on_message_eq. unfold prov_on_message_old. destruct (negb (pv_confirmed p) || m_response m); [apply silent_nil|].
  destruct (fold_left _ (m_queries m) (false, false, false, false)) as [[[sb sp] ss] st].
  destruct (fold_left _ (m_records m) (sp, ss, st)) as [[sp' ss'] st'].
  destruct (sb || sp' || (sp' || ss') || (sp' || st')); [|apply silent_nil]. intros m0 [H|[]]. discriminate.
Qed.

Lemma CInv_host c L h : CInv c L -> h_name h <> [] -> CInv (mkComp h (cp_prov c) (cp_prober c)) L.
Proof. intros [A B C D E F G] H. constructor; assumption. Qed.

Theorem comp_step_inv now c ev L :
  CInv c L -> one_provider c ev ->
  CInv (fst (comp_handle now c ev)) (listen L (snd (comp_handle now c ev))).
Proof.
  intros I One. destruct ev as [m|tid|a]; cbn [comp_handle].
  - (* a message *)
    pose proof (host_handle_silent now (cp_host c) (EvMsg m)) as S1.
    pose proof (host_handle_name now (cp_host c) (EvMsg m) (ci_host _ _ I)) as N1.
    destruct (host_handle now (cp_host c) (EvMsg m)) as [h1 e1]. cbn [fst snd] in *.
    assert (P3 : let '(pb, e3) := match cp_prober c with
                       | Some pb => let '(pb', e) := prober_handle now pb (EvMsg m) in (Some pb', e)
                       | None => (None, []) end in
                 silent e3 /\ (forall pb', pb = Some pb' -> exists pb0, cp_prober c = Some pb0 /\ PbRel pb' (cp_prov c)) /\
                 (pb = None -> cp_prober c = None)).
    { destruct (cp_prober c) as [pb|] eqn:Ep.
      - destruct (ci_prober _ _ I pb Ep) as (_ & _ & R & _). cbn [prober_handle].
        unfold prober_ignore_message in *. destruct (pb_confirmed pb || negb (m_response m)).
        + split; [apply silent_nil|]. split; [|discriminate]. intros pb' E. injection E as <-. eauto.
        + pose proof (on_records_silent (m_records m) pb) as S3. pose proof (on_records_rel (m_records m) pb _ R) as R3.
          destruct (on_records (m_records m) pb) as [pb' e]. cbn [fst snd] in *.
          split; [exact S3|]. split; [|discriminate]. intros pb'' E. injection E as <-. eauto.
      - split; [apply silent_nil|]. split; [discriminate|reflexivity]. }
    destruct (match cp_prober c with Some pb => _ | None => (None, []) end) as [pb e3]. destruct P3 as (S3 & R3 & N3).
    cbn [fst snd]. rewrite listen_silent.
    2:{ apply silent_app; [exact S1|]. apply silent_app; [|exact S3].
        destruct (pv_exists (cp_prov c)); [apply prov_on_message_silent|apply silent_nil]. }
    destruct I as [Ih Ps Pn Sv Un Pr Ci]. constructor; cbn [cp_host cp_prov cp_prober]; try assumption.
    intros pb' E. destruct (R3 pb' E) as (pb0 & E0 & R0). destruct (Pr pb0 E0) as (A & B & _ & D). auto.
  - destruct (tid =? T_PROBER)%N.
    + destruct (cp_prober c) as [pb|] eqn:Ep; [|exact I].
      pose proof (on_name_confirmed_inv c L pb I Ep) as H.
      destruct (on_name_confirmed (r_name (pb_proposed pb)) (cp_prov c)) as [p' es]. exact H.
    + pose proof (host_handle_silent now (cp_host c) (EvTimer tid)) as S1.
      pose proof (host_handle_name now (cp_host c) (EvTimer tid) (ci_host _ _ I)) as N1.
      pose proof (host_handle_sigs now (cp_host c) (EvTimer tid) (ci_host _ _ I)) as G1.
      destruct (host_handle now (cp_host c) (EvTimer tid)) as [h1 e1]. cbn [fst snd] in *.
      apply (with_slot_inv e1 (mkComp h1 (cp_prov c) (cp_prober c)) L (CInv_host c L h1 I N1) S1 G1).
  - destruct a as [| |s|].
    + exact I.
    + (* a provider is created (none exists) *)
      cbn in One. cbn [fst snd listen].
      destruct I as [Ih Ps Pn Sv Un Pr Ci].
      assert (Np : cp_prober c = None).
      { destruct (cp_prober c) as [pb|] eqn:E; [|reflexivity]. destruct (Pr pb eq_refl) as (X & _). congruence. }
      assert (L0 : L = []) by (apply Un; rewrite One; reflexivity).
      constructor; cbn [cp_host cp_prov cp_prober].
      * exact Ih.
      * intros _. destruct (h_reg (cp_host c)); cbn; repeat split; try reflexivity; try discriminate.
      * destruct (h_reg (cp_host c)); cbn; discriminate.
      * destruct (h_reg (cp_host c)); cbn; discriminate.
      * intros _. exact L0.
      * rewrite Np. discriminate.
      * destruct (h_reg (cp_host c)); cbn; discriminate.
    + destruct (pv_exists (cp_prov c)) eqn:Ex; [apply prov_update_inv; assumption|exact I].
    + (* destruction *)
      destruct (pv_exists (cp_prov c)) eqn:Ex; [|exact I].
      destruct I as [Ih Psh Pn Sv Un Pr Ci].
      assert (X : let '(p', es) := (if pv_confirmed (cp_prov c) then farewell (cp_prov c) else (cp_prov c, [])) in
                  listen L es = [] /\ pv_ptrP p' = pv_ptrP (cp_prov c) /\ pv_srvP p' = pv_srvP (cp_prov c) /\ pv_txtP p' = pv_txtP (cp_prov c)).
      { destruct (pv_confirmed (cp_prov c)) eqn:Cf.
        - destruct (Sv Ex eq_refl) as (S1 & _ & _ & _ & ->). change (farewell (cp_prov c)) with (fst (farewell (cp_prov c)), snd (farewell (cp_prov c))).
          cbv iota beta. split; [apply farewell_listen, S1|]. cbn. auto.
        - cbn [listen]. split; [apply Un; rewrite Ex; reflexivity|auto]. }
      destruct (if pv_confirmed (cp_prov c) then farewell (cp_prov c) else (cp_prov c, [])) as [p' es]. destruct X as (X1 & X2 & X3 & X4).
      cbn [fst snd]. rewrite listen_app, X1.
      rewrite listen_silent by (destruct (cp_prober c); [intros m [H|[]]; discriminate|intros m []]).
      constructor; cbn [cp_host cp_prov cp_prober pv_exists pv_initialized pv_confirmed pv_ptrP pv_srvP pv_txtP].
      * exact Ih.
      * discriminate.
      * discriminate.
      * discriminate.
      * reflexivity.
      * discriminate.
      * discriminate.
Qed.

(* every composite state reachable from the start with its listener, one provider object at a time *)
Inductive lreach : comp -> list record -> Prop :=
| lr_init local ifs : lreach (mkComp (fst (on_rebroadcast (mkHost local ifs [] [] false 1))) no_prov None) []
| lr_step c L now ev : lreach c L -> one_provider c ev -> lreach (fst (comp_handle now c ev)) (listen L (snd (comp_handle now c ev))).

Theorem lreach_inv c L : lreach c L -> CInv c L.
Proof.
  induction 1 as [local ifs|c L now ev _ IH One]; [|apply comp_step_inv; assumption].
  constructor; cbn [cp_host cp_prov cp_prober].
  - unfold on_rebroadcast, assert_hostname. cbn [fst h_name set_host h_local h_suffix]. apply candidate_nonempty.
  - discriminate.
  - discriminate.
  - discriminate.
  - reflexivity.
  - discriminate.
  - discriminate.
Qed.

(* ---- the library's own cache refines the abstract listener (a hop of the end-to-end argument, C04) ---- *)
Definition held (c : cache) : list record := map e_rec (c_entries c).

Lemma add_is_listen1 now j r c : held (fst (add now j r c)) = listen1 (held c) r.
Proof.
  unfold held, listen1. rewrite add_entries, map_app. f_equal.
  - induction (c_entries c) as [|e es IH]; cbn [filter map]; [reflexivity|]. unfold matches at 1.
    destruct (spec_match r (e_rec e)); cbn [negb map]; rewrite IH; reflexivity.
  - unfold new_entry. destruct (r_ttl r =? 0)%N; reflexivity.
Qed.

(* a cache that hears the multicast responses among some effects: every record goes through Cache::addRecord, at any
   instant and with any jitter *)
Fixpoint hear (times : list (Z * Z)) (c : cache) (es : list eff) : cache :=
  match es with
  | [] => c
  | ESendAll m :: es' =>
      let '(now, j) := hd (0, 0) times in
      hear (tl times) (if m_response m then fold_left (fun c r => fst (add now j r c)) (m_records m) c else c) es'
  | _ :: es' => hear times c es'
  end.

Theorem cache_refines_listener : forall es times c, held (hear times c es) = listen (held c) es.
Proof.
  induction es as [|e es IH]; intros times c; cbn [hear listen]; [reflexivity|].
  destruct e as [m|m|ob sg p|tid ms|tid|rs]; try apply IH.
  destruct (hd (0, 0) times) as [now j]. rewrite IH. f_equal. destruct (m_response m); [|reflexivity].
  unfold listen_msg. generalize c. induction (m_records m) as [|r rs IHr]; intro c0; cbn [fold_left]; [reflexivity|].
  rewrite IHr, add_is_listen1. reflexivity.
Qed.

(* the composite together with a remote cache that hears all of its multicast responses (no loss, no expiry in between) *)
Inductive lcreach : comp -> list record -> cache -> Prop :=
| lc_init local ifs : lcreach (mkComp (fst (on_rebroadcast (mkHost local ifs [] [] false 1))) no_prov None) [] empty_cache
| lc_step c L C now ev times : lcreach c L C -> one_provider c ev ->
    lcreach (fst (comp_handle now c ev)) (listen L (snd (comp_handle now c ev))) (hear times C (snd (comp_handle now c ev))).

Theorem remote_cache_holds_served c L C :
  lcreach c L C ->
  lreach c L /\ held C = L /\
  (pv_exists (cp_prov c) = true -> pv_confirmed (cp_prov c) = true -> held C = [pv_ptr (cp_prov c); pv_srv (cp_prov c); pv_txt (cp_prov c)]) /\
  (pv_exists (cp_prov c) && pv_confirmed (cp_prov c) = false -> held C = []).
Proof.
  intro R. assert (H : lreach c L /\ held C = L).
  { induction R as [local ifs|c L C now ev times R [IH1 IH2] One]; [split; [constructor|reflexivity]|].
    split; [apply lr_step; assumption|]. rewrite cache_refines_listener, IH2. reflexivity. }
  destruct H as [H1 H2]. split; [exact H1|]. split; [exact H2|]. pose proof (lreach_inv c L H1) as I. split.
  - intros E Cf. rewrite H2. destruct (ci_served _ _ I E Cf) as (_ & _ & _ & _ & HL). exact HL.
  - intro U. rewrite H2. exact (ci_unserved _ _ I U).
Qed.
