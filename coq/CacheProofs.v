(* CacheProofs.v — proofs about Cache.v (part A: addRecord's shape, invariants of every reachable cache) *)
From QV Require Import Base Fields SrcFacts Msg SrcDecisions Cache CacheSpec.
From Coq Require Import ZifyBool ZifyNat ZifyN.
Local Open Scope Z_scope.

(* ------------------------------------------------------------------ equalities are symmetric *)
Lemma bs_eqb_sym a b : bs_eqb a b = bs_eqb b a.
Proof. unfold bs_eqb. apply bytes_eqb_sym. Qed.
Lemma addr_eqb_sym a b : addr_eqb a b = addr_eqb b a.
Proof. destruct a, b; cbn; try reflexivity; [apply N.eqb_sym | apply bytes_eqb_sym]. Qed.
Lemma attrs_eqb_sym a : forall b, attrs_eqb a b = attrs_eqb b a.
Proof.
  induction a as [|[k v] a IH]; intros [|[k' v'] b]; cbn; try reflexivity.
  rewrite (bytes_eqb_sym k k'), (bs_eqb_sym v v'), IH. reflexivity.
Qed.
Lemma rfield_agree_sym f a b : rfield_agree f a b = rfield_agree f b a.
Proof.
  destruct f; cbn; auto using bs_eqb_sym, N.eqb_sym, addr_eqb_sym, attrs_eqb_sym, bytes_eqb_sym.
  destruct (r_flush a), (r_flush b); reflexivity.
Qed.
Lemma forallb_ext_in {A} (f g : A -> bool) l : (forall x, In x l -> f x = g x) -> forallb f l = forallb g l.
Proof. induction l as [|x l IH]; cbn; intro H; [reflexivity|]. rewrite H, IH; auto. Qed.
Lemma record_eqb_sym a b : record_eqb a b = record_eqb b a.
Proof. unfold record_eqb. apply forallb_ext_in. intros; apply rfield_agree_sym. Qed.
Lemma same_data_sym a b : same_data a b = same_data b a.
Proof. unfold same_data. apply forallb_ext_in. intros; apply rfield_agree_sym. Qed.

(* ------------------------------------------------------------------ Record::operator== is "same data" *)
Definition fields_incl (l1 l2 : list rfield) : bool := forallb (fun x => existsb (rfield_eqb x) l2) l1.
Lemma fields_incl_In l1 l2 : fields_incl l1 l2 = true -> forall x, In x l1 -> In x l2.
Proof.
  unfold fields_incl. rewrite forallb_forall. intros H x Hx. specialize (H x Hx).
  apply existsb_exists in H as [y [Hy E]]. apply rfield_eqb_eq in E. subst. exact Hy.
Qed.
Lemma forallb_incl {A} (f : A -> bool) l1 l2 : (forall x, In x l1 -> In x l2) -> forallb f l2 = true -> forallb f l1 = true.
Proof. rewrite !forallb_forall. auto. Qed.

(* the tie to record.cpp: the conjunct list read from the source names exactly the data fields *)
Lemma eq_fields_are_data_fields :
  fields_incl record_eq_fields data_fields = true /\ fields_incl data_fields record_eq_fields = true.
Proof. split; vm_compute; reflexivity. Qed.

Lemma record_eqb_same_data a b : record_eqb a b = same_data a b.
Proof.
  destruct eq_fields_are_data_fields as [H1 H2].
  unfold record_eqb, same_data.
  destruct (forallb (fun f => rfield_agree f a b) data_fields) eqn:E.
  - eapply forallb_incl; [apply fields_incl_In, H1 | exact E].
  - destruct (forallb (fun f => rfield_agree f a b) record_eq_fields) eqn:E'; [|reflexivity].
    rewrite (forallb_incl _ _ _ (fields_incl_In _ _ H2) E') in E. discriminate.
Qed.

(* the tie to cache.cpp: the generated match condition is the property's replacement rule *)
Lemma cache_match_spec new old : cache_match new old = spec_match new old.
Proof.
  unfold cache_match, spec_match. rewrite record_eqb_same_data.
  destruct (same_data old new), (r_flush new), (bs_eqb (r_name old) (r_name new)), (r_type old =? r_type new)%N; reflexivity.
Qed.

Lemma same_record_same_data a b : same_record a b = true -> same_data a b = true.
Proof.
  unfold same_record, same_data. intro H. eapply forallb_incl; [|exact H]. intros x _. apply all_rfields_complete.
Qed.

(* the two scheduling decisions read from cache.cpp (SrcDecisions.v), in the form the proofs below are written in *)
Lemma rearm_match (cn : option Z) t0 now :
  match cn with None => cache_rearm true t0 0 now | Some n => cache_rearm false t0 n now end =
  match cn with Some n => t0 <? n | None => true end.
Proof. destruct cn; reflexivity. Qed.
Lemma trigger_passed_spec t now : cache_trigger_passed t now = (t <=? now).
Proof. reflexivity. Qed.

(* ------------------------------------------------------------------ the scan loop of addRecord *)
Definition matches (r : record) (e : entry) : bool := spec_match r (e_rec e).

Lemma scan_entries r kept es :
  fst (scan r kept es) = kept ++ filter (fun e => negb (matches r e)) es.
Proof.
  revert kept; induction es as [|e es IH]; intros kept; cbn [scan filter].
  - rewrite app_nil_r. reflexivity.
  - unfold matches at 1. rewrite <- cache_match_spec.
    destruct (cache_match r (e_rec e)) eqn:E; cbn [negb].
    + specialize (IH kept). destruct (scan r kept es) as [k sg]. exact IH.
    + rewrite IH, <- app_assoc. reflexivity.
Qed.

Lemma scan_signals r kept es :
  map fst (snd (scan r kept es)) =
  if (r_ttl r =? 0)%N then map (fun e => Expired (e_rec e)) (filter (matches r) es) else [].
Proof.
  revert kept; induction es as [|e es IH]; intros kept; cbn [scan filter].
  - destruct (r_ttl r =? 0)%N; reflexivity.
  - unfold matches at 1. rewrite <- cache_match_spec.
    destruct (cache_match r (e_rec e)) eqn:E.
    + specialize (IH kept). destruct (scan r kept es) as [k sg]. cbn [snd] in *.
      destruct (r_ttl r =? 0)%N; cbn [map fst]; [rewrite IH|]; auto.
    + apply IH.
Qed.

(* what the cache holds at the moment each removal is announced: exactly the other entries *)
Lemma scan_snapshots r kept es :
  forall sg snap, In (sg, snap) (snd (scan r kept es)) ->
  exists es1 e es2, es = es1 ++ e :: es2 /\ sg = Expired (e_rec e) /\ matches r e = true /\
     snap = map e_rec (kept ++ filter (fun e => negb (matches r e)) es1 ++ es2).
Proof.
  revert kept; induction es as [|e es IH]; intros kept sg snap; cbn [scan].
  - intros [].
  - pose proof (cache_match_spec r (e_rec e)) as M. fold (matches r e) in M.
    destruct (cache_match r (e_rec e)) eqn:E.
    + pose proof (IH kept) as IHk. destruct (scan r kept es) as [k sgs]. cbn [snd] in *.
      destruct (r_ttl r =? 0)%N.
      * intros [H|H].
        -- injection H as <- <-. exists [], e, es. cbn. auto.
        -- destruct (IHk _ _ H) as (es1 & e' & es2 & -> & -> & Hm & ->).
           exists (e :: es1), e', es2. cbn [app filter]. rewrite <- M. cbn [negb]. auto.
      * intro H. destruct (IHk _ _ H) as (es1 & e' & es2 & -> & -> & Hm & ->).
        exists (e :: es1), e', es2. cbn [app filter]. rewrite <- M. cbn [negb]. auto.
    + intro H. destruct (IH _ _ _ H) as (es1 & e' & es2 & -> & -> & Hm & ->).
      exists (e :: es1), e', es2. cbn [app filter]. rewrite <- M. cbn [negb].
      rewrite <- !app_assoc. cbn [app]. auto.
Qed.

(* ------------------------------------------------------------------ C06_add_shape *)
Definition new_entry (now jitter : Z) (r : record) : list entry :=
  if (r_ttl r =? 0)%N then [] else [mkEntry r (triggers now jitter (r_ttl r))].

Lemma add_entries now j r c :
  c_entries (fst (add now j r c)) = filter (fun e => negb (matches r e)) (c_entries c) ++ new_entry now j r.
Proof.
  unfold add, new_entry. pose proof (scan_entries r [] (c_entries c)) as H.
  destruct (scan r [] (c_entries c)) as [kept sg]. cbn [fst app] in H. subst kept.
  destruct (r_ttl r =? 0)%N; cbn [fst c_entries].
  - rewrite app_nil_r. reflexivity.
  - match goal with |- context [if ?b then _ else _] => destruct b end; reflexivity.
Qed.

Lemma add_signals now j r c :
  map fst (snd (add now j r c)) =
  if (r_ttl r =? 0)%N then map (fun e => Expired (e_rec e)) (filter (matches r) (c_entries c)) else [].
Proof.
  unfold add. pose proof (scan_signals r [] (c_entries c)) as H.
  destruct (scan r [] (c_entries c)) as [kept sg]. cbn [snd] in H.
  destruct (r_ttl r =? 0)%N; cbn [snd]; [exact H|].
  match goal with |- context [if ?b then _ else _] => destruct b end; exact H.
Qed.

(* ------------------------------------------------------------------ invariants of every reachable cache *)
Fixpoint nodup_rec (l : list record) : Prop :=
  match l with [] => True | x :: l' => (forall y, In y l' -> same_data x y = false) /\ nodup_rec l' end.

Definition EInv (es : list entry) : Prop :=
  (forall e, In e es -> r_ttl (e_rec e) <> 0%N) /\ nodup_rec (map e_rec es).

Lemma nodup_rec_filter (f : entry -> bool) es : nodup_rec (map e_rec es) -> nodup_rec (map e_rec (filter f es)).
Proof.
  induction es as [|e es IH]; cbn [filter map nodup_rec]; [auto|]. intros [H1 H2].
  destruct (f e); cbn [map nodup_rec]; [split|]; auto.
  intros y Hy. apply H1. apply in_map_iff in Hy as [x [<- Hx]]. apply filter_In in Hx as [Hx _].
  apply in_map. exact Hx.
Qed.

Lemma nodup_rec_snoc l x : nodup_rec l -> (forall y, In y l -> same_data y x = false) -> nodup_rec (l ++ [x]).
Proof.
  induction l as [|a l IH]; cbn [app nodup_rec]; intros H Hx.
  - split; [intros y []|exact I].
  - destruct H as [H1 H2]. split.
    + intros y Hy. apply in_app_iff in Hy as [Hy|[<-|[]]]; [apply H1, Hy | apply Hx; left; reflexivity].
    + apply IH; [exact H2|]. intros y Hy. apply Hx. right. exact Hy.
Qed.

Lemma add_preserves_EInv now j r c : EInv (c_entries c) -> EInv (c_entries (fst (add now j r c))).
Proof.
  intros [Httl Hnd]. rewrite add_entries. unfold new_entry. split.
  - intros e He. apply in_app_iff in He as [He|He].
    + apply filter_In in He as [He _]. apply Httl, He.
    + destruct (r_ttl r =? 0)%N eqn:E; [destruct He|]. destruct He as [<-|[]]. cbn. apply N.eqb_neq, E.
  - rewrite map_app. destruct (r_ttl r =? 0)%N; cbn [map].
    + rewrite app_nil_r. apply nodup_rec_filter, Hnd.
    + apply nodup_rec_snoc; [apply nodup_rec_filter, Hnd|].
      intros y Hy. apply in_map_iff in Hy as [e [<- He]]. apply filter_In in He as [_ He].
      unfold matches, spec_match in He. apply negb_true_iff, orb_false_iff in He as [He _]. exact He.
Qed.

(* onTimeout keeps a sub-list of the entries, with the same records *)
Definition alive (now : Z) (e : entry) : bool :=
  match snd (drop_passed now (e_trig e)) with [] => false | _ :: _ => true end.

Lemma pass_records now kept es nn :
  map e_rec (fst (fst (pass now kept es nn))) = map e_rec kept ++ map e_rec (filter (alive now) es).
Proof.
  revert kept nn; induction es as [|e es IH]; intros kept nn; cbn [pass filter map].
  - rewrite app_nil_r. reflexivity.
  - unfold alive at 1. destruct (drop_passed now (e_trig e)) as [sq rest]. cbn [snd].
    destruct rest as [|t0 rest'].
    + specialize (IH kept nn). destruct (pass now kept es nn) as [[k n] sg]. exact IH.
    + specialize (IH (kept ++ [mkEntry (e_rec e) (t0 :: rest')]) (min_opt nn t0)).
      destruct (pass now (kept ++ [mkEntry (e_rec e) (t0 :: rest')]) es (min_opt nn t0)) as [[k n] sg].
      cbn [fst] in *. rewrite IH, map_app, <- app_assoc. reflexivity.
Qed.

Lemma pass_In now kept es nn e :
  In e (fst (fst (pass now kept es nn))) -> In e kept \/ exists e0, In e0 es /\ e_rec e = e_rec e0.
Proof.
  revert kept nn; induction es as [|x es IH]; intros kept nn; cbn [pass].
  - auto.
  - destruct (drop_passed now (e_trig x)) as [sq rest]. destruct rest as [|t0 rest'].
    + pose proof (IH kept nn) as IHk. destruct (pass now kept es nn) as [[k n] sg]. cbn [fst] in *.
      intro H. destruct (IHk H) as [H'|[e0 [H1 H2]]]; [auto|right; exists e0; cbn; auto].
    + pose proof (IH (kept ++ [mkEntry (e_rec x) (t0 :: rest')]) (min_opt nn t0)) as IHk.
      destruct (pass now (kept ++ [mkEntry (e_rec x) (t0 :: rest')]) es (min_opt nn t0)) as [[k n] sg]. cbn [fst] in *.
      intro H. destruct (IHk H) as [H'|[e0 [H1 H2]]].
      * apply in_app_iff in H' as [H'|[<-|[]]]; [auto|]. right. exists x. cbn. auto.
      * right; exists e0; cbn; auto.
Qed.

Lemma on_timeout_preserves_EInv now c : EInv (c_entries c) -> EInv (c_entries (fst (on_timeout now c))).
Proof.
  intros [Httl Hnd]. unfold on_timeout.
  pose proof (pass_records now [] (c_entries c) None) as HR.
  pose proof (pass_In now [] (c_entries c) None) as HI.
  destruct (pass now [] (c_entries c) None) as [[k n] sg]. cbn [fst c_entries] in *. split.
  - intros e He. destruct (HI e He) as [[]|[e0 [H1 H2]]]. rewrite H2. apply Httl, H1.
  - rewrite HR. cbn [map app]. apply nodup_rec_filter, Hnd.
Qed.

(* every cache reachable by any sequence of additions and timer firings, at any instants, early or late *)
Inductive creach : cache -> Prop :=
| cr_empty : creach empty_cache
| cr_add now j r c : creach c -> creach (fst (add now j r c))
| cr_timeout now c : creach c -> creach (fst (on_timeout now c))
| cr_timer c t : creach c -> creach (mkCache (c_entries c) (c_next c) t).

Lemma creach_EInv c : creach c -> EInv (c_entries c).
Proof.
  induction 1 as [|now j r c _ IH|now c _ IH|c t _ IH].
  - split; [intros e []|exact I].
  - apply add_preserves_EInv, IH.
  - apply on_timeout_preserves_EInv, IH.
  - exact IH.
Qed.

Lemma lookup_In name type c r : In r (lookup name type c) -> exists e, In e (c_entries c) /\ e_rec e = r.
Proof.
  unfold lookup. intro H. apply filter_In in H as [H _]. apply in_map_iff in H as [e [<- He]]. eauto.
Qed.

(* ================================================================== part B: the single shared timer *)
From Coq Require Import Sorted.

Definition sorted (tr : list Z) : Prop := StronglySorted Z.lt tr.

Lemma sorted_tail a tr : sorted (a :: tr) -> sorted tr /\ forall x, In x tr -> a < x.
Proof. intro H. apply StronglySorted_inv in H as [H1 H2]. split; [exact H1|]. rewrite Forall_forall in H2. exact H2. Qed.

Lemma drop_passed_above d tr : (forall x, In x tr -> d < x) -> drop_passed d tr = (false, tr).
Proof.
  destruct tr as [|a tr]; cbn; [reflexivity|]. intro H. unfold cache_trigger_passed.
  destruct (a <=? d) eqn:E; [|reflexivity]. specialize (H a (or_introl eq_refl)). lia.
Qed.

Lemma drop_passed_exact d tr :
  sorted tr -> (forall x, In x tr -> d <= x) ->
  drop_passed d tr = match tr with
                     | t :: rest => if t =? d then (true, rest) else (false, tr)
                     | [] => (false, [])
                     end.
Proof.
  destruct tr as [|a tr]; [reflexivity|]. intros Hs Hl. cbn [drop_passed]. unfold cache_trigger_passed.
  apply sorted_tail in Hs as [_ Hgt]. pose proof (Hl a (or_introl eq_refl)) as Ha.
  destruct (a =? d) eqn:E.
  - assert (a = d) by lia. subst a. replace (d <=? d) with true by lia.
    rewrite drop_passed_above; [reflexivity|exact Hgt].
  - replace (a <=? d) with false by lia. reflexivity.
Qed.

(* what one exact firing at instant d does to one entry *)
Definition trim1 (d : Z) (e : entry) : option entry :=
  match e_trig e with
  | t :: rest => if t =? d then match rest with [] => None | _ :: _ => Some (mkEntry (e_rec e) rest) end
                 else Some (mkEntry (e_rec e) (e_trig e))
  | [] => None
  end.
Definition sig1 (d : Z) (e : entry) : option csig :=
  match e_trig e with
  | t :: rest => if t =? d then Some (match rest with [] => Expired (e_rec e) | _ :: _ => ShouldQuery (e_rec e) end)
                 else None
  | [] => None
  end.
Definition first_of (e : entry) : list Z := match e_trig e with t :: _ => [t] | [] => [] end.
Definition firsts (es : list entry) : list Z := flat_map first_of es.
Definition min_first (es : list entry) : option Z := fold_left min_opt (firsts es) None.

Definition ewf (d : Z) (e : entry) : Prop := sorted (e_trig e) /\ e_trig e <> [] /\ forall x, In x (e_trig e) -> d <= x.

Lemma pass_exact d : forall es kept nn,
  (forall e, In e es -> ewf d e) ->
  pass d kept es nn =
  (kept ++ filter_map (trim1 d) es,
   fold_left min_opt (firsts (filter_map (trim1 d) es)) nn,
   snd (pass d kept es nn)) /\
  map fst (snd (pass d kept es nn)) = filter_map (sig1 d) es.
Proof.
  induction es as [|e es IH]; intros kept nn Hwf.
  - cbn. rewrite app_nil_r. auto.
  - assert (He : ewf d e) by (apply Hwf; left; reflexivity).
    assert (Hes : forall e', In e' es -> ewf d e') by (intros; apply Hwf; right; assumption).
    destruct He as (Hs & Hne & Hl).
    cbn [pass filter_map]. rewrite (drop_passed_exact d (e_trig e) Hs Hl).
    unfold trim1, sig1. destruct (e_trig e) as [|t rest] eqn:Et; [congruence|].
    destruct (t =? d) eqn:Etd.
    + destruct rest as [|t1 rest'].
      * destruct (IH kept nn Hes) as [I1 I2]. destruct (pass d kept es nn) as [[k n] sg] eqn:P.
        cbn [snd] in *. injection I1 as -> ->. cbn [map fst]. rewrite I2. auto.
      * destruct (IH (kept ++ [mkEntry (e_rec e) (t1 :: rest')]) (min_opt nn t1) Hes) as [I1 I2].
        destruct (pass d (kept ++ [mkEntry (e_rec e) (t1 :: rest')]) es (min_opt nn t1)) as [[k n] sg] eqn:P.
        cbn [snd] in *. injection I1 as -> ->. cbn [map fst firsts flat_map first_of e_trig app fold_left].
        rewrite I2, <- app_assoc. auto.
    + destruct (IH (kept ++ [mkEntry (e_rec e) (t :: rest)]) (min_opt nn t) Hes) as [I1 I2].
      destruct (pass d (kept ++ [mkEntry (e_rec e) (t :: rest)]) es (min_opt nn t)) as [[k n] sg] eqn:P.
      cbn [snd] in *. injection I1 as -> ->. cbn [map fst firsts flat_map first_of e_trig app fold_left].
      rewrite <- app_assoc. auto.
Qed.

(* fold_left min_opt computes a lower bound that is attained *)
Lemma fold_min_opt l : forall nn,
  match fold_left min_opt l nn with
  | Some n => (forall x, In x l -> n <= x) /\ (forall a, nn = Some a -> n <= a) /\ (In n l \/ nn = Some n)
  | None => l = [] /\ nn = None
  end.
Proof.
  induction l as [|x l IH]; intros nn; cbn [fold_left].
  - destruct nn as [a|]; [|auto]. split; [intros ? []|]. split; [intros ? [= ->]; lia|auto].
  - specialize (IH (min_opt nn x)). destruct (fold_left min_opt l (min_opt nn x)) as [n|].
    + destruct IH as (I1 & I2 & I3). unfold min_opt in I2, I3.
      destruct nn as [a|].
      * destruct (x <? a) eqn:E.
        -- specialize (I2 x eq_refl). split; [intros y [<-|Hy]; [lia|auto]|]. split; [intros ? [= <-]; lia|].
           destruct I3 as [I3|[= ->]]; [left; right; exact I3|left; left; reflexivity].
        -- specialize (I2 a eq_refl). split; [intros y [<-|Hy]; [lia|auto]|]. split; [intros ? [= <-]; lia|].
           destruct I3 as [I3|[= ->]]; [left; right; exact I3|right; reflexivity].
      * specialize (I2 x eq_refl). split; [intros y [<-|Hy]; [lia|auto]|]. split; [intros ? [=]|].
        destruct I3 as [I3|[= ->]]; [left; right; exact I3|left; left; reflexivity].
    + destruct IH as [_ IH]. unfold min_opt in IH. destruct nn as [a|]; [destruct (x <? a)|]; discriminate.
Qed.

Lemma In_firsts t es : In t (firsts es) <-> exists e rest, In e es /\ e_trig e = t :: rest.
Proof.
  unfold firsts. rewrite in_flat_map. split.
  - intros [e [He Ht]]. unfold first_of in Ht. destruct (e_trig e) as [|t' rest] eqn:E; [destruct Ht|].
    destruct Ht as [<-|[]]. eauto.
  - intros (e & rest & He & Et). exists e. split; [exact He|]. unfold first_of. rewrite Et. left; reflexivity.
Qed.

Lemma In_filter_map {A B} (f : A -> option B) l y : In y (filter_map f l) <-> exists x, In x l /\ f x = Some y.
Proof.
  induction l as [|a l IH]; cbn [filter_map].
  - split; [intros []|intros [x [[] _]]].
  - destruct (f a) as [b|] eqn:E.
    + cbn [In]. rewrite IH. split.
      * intros [<-|[x [Hx Hf]]]; [exists a; split; [left; reflexivity|exact E]|exists x; split; [right; exact Hx|exact Hf]].
      * intros [x [[<-|Hx] Hf]]; [left; congruence|right; eauto].
    + rewrite IH. split.
      * intros [x [Hx Hf]]. exists x; split; [right; exact Hx|exact Hf].
      * intros [x [[<-|Hx] Hf]]; [congruence|eauto].
Qed.

(* after an exact firing at d every remaining trigger is later than d, lists stay sorted and non-empty *)
Lemma trim1_wf d e e' : ewf d e -> trim1 d e = Some e' ->
  e_rec e' = e_rec e /\ sorted (e_trig e') /\ e_trig e' <> [] /\ (forall x, In x (e_trig e') -> d < x) /\
  (forall x, In x (e_trig e') -> In x (e_trig e)).
Proof.
  intros (Hs & Hne & Hl). unfold trim1. destruct (e_trig e) as [|t rest] eqn:Et; [discriminate|].
  destruct (t =? d) eqn:E.
  - destruct rest as [|t1 rest']; [discriminate|]. intros [= <-]. cbn [e_rec e_trig].
    apply sorted_tail in Hs as [Hs Hgt]. repeat split; auto; try discriminate.
    + intros x Hx. specialize (Hgt x Hx). lia.
    + intros x Hx. right. exact Hx.
  - intros [= <-]. cbn [e_rec e_trig]. repeat split; auto; try discriminate.
    intros x Hx. pose proof (Hl x Hx). destruct Hx as [<-|Hx]; [lia|].
    apply sorted_tail in Hs as [_ Hgt]. specialize (Hgt x Hx). pose proof (Hl t (or_introl eq_refl)). lia.
Qed.

Fixpoint total (es : list entry) : nat :=
  match es with [] => O | e :: es' => (length (e_trig e) + total es')%nat end.
Lemma total_is c : total_triggers c = total (c_entries c).
Proof. unfold total_triggers. induction (c_entries c) as [|e es IH]; cbn [fold_right total]; [reflexivity|]. rewrite IH. reflexivity. Qed.

Lemma trim1_len d e :
  match trim1 d e with
  | Some e' => (length (e_trig e') <= length (e_trig e))%nat /\ (In d (first_of e) -> (length (e_trig e') < length (e_trig e))%nat)
  | None => In d (first_of e) -> (0 < length (e_trig e))%nat
  end.
Proof.
  unfold trim1, first_of. destruct (e_trig e) as [|t rest]; [intros []|].
  destruct (t =? d) eqn:E.
  - destruct rest; cbn [e_trig length]; [lia|]. split; lia.
  - cbn [e_trig length]. split; [lia|]. intros [->|[]]. lia.
Qed.

Lemma total_trim d es : (total (filter_map (trim1 d) es) <= total es)%nat.
Proof.
  induction es as [|e es IH]; cbn [filter_map total]; [lia|].
  pose proof (trim1_len d e) as L. destruct (trim1 d e) as [e'|]; cbn [total]; lia.
Qed.
Lemma total_trim_strict d es : In d (firsts es) -> (total (filter_map (trim1 d) es) < total es)%nat.
Proof.
  induction es as [|e es IH]; cbn [firsts flat_map]; [intros []|].
  intro H. apply in_app_iff in H. cbn [filter_map total].
  pose proof (total_trim d es) as Hle. pose proof (trim1_len d e) as L.
  destruct H as [H|H].
  - destruct (trim1 d e) as [e'|]; cbn [total]; [destruct L as [_ L]|]; specialize (L H); lia.
  - specialize (IH H). destruct (trim1 d e) as [e'|]; cbn [total]; lia.
Qed.

(* ------------------------------------------------------------------ the invariant between operations *)
Definition LIMIT : Z := 2000000000.

Record GInv (now : Z) (c : cache) : Prop := {
  g_einv : EInv (c_entries c);
  g_wf : forall e, In e (c_entries c) ->
           sorted (e_trig e) /\ e_trig e <> [] /\ forall x, In x (e_trig e) -> x <= now + LIMIT;
  g_timer : c_timer c = c_next c;
  g_next : match c_next c with
           | Some n => now <= n /\ forall e, In e (c_entries c) -> forall x, In x (e_trig e) -> n <= x
           | None => c_entries c = []
           end }.

Definition attained (c : cache) : Prop :=
  match c_next c with Some n => In n (firsts (c_entries c)) | None => True end.
Definition fuel_ok (c : cache) (fuel : nat) : Prop :=
  (total (c_entries c) + 2 <= fuel)%nat \/ (attained c /\ (total (c_entries c) + 1 <= fuel)%nat).

Lemma to_int32_small x : 0 <= x < 2147483648 -> to_int32 x = x.
Proof. intro H. unfold to_int32. rewrite Z.mod_small by lia. replace (x <? 2147483648) with true by lia. reflexivity. Qed.
Lemma timer_start_small now d : now < d <= now + LIMIT -> timer_start now (d - now) = Some d.
Proof.
  intro H. unfold timer_start, LIMIT in *. rewrite to_int32_small by lia.
  replace (d - now <? 0) with false by lia. f_equal. lia.
Qed.

(* one exact firing *)
Lemma firing d now c :
  GInv now c -> c_next c = Some d ->
  let c1 := fst (on_timeout d (mkCache (c_entries c) (c_next c) None)) in
  c_entries c1 = filter_map (trim1 d) (c_entries c) /\
  map fst (snd (on_timeout d (mkCache (c_entries c) (c_next c) None))) = filter_map (sig1 d) (c_entries c) /\
  GInv d c1 /\ attained c1.
Proof.
  intros G Hn. destruct G as [[Httl Hnd] Hwf Htm Hnx]. rewrite Hn in Hnx. destruct Hnx as [Hnow Hlow].
  assert (Hewf : forall e, In e (c_entries c) -> ewf d e).
  { intros e He. destruct (Hwf e He) as (H1 & H2 & H3). split; [exact H1|]. split; [exact H2|]. intros x Hx. apply (Hlow e He x Hx). }
  unfold on_timeout. cbn [c_entries].
  destruct (pass_exact d (c_entries c) [] None Hewf) as [P1 P2].
  destruct (pass d [] (c_entries c) None) as [[k n] sg] eqn:P. cbn [snd] in *. injection P1 as -> ->.
  cbn [fst snd c_entries app]. split; [reflexivity|]. split; [exact P2|].
  set (es1 := filter_map (trim1 d) (c_entries c)).
  assert (Hes1 : forall e', In e' es1 -> exists e, In e (c_entries c) /\ trim1 d e = Some e').
  { intros e' H. apply In_filter_map in H. exact H. }
  pose proof (fold_min_opt (firsts es1) None) as FM.
  assert (Hwf1 : forall e', In e' es1 -> sorted (e_trig e') /\ e_trig e' <> [] /\
                   (forall x, In x (e_trig e') -> x <= d + LIMIT) /\ (forall x, In x (e_trig e') -> d < x)).
  { intros e' H. destruct (Hes1 e' H) as (e & He & Ht).
    destruct (trim1_wf d e e' (Hewf e He) Ht) as (_ & S1 & S2 & S3 & S4).
    repeat split; auto. intros x Hx. destruct (Hwf e He) as (_ & _ & Hb). specialize (Hb x (S4 x Hx)). lia. }
  split; [|].
  - constructor; cbn [c_entries c_next c_timer].
    + split.
      * intros e' H. destruct (Hes1 e' H) as (e & He & Ht).
        destruct (trim1_wf d e e' (Hewf e He) Ht) as (-> & _). apply Httl, He.
      * assert (map e_rec es1 = map e_rec (filter (fun e => match trim1 d e with Some _ => true | None => false end) (c_entries c))) as ->.
        { unfold es1. clear -Hewf. induction (c_entries c) as [|e es IH]; [reflexivity|]. cbn [filter_map filter].
          destruct (trim1 d e) as [e'|] eqn:E.
          - cbn [map]. f_equal; [|apply IH; intros; apply Hewf; right; assumption].
            apply (trim1_wf d e e' (Hewf e (or_introl eq_refl)) E).
          - apply IH. intros; apply Hewf; right; assumption. }
        apply nodup_rec_filter, Hnd.
    + intros e' H. destruct (Hwf1 e' H) as (A & B & C & _). auto.
    + destruct (fold_left min_opt (firsts es1) None) as [n|] eqn:F; [|reflexivity].
      destruct FM as (F1 & _ & [F3|F3]); [|discriminate].
      apply In_firsts in F3 as (e' & rest & He' & Et). destruct (Hwf1 e' He') as (_ & _ & C & D).
      apply timer_start_small. rewrite Et in C, D. specialize (C n (or_introl eq_refl)). specialize (D n (or_introl eq_refl)). lia.
    + destruct (fold_left min_opt (firsts es1) None) as [n|] eqn:F.
      * destruct FM as (F1 & _ & [F3|F3]); [|discriminate]. split.
        -- apply In_firsts in F3 as (e' & rest & He' & Et). destruct (Hwf1 e' He') as (_ & _ & _ & D).
           apply Z.lt_le_incl, D. rewrite Et. left; reflexivity.
        -- intros e' He' x Hx. destruct (Hwf1 e' He') as (S1 & S2 & _).
           destruct (e_trig e') as [|t rest] eqn:Et; [congruence|].
           assert (n <= t) by (apply F1, In_firsts; eauto).
           destruct Hx as [<-|Hx]; [lia|]. apply sorted_tail in S1 as [_ Hgt]. specialize (Hgt x Hx). lia.
      * destruct FM as [FM _]. destruct es1 as [|e' es1']; [reflexivity|].
        destruct (Hwf1 e' (or_introl eq_refl)) as (_ & S2 & _).
        unfold firsts in FM. cbn [flat_map] in FM. unfold first_of in FM at 1.
        destruct (e_trig e'); [congruence|discriminate].
  - unfold attained. cbn [c_next c_entries]. fold es1.
    destruct (fold_left min_opt (firsts es1) None) as [n|] eqn:F; [|exact I].
    destruct FM as (_ & _ & [F3|F3]); [exact F3|discriminate].
Qed.

(* ------------------------------------------------------------------ same_data is an equivalence *)
Lemma bytes_eqb_trans a b c : bytes_eqb a b = true -> bytes_eqb b c = true -> bytes_eqb a c = true.
Proof. rewrite !bytes_eqb_eq. congruence. Qed.
Lemma bs_eqb_trans a b c : bs_eqb a b = true -> bs_eqb b c = true -> bs_eqb a c = true.
Proof. unfold bs_eqb. apply bytes_eqb_trans. Qed.
Lemma addr_eqb_trans a b c : addr_eqb a b = true -> addr_eqb b c = true -> addr_eqb a c = true.
Proof.
  destruct a, b, c; cbn; try discriminate; auto.
  - rewrite !N.eqb_eq. congruence.
  - apply bytes_eqb_trans.
Qed.
Lemma attrs_eqb_trans a : forall b c, attrs_eqb a b = true -> attrs_eqb b c = true -> attrs_eqb a c = true.
Proof.
  induction a as [|[k v] a IH]; intros [|[k' v'] b] [|[k'' v''] c]; cbn; try discriminate; auto.
  rewrite !andb_true_iff. intros [[H1 H2] H3] [[H4 H5] H6].
  repeat split; eauto using bytes_eqb_trans, bs_eqb_trans.
Qed.
Lemma rfield_agree_trans f a b c : rfield_agree f a b = true -> rfield_agree f b c = true -> rfield_agree f a c = true.
Proof.
  destruct f; cbn; eauto using bs_eqb_trans, addr_eqb_trans, attrs_eqb_trans, bytes_eqb_trans;
    try (rewrite !N.eqb_eq; congruence).
  destruct (r_flush a), (r_flush b), (r_flush c); auto.
Qed.
Lemma same_data_trans a b c : same_data a b = true -> same_data b c = true -> same_data a c = true.
Proof.
  unfold same_data. rewrite !forallb_forall. intros H1 H2 f Hf. eapply rfield_agree_trans; eauto.
Qed.
Lemma same_data_refl a : same_data a a = true.
Proof.
  unfold same_data. apply forallb_forall. intros f _.
  destruct f; cbn; unfold bs_eqb; auto using bytes_eqb_refl, N.eqb_refl.
  - destruct (r_flush a); reflexivity.
  - destruct (r_addr a); cbn; auto using bytes_eqb_refl, N.eqb_refl.
  - induction (r_attrs a) as [|[k v] l IH]; cbn; [reflexivity|]. unfold bs_eqb. rewrite !bytes_eqb_refl, IH. reflexivity.
Qed.

(* ------------------------------------------------------------------ signals concerning one record *)
Definition sig_rec (s : csig) : record := match s with ShouldQuery r => r | Expired r => r end.
Definition about (r : record) (o : cout) : option (Z * csig) :=
  match o with
  | OSig t s _ => if same_data (sig_rec s) r then Some (t, s) else None
  | OLookup _ => None
  end.
Definition sigs_for (r : record) (out : list cout) : list (Z * csig) := filter_map (about r) out.

Fixpoint stored (r : record) (es : list entry) : option entry :=
  match es with [] => None | e :: es' => if same_data (e_rec e) r then Some e else stored r es' end.

(* the signals an entry with remaining triggers [tr] must produce up to and including instant t *)
Fixpoint expect (r0 : record) (tr : list Z) (t : Z) : list (Z * csig) :=
  match tr with
  | [] => []
  | m :: rest => if m <=? t then (m, match rest with [] => Expired r0 | _ :: _ => ShouldQuery r0 end) :: expect r0 rest t
                 else []
  end.

Lemma filter_map_app {A B} (f : A -> option B) l1 l2 : filter_map f (l1 ++ l2) = filter_map f l1 ++ filter_map f l2.
Proof. induction l1 as [|a l IH]; cbn [app filter_map]; [reflexivity|]. destruct (f a); cbn [app]; rewrite IH; reflexivity. Qed.

Lemma stored_none_later r e es :
  (forall y, In y (map e_rec es) -> same_data (e_rec e) y = false) -> same_data (e_rec e) r = true -> stored r es = None.
Proof.
  induction es as [|x es IH]; cbn [stored map]; [reflexivity|]. intros H Hr.
  destruct (same_data (e_rec x) r) eqn:E.
  - assert (same_data (e_rec e) (e_rec x) = true).
    { eapply same_data_trans; [exact Hr|]. rewrite same_data_sym. exact E. }
    rewrite H in H0; [discriminate|left; reflexivity].
  - apply IH; [|exact Hr]. intros y Hy. apply H. right. exact Hy.
Qed.

Lemma stored_trim d r es :
  nodup_rec (map e_rec es) -> (forall e, In e es -> ewf d e) ->
  stored r (filter_map (trim1 d) es) = match stored r es with Some e => trim1 d e | None => None end.
Proof.
  induction es as [|e es IH]; cbn [map nodup_rec filter_map stored]; [reflexivity|].
  intros [Hn1 Hn2] Hwf.
  assert (IH' := IH Hn2 (fun e' H => Hwf e' (or_intror H))).
  destruct (trim1 d e) as [e'|] eqn:T.
  - destruct (trim1_wf d e e' (Hwf e (or_introl eq_refl)) T) as (Hr & _). cbn [stored]. rewrite Hr.
    destruct (same_data (e_rec e) r); [symmetry; exact T|exact IH'].
  - destruct (same_data (e_rec e) r) eqn:E; [|exact IH'].
    rewrite IH'. rewrite (stored_none_later r e es Hn1 E). symmetry; exact T.
Qed.

Lemma sigs_pass d r (sg : list sigsnap) es :
  nodup_rec (map e_rec es) -> map fst sg = filter_map (sig1 d) es ->
  sigs_for r (map (fun s => OSig d (fst s) (snd s)) sg) =
  match stored r es with Some e => match sig1 d e with Some s => [(d, s)] | None => [] end | None => [] end.
Proof.
  revert sg; induction es as [|e es IH]; intros sg Hnd Hs.
  - cbn in Hs. destruct sg; [reflexivity|discriminate].
  - cbn [map nodup_rec] in Hnd. destruct Hnd as [Hn1 Hn2]. cbn [filter_map stored] in *.
    assert (Hrec : forall s, sig1 d e = Some s -> sig_rec s = e_rec e).
    { unfold sig1. destruct (e_trig e) as [|t rest]; [discriminate|]. destruct (t =? d); [|discriminate].
      intros s [= <-]. destruct rest; reflexivity. }
    destruct (sig1 d e) as [s|] eqn:S1.
    + destruct sg as [|[s' sn] sg]; [discriminate|]. cbn [map fst] in Hs. injection Hs as -> Hs.
      unfold sigs_for. cbn [map filter_map about fst snd]. rewrite (Hrec s eq_refl).
      destruct (same_data (e_rec e) r) eqn:E.
      * fold (sigs_for r (map (fun s0 => OSig d (fst s0) (snd s0)) sg)). rewrite (IH sg Hn2 Hs).
        rewrite (stored_none_later r e es Hn1 E). cbv beta iota. rewrite S1. reflexivity.
      * apply (IH sg Hn2 Hs).
    + destruct (same_data (e_rec e) r) eqn:E.
      * rewrite (IH sg Hn2 Hs). rewrite (stored_none_later r e es Hn1 E). cbv beta iota. rewrite S1. reflexivity.
      * apply (IH sg Hn2 Hs).
Qed.

(* ------------------------------------------------------------------ closed form of an advance *)
Definition trim_upto (t : Z) (e : entry) : option entry :=
  match filter (fun x => t <? x) (e_trig e) with
  | [] => None
  | x :: tr => Some (mkEntry (e_rec e) (x :: tr))
  end.

Lemma filter_map_filter_map {A B C} (g : A -> option B) (f : B -> option C) l :
  filter_map f (filter_map g l) = filter_map (fun x => match g x with Some y => f y | None => None end) l.
Proof. induction l as [|a l IH]; cbn [filter_map]; [reflexivity|]. destruct (g a); cbn [filter_map]; rewrite IH; reflexivity. Qed.
Lemma filter_map_ext_in {A B} (f g : A -> option B) l : (forall x, In x l -> f x = g x) -> filter_map f l = filter_map g l.
Proof.
  induction l as [|a l IH]; cbn [filter_map]; [reflexivity|]. intro H.
  rewrite (H a (or_introl eq_refl)), IH; [reflexivity|]. intros; apply H; right; assumption.
Qed.

Lemma trim_upto_after_trim1 d t e : ewf d e -> d <= t ->
  match trim1 d e with Some e' => trim_upto t e' | None => None end = trim_upto t e.
Proof.
  intros (Hs & Hne & Hl) Hdt. unfold trim1, trim_upto.
  destruct (e_trig e) as [|x rest] eqn:Et; [congruence|].
  destruct (x =? d) eqn:E.
  - assert (x = d) by lia. subst x. cbn [filter]. replace (t <? d) with false by lia.
    destruct rest; [reflexivity|]. reflexivity.
  - cbn [e_trig e_rec]. reflexivity.
Qed.

Lemma trim_upto_id t e : sorted (e_trig e) -> e_trig e <> [] -> (forall x, In x (e_trig e) -> t < x) -> trim_upto t e = Some e.
Proof.
  intros Hs Hne Hl. unfold trim_upto.
  assert (filter (fun x => t <? x) (e_trig e) = e_trig e) as ->.
  { clear Hs Hne. induction (e_trig e) as [|x l IH]; [reflexivity|]. cbn [filter].
    replace (t <? x) with true by (specialize (Hl x (or_introl eq_refl)); lia). f_equal. apply IH. intros; apply Hl; right; assumption. }
  destruct e as [r tr]. cbn [e_trig e_rec] in *. destruct tr; [congruence|reflexivity].
Qed.

Lemma expect_above r0 tr t : (forall x, In x tr -> t < x) -> expect r0 tr t = [].
Proof. destruct tr as [|m rest]; [reflexivity|]. intro H. cbn [expect]. replace (m <=? t) with false by (specialize (H m (or_introl eq_refl)); lia). reflexivity. Qed.

Theorem fire_exact_spec : forall fuel now c t r,
  GInv now c -> fuel_ok c fuel -> now <= t ->
  GInv t (fst (fire_exact fuel t c)) /\
  c_entries (fst (fire_exact fuel t c)) = filter_map (trim_upto t) (c_entries c) /\
  sigs_for r (snd (fire_exact fuel t c)) =
    match stored r (c_entries c) with Some e => expect (e_rec e) (e_trig e) t | None => [] end /\
  match c_next (fst (fire_exact fuel t c)) with Some n => t < n | None => True end.
Proof.
  induction fuel as [|f IH]; intros now c t r G Hf Hnt.
  - exfalso. destruct Hf as [Hf|[_ Hf]]; lia.
  - cbn [fire_exact]. pose proof G as G0. destruct G as [Hei Hwf Htm Hnx]. rewrite Htm.
    destruct (c_next c) as [d|] eqn:Hn.
    + destruct Hnx as [Hnow Hlow].
      destruct (d <=? t) eqn:Hdt.
      * destruct (firing d now c G0 Hn) as (F1 & F2 & F3 & F4). rewrite Hn in *.
        destruct (on_timeout d (mkCache (c_entries c) (Some d) None)) as [c1 sg] eqn:OT. cbn [fst snd] in *.
        assert (Hf1 : fuel_ok c1 f).
        { right. split; [exact F4|]. rewrite F1. destruct Hf as [Hf|[Ha Hf]].
          - pose proof (total_trim d (c_entries c)). lia.
          - unfold attained in Ha. rewrite Hn in Ha. pose proof (total_trim_strict d (c_entries c) Ha). lia. }
        specialize (IH d c1 t r F3 Hf1 ltac:(lia)). destruct IH as (I1 & I2 & I3 & I4).
        destruct (fire_exact f t c1) as [c2 o] eqn:FE. cbn [fst snd] in *.
        assert (Hewf : forall e, In e (c_entries c) -> ewf d e).
        { intros e He. destruct (Hwf e He) as (H1 & H2 & H3). split; [exact H1|]. split; [exact H2|]. intros x Hx. apply (Hlow e He x Hx). }
        split; [exact I1|]. split; [|split; [|exact I4]].
        -- rewrite I2, F1, filter_map_filter_map. apply filter_map_ext_in. intros e He.
           apply trim_upto_after_trim1; [apply Hewf, He|lia].
        -- unfold sigs_for. rewrite filter_map_app. fold (sigs_for r (map (fun s => OSig d (fst s) (snd s)) sg)).
           fold (sigs_for r o). rewrite I3, F1.
           rewrite (sigs_pass d r sg (c_entries c) (proj2 Hei) F2).
           rewrite (stored_trim d r (c_entries c) (proj2 Hei) Hewf).
           destruct (stored r (c_entries c)) as [e|] eqn:St; [|reflexivity].
           assert (He : In e (c_entries c)).
           { clear -St. induction (c_entries c) as [|x l IHl]; [discriminate|]. cbn [stored] in St.
             destruct (same_data (e_rec x) r); [injection St as <-; left; reflexivity|right; auto]. }
           destruct (Hewf e He) as (Hs & Hne & Hl). unfold sig1, trim1.
           destruct (e_trig e) as [|x rest] eqn:Et; [congruence|].
           destruct (x =? d) eqn:Exd.
           ++ assert (x = d) by lia. subst x. cbn [expect]. replace (d <=? t) with true by lia.
              destruct rest as [|x1 rest']; [reflexivity|]. cbn [e_rec e_trig app]. reflexivity.
           ++ cbn [e_rec e_trig app]. reflexivity.
      * cbn [fst snd]. split; [|split; [|split; [|rewrite Hn; lia]]].
        -- constructor; [exact Hei| |rewrite Hn; exact Htm|].
           ++ intros e He. destruct (Hwf e He) as (H1 & H2 & H3). repeat split; auto. intros x Hx. specialize (H3 x Hx). lia.
           ++ rewrite Hn. split; [lia|exact Hlow].
        -- symmetry. etransitivity; [apply (filter_map_ext_in _ (fun e => Some e))|].
           ++ intros e He. destruct (Hwf e He) as (H1 & H2 & _). apply trim_upto_id; auto.
              intros x Hx. specialize (Hlow e He x Hx). lia.
           ++ clear. induction (c_entries c) as [|a l IHl]; [reflexivity|]. cbn [filter_map]. rewrite IHl. reflexivity.
        -- cbn [sigs_for filter_map]. destruct (stored r (c_entries c)) as [e|] eqn:St; [|reflexivity].
           assert (He : In e (c_entries c)).
           { clear -St. induction (c_entries c) as [|x l IHl]; [discriminate|]. cbn [stored] in St.
             destruct (same_data (e_rec x) r); [injection St as <-; left; reflexivity|right; auto]. }
           symmetry. apply expect_above. intros x Hx. specialize (Hlow e He x Hx). lia.
    + cbn [fst snd]. rewrite Hnx. cbn [filter_map stored sigs_for]. split; [|rewrite Hn; auto].
      constructor; [exact Hei| |rewrite Hn; exact Htm|].
      * rewrite Hnx. intros e [].
      * rewrite Hn. exact Hnx.
Qed.

(* ------------------------------------------------------------------ the schedule built by addRecord *)
Definition TTL_MAX : N := 2000000.
Definition schedule (t0 j : Z) (ttl : N) : list Z :=
  [t0 + Z.of_N ttl * 500 + j; t0 + Z.of_N ttl * 850 + j; t0 + Z.of_N ttl * 900 + j; t0 + Z.of_N ttl * 950 + j;
   t0 + 1000 * Z.of_N ttl].

(* the tie to cache.cpp: multipliers 50/85/90/95 %, expiry at ttl seconds, no 32-bit wrap below TTL_MAX *)
Lemma triggers_value now j ttl : (ttl <= TTL_MAX)%N -> triggers now j ttl = schedule now j ttl.
Proof.
  intro H. unfold triggers, schedule, TTL_MAX in *.
  assert (cache_multipliers = [500; 850; 900; 950]) as -> by reflexivity.
  assert (cache_expiry_ms_per_s = 1000) as -> by reflexivity.
  cbn [map app]. unfold w32.
  change (Z.to_N 500) with 500%N. change (Z.to_N 850) with 850%N. change (Z.to_N 900) with 900%N. change (Z.to_N 950) with 950%N.
  rewrite !N.mod_small by lia.
  repeat (f_equal; try lia).
Qed.

Lemma jitter_bound_ok : cache_jitter_bound <= 20.
Proof. vm_compute. discriminate. Qed.

Lemma schedule_sorted t0 j ttl : (1 <= ttl)%N -> 0 <= j < 20 -> sorted (schedule t0 j ttl).
Proof.
  intros H1 H2. unfold sorted, schedule.
  repeat (apply SSorted_cons; [|repeat (apply Forall_cons; [lia|]); apply Forall_nil]). apply SSorted_nil.
Qed.

Lemma schedule_bounds t0 j ttl x : (1 <= ttl <= TTL_MAX)%N -> 0 <= j < 20 -> In x (schedule t0 j ttl) ->
  t0 < x <= t0 + LIMIT /\ t0 + Z.of_N ttl * 500 + j <= x.
Proof.
  unfold schedule, TTL_MAX, LIMIT. intros H1 H2 H. cbn [In] in H.
  repeat (destruct H as [<-|H]; [lia|]). destruct H.
Qed.

Definition ttl_ok (r : record) : Prop := (r_ttl r <= TTL_MAX)%N.

Lemma add_preserves_GInv now j r c :
  GInv now c -> ttl_ok r -> 0 <= j < 20 -> GInv now (fst (add now j r c)).
Proof.
  intros G Httl Hj. pose proof (add_preserves_EInv now j r c (g_einv _ _ G)) as HE.
  destruct G as [Hei Hwf Htm Hnx].
  unfold add in *. rewrite rearm_match in *. pose proof (scan_entries r [] (c_entries c)) as HK.
  destruct (scan r [] (c_entries c)) as [kept0 sg]. cbn [fst app] in HK. subst kept0.
  set (kept := filter (fun e => negb (matches r e)) (c_entries c)) in *.
  assert (Hk : forall e, In e kept -> In e (c_entries c)) by (intros e He; apply filter_In in He; tauto).
  destruct (r_ttl r =? 0)%N eqn:E0; cbn [fst c_entries] in *.
  - constructor; cbn [c_entries c_next c_timer]; auto.
    destruct (c_next c) as [n|].
    + destruct Hnx as [H1 H2]. split; [exact H1|]. intros e He. apply H2, Hk, He.
    + unfold kept. rewrite Hnx. reflexivity.
  - assert (Ht : (1 <= r_ttl r <= TTL_MAX)%N) by (unfold ttl_ok in Httl; lia).
    rewrite (triggers_value now j (r_ttl r)) in * by lia.
    set (tr := schedule now j (r_ttl r)) in *.
    assert (Hhd : hd now tr = now + Z.of_N (r_ttl r) * 500 + j) by reflexivity.
    assert (Hwf' : forall e, In e (kept ++ [mkEntry r tr]) ->
              sorted (e_trig e) /\ e_trig e <> [] /\ forall x, In x (e_trig e) -> x <= now + LIMIT).
    { intros e He. apply in_app_iff in He as [He|[<-|[]]]; [apply Hwf, Hk, He|].
      cbn [e_trig]. split; [apply schedule_sorted; lia|]. split; [discriminate|].
      intros x Hx. apply (schedule_bounds now j (r_ttl r) x Ht Hj) in Hx. lia. }
    rewrite Hhd in *.
    destruct (match c_next c with Some n => now + Z.of_N (r_ttl r) * 500 + j <? n | None => true end) eqn:RA;
      cbn [fst c_entries] in HE; constructor; cbn [c_entries c_next c_timer fst]; auto.
    + apply timer_start_small. unfold LIMIT, TTL_MAX in *. lia.
    + split; [lia|]. intros e He x Hx. apply in_app_iff in He as [He|[<-|[]]].
      * destruct (c_next c) as [n|].
        -- destruct Hnx as [_ H2]. specialize (H2 e (Hk e He) x Hx). lia.
        -- rewrite Hnx in Hk. destruct (Hk e He).
      * cbn [e_trig] in Hx. apply (schedule_bounds now j (r_ttl r) x Ht Hj) in Hx. lia.
    + destruct (c_next c) as [n|]; [|discriminate]. destruct Hnx as [H1 H2]. split; [exact H1|].
      intros e He x Hx. apply in_app_iff in He as [He|[<-|[]]].
      * apply (H2 e (Hk e He) x Hx).
      * cbn [e_trig] in Hx. apply (schedule_bounds now j (r_ttl r) x Ht Hj) in Hx. lia.
Qed.

(* ------------------------------------------------------------------ the per-record view of a cache *)
Lemma stored_In r es e : stored r es = Some e -> In e es /\ same_data (e_rec e) r = true.
Proof.
  induction es as [|x es IH]; cbn [stored]; [discriminate|].
  destruct (same_data (e_rec x) r) eqn:E.
  - intros [= <-]. split; [left; reflexivity|exact E].
  - intro H. destruct (IH H). split; [right|]; assumption.
Qed.
Lemma stored_None r es : stored r es = None -> forall e, In e es -> same_data (e_rec e) r = false.
Proof.
  induction es as [|x es IH]; cbn [stored]; [intros _ e []|].
  destruct (same_data (e_rec x) r) eqn:E; [discriminate|]. intros H e [<-|He]; [exact E|apply IH; assumption].
Qed.
Lemma stored_filter r f es e : stored r es = Some e -> f e = true -> stored r (filter f es) = Some e.
Proof.
  induction es as [|x es IH]; cbn [stored filter]; [discriminate|].
  destruct (same_data (e_rec x) r) eqn:E.
  - intros [= <-] Hf. rewrite Hf. cbn [stored]. rewrite E. reflexivity.
  - intros H Hf. destruct (f x); [cbn [stored]; rewrite E|]; apply IH; assumption.
Qed.
Lemma stored_app_l r l1 l2 e : stored r l1 = Some e -> stored r (l1 ++ l2) = Some e.
Proof.
  induction l1 as [|x l IH]; cbn [stored app]; [discriminate|]. destruct (same_data (e_rec x) r); auto.
Qed.
Lemma stored_app_r r l1 l2 : stored r l1 = None -> stored r (l1 ++ l2) = stored r l2.
Proof.
  induction l1 as [|x l IH]; cbn [stored app]; [reflexivity|]. destruct (same_data (e_rec x) r); [discriminate|auto].
Qed.
Lemma stored_filter_none r f es : (forall e, In e es -> same_data (e_rec e) r = true -> f e = false) -> stored r (filter f es) = None.
Proof.
  induction es as [|x es IH]; cbn [filter]; [reflexivity|]. intro H.
  destruct (f x) eqn:F.
  - cbn [stored]. destruct (same_data (e_rec x) r) eqn:E.
    + rewrite (H x (or_introl eq_refl) E) in F. discriminate.
    + apply IH. intros; apply H; [right|]; assumption.
  - apply IH. intros; apply H; [right|]; assumption.
Qed.

(* an addition that does not concern record r leaves r's entry - record and schedule - untouched *)
Lemma add_unrelated now j r' c r e :
  stored r (c_entries c) = Some e -> spec_match r' (e_rec e) = false ->
  stored r (c_entries (fst (add now j r' c))) = Some e.
Proof.
  intros St Hm. rewrite add_entries. apply stored_app_l. apply stored_filter; [exact St|].
  unfold matches. rewrite Hm. reflexivity.
Qed.

(* (re-)adding r with a nonzero TTL (re)starts its schedule from now *)
Lemma add_restarts now j r c : (r_ttl r <> 0)%N ->
  stored r (c_entries (fst (add now j r c))) = Some (mkEntry r (triggers now j (r_ttl r))).
Proof.
  intro H. rewrite add_entries. unfold new_entry. apply N.eqb_neq in H. rewrite H.
  rewrite stored_app_r.
  - cbn [stored e_rec]. rewrite same_data_refl. reflexivity.
  - apply stored_filter_none. intros e _ E. unfold matches, spec_match. rewrite E. reflexivity.
Qed.

(* a goodbye withdraws r *)
Lemma add_goodbye now j r c : r_ttl r = 0%N -> stored r (c_entries (fst (add now j r c))) = None.
Proof.
  intro H. rewrite add_entries. unfold new_entry. rewrite H. cbn [N.eqb]. rewrite app_nil_r.
  apply stored_filter_none. intros e _ E. unfold matches, spec_match. rewrite E. reflexivity.
Qed.

(* ------------------------------------------------------------------ expected signals, split by kind *)
Definition is_expired (x : Z * csig) : bool := match snd x with Expired _ => true | ShouldQuery _ => false end.

Lemma last_In (l : list Z) d : l <> [] -> In (last l d) l.
Proof.
  induction l as [|a l IH]; [congruence|]. intros _. destruct l as [|b l]; [left; reflexivity|].
  right. apply IH. discriminate.
Qed.

Lemma expect_expired r0 tr t : sorted tr ->
  filter is_expired (expect r0 tr t) = if last tr (t + 1) <=? t then [(last tr (t + 1), Expired r0)] else [].
Proof.
  induction tr as [|m rest IH]; intro Hs.
  - cbn. replace (t + 1 <=? t) with false by lia. reflexivity.
  - apply sorted_tail in Hs as [Hs Hgt]. cbn [expect].
    destruct (m <=? t) eqn:E.
    + destruct rest as [|m1 rest'].
      * cbn. rewrite E. reflexivity.
      * cbn [filter is_expired snd]. rewrite (IH Hs). reflexivity.
    + cbn [filter]. destruct rest as [|m1 rest']; [cbn; rewrite E; reflexivity|].
      assert (Hl : m < last (m1 :: rest') (t + 1)).
      { apply Hgt. apply last_In. discriminate. }
      change (last (m :: m1 :: rest') (t + 1)) with (last (m1 :: rest') (t + 1)).
      replace (last (m1 :: rest') (t + 1) <=? t) with false by lia. reflexivity.
Qed.

Lemma expect_warnings r0 tr t : sorted tr ->
  filter (fun x => negb (is_expired x)) (expect r0 tr t) =
  map (fun m => (m, ShouldQuery r0)) (filter (fun m => m <=? t) (removelast tr)).
Proof.
  induction tr as [|m rest IH]; intro Hs; [reflexivity|].
  apply sorted_tail in Hs as [Hs Hgt]. cbn [expect].
  destruct rest as [|m1 rest'].
  - cbn [removelast filter map]. destruct (m <=? t); reflexivity.
  - change (removelast (m :: m1 :: rest')) with (m :: removelast (m1 :: rest')). cbn [filter].
    destruct (m <=? t) eqn:E.
    + cbn [filter is_expired snd negb map]. rewrite (IH Hs). reflexivity.
    + cbn [filter]. symmetry.
      assert (forall l, (forall x, In x l -> m < x) -> filter (fun m0 => m0 <=? t) l = []) as F.
      { induction l as [|a l IHl]; [reflexivity|]. intro H. cbn [filter].
        replace (a <=? t) with false by (specialize (H a (or_introl eq_refl)); lia). apply IHl. intros; apply H; right; assumption. }
      rewrite F; [reflexivity|]. intros x Hx. apply Hgt.
      clear -Hx. revert Hx. generalize (m1 :: rest'). induction l as [|a l IHl]; [intros []|].
      destruct l as [|b l]; [intros []|]. change (removelast (a :: b :: l)) with (a :: removelast (b :: l)).
      intros [<-|H]; [left; reflexivity|right; apply IHl, H].
Qed.

(* ------------------------------------------------------------------ every state a script can reach *)
Definition wf_op (o : cop) : Prop :=
  match o with
  | CAdd r j => ttl_ok r /\ 0 <= j < cache_jitter_bound
  | CLate _ => False
  | _ => True
  end.

Lemma GInv_empty : GInv 0 empty_cache.
Proof. constructor; cbn; auto. split; [intros e []|exact I]. intros e []. Qed.

(* whole milliseconds: nothing is due strictly between t - 1 and t *)
Lemma GInv_tick t c :
  GInv (t - 1) c -> match c_next c with Some n => t - 1 < n | None => True end -> GInv t c.
Proof.
  intros [G1 G2 G3 G4] Lt. constructor; auto.
  - intros e He. destruct (G2 e He) as (A & B & C). repeat split; auto. intros x Hx. specialize (C x Hx). lia.
  - destruct (c_next c) as [n|]; [|exact G4]. destruct G4 as [A B]. split; [lia|exact B].
Qed.

Lemma cstep_GInv st o :
  GInv (fst st) (snd st) -> wf_op o -> GInv (fst (fst (cstep st o))) (snd (fst (cstep st o))).
Proof.
  destruct st as [now c]. cbn [fst snd]. intros G W. destruct o as [r j|t|t|t|n ty]; cbn [cstep].
  - destruct W as [W1 W2]. pose proof jitter_bound_ok.
    pose proof (add_preserves_GInv now j r c G W1 ltac:(lia)) as G'.
    destruct (add now j r c) as [c' sg]. exact G'.
  - destruct (t <? now) eqn:E; [exact G|].
    assert (Hf : fuel_ok c (S (S (total_triggers c)))) by (left; rewrite total_is; lia).
    destruct (fire_exact_spec (S (S (total_triggers c))) now c t default_record G Hf ltac:(lia)) as (G' & _).
    destruct (fire_exact (S (S (total_triggers c))) t c) as [c' o]. exact G'.
  - destruct W.
  - destruct (t <=? now) eqn:E; [exact G|].
    assert (Hf : fuel_ok c (S (S (total_triggers c)))) by (left; rewrite total_is; lia).
    destruct (fire_exact_spec (S (S (total_triggers c))) now c (t - 1) default_record G Hf ltac:(lia)) as (G' & _ & _ & Lt).
    destruct (fire_exact (S (S (total_triggers c))) (t - 1) c) as [c' o]. cbn [fst snd] in *.
    apply GInv_tick; assumption.
  - exact G.
Qed.

Definition cstate_after (st : Z * cache) (ops : list cop) : Z * cache :=
  fold_left (fun st o => fst (cstep st o)) ops st.

Theorem crun_GInv ops : Forall wf_op ops ->
  GInv (fst (cstate_after (0, empty_cache) ops)) (snd (cstate_after (0, empty_cache) ops)).
Proof.
  unfold cstate_after.
  assert (G0 : GInv (fst (0, empty_cache)) (snd (0, empty_cache))) by exact GInv_empty.
  revert G0. generalize (0, empty_cache) as st.
  induction ops as [|o ops IH]; intros st G W; cbn [fold_left]; [exact G|].
  inversion W as [|? ? W1 W2]; subst. apply IH; [|exact W2]. apply cstep_GInv; assumption.
Qed.

(* the advance that leaves what is due exactly at t pending: everything strictly before t has happened,
   the entries are those of an exact advance to t - 1, and the clock reads t *)
Theorem cadvb_spec now c t r :
  GInv now c -> now < t ->
  let res := cstep (now, c) (CAdvB t) in
  fst (fst res) = t /\ GInv t (snd (fst res)) /\
  c_entries (snd (fst res)) = filter_map (trim_upto (t - 1)) (c_entries c) /\
  sigs_for r (snd res) = match stored r (c_entries c) with Some e => expect (e_rec e) (e_trig e) (t - 1) | None => [] end.
Proof.
  intros G Hnt. cbn [cstep]. replace (t <=? now) with false by lia.
  assert (Hf : fuel_ok c (S (S (total_triggers c)))) by (left; rewrite total_is; lia).
  destruct (fire_exact_spec (S (S (total_triggers c))) now c (t - 1) r G Hf ltac:(lia)) as (G' & E & Sg & Lt).
  destruct (fire_exact (S (S (total_triggers c))) (t - 1) c) as [c' o]. cbn [fst snd] in *.
  split; [reflexivity|]. split; [apply GInv_tick; assumption|]. auto.
Qed.

(* the advance operation of a script, in closed form *)
Theorem cadv_spec now c t r :
  GInv now c -> now <= t ->
  let res := cstep (now, c) (CAdv t) in
  fst (fst res) = t /\ GInv t (snd (fst res)) /\
  c_entries (snd (fst res)) = filter_map (trim_upto t) (c_entries c) /\
  sigs_for r (snd res) = match stored r (c_entries c) with Some e => expect (e_rec e) (e_trig e) t | None => [] end.
Proof.
  intros G Hnt. cbn [cstep]. replace (t <? now) with false by lia.
  assert (Hf : fuel_ok c (S (S (total_triggers c)))) by (left; rewrite total_is; lia).
  destruct (fire_exact_spec (S (S (total_triggers c))) now c t r G Hf Hnt) as (G' & E & Sg & _).
  destruct (fire_exact (S (S (total_triggers c))) t c) as [c' o]. cbn [fst snd] in *. auto.
Qed.
