(* BrowserTimers.v — C19: once created, a browser always has its periodic-question timer armed for exactly one period
   after its latest browse question, in every state the virtual-time kernel reaches (any messages, any number of
   browsers and caches, any clock advances, timers firing at or after their deadline). *)
From QV Require Import Base Fields SrcFacts Msg SrcDecisions Cache CacheSpec CacheProofs Sim SimProofs Prober Resolver Browser BrowserProofs BrowserInv.
From Coq Require Import ZifyBool ZifyNat ZifyN.
Local Open Scope Z_scope.

Definition touches (tid : N) (e : eff) : bool :=
  match e with EStart t _ | EStop t => (t =? tid)%N | _ => false end.
Definition tfree (tid : N) (es : list eff) : Prop := Forall (fun e => touches tid e = false) es.
(* no timer of residue 1 (the browse-question timers) is started or stopped *)
Definition qfree (es : list eff) : Prop :=
  Forall (fun e => match e with EStart t _ | EStop t => (t mod 3 <> 1)%N | _ => True end) es.

Lemma qfree_tfree j es : qfree es -> tfree (T_QUERY_OF j) es.
Proof.
  unfold qfree, tfree. apply Forall_impl. intros e H. destruct e as [m|m|ob sg p|t ms|t|rs]; cbn; try reflexivity;
    apply N.eqb_neq; intro E; subst t; apply H; unfold T_QUERY_OF; lia.
Qed.
Lemma qfree_nil : qfree [].
Proof. constructor. Qed.
Lemma qfree_app a b : qfree a -> qfree b -> qfree (a ++ b).
Proof. unfold qfree. intros. apply Forall_app. auto. Qed.
Lemma cache_timer_qfree (o : option Z) ci now : qfree (match o with Some d => [EStart (T_CACHE_OF ci) (d - now)] | None => [] end).
Proof. destruct o; [|constructor]. constructor; [|constructor]. unfold T_CACHE_OF. lia. Qed.

Lemma update_service_qfree j v fq b : qfree (snd (update_service j v fq b)).
Proof.
  unfold update_service. destruct (split_fq fq) as [sname stype].
  destruct (browser_not_of_interest _ _); [constructor|]. destruct (lookup_view stype T_PTR v); [constructor|].
  destruct (lookup_view fq T_SRV v); [constructor|]. cbn [snd].
  destruct (smap_find (bs_data fq) (b_services b)); [destruct (service_eqb _ _)|]; repeat constructor.
Qed.
Lemma record_expired_qfree j v r b : qfree (snd (on_record_expired j v r b)).
Proof.
  unfold on_record_expired. destruct (r_type r =? T_SRV)%N.
  - destruct (smap_find _ _); [|constructor]. destruct (bs_is_null _); repeat constructor.
  - destruct (r_type r =? T_TXT)%N; [|constructor].
    pose proof (update_service_qfree j v (r_name r) b) as U. destruct (update_service j v (r_name r) b) as [[n b'] es]. exact U.
Qed.
Lemma slots_for_qfree ci sg v : forall bs j0, qfree (snd (slots_for ci sg v j0 bs)).
Proof.
  induction bs as [|b bs IH]; intro j0; cbn [slots_for]; [constructor|].
  assert (H : qfree (snd (if Nat.eqb (b_cache b) ci then match sg with ShouldQuery r => (b, on_should_query r) | Expired r => on_record_expired j0 v r b end else (b, [])))).
  { destruct (Nat.eqb (b_cache b) ci); [|constructor]. destruct sg as [r|r]; [repeat constructor|apply record_expired_qfree]. }
  destruct (if Nat.eqb (b_cache b) ci then _ else _) as [b' e]. specialize (IH (S j0)). destruct (slots_for ci sg v (S j0) bs) as [bs'' e'].
  apply qfree_app; assumption.
Qed.
Lemma deliver_signals_qfree ci : forall sgs bs, qfree (snd (deliver_signals ci sgs bs)).
Proof.
  induction sgs as [|[sg v] sgs IH]; intro bs; cbn [deliver_signals]; [constructor|].
  pose proof (slots_for_qfree ci sg v bs 0%nat) as H. destruct (slots_for ci sg v 0 bs) as [bs1 e1].
  specialize (IH bs1). destruct (deliver_signals ci sgs bs1) as [bs2 e2]. apply qfree_app; assumption.
Qed.
Lemma world_cache_add_qfree now ci r w : qfree (snd (world_cache_add now ci r w)).
Proof.
  unfold world_cache_add. destruct (nth_error (w_caches w) ci) as [c|]; [|constructor].
  destruct (add now (w_jitter w) r c) as [c' sgs].
  pose proof (deliver_signals_qfree ci sgs (w_browsers w)) as D. destruct (deliver_signals ci sgs (w_browsers w)) as [bs es].
  apply qfree_app; [exact D|]. destruct (add_rearms now (w_jitter w) r c); [apply cache_timer_qfree|constructor].
Qed.
Lemma world_cache_timeout_qfree now ci w : qfree (snd (world_cache_timeout now ci w)).
Proof.
  unfold world_cache_timeout. destruct (nth_error (w_caches w) ci) as [c|]; [|constructor].
  destruct (on_timeout now (mkCache (c_entries c) (c_next c) None)) as [c' sgs].
  pose proof (deliver_signals_qfree ci sgs (w_browsers w)) as D. destruct (deliver_signals ci sgs (w_browsers w)) as [bs es].
  apply qfree_app; [exact D|apply cache_timer_qfree].
Qed.
Lemma browser_cache_records_qfree now j : forall rs nms nulls w, qfree (snd (browser_cache_records now j rs nms nulls w)).
Proof.
  induction rs as [|r rs IH]; intros nms nulls w; cbn [browser_cache_records]; [constructor|].
  destruct (nth_error (w_browsers w) j) as [b|]; [|constructor].
  destruct (classify _ r) as [[keep upd] tgt].
  assert (H1 : qfree (snd (match tgt with
            | Some t => (mkWorld (w_caches w) (replace_nth j (mkBrowser (b_type b) (b_cache b) (b_services b) (b_hostnames b)
                                   (set_insert (bs_data t) (b_ptr_targets b))) (w_browsers w)) (w_jitter w),
                         [EStart (T_SERVICE_OF j) service_batch_ms])
            | None => (w, []) end))).
  { destruct tgt; [|constructor]. constructor; [|constructor]. unfold T_SERVICE_OF. lia. }
  destruct (match tgt with Some t => _ | None => _ end) as [w1 e1].
  assert (H2 : qfree (snd (if keep then world_cache_add now (b_cache b) r w1 else (w1, [])))).
  { destruct keep; [apply world_cache_add_qfree|constructor]. }
  destruct (if keep then _ else _) as [w2 e2].
  match goal with |- context [browser_cache_records now j rs ?n ?l w2] =>
    specialize (IH n l w2); destruct (browser_cache_records now j rs n l w2) as [[[w3 nm] nl] e3] end.
  cbn [snd] in *. apply qfree_app; [exact H1|]. apply qfree_app; assumption.
Qed.
Lemma browser_update_names_qfree j nulls : forall nms w queries, qfree (snd (browser_update_names j nms nulls w queries)).
Proof.
  induction nms as [|n nms IH]; intros w queries; cbn [browser_update_names]; [constructor|].
  destruct (nth_error (w_browsers w) j) as [b|]; [|constructor].
  match goal with |- context [update_service j ?v ?fq b] =>
    pose proof (update_service_qfree j v fq b) as U; destruct (update_service j v fq b) as [[need b'] es] end.
  match goal with |- context [browser_update_names j nms nulls ?w1 ?q1] =>
    specialize (IH w1 q1); destruct (browser_update_names j nms nulls w1 q1) as [[w'' qs] es'] end.
  cbn [snd] in *. apply qfree_app; assumption.
Qed.
Lemma browser_cache_addresses_qfree now j : forall rs w, qfree (snd (browser_cache_addresses now j rs w)).
Proof.
  induction rs as [|r rs IH]; intro w; cbn [browser_cache_addresses]; [constructor|].
  destruct (nth_error (w_browsers w) j) as [b|]; [|constructor].
  assert (H1 : qfree (snd (if ((r_type r =? T_A)%N || (r_type r =? T_AAAA)%N) && set_mem (bs_data (r_name r)) (b_hostnames b)
                           then world_cache_add now (b_cache b) r w else (w, [])))).
  { destruct (_ && _); [apply world_cache_add_qfree|constructor]. }
  destruct (if ((r_type r =? T_A)%N || (r_type r =? T_AAAA)%N) && set_mem (bs_data (r_name r)) (b_hostnames b) then _ else _) as [w1 e1].
  specialize (IH w1). destruct (browser_cache_addresses now j rs w1) as [w2 e2]. cbn [snd] in *. apply qfree_app; assumption.
Qed.
Lemma browser_on_message_qfree now j m w : qfree (snd (browser_on_message now j m w)).
Proof.
  unfold browser_on_message. destruct (negb (m_response m)); [constructor|].
  pose proof (browser_cache_records_qfree now j (m_records m) [] false w) as H1.
  destruct (browser_cache_records now j (m_records m) [] false w) as [[[w1 nms] nulls] e1].
  pose proof (browser_update_names_qfree j nulls nms w1 []) as H2.
  destruct (browser_update_names j nms nulls w1 []) as [[w2 qnames] e2].
  pose proof (browser_cache_addresses_qfree now j (m_records m) w2) as H3.
  destruct (browser_cache_addresses now j (m_records m) w2) as [w3 e3]. cbn [snd] in *.
  apply qfree_app; [exact H1|]. apply qfree_app; [exact H2|]. apply qfree_app; [exact H3|]. destruct qnames; repeat constructor.
Qed.
Lemma all_browsers_qfree now m : forall n j w, qfree (snd (all_browsers_on_message now j n m w)).
Proof.
  induction n as [|n IH]; intros j w; cbn [all_browsers_on_message]; [constructor|].
  pose proof (browser_on_message_qfree now j m w) as H1. destruct (browser_on_message now j m w) as [w1 e1].
  specialize (IH (S j) w1). destruct (all_browsers_on_message now (S j) n m w1) as [w2 e2]. cbn [snd] in *. apply qfree_app; assumption.
Qed.
Lemma service_timeout_qfree j w : qfree (snd (browser_service_timeout j w)).
Proof.
  unfold browser_service_timeout. destruct (nth_error (w_browsers w) j); [|constructor]. destruct (b_ptr_targets b); repeat constructor.
Qed.

(* ---- the number of browsers changes only when one is created ---- *)
Lemma replace_nth_length {A} (l : list A) j x y : nth_error l j = Some y -> length (replace_nth j x l) = length l.
Proof.
  unfold replace_nth. revert j. induction l as [|a l IH]; intros [|j] H; cbn in *; try discriminate; [reflexivity|].
  f_equal. apply IH, H.
Qed.
Lemma slots_for_len ci sg v : forall bs j0, length (fst (slots_for ci sg v j0 bs)) = length bs.
Proof.
  induction bs as [|b bs IH]; intro j0; cbn [slots_for]; [reflexivity|].
  destruct (if Nat.eqb (b_cache b) ci then _ else _) as [b' e]. specialize (IH (S j0)). destruct (slots_for ci sg v (S j0) bs) as [bs'' e'].
  cbn [fst length] in *. f_equal. exact IH.
Qed.
Lemma deliver_signals_len ci : forall sgs bs, length (fst (deliver_signals ci sgs bs)) = length bs.
Proof.
  induction sgs as [|[sg v] sgs IH]; intro bs; cbn [deliver_signals]; [reflexivity|].
  pose proof (slots_for_len ci sg v bs 0%nat) as H. destruct (slots_for ci sg v 0 bs) as [bs1 e1].
  specialize (IH bs1). destruct (deliver_signals ci sgs bs1) as [bs2 e2]. cbn [fst] in *. congruence.
Qed.
Definition nb (w : world) : nat := length (w_browsers w).
Lemma world_cache_add_len now ci r w : nb (fst (world_cache_add now ci r w)) = nb w.
Proof.
  unfold world_cache_add, nb. destruct (nth_error (w_caches w) ci) as [c|]; [|reflexivity].
  destruct (add now (w_jitter w) r c) as [c' sgs].
  pose proof (deliver_signals_len ci sgs (w_browsers w)) as D. destruct (deliver_signals ci sgs (w_browsers w)) as [bs es]. exact D.
Qed.
Lemma world_cache_timeout_len now ci w : nb (fst (world_cache_timeout now ci w)) = nb w.
Proof.
  unfold world_cache_timeout, nb. destruct (nth_error (w_caches w) ci) as [c|]; [|reflexivity].
  destruct (on_timeout now (mkCache (c_entries c) (c_next c) None)) as [c' sgs].
  pose proof (deliver_signals_len ci sgs (w_browsers w)) as D. destruct (deliver_signals ci sgs (w_browsers w)) as [bs es]. exact D.
Qed.
Lemma browser_cache_records_len now j : forall rs nms nulls w, nb (fst (fst (fst (browser_cache_records now j rs nms nulls w)))) = nb w.
Proof.
  induction rs as [|r rs IH]; intros nms nulls w; cbn [browser_cache_records]; [reflexivity|].
  destruct (nth_error (w_browsers w) j) as [b|] eqn:Nb; [|reflexivity].
  destruct (classify _ r) as [[keep upd] tgt].
  assert (H1 : nb (fst (match tgt with
            | Some t => (mkWorld (w_caches w) (replace_nth j (mkBrowser (b_type b) (b_cache b) (b_services b) (b_hostnames b)
                                   (set_insert (bs_data t) (b_ptr_targets b))) (w_browsers w)) (w_jitter w),
                         [EStart (T_SERVICE_OF j) service_batch_ms])
            | None => (w, []) end)) = nb w).
  { destruct tgt; [|reflexivity]. unfold nb. cbn [fst w_browsers]. eapply replace_nth_length, Nb. }
  destruct (match tgt with Some t => _ | None => _ end) as [w1 e1].
  assert (H2 : nb (fst (if keep then world_cache_add now (b_cache b) r w1 else (w1, []))) = nb w1).
  { destruct keep; [apply world_cache_add_len|reflexivity]. }
  destruct (if keep then _ else _) as [w2 e2].
  match goal with |- context [browser_cache_records now j rs ?n ?l w2] =>
    specialize (IH n l w2); destruct (browser_cache_records now j rs n l w2) as [[[w3 nm] nl] e3] end.
  cbn [fst] in *. congruence.
Qed.
Lemma browser_update_names_len j nulls : forall nms w queries, nb (fst (fst (browser_update_names j nms nulls w queries))) = nb w.
Proof.
  induction nms as [|n nms IH]; intros w queries; cbn [browser_update_names]; [reflexivity|].
  destruct (nth_error (w_browsers w) j) as [b|] eqn:Nb; [|reflexivity].
  match goal with |- context [update_service j ?v ?fq b] => destruct (update_service j v fq b) as [[need b'] es] end.
  match goal with |- context [browser_update_names j nms nulls ?w1 ?q1] =>
    specialize (IH w1 q1); destruct (browser_update_names j nms nulls w1 q1) as [[w'' qs] es'] end.
  cbn [fst] in *. rewrite IH. unfold nb. cbn [w_browsers]. eapply replace_nth_length, Nb.
Qed.
Lemma browser_cache_addresses_len now j : forall rs w, nb (fst (browser_cache_addresses now j rs w)) = nb w.
Proof.
  induction rs as [|r rs IH]; intro w; cbn [browser_cache_addresses]; [reflexivity|].
  destruct (nth_error (w_browsers w) j) as [b|]; [|reflexivity].
  assert (H1 : nb (fst (if ((r_type r =? T_A)%N || (r_type r =? T_AAAA)%N) && set_mem (bs_data (r_name r)) (b_hostnames b)
                        then world_cache_add now (b_cache b) r w else (w, []))) = nb w).
  { destruct (_ && _); [apply world_cache_add_len|reflexivity]. }
  destruct (if ((r_type r =? T_A)%N || (r_type r =? T_AAAA)%N) && set_mem (bs_data (r_name r)) (b_hostnames b) then _ else _) as [w1 e1].
  specialize (IH w1). destruct (browser_cache_addresses now j rs w1) as [w2 e2]. cbn [fst] in *. congruence.
Qed.
Lemma browser_on_message_len now j m w : nb (fst (browser_on_message now j m w)) = nb w.
Proof.
  unfold browser_on_message. destruct (negb (m_response m)); [reflexivity|].
  pose proof (browser_cache_records_len now j (m_records m) [] false w) as H1.
  destruct (browser_cache_records now j (m_records m) [] false w) as [[[w1 nms] nulls] e1].
  pose proof (browser_update_names_len j nulls nms w1 []) as H2.
  destruct (browser_update_names j nms nulls w1 []) as [[w2 qnames] e2].
  pose proof (browser_cache_addresses_len now j (m_records m) w2) as H3.
  destruct (browser_cache_addresses now j (m_records m) w2) as [w3 e3]. cbn [fst] in *. congruence.
Qed.
Lemma all_browsers_len now m : forall n j w, nb (fst (all_browsers_on_message now j n m w)) = nb w.
Proof.
  induction n as [|n IH]; intros j w; cbn [all_browsers_on_message]; [reflexivity|].
  pose proof (browser_on_message_len now j m w) as H1. destruct (browser_on_message now j m w) as [w1 e1].
  specialize (IH (S j) w1). destruct (all_browsers_on_message now (S j) n m w1) as [w2 e2]. cbn [fst] in *. congruence.
Qed.
Lemma service_timeout_len j w : nb (fst (browser_service_timeout j w)) = nb w.
Proof.
  unfold browser_service_timeout. destruct (nth_error (w_browsers w) j) eqn:Nb; [|reflexivity]. destruct (b_ptr_targets b); [reflexivity|].
  unfold nb. cbn [fst w_browsers]. eapply replace_nth_length, Nb.
Qed.
Lemma world_handle_len now w ev :
  match ev with EvApi (BNewBrowser _ _) => False | _ => True end -> nb (fst (world_handle now w ev)) = nb w.
Proof.
  intro H. destruct ev as [m|tid|a]; cbn [world_handle].
  - apply all_browsers_len.
  - destruct (tid mod 3 =? 0)%N; [apply world_cache_timeout_len|]. destruct (tid mod 3 =? 1)%N; [reflexivity|apply service_timeout_len].
  - destruct a as [|ty co|jt|ci r jt|ci n ty]; try reflexivity; [destruct H|].
    pose proof (world_cache_add_len now ci r (mkWorld (w_caches w) (w_browsers w) jt)) as L. exact L.
Qed.

(* ---- timers under apply_effs ---- *)
Lemma tm_remove_in tid (tm : timers) x : fst (fst x) <> tid -> (In x (tm_remove tid tm) <-> In x tm).
Proof.
  intro H. unfold tm_remove. rewrite filter_In. destruct x as [[i d] sq]. cbn in H. split; [tauto|].
  intro Hin. split; [exact Hin|]. apply negb_true_iff, N.eqb_neq. exact H.
Qed.
Lemma apply_effs_keep tid now : forall es tm sq, tfree tid es ->
  forall x, fst (fst x) = tid -> (In x (fst (fst (apply_effs now tm sq es))) <-> In x tm).
Proof.
  induction es as [|e es IH]; intros tm sq F x Hx; cbn [apply_effs]; [reflexivity|].
  inversion F as [|? ? Fe F']; subst.
  destruct e as [m|m|ob sg p|t ms|t|rs]; cbn [touches] in Fe.
  - specialize (IH tm sq F' x eq_refl). destruct (apply_effs now tm sq es) as [[tm' sq'] o]. exact IH.
  - specialize (IH tm sq F' x eq_refl). destruct (apply_effs now tm sq es) as [[tm' sq'] o]. exact IH.
  - specialize (IH tm sq F' x eq_refl). destruct (apply_effs now tm sq es) as [[tm' sq'] o]. exact IH.
  - apply N.eqb_neq in Fe. rewrite (IH _ _ F' x eq_refl). rewrite in_app_iff. rewrite tm_remove_in by congruence.
    split; [intros [H|[H|[]]]; [exact H|subst x; cbn in Fe; congruence]|tauto].
  - apply N.eqb_neq in Fe. rewrite (IH _ _ F' x eq_refl). apply tm_remove_in. congruence.
  - specialize (IH tm sq F' x eq_refl). destruct (apply_effs now tm sq es) as [[tm' sq'] o]. exact IH.
Qed.

(* ---- the invariant ---- *)
Section Q.
  Variable j : nat.
  Let TQ := T_QUERY_OF j.

  (* ghost: the instant of browser j's latest browse question (None before it exists) *)
  Definition qstep (now : Z) (w : world) (ev : event bapi) (g : option Z) : option Z :=
    match ev with
    | EvApi (BNewBrowser _ _) => if Nat.eqb (length (w_browsers w)) j then Some now else g
    | EvTimer tid => if (tid =? TQ)%N then match nth_error (w_browsers w) j with Some _ => Some now | None => g end else g
    | _ => g
    end.

  Definition QInv (s : sim world) (g : option Z) : Prop :=
    match g with
    | None => (nb (s_st s) <= j)%nat
    | Some t =>
        (exists b, nth_error (w_browsers (s_st s)) j = Some b) /\
        (exists d sq, In (TQ, d, sq) (s_tm s)) /\
        (forall d sq, In (TQ, d, sq) (s_tm s) -> d = t + browse_period_ms) /\ t <= s_now s
    end.

  Lemma exists_preserved now w ev b :
    nth_error (w_browsers w) j = Some b -> exists b', nth_error (w_browsers (fst (world_handle now w ev))) j = Some b'.
  Proof.
    intro H. pose proof (world_handle_step now w ev) as S. destruct (world_handle now w ev) as [w' es].
    destruct S as [S _]. destruct (S j b H) as (b' & N' & _). exists b'. exact N'.
  Qed.

  Lemma dispatch_st (s : sim world) ev : s_st (fst (dispatch world bapi world_handle s ev)) = fst (world_handle (s_now s) (s_st s) ev).
  Proof.
    unfold dispatch. destruct (world_handle (s_now s) (s_st s) ev) as [w' es].
    destruct (apply_effs (s_now s) (s_tm s) (s_seq s) es) as [[tm' sq'] o]. reflexivity.
  Qed.

  Lemma QInv_free (s : sim world) g ev :
    (g = None -> match ev with EvApi (BNewBrowser _ _) => False | _ => True end) ->
    tfree TQ (snd (world_handle (s_now s) (s_st s) ev)) -> QInv s g ->
    QInv (fst (dispatch world bapi world_handle s ev)) g.
  Proof.
    intros Hev F I. destruct g as [t|].
    2:{ cbn [QInv] in *. rewrite dispatch_st, world_handle_len; [exact I|apply Hev; reflexivity]. }
    destruct I as ((b & Nb) & (d & sq & Hin) & Hall & Ht).
    unfold dispatch. pose proof (exists_preserved (s_now s) (s_st s) ev b Nb) as E.
    destruct (world_handle (s_now s) (s_st s) ev) as [w' es]. cbn [fst snd] in *.
    pose proof (apply_effs_keep TQ (s_now s) es (s_tm s) (s_seq s) F) as K.
    destruct (apply_effs (s_now s) (s_tm s) (s_seq s) es) as [[tm' sq'] o]. cbn [fst snd s_st s_tm s_now] in *.
    split; [exact E|]. split; [exists d, sq; apply (K (TQ, d, sq) eq_refl); exact Hin|].
    split; [|exact Ht]. intros d' sq2 H. apply (Hall d' sq2). apply (K (TQ, d', sq2) eq_refl). exact H.
  Qed.

  Lemma query_timeout_other j' w : j' <> j -> tfree TQ (browser_query_timeout j' w).
  Proof.
    intro H. unfold browser_query_timeout. destruct (nth_error (w_browsers w) j'); [|constructor].
    constructor; [reflexivity|]. constructor; [|constructor]. cbn. apply N.eqb_neq. unfold TQ, T_QUERY_OF. lia.
  Qed.

  Lemma QInv_armed now tm sq (w w' : world) b m :
    nth_error (w_browsers w') j = Some b ->
    let '(tm', sq', o) := apply_effs now tm sq [ESendAll m; EStart TQ browse_period_ms] in
    QInv (mkSim now tm' sq' w') (Some now).
  Proof.
    intro Nb. cbn [apply_effs]. cbn [QInv s_st s_tm s_now].
    split; [exists b; exact Nb|]. split; [eexists _, _; apply in_app_iff; right; left; reflexivity|].
    split; [|lia]. intros d sq0 H. apply in_app_iff in H as [H|[H|[]]]; [|injection H as <- _; reflexivity].
    exfalso. unfold tm_remove in H. apply filter_In in H as [_ H]. rewrite N.eqb_refl in H. discriminate.
  Qed.

  Definition w0 : sim world := mkSim 0 [] 0%N (mkWorld [] [] 0).

  Theorem query_timer_invariant s g : kreach world bapi (option Z) world_handle qstep w0 None s g -> QInv s g.
  Proof.
    induction 1 as [|s g t _ I Ht|s g ev _ I Hev|s g tid d sq _ I Hin Hd].
    - cbn. lia.
    - destruct g as [t0|]; [|exact I]. destruct I as (A & B & C & D). cbn [QInv s_st s_tm s_now]. repeat split; auto. lia.
    - destruct ev as [m|tid|a]; [|destruct Hev|].
      + cbn [qstep]. apply QInv_free; [intros _; exact Logic.I|apply qfree_tfree; cbn [world_handle]; apply all_browsers_qfree|exact I].
      + destruct a as [|ty co|jt|ci r jt|ci n ty]; cbn [qstep].
        * apply QInv_free; [intros _; exact Logic.I|constructor|exact I].
        * destruct (Nat.eqb (length (w_browsers (s_st s))) j) eqn:E.
          -- apply Nat.eqb_eq in E. unfold dispatch. cbn [world_handle].
             destruct co as [ci|].
             ++ set (w' := mkWorld (w_caches (s_st s)) (w_browsers (s_st s) ++ [mkBrowser ty ci [] [] []]) (w_jitter (s_st s))).
                assert (Nb : nth_error (w_browsers w') j = Some (mkBrowser ty ci [] [] [])).
                { unfold w'. cbn [w_browsers]. rewrite nth_error_app2 by lia. rewrite E, Nat.sub_diag. reflexivity. }
                unfold browser_query_timeout. rewrite E, Nb.
                match goal with |- context [ESendAll ?m] => pose proof (QInv_armed (s_now s) (s_tm s) (s_seq s) (s_st s) w' _ m Nb) as A end.
                fold TQ. destruct (apply_effs (s_now s) (s_tm s) (s_seq s) _) as [[tm' sq'] o]. exact A.
             ++ set (w' := mkWorld (w_caches (s_st s) ++ [empty_cache]) (w_browsers (s_st s) ++ [mkBrowser ty (length (w_caches (s_st s))) [] [] []]) (w_jitter (s_st s))).
                assert (Nb : nth_error (w_browsers w') j = Some (mkBrowser ty (length (w_caches (s_st s))) [] [] [])).
                { unfold w'. cbn [w_browsers]. rewrite nth_error_app2 by lia. rewrite E, Nat.sub_diag. reflexivity. }
                unfold browser_query_timeout. rewrite E, Nb.
                match goal with |- context [ESendAll ?m] => pose proof (QInv_armed (s_now s) (s_tm s) (s_seq s) (s_st s) w' _ m Nb) as A end.
                fold TQ. destruct (apply_effs (s_now s) (s_tm s) (s_seq s) _) as [[tm' sq'] o]. exact A.
          -- apply Nat.eqb_neq in E. destruct g as [t|].
             ++ apply QInv_free; [discriminate| |exact I]. cbn [world_handle].
                destruct co as [ci|]; cbn [snd]; apply query_timeout_other; congruence.
             ++ cbn [QInv] in *. rewrite dispatch_st. cbn [world_handle]. unfold nb in *.
                destruct co as [ci|]; cbn [fst w_browsers]; rewrite app_length; cbn [length]; lia.
        * apply QInv_free; [intros _; exact Logic.I|constructor|exact I].
        * apply QInv_free; [intros _; exact Logic.I|apply qfree_tfree; cbn [world_handle]; apply world_cache_add_qfree|exact I].
        * apply QInv_free; [intros _; exact Logic.I|repeat constructor|exact I].
    - (* a timer fires *)
      set (s1 := mkSim (s_now s) (tm_remove tid (s_tm s)) (s_seq s) (s_st s)).
      assert (I1 : tid <> TQ -> QInv s1 g).
      { intro E. destruct g as [t|]; [|exact I]. destruct I as (A & (d0 & sq0 & B) & C & D). unfold s1. cbn [QInv s_st s_tm s_now].
        split; [exact A|]. split; [exists d0, sq0; apply tm_remove_in; [cbn; congruence|exact B]|]. split; [|exact D].
        intros d' sq' H. apply (C d' sq'). apply tm_remove_in in H; [exact H|cbn; congruence]. }
      cbn [qstep]. destruct (tid =? TQ)%N eqn:E.
      + apply N.eqb_eq in E. subst tid.
        destruct (nth_error (w_browsers (s_st s)) j) as [b|] eqn:Nb.
        * unfold dispatch. cbn [s1 s_now s_st s_tm s_seq world_handle].
          replace (TQ mod 3 =? 0)%N with false by (unfold TQ, T_QUERY_OF; lia).
          replace (TQ mod 3 =? 1)%N with true by (unfold TQ, T_QUERY_OF; lia).
          replace (N.to_nat (TQ / 3)) with j by (unfold TQ, T_QUERY_OF; lia).
          unfold browser_query_timeout. rewrite Nb.
          match goal with |- context [ESendAll ?m] => pose proof (QInv_armed (s_now s) (tm_remove TQ (s_tm s)) (s_seq s) (s_st s) (s_st s) _ m Nb) as A end.
          fold TQ. destruct (apply_effs (s_now s) (tm_remove TQ (s_tm s)) (s_seq s) _) as [[tm' sq'] o]. exact A.
        * destruct g as [t|]; [destruct I as ((b & Nb') & _); congruence|].
          cbn [QInv] in *. rewrite dispatch_st, world_handle_len; [exact I|exact Logic.I].
      + apply N.eqb_neq in E. specialize (I1 E).
        change (s_now s) with (s_now s1). change (s_st s) with (s_st s1).
        apply QInv_free; [intros _; exact Logic.I| |exact I1]. cbn [s1 s_now s_st world_handle].
        destruct (tid mod 3 =? 0)%N eqn:M0; [apply qfree_tfree, world_cache_timeout_qfree|].
        destruct (tid mod 3 =? 1)%N eqn:M1; [|apply qfree_tfree, service_timeout_qfree].
        cbn [snd]. apply query_timeout_other. intro X. apply E. unfold TQ, T_QUERY_OF. lia.
  Qed.

  (* what firing the timer does: the browse question with the known answers, and the timer again one period ahead *)
  Lemma query_timer_fires w b :
    nth_error (w_browsers w) j = Some b ->
    exists m, snd (world_handle 0 w (EvTimer TQ)) = [ESendAll m; EStart TQ browse_period_ms] /\
      m_response m = false /\ m_queries m = [mkQuery (b_type b) T_PTR false] /\
      m_records m = lookup_view (b_type b) T_PTR (match nth_error (w_caches w) (b_cache b) with Some c => view_of c | None => [] end).
  Proof.
    intro Nb. cbn [world_handle].
    replace (TQ mod 3 =? 0)%N with false by (unfold TQ, T_QUERY_OF; lia).
    replace (TQ mod 3 =? 1)%N with true by (unfold TQ, T_QUERY_OF; lia).
    replace (N.to_nat (TQ / 3)) with j by (unfold TQ, T_QUERY_OF; lia). cbn [snd].
    exact (query_timeout_spec j w b Nb).
  Qed.

  (* every script of the executable model *)
  Theorem query_timer_invariant_runs fuel ops :
    exists g, QInv (state_after world bapi world_handle fuel w0 ops) g.
  Proof.
    destruct (run_kreach world bapi (option Z) world_handle qstep w0 None fuel ops) as [g R].
    exists g. apply query_timer_invariant, R.
  Qed.
End Q.

(* a refresh warning of cache ci reaches every browser attached to that cache, in creation order: each asks for the
   record's name and type; nothing else happens *)
Lemma should_query_slots ci r v : forall bs j0,
  slots_for ci (ShouldQuery r) v j0 bs =
  (bs, concat (map (fun b => if Nat.eqb (b_cache b) ci then on_should_query r else []) bs)).
Proof.
  induction bs as [|b bs IH]; intro j0; cbn [slots_for map concat]; [reflexivity|].
  rewrite (IH (S j0)). destruct (Nat.eqb (b_cache b) ci); reflexivity.
Qed.

(* ---- the follow-up question: SRV and TXT for every touched instance that has a PTR of the type but no SRV ---- *)
(* whether updateService asks for the instance: its type is the browser's (or the browser enumerates), a PTR named the
   type is held, no SRV of the instance is held *)
Definition needs_srv (b : browser) (v : view) (fq : bstr) : bool :=
  let '(sname, stype) := split_fq fq in
  negb ((match bs_data stype with [] => true | _ :: _ => false end)
        || (negb (bs_eqb (b_type b) (Some browse_type)) && negb (bs_eqb stype (b_type b)))) &&
  match lookup_view stype T_PTR v with [] => false | _ :: _ =>
    match lookup_view fq T_SRV v with [] => true | _ :: _ => false end end.

Lemma update_service_need j v fq b : fst (fst (update_service j v fq b)) = needs_srv b v fq.
Proof.
  unfold update_service, needs_srv. destruct (split_fq fq) as [sname stype]. rewrite not_of_interest_spec.
  destruct (_ || _); [reflexivity|]. cbn [negb andb]. destruct (lookup_view stype T_PTR v); [reflexivity|].
  destruct (lookup_view fq T_SRV v); reflexivity.
Qed.

Lemma update_service_type j v fq b : b_type (snd (fst (update_service j v fq b))) = b_type b /\ b_cache (snd (fst (update_service j v fq b))) = b_cache b.
Proof. pose proof (update_service_step j v fq b) as U. destruct (update_service j v fq b) as [[n b'] es]. cbn. tauto. Qed.

(* the names collected for the follow-up: exactly the touched names that need an SRV, given that the browser's cache
   does not change while the names are re-evaluated *)
Lemma browser_update_names_queries (j : nat) (nulls : bool) : forall nms w queries b,
  nth_error (w_browsers w) j = Some b ->
  let v := match nth_error (w_caches w) (b_cache b) with Some c => view_of c | None => [] end in
  let name_of := fun (n : list N) => match n return bstr with [] => if nulls then None else Some [] | _ :: _ => Some n end in
  snd (fst (browser_update_names j nms nulls w queries)) =
  fold_left (fun qs n => if needs_srv b v (name_of n) then set_insert n qs else qs) nms queries.
Proof.
  induction nms as [|n nms IH]; intros w queries b Nb; cbv zeta beta; cbn [browser_update_names fold_left]; [reflexivity|].
  cbv zeta beta in IH. rewrite Nb.
  match goal with |- context [update_service j ?v ?fq b] =>
    pose proof (update_service_need j v fq b) as Un; pose proof (update_service_type j v fq b) as [Ut Uc];
    destruct (update_service j v fq b) as [[need b'] es] end.
  cbn [fst snd] in *. subst need.
  match goal with |- context [browser_update_names j nms nulls ?w1 ?q1] =>
    specialize (IH w1 q1 b' ltac:(cbn [w_browsers]; eapply nth_error_replace_same; exact Nb));
    destruct (browser_update_names j nms nulls w1 q1) as [[w'' qs] es'] end.
  cbn [fst snd w_caches] in *. rewrite IH, Uc.
  assert (E : forall vv fq0, needs_srv b' vv fq0 = needs_srv b vv fq0) by (intros; unfold needs_srv; rewrite Ut; reflexivity).
  match goal with |- fold_left ?f1 nms _ = fold_left ?f2 nms _ =>
    assert (G : forall q, fold_left f1 nms q = fold_left f2 nms q) end.
  { clear IH. induction nms as [|n1 nms IH2]; intro q0; cbn [fold_left]; [reflexivity|]. rewrite E. apply IH2. }
  apply G.
Qed.

(* the follow-up message itself: an SRV and a TXT question for each collected name, in order *)
Lemma followup_queries (nulls : bool) : forall qnames m0,
  let name_of := fun (n : list N) => match n return bstr with [] => if nulls then None else Some [] | _ :: _ => Some n end in
  let msg := fold_left (fun msg n => add_query (mkQuery (name_of n) T_TXT false) (add_query (mkQuery (name_of n) T_SRV false) msg)) qnames m0 in
  m_queries msg = m_queries m0 ++ flat_map (fun n => [mkQuery (name_of n) T_SRV false; mkQuery (name_of n) T_TXT false]) qnames /\
  m_response msg = m_response m0 /\ m_records msg = m_records m0.
Proof.
  induction qnames as [|n qn IH]; intro m0; cbv zeta beta; cbn [fold_left flat_map]; [rewrite app_nil_r; auto|].
  cbv zeta beta in IH. match goal with |- context [fold_left _ qn ?m1] => destruct (IH m1) as (A & B & C) end.
  rewrite A, B, C. cbn [add_query m_queries m_response m_records]. rewrite <- !app_assoc. auto.
Qed.

(* enumerate-all: the batch timer asks a PTR question for every service type learnt since the last batch, listing the PTR
   records already held for it, and forgets the batch *)
Lemma service_timeout_spec j w b t ts :
  nth_error (w_browsers w) j = Some b -> b_ptr_targets b = t :: ts ->
  exists msg, snd (browser_service_timeout j w) = [ESendAll msg] /\ m_response msg = false /\
    map q_name (m_queries msg) = map (fun x => Some x) (t :: ts) /\ Forall (fun q => q_type q = T_PTR) (m_queries msg) /\
    b_ptr_targets (nth j (w_browsers (fst (browser_service_timeout j w))) b) = [].
Proof.
  intros Nb Ts. unfold browser_service_timeout. rewrite Nb, Ts. cbn [fst snd w_browsers].
  set (v := match nth_error (w_caches w) (b_cache b) with Some c => view_of c | None => [] end).
  eexists. split; [reflexivity|].
  assert (G : forall l m0, let msg := fold_left (fun m t0 => fold_left (fun m' r => add_record r m') (lookup_view (Some t0) T_PTR v)
                                     (add_query (mkQuery (Some t0) T_PTR false) m)) l m0 in
            m_response msg = m_response m0 /\ map q_name (m_queries msg) = map q_name (m_queries m0) ++ map (fun x => Some x) l /\
            (Forall (fun q => q_type q = T_PTR) (m_queries m0) -> Forall (fun q => q_type q = T_PTR) (m_queries msg))).
  { induction l as [|x l IH]; intro m0; cbv zeta; cbn [fold_left map]; [rewrite app_nil_r; auto|].
    assert (FR : forall rs m1, m_queries (fold_left (fun m' r => add_record r m') rs m1) = m_queries m1 /\
                               m_response (fold_left (fun m' r => add_record r m') rs m1) = m_response m1).
    { induction rs as [|r rs IHr]; intro m1; cbn [fold_left]; [auto|]. destruct (IHr (add_record r m1)) as [A B]. rewrite A, B. auto. }
    match goal with |- context [fold_left _ l ?m1] => destruct (IH m1) as (A & B & C) end. cbv zeta in A, B, C.
    destruct (FR (lookup_view (Some x) T_PTR v) (add_query (mkQuery (Some x) T_PTR false) m0)) as [Q1 Q2].
    rewrite A, B, Q1, Q2. cbn [add_query m_queries m_response]. rewrite map_app, <- app_assoc. cbn [map q_name app].
    split; [reflexivity|]. split; [reflexivity|]. intro F. apply C. rewrite Q1. cbn [add_query m_queries]. apply Forall_app. split; [exact F|]. constructor; [reflexivity|constructor]. }
  destruct (G (t :: ts) default_message) as (A & B & C). cbv zeta in A, B, C. split; [exact A|]. split; [exact B|]. split; [apply C; constructor|].
  rewrite (nth_error_nth _ _ _ (nth_error_replace_same _ _ _ _ Nb)). reflexivity.
Qed.

(* onMessageReceived, the follow-up as a whole: after the records have been cached, the names touched by the response
   that have a PTR of the type but no SRV are asked for, SRV and TXT each, in one multicast question *)
Theorem browser_on_message_followup now j m w :
  m_response m = true ->
  let '(w1, nms, nulls, e1) := browser_cache_records now j (m_records m) [] false w in
  forall b1, nth_error (w_browsers w1) j = Some b1 ->
  let v1 := match nth_error (w_caches w1) (b_cache b1) with Some c => view_of c | None => [] end in
  let name_of := fun (n : list N) => match n return bstr with [] => if nulls then None else Some [] | _ :: _ => Some n end in
  let qn := fold_left (fun qs n => if needs_srv b1 v1 (name_of n) then set_insert n qs else qs) nms [] in
  exists e2 e3, snd (browser_on_message now j m w) =
    e1 ++ e2 ++ e3 ++ match qn with
                      | [] => []
                      | _ :: _ => [ESendAll (fold_left (fun msg n => add_query (mkQuery (name_of n) T_TXT false)
                                                   (add_query (mkQuery (name_of n) T_SRV false) msg)) qn default_message)]
                      end.
Proof.
  intro R. unfold browser_on_message. rewrite R. cbn [negb].
  destruct (browser_cache_records now j (m_records m) [] false w) as [[[w1 nms] nulls] e1].
  intros b1 Nb. cbv zeta.
  pose proof (browser_update_names_queries j nulls nms w1 [] b1 Nb) as Q. cbv zeta beta in Q.
  destruct (browser_update_names j nms nulls w1 []) as [[w2 qnames] e2]. cbn [fst snd] in Q. subst qnames.
  destruct (browser_cache_addresses now j (m_records m) w2) as [w3 e3]. cbn [snd]. exists e2, e3. reflexivity.
Qed.

(* ---- enumerate-all, the learning half: whatever the caches hold, an enumerate-all browser that meets a PTR record named
   "_services._dns-sd._udp.local." while it goes through a response caches it, inserts its target (the service type) into the
   batch of types to be asked about and (re)starts the batch timer - at every position of the response (the statement
   unfolds one step of the loop at an arbitrary world) ---- *)
Lemma classify_browse b r : is_any b = true -> r_type r = T_PTR -> r_name r = Some browse_type ->
  classify b r = (true, None, Some (r_target r)).
Proof.
  intros A Ty Nm. unfold classify. rewrite Ty, N.eqb_refl, A. unfold browser_ptr_browse. rewrite Nm.
  cbn [andb]. unfold bs_eqb. rewrite bytes_eqb_refl. reflexivity.
Qed.

Lemma new_type_is_batched now j r rs names nulls w b :
  nth_error (w_browsers w) j = Some b -> is_any b = true -> r_type r = T_PTR -> r_name r = Some browse_type ->
  let b' := mkBrowser (b_type b) (b_cache b) (b_services b) (b_hostnames b) (set_insert (bs_data (r_target r)) (b_ptr_targets b)) in
  let w1 := mkWorld (w_caches w) (replace_nth j b' (w_browsers w)) (w_jitter w) in
  browser_cache_records now j (r :: rs) names nulls w =
    (let '(w2, e2) := world_cache_add now (b_cache b) r w1 in
     let '(w3, nm, nl, e3) := browser_cache_records now j rs names nulls w2 in
     (w3, nm, nl, [EStart (T_SERVICE_OF j) service_batch_ms] ++ e2 ++ e3)).
Proof.
  intros Hb A Ty Nm. cbn [browser_cache_records]. rewrite Hb, (classify_browse b r A Ty Nm). reflexivity.
Qed.

Lemma set_insert_mem x : forall l, set_mem x (set_insert x l) = true.
Proof.
  induction l as [|y l IH]; cbn [set_insert set_mem existsb]; [rewrite bytes_eqb_refl; reflexivity|].
  destruct (bytes_ltb x y) eqn:E1; [cbn [existsb]; rewrite bytes_eqb_refl; reflexivity|].
  destruct (bytes_ltb y x) eqn:E2; [cbn [existsb]; unfold set_mem in IH; rewrite IH; apply orb_true_r|].
  cbn [existsb]. rewrite (bytes_ltb_tricho x y E1 E2), bytes_eqb_refl. reflexivity.
Qed.
