(* DecoderMsg.v — C02 at message level: the decoder accepts every conformant encoding (WireMsg.MessageAt) and returns
   exactly the message it encodes. *)
From QV Require Import Base Fields SrcFacts Msg Decoder WireSpec DecoderSafety DecoderComplete WireMsg.
From Coq Require Import ZifyBool ZifyNat ZifyN.
Local Open Scope N_scope.

(* the top bit of a 16-bit word, arithmetically (no 65536-case sweep: coqchk re-checks vm_compute proofs slowly) *)
Lemma top_bit_land c : c < 65536 -> negb (N.land c 32768 =? 0) = top_bit c.
Proof.
  intro H. unfold top_bit. change 32768 with (2 ^ 15).
  destruct (N.testbit c 15) eqn:T.
  - assert (L : N.land c (2 ^ 15) <> 0).
    { intro E. assert (X : N.testbit (N.land c (2 ^ 15)) 15 = true) by (rewrite N.land_spec, T, N.pow2_bits_true; reflexivity).
      rewrite E in X. rewrite N.bits_0 in X. discriminate. }
    apply N.testbit_true in T. change (2 ^ 15) with 32768 in *.
    replace (N.land c 32768 =? 0) with false by (symmetry; apply N.eqb_neq; exact L). cbn [negb].
    symmetry. apply N.leb_le. lia.
  - assert (L : N.land c (2 ^ 15) = 0).
    { apply N.bits_inj_0. intro n. rewrite N.land_spec. destruct (N.eq_dec n 15) as [->|Hn]; [rewrite T; reflexivity|].
      rewrite N.pow2_bits_false by congruence. apply andb_false_r. }
    rewrite L. cbn [N.eqb negb]. apply N.testbit_false in T. change (2 ^ 15) with 32768 in *.
    symmetry. apply N.leb_gt. lia.
Qed.

Section Complete.
  Variable mem : N -> N.
  Variable len : N.
  Hypothesis len_ok : len <= 65535.

  Lemma bytes_at_app off a b : bytes_at mem off (a ++ b) -> bytes_at mem off a /\ bytes_at mem (off + lenN a) b.
  Proof.
    intro H. split.
    - intros i Hi. rewrite (H i) by (rewrite app_length; lia). rewrite app_nth1 by lia. reflexivity.
    - intros i Hi. specialize (H (length a + i)%nat ltac:(rewrite app_length; lia)).
      rewrite app_nth2 in H by lia. replace (length a + i - length a)%nat with i in H by lia. rewrite <- H. f_equal. unfold lenN. lia.
  Qed.
  Lemma Has_app off a b : Has mem len off (a ++ b) -> Has mem len off a /\ Has mem len (off + lenN a) b.
  Proof.
    intros [H1 H2]. rewrite lenN_app in H1. apply bytes_at_app in H2 as [A B]. split; split; auto; lia.
  Qed.

  Lemma rd16_at off v : v < 65536 -> Has mem len off (be16 v) -> rd16 mem len off = Ok (v, off + 2).
  Proof.
    intros Hv [H1 H2]. change (lenN (be16 v)) with 2 in H1. unfold rd16, get.
    replace (len <? off + 2) with false by lia. replace (off <? len) with true by lia. replace (off + 1 <? len) with true by lia.
    cbn [bind]. pose proof (H2 0%nat ltac:(cbn; lia)) as A. pose proof (H2 1%nat ltac:(cbn; lia)) as B.
    cbn [nth be16] in A, B. rewrite N.add_0_r in A. change (N.of_nat 1) with 1 in B. rewrite A, B.
    unfold w16. rewrite (N.mod_small (off + 2)) by lia. f_equal. f_equal. lia.
  Qed.

  Lemma rd32_at off v : v < 4294967296 -> Has mem len off (be32 v) -> rd32 mem len off = Ok (v, off + 4).
  Proof.
    intros Hv [H1 H2]. change (lenN (be32 v)) with 4 in H1. unfold rd32, get.
    replace (len <? off + 4) with false by lia. replace (off <? len) with true by lia. replace (off + 1 <? len) with true by lia.
    replace (off + 2 <? len) with true by lia. replace (off + 3 <? len) with true by lia.
    cbn [bind]. pose proof (H2 0%nat ltac:(cbn; lia)) as A. pose proof (H2 1%nat ltac:(cbn; lia)) as B.
    pose proof (H2 2%nat ltac:(cbn; lia)) as C. pose proof (H2 3%nat ltac:(cbn; lia)) as D.
    cbn [nth be32] in A, B, C, D. rewrite N.add_0_r in A. change (N.of_nat 1) with 1 in B. change (N.of_nat 2) with 2 in C.
    change (N.of_nat 3) with 3 in D. rewrite A, B, C, D.
    unfold w16. rewrite (N.mod_small (off + 4)) by lia. f_equal. f_equal. lia.
  Qed.

  Lemma get_many_has off l : Has mem len off l -> get_many mem len (length l) off = Ok l.
  Proof. intros [H1 H2]. apply get_many_bytes_at; assumption. Qed.

  Lemma txt_complete : forall strs off stop acc fuel,
    TxtAt mem len off stop strs -> stop <= len -> (length strs < fuel)%nat ->
    txt_loop mem len fuel off stop acc = Ok (attrs_of_strings strs acc, stop).
  Proof.
    induction strs as [|a strs IH]; intros off stop acc fuel H Hs Hf; inversion H; subst.
    - destruct fuel as [|f]; [cbn in Hf; lia|]. cbn [txt_loop]. replace (stop <? stop) with false by lia. reflexivity.
    - destruct fuel as [|f]; [cbn in Hf; lia|]. cbn [txt_loop]. replace (off <? stop) with true by lia.
      rewrite rd8_at by assumption. cbn [bind].
      match goal with Hm : mem off = lenN a |- _ => rewrite Hm end.
      replace (len <? off + 1 + lenN a) with false by lia.
      destruct a as [|x a'].
      + cbn [lenN length N.of_nat]. change (0 =? 0) with true. cbv iota.
        change (attrs_of_strings ([] :: strs) acc) with (attrs_of_strings strs acc).
        match goal with HT : TxtAt _ _ _ _ strs |- _ =>
          change (lenN (@nil N)) with 0 in HT; rewrite N.add_0_r in HT;
          rewrite (IH _ stop acc f HT) by (assumption || cbn in Hf; lia) end. reflexivity.
      + replace (lenN (x :: a') =? 0) with false by (rewrite lenN_cons; lia).
        replace (N.to_nat (lenN (x :: a'))) with (length (x :: a')) by (unfold lenN; lia).
        match goal with HH : Has _ _ _ (x :: a') |- _ => rewrite (get_many_has _ _ HH) end. cbn [bind].
        unfold w16. rewrite N.mod_small by lia.
        match goal with HT : TxtAt _ _ _ _ strs |- _ =>
          rewrite (IH _ stop _ f HT) by (assumption || cbn in Hf; lia) end.
        reflexivity.
  Qed.

  Variable fuel : nat.
  Hypothesis fuel_ok : (N.to_nat len < fuel)%nat.

  Lemma NameAt_end seg off ls e : NameAt mem len seg off ls e -> e <= len.
  Proof. induction 1; lia. Qed.
  Lemma TxtAt_count off stop strs : TxtAt mem len off stop strs -> off + lenN strs <= stop.
  Proof. induction 1 as [|off stop a strs _ _ _ _ _ _ IH]; [rewrite lenN_nil; lia|rewrite lenN_cons; lia]. Qed.

  Lemma w16_small x : x <= 65535 -> w16 x = x.
  Proof. intro H. unfold w16. apply N.mod_small. lia. Qed.

  Lemma header_fields o1 type cls ttl dlen :
    type < 65536 -> cls < 65536 -> ttl < 4294967296 -> dlen < 65536 ->
    Has mem len o1 (be16 type ++ be16 cls ++ be32 ttl ++ be16 dlen) ->
    rd16 mem len o1 = Ok (type, o1 + 2) /\ rd16 mem len (o1 + 2) = Ok (cls, o1 + 4) /\
    rd32 mem len (o1 + 4) = Ok (ttl, o1 + 8) /\ rd16 mem len (o1 + 8) = Ok (dlen, o1 + 10) /\ o1 + 10 <= len.
  Proof.
    intros Ht Hc Hl Hd H. pose proof H as [Hlen _]. rewrite !lenN_app in Hlen.
    change (lenN (be16 type)) with 2 in Hlen. change (lenN (be16 cls)) with 2 in Hlen.
    change (lenN (be32 ttl)) with 4 in Hlen. change (lenN (be16 dlen)) with 2 in Hlen.
    apply Has_app in H as [H1 H]. change (lenN (be16 type)) with 2 in H.
    apply Has_app in H as [H2 H]. change (lenN (be16 cls)) with 2 in H.
    apply Has_app in H as [H3 H4]. change (lenN (be32 ttl)) with 4 in H4.
    replace (o1 + 2 + 2) with (o1 + 4) in * by lia. replace (o1 + 4 + 4) with (o1 + 8) in * by lia.
    rewrite (rd16_at _ _ Ht H1), (rd16_at _ _ Hc H2), (rd32_at _ _ Hl H3), (rd16_at _ _ Hd H4).
    repeat split; try (f_equal; f_equal; lia); lia.
  Qed.

  Theorem record_complete off r e :
    RecordAt mem len off r e -> parse_record mem len fuel off default_record = Ok (r, e).
  Proof.
    intro H. destruct H as [off ls o1 type cls ttl dlen r HN Ht Hc Hl Hd HH HR].
    destruct (header_fields o1 type cls ttl dlen Ht Hc Hl Hd HH) as (R1 & R2 & R3 & R4 & Hfit).
    unfold parse_record. rewrite (parse_name_complete mem len len_ok off ls o1 None fuel fuel_ok HN). cbn [bind].
    rewrite R1. cbn [bind]. rewrite R2. cbn [bind]. rewrite R3. cbn [bind]. rewrite R4. cbn [bind].
    unfold nonzero. change class_flush_mask with 32768. rewrite (top_bit_land cls Hc).
    fold (base_record (name_of None ls) type cls ttl).
    set (base := base_record (name_of None ls) type cls ttl) in *.
    assert (Tb : r_type base = type) by reflexivity.
    destruct HR as [a T D Ha HA | b T D Lb HB | ls2 T HN2 | prio weight port ls2 T Hp Hw Hq HS HN2 | strs T Hfit2 HT
                   | ls2 e1 bm T HN2 Lbm HB E | T1 T2 T3 T4 T5 T6 Hfit2]; rewrite Tb in *.
    - subst. change (1 =? T_A) with true. cbv iota. rewrite (rd32_at _ _ Ha HA). cbn [bind]. first [reflexivity | f_equal; f_equal; lia].
    - subst. change (28 =? T_A) with false. change (28 =? T_AAAA) with true. cbv iota.
      pose proof HB as [HB1 _]. rewrite Lb in HB1. change aaaa_len with 16.
      replace (len <? o1 + 10 + 16) with false by lia.
      replace (N.to_nat 16) with (length b) by (unfold lenN in Lb; lia).
      rewrite (get_many_has _ _ HB). cbn [bind]. rewrite w16_small by lia. first [reflexivity | f_equal; f_equal; lia].
    - subst. change (12 =? T_A) with false. change (12 =? T_AAAA) with false. change (12 =? T_NSEC) with false.
      change (12 =? T_PTR) with true. cbv iota.
      rewrite (parse_name_complete mem len len_ok _ ls2 _ None fuel fuel_ok HN2). cbn [bind]. reflexivity.
    - subst. change (33 =? T_A) with false. change (33 =? T_AAAA) with false. change (33 =? T_NSEC) with false.
      change (33 =? T_PTR) with false. change (33 =? T_SRV) with true. cbv iota.
      apply Has_app in HS as [S1 HS]. change (lenN (be16 prio)) with 2 in HS.
      apply Has_app in HS as [S2 S3]. change (lenN (be16 weight)) with 2 in S3.
      rewrite (rd16_at _ _ Hp S1). cbn [bind]. rewrite (rd16_at _ _ Hw S2). cbn [bind].
      replace (o1 + 10 + 2 + 2) with (o1 + 10 + 4) in S3 by lia.
      replace (o1 + 10 + 2 + 2) with (o1 + 10 + 4) by lia.
      rewrite (rd16_at _ _ Hq S3). cbn [bind].
      replace (o1 + 10 + 4 + 2) with (o1 + 10 + 6) by lia.
      rewrite (parse_name_complete mem len len_ok _ ls2 _ None fuel fuel_ok HN2). cbn [bind]. reflexivity.
    - subst. change (16 =? T_A) with false. change (16 =? T_AAAA) with false. change (16 =? T_NSEC) with false.
      change (16 =? T_PTR) with false. change (16 =? T_SRV) with false. change (16 =? T_TXT) with true. cbv iota.
      pose proof (TxtAt_count _ _ _ HT) as Cn.
      rewrite (txt_complete strs _ _ (r_attrs base) fuel HT Hfit2) by (unfold lenN in Cn; lia).
      cbn [bind]. reflexivity.
    - subst. change (47 =? T_A) with false. change (47 =? T_AAAA) with false. change (47 =? T_NSEC) with true. cbv iota.
      rewrite (parse_name_complete mem len len_ok _ ls2 _ None fuel fuel_ok HN2). cbn [bind].
      pose proof HB as [HB1 HB2]. rewrite lenN_app in HB1. change (lenN [0; lenN bm]) with 2 in HB1.
      rewrite rd8_at by lia. cbn [bind]. rewrite rd8_at by lia. cbn [bind].
      pose proof (HB2 0%nat ltac:(cbn; lia)) as B0. pose proof (HB2 1%nat ltac:(cbn; lia)) as B1.
      cbn [nth app] in B0, B1. rewrite N.add_0_r in B0. change (N.of_nat 1) with 1 in B1. rewrite B0, B1.
      change (negb (0 =? 0)) with false. cbn [orb].
      replace (len <? e1 + 1 + 1 + lenN bm) with false by lia.
      apply Has_app in HB as [_ HB3]. change (lenN [0; lenN bm]) with 2 in HB3.
      replace (e1 + 1 + 1) with (e1 + 2) by lia.
      replace (N.to_nat (lenN bm)) with (length bm) by (unfold lenN; lia).
      rewrite (get_many_has _ _ HB3). cbn [bind]. rewrite w16_small by lia. first [reflexivity | f_equal; f_equal; lia].
    - destruct (type =? T_A) eqn:E1; [apply N.eqb_eq in E1; contradiction|].
      destruct (type =? T_AAAA) eqn:E2; [apply N.eqb_eq in E2; contradiction|].
      destruct (type =? T_NSEC) eqn:E3; [apply N.eqb_eq in E3; contradiction|].
      destruct (type =? T_PTR) eqn:E4; [apply N.eqb_eq in E4; contradiction|].
      destruct (type =? T_SRV) eqn:E5; [apply N.eqb_eq in E5; contradiction|].
      destruct (type =? T_TXT) eqn:E6; [apply N.eqb_eq in E6; contradiction|].
      rewrite w16_small by lia. reflexivity.
  Qed.

  Lemma RecordAt_end off r e : RecordAt mem len off r e -> e <= len.
  Proof.
    intro H. destruct H as [off ls o1 type cls ttl dlen r HN Ht Hc Hl Hd HH HR].
    destruct HR as [a T D Ha HA | b T D Lb HB | ls2 T HN2 | prio weight port ls2 T Hp Hw Hq HS HN2 | strs T Hfit2 HT
                   | ls2 e1 bm T HN2 Lbm HB E | T1 T2 T3 T4 T5 T6 Hfit2].
    - destruct HA as [HA _]. change (lenN (be32 a)) with 4 in HA. lia.
    - destruct HB as [HB _]. lia.
    - apply NameAt_end in HN2. lia.
    - apply NameAt_end in HN2. lia.
    - lia.
    - destruct HB as [HB _]. rewrite lenN_app in HB. change (lenN [0; lenN bm]) with 2 in HB. lia.
    - lia.
  Qed.

  Lemma query_complete off q e :
    QueryAt mem len off q e ->
    (do (name, o1) <- parse_name mem len fuel off None;
     do (type, o2) <- rd16 mem len o1;
     do (class, o3) <- rd16 mem len o2;
     Ok (mkQuery name type (nonzero (N.land class class_unicast_mask)), o3)) = Ok (q, e) /\ e <= len.
  Proof.
    intro H. destruct H as [off ls o1 type cls HN Ht Hc HH].
    rewrite (parse_name_complete mem len len_ok off ls o1 None fuel fuel_ok HN). cbn [bind].
    pose proof HH as [Hlen _]. rewrite lenN_app in Hlen. change (lenN (be16 type)) with 2 in Hlen. change (lenN (be16 cls)) with 2 in Hlen.
    apply Has_app in HH as [H1 H2]. change (lenN (be16 type)) with 2 in H2.
    rewrite (rd16_at _ _ Ht H1). cbn [bind]. rewrite (rd16_at _ _ Hc H2). cbn [bind].
    unfold nonzero. change class_unicast_mask with 32768. rewrite (top_bit_land cls Hc).
    split; [f_equal; f_equal; lia|lia].
  Qed.

  Lemma queries_complete : forall qs off e acc,
    QueriesAt mem len off qs e -> parse_queries mem len fuel (length qs) off acc = Ok (acc ++ qs, e).
  Proof.
    induction qs as [|q qs IH]; intros off e acc H; inversion H; subst; cbn [parse_queries length].
    - rewrite app_nil_r. reflexivity.
    - match goal with HQ : QueryAt _ _ _ q _ |- _ => destruct (query_complete _ _ _ HQ) as [QC _] end.
      revert QC. destruct (parse_name mem len fuel off None) as [[name o1]| | |]; cbn [bind]; try discriminate.
      destruct (rd16 mem len o1) as [[type o2]| | |]; cbn [bind]; try discriminate.
      destruct (rd16 mem len o2) as [[class o3]| | |]; cbn [bind]; try discriminate.
      intro QC. injection QC as <- <-.
      match goal with HQs : QueriesAt _ _ _ qs _ |- _ => rewrite (IH _ _ _ HQs) end. rewrite <- app_assoc. reflexivity.
  Qed.

  Lemma records_complete : forall rs off e acc,
    RecordsAt mem len off rs e -> parse_records mem len fuel (length rs) off acc = Ok (acc ++ rs, e).
  Proof.
    induction rs as [|r rs IH]; intros off e acc H; inversion H; subst; cbn [parse_records length].
    - rewrite app_nil_r. reflexivity.
    - match goal with HR : RecordAt _ _ _ r _ |- _ => rewrite (record_complete _ _ _ HR) end. cbn [bind].
      match goal with HRs : RecordsAt _ _ _ rs _ |- _ => rewrite (IH _ _ _ HRs) end. rewrite <- app_assoc. reflexivity.
  Qed.

  Theorem message_complete m : MessageAt mem len m -> from_packet mem len fuel = Ok m.
  Proof.
    intros (id & flags & nan & nau & nad & e1 & e2 & Hid & Hfl & Hnan & Hnau & Hnad & Hnq & Hnr & Hsum & HH & HQ & HR & A1 & A2 & A3 & A4 & A5).
    unfold from_packet.
    apply Has_app in HH as [H1 HH]. change (lenN (be16 id)) with 2 in HH.
    apply Has_app in HH as [H2 HH]. change (lenN (be16 flags)) with 2 in HH.
    apply Has_app in HH as [H3 HH]. change (lenN (be16 (lenN (m_queries m)))) with 2 in HH.
    apply Has_app in HH as [H4 HH]. change (lenN (be16 nan)) with 2 in HH.
    apply Has_app in HH as [H5 H6]. change (lenN (be16 nau)) with 2 in H6.
    change (0 + 2 + 2 + 2 + 2 + 2) with 10 in *. change (0 + 2 + 2 + 2 + 2) with 8 in *. change (0 + 2 + 2 + 2) with 6 in *.
    change (0 + 2 + 2) with 4 in *. change (0 + 2) with 2 in *.
    rewrite (rd16_at _ _ Hid H1). cbn [bind]. change (0 + 2) with 2.
    rewrite (rd16_at _ _ Hfl H2). cbn [bind]. change (2 + 2) with 4.
    rewrite (rd16_at _ _ Hnq H3). cbn [bind]. change (4 + 2) with 6.
    rewrite (rd16_at _ _ Hnan H4). cbn [bind]. change (6 + 2) with 8.
    rewrite (rd16_at _ _ Hnau H5). cbn [bind]. change (8 + 2) with 10.
    rewrite (rd16_at _ _ Hnad H6). cbn [bind]. change (10 + 2) with 12.
    replace (N.to_nat (lenN (m_queries m))) with (length (m_queries m)) by (unfold lenN; lia).
    rewrite (queries_complete _ _ _ [] HQ). cbn [bind app].
    rewrite w16_small by lia. rewrite <- Hnr.
    replace (N.to_nat (lenN (m_records m))) with (length (m_records m)) by (unfold lenN; lia).
    rewrite (records_complete _ _ _ [] HR). cbn [bind app].
    unfold nonzero. change flags_response_mask with 33792. change flags_truncated_mask with 512.
    rewrite <- A3, <- A4, <- A5. destruct m as [ad po i re tr qs rs]. cbn in *. subst. reflexivity.
  Qed.
End Complete.
