(* CacheAccept.v — refinement: the acceptor written from the text of C05 / C06 / C18 (CacheSpec.mon_cache, a
   timer-less reference cache with the properties' own constants) accepts EVERY run of the model of cache.cpp,
   for every history of ADD / exact ADV / ADVB / LOOKUP operations with TTLs up to TTL_MAX and jitter 0..19.
   The model state and the reference state are coupled by an explicit ghost list (the jitter each entry drew). *)
From QV Require Import Base Fields SrcFacts Msg SrcDecisions Cache CacheSpec CacheProofs.
From Coq Require Import ZifyBool ZifyNat ZifyN Sorted.
Local Open Scope Z_scope.

(* ------------------------------------------------------------------ small list facts *)
Lemma filter_map_map {A B C} (f : A -> B) (g : B -> option C) l : filter_map g (map f l) = filter_map (fun x => g (f x)) l.
Proof. induction l as [|x l IH]; cbn [map filter_map]; [reflexivity|]. rewrite IH. reflexivity. Qed.

Lemma filter_map_none {A B} (f : A -> option B) l : (forall x, In x l -> f x = None) -> filter_map f l = [].
Proof.
  induction l as [|x l IH]; intro H; cbn [filter_map]; [reflexivity|].
  rewrite (H x (or_introl eq_refl)). apply IH. intros y Hy. apply H. right. exact Hy.
Qed.

Lemma rfield_agree_refl f a : rfield_agree f a a = true.
Proof.
  destruct f; cbn; unfold bs_eqb; auto using bytes_eqb_refl, N.eqb_refl.
  - destruct (r_flush a); reflexivity.
  - destruct (r_addr a); cbn; auto using bytes_eqb_refl, N.eqb_refl.
  - induction (r_attrs a) as [|[k v] l IH]; cbn; [reflexivity|]. unfold bs_eqb. rewrite !bytes_eqb_refl, IH. reflexivity.
Qed.
Lemma same_record_refl a : same_record a a = true.
Proof. unfold same_record. apply forallb_forall. intros f _. apply rfield_agree_refl. Qed.

Lemma records_eqb_refl l : records_eqb l l = true.
Proof. induction l as [|x l IH]; cbn [records_eqb]; [reflexivity|]. rewrite same_record_refl, IH. reflexivity. Qed.

Lemma same_record_not_data a b : same_data a b = false -> same_record a b = false.
Proof. intro H. destruct (same_record a b) eqn:E; [|reflexivity]. apply same_record_same_data in E. congruence. Qed.

Lemma lookup_match_spec name type r : cache_lookup_match name type r = spec_lookup_match name type r.
Proof. unfold cache_lookup_match, spec_lookup_match. destruct name as [l|]; reflexivity. Qed.

(* ------------------------------------------------------------------ the ghost: what the reference cache cannot see *)
Record gh := mkGh { g_m : ment; g_j : Z; g_dead : bool }.

Definition g_rec (h : gh) : record := me_rec (g_m h).
Definition g_trig (h : gh) : list Z :=
  skipn (me_warned (g_m h)) (schedule (me_t0 (g_m h)) (g_j h) (r_ttl (g_rec h))).
Definition ent_of (h : gh) : entry := mkEntry (g_rec h) (g_trig h).
Definition live_gh (H : list gh) : list gh := filter (fun h => negb (g_dead h)) H.
Definition ents (H : list gh) : list entry := map ent_of (live_gh H).

Definition gwf (h : gh) : Prop :=
  (1 <= r_ttl (g_rec h) <= TTL_MAX)%N /\ (me_warned (g_m h) <= 4)%nat /\ 0 <= g_j h < 20 /\
  (g_dead h = true -> me_warned (g_m h) = 4%nat).

Definition Cpl (st : Z * cache) (s : mstate) : Prop :=
  ms_now s = fst st /\
  exists H, ms_live s = map g_m H /\ c_entries (snd st) = ents H /\ Forall gwf H /\ Forall (fun h => g_dead h = false) H.

Lemma live_all H : Forall (fun h => g_dead h = false) H -> live_gh H = H.
Proof.
  induction 1 as [|h H Hh _ IH]; cbn [live_gh filter]; [reflexivity|]. rewrite Hh. cbn [negb]. fold (live_gh H). rewrite IH. reflexivity.
Qed.

(* the trigger list of a well-formed ghost entry: strictly sorted, non-empty, ends with the expiry instant *)
Lemma g_trig_cases h : gwf h ->
  let m := g_m h in let ttl := Z.of_N (r_ttl (g_rec h)) in let t0 := me_t0 m in let j := g_j h in
  (me_warned m = 0%nat /\ g_trig h = [t0 + ttl * 500 + j; t0 + ttl * 850 + j; t0 + ttl * 900 + j; t0 + ttl * 950 + j; t0 + 1000 * ttl]) \/
  (me_warned m = 1%nat /\ g_trig h = [t0 + ttl * 850 + j; t0 + ttl * 900 + j; t0 + ttl * 950 + j; t0 + 1000 * ttl]) \/
  (me_warned m = 2%nat /\ g_trig h = [t0 + ttl * 900 + j; t0 + ttl * 950 + j; t0 + 1000 * ttl]) \/
  (me_warned m = 3%nat /\ g_trig h = [t0 + ttl * 950 + j; t0 + 1000 * ttl]) \/
  (me_warned m = 4%nat /\ g_trig h = [t0 + 1000 * ttl]).
Proof.
  intros (_ & Hw & _). cbn zeta. unfold g_trig, schedule.
  destruct (me_warned (g_m h)) as [|[|[|[|[|n]]]]]; cbn [skipn]; auto 10. lia.
Qed.

Lemma me_expiry_g h : me_expiry (g_m h) = me_t0 (g_m h) + 1000 * Z.of_N (r_ttl (g_rec h)).
Proof. reflexivity. Qed.

Lemma g_trig_sorted h : gwf h -> sorted (g_trig h).
Proof.
  intros W. pose proof W as (Ht & _ & Hj & _).
  destruct (g_trig_cases h W) as [[_ E]|[[_ E]|[[_ E]|[[_ E]|[_ E]]]]]; rewrite E; unfold sorted;
    repeat (apply SSorted_cons; [|repeat (apply Forall_cons; [lia|]); apply Forall_nil]); apply SSorted_nil.
Qed.

Lemma g_trig_last h : gwf h -> exists pre, g_trig h = pre ++ [me_expiry (g_m h)] /\ forall x, In x pre -> x < me_expiry (g_m h).
Proof.
  intros W. pose proof W as (Ht & _ & Hj & _). rewrite me_expiry_g.
  destruct (g_trig_cases h W) as [[_ E]|[[_ E]|[[_ E]|[[_ E]|[_ E]]]]]; rewrite E.
  - eexists [_; _; _; _]. split; [reflexivity|]. cbn [In]. intros x Hx. repeat (destruct Hx as [<-|Hx]; [lia|]). destruct Hx.
  - eexists [_; _; _]. split; [reflexivity|]. cbn [In]. intros x Hx. repeat (destruct Hx as [<-|Hx]; [lia|]). destruct Hx.
  - eexists [_; _]. split; [reflexivity|]. cbn [In]. intros x Hx. repeat (destruct Hx as [<-|Hx]; [lia|]). destruct Hx.
  - eexists [_]. split; [reflexivity|]. cbn [In]. intros x Hx. repeat (destruct Hx as [<-|Hx]; [lia|]). destruct Hx.
  - exists []. split; [reflexivity|]. intros x [].
Qed.

Lemma g_trig_expiry_in h : gwf h -> In (me_expiry (g_m h)) (g_trig h).
Proof. intro W. destruct (g_trig_last h W) as (pre & -> & _). apply in_app_iff. right. left. reflexivity. Qed.

Lemma g_trig_le_expiry h x : gwf h -> In x (g_trig h) -> x <= me_expiry (g_m h).
Proof.
  intros W Hx. destruct (g_trig_last h W) as (pre & E & Hp). rewrite E in Hx.
  apply in_app_iff in Hx as [Hx|[<-|[]]]; [specialize (Hp x Hx)|]; lia.
Qed.

(* ------------------------------------------------------------------ an induction principle for exact advances *)
Lemma fire_exact_induction (t : Z) (P : Z -> cache -> cache -> list cout -> Prop) :
  (forall now c, GInv now c -> now <= t -> match c_next c with Some d => t < d | None => True end -> P now c c []) ->
  (forall now c d c1 sg c2 o, GInv now c -> now <= t -> c_next c = Some d -> now <= d <= t ->
      on_timeout d (mkCache (c_entries c) (Some d) None) = (c1, sg) ->
      GInv d c1 -> P d c1 c2 o -> P now c c2 (map (fun s => OSig d (fst s) (snd s)) sg ++ o)) ->
  forall fuel now c, GInv now c -> fuel_ok c fuel -> now <= t ->
    P now c (fst (fire_exact fuel t c)) (snd (fire_exact fuel t c)).
Proof.
  intros Base Step. induction fuel as [|f IH]; intros now c G Hf Hnt.
  - exfalso. destruct Hf as [Hf|[_ Hf]]; lia.
  - cbn [fire_exact]. pose proof G as G0. destruct G as [Hei Hwf Htm Hnx]. rewrite Htm.
    destruct (c_next c) as [d|] eqn:Hn.
    + destruct Hnx as [Hnow Hlow]. destruct (d <=? t) eqn:Hdt.
      * destruct (firing d now c G0 Hn) as (F1 & F2 & F3 & F4). rewrite Hn in *.
        destruct (on_timeout d (mkCache (c_entries c) (Some d) None)) as [c1 sg] eqn:OT. cbn [fst snd] in *.
        assert (Hf1 : fuel_ok c1 f).
        { right. split; [exact F4|]. rewrite F1. destruct Hf as [Hf|[Ha Hf]].
          - pose proof (total_trim d (c_entries c)). lia.
          - unfold attained in Ha. rewrite Hn in Ha. pose proof (total_trim_strict d (c_entries c) Ha). lia. }
        specialize (IH d c1 F3 Hf1 ltac:(lia)).
        destruct (fire_exact f t c1) as [c2 o] eqn:FE. cbn [fst snd] in *.
        apply (Step now c d c1 sg c2 o); auto; try lia.
      * cbn [fst snd]. apply Base; auto. rewrite Hn. lia.
    + cbn [fst snd]. apply Base; auto. rewrite Hn. exact I.
Qed.

(* what one firing at d does, in terms of the entries (restating [firing] with the snapshots left open) *)
Lemma on_timeout_facts d now c c1 sg :
  GInv now c -> c_next c = Some d ->
  on_timeout d (mkCache (c_entries c) (Some d) None) = (c1, sg) ->
  c_entries c1 = filter_map (trim1 d) (c_entries c) /\ map fst sg = filter_map (sig1 d) (c_entries c) /\
  (forall e, In e (c_entries c) -> ewf d e).
Proof.
  intros G Hn OT. destruct (firing d now c G Hn) as (F1 & F2 & _). rewrite Hn in *. rewrite OT in *. cbn [fst snd] in *.
  split; [exact F1|]. split; [exact F2|].
  destruct G as [_ Hwf _ Hnx]. rewrite Hn in Hnx. destruct Hnx as [_ Hlow].
  intros e He. destruct (Hwf e He) as (H1 & H2 & _). split; [exact H1|]. split; [exact H2|]. intros x Hx. apply (Hlow e He x Hx).
Qed.

(* the snapshots of the expiry announcements of one pass never contain the announced record *)
Lemma pass_snapshots d : forall es kept nn,
  nodup_rec (map e_rec (kept ++ es)) ->
  forall r snap, In (Expired r, snap) (snd (pass d kept es nn)) -> forall y, In y snap -> same_data r y = false.
Proof.
  induction es as [|e es IH]; intros kept nn Hnd r snap; cbn [pass]; [intros []|].
  destruct (drop_passed d (e_trig e)) as [sq rest]. destruct rest as [|t0 rest'].
  - specialize (IH kept nn). destruct (pass d kept es nn) as [[k n] sg]. cbn [snd] in *. intros [H|H].
    + injection H as <- <-. intros y Hy. rewrite map_app in Hy, Hnd. cbn [map] in Hnd.
      clear IH. revert Hnd Hy. generalize (map e_rec kept) as K, (map e_rec es) as Es. clear. intros K Es.
      induction K as [|a K IHK]; cbn [app nodup_rec]; intros Hnd Hy.
      * destruct Hnd as [H1 _]. apply H1, Hy.
      * destruct Hnd as [H1 H2]. destruct Hy as [<-|Hy].
        -- rewrite same_data_sym. apply H1. apply in_app_iff. right. left. reflexivity.
        -- apply IHK; assumption.
    + apply IH; [|exact H]. rewrite map_app in *. cbn [map] in Hnd. clear -Hnd.
      revert Hnd. generalize (map e_rec kept) as K. intro K. induction K as [|a K IHK]; cbn [app nodup_rec].
      * intros [_ H]. exact H.
      * intros [H1 H2]. split; [|apply IHK, H2]. intros y Hy. apply H1. apply in_app_iff in Hy as [Hy|Hy]; apply in_app_iff; [left|right; right]; assumption.
  - specialize (IH (kept ++ [mkEntry (e_rec e) (t0 :: rest')]) (min_opt nn t0)).
    destruct (pass d (kept ++ [mkEntry (e_rec e) (t0 :: rest')]) es (min_opt nn t0)) as [[k n] sg]. cbn [snd] in *.
    assert (Hnd' : nodup_rec (map e_rec ((kept ++ [mkEntry (e_rec e) (t0 :: rest')]) ++ es))).
    { rewrite <- app_assoc. cbn [app]. rewrite map_app in *. cbn [map e_rec] in *. exact Hnd. }
    intro H. apply (IH Hnd' r snap). destruct sq; [|exact H]. destruct H as [H|H]; [discriminate|exact H].
Qed.

(* ------------------------------------------------------------------ one firing, on the ghost *)
Definition bump (h : gh) : gh :=
  mkGh (mkMent (me_rec (g_m h)) (me_t0 (g_m h)) (S (me_warned (g_m h)))) (g_j h) (g_dead h).
Definition kill (h : gh) : gh := mkGh (g_m h) (g_j h) true.

Definition hfire (d : Z) (h : gh) : gh :=
  if g_dead h then h else
  match g_trig h with
  | x :: rest => if x =? d then match rest with [] => kill h | _ :: _ => bump h end else h
  | [] => h
  end.

Lemma skipn_S_tl {A} n : forall l : list A, skipn (S n) l = tl (skipn n l).
Proof.
  induction n as [|n IH]; intros [|a l]; try reflexivity.
  change (skipn (S (S n)) (a :: l)) with (skipn (S n) l). rewrite IH. reflexivity.
Qed.
Lemma g_trig_bump h : g_trig (bump h) = tl (g_trig h).
Proof. unfold g_trig, bump, g_rec. cbn [g_m g_j me_rec me_t0 me_warned]. apply skipn_S_tl. Qed.

Lemma trim1_ent d h : gwf h -> g_dead h = false ->
  trim1 d (ent_of h) = if g_dead (hfire d h) then None else Some (ent_of (hfire d h)).
Proof.
  intros W Hd. unfold trim1, hfire. rewrite Hd. cbn [ent_of e_trig e_rec].
  destruct (g_trig h) as [|x rest] eqn:E.
  - rewrite Hd. destruct (g_trig_cases h W) as [[_ E']|[[_ E']|[[_ E']|[[_ E']|[_ E']]]]]; rewrite E' in E; discriminate.
  - destruct (x =? d) eqn:Exd.
    + destruct rest as [|x1 rest'].
      * cbn [kill g_dead]. reflexivity.
      * cbn [bump g_dead]. rewrite Hd. unfold ent_of. rewrite g_trig_bump, E. cbn [tl]. reflexivity.
    + rewrite Hd. unfold ent_of. rewrite E. reflexivity.
Qed.

Lemma hfire_rec d h : g_rec (hfire d h) = g_rec h.
Proof.
  unfold hfire. destruct (g_dead h); [reflexivity|]. destruct (g_trig h) as [|x rest]; [reflexivity|].
  destruct (x =? d); [|reflexivity]. destruct rest; reflexivity.
Qed.

Lemma hfire_wf d h : gwf h -> gwf (hfire d h).
Proof.
  intros W. pose proof W as (Ht & Hw & Hj & Hdd). unfold hfire. destruct (g_dead h) eqn:Hd; [exact W|].
  destruct (g_trig h) as [|x rest] eqn:E; [exact W|]. destruct (x =? d); [|exact W].
  destruct (g_trig_cases h W) as [[Ew E']|[[Ew E']|[[Ew E']|[[Ew E']|[Ew E']]]]]; rewrite E' in E; injection E as <- <-;
    unfold gwf, bump, kill, g_rec in *; cbn [g_m g_j g_dead me_rec me_warned me_t0]; rewrite ?Ew; repeat split; auto; try lia; try congruence.
Qed.

Lemma ents_hfire d H : Forall gwf H -> ents (map (hfire d) H) = filter_map (trim1 d) (ents H).
Proof.
  induction 1 as [|h H W _ IH]; [reflexivity|]. unfold ents, live_gh in *. cbn [map filter].
  destruct (g_dead h) eqn:Hd.
  - assert (hfire d h = h) as -> by (unfold hfire; rewrite Hd; reflexivity). rewrite Hd. cbn [negb]. exact IH.
  - cbn [negb map filter_map]. rewrite (trim1_ent d h W Hd). destruct (g_dead (hfire d h)); cbn [negb map]; rewrite IH; reflexivity.
Qed.

(* ------------------------------------------------------------------ (A) shape of the outputs of an advance *)
Definition sig_at (lo hi : Z) (x : cout) : Prop := exists d sg snap, x = OSig d sg snap /\ lo <= d <= hi.

Lemma adv_shape t fuel now c : GInv now c -> fuel_ok c fuel -> now <= t ->
  Forall (sig_at now t) (snd (fire_exact fuel t c)).
Proof.
  apply (fire_exact_induction t (fun now c c2 o => Forall (sig_at now t) o)).
  - intros. apply Forall_nil.
  - intros now0 c0 d c1 sg c2 o G Hnt Hn Hd OT G1 IH. apply Forall_app. split.
    + apply Forall_forall. intros x Hx. apply in_map_iff in Hx as [s [<- _]]. exists d, (fst s), (snd s). split; [reflexivity|lia].
    + eapply Forall_impl; [|exact IH]. intros x (d' & sg' & snap & -> & H). exists d', sg', snap. split; [reflexivity|lia].
Qed.

Lemma shape_no_lookup lo hi o : Forall (sig_at lo hi) o -> existsb is_lookup o = false.
Proof. induction 1 as [|x o (d & sg & snap & -> & _) _ IH]; [reflexivity|]. cbn. exact IH. Qed.
Lemma shape_times lo hi o : Forall (sig_at lo hi) o -> times_within lo hi o = true.
Proof.
  induction 1 as [|x o (d & sg & snap & -> & Hd) _ IH]; [reflexivity|]. unfold times_within in *. cbn [forallb]. rewrite IH.
  replace (lo <=? d) with true by lia. replace (d <=? hi) with true by lia. reflexivity.
Qed.

(* ------------------------------------------------------------------ (C) an announced record is gone *)
Lemma announced_gone_app a b : announced_gone (a ++ b) = announced_gone a && announced_gone b.
Proof. unfold announced_gone. apply forallb_app. Qed.

Lemma on_timeout_sg d c : snd (on_timeout d c) = snd (pass d [] (c_entries c) None).
Proof. unfold on_timeout. destruct (pass d [] (c_entries c) None) as [[k n] sg]. reflexivity. Qed.

Lemma announced_gone_firing d (sg : list sigsnap) :
  (forall r snap, In (Expired r, snap) sg -> forall y, In y snap -> same_data r y = false) ->
  announced_gone (filter_map out_expired (map (fun s => OSig d (fst s) (snd s)) sg)) = true.
Proof.
  induction sg as [|[s snap] sg IH]; intro H; [reflexivity|]. cbn [map filter_map fst snd out_expired].
  assert (IH' := IH (fun r sn Hin => H r sn (or_intror Hin))).
  destruct s as [r|r]; [exact IH'|]. unfold announced_gone in *. cbn [forallb]. rewrite IH', andb_true_r.
  apply negb_true_iff. destruct (existsb (same_record r) snap) eqn:E; [|reflexivity].
  apply existsb_exists in E as (y & Hy & Hs). apply same_record_same_data in Hs.
  rewrite (H r snap (or_introl eq_refl) y Hy) in Hs. discriminate.
Qed.

Lemma adv_announced t fuel now c : GInv now c -> fuel_ok c fuel -> now <= t ->
  announced_gone (filter_map out_expired (snd (fire_exact fuel t c))) = true.
Proof.
  apply (fire_exact_induction t (fun now c c2 o => announced_gone (filter_map out_expired o) = true)).
  - reflexivity.
  - intros now0 c0 d c1 sg c2 o G Hnt Hn Hd OT G1 IH. rewrite filter_map_app, announced_gone_app, IH, andb_true_r.
    apply announced_gone_firing. intros r snap Hin.
    assert (sg = snd (pass d [] (c_entries c0) None)) as ->.
    { pose proof (on_timeout_sg d (mkCache (c_entries c0) (Some d) None)) as E. rewrite OT in E. exact E. }
    apply (pass_snapshots d (c_entries c0) [] None); [|exact Hin]. exact (proj2 (g_einv _ _ G)).
Qed.

(* ------------------------------------------------------------------ (B) the order of the expiry announcements *)
Definition Sh (e : entry) (m : ment) : Prop :=
  e_rec e = me_rec m /\ In (me_expiry m) (e_trig e) /\ forall x, In x (e_trig e) -> x <= me_expiry m.

Lemma expired_eqb_app a b x y : expired_eqb a x = true -> expired_eqb b y = true -> expired_eqb (a ++ b) (x ++ y) = true.
Proof.
  revert x; induction a as [|[[t r] sn] a IH]; intros [|e x]; cbn [expired_eqb app]; try discriminate; auto.
  intros H1 H2. apply andb_true_iff in H1 as [H1 H3]. rewrite H1. cbn [andb]. apply IH; assumption.
Qed.

Lemma insert_min m l : (forall x, In x l -> me_expiry m <= me_expiry x) -> insert_by_expiry m l = m :: l.
Proof.
  destruct l as [|x l]; [reflexivity|]. intro H. cbn [insert_by_expiry].
  specialize (H x (or_introl eq_refl)). replace (me_expiry m <=? me_expiry x) with true by lia. reflexivity.
Qed.
Lemma insert_app_lt m a b : (forall x, In x a -> me_expiry x < me_expiry m) ->
  insert_by_expiry m (a ++ b) = a ++ insert_by_expiry m b.
Proof.
  induction a as [|x a IH]; intro H; [reflexivity|]. cbn [app insert_by_expiry].
  pose proof (H x (or_introl eq_refl)). replace (me_expiry m <=? me_expiry x) with false by lia.
  rewrite IH; [reflexivity|]. intros y Hy. apply H. right. exact Hy.
Qed.
Lemma insert_In m l x : In x (insert_by_expiry m l) -> x = m \/ In x l.
Proof.
  induction l as [|y l IH]; cbn [insert_by_expiry].
  - intros [<-|[]]. left. reflexivity.
  - destruct (me_expiry m <=? me_expiry y).
    + intros [<-|H]; auto.
    + intros [<-|H]; [right; left; reflexivity|]. destruct (IH H); [left|right; right]; assumption.
Qed.
Lemma sort_In l x : In x (sort_by_expiry l) -> In x l.
Proof.
  induction l as [|m l IH]; cbn [sort_by_expiry fold_right]; [auto|]. intro H.
  apply insert_In in H as [->|H]; [left; reflexivity|right; apply IH, H].
Qed.

Lemma sort_partition d t L : d <= t -> (forall m, In m L -> d <= me_expiry m) ->
  sort_by_expiry (filter (fun e => me_expiry e <=? t) L) =
  filter (fun e => me_expiry e =? d) L ++
  sort_by_expiry (filter (fun e => me_expiry e <=? t) (filter (fun e => negb (me_expiry e =? d)) L)).
Proof.
  intros Hdt. induction L as [|m L IH]; intro Hlow; [reflexivity|].
  assert (Hm := Hlow m (or_introl eq_refl)). assert (Hl : forall x, In x L -> d <= me_expiry x) by (intros; apply Hlow; right; assumption).
  specialize (IH Hl). cbn [filter]. destruct (me_expiry m =? d) eqn:Ed.
  - replace (me_expiry m <=? t) with true by lia. cbn [negb app]. unfold sort_by_expiry in *. cbn [fold_right]. rewrite IH.
    apply insert_min. intros x Hx. apply in_app_iff in Hx as [Hx|Hx].
    + apply filter_In in Hx as [Hx _]. specialize (Hl x Hx). lia.
    + apply sort_In in Hx. apply filter_In in Hx as [Hx _]. apply filter_In in Hx as [Hx _]. specialize (Hl x Hx). lia.
  - cbn [negb filter]. destruct (me_expiry m <=? t) eqn:Et; [|exact IH].
    unfold sort_by_expiry in *. cbn [fold_right]. rewrite IH. apply insert_app_lt.
    intros x Hx. apply filter_In in Hx as [_ Hx]. lia.
Qed.

Lemma Sh_single d e m : ewf d e -> Sh e m -> me_expiry m = d -> e_trig e = [d].
Proof.
  intros (Hs & Hne & Hl) (_ & Hin & Hup) Hd. rewrite Hd in *.
  destruct (e_trig e) as [|x rest]; [congruence|].
  assert (x = d) by (specialize (Hl x (or_introl eq_refl)); specialize (Hup x (or_introl eq_refl)); lia). subst x.
  destruct rest as [|y rest]; [reflexivity|]. apply sorted_tail in Hs as [_ Hgt].
  specialize (Hgt y (or_introl eq_refl)). specialize (Hup y (or_intror (or_introl eq_refl))). lia.
Qed.

Lemma Sh_trim d es L : Forall2 Sh es L -> (forall e, In e es -> ewf d e) ->
  Forall2 Sh (filter_map (trim1 d) es) (filter (fun m => negb (me_expiry m =? d)) L).
Proof.
  induction 1 as [|e m es L HS _ IH]; intro Hwf; [apply Forall2_nil|].
  assert (We := Hwf e (or_introl eq_refl)). assert (IH' := IH (fun e' He' => Hwf e' (or_intror He'))).
  cbn [filter_map filter]. destruct (me_expiry m =? d) eqn:Ed.
  - assert (E : e_trig e = [d]) by (apply (Sh_single d e m); auto; lia).
    unfold trim1. rewrite E. replace (d =? d) with true by lia. cbn [negb]. exact IH'.
  - cbn [negb]. destruct HS as (Hr & Hin & Hup). destruct We as (Hs & Hne & Hl). unfold trim1.
    destruct (e_trig e) as [|x rest] eqn:E; [congruence|]. destruct (x =? d) eqn:Exd.
    + assert (x = d) by lia. subst x. destruct Hin as [Hin|Hin]; [lia|].
      destruct rest as [|y rest']; [destruct Hin|]. apply Forall2_cons; [|exact IH'].
      split; [exact Hr|]. split; [exact Hin|]. intros z Hz. apply Hup. right. exact Hz.
    + apply Forall2_cons; [|exact IH']. split; [exact Hr|]. split; [exact Hin|exact Hup].
Qed.

Lemma expired_firing d (sg : list sigsnap) es L :
  Forall2 Sh es L -> (forall e, In e es -> ewf d e) -> map fst sg = filter_map (sig1 d) es ->
  expired_eqb (filter_map out_expired (map (fun s => OSig d (fst s) (snd s)) sg)) (filter (fun e => me_expiry e =? d) L) = true.
Proof.
  intros HF. revert sg. induction HF as [|e m es L HS _ IH]; intros sg Hwf Hsg.
  - destruct sg; [reflexivity|discriminate].
  - assert (We := Hwf e (or_introl eq_refl)). assert (IH' := fun sg => IH sg (fun e' He' => Hwf e' (or_intror He'))).
    cbn [filter_map filter] in *. destruct (me_expiry m =? d) eqn:Ed.
    + assert (E : e_trig e = [d]) by (apply (Sh_single d e m); auto; lia).
      unfold sig1 in Hsg at 1. rewrite E in Hsg. replace (d =? d) with true in Hsg by lia.
      destruct sg as [|[s snap] sg]; [discriminate|]. cbn [map fst] in Hsg. injection Hsg as -> Hsg.
      cbn [map filter_map fst snd out_expired expired_eqb]. replace (d =? me_expiry m) with true by lia.
      destruct HS as (-> & _). rewrite same_record_refl. cbn [andb]. apply IH', Hsg.
    + destruct HS as (Hr & Hin & Hup). destruct We as (Hs & Hne & Hl). unfold sig1 in Hsg at 1.
      destruct (e_trig e) as [|x rest] eqn:E; [congruence|]. destruct (x =? d) eqn:Exd.
      * assert (x = d) by lia. subst x. destruct Hin as [Hin|Hin]; [lia|]. destruct rest as [|y rest']; [destruct Hin|].
        destruct sg as [|[s snap] sg]; [discriminate|]. cbn [map fst] in Hsg. injection Hsg as -> Hsg.
        cbn [map filter_map fst snd out_expired]. apply IH', Hsg.
      * apply IH', Hsg.
Qed.

Lemma adv_expired t fuel now c : GInv now c -> fuel_ok c fuel -> now <= t ->
  forall L, Forall2 Sh (c_entries c) L ->
  expired_eqb (filter_map out_expired (snd (fire_exact fuel t c))) (sort_by_expiry (filter (fun e => me_expiry e <=? t) L)) = true.
Proof.
  apply (fire_exact_induction t (fun now c c2 o => forall L, Forall2 Sh (c_entries c) L ->
     expired_eqb (filter_map out_expired o) (sort_by_expiry (filter (fun e => me_expiry e <=? t) L)) = true)).
  - intros now0 c0 G Hnt Hnx L HF. cbn [filter_map].
    assert (filter (fun e => me_expiry e <=? t) L = []) as ->; [|reflexivity].
    destruct G as [_ _ _ Gn]. destruct (c_next c0) as [d|].
    + destruct Gn as [_ Hlow]. clear -HF Hlow Hnx. induction HF as [|e m es L (Hr & Hin & _) _ IH]; [reflexivity|].
      cbn [filter]. specialize (Hlow e (or_introl eq_refl) _ Hin) as Hx. replace (me_expiry m <=? t) with false by lia.
      apply IH. intros e' He'. apply Hlow. right. exact He'.
    + rewrite Gn in HF. inversion HF. reflexivity.
  - intros now0 c0 d c1 sg c2 o G Hnt Hn Hd OT G1 IH L HF.
    destruct (on_timeout_facts d now0 c0 c1 sg G Hn OT) as (F1 & F2 & Hewf).
    rewrite filter_map_app. rewrite (sort_partition d t L); [| lia |].
    + apply expired_eqb_app.
      * apply (expired_firing d sg (c_entries c0) L); assumption.
      * apply IH. rewrite F1. apply Sh_trim; assumption.
    + clear -HF Hewf. induction HF as [|e m es L (Hr & Hin & _) _ IH]; intros x Hx; [destruct Hx|]. destruct Hx as [<-|Hx].
      * destruct (Hewf e (or_introl eq_refl)) as (_ & _ & Hl). apply Hl, Hin.
      * apply IH; [|assumption]. intros e' He'. apply Hewf. right. exact He'.
Qed.

(* ------------------------------------------------------------------ (D) the refresh warnings, one firing at a time *)
Definition warn_of (d : Z) (h : gh) : option (Z * record) :=
  if g_dead h then None else
  match g_trig h with
  | x :: _ :: _ => if x =? d then Some (d, g_rec h) else None
  | _ => None
  end.

Lemma ents_cons h H : ents (h :: H) = if g_dead h then ents H else ent_of h :: ents H.
Proof. unfold ents, live_gh. cbn [filter]. destruct (g_dead h); reflexivity. Qed.

Lemma warn_firing d H : forall sg : list sigsnap, map fst sg = filter_map (sig1 d) (ents H) ->
  filter_map out_warning (map (fun s => OSig d (fst s) (snd s)) sg) = filter_map (warn_of d) H.
Proof.
  induction H as [|h H IH]; intros sg Hsg.
  - destruct sg; [reflexivity|discriminate].
  - rewrite ents_cons in Hsg. cbn [filter_map]. unfold warn_of at 1. destruct (g_dead h); [apply IH, Hsg|].
    cbn [filter_map] in Hsg. unfold sig1 in Hsg at 1. cbn [ent_of e_trig e_rec] in Hsg.
    destruct (g_trig h) as [|x rest]; [apply IH, Hsg|]. destruct (x =? d).
    + destruct sg as [|[s snap] sg]; [discriminate|]. cbn [map fst] in Hsg. injection Hsg as -> Hsg.
      cbn [map filter_map fst snd]. destruct rest; cbn [out_warning]; [apply IH, Hsg|]. f_equal. apply IH, Hsg.
    + destruct rest; apply IH, Hsg.
Qed.

Lemma note_warnings_app a : forall b l,
  note_warnings (a ++ b) l = match note_warnings a l with inl l' => note_warnings b l' | inr c => inr c end.
Proof.
  induction a as [|[t r] a IH]; intros b l; [reflexivity|]. cbn [app note_warnings].
  destruct (note_warning t r l) as [[l'|]|c]; [apply IH|reflexivity|reflexivity].
Qed.

(* locating the entry a warning is about, and counting the warning *)
Lemma note_one d h Hd Hr y rest :
  gwf h -> g_dead h = false -> g_trig h = d :: y :: rest ->
  (forall x, In x Hd -> same_data (g_rec x) (g_rec h) = false) ->
  note_warning d (g_rec h) (map g_m (Hd ++ h :: Hr)) = inl (Some (map g_m (Hd ++ bump h :: Hr))).
Proof.
  intros W Hdead E Hno. induction Hd as [|x Hd IH]; cbn [app map note_warning].
  - fold (g_rec h). rewrite same_record_refl.
    pose proof W as (Ht & Hw & Hj & _). pose proof (g_trig_sorted h W) as Hs. rewrite E in Hs.
    assert (Hy : d < y) by (apply sorted_tail in Hs as [_ Hgt]; apply Hgt; left; reflexivity).
    assert (Hye : y <= me_expiry (g_m h)) by (apply (g_trig_le_expiry h y W); rewrite E; right; left; reflexivity).
    replace (me_expiry (g_m h) <=? d) with false by lia.
    unfold me_ttl. fold (g_rec h).
    destruct (g_trig_cases h W) as [[Ew E']|[[Ew E']|[[Ew E']|[[Ew E']|[Ew E']]]]]; rewrite E' in E; try discriminate;
      injection E as Ed _; rewrite Ew; cbn [nth_error fractions];
      match goal with |- context [(0 <=? ?a) && (?a <? JITTER)] => replace ((0 <=? a) && (a <? JITTER)) with true by (unfold JITTER; lia) end;
      unfold bump; cbn [g_m]; rewrite Ew; reflexivity.
  - assert (same_record (g_rec h) (me_rec (g_m x)) = false) as ->.
    { apply same_record_not_data. rewrite same_data_sym. apply Hno. left. reflexivity. }
    rewrite IH; [reflexivity|]. intros z Hz. apply Hno. right. exact Hz.
Qed.

Lemma hfire_quiet d h : warn_of d h = None -> g_m (hfire d h) = g_m h.
Proof.
  unfold warn_of, hfire. destruct (g_dead h); [reflexivity|]. destruct (g_trig h) as [|x rest]; [reflexivity|].
  destruct (x =? d); [|reflexivity]. destruct rest; [reflexivity|discriminate].
Qed.
Lemma hfire_warn d h p : warn_of d h = Some p -> p = (d, g_rec h) /\ hfire d h = bump h /\ g_dead h = false /\
  exists y rest, g_trig h = d :: y :: rest.
Proof.
  unfold warn_of, hfire. destruct (g_dead h); [discriminate|]. destruct (g_trig h) as [|x [|y rest]]; try discriminate.
  destruct (x =? d) eqn:E; [|discriminate]. intros [= <-]. assert (x = d) by lia. subst x. repeat split; auto. exists y, rest. reflexivity.
Qed.

Lemma nodup_mid (K : list record) a L : nodup_rec (K ++ a :: L) -> forall x, In x K -> same_data x a = false.
Proof.
  induction K as [|k K IH]; cbn [app nodup_rec]; intros [H1 H2] x Hx; [destruct Hx|].
  destruct Hx as [<-|Hx]; [apply H1, in_app_iff; right; left; reflexivity|apply IH; assumption].
Qed.

Lemma note_firing d : forall Hr Hd,
  Forall gwf Hr -> nodup_rec (map g_rec (Hd ++ Hr)) ->
  note_warnings (filter_map (warn_of d) Hr) (map g_m (Hd ++ Hr)) = inl (map g_m (Hd ++ map (hfire d) Hr)).
Proof.
  induction Hr as [|h Hr IH]; intros Hd HW Hnd; [reflexivity|].
  inversion HW as [|? ? W HW']; subst. cbn [filter_map map].
  assert (Step : forall h', g_rec h' = g_rec h -> nodup_rec (map g_rec ((Hd ++ [h']) ++ Hr))).
  { intros h' Hh. rewrite <- app_assoc. cbn [app]. rewrite map_app in *. cbn [map] in *. rewrite Hh. exact Hnd. }
  destruct (warn_of d h) as [p|] eqn:Ew.
  - destruct (hfire_warn d h p Ew) as (-> & Hb & Hdead & y & rest & E). cbn [note_warnings].
    rewrite (note_one d h Hd Hr y rest W Hdead E).
    + replace (Hd ++ bump h :: Hr) with ((Hd ++ [bump h]) ++ Hr) by (rewrite <- app_assoc; reflexivity).
      rewrite IH; [|exact HW'|apply Step; reflexivity]. rewrite Hb, <- app_assoc. reflexivity.
    + intros x Hx. rewrite map_app in Hnd. cbn [map] in Hnd. apply (nodup_mid _ _ _ Hnd). apply in_map, Hx.
  - replace (map g_m (Hd ++ h :: Hr)) with (map g_m ((Hd ++ [hfire d h]) ++ Hr)).
    + rewrite IH; [|exact HW'|apply Step, hfire_rec]. rewrite <- app_assoc. reflexivity.
    + rewrite <- app_assoc. cbn [app]. rewrite !map_app. cbn [map]. rewrite (hfire_quiet d h Ew). reflexivity.
Qed.

Definition dead_ok (t : Z) (h : gh) : Prop := g_dead h = true -> me_expiry (g_m h) <= t.

Lemma hfire_dead_ok d t h : gwf h -> d <= t -> dead_ok t h -> dead_ok t (hfire d h).
Proof.
  intros W Hdt Hok. unfold hfire. destruct (g_dead h) eqn:Hd; [exact Hok|].
  destruct (g_trig h) as [|x rest] eqn:E; [exact Hok|]. destruct (x =? d) eqn:Exd; [|exact Hok].
  destruct rest as [|y rest].
  - intros _. cbn [kill g_m]. destruct (g_trig_last h W) as (pre & E' & _). rewrite E in E'.
    destruct pre as [|a [|b pre]]; try discriminate. injection E' as <-. lia.
  - unfold dead_ok, bump. cbn [g_dead]. congruence.
Qed.

Lemma adv_warnings t fuel now c : GInv now c -> fuel_ok c fuel -> now <= t ->
  forall H, c_entries c = ents H -> Forall gwf H -> nodup_rec (map g_rec H) -> Forall (dead_ok t) H ->
  exists H2, note_warnings (filter_map out_warning (snd (fire_exact fuel t c))) (map g_m H) = inl (map g_m H2) /\
             c_entries (fst (fire_exact fuel t c)) = ents H2 /\ Forall gwf H2 /\ Forall (dead_ok t) H2.
Proof.
  apply (fire_exact_induction t (fun now c c2 o =>
    forall H, c_entries c = ents H -> Forall gwf H -> nodup_rec (map g_rec H) -> Forall (dead_ok t) H ->
    exists H2, note_warnings (filter_map out_warning o) (map g_m H) = inl (map g_m H2) /\
               c_entries c2 = ents H2 /\ Forall gwf H2 /\ Forall (dead_ok t) H2)).
  - intros now0 c0 G Hnt Hnx H HE HW Hnd Hok. exists H. auto.
  - intros now0 c0 d c1 sg c2 o G Hnt Hn Hd OT G1 IH H HE HW Hnd Hok.
    destruct (on_timeout_facts d now0 c0 c1 sg G Hn OT) as (F1 & F2 & Hewf).
    destruct (IH (map (hfire d) H)) as (H2 & N2 & E2 & W2 & O2).
    + rewrite F1, HE. symmetry. apply ents_hfire, HW.
    + apply Forall_map. eapply Forall_impl; [|exact HW]. intros h. apply hfire_wf.
    + rewrite map_map. erewrite map_ext; [exact Hnd|]. intro h. apply hfire_rec.
    + apply Forall_map. rewrite Forall_forall in *. intros h Hh. apply hfire_dead_ok; auto. lia.
    + exists H2. split; [|auto]. rewrite filter_map_app, note_warnings_app.
      rewrite (warn_firing d H sg) by (rewrite <- HE; exact F2).
      pose proof (note_firing d H [] HW Hnd) as NF. cbn [app] in NF. rewrite NF. exact N2.
Qed.

(* ------------------------------------------------------------------ (E) completeness of the warnings, and the state after *)
Lemma complete_ok t h : gwf h -> dead_ok t h -> (g_dead h = false -> forall x, In x (g_trig h) -> t < x) ->
  warnings_complete (if me_expiry (g_m h) <=? t then me_expiry (g_m h) else t) (g_m h) = true /\
  negb (me_expiry (g_m h) <=? t) = negb (g_dead h).
Proof.
  intros W Hok Hlive. pose proof W as (Ht & Hw & Hj & Hdw). unfold warnings_complete.
  cbn [combine seq fractions forallb]. unfold me_ttl. fold (g_rec h).
  destruct (g_dead h) eqn:Hd.
  - rewrite (Hdw eq_refl). specialize (Hok Hd). replace (me_expiry (g_m h) <=? t) with true by lia.
    cbn [Nat.ltb Nat.leb negb]. rewrite !orb_true_r. auto.
  - specialize (Hlive eq_refl). pose proof (Hlive _ (g_trig_expiry_in h W)) as He.
    replace (me_expiry (g_m h) <=? t) with false by lia. split; [|reflexivity].
    destruct (g_trig_cases h W) as [[Ew E']|[[Ew E']|[[Ew E']|[[Ew E']|[Ew E']]]]]; rewrite E' in Hlive; rewrite Ew;
      cbn [Nat.ltb Nat.leb]; cbn [In] in Hlive; unfold JITTER;
      try (pose proof (Hlive _ (or_introl eq_refl)));
      try (pose proof (Hlive _ (or_intror (or_introl eq_refl))));
      try (pose proof (Hlive _ (or_intror (or_intror (or_introl eq_refl)))));
      try (pose proof (Hlive _ (or_intror (or_intror (or_intror (or_introl eq_refl))))));
      clear Hlive; lia.
Qed.

Lemma live_gh_idem H : live_gh (live_gh H) = live_gh H.
Proof.
  unfold live_gh. induction H as [|h H IH]; [reflexivity|]. cbn [filter]. destruct (g_dead h) eqn:E; cbn [negb filter]; [exact IH|].
  rewrite E. cbn [negb]. rewrite IH. reflexivity.
Qed.

Lemma Cpl_Sh H : Forall gwf H -> Forall2 Sh (map ent_of H) (map g_m H).
Proof.
  induction 1 as [|h H W _ IH]; cbn [map]; [apply Forall2_nil|]. apply Forall2_cons; [|exact IH].
  split; [reflexivity|]. split; [apply g_trig_expiry_in, W|]. intros x Hx. apply (g_trig_le_expiry h x W Hx).
Qed.

Lemma adv_accepted t now c s : GInv now c -> Cpl (now, c) s -> now <= t ->
  let res := fire_exact (S (S (total_triggers c))) t c in
  exists s', mon_adv s t (snd res) = MOk s' /\ Cpl (t, fst res) s'.
Proof.
  intros G (Hnow & H & HL & HE & HW & HD) Hnt. cbn [fst snd] in *. cbn zeta.
  set (fuel := S (S (total_triggers c))).
  assert (Hf : fuel_ok c fuel) by (left; unfold fuel; rewrite total_is; lia).
  unfold ents in HE. rewrite (live_all H HD) in HE.
  unfold mon_adv. rewrite Hnow. replace (t <? now) with false by lia.
  pose proof (adv_shape t fuel now c G Hf Hnt) as Sp.
  rewrite (shape_no_lookup _ _ _ Sp), (shape_times _ _ _ Sp). cbn [negb].
  rewrite HL. rewrite (adv_expired t fuel now c G Hf Hnt (map g_m H)) by (rewrite HE; apply Cpl_Sh, HW).
  rewrite (adv_announced t fuel now c G Hf Hnt). cbn [negb].
  assert (Hnd : nodup_rec (map g_rec H)).
  { pose proof (proj2 (g_einv _ _ G)) as N. rewrite HE, map_map in N. exact N. }
  assert (Hok : Forall (dead_ok t) H).
  { rewrite Forall_forall in *. intros h Hh Hdead. rewrite (HD h Hh) in Hdead. discriminate. }
  destruct (adv_warnings t fuel now c G Hf Hnt H) as (H2 & N2 & E2 & W2 & O2); auto.
  { unfold ents. rewrite (live_all H HD). exact HE. }
  rewrite N2.
  destruct (fire_exact_spec fuel now c t default_record G Hf Hnt) as (G2 & _ & _ & Lt2).
  assert (Hlive : forall h, In h H2 -> g_dead h = false -> forall x, In x (g_trig h) -> t < x).
  { intros h Hh Hd x Hx. assert (He : In (ent_of h) (c_entries (fst (fire_exact fuel t c)))).
    { rewrite E2. unfold ents. apply in_map. apply filter_In. split; [exact Hh|]. rewrite Hd. reflexivity. }
    destruct G2 as [_ _ _ Gn]. destruct (c_next (fst (fire_exact fuel t c))) as [n|].
    - destruct Gn as [_ Hlow]. specialize (Hlow _ He x Hx). lia.
    - rewrite Gn in He. destruct He. }
  assert (Hall : forall h, In h H2 ->
     warnings_complete (if me_expiry (g_m h) <=? t then me_expiry (g_m h) else t) (g_m h) = true /\
     negb (me_expiry (g_m h) <=? t) = negb (g_dead h)).
  { intros h Hh. rewrite Forall_forall in W2, O2. apply complete_ok; [apply W2, Hh|apply O2, Hh|apply Hlive, Hh]. }
  assert (forallb (fun e => warnings_complete (if me_expiry e <=? t then me_expiry e else t) e) (map g_m H2) = true) as ->.
  { apply forallb_forall. intros m Hm. apply in_map_iff in Hm as (h & <- & Hh). apply Hall, Hh. }
  cbn [negb]. eexists. split; [reflexivity|]. split; [reflexivity|]. cbn [fst snd ms_live].
  exists (live_gh H2). split; [|split; [|split]].
  - clear -Hall. induction H2 as [|h H2 IH]; [reflexivity|]. cbn [map filter live_gh].
    rewrite (proj2 (Hall h (or_introl eq_refl))). fold (live_gh H2).
    destruct (g_dead h); cbn [negb map]; rewrite IH; auto; intros; apply Hall; right; assumption.
  - rewrite E2. unfold ents. rewrite live_gh_idem. reflexivity.
  - unfold live_gh. rewrite Forall_forall in *. intros h Hh. apply filter_In in Hh as [Hh _]. apply W2, Hh.
  - unfold live_gh. rewrite Forall_forall. intros h Hh. apply filter_In in Hh as [_ Hh]. destruct (g_dead h); [discriminate|reflexivity].
Qed.

(* ------------------------------------------------------------------ ADD *)
Lemma filter_map_comm {A B} (f : B -> bool) (g : A -> B) l : filter f (map g l) = map g (filter (fun x => f (g x)) l).
Proof. induction l as [|x l IH]; cbn [map filter]; [reflexivity|]. destruct (f (g x)); cbn [map]; rewrite IH; reflexivity. Qed.

Lemma add_sg now j r c : snd (add now j r c) = snd (scan r [] (c_entries c)).
Proof.
  unfold add. destruct (scan r [] (c_entries c)) as [kept sg]. cbn [snd].
  destruct (r_ttl r =? 0)%N; [reflexivity|]. match goal with |- context [if ?b then _ else _] => destruct b end; reflexivity.
Qed.

Lemma nodup_after (K : list record) a L : nodup_rec (K ++ a :: L) -> forall x, In x L -> same_data a x = false.
Proof.
  induction K as [|k K IH]; cbn [app nodup_rec]; intros [H1 H2] x Hx; [apply H1, Hx|apply IH; assumption].
Qed.

Lemma osig_no_lookup now (sg : list sigsnap) : existsb is_lookup (map (fun s => OSig now (fst s) (snd s)) sg) = false.
Proof. induction sg as [|s sg IH]; [reflexivity|]. cbn. exact IH. Qed.
Lemma osig_times now (sg : list sigsnap) : times_within now now (map (fun s => OSig now (fst s) (snd s)) sg) = true.
Proof.
  unfold times_within. induction sg as [|s sg IH]; [reflexivity|]. cbn [map forallb]. rewrite IH.
  replace (now <=? now) with true by lia. reflexivity.
Qed.
Lemma osig_no_warning now (sg : list sigsnap) : (forall s, In s sg -> exists r, fst s = Expired r) ->
  filter_map out_warning (map (fun s => OSig now (fst s) (snd s)) sg) = [].
Proof.
  induction sg as [|s sg IH]; intro H; [reflexivity|]. cbn [map filter_map].
  destruct (H s (or_introl eq_refl)) as [r ->]. cbn [out_warning]. apply IH. intros s' Hs'. apply H. right. exact Hs'.
Qed.

Lemma id3_map {A B C} (l : list (A * B * C)) : map (fun '(t, x, sn) => (t, x, sn)) l = l.
Proof. induction l as [|[[a b] c] l IH]; cbn [map]; [reflexivity|]. rewrite IH. reflexivity. Qed.

Lemma goodbye_expiry now e : me_expiry (mkMent (me_rec e) (now - 1000 * me_ttl e) 0) = now.
Proof. unfold me_expiry, me_ttl. cbn [me_rec me_t0]. lia. Qed.

Lemma expired_add now (Hf : list gh) : forall sg : list sigsnap,
  map fst sg = map (fun e => Expired (e_rec e)) (map ent_of Hf) ->
  expired_eqb (filter_map out_expired (map (fun s => OSig now (fst s) (snd s)) sg))
              (map (fun e => mkMent (me_rec e) (now - 1000 * me_ttl e) 0) (map g_m Hf)) = true.
Proof.
  induction Hf as [|h Hf IH]; intros sg Hsg.
  - destruct sg; [reflexivity|discriminate].
  - destruct sg as [|[s snap] sg]; [discriminate|]. cbn [map fst] in Hsg. injection Hsg as -> Hsg.
    cbn [map filter_map fst snd out_expired expired_eqb ent_of e_rec].
    rewrite goodbye_expiry. replace (now =? now) with true by lia. cbn [me_rec].
    unfold g_rec. rewrite same_record_refl. cbn [andb]. apply IH, Hsg.
Qed.

Lemma add_accepted now c s r j : GInv now c -> Cpl (now, c) s -> ttl_ok r -> 0 <= j < cache_jitter_bound ->
  exists s', mon_step s (CAdd r j) (snd (cstep (now, c) (CAdd r j))) = MOk s' /\ Cpl (fst (cstep (now, c) (CAdd r j))) s'.
Proof.
  intros G (Hnow & H & HL & HE & HW & HD) Httl Hj. cbn [fst snd] in *. pose proof jitter_bound_ok as JB.
  unfold ents in HE. rewrite (live_all H HD) in HE.
  cbn [cstep]. pose proof (add_entries now j r c) as AE. pose proof (add_signals now j r c) as AS. pose proof (add_sg now j r c) as ASG.
  destruct (add now j r c) as [c' sg]. cbn [fst snd] in *.
  unfold mon_step. rewrite Hnow.
  assert (Hexp : forall s0, In s0 sg -> exists r0, fst s0 = Expired r0).
  { intros s0 Hs0. apply (in_map fst) in Hs0. rewrite AS in Hs0. destruct (r_ttl r =? 0)%N; [|destruct Hs0].
    apply in_map_iff in Hs0 as (e & <- & _). eauto. }
  rewrite osig_no_lookup, (osig_no_warning now sg Hexp), osig_times. cbn [length Nat.eqb negb orb].
  rewrite id3_map.
  set (P := fun h => spec_match r (g_rec h)).
  assert (Hrem : filter (fun e => spec_match r (me_rec e)) (ms_live s) = map g_m (filter P H)).
  { rewrite HL, filter_map_comm. reflexivity. }
  assert (Hkept : filter (fun e => negb (spec_match r (me_rec e))) (ms_live s) = map g_m (filter (fun h => negb (P h)) H)).
  { rewrite HL, filter_map_comm. reflexivity. }
  assert (Hmat : filter (matches r) (c_entries c) = map ent_of (filter P H)).
  { rewrite HE, filter_map_comm. reflexivity. }
  assert (Hmat' : filter (fun e => negb (matches r e)) (c_entries c) = map ent_of (filter (fun h => negb (P h)) H)).
  { rewrite HE, filter_map_comm. reflexivity. }
  rewrite Hrem, Hkept.
  assert (expired_eqb (filter_map out_expired (map (fun s0 => OSig now (fst s0) (snd s0)) sg))
            (if (r_ttl r =? 0)%N then map (fun e => mkMent (me_rec e) (now - 1000 * me_ttl e) 0) (map g_m (filter P H)) else []) = true) as ->.
  { destruct (r_ttl r =? 0)%N.
    - apply expired_add. rewrite AS, Hmat. reflexivity.
    - destruct sg; [reflexivity|discriminate]. }
  cbn [negb].
  assert (announced_gone (filter_map out_expired (map (fun s0 => OSig now (fst s0) (snd s0)) sg)) = true) as ->.
  { apply announced_gone_firing. intros r0 snap Hin y Hy. rewrite ASG in Hin.
    destruct (scan_snapshots r [] (c_entries c) _ _ Hin) as (es1 & e & es2 & Ees & [= ->] & _ & ->).
    pose proof (proj2 (g_einv _ _ G)) as N. rewrite Ees, map_app in N. cbn [map] in N. cbn [app] in Hy.
    rewrite map_app in Hy. apply in_app_iff in Hy as [Hy|Hy].
    - rewrite same_data_sym. apply (nodup_mid _ _ _ N). apply in_map_iff in Hy as (e' & <- & He'). apply filter_In in He' as [He' _].
      apply in_map, He'.
    - apply (nodup_after _ _ _ N), Hy. }
  cbn [negb]. eexists. split; [reflexivity|]. split; [reflexivity|]. cbn [fst snd ms_live].
  set (newh := if (r_ttl r =? 0)%N then [] else [mkGh (mkMent r now 0) j false]).
  exists (filter (fun h => negb (P h)) H ++ newh).
  assert (Halive : Forall (fun h => g_dead h = false) (filter (fun h => negb (P h)) H ++ newh)).
  { apply Forall_app. split.
    - rewrite Forall_forall in *. intros h Hh. apply filter_In in Hh as [Hh _]. apply HD, Hh.
    - unfold newh. destruct (r_ttl r =? 0)%N; [apply Forall_nil|]. apply Forall_cons; [reflexivity|apply Forall_nil]. }
  split; [|split; [|split]].
  - rewrite map_app. f_equal. unfold newh. destruct (r_ttl r =? 0)%N; reflexivity.
  - unfold ents. rewrite (live_all _ Halive). rewrite AE, Hmat', map_app. f_equal.
    unfold new_entry, newh. destruct (r_ttl r =? 0)%N; [reflexivity|]. cbn [map]. unfold ent_of, g_trig, g_rec. cbn [g_m g_j me_rec me_warned me_t0 skipn].
    rewrite triggers_value by exact Httl. reflexivity.
  - apply Forall_app. split.
    + rewrite Forall_forall in *. intros h Hh. apply filter_In in Hh as [Hh _]. apply HW, Hh.
    + unfold newh. destruct (r_ttl r =? 0)%N eqn:E0; [apply Forall_nil|]. apply Forall_cons; [|apply Forall_nil].
      unfold gwf, g_rec. cbn [g_m g_j g_dead me_rec me_warned]. unfold ttl_ok in Httl. repeat split; try lia; try discriminate.
  - exact Halive.
Qed.

(* ------------------------------------------------------------------ LOOKUP *)
Lemma lookup_accepted now c s n ty : Cpl (now, c) s ->
  mon_step s (CLookup n ty) (snd (cstep (now, c) (CLookup n ty))) = MOk s.
Proof.
  intros (Hnow & H & HL & HE & HW & HD). cbn [fst snd] in *. unfold ents in HE. rewrite (live_all H HD) in HE.
  cbn [cstep snd mon_step].
  assert (lookup n ty c = map me_rec (filter (fun e => spec_lookup_match n ty (me_rec e)) (ms_live s))) as ->.
  { unfold lookup. rewrite HE, HL, map_map. cbn [ent_of e_rec].
    rewrite (filter_map_comm (cache_lookup_match n ty) g_rec), (filter_map_comm (fun e => spec_lookup_match n ty (me_rec e)) g_m), map_map.
    f_equal. apply filter_ext. intro h. apply lookup_match_spec. }
  rewrite records_eqb_refl. reflexivity.
Qed.

(* ------------------------------------------------------------------ every operation, every history *)
Definition op_ok (now : Z) (o : cop) : Prop :=
  match o with
  | CAdd r j => ttl_ok r /\ 0 <= j < cache_jitter_bound
  | CAdv t => now <= t
  | CLate _ => False
  | CAdvB _ => True
  | CLookup _ _ => True
  end.
Definition op_time (now : Z) (o : cop) : Z :=
  match o with CAdv t => Z.max now t | CAdvB t => Z.max now t | _ => now end.
Fixpoint script_ok (now : Z) (ops : list cop) : Prop :=
  match ops with [] => True | o :: ops' => op_ok now o /\ script_ok (op_time now o) ops' end.

Lemma op_ok_wf now o : op_ok now o -> wf_op o.
Proof. destruct o; cbn; auto. Qed.

Theorem step_accepted now c s o : GInv now c -> Cpl (now, c) s -> op_ok now o ->
  exists s', mon_step s o (snd (cstep (now, c) o)) = MOk s' /\ Cpl (fst (cstep (now, c) o)) s' /\
             fst (fst (cstep (now, c) o)) = op_time now o.
Proof.
  intros G C Hok. destruct o as [r j|t|t|t|n ty].
  - destruct Hok as [H1 H2]. destruct (add_accepted now c s r j G C H1 H2) as (s' & M & C'). exists s'. split; [exact M|]. split; [exact C'|].
    cbn [cstep]. destruct (add now j r c). reflexivity.
  - cbn in Hok. destruct (adv_accepted t now c s G C Hok) as (s' & M & C'). cbn zeta in *.
    cbn [cstep]. replace (t <? now) with false by lia.
    destruct (fire_exact (S (S (total_triggers c))) t c) as [c' o]. cbn [fst snd] in *. exists s'. cbn [mon_step op_time]. split; [exact M|]. split; [exact C'|]. lia.
  - destruct Hok.
  - cbn [cstep mon_step op_time]. pose proof C as (Hnow & _). cbn [fst] in Hnow. rewrite Hnow. destruct (t <=? now) eqn:E.
    + cbn [snd length Nat.eqb fst]. exists s. split; [reflexivity|]. split; [exact C|]. lia.
    + destruct (adv_accepted (t - 1) now c s G C ltac:(lia)) as (s' & M & C'). cbn zeta in *.
      destruct (fire_exact (S (S (total_triggers c))) (t - 1) c) as [c' o]. cbn [fst snd] in *. rewrite M.
      eexists. split; [reflexivity|]. split; [|lia]. destruct C' as (_ & HH). split; [reflexivity|exact HH].
  - exists s. cbn [op_time]. split; [apply lookup_accepted, C|]. cbn [cstep fst]. auto.
Qed.

Theorem run_accepted_from : forall ops st s k,
  GInv (fst st) (snd st) -> Cpl st s -> script_ok (fst st) ops -> mon_run s k ops (crun_g st ops) = None.
Proof.
  induction ops as [|o ops IH]; intros [now c] s k G C Hs; [reflexivity|]. cbn [fst snd] in *. destruct Hs as [Ho Hs].
  cbn [crun_g mon_run].
  destruct (step_accepted now c s o G C Ho) as (s' & M & C' & T).
  pose proof (cstep_GInv (now, c) o G (op_ok_wf now o Ho)) as G'.
  destruct (cstep (now, c) o) as [st' out]. cbn [fst snd] in *. rewrite M. apply IH; auto. rewrite T. exact Hs.
Qed.

Lemma Cpl_init : Cpl (0, empty_cache) mstate0.
Proof. split; [reflexivity|]. exists []. repeat split; auto. Qed.

(* the reference cache of C05 / C06 / C18 accepts every run of the model of cache.cpp *)
Theorem run_accepted ops : script_ok 0 ops -> mon_cache ops (crun_g (0, empty_cache) ops) = None.
Proof. intro H. unfold mon_cache. apply run_accepted_from; [exact GInv_empty|exact Cpl_init|exact H]. Qed.
