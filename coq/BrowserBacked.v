(* BrowserBacked.v — C15 (first clause) at run level: every added / updated report a browser emits during a handler
   invocation is assembled from a set of records that were all either in a cache before that invocation or delivered in
   it: a PTR named the service's type, the first SRV of the instance (hostname, port), the merge of its TXT records. *)
From QV Require Import Base Fields SrcFacts Msg SrcDecisions Cache CacheSpec CacheProofs Sim Prober Resolver Browser BrowserProofs BrowserInv.
From Coq Require Import ZifyBool ZifyNat ZifyN.
Local Open Scope Z_scope.

Definition Backed (v : view) (s : service) : Prop :=
  exists fq srv, split_fq fq = (s_name s, s_type s) /\ lookup_view (s_type s) T_PTR v <> [] /\
    hd_error (lookup_view fq T_SRV v) = Some srv /\ s_hostname s = r_target srv /\ s_port s = r_port srv /\
    s_attrs s = merged_attrs fq v.
Definition is_report (sg : N) : Prop := sg = SIG_serviceAdded \/ sg = SIG_serviceUpdated.
Definition AllBacked (RS : list record) (es : list eff) : Prop :=
  forall ob sg s, In (ESig ob sg (PService s)) es -> is_report sg -> exists v, incl v RS /\ Backed v s.

Lemma AllBacked_nil RS : AllBacked RS [].
Proof. intros ob sg s []. Qed.
Lemma AllBacked_app RS a b : AllBacked RS a -> AllBacked RS b -> AllBacked RS (a ++ b).
Proof. intros A B ob sg s H. apply in_app_iff in H as [H|H]; eauto. Qed.
Lemma AllBacked_nosig RS es : (forall ob sg s, ~ In (ESig ob sg (PService s)) es) -> AllBacked RS es.
Proof. intros H ob sg s Hin. exfalso. exact (H _ _ _ Hin). Qed.

Lemma update_service_backed j v fq b RS : incl v RS -> AllBacked RS (snd (update_service j v fq b)).
Proof.
  intros Hv ob sg s Hin _. pose proof (update_service_spec j v fq b) as U.
  destruct (update_service j v fq b) as [[need b'] es]. cbn [snd] in Hin. destruct (split_fq fq) as [sname stype] eqn:SF.
  destruct U as [[-> _]|(srv & s0 & P & Hs & -> & _ & _ & [[_ ->]|(old & _ & _ & ->)])]; [destruct Hin| |];
    destruct Hin as [Hin|[]]; injection Hin as _ _ <-; exists v; (split; [exact Hv|]); exists fq, srv; cbn; repeat split; auto.
Qed.

Lemma record_expired_backed j v r b RS : incl v RS -> AllBacked RS (snd (on_record_expired j v r b)).
Proof.
  intro Hv. unfold on_record_expired. destruct (r_type r =? T_SRV)%N.
  - destruct (smap_find _ _) as [s0|]; [|apply AllBacked_nil]. destruct (bs_is_null _); [apply AllBacked_nil|].
    intros ob sg s [H|[]] [R|R]; injection H as _ <- _; discriminate.
  - destruct (r_type r =? T_TXT)%N; [|apply AllBacked_nil].
    pose proof (update_service_backed j v (r_name r) b RS Hv) as U. destruct (update_service j v (r_name r) b) as [[n b'] es]. exact U.
Qed.

Lemma slots_for_backed ci sg v RS : incl v RS -> forall bs j0, AllBacked RS (snd (slots_for ci sg v j0 bs)).
Proof.
  intro Hv. induction bs as [|b bs IH]; intro j0; cbn [slots_for]; [apply AllBacked_nil|].
  assert (H : AllBacked RS (snd (if Nat.eqb (b_cache b) ci then match sg with ShouldQuery r => (b, on_should_query r) | Expired r => on_record_expired j0 v r b end else (b, [])))).
  { destruct (Nat.eqb (b_cache b) ci); [|apply AllBacked_nil]. destruct sg as [r|r]; [|apply record_expired_backed, Hv].
    apply AllBacked_nosig. intros ob sg s [H|[]]. discriminate. }
  destruct (if Nat.eqb (b_cache b) ci then _ else _) as [b' e]. specialize (IH (S j0)). destruct (slots_for ci sg v (S j0) bs) as [bs'' e'].
  apply AllBacked_app; assumption.
Qed.

Lemma deliver_signals_backed ci RS : forall sgs bs, (forall sg v, In (sg, v) sgs -> incl v RS) -> AllBacked RS (snd (deliver_signals ci sgs bs)).
Proof.
  induction sgs as [|[sg v] sgs IH]; intros bs H; cbn [deliver_signals]; [apply AllBacked_nil|].
  pose proof (slots_for_backed ci sg v RS (H sg v (or_introl eq_refl)) bs 0%nat) as B. destruct (slots_for ci sg v 0 bs) as [bs1 e1].
  specialize (IH bs1 (fun sg0 v0 Hin => H sg0 v0 (or_intror Hin))). destruct (deliver_signals ci sgs bs1) as [bs2 e2].
  apply AllBacked_app; assumption.
Qed.

(* ---- what the cache shows its listeners, and what it holds afterwards ---- *)
Lemma scan_views r : forall es kept k sgs, scan r kept es = (k, sgs) ->
  incl (map e_rec k) (map e_rec (kept ++ es)) /\ forall sg v, In (sg, v) sgs -> incl v (map e_rec (kept ++ es)).
Proof.
  induction es as [|e es IH]; intros kept k sgs H; cbn [scan] in H.
  - injection H as <- <-. rewrite app_nil_r. split; [apply incl_refl|intros sg v []].
  - destruct (cache_match r (e_rec e)).
    + destruct (scan r kept es) as [k0 sg0] eqn:E. injection H as <- <-. destruct (IH kept k0 sg0 E) as [A B].
      assert (Sub : incl (map e_rec (kept ++ es)) (map e_rec (kept ++ e :: es))).
      { rewrite !map_app. apply incl_app; [apply incl_appl, incl_refl|apply incl_appr, incl_tl, incl_refl]. }
      split; [eapply incl_tran; eauto|]. intros sg v Hin.
      destruct (r_ttl r =? 0)%N; [destruct Hin as [Hin|Hin]; [injection Hin as _ <-; exact Sub|]|]; eapply incl_tran; eauto.
    + destruct (IH (kept ++ [e]) k sgs H) as [A B]. rewrite <- app_assoc in A, B. exact (conj A B).
Qed.

Lemma add_views now j r c : let '(c', sgs) := add now j r c in
  incl (view_of c') (r :: view_of c) /\ forall sg v, In (sg, v) sgs -> incl v (view_of c).
Proof.
  unfold add, view_of. rewrite rearm_match. destruct (scan r [] (c_entries c)) as [kept sg] eqn:E. destruct (scan_views r _ _ _ _ E) as [A B]. cbn [app] in A, B.
  destruct (r_ttl r =? 0)%N; [split; [cbn [c_entries]; apply incl_tl, A|exact B]|].
  assert (X : incl (map e_rec (kept ++ [mkEntry r (triggers now j (r_ttl r))])) (r :: map e_rec (c_entries c))).
  { rewrite map_app. apply incl_app; [apply incl_tl, A|]. intros x [<-|[]]. left. reflexivity. }
  destruct (match c_next c with None => true | Some n => hd now (triggers now j (r_ttl r)) <? n end); split; auto.
Qed.

Lemma pass_views now : forall es kept nn k n sgs, pass now kept es nn = (k, n, sgs) ->
  incl (map e_rec k) (map e_rec (kept ++ es)) /\ forall sg v, In (sg, v) sgs -> incl v (map e_rec (kept ++ es)).
Proof.
  induction es as [|e es IH]; intros kept nn k n sgs H; cbn [pass] in H.
  - injection H as <- _ <-. rewrite app_nil_r. split; [apply incl_refl|intros sg v []].
  - destruct (drop_passed now (e_trig e)) as [sq rest]. destruct rest as [|t0 rest'].
    + destruct (pass now kept es nn) as [[k0 n0] sg0] eqn:E. injection H as <- _ <-. destruct (IH _ _ _ _ _ E) as [A B].
      assert (Sub : incl (map e_rec (kept ++ es)) (map e_rec (kept ++ e :: es))).
      { rewrite !map_app. apply incl_app; [apply incl_appl, incl_refl|apply incl_appr, incl_tl, incl_refl]. }
      split; [eapply incl_tran; eauto|]. intros sg v [Hin|Hin]; [injection Hin as _ <-; exact Sub|eapply incl_tran; eauto].
    + set (e' := mkEntry (e_rec e) (t0 :: rest')) in *.
      destruct (pass now (kept ++ [e']) es (min_opt nn t0)) as [[k0 n0] sg0] eqn:E. injection H as <- _ <-.
      destruct (IH _ _ _ _ _ E) as [A B]. rewrite <- app_assoc in A, B.
      assert (Eq : map e_rec (kept ++ [e'] ++ es) = map e_rec (kept ++ e :: es)) by (rewrite !map_app; reflexivity).
      rewrite Eq in A, B. split; [exact A|]. intros sg v Hin.
      destruct sq; [destruct Hin as [Hin|Hin]; [injection Hin as _ <-; rewrite <- Eq; apply incl_refl|]|]; eapply B; eauto.
Qed.

Lemma timeout_views now c : let '(c', sgs) := on_timeout now c in
  incl (view_of c') (view_of c) /\ forall sg v, In (sg, v) sgs -> incl v (view_of c).
Proof.
  unfold on_timeout, view_of. destruct (pass now [] (c_entries c) None) as [[k n] sg] eqn:E.
  destruct (pass_views now _ _ _ _ _ _ E) as [A B]. cbn [app c_entries] in *. auto.
Qed.

(* ---- worlds ---- *)
Definition CacheIncl (RS : list record) (w : world) : Prop :=
  forall ci c, nth_error (w_caches w) ci = Some c -> incl (view_of c) RS.

Lemma nth_error_replace {A} (l : list A) i j x y : nth_error (replace_nth j x l) i = Some y -> y = x \/ nth_error l i = Some y.
Proof.
  unfold replace_nth. revert i j. induction l as [|a l IH]; intros i j H.
  - destruct j; cbn in H; destruct i as [|i]; cbn in H; try (injection H as <-; left; reflexivity); destruct i; discriminate.
  - destruct j as [|j]; cbn in H.
    + destruct i as [|i]; cbn in *; [injection H as <-; left; reflexivity|right; exact H].
    + destruct i as [|i]; cbn in *; [right; exact H|]. apply (IH i j H).
Qed.

Lemma world_cache_add_backed now ci r w RS :
  CacheIncl RS w -> In r RS ->
  CacheIncl RS (fst (world_cache_add now ci r w)) /\ AllBacked RS (snd (world_cache_add now ci r w)).
Proof.
  intros C Hr. unfold world_cache_add. destruct (nth_error (w_caches w) ci) as [c|] eqn:Nc; [|split; [exact C|apply AllBacked_nil]].
  pose proof (add_views now (w_jitter w) r c) as AV. destruct (add now (w_jitter w) r c) as [c' sgs]. destruct AV as [A B].
  pose proof (deliver_signals_backed ci RS sgs (w_browsers w) (fun sg v Hin => incl_tran (B sg v Hin) (C ci c Nc))) as D.
  destruct (deliver_signals ci sgs (w_browsers w)) as [bs es]. cbn [fst snd]. split.
  - intros i c0 H. cbn [w_caches] in H. apply nth_error_replace in H as [->|H]; [|exact (C i c0 H)].
    eapply incl_tran; [exact A|]. intros x [<-|Hx]; [exact Hr|exact (C ci c Nc x Hx)].
  - apply AllBacked_app; [exact D|]. apply AllBacked_nosig. intros ob sg s H.
    destruct (add_rearms now (w_jitter w) r c); [|destruct H]. destruct (c_timer c'); [destruct H as [H|[]]; discriminate|destruct H].
Qed.

Lemma world_cache_timeout_backed now ci w RS :
  CacheIncl RS w -> CacheIncl RS (fst (world_cache_timeout now ci w)) /\ AllBacked RS (snd (world_cache_timeout now ci w)).
Proof.
  intros C. unfold world_cache_timeout. destruct (nth_error (w_caches w) ci) as [c|] eqn:Nc; [|split; [exact C|apply AllBacked_nil]].
  pose proof (timeout_views now (mkCache (c_entries c) (c_next c) None)) as TV.
  destruct (on_timeout now (mkCache (c_entries c) (c_next c) None)) as [c' sgs]. destruct TV as [A B].
  change (view_of (mkCache (c_entries c) (c_next c) None)) with (view_of c) in A, B.
  pose proof (deliver_signals_backed ci RS sgs (w_browsers w) (fun sg v Hin => incl_tran (B sg v Hin) (C ci c Nc))) as D.
  destruct (deliver_signals ci sgs (w_browsers w)) as [bs es]. cbn [fst snd]. split.
  - intros i c0 H. cbn [w_caches] in H. apply nth_error_replace in H as [->|H]; [|exact (C i c0 H)].
    eapply incl_tran; [exact A|exact (C ci c Nc)].
  - apply AllBacked_app; [exact D|]. apply AllBacked_nosig. intros ob sg s H. destruct (c_timer c'); [destruct H as [H|[]]; discriminate|destruct H].
Qed.

Lemma CacheIncl_browsers RS w bs : CacheIncl RS w -> CacheIncl RS (mkWorld (w_caches w) bs (w_jitter w)).
Proof. intros C i c H. exact (C i c H). Qed.

Lemma browser_cache_records_backed now j RS : forall rs nms nulls w,
  CacheIncl RS w -> (forall r, In r rs -> In r RS) ->
  CacheIncl RS (fst (fst (fst (browser_cache_records now j rs nms nulls w)))) /\
  AllBacked RS (snd (browser_cache_records now j rs nms nulls w)).
Proof.
  induction rs as [|r rs IH]; intros nms nulls w C Hr; cbn [browser_cache_records]; [split; [exact C|apply AllBacked_nil]|].
  destruct (nth_error (w_browsers w) j) as [b|]; [|split; [exact C|apply AllBacked_nil]].
  destruct (classify _ r) as [[keep upd] tgt].
  assert (H1 : CacheIncl RS (fst (match tgt with
            | Some t => (mkWorld (w_caches w) (replace_nth j (mkBrowser (b_type b) (b_cache b) (b_services b) (b_hostnames b)
                                   (set_insert (bs_data t) (b_ptr_targets b))) (w_browsers w)) (w_jitter w),
                         [EStart (T_SERVICE_OF j) service_batch_ms])
            | None => (w, []) end)) /\
          AllBacked RS (snd (match tgt with
            | Some t => (mkWorld (w_caches w) (replace_nth j (mkBrowser (b_type b) (b_cache b) (b_services b) (b_hostnames b)
                                   (set_insert (bs_data t) (b_ptr_targets b))) (w_browsers w)) (w_jitter w),
                         [EStart (T_SERVICE_OF j) service_batch_ms])
            | None => (w, []) end))).
  { destruct tgt; [|split; [exact C|apply AllBacked_nil]]. split; [apply CacheIncl_browsers, C|].
    apply AllBacked_nosig. intros ob sg s [H|[]]. discriminate. }
  destruct (match tgt with Some t => _ | None => _ end) as [w1 e1]. destruct H1 as [C1 B1]. cbn [fst snd] in *.
  assert (H2 : CacheIncl RS (fst (if keep then world_cache_add now (b_cache b) r w1 else (w1, []))) /\
               AllBacked RS (snd (if keep then world_cache_add now (b_cache b) r w1 else (w1, [])))).
  { destruct keep; [apply world_cache_add_backed; [exact C1|apply Hr; left; reflexivity]|split; [exact C1|apply AllBacked_nil]]. }
  destruct (if keep then _ else _) as [w2 e2]. destruct H2 as [C2 B2]. cbn [fst snd] in *.
  match goal with |- context [browser_cache_records now j rs ?n ?l w2] =>
    specialize (IH n l w2 C2 (fun r0 H0 => Hr r0 (or_intror H0))); destruct (browser_cache_records now j rs n l w2) as [[[w3 nm] nl] e3] end.
  cbn [fst snd] in *. destruct IH as [C3 B3]. split; [exact C3|]. apply AllBacked_app; [exact B1|]. apply AllBacked_app; assumption.
Qed.

Lemma browser_update_names_backed j nulls RS : forall nms w queries,
  CacheIncl RS w ->
  CacheIncl RS (fst (fst (browser_update_names j nms nulls w queries))) /\ AllBacked RS (snd (browser_update_names j nms nulls w queries)).
Proof.
  induction nms as [|n nms IH]; intros w queries C; cbn [browser_update_names]; [split; [exact C|apply AllBacked_nil]|].
  destruct (nth_error (w_browsers w) j) as [b|]; [|split; [exact C|apply AllBacked_nil]].
  set (v := match nth_error (w_caches w) (b_cache b) with Some c => view_of c | None => [] end).
  assert (Hv : incl v RS).
  { unfold v. destruct (nth_error (w_caches w) (b_cache b)) as [c|] eqn:E; [exact (C _ _ E)|intros x []]. }
  match goal with |- context [update_service j v ?fq b] =>
    pose proof (update_service_backed j v fq b RS Hv) as U; destruct (update_service j v fq b) as [[need b'] es] end.
  match goal with |- context [browser_update_names j nms nulls ?w1 ?q1] =>
    specialize (IH w1 q1 (CacheIncl_browsers RS w _ C)); destruct (browser_update_names j nms nulls w1 q1) as [[w'' qs] es'] end.
  cbn [fst snd] in *. destruct IH as [C2 B2]. split; [exact C2|apply AllBacked_app; assumption].
Qed.

Lemma browser_cache_addresses_backed now j RS : forall rs w,
  CacheIncl RS w -> (forall r, In r rs -> In r RS) ->
  CacheIncl RS (fst (browser_cache_addresses now j rs w)) /\ AllBacked RS (snd (browser_cache_addresses now j rs w)).
Proof.
  induction rs as [|r rs IH]; intros w C Hr; cbn [browser_cache_addresses]; [split; [exact C|apply AllBacked_nil]|].
  destruct (nth_error (w_browsers w) j) as [b|]; [|split; [exact C|apply AllBacked_nil]].
  assert (H1 : CacheIncl RS (fst (if ((r_type r =? T_A)%N || (r_type r =? T_AAAA)%N) && set_mem (bs_data (r_name r)) (b_hostnames b)
                                  then world_cache_add now (b_cache b) r w else (w, []))) /\
               AllBacked RS (snd (if ((r_type r =? T_A)%N || (r_type r =? T_AAAA)%N) && set_mem (bs_data (r_name r)) (b_hostnames b)
                                  then world_cache_add now (b_cache b) r w else (w, [])))).
  { destruct (_ && _); [apply world_cache_add_backed; [exact C|apply Hr; left; reflexivity]|split; [exact C|apply AllBacked_nil]]. }
  destruct (if ((r_type r =? T_A)%N || (r_type r =? T_AAAA)%N) && set_mem (bs_data (r_name r)) (b_hostnames b) then _ else _) as [w1 e1].
  destruct H1 as [C1 B1]. cbn [fst snd] in *.
  specialize (IH w1 C1 (fun r0 H0 => Hr r0 (or_intror H0))). destruct (browser_cache_addresses now j rs w1) as [w2 e2].
  cbn [fst snd] in *. destruct IH as [C2 B2]. split; [exact C2|apply AllBacked_app; assumption].
Qed.

Lemma browser_on_message_backed now j m w RS :
  CacheIncl RS w -> (forall r, In r (m_records m) -> In r RS) ->
  CacheIncl RS (fst (browser_on_message now j m w)) /\ AllBacked RS (snd (browser_on_message now j m w)).
Proof.
  intros C Hr. unfold browser_on_message. destruct (negb (m_response m)); [split; [exact C|apply AllBacked_nil]|].
  pose proof (browser_cache_records_backed now j RS (m_records m) [] false w C Hr) as H1.
  destruct (browser_cache_records now j (m_records m) [] false w) as [[[w1 nms] nulls] e1]. cbn [fst snd] in H1. destruct H1 as [C1 B1].
  pose proof (browser_update_names_backed j nulls RS nms w1 [] C1) as H2.
  destruct (browser_update_names j nms nulls w1 []) as [[w2 qnames] e2]. cbn [fst snd] in H2. destruct H2 as [C2 B2].
  pose proof (browser_cache_addresses_backed now j RS (m_records m) w2 C2 Hr) as H3.
  destruct (browser_cache_addresses now j (m_records m) w2) as [w3 e3]. cbn [fst snd] in *. destruct H3 as [C3 B3].
  split; [exact C3|]. apply AllBacked_app; [exact B1|]. apply AllBacked_app; [exact B2|]. apply AllBacked_app; [exact B3|].
  apply AllBacked_nosig. intros ob sg s H. destruct qnames; [destruct H|destruct H as [H|[]]; discriminate].
Qed.

Lemma all_browsers_backed now m RS : forall n j w,
  CacheIncl RS w -> (forall r, In r (m_records m) -> In r RS) ->
  CacheIncl RS (fst (all_browsers_on_message now j n m w)) /\ AllBacked RS (snd (all_browsers_on_message now j n m w)).
Proof.
  induction n as [|n IH]; intros j w C Hr; cbn [all_browsers_on_message]; [split; [exact C|apply AllBacked_nil]|].
  pose proof (browser_on_message_backed now j m w RS C Hr) as H1. destruct (browser_on_message now j m w) as [w1 e1].
  cbn [fst snd] in H1. destruct H1 as [C1 B1].
  specialize (IH (S j) w1 C1 Hr). destruct (all_browsers_on_message now (S j) n m w1) as [w2 e2]. cbn [fst snd] in *.
  destruct IH as [C2 B2]. split; [exact C2|apply AllBacked_app; assumption].
Qed.

(* the records a handler invocation can draw on: every cache's content before it, and what the event delivers *)
Definition event_records (ev : event bapi) : list record :=
  match ev with EvMsg m => m_records m | EvApi (BCadd _ r _) => [r] | _ => [] end.
Definition sources (w : world) (ev : event bapi) : list record := concat (map view_of (w_caches w)) ++ event_records ev.

Lemma sources_incl w ev : CacheIncl (sources w ev) w.
Proof.
  intros ci c H x Hx. unfold sources. apply in_app_iff. left. apply in_concat. exists (view_of c). split; [|exact Hx].
  apply in_map. eapply nth_error_In, H.
Qed.

Theorem world_handle_backed now w ev : AllBacked (sources w ev) (snd (world_handle now w ev)).
Proof.
  pose proof (sources_incl w ev) as C. destruct ev as [m|tid|a]; cbn [world_handle].
  - apply all_browsers_backed; [exact C|]. intros r H. unfold sources. apply in_app_iff. right. exact H.
  - destruct (tid mod 3 =? 0)%N; [apply world_cache_timeout_backed, C|].
    destruct (tid mod 3 =? 1)%N.
    + cbn [snd]. apply AllBacked_nosig. intros ob sg s H. unfold browser_query_timeout in H.
      destruct (nth_error (w_browsers w) (N.to_nat (tid / 3))); [destruct H as [H|[H|[]]]; discriminate|destruct H].
    + apply AllBacked_nosig. intros ob sg s H. unfold browser_service_timeout in H.
      destruct (nth_error (w_browsers w) (N.to_nat (tid / 3))) as [b|]; [|destruct H]. destruct (b_ptr_targets b); [destruct H|].
      destruct H as [H|[]]. discriminate.
  - destruct a as [|ty co|jt|ci r jt|ci n ty].
    + apply AllBacked_nil.
    + apply AllBacked_nosig. intros ob sg s H. destruct co; cbn [snd] in H; unfold browser_query_timeout in H;
        match type of H with context [nth_error ?l ?i] => destruct (nth_error l i) end; try (destruct H as [H|[H|[]]]; discriminate); destruct H.
    + apply AllBacked_nil.
    + apply world_cache_add_backed.
      * intros i c H. exact (C i c H).
      * unfold sources. apply in_app_iff. right. left. reflexivity.
    + apply AllBacked_nosig. intros ob sg s [H|[]]. discriminate.
Qed.
