(* NetTwo.v — C04 with two providers of different service types: each browser (of one of the two types) follows the
   provider of its type and is not disturbed by the other, whatever the interleaving of the two providers' histories. *)
From QV Require Import Base Fields SrcFacts Msg SrcDecisions Cache CacheSpec CacheProofs Sim SimProofs Prober ProberProofs Hostname HostnameProofs HostnameInv Resolver Provider ProviderSpec ProviderProofs ProviderListener ProviderConverge ProviderGoodbye Browser BrowserProofs BrowserInv NetProofs NetHop NetPair NetLag.
Local Open Scope Z_scope.

(* the (only) browser of the world browses for exactly the type T *)
Definition type_is (T : bytes) (w : world) : Prop := exists b, nth_error (w_browsers w) 0 = Some b /\ b_type b = Some T.

Lemma bom_type T now m w : type_is T w -> type_is T (fst (browser_on_message now 0 m w)).
Proof.
  intros (b & Hb & Ht). pose proof (browser_on_message_step now 0 m w) as S.
  destruct (browser_on_message now 0 m w) as [w' es]. cbn [fst]. destruct S as [S _].
  destruct (S 0%nat b Hb) as (b' & Hb' & Ht' & _). exists b'. split; [exact Hb'|congruence].
Qed.

Lemma bhear_type T now : forall es w, type_is T w -> type_is T (fst (bhear now w es)).
Proof.
  induction es as [|e es IH]; intros w H; cbn [bhear]; [exact H|].
  destruct e as [m|m|ob sg p|tid ms|tid|rs]; try (apply IH; exact H).
  destruct (m_response m); [|apply IH; exact H].
  pose proof (bom_type T now m w H) as H1. destruct (browser_on_message now 0 m w) as [w1 o1]. cbn [fst] in H1.
  specialize (IH w1 H1). destruct (bhear now w1 es) as [w2 o2]. exact IH.
Qed.

(* the two types have nothing to do with each other: different, and no instance name of type T' ends in ".T" *)
Definition Unrelated (T T' : bytes) : Prop :=
  bytes_eqb T' T = false /\ forall nm, index_of DOT nm = None -> ends_with ([DOT] ++ T) (nm ++ DOT :: T') = false.

Lemma announces_ttl p s t T nm k : announces p s t T nm -> announces (set_ttl k p) (set_ttl k s) (set_ttl k t) T nm.
Proof. intros [(P1 & P2 & P3) (S1 & S2) (X1 & X2)]. constructor; cbn; repeat split; assumption. Qed.

(* what a provider of type T' puts on the link leaves a browser of type T as it is *)
Lemma script_ignored T T' now : Unrelated T T' -> bytes_eqb T browse_type = false ->
  forall L es, Script T' L es -> forall c b, b_type b = Some T -> bhear now (mkWorld [c] [b] 0) es = (mkWorld [c] [b] 0, []).
Proof.
  intros [Hne Hend] Hbr L es S.
  induction S as [L|L e es Se Ses IH|p s t nm es G Ses IH|p s t nm es G Ses IH|p s t p' s' t' nm es G G' Ses IH]; intros c b Hty.
  - reflexivity.
  - destruct e as [m|m|ob sg pl|tid ms|tid|rs]; cbn [bhear]; try (apply IH; exact Hty).
    rewrite (Se m (or_introl eq_refl)). apply IH, Hty.
  - destruct G as (An & Hnm & _). unfold goodbye. cbn [bhear m_response].
    rewrite (other_type_ignored now _ _ _ T T' nm A0 P0 I0 c b (announces_ttl _ _ _ _ _ 0%N An) Hty Hbr Hne (Hend nm Hnm)).
    rewrite (IH c b Hty). reflexivity.
  - destruct G as (An & Hnm & _). unfold announcement. cbn [bhear m_response].
    rewrite (other_type_ignored now _ _ _ T T' nm A0 P0 I0 c b An Hty Hbr Hne (Hend nm Hnm)).
    rewrite (IH c b Hty). reflexivity.
  - destruct G' as (An & Hnm & _). unfold announcement. cbn [bhear m_response].
    rewrite (other_type_ignored now _ _ _ T T' nm A0 P0 I0 c b An Hty Hbr Hne (Hend nm Hnm)).
    rewrite (IH c b Hty). reflexivity.
Qed.

(* two providers (each a hostname + provider + prober composite on its own host) acting in any interleaving; browsers of
   type T1, each with its own cache, hear every multicast response of both, in order *)
Inductive net2 (T1 T2 : bytes) : comp -> list record -> comp -> list record -> list world -> Prop :=
| n2_init l1 i1 l2 i2 n :
    net2 T1 T2 (mkComp (fst (on_rebroadcast (mkHost l1 i1 [] [] false 1))) no_prov None) []
               (mkComp (fst (on_rebroadcast (mkHost l2 i2 [] [] false 1))) no_prov None) []
               (repeat (mkWorld [empty_cache] [mkBrowser (Some T1) 0 [] [] []] 0) n)
| n2_act1 c1 L1 c2 L2 ws now nowb ev : net2 T1 T2 c1 L1 c2 L2 ws -> one_provider c1 ev -> ev_type_ok T1 ev ->
    net2 T1 T2 (fst (comp_handle now c1 ev)) (listen L1 (snd (comp_handle now c1 ev))) c2 L2
         (map (fun w => fst (bhear nowb w (snd (comp_handle now c1 ev)))) ws)
| n2_act2 c1 L1 c2 L2 ws now nowb ev : net2 T1 T2 c1 L1 c2 L2 ws -> one_provider c2 ev -> ev_type_ok T2 ev ->
    net2 T1 T2 c1 L1 (fst (comp_handle now c2 ev)) (listen L2 (snd (comp_handle now c2 ev)))
         (map (fun w => fst (bhear nowb w (snd (comp_handle now c2 ev)))) ws).

Theorem browsers_follow_their_provider T1 T2 c1 L1 c2 L2 ws :
  T1 <> [] -> bytes_eqb T1 browse_type = false -> Unrelated T1 T2 ->
  net2 T1 T2 c1 L1 c2 L2 ws -> Forall (reports_served T1 c1) ws.
Proof.
  intros HT Hbr Un R.
  assert (Inv : CInv c1 L1 /\ TInv T1 c1 /\ CInv c2 L2 /\ TInv T2 c2 /\ Forall (fun w => BI T1 L1 w /\ type_is T1 w) ws).
  { induction R as [l1 i1 l2 i2 n|c1 L1 c2 L2 ws now nowb ev R (I1 & J1 & I2 & J2 & IB) One Ty|c1 L1 c2 L2 ws now nowb ev R (I1 & J1 & I2 & J2 & IB) One Ty].
    - split; [apply (lreach_inv _ _ (lr_init l1 i1))|]. split; [constructor; cbn [cp_prov no_prov pv_exists]; discriminate|].
      split; [apply (lreach_inv _ _ (lr_init l2 i2))|]. split; [constructor; cbn [cp_prov no_prov pv_exists]; discriminate|].
      apply Forall_forall. intros w Hw. apply repeat_spec in Hw. subst w. split.
      + apply bi_none; try reflexivity. left. reflexivity.
      + eexists. split; reflexivity.
    - split; [apply comp_step_inv; assumption|]. split; [apply (comp_step_T T1 now c1 ev L1 I1 J1 One Ty)|].
      split; [exact I2|]. split; [exact J2|].
      apply Forall_forall. intros w' Hw. apply in_map_iff in Hw as (w & <- & Hw).
      destruct (proj1 (Forall_forall _ _) IB w Hw) as [B Tw]. split.
      + apply (pair_step bhear bhear_app bhear_silent hear_goodbye_effect hear_fresh_effect hear_over_effect T1 now nowb c1 ev L1 w HT Hbr I1 J1 B One Ty).
      + apply bhear_type, Tw.
    - split; [exact I1|]. split; [exact J1|].
      split; [apply comp_step_inv; assumption|]. split; [apply (comp_step_T T2 now c2 ev L2 I2 J2 One Ty)|].
      apply Forall_forall. intros w' Hw. apply in_map_iff in Hw as (w & <- & Hw).
      destruct (proj1 (Forall_forall _ _) IB w Hw) as [B Tw].
      assert (E : bhear nowb w (snd (comp_handle now c2 ev)) = (w, [])).
      { destruct Tw as (b0 & Hb0 & Ht0).
        inversion B as [c b Ce Hty Hc Hsv|p s t nm c b G Hh Hty Hc Hsv]; subst; cbn [w_browsers nth_error] in Hb0; injection Hb0 as <-;
          apply (script_ignored T1 T2 nowb Un Hbr L2 _ (step_script T2 now c2 ev L2 I2 J2 One Ty) c b Ht0). }
      rewrite E. cbn [fst]. split; assumption. }
  destruct Inv as (I1 & _ & _ & _ & IB). apply Forall_forall. intros w Hw.
  apply (BI_reports_served T1 c1 L1 w I1 (proj1 (proj1 (Forall_forall _ _) IB w Hw))).
Qed.

(* when are two types unrelated: they differ and T' does not end in ".T" (as "_sub._t." would for "_t.") *)
Lemma ends_with_elim s l : ends_with s l = true -> exists pre, l = pre ++ s.
Proof.
  unfold ends_with. intro H. apply andb_true_iff in H as [_ H]. apply bytes_eqb_eq in H.
  exists (firstn (length l - length s) l). rewrite <- H at 2. symmetry. apply firstn_skipn.
Qed.

Lemma split_at_dot T T' : forall nm pre, index_of DOT nm = None -> nm ++ DOT :: T' = pre ++ DOT :: T ->
  (pre = nm /\ T = T') \/ exists x, T' = x ++ DOT :: T.
Proof.
  induction nm as [|a nm IH]; intros pre Hn E.
  - cbn [app] in E. destruct pre as [|b pre]; cbn [app] in E.
    + injection E as E. left. split; [reflexivity|congruence].
    + injection E as _ E. right. exists pre. exact E.
  - cbn [index_of] in Hn. destruct (a =? DOT)%N eqn:Ea; [discriminate|].
    destruct (index_of DOT nm) eqn:Hi; [discriminate|].
    destruct pre as [|b pre]; cbn [app] in E.
    + injection E as E _. subst a. rewrite N.eqb_refl in Ea. discriminate.
    + injection E as -> E. destruct (IH pre eq_refl E) as [[-> ->]|R]; [left; split; reflexivity|right; exact R].
Qed.

Lemma unrelated_when T T' : bytes_eqb T' T = false -> ends_with ([DOT] ++ T) T' = false -> Unrelated T T'.
Proof.
  intros Hne He. split; [exact Hne|]. intros nm Hn.
  destruct (ends_with ([DOT] ++ T) (nm ++ DOT :: T')) eqn:E; [|reflexivity]. exfalso.
  apply ends_with_elim in E as (pre & E). cbn [app] in E.
  destruct (split_at_dot T T' nm pre Hn E) as [[_ ->]|(x & ->)].
  - rewrite bytes_eqb_refl in Hne. discriminate.
  - change (x ++ DOT :: T) with (x ++ [DOT] ++ T) in He. rewrite ends_with_app in He. discriminate.
Qed.

Example unrelated_example : Unrelated [95; 97; 46]%N [95; 98; 46]%N.      (* "_a." and "_b." *)
Proof. apply unrelated_when; reflexivity. Qed.
