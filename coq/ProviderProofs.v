(* ProviderProofs.v — C11: the provider's replies equal the declarative specification;
   C10: invariants of every reachable provider/hostname/prober composite. *)
From QV Require Import Base Fields SrcFacts Msg SrcDecisions Cache CacheSpec CacheProofs Sim Prober Hostname HostnameProofs Resolver Provider ProviderSpec.
From Coq Require Import ZifyBool ZifyNat ZifyN.
Local Open Scope Z_scope.

(* ---- the decisions of provider.cpp regenerated from the source (SrcDecisions): Provider::update and the entry guard of
   onMessageReceived in the shape the proofs below were written against, proved equal to what the model now calls ---- *)
Definition prov_on_message_old (p : provst) (m : message) : list eff :=
  if negb (pv_confirmed p) || m_response m then [] else
  let qs := m_queries m in
  (* the if / else-if chain over the questions *)
  let step := fun (acc : bool * bool * bool * bool) (q : query) =>
    let '(sb, sp, ss, st) := acc in
    if provider_q_browse q (pv_ptr p) (pv_srv p) (pv_txt p) then (true, sp, ss, st)
    else if provider_q_ptr q (pv_ptr p) (pv_srv p) (pv_txt p) then (sb, true, ss, st)
    else if provider_q_srv q (pv_ptr p) (pv_srv p) (pv_txt p) then (sb, sp, true, st)
    else if provider_q_txt q (pv_ptr p) (pv_srv p) (pv_txt p) then (sb, sp, ss, true)
    else acc in
  let '(sb, sp, ss, st) := fold_left step qs (false, false, false, false) in
  (* known-answer suppression *)
  let kstep := fun (acc : bool * bool * bool) (r : record) =>
    let '(sp, ss, st) := acc in
    if provider_known_ptr r (pv_ptr p) (pv_srv p) (pv_txt p) then (false, ss, st)
    else if provider_known_srv r (pv_ptr p) (pv_srv p) (pv_txt p) then (sp, false, st)
    else if provider_known_txt r (pv_ptr p) (pv_srv p) (pv_txt p) then (sp, ss, false)
    else acc in
  let '(sp, ss, st) := fold_left kstep (m_records m) (sp, ss, st) in
  let ss := sp || ss in
  let st := sp || st in
  if sb || sp || ss || st then
    let r0 := reply_to m in
    let recs := (if sb then [pv_browse p] else []) ++ (if sp then [pv_ptr p] else []) ++
                (if ss then [pv_srv p] else []) ++ (if st then [pv_txt p] else []) in
    [ESend (mkMessage (m_addr r0) (m_port r0) (m_id r0) true false [] recs)]
  else [].

Definition prov_update_old (c : comp) (s : service) : comp * list eff :=
  let p := set_prov (cp_prov c) true (pv_confirmed (cp_prov c)) in
  let sname := replace_byte DOT DASH (bs_data (s_name s)) in
  let fq := sname ++ [DOT] ++ bs_data (s_type s) in
  let p1 := set_proposed p (set_target (s_type s) (pv_browseP p))
                           (set_target (Some fq) (set_name (s_type s) (pv_ptrP p)))
                           (let sr := set_port (s_port s) (set_name (Some fq) (pv_srvP p)) in
                            if h_reg (cp_host c) then set_target (Some (h_name (cp_host c))) sr else sr)
                           (set_attrs (s_attrs s) (set_name (Some fq) (pv_txtP p))) in
  if negb (match bs_data (r_target (pv_srvP p1)) with [] => true | _ :: _ => false end) then
    if negb (pv_confirmed p1) || negb (bs_eqb (Some fq) (r_name (pv_srv p1))) then
      let '(pb, es) := confirm p1 (cp_prober c) in (mkComp (cp_host c) p1 pb, es)
    else if match cp_prober c with Some pb => bytes_eqb (pb_base pb ++ pb_tail pb) fq | None => false end then
      (* a probe for this very name is pending (probedName == fqName; the prober's base ++ tail is the name confirm() was
         called for): it publishes the updated proposals when it completes *)
      (mkComp (cp_host c) p1 (cp_prober c), [])
    else
      (* the obsolete prober (if any) is deleted, its timer with it; records pointing at a previous hostname are withdrawn *)
      let '(p2, e2) := if bs_eqb (r_target (pv_srvP p1)) (r_target (pv_srv p1)) then (p1, []) else farewell p1 in
      let '(p3, e3) := publish p2 in
      (mkComp (cp_host c) p3 None, (match cp_prober c with Some _ => [EStop T_PROBER] | None => [] end) ++ e2 ++ e3)
  else (mkComp (cp_host c) p1 (cp_prober c), []).

Lemma prov_on_message_eq p m : prov_on_message p m = prov_on_message_old p m.
Proof. unfold prov_on_message, prov_on_message_old, provider_ignore_message. reflexivity. Qed.

Lemma prov_update_eq c s : prov_update c s = prov_update_old c s.
Proof.
  unfold prov_update, prov_update_old, provider_has_target, provider_must_confirm, provider_probe_pending, provider_retarget.
  cbv zeta. destruct (cp_prober c) as [pb|]; unfold bs_eqb; cbn [bs_data andb]; rewrite ?Bool.if_negb; reflexivity.
Qed.


(* ------------------------------------------------------------------ C11 *)
Lemma browse_is_browse_type : BROWSE = browse_type.
Proof. reflexivity. Qed.

Lemma q_browse_spec q a b c : provider_q_browse q a b c = q_is q 12 (Some BROWSE).
Proof. reflexivity. Qed.
Lemma q_ptr_spec q a b c : provider_q_ptr q a b c = q_is q 12 (r_name a).
Proof. reflexivity. Qed.
Lemma q_srv_spec q a b c : provider_q_srv q a b c = q_is q 33 (r_name b).
Proof. reflexivity. Qed.
Lemma q_txt_spec q a b c : provider_q_txt q a b c = q_is q 16 (r_name c).
Proof. reflexivity. Qed.
Lemma known_ptr_spec r a b c : provider_known_ptr r a b c = same_data r a.
Proof. unfold provider_known_ptr. apply record_eqb_same_data. Qed.
Lemma known_srv_spec r a b c : provider_known_srv r a b c = same_data r b.
Proof. unfold provider_known_srv. apply record_eqb_same_data. Qed.
Lemma known_txt_spec r a b c : provider_known_txt r a b c = same_data r c.
Proof. unfold provider_known_txt. apply record_eqb_same_data. Qed.

Lemma fold_left_ext {A B} (f g : A -> B -> A) l : (forall a b, f a b = g a b) -> forall a, fold_left f l a = fold_left g l a.
Proof. intro H. induction l as [|x l IH]; intro a; cbn; [reflexivity|]. rewrite H. apply IH. Qed.

Theorem prov_reply_spec p m :
  prov_on_message p m =
  match spec_prov_reply (pv_confirmed p) (pv_browse p) (pv_ptr p) (pv_srv p) (pv_txt p) m with
  | Some r => [ESend r] | None => [] end.
Proof.
  rewrite prov_on_message_eq. unfold prov_on_message_old, spec_prov_reply.
  destruct (negb (pv_confirmed p) || m_response m); [reflexivity|].
  unfold spec_asked, spec_known.
  erewrite (fold_left_ext _ (fun (acc : bool * bool * bool * bool) q =>
       let '(sb, sp, ss, st) := acc in
       if q_is q 12 (Some BROWSE) then (true, sp, ss, st)
       else if q_is q 12 (r_name (pv_ptr p)) then (sb, true, ss, st)
       else if q_is q 33 (r_name (pv_srv p)) then (sb, sp, true, st)
       else if q_is q 16 (r_name (pv_txt p)) then (sb, sp, ss, true) else acc)).
  2:{ intros [[[sb sp] ss] st] q. rewrite q_browse_spec, q_ptr_spec, q_srv_spec, q_txt_spec. reflexivity. }
  destruct (fold_left _ (m_queries m) (false, false, false, false)) as [[[sb sp0] ss0] st0].
  erewrite (fold_left_ext _ (fun (acc : bool * bool * bool) r =>
       let '(sp, ss, st) := acc in
       if same_data r (pv_ptr p) then (false, ss, st)
       else if same_data r (pv_srv p) then (sp, false, st)
       else if same_data r (pv_txt p) then (sp, ss, false) else acc)).
  2:{ intros [[sp ss] st] r. rewrite known_ptr_spec, known_srv_spec, known_txt_spec. reflexivity. }
  destruct (fold_left _ (m_records m) (sp0, ss0, st0)) as [[sp ss1] st1].
  destruct (sb || sp || (sp || ss1) || (sp || st1)); reflexivity.
Qed.

(* ------------------------------------------------------------------ C10: SRV targets are registered hostnames *)
Definition tgtok (G : list bytes) (r : record) : Prop := bs_data (r_target r) = [] \/ In (bs_data (r_target r)) G.
Definition sent (m : message) (es : list eff) : Prop := In (ESend m) es \/ In (ESendAll m) es.
Definition srv_targets_ok (G : list bytes) (m : message) : Prop :=
  m_response m = true -> forall r, In r (m_records m) -> r_type r = 33%N -> tgtok G r.
Definition all_ok (G : list bytes) (es : list eff) : Prop := forall m, sent m es -> srv_targets_ok G m.

Lemma tgtok_mono G x r : tgtok G r -> tgtok (x :: G) r.
Proof. intros [H|H]; [left; exact H|right; right; exact H]. Qed.
Lemma all_ok_nil G : all_ok G [].
Proof. intros m [[]|[]]. Qed.
Lemma all_ok_app G a b : all_ok G a -> all_ok G b -> all_ok G (a ++ b).
Proof.
  intros Ha Hb m [H|H]; apply in_app_iff in H as [H|H]; first [apply Ha; left; exact H | apply Ha; right; exact H | apply Hb; left; exact H | apply Hb; right; exact H].
Qed.
Lemma all_ok_cons_other G e es : (forall m, e <> ESend m /\ e <> ESendAll m) -> all_ok G es -> all_ok G (e :: es).
Proof.
  intros He H m [[E|E]|[E|E]]; try (exfalso; destruct (He m) as [A B]; congruence);
    apply H; [left|right]; exact E.
Qed.
Lemma all_ok_query G m es : m_response m = false -> all_ok G es -> all_ok G (ESendAll m :: es).
Proof.
  intros Hq H m' [[E|E]|[E|E]]; try discriminate.
  - apply H; left; exact E.
  - injection E as <-. intros Hr. congruence.
  - apply H; right; exact E.
Qed.
Lemma all_ok_mono G x es : all_ok G es -> all_ok (x :: G) es.
Proof. intros H m Hs Hr r Hin Ht. apply tgtok_mono. exact (H m Hs Hr r Hin Ht). Qed.

Record PInv (G : list bytes) (c : comp) : Prop := {
  pi_reg : h_reg (cp_host c) = true -> In (h_name (cp_host c)) G;
  pi_srvP : tgtok G (pv_srvP (cp_prov c));
  pi_srv : tgtok G (pv_srv (cp_prov c));
  pi_ty : r_type (pv_browse (cp_prov c)) <> 33%N /\ r_type (pv_ptr (cp_prov c)) <> 33%N /\ r_type (pv_txt (cp_prov c)) <> 33%N /\
          r_type (pv_browseP (cp_prov c)) <> 33%N /\ r_type (pv_ptrP (cp_prov c)) <> 33%N /\ r_type (pv_txtP (cp_prov c)) <> 33%N }.

(* the hostname object alone: everything it sends is a probe (a query) or an address reply *)
Lemma assert_hostname_ok G h : all_ok G (snd (assert_hostname h)).
Proof. unfold assert_hostname. cbn [snd]. apply all_ok_query; [reflexivity|]. apply all_ok_cons_other; [intros; split; discriminate|apply all_ok_nil]. Qed.

Lemma host_records_ok G : forall rs h, all_ok G (snd (host_records rs h)) /\ h_reg (fst (host_records rs h)) = h_reg h.
Proof.
  induction rs as [|r rs IH]; intros h; cbn [host_records]; [split; [apply all_ok_nil|reflexivity]|].
  destruct (hostname_conflict r (h_name h)); [|apply IH].
  pose proof (assert_hostname_ok G (set_host h (h_name h) (h_prev h) (h_reg h) (h_suffix h + 1))) as A.
  destruct (assert_hostname (set_host h (h_name h) (h_prev h) (h_reg h) (h_suffix h + 1))) as [h1 e1] eqn:AH.
  assert (h_reg h1 = h_reg h) by (unfold assert_hostname in AH; injection AH as <- _; reflexivity).
  specialize (IH h1). destruct (host_records rs h1) as [h2 e2]. cbn [fst snd] in *. destruct IH as [I1 I2].
  split; [apply all_ok_app; assumption|congruence].
Qed.

Lemma host_answers_types h src : forall qs r, In r (host_answers h src qs) -> r_type r = 1%N \/ r_type r = 28%N.
Proof.
  induction qs as [|q qs IH]; intros r; cbn [host_answers]; [intros []|].
  destruct (hostname_question q (h_name h)) eqn:HQ; [|apply IH].
  destruct (gen_ifaces src (q_type q) (h_ifaces h)); [|apply IH].
  intros [<-|H]; [|apply IH, H]. cbn.
  rewrite hostname_question_spec in HQ. unfold spec_question in HQ.
  apply andb_true_iff in HQ as [HQ _]. apply orb_true_iff in HQ as [HQ|HQ]; apply N.eqb_eq in HQ; auto.
Qed.

Lemma host_msg_ok G now h m :
  all_ok G (snd (host_handle now h (EvMsg m))) /\
  h_reg (fst (host_handle now h (EvMsg m))) = h_reg h /\
  (h_reg h = true -> fst (host_handle now h (EvMsg m)) = h).
Proof.
  cbn [host_handle]. destruct (m_response m).
  - destruct (h_reg h) eqn:R; cbn [fst snd]; [split; [apply all_ok_nil|auto]|].
    destruct (host_records_ok G (m_records m) h) as [A B]. split; [exact A|]. split; [congruence|discriminate].
  - destruct (negb (h_reg h)); cbn [fst snd]; [split; [apply all_ok_nil|auto]|].
    destruct (host_answers h (m_addr m) (m_queries m)) as [|r rs] eqn:HA; cbn [fst snd]; [split; [apply all_ok_nil|auto]|].
    split; [|auto].
    intros m' [[E|[]]|[E|[]]]; [|discriminate]. injection E as <-. intros _ x Hx Ht. cbn [m_records] in Hx.
    rewrite <- HA in Hx. destruct (host_answers_types h (m_addr m) (m_queries m) x Hx); congruence.
Qed.

(* provider pieces *)
Lemma announce_ok G p : tgtok G (pv_srv p) -> r_type (pv_ptr p) <> 33%N -> r_type (pv_txt p) <> 33%N ->
  srv_targets_ok G (announce_msg p).
Proof.
  intros Hs Hp Ht _ r Hr Hty. unfold announce_msg in Hr. cbn in Hr.
  destruct Hr as [<-|[<-|[<-|[]]]]; [congruence|exact Hs|congruence].
Qed.

Lemma tgtok_set_ttl G t r : tgtok G r -> tgtok G (set_ttl t r).
Proof. exact (fun H => H). Qed.

Definition PProv (G : list bytes) (p : provst) : Prop :=
  tgtok G (pv_srvP p) /\ tgtok G (pv_srv p) /\
  r_type (pv_browse p) <> 33%N /\ r_type (pv_ptr p) <> 33%N /\ r_type (pv_txt p) <> 33%N /\
  r_type (pv_browseP p) <> 33%N /\ r_type (pv_ptrP p) <> 33%N /\ r_type (pv_txtP p) <> 33%N.

Lemma farewell_ok G p : PProv G p -> PProv G (fst (farewell p)) /\ all_ok G (snd (farewell p)).
Proof.
  intros (A & B & C & D & E & F & H & I). unfold farewell. cbn [fst snd]. split.
  - repeat split; assumption.
  - intros m [[X|[]]|[X|[]]]; [discriminate|]. injection X as <-. apply announce_ok; assumption.
Qed.
Lemma publish_ok G p : PProv G p -> PProv G (fst (publish p)) /\ all_ok G (snd (publish p)).
Proof.
  intros (A & B & C & D & E & F & H & I). unfold publish. cbn [fst snd]. split.
  - repeat split; assumption.
  - intros m [[X|[]]|[X|[]]]; [discriminate|]. injection X as <-. apply announce_ok; assumption.
Qed.

Lemma prober_new_ok G r : all_ok G (snd (prober_new r)).
Proof.
  unfold prober_new. destruct (match index_of DOT (bs_data (r_name r)) with Some i => _ | None => _ end) as [b t].
  unfold assert_record. cbn [snd]. apply all_ok_query; [reflexivity|].
  repeat (apply all_ok_cons_other; [intros; split; discriminate|]). apply all_ok_nil.
Qed.
Lemma confirm_ok G p pb : all_ok G (snd (confirm p pb)).
Proof.
  unfold confirm. pose proof (prober_new_ok G (pv_srvP p)) as H. destruct (prober_new (pv_srvP p)) as [pb' es]. cbn [snd] in *.
  apply all_ok_app; [|exact H]. destruct pb; [apply all_ok_cons_other; [intros; split; discriminate|]|]; apply all_ok_nil.
Qed.

Lemma on_name_confirmed_ok G name p : PProv G p -> PProv G (fst (on_name_confirmed name p)) /\ all_ok G (snd (on_name_confirmed name p)).
Proof.
  intro P. unfold on_name_confirmed.
  assert (X : PProv G (fst (if pv_confirmed p then farewell p else (set_prov p (pv_initialized p) true, []))) /\
              all_ok G (snd (if pv_confirmed p then farewell p else (set_prov p (pv_initialized p) true, [])))).
  { destruct (pv_confirmed p); [apply farewell_ok, P|]. cbn [fst snd]. split; [exact P|apply all_ok_nil]. }
  destruct (if pv_confirmed p then farewell p else (set_prov p (pv_initialized p) true, [])) as [p1 e1]. cbn [fst snd] in X.
  destruct X as [X1 X2].
  set (p2 := set_proposed p1 (pv_browseP p1) (set_target name (pv_ptrP p1)) (set_name name (pv_srvP p1)) (set_name name (pv_txtP p1))).
  assert (P2 : PProv G p2).
  { destruct X1 as (A & B & C & D & E & F & H & I). unfold p2, PProv. cbn. repeat split; assumption. }
  destruct (publish_ok G p2 P2) as [Y1 Y2]. destruct (publish p2) as [p3 e3]. cbn [fst snd] in *.
  split; [|apply all_ok_app; assumption].
  destruct X1 as (A & B & C & D & E & F & H & I). destruct Y1 as (A' & B' & C' & D' & E' & F' & H' & I').
  unfold PProv. cbn. repeat split; assumption.
Qed.

Lemma prov_on_message_ok G p m : PProv G p -> all_ok G (prov_on_message p m).
Proof.
  intros (A & B & C & D & E & F & H & I). rewrite prov_reply_spec. unfold spec_prov_reply.
  destruct (negb (pv_confirmed p) || m_response m); [apply all_ok_nil|].
  destruct (spec_asked _ _ _ _ _) as [[[sb sp0] ss0] st0]. destruct (spec_known _ _ _ _ _) as [[sp ss1] st1].
  destruct (sb || sp || (sp || ss1) || (sp || st1)); [|apply all_ok_nil].
  intros m' [[X|[]]|[X|[]]]; [|discriminate]. injection X as <-. intros _ r Hr Ht. cbn [m_records] in Hr.
  repeat (apply in_app_iff in Hr as [Hr|Hr]);
    match type of Hr with In _ (if ?b then _ else _) => destruct b end; try destruct Hr as [<-|[]]; try destruct Hr; congruence || exact B.
Qed.

Lemma PInv_of G c : PInv G c <-> ((h_reg (cp_host c) = true -> In (h_name (cp_host c)) G) /\ PProv G (cp_prov c)).
Proof.
  split.
  - intros [A B C (D1 & D2 & D3 & D4 & D5 & D6)]. split; [exact A|]. unfold PProv. tauto.
  - intros [A (B & C & D1 & D2 & D3 & D4 & D5 & D6)]. constructor; tauto.
Qed.

Lemma prov_update_ok G c s :
  PInv G c -> PInv G (fst (prov_update c s)) /\ all_ok G (snd (prov_update c s)) /\ cp_host (fst (prov_update c s)) = cp_host c.
Proof.
  intro I. apply PInv_of in I as [Ireg P]. rewrite prov_update_eq. unfold prov_update_old.
  set (p := set_prov (cp_prov c) true (pv_confirmed (cp_prov c))).
  set (fq := replace_byte DOT DASH (bs_data (s_name s)) ++ [DOT] ++ bs_data (s_type s)).
  set (p1 := set_proposed p _ _ _ _).
  assert (P1 : PProv G p1).
  { destruct P as (A & B & C & D & E & F & H & K). unfold p1, PProv. cbn.
    repeat split; try assumption.
    destruct (h_reg (cp_host c)) eqn:R; [right; cbn; apply Ireg; reflexivity|exact A]. }
  destruct (negb (match bs_data (r_target (pv_srvP p1)) with [] => true | _ :: _ => false end)).
  - destruct (negb (pv_confirmed p1) || negb (bs_eqb (Some fq) (r_name (pv_srv p1)))).
    + pose proof (confirm_ok G p1 (cp_prober c)) as Cf. destruct (confirm p1 (cp_prober c)) as [pb es]. cbn [fst snd cp_host] in *.
      split; [apply PInv_of; split; assumption|]. split; [exact Cf|reflexivity].
    + destruct (match cp_prober c with Some pb => bytes_eqb (pb_base pb ++ pb_tail pb) fq | None => false end).
      { cbn [fst snd cp_host]. split; [apply PInv_of; split; assumption|]. split; [apply all_ok_nil|reflexivity]. }
      assert (X : PProv G (fst (if bs_eqb (r_target (pv_srvP p1)) (r_target (pv_srv p1)) then (p1, []) else farewell p1)) /\
                  all_ok G (snd (if bs_eqb (r_target (pv_srvP p1)) (r_target (pv_srv p1)) then (p1, []) else farewell p1))).
      { destruct (bs_eqb (r_target (pv_srvP p1)) (r_target (pv_srv p1))); [cbn; split; [exact P1|apply all_ok_nil]|apply farewell_ok, P1]. }
      destruct (if bs_eqb (r_target (pv_srvP p1)) (r_target (pv_srv p1)) then (p1, []) else farewell p1) as [p2 e2]. cbn [fst snd] in X.
      destruct X as [X1 X2].
      destruct (publish_ok G p2 X1) as [Y1 Y2]. destruct (publish p2) as [p3 e3]. cbn [fst snd cp_host] in *.
      split; [apply PInv_of; split; assumption|]. split; [|reflexivity].
      apply all_ok_app; [destruct (cp_prober c); [apply all_ok_cons_other; [intros; split; discriminate|]|]; apply all_ok_nil|].
      apply all_ok_app; assumption.
  - cbn [fst snd cp_host]. split; [apply PInv_of; split; assumption|]. split; [apply all_ok_nil|reflexivity].
Qed.

Lemma hostname_changed_ok G c n :
  PInv G c -> In n G ->
  PInv G (fst (prov_on_hostname_changed c n)) /\ all_ok G (snd (prov_on_hostname_changed c n)) /\
  cp_host (fst (prov_on_hostname_changed c n)) = cp_host c.
Proof.
  intros I Hn. pose proof I as I0. apply PInv_of in I as [Ireg P]. unfold prov_on_hostname_changed.
  destruct (negb (pv_exists (cp_prov c))); [cbn; split; [exact I0|split; [apply all_ok_nil|reflexivity]]|].
  set (p1 := set_proposed _ _ _ _ _).
  assert (P1 : PProv G p1).
  { destruct P as (A & B & C & D & E & F & H & K). unfold p1, PProv. cbn. repeat split; try assumption. right. exact Hn. }
  destruct (pv_initialized p1).
  - pose proof (confirm_ok G p1 (cp_prober c)) as Cf. destruct (confirm p1 (cp_prober c)) as [pb es]. cbn [fst snd cp_host] in *.
    split; [apply PInv_of; split; assumption|]. split; [exact Cf|reflexivity].
  - cbn [fst snd cp_host]. split; [apply PInv_of; split; assumption|]. split; [apply all_ok_nil|reflexivity].
Qed.

Lemma with_slot_ok G : forall es c,
  PInv G c -> all_ok G es ->
  (forall ob sg n, In (ESig ob sg (PBytes (Some n))) es -> (sg =? SIG_hostnameChanged)%N = true -> In n G) ->
  PInv G (fst (with_hostname_slot c es)) /\ all_ok G (snd (with_hostname_slot c es)) /\
  cp_host (fst (with_hostname_slot c es)) = cp_host c.
Proof.
  induction es as [|e es IH]; intros c I A S; cbn [with_hostname_slot].
  - cbn. split; [exact I|split; [apply all_ok_nil|reflexivity]].
  - assert (Aes : all_ok G es) by (intros m [H|H]; apply A; [left|right]; right; exact H).
    assert (Ses : forall ob sg n, In (ESig ob sg (PBytes (Some n))) es -> (sg =? SIG_hostnameChanged)%N = true -> In n G)
      by (intros ob sg n H; apply (S ob sg n); right; exact H).
    assert (Generic : forall c0, PInv G c0 ->
              PInv G (fst (let '(c2, e2) := with_hostname_slot c0 es in (c2, e :: e2))) /\
              all_ok G (snd (let '(c2, e2) := with_hostname_slot c0 es in (c2, e :: e2))) /\
              cp_host (fst (let '(c2, e2) := with_hostname_slot c0 es in (c2, e :: e2))) = cp_host c0).
    { intros c0 I0. destruct (IH c0 I0 Aes Ses) as (J1 & J2 & J3). destruct (with_hostname_slot c0 es) as [c2 e2]. cbn [fst snd] in *.
      split; [exact J1|]. split; [|exact J3].
      intros m [[H|H]|[H|H]].
      - apply A. left; left; exact H.
      - apply J2. left; exact H.
      - apply A. right; left; exact H.
      - apply J2. right; exact H. }
    destruct e as [m|m|ob sg p|tid ms|tid|rs]; try (apply Generic; exact I).
    destruct p as [|b|sv|a|r]; try (apply Generic; exact I).
    destruct b as [n|]; [|apply Generic; exact I].
    destruct (sg =? SIG_hostnameChanged)%N eqn:E; [|apply Generic; exact I].
    assert (Hn : In n G) by (apply (S ob sg n); [left; reflexivity|exact E]).
    destruct (hostname_changed_ok G c n I Hn) as (K1 & K2 & K3).
    destruct (prov_on_hostname_changed c n) as [c1 e1]. cbn [fst snd] in *.
    destruct (IH c1 K1 Aes Ses) as (J1 & J2 & J3). destruct (with_hostname_slot c1 es) as [c2 e2]. cbn [fst snd] in *.
    split; [exact J1|]. split; [|congruence].
    intros m [[H|H]|[H|H]]; try discriminate.
    + apply in_app_iff in H as [H|H]; [apply K2; left; exact H|apply J2; left; exact H].
    + apply in_app_iff in H as [H|H]; [apply K2; right; exact H|apply J2; right; exact H].
Qed.

Definition ghost_after (G : list bytes) (c : comp) (ev : event papi) : list bytes :=
  match ev with
  | EvTimer tid => if negb (tid =? T_PROBER)%N && (tid =? T_REG)%N then h_name (cp_host c) :: G else G
  | _ => G
  end.

Theorem comp_step_ok G now c ev :
  PInv G c ->
  PInv (ghost_after G c ev) (fst (comp_handle now c ev)) /\ all_ok (ghost_after G c ev) (snd (comp_handle now c ev)).
Proof.
  intro I. pose proof I as I0. apply PInv_of in I as [Ireg P].
  destruct ev as [m|tid|a]; cbn [comp_handle ghost_after].
  - (* a message: hostname, provider, prober slots *)
    destruct (host_msg_ok G now (cp_host c) m) as (H1 & H2 & H3).
    destruct (host_handle now (cp_host c) (EvMsg m)) as [h1 e1]. cbn [fst snd] in *.
    assert (E3 : all_ok G (snd (match cp_prober c with
                                | Some pb => let '(pb', e) := prober_handle now pb (EvMsg m) in (Some pb', e)
                                | None => (None, []) end))).
    { destruct (cp_prober c) as [pb|]; [|apply all_ok_nil]. cbn [prober_handle].
      unfold prober_ignore_message in *. destruct (pb_confirmed pb || negb (m_response m)); [apply all_ok_nil|].
      assert (forall rs p, all_ok G (snd (on_records rs p))) as OR.
      { induction rs as [|r rs IHr]; intro p0; cbn [on_records]; [apply all_ok_nil|].
        destruct (prober_conflict r (pb_proposed p0)); [|apply IHr].
        unfold assert_record. match goal with |- context [on_records rs ?p1] => specialize (IHr p1); destruct (on_records rs p1) as [p2 e2] end.
        cbn [snd] in *. apply all_ok_app; [|exact IHr].
        apply all_ok_query; [reflexivity|]. repeat (apply all_ok_cons_other; [intros; split; discriminate|]). apply all_ok_nil. }
      specialize (OR (m_records m) pb). destruct (on_records (m_records m) pb) as [pb' e]. exact OR. }
    destruct (match cp_prober c with Some pb => _ | None => (None, []) end) as [pb e3]. cbn [fst snd] in *.
    split.
    + apply PInv_of. cbn [cp_host cp_prov]. split; [|exact P].
      intro R. rewrite H2 in R. rewrite (H3 R). apply Ireg, R.
    + apply all_ok_app; [exact H1|]. apply all_ok_app; [|exact E3].
      destruct (pv_exists (cp_prov c)); [apply prov_on_message_ok, P|apply all_ok_nil].
  - destruct (tid =? T_PROBER)%N eqn:TP; cbn [negb andb].
    + destruct (cp_prober c) as [pb|]; [|split; [exact I0|apply all_ok_nil]].
      destruct (on_name_confirmed_ok G (r_name (pb_proposed pb)) (cp_prov c) P) as [Y1 Y2].
      destruct (on_name_confirmed (r_name (pb_proposed pb)) (cp_prov c)) as [p' es]. cbn [fst snd] in *.
      split; [apply PInv_of; split; assumption|exact Y2].
    + cbn [host_handle]. destruct (tid =? T_REG)%N eqn:TR.
      * (* registration: the ghost set grows by the registered name *)
        set (G' := h_name (cp_host c) :: G).
        assert (I' : PInv G' (mkComp (set_host (cp_host c) (h_name (cp_host c)) (h_prev (cp_host c)) true (h_suffix (cp_host c))) (cp_prov c) (cp_prober c))).
        { apply PInv_of. cbn. split; [intros _; left; reflexivity|].
          destruct P as (A & B & C & D & E & F & H & K). unfold PProv. repeat split; try assumption; apply tgtok_mono; assumption. }
        match goal with |- context [with_hostname_slot ?c0 ?es0] =>
          destruct (with_slot_ok G' es0 c0 I') as (J1 & J2 & _) end.
        -- apply all_ok_app.
           ++ rewrite ?host_announce_old in *. destruct (bytes_eqb (h_name (cp_host c)) (h_prev (cp_host c))); [apply all_ok_nil|].
              apply all_ok_cons_other; [intros; split; discriminate|apply all_ok_nil].
           ++ apply all_ok_cons_other; [intros; split; discriminate|apply all_ok_nil].
        -- intros ob sg n H _. apply in_app_iff in H as [H|[H|[]]]; [|discriminate].
           rewrite ?host_announce_old in *. destruct (bytes_eqb (h_name (cp_host c)) (h_prev (cp_host c))); [destruct H|].
           destruct H as [H|[]]. injection H as _ _ <-. left; reflexivity.
        -- split; assumption.
      * (* re-assertion *)
        unfold on_rebroadcast.
        pose proof (assert_hostname_ok G (set_host (cp_host c) (h_name (cp_host c)) (h_name (cp_host c)) false 1)) as A.
        destruct (assert_hostname (set_host (cp_host c) (h_name (cp_host c)) (h_name (cp_host c)) false 1)) as [h1 e1] eqn:AH.
        assert (R1 : h_reg h1 = false) by (unfold assert_hostname in AH; injection AH as <- _; reflexivity).
        cbn [snd] in A.
        match goal with |- context [with_hostname_slot ?c0 e1] =>
          destruct (with_slot_ok G e1 c0) as (J1 & J2 & _) end.
        -- apply PInv_of. cbn. split; [rewrite R1; discriminate|exact P].
        -- exact A.
        -- intros ob sg n H _. unfold assert_hostname in AH. injection AH as _ <-. destruct H as [H|[H|[]]]; discriminate.
        -- split; assumption.
  - destruct a as [| |s|]; cbn [ghost_after].
    + split; [exact I0|apply all_ok_nil].
    + split; [|apply all_ok_nil]. apply PInv_of. cbn. split; [exact Ireg|].
      unfold PProv. destruct (h_reg (cp_host c)) eqn:R; cbn.
      * repeat split; try discriminate; try (left; reflexivity). right. apply Ireg. reflexivity.
      * repeat split; try discriminate; left; reflexivity.
    + destruct (pv_exists (cp_prov c)); [|split; [exact I0|apply all_ok_nil]].
      destruct (prov_update_ok G c s I0) as (U1 & U2 & _). split; assumption.
    + destruct (pv_exists (cp_prov c)); [|split; [exact I0|apply all_ok_nil]].
      assert (X : PProv G (fst (if pv_confirmed (cp_prov c) then farewell (cp_prov c) else (cp_prov c, []))) /\
                  all_ok G (snd (if pv_confirmed (cp_prov c) then farewell (cp_prov c) else (cp_prov c, [])))).
      { destruct (pv_confirmed (cp_prov c)); [apply farewell_ok, P|]. cbn. split; [exact P|apply all_ok_nil]. }
      destruct (if pv_confirmed (cp_prov c) then farewell (cp_prov c) else (cp_prov c, [])) as [p' es]. cbn [fst snd] in *.
      destruct X as [X1 X2]. split.
      * apply PInv_of. cbn. split; [exact Ireg|]. destruct X1 as (A & B & C & D & E & F & H & K). unfold PProv. cbn. tauto.
      * apply all_ok_app; [exact X2|]. destruct (cp_prober c); [apply all_ok_cons_other; [intros; split; discriminate|]|]; apply all_ok_nil.
Qed.

(* every composite state reachable by any sequence of handler invocations (messages, any timer at any instant,
   API calls), with the ghost list of host names under which the hostname object became registered *)
Inductive creachable : list bytes -> comp -> Prop :=
| cr_init local ifs : creachable [] (mkComp (fst (on_rebroadcast (mkHost local ifs [] [] false 1))) no_prov None)
| cr_step G c now ev : creachable G c -> creachable (ghost_after G c ev) (fst (comp_handle now c ev)).

Lemma creachable_PInv G c : creachable G c -> PInv G c.
Proof.
  induction 1 as [local ifs|G c now ev _ IH].
  - apply PInv_of. cbn. split; [discriminate|]. unfold PProv. cbn. repeat split; try discriminate; left; reflexivity.
  - exact (proj1 (comp_step_ok G now c ev IH)).
Qed.

(* ---- small facts used by C12 / C13 ---- *)
Lemma farewell_withdraws p :
  snd (farewell p) = [ESendAll (add_record (set_ttl 0 (pv_txt p)) (add_record (set_ttl 0 (pv_srv p))
                        (add_record (set_ttl 0 (pv_ptr p)) (set_response true default_message))))].
Proof. reflexivity. Qed.

Lemma publish_serves_proposals p :
  let p' := fst (publish p) in
  pv_browse p' = pv_browseP p /\ pv_ptr p' = pv_ptrP p /\ pv_srv p' = pv_srvP p /\ pv_txt p' = pv_txtP p /\
  snd (publish p) = [ESendAll (add_record (pv_txtP p) (add_record (pv_srvP p) (add_record (pv_ptrP p) (set_response true default_message))))].
Proof. cbn. auto. Qed.

Lemma name_confirmed_withdraws_first name p :
  pv_confirmed p = true ->
  exists bye ann, snd (on_name_confirmed name p) = [ESendAll bye; ESendAll ann] /\
    m_records bye = [set_ttl 0 (pv_ptr p); set_ttl 0 (pv_srv p); set_ttl 0 (pv_txt p)] /\
    m_records ann = [set_target name (pv_ptrP p); set_name name (pv_srvP p); set_name name (pv_txtP p)].
Proof.
  intro H. unfold on_name_confirmed. rewrite H. cbn. eexists. eexists. split; [reflexivity|]. split; reflexivity.
Qed.
