(* Properties_C09.v — a confirmed name is defended against later probers (hostnames proved; service names refuted). *)
From QV Require Import Base Fields SrcFacts Msg SrcDecisions Sim Prober Hostname HostnameProofs Provider ProviderSpec ProviderProofs.
Local Open Scope Z_scope.

(* One defence round, for every interface table and source address on a local subnet: a REGISTERED hostname object that
   receives the A+AAAA probe of a newcomer for its own name answers it (one reply, response flag set, to the mDNS group),
   and that reply, delivered to the UNREGISTERED newcomer whose candidate is that name, makes it move on to a later
   candidate (its suffix strictly grows) and start a fresh probe.  With round trips shorter than the probe wait (C08: the
   newcomer cannot register before 2000 ms without a conflict) and an incumbent that is registered when the probe
   arrives, no two registered hostnames are equal.  The hypothesis "the incumbent is registered" is essential: see the
   open finding dup-hostname:incumbent-reprobing. *)
Theorem C09_hostname_defence_round now now' h1 h2 src :
  h_reg h1 = true -> h_reg h2 = false -> h_name h2 = h_name h1 ->
  (spec_address src 1 (h_ifaces h1) <> None \/ spec_address src 28 (h_ifaces h1) <> None) ->
  exists reply,
    snd (host_handle now h1 (EvMsg (host_probe (h_name h1) src))) = [ESend reply] /\
    m_response reply = true /\ m_port reply = 5353%N /\
    (h_suffix h2 + 1 <= h_suffix (fst (host_handle now' h2 (EvMsg reply))))%N.
Proof. exact (defence_round now now' h1 h2 src). Qed.
Print Assumptions C09_hostname_defence_round.

(* The service-name half of the property is FALSE of the faithful model (and of the code): a confirmed provider does
   not answer the ANY question with which a prober probes the instance name it serves. *)
Theorem C09_service_names_refuted :
  exists p m, pv_confirmed p = true /\ m_response m = false /\
              m_queries m = [mkQuery (r_name (pv_srv p)) 255 false] /\ m_records m = [pv_srv p] /\
              prov_on_message p m = [].
Proof.
  set (i := Some [80; 46; 95; 120; 46]%N).
  set (srv := set_port 80 (set_type 33 (set_name i default_record))).
  exists (mkProv true true true default_record (set_target i (set_type 12 (set_name (Some [95; 120; 46]%N) default_record))) srv
                 (set_type 16 (set_name i default_record)) default_record default_record default_record default_record),
         (mkMessage (A4 1) 5353 0 false false [mkQuery i 255 false] [srv]).
  vm_compute. auto.
Qed.
Print Assumptions C09_service_names_refuted.
