(* Properties_C09.v — a confirmed name is defended against later probers (hostnames proved; service names refuted). *)
From QV Require Import Base Fields SrcFacts Msg SrcDecisions Sim Prober Hostname HostnameProofs HostNet Provider ProviderSpec ProviderProofs.
Local Open Scope Z_scope.

(* One defence round, for every interface table and source address on a local subnet: a REGISTERED hostname object that
   receives the A+AAAA probe of a newcomer for its own name answers it (one reply, response flag set, to the mDNS group),
   and that reply, delivered to the UNREGISTERED newcomer whose candidate is that name, makes it move on to a later
   candidate (its suffix strictly grows) and start a fresh probe.  With round trips shorter than the probe wait (C08: the
   newcomer cannot register before 2000 ms without a conflict) and an incumbent that is registered when the probe
   arrives, no two registered hostnames are equal.  The hypothesis "the incumbent is registered" is essential: see the
   open finding dup-hostname:incumbent-reprobing. *)
Theorem C09_hostname_defence_round now now' h1 h2 src :
  h_reg h1 = true -> h_reg h2 = false -> h_name h2 = h_name h1 ->
  (spec_address src 1 (h_ifaces h1) <> None \/ spec_address src 28 (h_ifaces h1) <> None) ->
  exists reply,
    snd (host_handle now h1 (EvMsg (host_probe (h_name h1) src))) = [ESend reply] /\
    m_response reply = true /\ m_port reply = 5353%N /\
    (h_suffix h2 + 1 <= h_suffix (fst (host_handle now' h2 (EvMsg reply))))%N.
Proof. exact (defence_round now now' h1 h2 src). Qed.
Print Assumptions C09_hostname_defence_round.

(* ---- over whole schedules ----
   Two hostname objects on a link without loss and without delay (a packet in flight is delivered before any timer
   fires), each seeing the other's packets from a fixed source address.  The incumbent A is registered under n, has an
   address of one of the two families on the subnet of the newcomer's source address (the C17 condition for answering at
   all), and runs no timer - it stays registered; the excluded case, A re-asserting its name, is the open finding
   dup-hostname:incumbent-reprobing.  The newcomer B does anything: probes, conflicts, registrations, 30-minute
   re-assertions, in any order and number.  [Inv n]: whenever B holds the candidate n unregistered, its probe for n is on
   its way to A or A's conflicting answer is on its way back.  It is preserved by every step (C09_network_step), hence in
   every reachable state B is registered only under names other than A's. *)
Theorem C09_network_step srcA srcB n s s' : Inv srcB n s -> nstep srcA srcB s s' -> Inv srcB n s'.
Proof. exact (nstep_inv srcA srcB n s s'). Qed.
Print Assumptions C09_network_step.

Theorem C09_incumbent_keeps_its_hostname srcA srcB n s0 s :
  Inv srcB n s0 -> nreach srcA srcB s0 s -> h_reg (nB s) = true -> h_name (nB s) <> h_name (nA s).
Proof. exact (incumbent_keeps_its_name srcA srcB n s0 s). Qed.
Print Assumptions C09_incumbent_keeps_its_hostname.

(* non-vacuity: A registered as "h.local." with 192.168.1.10/24; B, same host name, just created at 192.168.1.20 with its
   first probe in flight: the invariant holds, and after the exchange B probes "h-2.local." *)
Example C09_network_example :
  let ifsA := [[(A4 3232235786, 24)]] in
  let hA := mkHost [104]%N ifsA [104; 46; 108; 111; 99; 97; 108; 46]%N [] true 1 in
  let hB := fst (on_rebroadcast (mkHost [104]%N [] [] [] false 1)) in
  let srcA := A4 3232235786 in let srcB := A4 3232235796 in
  let n := [104; 46; 108; 111; 99; 97; 108; 46]%N in
  let s0 := mkNet hA hB [host_probe n srcB] [] in
  Inv srcB n s0 /\
  exists s1 s2, nstep srcA srcB s0 s1 /\ nstep srcA srcB s1 s2 /\
                h_name (nB s2) = [104; 45; 50; 46; 108; 111; 99; 97; 108; 46]%N /\ toB s2 = [].
Proof.
  cbv zeta. split.
  - split; [reflexivity|]. split; [reflexivity|]. split; [left; vm_compute; discriminate|]. split; [intro X; discriminate|].
    intros _ _. left. eexists. split; [left; reflexivity|reflexivity].
  - eexists _, _. split; [eapply (ns_A _ _ 0); reflexivity|]. split; [eapply (ns_B _ _ 0); vm_compute; reflexivity|]. vm_compute. auto.
Qed.

(* The service-name half of the property is FALSE of the faithful model (and of the code): a confirmed provider does
   not answer the ANY question with which a prober probes the instance name it serves. *)
Theorem C09_service_names_refuted :
  exists p m, pv_confirmed p = true /\ m_response m = false /\
              m_queries m = [mkQuery (r_name (pv_srv p)) 255 false] /\ m_records m = [pv_srv p] /\
              prov_on_message p m = [].
Proof.
  set (i := Some [80; 46; 95; 120; 46]%N).
  set (srv := set_port 80 (set_type 33 (set_name i default_record))).
  exists (mkProv true true true default_record (set_target i (set_type 12 (set_name (Some [95; 120; 46]%N) default_record))) srv
                 (set_type 16 (set_name i default_record)) default_record default_record default_record default_record),
         (mkMessage (A4 1) 5353 0 false false [mkQuery i 255 false] [srv]).
  vm_compute. auto.
Qed.
Print Assumptions C09_service_names_refuted.
