(* Resolver.v — model of resolver.cpp on top of Cache.v, and the C16 acceptor. *)
From QV Require Import Base Fields SrcFacts Msg SrcDecisions Cache CacheSpec Sim Prober.
Local Open Scope Z_scope.

Definition T_CACHE : N := 4.  Definition T_RES : N := 5.

(* the cache inside a composite: its QTimer lives in the kernel's timer table *)
Definition cache_add_eff (now jitter : Z) (r : record) (c : cache) : cache * list sigsnap * list eff :=
  let '(c', sg) := add now jitter r c in
  (c', sg, if add_rearms now jitter r c then match c_timer c' with Some d => [EStart T_CACHE (d - now)] | None => [] end else []).
Definition cache_timeout_eff (now : Z) (c : cache) : cache * list sigsnap * list eff :=
  let '(c', sg) := on_timeout now (mkCache (c_entries c) (c_next c) None) in
  (c', sg, match c_timer c' with Some d => [EStart T_CACHE (d - now)] | None => [] end).

Record resst := mkRes { rs_cache : cache; rs_jitter : Z; rs_name : bstr; rs_active : bool; rs_addrs : list addr }.
Inductive rapi := RCadd (r : record) (j : Z) | RNew (name : bstr) | RJitter (j : Z) | RLookup (name : bstr) (type : N) | RNop.

Definition existing (s : resst) : list record :=
  lookup (rs_name s) T_A (rs_cache s) ++ lookup (rs_name s) T_AAAA (rs_cache s).

Definition res_query (s : resst) : message :=
  let q1 := add_query (mkQuery (rs_name s) T_A false) default_message in
  let q2 := add_query (mkQuery (rs_name s) T_AAAA false) q1 in
  fold_left (fun m r => add_record r m) (existing s) q2.

Fixpoint res_records (now : Z) (rs : list record) (s : resst) : resst * list eff :=
  match rs with
  | [] => (s, [])
  | r :: rs' =>
      if resolver_filter r (rs_name s) then
        let '(c', _, ce) := cache_add_eff now (rs_jitter s) r (rs_cache s) in
        let report := resolver_report r (existsb (addr_eqb (r_addr r)) (rs_addrs s)) in
        let s1 := mkRes c' (rs_jitter s) (rs_name s) (rs_active s) (if report then rs_addrs s ++ [r_addr r] else rs_addrs s) in
        let '(s2, e2) := res_records now rs' s1 in
        (s2, ce ++ (if report then [ESig OBJ SIG_resolved (PAddr (r_addr r))] else []) ++ e2)
      else res_records now rs' s
  end.

Definition res_handle (now : Z) (s : resst) (ev : event rapi) : resst * list eff :=
  match ev with
  | EvMsg m => if rs_active s && m_response m then res_records now (m_records m) s else (s, [])
  | EvTimer tid =>
      if (tid =? T_CACHE)%N then
        let '(c', _, ce) := cache_timeout_eff now (rs_cache s) in
        (mkRes c' (rs_jitter s) (rs_name s) (rs_active s) (rs_addrs s), ce)
      else (s, map (fun r => ESig OBJ SIG_resolved (PAddr (r_addr r))) (existing s))
  | EvApi (RCadd r j) =>
      let '(c', _, ce) := cache_add_eff now j r (rs_cache s) in
      (mkRes c' j (rs_name s) (rs_active s) (rs_addrs s), ce)
  | EvApi (RNew name) =>
      let s' := mkRes (rs_cache s) (rs_jitter s) name true [] in
      (s', [ESendAll (res_query s'); EStart T_RES resolver_delay_ms])
  | EvApi (RJitter j) => (mkRes (rs_cache s) j (rs_name s) (rs_active s) (rs_addrs s), [])
  | EvApi (RLookup n ty) => (s, [ELook (lookup n ty (rs_cache s))])
  | EvApi RNop => (s, [])
  end.

Definition res_run (fuel : nat) (ops : list (aop rapi)) : list (list out) :=
  run_g resst rapi res_handle (fun _ => []) fuel (mkSim 0 [] 0%N (mkRes empty_cache 0 None false [])) ops.

(* ------------------------------------------------------------------ C16 as an acceptor *)
Record rmon := mkRmon {
  rm_ref : list ment;            (* reference RFC 6762 cache: (record, time added) *)
  rm_name : bytes; rm_active : bool; rm_pending : bool;   (* the initial report of cached addresses is still due *)
  rm_reported : list addr;       (* addresses reported because of responses *)
  rm_now : Z }.

(* 1 creation must send exactly the A+AAAA question for the name listing exactly the valid cached address records
   2 an address was reported that no valid record supports / a report is missing or out of order
   3 address reported twice because of repeated responses       4 unexpected output
   5 time      6 cache content differs from the reference (received address records must be stored) *)
Definition ref_purge (t : Z) (l : list ment) : list ment := filter (fun e => negb (me_expiry e <=? t)) l.
Definition ref_add (now : Z) (r : record) (l : list ment) : list ment :=
  filter (fun e => negb (spec_match r (me_rec e))) l ++ (if (r_ttl r =? 0)%N then [] else [mkMent r now 0]).
Definition ref_lookup (name : bstr) (type : N) (l : list ment) : list record :=
  map me_rec (filter (fun e => spec_lookup_match name type (me_rec e)) l).
Definition ref_addresses (name : bytes) (l : list ment) : list record :=
  ref_lookup (Some name) 1 l ++ ref_lookup (Some name) 28 l.

Definition is_res_query (name : bytes) (known : list record) (m : message) : bool :=
  negb (m_response m) &&
  match m_queries m with
  | [q1; q2] => bytes_eqb (bs_data (q_name q1)) name && bytes_eqb (bs_data (q_name q2)) name &&
                (q_type q1 =? 1)%N && (q_type q2 =? 28)%N
  | _ => false
  end && records_eqb (m_records m) known.

Definition sig_addr (o : out) : option addr :=
  match o with OSignal _ _ sg (PAddr a) => if (sg =? SIG_resolved)%N then Some a else None | _ => None end.

Fixpoint addrs_match (outs : list out) (ex : list addr) : bool :=
  match outs, ex with
  | [], [] => true
  | o :: outs', a :: ex' => match sig_addr o with Some b => addr_eqb a b && addrs_match outs' ex' | None => false end
  | _, _ => false
  end.

(* the reports a response must cause, and the reference state after it *)
Fixpoint rmon_records (now : Z) (name : bytes) (rs : list record) (ref : list ment) (rep : list addr)
  : list ment * list addr * list addr :=
  match rs with
  | [] => (ref, rep, [])
  | r :: rs' =>
      if bytes_eqb (bs_data (r_name r)) name && ((r_type r =? 1)%N || (r_type r =? 28)%N) then
        let ref' := ref_add now r ref in
        if (r_ttl r =? 0)%N || existsb (addr_eqb (r_addr r)) rep then rmon_records now name rs' ref' rep
        else let '(rf, rp, ex) := rmon_records now name rs' ref' (rep ++ [r_addr r]) in (rf, rp, r_addr r :: ex)
      else rmon_records now name rs' ref rep
  end.

Definition rtime_ok (lo hi : Z) (o : out) : bool :=
  match o with OSend t _ | OSendAll t _ | OSignal t _ _ _ => (lo <=? t) && (t <=? hi) | _ => true end.

Definition rmon_step (q : rmon) (o : aop rapi) (outs : list out) : rmon + N :=
  match o with
  | AApi (RCadd r j) =>
      match outs with
      | [] => inl (mkRmon (ref_add (rm_now q) r (rm_ref q)) (rm_name q) (rm_active q) (rm_pending q) (rm_reported q) (rm_now q))
      | _ => inr 4%N
      end
  | AApi (RJitter _) | AApi RNop => match outs with [] => inl q | _ => inr 4%N end
  | AApi (RNew name) =>
      match outs with
      | [OSendAll t m] =>
          if is_res_query (bs_data name) (ref_addresses (bs_data name) (rm_ref q)) m && (t =? rm_now q)
          then inl (mkRmon (rm_ref q) (bs_data name) true true [] (rm_now q)) else inr 1%N
      | _ => inr 1%N
      end
  | AApi (RLookup n ty) =>
      match outs with
      | [OLook rs] => if records_eqb rs (ref_lookup n ty (rm_ref q)) then inl q else inr 6%N
      | _ => inr 4%N
      end
  | ADeliver m =>
      if negb (forallb (rtime_ok (rm_now q) (rm_now q)) outs) then inr 5%N else
      if rm_active q && m_response m then
        let '(rf, rp, ex) := rmon_records (rm_now q) (rm_name q) (m_records m) (rm_ref q) (rm_reported q) in
        if addrs_match outs ex then inl (mkRmon rf (rm_name q) true (rm_pending q) rp (rm_now q))
        else if existsb (fun o => match sig_addr o with Some a => existsb (addr_eqb a) (rm_reported q) | None => false end) outs
             then inr 3%N else inr 2%N
      else match outs with [] => inl q | _ => inr 4%N end
  | AAdv t | AAdvB t | ALate t =>
      if t <? rm_now q then (match outs with [] => inl q | _ => inr 5%N end) else
      let strict := match o with AAdvB _ => true | _ => false end in
      (* the zero-delay timer was armed at creation, i.e. at rm_now: it is due unless this is a "before" advance to the same instant *)
      let due := rm_pending q && negb (strict && (t =? rm_now q)) in
      (* "present in the supplied cache when resolving starts": the 0-ms report is judged at the creation instant *)
      let fire_at := rm_now q in
      let ref0 := ref_purge fire_at (rm_ref q) in
      let ex := if due then map r_addr (ref_addresses (rm_name q) ref0) else [] in
      if negb (forallb (rtime_ok (rm_now q) t) outs) then inr 5%N else
      if addrs_match outs ex
      then inl (mkRmon (ref_purge (if strict then t - 1 else t) (rm_ref q)) (rm_name q) (rm_active q) (rm_pending q && negb due) (rm_reported q) t)
      else inr 2%N
  end.

Fixpoint rmon_run (q : rmon) (k : N) (ops : list (aop rapi)) (outs : list (list out)) : option (N * N) :=
  match ops, outs with
  | [], _ => None
  | o :: ops', og :: outs' =>
      match rmon_step q o og with
      | inl q' => rmon_run q' (k + 1)%N ops' outs'
      | inr c => Some (k, c)
      end
  | _ :: _, [] => Some (k, 4%N)
  end.

Definition mon_resolver (ops : list (aop rapi)) (outs : list (list out)) : option (N * N) :=
  rmon_run (mkRmon [] [] false false [] 0) 0%N ops outs.
