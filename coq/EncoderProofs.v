(* EncoderProofs.v — C01 (name level): writeName with its compression map emits a conformant name. *)
From QV Require Import Base Fields SrcFacts Msg Decoder Encoder WireSpec DecoderSafety DecoderComplete.
From Coq Require Import ZifyBool ZifyNat ZifyN.
Local Open Scope N_scope.

(* a name as the library holds it: labels joined by '.', here without the trailing dot (writeName chops it) *)
Fixpoint join (ls : list bytes) : bytes :=
  match ls with
  | [] => []
  | [l] => l
  | l :: ls' => l ++ DOT :: join ls'
  end.
Definition wf_label (l : bytes) : Prop := l <> [] /\ lenN l <= 63 /\ index_of DOT l = None /\ Forall (fun b => b < 256) l.

Lemma join_cons l l2 ls : join (l :: l2 :: ls) = l ++ DOT :: join (l2 :: ls).
Proof. reflexivity. Qed.

Lemma index_of_app_dot' (l r : bytes) : index_of DOT l = None -> index_of DOT (l ++ DOT :: r) = Some (length l).
Proof.
  induction l as [|c l IH]; cbn [index_of app length]; [intros _; rewrite N.eqb_refl; reflexivity|].
  destruct (c =? DOT); [discriminate|]. intro H. destruct (index_of DOT l); [discriminate|]. rewrite (IH eq_refl). reflexivity.
Qed.

Lemma firstn_app_exact {A} (l r : list A) : firstn (length l) (l ++ r) = l.
Proof. rewrite firstn_app, Nat.sub_diag, firstn_all, firstn_O, app_nil_r. reflexivity. Qed.
Lemma skipn_app_exact {A} (l : list A) x r : skipn (S (length l)) (l ++ x :: r) = r.
Proof.
  replace (l ++ x :: r) with ((l ++ [x]) ++ r) by (rewrite <- app_assoc; reflexivity).
  replace (S (length l)) with (length (l ++ [x])) by (rewrite app_length; cbn; lia).
  rewrite skipn_app, skipn_all, Nat.sub_diag. reflexivity.
Qed.

Lemma join_nonempty l ls : l <> [] -> join (l :: ls) <> [].
Proof. intros H. destruct ls; cbn [join]; [exact H|]. destruct l; [congruence|discriminate]. Qed.
Lemma length_join_lt l l2 ls : (length (join (l2 :: ls)) < length (join (l :: l2 :: ls)))%nat.
Proof. rewrite join_cons, app_length. cbn [length]. lia. Qed.

(* ---- the buffer as memory ---- *)
Lemma mem_of_app_l (P Q : bytes) i : i < lenN P -> mem_of (P ++ Q) i = mem_of P i.
Proof. unfold mem_of, lenN. intro H. apply app_nth1. lia. Qed.
Lemma mem_of_app_r (P Q : bytes) i : mem_of (P ++ Q) (lenN P + i) = mem_of Q i.
Proof. unfold mem_of, lenN. rewrite app_nth2 by lia. f_equal. lia. Qed.

Lemma bytes_at_ext (P Q : bytes) off l : off + lenN l <= lenN P -> bytes_at (mem_of P) off l -> bytes_at (mem_of (P ++ Q)) off l.
Proof. intros H B i Hi. rewrite mem_of_app_l by (unfold lenN in *; lia). apply B, Hi. Qed.

Lemma NameAt_ext (P Q : bytes) seg off ls e :
  NameAt (mem_of P) (lenN P) seg off ls e -> NameAt (mem_of (P ++ Q)) (lenN (P ++ Q)) seg off ls e.
Proof.
  induction 1 as [seg off Hoff H0 | seg off l ls e Hne Hl63 Hfit Hlen Hby Hrest IH
                 | seg off hi lo ls e' Hfit Hhi Hlo Ht Hmhi Hmlo Hrest IH]; rewrite lenN_app in *.
  - apply NA_end; [lia|]. rewrite mem_of_app_l by lia. exact H0.
  - apply NA_label; try assumption; [lia| |].
    + rewrite mem_of_app_l by lia. exact Hlen.
    + apply bytes_at_ext; [lia|exact Hby].
  - eapply NA_ptr; try eassumption; [lia| |].
    + rewrite mem_of_app_l by lia. exact Hmhi.
    + rewrite mem_of_app_l by lia. exact Hmlo.
Qed.

(* NameAt only constrains where pointers may go through seg: a larger segment start is weaker *)
Lemma NameAt_seg_mono mem len seg seg' off ls e : seg <= seg' -> NameAt mem len seg off ls e -> NameAt mem len seg' off ls e.
Proof.
  intros Hle H. revert seg' Hle. induction H as [seg off Hoff H0 | seg off l ls e Hne Hl63 Hfit Hlen Hby Hrest IH
                 | seg off hi lo ls e' Hfit Hhi Hlo Ht Hmhi Hmlo Hrest IH]; intros seg' Hle.
  - apply NA_end; assumption.
  - apply NA_label; auto.
  - eapply NA_ptr; try eassumption. lia.
Qed.

(* ---- the pointer word ---- *)
(* v < 2^14 and the flag 0xC000 have no bit in common (proved arithmetically: a 16384-case sweep is fast under
   vm_compute but takes minutes in coqchk) *)
Lemma lor_pointer v : v < 16384 -> N.lor v pointer_flag16 = v + 49152.
Proof.
  intro H. change pointer_flag16 with 49152. assert (L : N.land v 49152 = 0).
  { apply N.bits_inj_0. intro n. rewrite N.land_spec. destruct (N.lt_ge_cases n 14) as [Hn|Hn].
    - change 49152 with (3 * 2 ^ 14). rewrite (N.mul_pow2_bits_low 3 14 n Hn). apply andb_false_r.
    - assert (T : N.testbit v n = false).
      { apply N.testbit_false. rewrite N.div_small; [reflexivity|].
        apply N.lt_le_trans with (2 ^ 14); [exact H|]. apply N.pow_le_mono_r; [discriminate|exact Hn]. }
      rewrite T. reflexivity. }
  rewrite <- (N.lxor_lor _ _ L). symmetry. apply N.add_nocarry_lxor, L.
Qed.

Lemma pointer_bytes v : v < 16384 ->
  wr16 (N.lor v pointer_flag16) = [192 + v / 256; v mod 256] /\ 192 <= 192 + v / 256 < 256 /\ v mod 256 < 256 /\
  (192 + v / 256 - 192) * 256 + v mod 256 = v.
Proof.
  intro H. rewrite (lor_pointer v H). unfold wr16, be16, w16.
  rewrite (N.mod_small (v + 49152)) by lia.
  replace ((v + 49152) / 256) with (192 + v / 256) by lia.
  replace ((v + 49152) mod 256) with (v mod 256) by lia.
  rewrite (N.mod_small (192 + v / 256)) by lia.
  repeat split; lia.
Qed.

(* ------------------------------------------------------------------ the compression map *)
Definition good (B : bytes) (k : bytes) (o : N) : Prop :=
  exists ls e, ls <> [] /\ k = join ls /\ Forall wf_label ls /\ o < 16384 /\ o < lenN B /\
               NameAt (mem_of B) (lenN B) o o ls e.
Definition MapOK (B : bytes) (m : nmap) : Prop := forall k o, In (k, o) m -> good B k o.

Lemma good_ext B Q k o : good B k o -> good (B ++ Q) k o.
Proof.
  intros (ls & e & H1 & H2 & H3 & H4 & H5 & H6). exists ls, e. repeat split; auto.
  - rewrite lenN_app. lia.
  - apply NameAt_ext, H6.
Qed.

Lemma nm_lookup_In k m v : nm_lookup k m = Some v -> exists k', In (k', v) m /\ bytes_eqb k k' = true.
Proof.
  induction m as [|[k' v'] m IH]; cbn [nm_lookup]; [discriminate|].
  destruct (bytes_eqb k k') eqn:E.
  - intros [= <-]. exists k'. split; [left; reflexivity|exact E].
  - intro H. destruct (IH H) as (k'' & I1 & I2). exists k''. split; [right; exact I1|exact I2].
Qed.
Lemma nm_lookup_skip k pend m : (forall k' o, In (k', o) pend -> length k <> length k') -> nm_lookup k (pend ++ m) = nm_lookup k m.
Proof.
  induction pend as [|[k' o] pend IH]; intro H; cbn [app nm_lookup]; [reflexivity|].
  destruct (bytes_eqb k k') eqn:E.
  - apply bytes_eqb_eq in E. subst. exfalso. apply (H k' o); [left; reflexivity|reflexivity].
  - apply IH. intros k'' o'' Hin. apply (H k'' o''). right. exact Hin.
Qed.

(* labels without dots: the joined name determines the labels *)
Lemma index_of_none_app (a b : bytes) : index_of DOT (a ++ b) = None -> index_of DOT a = None.
Proof.
  induction a as [|c a IH]; cbn [app index_of]; [reflexivity|]. destruct (c =? DOT); [discriminate|].
  destruct (index_of DOT (a ++ b)) eqn:E; [discriminate|]. intros _. rewrite (IH eq_refl). reflexivity.
Qed.

Lemma join_index ls : ls <> [] -> Forall wf_label ls ->
  index_of DOT (join ls) = match ls with [_] => None | l :: _ => Some (length l) | [] => None end.
Proof.
  destruct ls as [|l [|l2 ls]]; [congruence| |]; intros _ H; inversion H as [|? ? (A & B & C & D) H']; subst.
  - exact C.
  - rewrite join_cons. apply index_of_app_dot', C.
Qed.

Lemma join_inj : forall ls1 ls2, ls1 <> [] -> ls2 <> [] -> Forall wf_label ls1 -> Forall wf_label ls2 -> join ls1 = join ls2 -> ls1 = ls2.
Proof.
  induction ls1 as [|l1 ls1 IH]; intros ls2 N1 N2 W1 W2 E; [congruence|].
  destruct ls2 as [|l2 ls2]; [congruence|].
  pose proof (join_index (l1 :: ls1) N1 W1) as I1. pose proof (join_index (l2 :: ls2) N2 W2) as I2. rewrite E in I1. rewrite I1 in I2.
  inversion W1 as [|? ? (A1 & B1 & C1 & D1) W1']; subst. inversion W2 as [|? ? (A2 & B2 & C2 & D2) W2']; subst.
  destruct ls1 as [|l1' ls1], ls2 as [|l2' ls2]; try discriminate.
  - cbn in E. congruence.
  - injection I2 as I2. rewrite !join_cons in E.
    assert (l1 = l2).
    { assert (firstn (length l1) (l1 ++ DOT :: join (l1' :: ls1)) = firstn (length l1) (l2 ++ DOT :: join (l2' :: ls2))) by (rewrite E; reflexivity).
      rewrite firstn_app_exact in H. rewrite I2 in H. rewrite firstn_app_exact in H. exact H. }
    subst l2. apply app_inv_head in E. injection E as E. f_equal. apply IH; auto; discriminate.
Qed.

Lemma wr8_small n : n <= 63 -> wr8 n = [n].
Proof. intro H. unfold wr8, w8. rewrite N.mod_small by lia. reflexivity. Qed.
Lemma w16_id x : x <= 65535 -> w16 x = x.
Proof. intro H. unfold w16. apply N.mod_small. lia. Qed.

Lemma bytes_at_here (A l C : bytes) : bytes_at (mem_of (A ++ l ++ C)) (lenN A) l.
Proof.
  intros i Hi. rewrite mem_of_app_r. unfold mem_of. rewrite Nat2N.id. apply app_nth1. exact Hi.
Qed.

Ltac lens := unfold wr8, lenN in *; rewrite ?app_length in *; cbn [length] in *; rewrite ?app_length in *; cbn [length] in *; lia.

Lemma write_frag_step f frag off m : frag <> [] ->
  write_frag (S f) frag off m =
  match nm_lookup frag m with
  | Some v => (wr16 (N.lor v pointer_flag16), w16 (off + 2), m)
  | None =>
      let m1 := (frag, off) :: m in
      let idx := match index_of DOT frag with Some i => i | None => length frag end in
      let '(bs, off', m') := write_frag f (skipn (S idx) frag) (w16 (w16 (off + 1) + N.of_nat idx)) m1 in
      (wr8 (N.of_nat idx) ++ firstn idx frag ++ bs, off', m')
  end.
Proof. destruct frag; [congruence|reflexivity]. Qed.

(* writeName's loop: conformant bytes, and every map entry it adds is good in the extended buffer *)
Lemma write_frag_ok : forall ls P W pend m fuel bs off' m',
  ls <> [] -> Forall wf_label ls ->
  MapOK P m ->
  (forall k o, In (k, o) pend -> (length (join ls) < length k)%nat) ->
  (length (join ls) < fuel)%nat ->
  lenN (P ++ W) + lenN (join ls) + 2 <= 16384 ->
  write_frag fuel (join ls) (lenN (P ++ W)) (pend ++ m) = (bs, off', m') ->
  off' = lenN (P ++ W ++ bs) /\ lenN bs <= lenN (join ls) + 2 /\
  (forall seg, lenN P <= seg -> NameAt (mem_of (P ++ W ++ bs)) (lenN (P ++ W ++ bs)) seg (lenN (P ++ W)) ls off') /\
  exists news, m' = news ++ pend ++ m /\
    forall k o, In (k, o) news -> good (P ++ W ++ bs) k o /\ lenN (P ++ W) <= o.
Proof.
  induction ls as [|l ls IH]; intros P W pend m fuel bs off' m' Hne Hwf HM Hpend Hfuel Hsize Hw; [congruence|].
  inversion Hwf as [|? ? (L1 & L2 & L3 & L4) Hwf']; subst.
  destruct fuel as [|f]; [lia|].
  pose proof (join_nonempty l ls L1) as Jne. rewrite (write_frag_step f _ _ _ Jne) in Hw.
  assert (Hskip : nm_lookup (join (l :: ls)) (pend ++ m) = nm_lookup (join (l :: ls)) m).
  { apply nm_lookup_skip. intros k' o Hin. specialize (Hpend k' o Hin). lia. }
  rewrite Hskip in Hw.
  destruct (nm_lookup (join (l :: ls)) m) as [v|] eqn:Lk.
  - (* a pointer to an earlier occurrence of this suffix *)
    injection Hw as <- <- <-.
    destruct (nm_lookup_In _ _ _ Lk) as (k' & Hin & Ek). apply bytes_eqb_eq in Ek. subst k'.
    destruct (HM _ _ Hin) as (ls0 & e0 & G1 & G2 & G3 & G4 & G5 & G6).
    assert (ls0 = l :: ls) by (symmetry; apply join_inj; auto; discriminate). subst ls0.
    destruct (pointer_bytes v G4) as (PB & Phi & Plo & Pv). rewrite PB.
    rewrite w16_id by lens.
    split; [lens|]. split; [lens|].
    split.
    + intros seg Hseg.
      replace (lenN (P ++ W) + 2) with (lenN (P ++ W) + 2) by reflexivity.
      eapply (NA_ptr _ _ seg (lenN (P ++ W)) (192 + v / 256) (v mod 256)).
      * lens.
      * exact Phi.
      * exact Plo.
      * rewrite Pv. lia.
      * rewrite app_assoc. rewrite <- (N.add_0_r (lenN (P ++ W))). rewrite mem_of_app_r. reflexivity.
      * rewrite app_assoc. rewrite mem_of_app_r. reflexivity.
      * rewrite Pv. apply NameAt_ext. exact G6.
    + exists []. split; [reflexivity|]. intros k o [].
  - (* a label, then the rest of the name *)
    set (off := lenN (P ++ W)) in *.
    assert (Hidx : match index_of DOT (join (l :: ls)) with Some i => i | None => length (join (l :: ls)) end = length l).
    { rewrite (join_index (l :: ls) Hne Hwf). destruct ls; [reflexivity|reflexivity]. }
    cbv zeta in Hw. rewrite Hidx in Hw.
    assert (Hfirst : firstn (length l) (join (l :: ls)) = l).
    { destruct ls as [|l2 ls]; [cbn [join]; apply firstn_all|rewrite join_cons; apply firstn_app_exact]. }
    assert (Hrest : skipn (S (length l)) (join (l :: ls)) = join ls).
    { destruct ls as [|l2 ls]; [cbn [join]; apply skipn_all2; lia|rewrite join_cons; apply skipn_app_exact]. }
    rewrite Hfirst, Hrest in Hw.
    assert (Hlen : lenN (join (l :: ls)) = lenN l + (match ls with [] => 0 | _ => 1 + lenN (join ls) end)).
    { destruct ls as [|l2 ls]; [cbn [join]; lia|rewrite join_cons, lenN_app, lenN_cons; lia]. }
    assert (Hoff2 : w16 (w16 (off + 1) + N.of_nat (length l)) = off + 1 + lenN l).
    { change (N.of_nat (length l)) with (lenN l). rewrite (w16_id (off + 1)) by (destruct ls; lia). apply w16_id. destruct ls; lia. }
    rewrite Hoff2 in Hw.
    replace (N.of_nat (length l)) with (lenN l) in Hw by reflexivity.
    rewrite (wr8_small (lenN l) L2) in Hw.
    set (W' := W ++ [lenN l] ++ l).
    assert (HW' : lenN (P ++ W') = off + 1 + lenN l).
    { unfold W', off. lens. }
    destruct ls as [|l2 ls].
    + (* last label: the terminating zero *)
      cbn [join] in Hw. destruct f as [|f']; [cbn [join] in Hfuel; destruct l; [congruence|cbn [length] in Hfuel; lia]|]. cbn [write_frag] in Hw.
      injection Hw as <- <- <-. cbn [join] in *.
      rewrite w16_id by lia.
      set (B := P ++ W ++ [lenN l] ++ l ++ wr8 0).
      assert (HB : lenN B = off + 1 + lenN l + 1).
      { unfold B, off. lens. }
      assert (HN : forall seg, NameAt (mem_of B) (lenN B) seg off [l] (off + 1 + lenN l + 1)).
      { intro seg. apply NA_label; auto.
        - lia.
        - unfold B, off. rewrite app_assoc. rewrite <- (N.add_0_r (lenN (P ++ W))). rewrite mem_of_app_r. reflexivity.
        - unfold B. replace (P ++ W ++ [lenN l] ++ l ++ wr8 0) with ((P ++ W ++ [lenN l]) ++ l ++ wr8 0) by (rewrite <- !app_assoc; reflexivity).
          replace (off + 1) with (lenN (P ++ W ++ [lenN l])) by (unfold off; lens).
          apply bytes_at_here.
        - apply NA_end; [lia|].
          unfold B. replace (P ++ W ++ [lenN l] ++ l ++ wr8 0) with ((P ++ W ++ [lenN l] ++ l) ++ wr8 0) by (rewrite <- !app_assoc; reflexivity).
          replace (off + 1 + lenN l) with (lenN (P ++ W ++ [lenN l] ++ l) + 0) by (unfold off; lens).
          rewrite mem_of_app_r. reflexivity. }
      split; [unfold off; clear; lens|]. split; [clear; lens|].
      split; [intros seg _; change (P ++ W ++ [lenN l] ++ l ++ wr8 0) with B; apply HN|].
      exists [(l, off)]. split; [reflexivity|]. intros k o [H|[]]. injection H as <- <-. split; [|lia].
      assert (Hlt : off < lenN B) by (rewrite HB; clear; lia).
      assert (Hlo : off < 16384) by (clear -Hsize; subst off; lia).
      exists [l], (off + 1 + lenN l + 1).
      split; [discriminate|]. split; [reflexivity|]. split; [exact Hwf|]. split; [exact Hlo|]. split; [exact Hlt|]. exact (HN off).
    + (* more labels follow *)
      destruct (write_frag f (join (l2 :: ls)) (off + 1 + lenN l) ((join (l :: l2 :: ls), off) :: pend ++ m)) as [[bs' off2] m2] eqn:Wr.
      injection Hw as <- <- <-.
      rewrite <- HW' in Wr.
      change ((join (l :: l2 :: ls), off) :: pend ++ m) with (((join (l :: l2 :: ls), off) :: pend) ++ m) in Wr.
      assert (Hpend' : forall k o, In (k, o) ((join (l :: l2 :: ls), off) :: pend) -> (length (join (l2 :: ls)) < length k)%nat).
      { intros k o [H|H]; [injection H as <- _; apply length_join_lt|]. specialize (Hpend k o H). pose proof (length_join_lt l l2 ls). lia. }
      assert (Hsize' : lenN (P ++ W') + lenN (join (l2 :: ls)) + 2 <= 16384) by lia.
      assert (Hfuel' : (length (join (l2 :: ls)) < f)%nat) by (pose proof (length_join_lt l l2 ls); lia).
      destruct (IH P W' _ m f bs' off2 m2 ltac:(discriminate) Hwf' HM Hpend' Hfuel' Hsize' Wr) as (I1 & I2 & I3 & news & I4 & I5).
      match goal with |- context [P ++ W ++ ?X] =>
        assert (EB : P ++ W ++ X = P ++ W' ++ bs') by (unfold W'; rewrite <- !app_assoc; reflexivity) end.
      rewrite !EB. split; [exact I1|]. split; [lens|].
      assert (HN : forall seg, lenN P <= seg -> NameAt (mem_of (P ++ W' ++ bs')) (lenN (P ++ W' ++ bs')) seg off (l :: l2 :: ls) off2).
      { intros seg Hseg. apply NA_label; auto.
        - clear -HW'. lens.
        - unfold W', off. rewrite <- !app_assoc. rewrite (app_assoc P W). rewrite <- (N.add_0_r (lenN (P ++ W))). rewrite mem_of_app_r. reflexivity.
        - unfold W'. replace (P ++ (W ++ [lenN l] ++ l) ++ bs') with ((P ++ W ++ [lenN l]) ++ l ++ bs') by (rewrite <- !app_assoc; reflexivity).
          replace (off + 1) with (lenN (P ++ W ++ [lenN l])) by (unfold off; lens).
          apply bytes_at_here.
        - rewrite <- HW'. apply I3, Hseg. }
      split; [exact HN|].
      exists (news ++ [(join (l :: l2 :: ls), off)]). split; [rewrite I4, <- !app_assoc; reflexivity|].
      intros k o Hin. apply in_app_iff in Hin as [Hin|[Hin|[]]].
      * destruct (I5 k o Hin) as [G Ho]. split; [exact G|lia].
      * injection Hin as <- <-. split; [|lia].
        exists (l :: l2 :: ls), off2. split; [discriminate|]. split; [reflexivity|]. split; [exact Hwf|]. split; [lia|].
        split; [clear -HW'; lens|].
        apply HN. unfold off. lens.
Qed.

(* ------------------------------------------------------------------ writeName followed by parseName *)
Lemma join_dotted ls : ls <> [] -> dotted ls = join ls ++ [DOT].
Proof.
  induction ls as [|l ls IH]; [congruence|]. intros _. destruct ls as [|l2 ls].
  - cbn. rewrite app_nil_r. reflexivity.
  - rewrite join_cons. change (dotted (l :: l2 :: ls)) with ((l ++ [DOT]) ++ dotted (l2 :: ls)).
    rewrite IH by discriminate. rewrite <- !app_assoc. reflexivity.
Qed.

Lemma chop_dot_join ls : chop_dot (join ls ++ [DOT]) = join ls.
Proof. unfold chop_dot. rewrite rev_app_distr. cbn [rev app]. rewrite N.eqb_refl. apply rev_involutive. Qed.

Lemma MapOK_ext B Q m : MapOK B m -> MapOK (B ++ Q) m.
Proof. intros H k o Hin. apply good_ext, H, Hin. Qed.

Theorem write_name_roundtrip P m ls bs off' m' :
  ls <> [] -> Forall wf_label ls -> MapOK P m ->
  lenN P + lenN (join ls) + 2 <= 16384 ->
  write_name (Some (join ls ++ [DOT])) (lenN P) m = (bs, off', m') ->
  off' = lenN (P ++ bs) /\
  NameAt (mem_of (P ++ bs)) (lenN (P ++ bs)) (lenN P) (lenN P) ls off' /\
  decode_name (P ++ bs) (lenN P) = Ok (Some (join ls ++ [DOT]), off') /\
  MapOK (P ++ bs) m'.
Proof.
  intros Hne Hwf HM Hsize Hw. unfold write_name in Hw. cbn [bs_data] in Hw. rewrite chop_dot_join in Hw.
  assert (HP : lenN (P ++ []) = lenN P) by (rewrite app_nil_r; reflexivity).
  rewrite <- HP in Hw. change m with ([] ++ m) in Hw.
  destruct (write_frag_ok ls P [] [] m (S (length (join ls))) bs off' m' Hne Hwf HM ltac:(intros k o []) ltac:(lia) ltac:(rewrite HP; exact Hsize) Hw)
    as (O1 & O2 & O3 & news & O4 & O5).
  cbn [app] in *. rewrite HP in *.
  split; [exact O1|]. split; [apply O3; lia|]. split.
  - unfold decode_name.
    assert (Hlen : lenN (P ++ bs) <= 65535) by (rewrite lenN_app; lia).
    rewrite (parse_name_complete (mem_of (P ++ bs)) (lenN (P ++ bs)) Hlen (lenN P) ls off' None (fuel_for (P ++ bs))).
    + unfold name_of. destruct ls; [congruence|]. rewrite <- join_dotted by discriminate. reflexivity.
    + unfold fuel_for, lenN. lia.
    + apply O3. lia.
  - intros k o Hin. rewrite O4 in Hin. apply in_app_iff in Hin as [Hin|Hin].
    + apply (O5 k o Hin).
    + apply good_ext, HM, Hin.
Qed.
