(* Properties_C02.v — the decoder accepts every conformant encoding and recovers the exact message. *)
From QV Require Import Base Fields SrcFacts Msg Decoder WireSpec DecoderSafety DecoderComplete WireMsg DecoderMsg.
From Coq Require Import Lia.
Local Open Scope N_scope.

(* Name level (the part of the property that carries the compression rules): for EVERY placement of
   compression pointers allowed by RFC 1035 - NameAt permits a pointer to any earlier offset, in an owner
   name or inside rdata, where the remaining labels are encoded, with chains of any length - and any byte
   content of the labels, parseName returns exactly the dotted name and leaves the cursor just after the
   name's in-place encoding (after the zero byte or after the first pointer).
   The record and message layers follow below (C02_decoder_complete). *)
Theorem C02_name_complete_partial mem len off ls e acc fuel :
  len <= 65535 -> (N.to_nat len < fuel)%nat ->
  NameAt mem len off off ls e -> parse_name mem len fuel off acc = Ok (name_of acc ls, e).
Proof. intros H1 H2 H3. exact (parse_name_complete mem len H1 off ls e acc fuel H2 H3). Qed.
Print Assumptions C02_name_complete_partial.

(* non-vacuity: "a.b." at 0, then at 5 the name "c.b." written as label c + pointer to offset 2 (inside the
   first name), then at 9 a pointer to 5: a chain of two pointers *)
Example C02_example :
  let p := [1; 97; 1; 98; 0;  1; 99; 192; 2;  192; 5]%N in
  decode_name p 9 = Ok (Some [99; 46; 98; 46]%N, 11) /\ decode_name p 5 = Ok (Some [99; 46; 98; 46]%N, 9).
Proof. vm_compute. auto. Qed.

(* ---- message level: the full statement ----
   [MessageAt mem len m] (WireMsg.v) is the RFC 1035 / 6762 wire format as a relation, written without reference to
   decoder or encoder: the 12-byte header with its four counts (answer, authority and additional counts distributed
   in any way), questions, then records; every name is a [NameAt] (labels, then a zero byte or a pointer to ANY earlier
   offset at which the remaining labels are encoded - in an owner name or inside earlier rdata - with chains of any
   length and any byte content); records of the six supported types with their rdata layout and a consistent rdlength;
   TXT rdata as ANY sequence of character strings filling rdlength exactly (empty strings included); records of ANY
   other type with arbitrary rdata of the declared length.  The message m it determines has sender address and port
   cleared, and for an unsupported type only name, type, cache-flush bit and TTL.
   The decoder succeeds on every such packet and returns exactly m. *)
Theorem C02_decoder_complete p m :
  lenN p <= 65535 -> MessageAt (mem_of p) (lenN p) m -> decode p = Ok m.
Proof.
  intros L M. unfold decode. apply (message_complete (mem_of p) (lenN p) L (fuel_for p)); [|exact M].
  unfold fuel_for, lenN. lia.
Qed.
Print Assumptions C02_decoder_complete.

(* one record: whatever its type.  For a type the library does not support the rdata is skipped by its declared
   length and the cursor ends exactly behind it, so the records that follow are not disturbed (RecordsAt chains e) *)
Theorem C02_record_complete mem len fuel off r e :
  len <= 65535 -> (N.to_nat len < fuel)%nat -> RecordAt mem len off r e ->
  parse_record mem len fuel off default_record = Ok (r, e).
Proof. intros L F H. exact (record_complete mem len L fuel F off r e H). Qed.
Print Assumptions C02_record_complete.

(* non-vacuity for the unsupported-type clause: name "a." + type 99, class IN with the cache-flush bit, TTL 5,
   rdlength 2, two bytes of rdata; followed by an A record whose owner name is a pointer to offset 0 *)
Example C02_unsupported_example :
  let p := [1; 97; 0;  0; 99;  128; 1;  0; 0; 0; 5;  0; 2;  7; 8;   192; 0;  0; 1;  0; 1;  0; 0; 0; 9;  0; 4;  10; 0; 0; 1]%N in
  RecordAt (mem_of p) (lenN p) 0 (base_record (Some [97; 46]) 99 32769 5) 15 /\
  decode_record p 0 = Ok (set_ttl 5 (set_flush true (set_type 99 (set_name (Some [97; 46]) default_record))), 15) /\
  decode_record p 15 = Ok (set_addr (A4 167772161) (set_ttl 9 (set_type 1 (set_name (Some [97; 46]) default_record))), 31).
Proof.
  cbv zeta. split; [|split; vm_compute; reflexivity].
  assert (B : forall off l, (forall i, (i < length l)%nat ->
     nth (N.to_nat (off + N.of_nat i)) [1; 97; 0; 0; 99; 128; 1; 0; 0; 0; 5; 0; 2; 7; 8; 192; 0; 0; 1; 0; 1; 0; 0; 0; 9; 0; 4; 10; 0; 0; 1] 0 = nth i l 0) ->
     bytes_at (mem_of [1; 97; 0; 0; 99; 128; 1; 0; 0; 0; 5; 0; 2; 7; 8; 192; 0; 0; 1; 0; 1; 0; 0; 0; 9; 0; 4; 10; 0; 0; 1]) off l).
  { intros off l H i Hi. apply H, Hi. }
  change 15 with (3 + 10 + 2).
  eapply RA with (ls := [[97]]) (o1 := 3) (type := 99) (cls := 32769) (ttl := 5) (dlen := 2); try (vm_compute; reflexivity).
  - apply NA_label.
    + discriminate.
    + vm_compute. discriminate.
    + vm_compute. discriminate.
    + vm_compute. reflexivity.
    + apply B. intros i Hi. cbn in Hi. destruct i as [|i]; [reflexivity|lia].
    + apply NA_end; vm_compute; reflexivity.
  - split; [vm_compute; discriminate|]. apply B. intros i Hi. cbn in Hi.
    do 10 (destruct i as [|i]; [reflexivity|]). lia.
  - apply RD_other; try (cbn; discriminate); vm_compute; discriminate.
Qed.
