(* Properties_C02.v — the decoder accepts every conformant encoding and recovers the exact message. *)
From QV Require Import Base Fields SrcFacts Msg Decoder WireSpec DecoderSafety DecoderComplete.
Local Open Scope N_scope.

(* Name level (the part of the property that carries the compression rules): for EVERY placement of
   compression pointers allowed by RFC 1035 - NameAt permits a pointer to any earlier offset, in an owner
   name or inside rdata, where the remaining labels are encoded, with chains of any length - and any byte
   content of the labels, parseName returns exactly the dotted name and leaves the cursor just after the
   name's in-place encoding (after the zero byte or after the first pointer).
   PARTIAL with respect to the full statement "Encodes p m -> from_packet p = Ok m": the record and message
   layers (fixed-width fields, rdata by type, unsupported types skipped by rdlength, count summation) are
   tied by the reference-encoder correspondence run of this check; their relational spec is still to be
   stated in WireSpec.v. *)
Theorem C02_name_complete_partial mem len off ls e acc fuel :
  len <= 65535 -> (N.to_nat len < fuel)%nat ->
  NameAt mem len off off ls e -> parse_name mem len fuel off acc = Ok (name_of acc ls, e).
Proof. intros H1 H2 H3. exact (parse_name_complete mem len H1 off ls e acc fuel H2 H3). Qed.
Print Assumptions C02_name_complete_partial.

(* non-vacuity: "a.b." at 0, then at 5 the name "c.b." written as label c + pointer to offset 2 (inside the
   first name), then at 9 a pointer to 5: a chain of two pointers *)
Example C02_example :
  let p := [1; 97; 1; 98; 0;  1; 99; 192; 2;  192; 5]%N in
  decode_name p 9 = Ok (Some [99; 46; 98; 46]%N, 11) /\ decode_name p 5 = Ok (Some [99; 46; 98; 46]%N, 9).
Proof. vm_compute. auto. Qed.
