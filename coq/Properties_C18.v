(* Properties_C18.v — refresh warnings follow each record's lifetime and stop with it. *)
From QV Require Import Base Fields SrcFacts Msg SrcDecisions Cache CacheSpec CacheProofs CacheAccept CacheLate.
Local Open Scope Z_scope.

(* the schedule written by addRecord: 50 / 85 / 90 / 95 % of the TTL plus the jitter, then the expiry;
   strictly increasing, so each warning instant lies strictly before the expiry *)
Theorem C18_schedule_shape now j ttl :
  (1 <= ttl <= TTL_MAX)%N -> 0 <= j < cache_jitter_bound ->
  triggers now j ttl =
    [now + Z.of_N ttl * 500 + j; now + Z.of_N ttl * 850 + j; now + Z.of_N ttl * 900 + j;
     now + Z.of_N ttl * 950 + j; now + 1000 * Z.of_N ttl]
  /\ sorted (triggers now j ttl).
Proof.
  intros H1 H2. pose proof jitter_bound_ok. rewrite (triggers_value now j ttl) by lia.
  split; [reflexivity|]. apply schedule_sorted; lia.
Qed.
Print Assumptions C18_schedule_shape.

(* advancing to t under exact scheduling: the warnings concerning a record are exactly the not yet
   consumed warning instants of its current schedule that are <= t, in order, each raised at its own
   instant; a record that is not (or no longer) stored - expired, replaced, withdrawn - gets none *)
Theorem C18_warnings now c t r :
  GInv now c -> now <= t ->
  filter (fun x => negb (is_expired x)) (sigs_for r (snd (cstep (now, c) (CAdv t)))) =
    match stored r (c_entries c) with
    | Some e => map (fun m => (m, ShouldQuery (e_rec e))) (filter (fun m => m <=? t) (removelast (e_trig e)))
    | None => []
    end.
Proof.
  intros G Hnt. destruct (cadv_spec now c t r G Hnt) as (_ & _ & _ & S). rewrite S.
  destruct (stored r (c_entries c)) as [e|] eqn:St; [|reflexivity].
  apply expect_warnings. destruct (stored_In r _ e St) as [He _]. exact (proj1 (g_wf _ _ G e He)).
Qed.
Print Assumptions C18_warnings.

(* re-adding restarts the schedule; a goodbye removes it (so no warning can follow, by C18_warnings) *)
Theorem C18_readd_restarts now j r c : (r_ttl r <> 0)%N ->
  stored r (c_entries (fst (add now j r c))) = Some (mkEntry r (triggers now j (r_ttl r))).
Proof. exact (add_restarts now j r c). Qed.
Print Assumptions C18_readd_restarts.

Theorem C18_goodbye_stops now j r c : r_ttl r = 0%N -> stored r (c_entries (fst (add now j r c))) = None.
Proof. exact (add_goodbye now j r c). Qed.
Print Assumptions C18_goodbye_stops.

(* additions raise no warning at all *)
Theorem C18_add_raises_none now j r c s snap : In (s, snap) (snd (add now j r c)) -> exists x, s = Expired x.
Proof.
  intro H. assert (In s (map fst (snd (add now j r c)))) by (apply in_map_iff; exists (s, snap); auto).
  rewrite add_signals in H0. destruct (r_ttl r =? 0)%N; [|destruct H0].
  apply in_map_iff in H0 as [e [<- _]]. eauto.
Qed.
Print Assumptions C18_add_raises_none.

(* non-vacuity: TTL 1 s with the maximal jitter still warns four times before expiring *)
Example C18_example :
  let a := set_ttl 1 (set_addr (A4 1) (set_type 1 (set_name (Some [97; 46]%N) default_record))) in
  map (fun o => match o with OSig t (ShouldQuery _) _ => t | OSig t (Expired _) _ => - t | _ => 0 end)
      (crun (0, empty_cache) [CAdd a 19; CAdv 5000]) = [519; 869; 919; 969; -1000].
Proof. vm_compute. reflexivity. Qed.

(* ------------------------------------------------------------------ the whole property, over whole histories
   CacheSpec.mon_cache is a timer-less reference cache written from the text of C05 / C06 / C18 with the
   properties' own constants; it judges a history together with everything observed after each operation
   (signals with their instants and the cache content at emission, lookup results).  For EVERY history of
   ADD (TTL 0 .. 2 000 000 s, jitter 0..19) / ADV (exact scheduling) / ADVB (caller action ahead of a
   simultaneously due firing) / LOOKUP operations, it accepts the run of the model of cache.cpp: every
   warning names a record then held (code 4), is the next one of that record's 50/85/90/95 % + [0,20) ms
   schedule counted from its last addition - at most four, in order (5) - and lies strictly before its expiry (6);
   and no warning that has become due is missing (7) *)
Theorem C18_every_history_is_accepted ops :
  script_ok 0 ops -> mon_cache ops (crun_g (0, empty_cache) ops) = None.
Proof. exact (run_accepted ops). Qed.
Print Assumptions C18_every_history_is_accepted.

Example C18_acceptor_discriminates :
  let a := set_ttl 1 (set_addr (A4 1) (set_type 1 (set_name (Some [97; 46]%N) default_record))) in
  let w t := OSig t (ShouldQuery a) [a] in
  mon_cache [CAdd a 0; CAdv 999] [[]; [w 500; w 850; w 900; w 950]] = None /\
  mon_cache [CAdd a 0; CAdv 999] [[]; [w 500; w 850; w 900]] = Some (1%N, 7%N) /\
  mon_cache [CAdd a 0; CAdv 999] [[]; [w 500; w 870; w 900; w 950]] = Some (1%N, 5%N) /\
  mon_cache [CAdd a 0; CAdd (set_ttl 0 a) 0; CAdv 999] [[]; [OSig 0 (Expired a) []]; [w 500]] = Some (2%N, 4%N).
Proof. vm_compute. auto. Qed.

(* for a timeout serviced at ANY instant (late firings included): a refresh warning names a record that is held when the
   warning is raised and is still held after the pass - never one that has expired *)
Theorem C18_warnings_only_for_held_records t es kept nn r snap :
  In (ShouldQuery r, snap) (snd (pass t kept es nn)) ->
  In r snap /\ exists e, In e es /\ e_rec e = r /\ snd (drop_passed t (e_trig e)) <> [] /\
                        In r (map e_rec (fst (fst (pass t kept es nn)))).
Proof. exact (pass_warning_alive t es kept nn r snap). Qed.
Print Assumptions C18_warnings_only_for_held_records.
