(* Properties_C05.v — a cached record lives exactly as long as its TTL and expires exactly once. *)
From QV Require Import Base Fields SrcFacts Msg SrcDecisions Cache CacheSpec CacheProofs CacheAccept CacheLate.
Local Open Scope Z_scope.

(* every state reached by a script of additions (TTL <= 2 000 000 s, jitter below the bound read from
   cache.cpp), exact advances and lookups satisfies the invariant GInv used below *)
Theorem C05_reachable_invariant ops : Forall wf_op ops ->
  GInv (fst (cstate_after (0, empty_cache) ops)) (snd (cstate_after (0, empty_cache) ops)).
Proof. exact (crun_GInv ops). Qed.
Print Assumptions C05_reachable_invariant.

(* (re-)adding a record starts its lifetime now: its entry carries the schedule ending at now + TTL s *)
Theorem C05_add_starts_lifetime now j r c : (r_ttl r <> 0)%N -> (r_ttl r <= TTL_MAX)%N ->
  stored r (c_entries (fst (add now j r c))) = Some (mkEntry r (schedule now j (r_ttl r))).
Proof. intros H1 H2. rewrite <- (triggers_value now j (r_ttl r) H2). exact (add_restarts now j r c H1). Qed.
Print Assumptions C05_add_starts_lifetime.

(* additions that do not replace or withdraw the record leave its entry and schedule untouched *)
Theorem C05_unrelated_add now j r' c r e :
  stored r (c_entries c) = Some e -> spec_match r' (e_rec e) = false ->
  stored r (c_entries (fst (add now j r' c))) = Some e.
Proof. exact (add_unrelated now j r' c r e). Qed.
Print Assumptions C05_unrelated_add.

(* advancing the clock to t under exact scheduling: each entry keeps exactly its triggers later than t and
   is gone once none is left - whatever the other entries are; and the expiry notifications concerning a
   record r are: exactly one, at the last instant of its schedule, iff that instant is <= t *)
Theorem C05_advance now c t r :
  GInv now c -> now <= t ->
  let res := cstep (now, c) (CAdv t) in
  GInv t (snd (fst res)) /\
  c_entries (snd (fst res)) = filter_map (trim_upto t) (c_entries c) /\
  filter is_expired (sigs_for r (snd res)) =
    match stored r (c_entries c) with
    | Some e => if last (e_trig e) (t + 1) <=? t then [(last (e_trig e) (t + 1), Expired (e_rec e))] else []
    | None => []
    end.
Proof.
  intros G Hnt. destruct (cadv_spec now c t r G Hnt) as (_ & G' & E & S). cbn zeta.
  split; [exact G'|]. split; [exact E|]. rewrite S.
  destruct (stored r (c_entries c)) as [e|] eqn:St; [|reflexivity].
  apply expect_expired. destruct (stored_In r _ e St) as [He _]. exact (proj1 (g_wf _ _ G e He)).
Qed.
Print Assumptions C05_advance.

(* "all orders in which simultaneously due timer and caller actions are processed": an advance that stops at
   instant t with the firing due exactly at t still pending (the caller's next action at t comes first) has done
   exactly what an exact advance to t - 1 does - in particular nothing has expired early - the invariant
   (timer armed for the earliest trigger, which may now be the current instant) still holds, so that the next
   advance, whatever the caller does at t in between, fires what is due at t (C05_advance under GInv t) *)
Theorem C05_caller_before_simultaneous_timer now c t r :
  GInv now c -> now < t ->
  let res := cstep (now, c) (CAdvB t) in
  fst (fst res) = t /\ GInv t (snd (fst res)) /\
  c_entries (snd (fst res)) = filter_map (trim_upto (t - 1)) (c_entries c) /\
  sigs_for r (snd res) = match stored r (c_entries c) with Some e => expect (e_rec e) (e_trig e) (t - 1) | None => [] end.
Proof. exact (cadvb_spec now c t r). Qed.
Print Assumptions C05_caller_before_simultaneous_timer.

(* lookups return exactly the records of the stored entries that the name/type filter selects *)
Theorem C05_lookup name type c r :
  In r (lookup name type c) <-> exists e, In e (c_entries c) /\ e_rec e = r /\ cache_lookup_match name type r = true.
Proof.
  unfold lookup. rewrite filter_In, in_map_iff. split.
  - intros [[e [<- He]] Hm]. eauto.
  - intros [e [He [<- Hm]]]. eauto.
Qed.
Print Assumptions C05_lookup.

(* non-vacuity: a record with TTL 2 s added at 0 with jitter 7 is there at 1999 and gone at 2000 *)
Example C05_example :
  let a := set_ttl 2 (set_addr (A4 1) (set_type 1 (set_name (Some [97; 46]%N) default_record))) in
  crun (0, empty_cache) [CAdd a 7; CAdv 1999; CLookup None 255; CAdv 2000; CLookup None 255]
  = [OSig 1007 (ShouldQuery a) [a]; OSig 1707 (ShouldQuery a) [a]; OSig 1807 (ShouldQuery a) [a];
     OSig 1907 (ShouldQuery a) [a]; OLookup [a]; OSig 2000 (Expired a) []; OLookup []].
Proof. vm_compute. reflexivity. Qed.

(* ... and when the caller re-adds another record at the very instant the first one is due to expire, before the
   timer is processed, the first still expires at that instant and the second lives on *)
Example C05_example_simultaneous :
  let a := set_ttl 1 (set_addr (A4 1) (set_type 1 (set_name (Some [97; 46]%N) default_record))) in
  let b := set_ttl 2 (set_addr (A4 2) (set_type 1 (set_name (Some [98; 46]%N) default_record))) in
  concat (skipn 1 (crun_g (0, empty_cache) [CAdd a 0; CAdvB 1000; CLookup None 255; CAdd b 0; CAdv 1000; CLookup None 255]))
  = [OSig 500 (ShouldQuery a) [a]; OSig 850 (ShouldQuery a) [a]; OSig 900 (ShouldQuery a) [a];
     OSig 950 (ShouldQuery a) [a]; OLookup [a]; OSig 1000 (Expired a) [b]; OLookup [b]].
Proof. vm_compute. reflexivity. Qed.

(* ------------------------------------------------------------------ the whole property, over whole histories
   CacheSpec.mon_cache is a timer-less reference cache written from the text of C05 / C06 / C18 with the
   properties' own constants; it judges a history together with everything observed after each operation
   (signals with their instants and the cache content at emission, lookup results).  For EVERY history of
   ADD (TTL 0 .. 2 000 000 s, jitter 0..19) / ADV (exact scheduling) / ADVB (caller action ahead of a
   simultaneously due firing) / LOOKUP operations, it accepts the run of the model of cache.cpp: the expiry
   notifications of every advance are exactly those of the records whose lifetime ends in it, each at now + TTL s,
   in order of expiry (rejection code 2), each record gone when announced (3), and every lookup returns exactly
   the unexpired, unreplaced records matching name/type (8) *)
Theorem C05_every_history_is_accepted ops :
  script_ok 0 ops -> mon_cache ops (crun_g (0, empty_cache) ops) = None.
Proof. exact (run_accepted ops). Qed.
Print Assumptions C05_every_history_is_accepted.

(* the acceptor is not vacuous: it accepts this history's real run and rejects a run that loses the expiry,
   one that announces a record still held, and a lookup that still returns a withdrawn record *)
Example C05_acceptor_discriminates :
  let a := set_ttl 1 (set_addr (A4 1) (set_type 1 (set_name (Some [97; 46]%N) default_record))) in
  let w t := OSig t (ShouldQuery a) [a] in
  script_ok 0 [CAdd a 0; CAdv 1000] /\
  mon_cache [CAdd a 0; CAdv 1000] [[]; [w 500; w 850; w 900; w 950; OSig 1000 (Expired a) []]] = None /\
  mon_cache [CAdd a 0; CAdv 1000] [[]; [w 500; w 850; w 900; w 950]] = Some (1%N, 2%N) /\
  mon_cache [CAdd a 0; CAdv 1000] [[]; [w 500; w 850; w 900; w 950; OSig 1000 (Expired a) [a]]] = Some (1%N, 3%N) /\
  mon_cache [CAdd a 0; CAdd (set_ttl 0 a) 0; CLookup None 255] [[]; [OSig 0 (Expired a) []]; [OLookup [a]]] = Some (2%N, 8%N).
Proof. vm_compute. unfold ttl_ok. cbn. repeat split; try lia; try discriminate. Qed.

(* ------------------------------------------------------------------ late firings (CacheLate.v)
   the invariant survives a timeout serviced at ANY instant at or after its deadline, hence holds after every history
   of ADD / ADV / ADVB / LATE / LOOKUP operations ... *)
Theorem C05_invariant_after_any_history_late_firings_included ops : Forall wf_op_late ops ->
  GInv (fst (cstate_after (0, empty_cache) ops)) (snd (cstate_after (0, empty_cache) ops)).
Proof. exact (crun_GInv_late ops). Qed.
Print Assumptions C05_invariant_after_any_history_late_firings_included.

(* ... and then "never lingers" does not depend on how punctual the timer was: an exact advance past the last trigger of
   every entry - the end of every lifetime - leaves the cache empty, and every lookup returns nothing *)
Theorem C05_nothing_lingers now c t name type :
  GInv now c -> now <= t -> (forall e, In e (c_entries c) -> forall x, In x (e_trig e) -> x <= t) ->
  let c' := snd (fst (cstep (now, c) (CAdv t))) in
  c_entries c' = [] /\ lookup name type c' = [].
Proof. exact (nothing_lingers now c t name type). Qed.
Print Assumptions C05_nothing_lingers.

Example C05_example_late :
  let a := set_ttl 1 (set_addr (A4 1) (set_type 1 (set_name (Some [97; 46]%N) default_record))) in
  let b := set_ttl 1 (set_addr (A4 2) (set_type 1 (set_name (Some [98; 46]%N) default_record))) in
  Forall wf_op_late [CAdd a 0; CLate 1300; CAdd b 0; CAdv 2300] /\
  concat (skipn 1 (crun_g (0, empty_cache) [CAdd a 0; CLate 1300; CAdd b 0; CAdv 2300; CLookup None 255])) =
  [OSig 1300 (Expired a) []; OSig 1800 (ShouldQuery b) [b]; OSig 2150 (ShouldQuery b) [b]; OSig 2200 (ShouldQuery b) [b];
   OSig 2250 (ShouldQuery b) [b]; OSig 2300 (Expired b) []; OLookup []].
Proof.
  split; [|vm_compute; reflexivity].
  repeat apply Forall_cons; try apply Forall_nil; cbn [wf_op_late]; try exact I; split; try (unfold ttl_ok; vm_compute; discriminate); vm_compute; split; congruence.
Qed.

(* the two scheduling decisions of cache.cpp are regenerated from the source on every run (SrcDecisions.v: the condition
   under which addRecord re-arms the timer, and the condition under which onTimeout counts a trigger as reached); the
   theorems above are about a model that calls those generated definitions, and they are what the property needs: *)
Theorem C05_scheduling_decisions_read_from_the_source :
  (forall (cn : option Z) t0 now,
     match cn with None => cache_rearm true t0 0 now | Some n => cache_rearm false t0 n now end =
     match cn with Some n => t0 <? n | None => true end) /\
  (forall t now, cache_trigger_passed t now = (t <=? now)).
Proof. split; [exact rearm_match|exact trigger_passed_spec]. Qed.
Print Assumptions C05_scheduling_decisions_read_from_the_source.
