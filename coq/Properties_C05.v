(* placeholder: theorems are added below as they are proved *)
From QV Require Import Base Fields SrcFacts Msg SrcDecisions Cache CacheSpec.
