(* BrowserProofs.v — handler-level facts about the browser model (C14 / C15 / C19, partial). *)
From QV Require Import Base Fields SrcFacts Msg SrcDecisions Cache CacheSpec CacheProofs Sim Prober Resolver Browser.
From Coq Require Import ZifyBool ZifyNat ZifyN.
Local Open Scope Z_scope.

(* the decisions of browser.cpp regenerated from the source (SrcDecisions), characterised once: which service types
   updateService ignores, and which records of a response the first loop of onMessageReceived keeps *)
Lemma not_of_interest_spec st ty :
  browser_not_of_interest st ty =
  ((match bs_data st with [] => true | _ :: _ => false end) || (negb (bs_eqb ty (Some browse_type)) && negb (bs_eqb st ty))).
Proof. reflexivity. Qed.
Lemma browser_any_spec ty : browser_any ty = bs_eqb ty (Some browse_type).
Proof. reflexivity. Qed.
Lemma browser_ptr_browse_spec any r ty : browser_ptr_browse any r ty = any && bs_eqb (r_name r) (Some browse_type).
Proof. reflexivity. Qed.
Lemma browser_ptr_type_spec any r ty : browser_ptr_type any r ty = any || bs_eqb (r_name r) ty.
Proof. reflexivity. Qed.
Lemma browser_srvtxt_spec any r ty : browser_srvtxt any r ty = any || ends_with ([DOT] ++ bs_data ty) (bs_data (r_name r)).
Proof. reflexivity. Qed.


(* the tie to service.cpp: Service::operator== compares every member of the private struct *)
Lemma service_eq_all_fields :
  forallb (fun f => existsb (sfield_eqb f) service_eq_fields) all_sfields = true.
Proof. vm_compute. reflexivity. Qed.

Definition merged_attrs (fq : bstr) (v : view) : attrs :=
  fold_left (fun acc r => fold_left (fun a kv => attrs_insert (fst kv) (snd kv) a) (r_attrs r) acc) (lookup_view fq T_TXT v) [].

(* what updateService may emit, and what it does to the map of added services *)
Theorem update_service_spec j v fq b :
  let '(need, b', es) := update_service j v fq b in
  let '(sname, stype) := split_fq fq in
  let key := bs_data fq in
  (es = [] /\ (b_services b' = b_services b \/
               exists s, smap_find key (b_services b) = Some s /\ exists s', service_eqb s s' = true /\ b_services b' = smap_insert key s' (b_services b)))
  \/
  (exists srv s, lookup_view stype T_PTR v <> [] /\ hd_error (lookup_view fq T_SRV v) = Some srv /\
     s = mkService stype sname (r_target srv) (r_port srv) (merged_attrs fq v) /\
     (bs_eqb (b_type b) (Some browse_type) = true \/ bs_eqb stype (b_type b) = true) /\
     b_services b' = smap_insert key s (b_services b) /\
     ((smap_find key (b_services b) = None /\ es = [ESig (N.of_nat j) SIG_serviceAdded (PService s)]) \/
      (exists old, smap_find key (b_services b) = Some old /\ service_eqb old s = false /\
                   es = [ESig (N.of_nat j) SIG_serviceUpdated (PService s)]))).
Proof.
  unfold update_service. destruct (split_fq fq) as [sname stype]. rewrite not_of_interest_spec.
  destruct ((match bs_data stype with [] => true | _ :: _ => false end)
            || (negb (bs_eqb (b_type b) (Some browse_type)) && negb (bs_eqb stype (b_type b)))) eqn:G.
  { left. split; [reflexivity|left; reflexivity]. }
  apply orb_false_iff in G as [_ G].
  assert (Gt : bs_eqb (b_type b) (Some browse_type) = true \/ bs_eqb stype (b_type b) = true).
  { destruct (bs_eqb (b_type b) (Some browse_type)); [left; reflexivity|]. destruct (bs_eqb stype (b_type b)); [right; reflexivity|discriminate]. }
  destruct (lookup_view stype T_PTR v) as [|p ps] eqn:P; [left; split; [reflexivity|left; reflexivity]|].
  destruct (lookup_view fq T_SRV v) as [|srv srvs] eqn:S; [left; split; [reflexivity|left; reflexivity]|].
  set (s := mkService stype sname (r_target srv) (r_port srv) _).
  destruct (smap_find (bs_data fq) (b_services b)) as [old|] eqn:F.
  - destruct (service_eqb old s) eqn:E.
    + left. split; [reflexivity|]. right. exists old. split; [reflexivity|]. exists s. split; [exact E|reflexivity].
    + right. exists srv, s. split; [discriminate|]. split; [reflexivity|]. split; [reflexivity|]. split; [exact Gt|].
      split; [reflexivity|]. right. exists old. auto.
  - right. exists srv, s. split; [discriminate|]. split; [reflexivity|]. split; [reflexivity|]. split; [exact Gt|].
    split; [reflexivity|]. left. auto.
Qed.

(* a removal names the service exactly as stored, and only a stored one *)
Theorem record_expired_srv_spec j v r b :
  r_type r = T_SRV ->
  let '(b', es) := on_record_expired j v r b in
  (es = [] /\ b' = b) \/
  (exists s, smap_find (bs_data (r_name r)) (b_services b) = Some s /\
             es = [ESig (N.of_nat j) SIG_serviceRemoved (PService s)] /\
             b_services b' = smap_remove (bs_data (r_name r)) (b_services b)).
Proof.
  intro H. unfold on_record_expired. rewrite H, N.eqb_refl.
  destruct (smap_find (bs_data (r_name r)) (b_services b)) as [s|] eqn:F; [|left; auto].
  destruct (bs_is_null (s_name s)); [left; auto|]. right. exists s. auto.
Qed.

(* C19: the periodic question *)
Theorem query_timeout_spec j w b :
  nth_error (w_browsers w) j = Some b ->
  exists m, browser_query_timeout j w = [ESendAll m; EStart (T_QUERY_OF j) browse_period_ms] /\
    m_response m = false /\ m_queries m = [mkQuery (b_type b) T_PTR false] /\
    m_records m = lookup_view (b_type b) T_PTR (match nth_error (w_caches w) (b_cache b) with Some c => view_of c | None => [] end).
Proof.
  intro H. unfold browser_query_timeout. rewrite H. eexists. split; [reflexivity|].
  set (v := match nth_error (w_caches w) (b_cache b) with Some c => view_of c | None => [] end).
  assert (forall rs m, m_records (fold_left (fun m r => add_record r m) rs m) = m_records m ++ rs /\
                       m_queries (fold_left (fun m r => add_record r m) rs m) = m_queries m /\
                       m_response (fold_left (fun m r => add_record r m) rs m) = m_response m) as FA.
  { induction rs as [|r rs IH]; intro m; cbn [fold_left]; [rewrite app_nil_r; auto|].
    destruct (IH (add_record r m)) as (A & B & C). rewrite A, B, C. cbn. rewrite <- app_assoc. auto. }
  destruct (FA (lookup_view (b_type b) T_PTR v) (add_query (mkQuery (b_type b) T_PTR false) default_message)) as (A & B & C).
  rewrite A, B, C. cbn. auto.
Qed.

Theorem should_query_spec r :
  on_should_query r = [ESendAll (add_query (mkQuery (r_name r) (r_type r) false) default_message)].
Proof. reflexivity. Qed.

Lemma browse_period_is_60s : browse_period_ms <= 60000.
Proof. vm_compute. discriminate. Qed.
