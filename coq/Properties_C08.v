(* Properties_C08.v — hostname registration is probe-backed and consistent with its notifications. *)
From QV Require Import Base Fields SrcFacts Msg SrcDecisions Sim Prober Hostname HostnameProofs HostnameInv HostnameAccept.
Local Open Scope Z_scope.

(* clause "while it is not registered it answers no queries": no handler invocation of an unregistered hostname
   object - message, timer or API - produces a reply *)
Theorem C08_unregistered_never_replies_partial now h ev m :
  h_reg h = false -> ~ In (ESend m) (snd (host_handle now h ev)).
Proof. exact (host_unregistered_never_replies now h ev m). Qed.
Print Assumptions C08_unregistered_never_replies_partial.

(* every state the executable model reaches, for every host name, interface list and script, lies in [hreach]:
   the clock never runs backwards and a timer fires only at or after its deadline *)
Theorem C08_model_runs_are_reachable fuel rawlocal ifs ops :
  exists g, hreach (host_state_after fuel rawlocal ifs ops) g.
Proof. exact (host_run_reachable fuel rawlocal ifs ops). Qed.
Print Assumptions C08_model_runs_are_reachable.

(* clause "the name it reports while registered is the one carried by its last hostnameChanged": in every reachable
   state, where g_emitted is the ghost record of the most recent change notification *)
Theorem C08_registered_name_is_last_notified s g :
  hreach s g -> h_reg (s_st s) = true -> g_emitted g = Some (h_name (s_st s)).
Proof. exact (registered_name_is_last_notified s g). Qed.
Print Assumptions C08_registered_name_is_last_notified.

(* clause "it registers a name only after probing that very name and waiting the full interval": whenever the
   registration timer is due in a reachable state, the latest probe (ghost g_probe: name and instant of the most
   recent probe broadcast) was for the current name and at least registration_wait_ms old, and firing the timer
   registers exactly that name *)
Theorem C08_registration_is_probe_backed s g d sq :
  hreach s g -> In (T_REG, d, sq) (s_tm s) -> d <= s_now s ->
  h_reg (s_st s) = false /\ fst (g_probe g) = h_name (s_st s) /\
  snd (g_probe g) + registration_wait_ms <= s_now s /\
  let s1 := mkSim (s_now s) (tm_remove T_REG (s_tm s)) (s_seq s) (s_st s) in
  let s' := fst (dispatch hostst unit host_handle s1 (EvTimer T_REG)) in
  h_reg (s_st s') = true /\ h_name (s_st s') = h_name (s_st s).
Proof. exact (registration_is_probe_backed s g d sq). Qed.
Print Assumptions C08_registration_is_probe_backed.

(* and no other transition sets the flag *)
Theorem C08_only_registration_timer_registers now h ev :
  h_reg h = false -> h_reg (fst (host_handle now h ev)) = true -> ev = EvTimer T_REG.
Proof. exact (only_registration_timer_registers now h ev). Qed.
Print Assumptions C08_only_registration_timer_registers.

(* clause "a conflicting response moves it to the next suffixed candidate and restarts the wait": in a reachable
   unregistered state, a response carrying an address record of the current name leaves the object unregistered
   under a candidate with a strictly larger suffix, probed at this instant, with the registration timer armed for
   exactly registration_wait_ms from now *)
Theorem C08_conflict_restarts_wait s g m :
  hreach s g -> h_reg (s_st s) = false -> m_response m = true ->
  existsb (fun r => hostname_conflict r (h_name (s_st s))) (m_records m) = true ->
  let s' := fst (dispatch hostst unit host_handle s (EvMsg m)) in
  let g' := ghost_effs (s_now s) g (snd (host_handle (s_now s) (s_st s) (EvMsg m))) in
  h_reg (s_st s') = false /\ (h_suffix (s_st s) < h_suffix (s_st s'))%N /\
  h_name (s_st s') = host_candidate (h_local (s_st s)) (h_suffix (s_st s')) /\
  g_probe g' = (h_name (s_st s'), s_now s) /\
  tm_has (s_tm s') T_REG /\
  forall d sq, In (T_REG, d, sq) (s_tm s') -> d = s_now s + registration_wait_ms.
Proof. exact (conflict_restarts_wait s g m). Qed.
Print Assumptions C08_conflict_restarts_wait.

(* the ghost "latest probe" is faithful: the object broadcasts nothing but probes (one A and one AAAA question for
   one name, no records) *)
Theorem C08_broadcasts_are_probes now h ev m :
  In (ESendAll m) (snd (host_handle now h ev)) -> exists nm, is_host_probe nm m = true.
Proof. exact (host_broadcasts_are_probes now h ev m). Qed.
Print Assumptions C08_broadcasts_are_probes.

(* ------------------------------------------------------------------ the whole property, over whole runs
   Hostname.mon_hostname is the acceptor written from the text of C08 (and C17): it follows a script together with
   everything observed after each operation and rejects when - a send is not the expected probe for the next
   candidate (1), - the object is registered without a full undisturbed 2 s since the latest probe for exactly that
   name (2), - the registered name differs from the last change notification (3), - a conflict is not followed by a
   probe for the next candidate (6), - a change notification is missing, spurious or carries another value (9), - a
   reply differs from the C17 specification (7).  For EVERY script of delivered messages, exact advances, advances
   leaving what is due at t pending and late firings (advance targets within the kernel's fuel), it accepts the run
   of the model of hostname.cpp under the virtual-time kernel. *)
Theorem C08_every_run_is_accepted fuel rawlocal ifs ops :
  Forall (HostnameAccept.op_ok fuel) ops -> mon_hostname rawlocal ifs ops (host_run fuel rawlocal ifs ops) = None.
Proof. exact (host_run_accepted fuel rawlocal ifs ops). Qed.
Print Assumptions C08_every_run_is_accepted.

(* the acceptor is not vacuous: it accepts the real run of a conflict followed by a registration under "vm-2", and
   rejects the same run when the registration comes 1 ms early or under the conflicted name *)
Example C08_acceptor_discriminates :
  let vm := [118; 109]%N in
  let nm (k : N) := host_candidate vm k in
  let conflict := mkMessage (A4 1%N) 5353%N 0%N true false [] [set_addr (A4 9) (set_type 1 (set_name (Some (nm 1%N)) default_record))] in
  let ops := [ADeliver conflict; AAdv 2000] in
  let probe (k : N) := add_query (mkQuery (Some (nm k)) T_AAAA false) (add_query (mkQuery (Some (nm k)) T_A false) default_message) in
  Forall (HostnameAccept.op_ok 100) ops /\
  host_run 100 vm [] ops =
    [[OSendAll 0 (probe 1%N); OPoll OBJ false (Some (nm 1%N))];
     [OSendAll 0 (probe 2%N); OPoll OBJ false (Some (nm 2%N))];
     [OSignal 2000 OBJ SIG_hostnameChanged (PBytes (Some (nm 2%N))); OPoll OBJ true (Some (nm 2%N))]] /\
  mon_hostname vm [] ops
    [[OSendAll 0 (probe 1%N); OPoll OBJ false (Some (nm 1%N))];
     [OSendAll 0 (probe 2%N); OPoll OBJ false (Some (nm 2%N))];
     [OSignal 1999 OBJ SIG_hostnameChanged (PBytes (Some (nm 2%N))); OPoll OBJ true (Some (nm 2%N))]] <> None /\
  mon_hostname vm [] ops
    [[OSendAll 0 (probe 1%N); OPoll OBJ false (Some (nm 1%N))];
     [OPoll OBJ false (Some (nm 1%N))];
     [OSignal 2000 OBJ SIG_hostnameChanged (PBytes (Some (nm 1%N))); OPoll OBJ true (Some (nm 1%N))]] <> None.
Proof. vm_compute. repeat split; try discriminate. repeat constructor. Qed.

(* the decisions of hostname.cpp the theorems rest on are regenerated from the source on every run (SrcDecisions.v): the
   conflict condition and the question filter (hostname_conflict, hostname_question: used by the model directly) and the
   condition under which a completed registration is announced - the name differs from the one held before the probe: *)
Theorem C08_announce_decision_read_from_the_source (a b : bytes) (x y : list eff) :
  (if hostname_announce (Some a) (Some b) then x else y) = (if bytes_eqb a b then y else x).
Proof. exact (host_announce_old a b x y). Qed.
Print Assumptions C08_announce_decision_read_from_the_source.
