(* Properties_C08.v — hostname registration is probe-backed and consistent with its notifications. *)
From QV Require Import Base Fields SrcFacts Msg SrcDecisions Sim Hostname HostnameProofs HostnameInv.
Local Open Scope Z_scope.

(* clause "while it is not registered it answers no queries": no handler invocation of an unregistered hostname
   object - message, timer or API - produces a reply *)
Theorem C08_unregistered_never_replies_partial now h ev m :
  h_reg h = false -> ~ In (ESend m) (snd (host_handle now h ev)).
Proof. exact (host_unregistered_never_replies now h ev m). Qed.
Print Assumptions C08_unregistered_never_replies_partial.

(* every state the executable model reaches, for every host name, interface list and script, lies in [hreach]:
   the clock never runs backwards and a timer fires only at or after its deadline *)
Theorem C08_model_runs_are_reachable fuel rawlocal ifs ops :
  exists g, hreach (host_state_after fuel rawlocal ifs ops) g.
Proof. exact (host_run_reachable fuel rawlocal ifs ops). Qed.
Print Assumptions C08_model_runs_are_reachable.

(* clause "the name it reports while registered is the one carried by its last hostnameChanged": in every reachable
   state, where g_emitted is the ghost record of the most recent change notification *)
Theorem C08_registered_name_is_last_notified s g :
  hreach s g -> h_reg (s_st s) = true -> g_emitted g = Some (h_name (s_st s)).
Proof. exact (registered_name_is_last_notified s g). Qed.
Print Assumptions C08_registered_name_is_last_notified.

(* clause "it registers a name only after probing that very name and waiting the full interval": whenever the
   registration timer is due in a reachable state, the latest probe (ghost g_probe: name and instant of the most
   recent probe broadcast) was for the current name and at least registration_wait_ms old, and firing the timer
   registers exactly that name *)
Theorem C08_registration_is_probe_backed s g d sq :
  hreach s g -> In (T_REG, d, sq) (s_tm s) -> d <= s_now s ->
  h_reg (s_st s) = false /\ fst (g_probe g) = h_name (s_st s) /\
  snd (g_probe g) + registration_wait_ms <= s_now s /\
  let s1 := mkSim (s_now s) (tm_remove T_REG (s_tm s)) (s_seq s) (s_st s) in
  let s' := fst (dispatch hostst unit host_handle s1 (EvTimer T_REG)) in
  h_reg (s_st s') = true /\ h_name (s_st s') = h_name (s_st s).
Proof. exact (registration_is_probe_backed s g d sq). Qed.
Print Assumptions C08_registration_is_probe_backed.

(* and no other transition sets the flag *)
Theorem C08_only_registration_timer_registers now h ev :
  h_reg h = false -> h_reg (fst (host_handle now h ev)) = true -> ev = EvTimer T_REG.
Proof. exact (only_registration_timer_registers now h ev). Qed.
Print Assumptions C08_only_registration_timer_registers.

(* clause "a conflicting response moves it to the next suffixed candidate and restarts the wait": in a reachable
   unregistered state, a response carrying an address record of the current name leaves the object unregistered
   under a candidate with a strictly larger suffix, probed at this instant, with the registration timer armed for
   exactly registration_wait_ms from now *)
Theorem C08_conflict_restarts_wait s g m :
  hreach s g -> h_reg (s_st s) = false -> m_response m = true ->
  existsb (fun r => hostname_conflict r (h_name (s_st s))) (m_records m) = true ->
  let s' := fst (dispatch hostst unit host_handle s (EvMsg m)) in
  let g' := ghost_effs (s_now s) g (snd (host_handle (s_now s) (s_st s) (EvMsg m))) in
  h_reg (s_st s') = false /\ (h_suffix (s_st s) < h_suffix (s_st s'))%N /\
  h_name (s_st s') = host_candidate (h_local (s_st s)) (h_suffix (s_st s')) /\
  g_probe g' = (h_name (s_st s'), s_now s) /\
  tm_has (s_tm s') T_REG /\
  forall d sq, In (T_REG, d, sq) (s_tm s') -> d = s_now s + registration_wait_ms.
Proof. exact (conflict_restarts_wait s g m). Qed.
Print Assumptions C08_conflict_restarts_wait.

(* the ghost "latest probe" is faithful: the object broadcasts nothing but probes (one A and one AAAA question for
   one name, no records) *)
Theorem C08_broadcasts_are_probes now h ev m :
  In (ESendAll m) (snd (host_handle now h ev)) -> exists nm, is_host_probe nm m = true.
Proof. exact (host_broadcasts_are_probes now h ev m). Qed.
Print Assumptions C08_broadcasts_are_probes.
