(* Properties_C08.v — hostname registration is probe-backed and consistent with its notifications. *)
From QV Require Import Base Fields SrcFacts Msg SrcDecisions Sim Hostname HostnameProofs.
Local Open Scope Z_scope.

(* clause "while it is not registered it answers no queries": no handler invocation of an unregistered hostname
   object - message, timer or API - produces a reply *)
Theorem C08_unregistered_never_replies_partial now h ev m :
  h_reg h = false -> ~ In (ESend m) (snd (host_handle now h ev)).
Proof. exact (host_unregistered_never_replies now h ev m). Qed.
Print Assumptions C08_unregistered_never_replies_partial.
