(* Fields.v — names of the members of the library's private structs (vocabulary of SrcFacts). *)
From QV Require Import Base.

Inductive rfield := F_name | F_type | F_flushCache | F_ttl | F_address | F_target
                  | F_nextDomainName | F_priority | F_weight | F_port | F_attributes | F_bitmap.
Inductive sfield := S_type | S_name | S_hostname | S_port | S_attributes.

Definition rfield_eqb (a b : rfield) : bool :=
  match a, b with
  | F_name, F_name | F_type, F_type | F_flushCache, F_flushCache | F_ttl, F_ttl
  | F_address, F_address | F_target, F_target | F_nextDomainName, F_nextDomainName
  | F_priority, F_priority | F_weight, F_weight | F_port, F_port
  | F_attributes, F_attributes | F_bitmap, F_bitmap => true
  | _, _ => false
  end.
Definition sfield_eqb (a b : sfield) : bool :=
  match a, b with
  | S_type, S_type | S_name, S_name | S_hostname, S_hostname | S_port, S_port
  | S_attributes, S_attributes => true
  | _, _ => false
  end.

Definition all_rfields := [F_name; F_type; F_flushCache; F_ttl; F_address; F_target;
  F_nextDomainName; F_priority; F_weight; F_port; F_attributes; F_bitmap].
Definition all_sfields := [S_type; S_name; S_hostname; S_port; S_attributes].

Lemma rfield_eqb_eq a b : rfield_eqb a b = true <-> a = b.
Proof. destruct a, b; cbn; split; intro H; congruence. Qed.
Lemma sfield_eqb_eq a b : sfield_eqb a b = true <-> a = b.
Proof. destruct a, b; cbn; split; intro H; congruence. Qed.
Lemma all_rfields_complete f : In f all_rfields.
Proof. destruct f; cbn; tauto. Qed.
Lemma all_sfields_complete f : In f all_sfields.
Proof. destruct f; cbn; tauto. Qed.
