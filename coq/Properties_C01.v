(* Properties_C01.v — the encoder emits conformant packets that decode back to the same message. *)
From QV Require Import Base Fields SrcFacts Msg Decoder Encoder WireSpec DecoderSafety DecoderComplete EncoderProofs WireMsg DecoderMsg EncoderMsg.
Local Open Scope N_scope.

(* Name level (the message-level theorems follow below).  With respect to the full statement "wf_msg m -> Encodes (to_packet m) m /\ from_packet (to_packet m) = Ok m".
   Proved: the part of the encoder that carries the compression logic.  For every buffer P written so far, every
   compression map whose entries are good in P (each maps a suffix to an offset < 16 KiB at which that suffix is
   conformantly encoded - the invariant MapOK, which writeName re-establishes: last conjunct), and every well-formed
   name (1.. labels of 1..63 bytes without '.'), writeName
     - advances the offset by exactly the number of bytes it appends,
     - appends a conformant encoding of the name (relation NameAt: labels, then a zero byte or a pointer to an EARLIER
       offset where the remaining labels are encoded; the map entry of a suffix is inserted before its bytes are
       written, which the proof shows harmless because a pending entry is strictly longer than anything looked up),
     - which the library's own parseName reads back as exactly that name, ending where the encoder ended,
   as long as the name ends below 16 KiB (the bound of the property's quantifier: offsets >= 0x4000 do not fit a pointer).
   The record and message layers (fixed-width fields, rdlength bookkeeping with the side buffer, counts, flags) are tied
   on every run by: byte-for-byte comparison of the model's to_packet with the real toPacket, an independent strict
   RFC 1035/6762 decoder applied to the real bytes, and the real fromPacket applied to them. *)
Theorem C01_name_roundtrip_partial P m ls bs off' m' :
  ls <> [] -> Forall wf_label ls -> MapOK P m ->
  lenN P + lenN (join ls) + 2 <= 16384 ->
  write_name (Some (join ls ++ [DOT])) (lenN P) m = (bs, off', m') ->
  off' = lenN (P ++ bs) /\
  NameAt (mem_of (P ++ bs)) (lenN (P ++ bs)) (lenN P) (lenN P) ls off' /\
  decode_name (P ++ bs) (lenN P) = Ok (Some (join ls ++ [DOT]), off') /\
  MapOK (P ++ bs) m'.
Proof. exact (write_name_roundtrip P m ls bs off' m'). Qed.
Print Assumptions C01_name_roundtrip_partial.

(* the empty map is good, so the invariant can be started at the first name of a packet *)
Theorem C01_empty_map_ok P : MapOK P [].
Proof. intros k o []. Qed.
Print Assumptions C01_empty_map_ok.

(* non-vacuity: two names sharing a suffix; the second is written as one label and a pointer, and decodes back *)
Example C01_example :
  let hdr := repeat 0 12 in
  let '(b1, o1, m1) := write_name (Some [97; 46; 98; 46]) 12 [] in
  let '(b2, o2, m2) := write_name (Some [99; 46; 98; 46]) o1 m1 in
  b2 = [1; 99; 192; 14] /\ decode_name (hdr ++ b1 ++ b2) o1 = Ok (Some [99; 46; 98; 46], o2).
Proof. vm_compute. split; [reflexivity|split; reflexivity]. Qed.

(* ---- message level ----
   [wf_message m]: a 16-bit id; every name has at least one label, labels of 1..63 bytes without '.', and a trailing
   dot; records of the six supported types with in-range fields (A: an IPv4 address, AAAA: 16 bytes, SRV: 16-bit
   numbers, TXT: non-empty keys without '=', strings of at most 255 bytes, keys strictly increasing as in the QMap,
   NSEC: a bitmap of at most 255 bytes, TTL < 2^32); the uncompressed size [usize_message] at most 16 KiB, so that every
   offset fits a compression pointer.
   [canon_message m]: m with the sender address and port cleared (they are not part of a packet) and every record
   reduced to name, type, cache-flush bit, TTL and the data of its type - what the property calls "an equal message".
   [MessageAt] (WireMsg.v) is the RFC 1035 / 6762 format as a relation, written without reference to the library. *)

(* the packet is a standards-conformant encoding of the message: counts, length fields and compression pointers are all
   consistent (every pointer targets an earlier offset at which the remaining labels are encoded) *)
Theorem C01_packet_conformant m :
  wf_message m -> lenN (to_packet m) <= 16384 /\ MessageAt (mem_of (to_packet m)) (lenN (to_packet m)) (canon_message m).
Proof. exact (to_packet_conformant m). Qed.
Print Assumptions C01_packet_conformant.

(* the library's own decoder applied to that packet succeeds and returns the message *)
Theorem C01_decode_encode m : wf_message m -> decode (to_packet m) = Ok (canon_message m).
Proof. exact (decode_to_packet m). Qed.
Print Assumptions C01_decode_encode.

(* canon changes nothing on a record that only carries the data of its type *)
Theorem C01_canon_idempotent r : canon (canon r) = canon r.
Proof.
  unfold canon. cbn [canon_base r_type r_name r_flush r_ttl set_ttl set_flush set_type set_name].
  destruct (r_type r =? 1) eqn:E1; [cbn; rewrite E1; reflexivity|].
  destruct (r_type r =? 28) eqn:E2; [cbn; rewrite E1, E2; reflexivity|].
  destruct (r_type r =? 12) eqn:E3; [cbn; rewrite E1, E2, E3; reflexivity|].
  destruct (r_type r =? 33) eqn:E4; [cbn; rewrite E1, E2, E3, E4; reflexivity|].
  destruct (r_type r =? 16) eqn:E5; [cbn; rewrite E1, E2, E3, E4, E5; reflexivity|].
  destruct (r_type r =? 47) eqn:E6; [cbn; rewrite E1, E2, E3, E4, E5, E6; reflexivity|].
  cbn. rewrite E1, E2, E3, E4, E5, E6. reflexivity.
Qed.
Print Assumptions C01_canon_idempotent.


(* non-vacuity: a response with a question and a PTR, an SRV and a TXT record sharing name suffixes is well-formed, so
   the theorems apply to it; its 76-byte packet (97 bytes uncompressed) uses compression pointers and decodes back to exactly the message *)
Definition ex_nm (ls : list bytes) := Some (join ls ++ [DOT]).
Definition ex_ty := [[95; 116]; [108]].
Definition ex_inst := [[105]; [95; 116]; [108]].
Definition ex_host := [[104]; [108]].
Definition ex_base n t := set_ttl 120 (set_type t (set_name (ex_nm n) default_record)).
Definition ex_m := mkMessage ANull 0 7 true false [mkQuery (ex_nm ex_ty) 12 true]
             [set_target (ex_nm ex_inst) (ex_base ex_ty 12);
              set_flush true (set_target (ex_nm ex_host) (set_port 80 (ex_base ex_inst 33)));
              set_flush true (set_attrs [([107], Some [118])] (ex_base ex_inst 16))].
Lemma ex_L : forall l, In l [[95; 116]; [108]; [105]; [104]] -> wf_label l.
Proof.
  intros l H. repeat (destruct H as [<-|H]; [split; [discriminate|split; [vm_compute; discriminate|split; [reflexivity|repeat constructor]]]|]). destruct H.
Qed.
Lemma ex_W : forall ls, Forall (fun l => In l [[95; 116]; [108]; [105]; [104]]) ls -> ls <> [] -> WfName (Some (join ls ++ [DOT])) ls.
Proof. intros ls F Hne. split; [exact Hne|]. split; [|reflexivity]. eapply Forall_impl; [|exact F]. exact ex_L. Qed.
Ltac wn := eexists; apply ex_W; [repeat constructor; cbn; tauto|discriminate].
Example C01_example_wf : wf_message ex_m.
Proof.
  unfold wf_message, ex_m. cbn [m_id m_queries m_records].
  split; [reflexivity|]. split.
  { apply Forall_cons; [|apply Forall_nil]. split; [cbn [q_name]; wn|reflexivity]. }
  split; [|vm_compute; discriminate].
  apply Forall_cons; [|apply Forall_cons; [|apply Forall_cons; [|apply Forall_nil]]].
  - split; [cbn [r_name]; wn|]. split; [reflexivity|]. right. right. left. split; [reflexivity|]. cbn [r_target set_target]. wn.
  - split; [cbn [r_name]; wn|]. split; [reflexivity|]. right. right. right. left.
    split; [reflexivity|]. split; [reflexivity|]. split; [reflexivity|]. split; [reflexivity|]. cbn [r_target set_target set_flush]. wn.
  - split; [cbn [r_name]; wn|]. split; [reflexivity|]. right. right. right. right. left. split; [reflexivity|]. split.
    + apply Forall_cons; [|apply Forall_nil]. split; [discriminate|]. split; [reflexivity|]. vm_compute. discriminate.
    + split; [intros k' v' []|exact I].
Qed.

Example C01_example_roundtrip :
  canon_message ex_m = ex_m /\ lenN (to_packet ex_m) = 76 /\ decode (to_packet ex_m) = Ok ex_m.
Proof. vm_compute. split; [reflexivity|split; reflexivity]. Qed.

(* the two header flag words the encoder writes are regenerated from dns.cpp (SrcFacts.v); they are the RFC 6762 values:
   QR + AA for a response, TC for a truncated message, every other bit - opcode, RD, RA, Z, AD, CD, RCODE - zero on
   transmission (section 18).  MessageAt reads the flags as a decoder must (liberally); this pins what is written. *)
Theorem C01_header_flag_words : flags_response_word = 33792 /\ flags_truncated_word = 512.
Proof. split; reflexivity. Qed.
Print Assumptions C01_header_flag_words.
