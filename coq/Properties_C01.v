(* Properties_C01.v — the encoder emits conformant packets that decode back to the same message (name level proved). *)
From QV Require Import Base Fields SrcFacts Msg Decoder Encoder WireSpec DecoderSafety DecoderComplete EncoderProofs.
Local Open Scope N_scope.

(* PARTIAL with respect to the full statement "wf_msg m -> Encodes (to_packet m) m /\ from_packet (to_packet m) = Ok m".
   Proved: the part of the encoder that carries the compression logic.  For every buffer P written so far, every
   compression map whose entries are good in P (each maps a suffix to an offset < 16 KiB at which that suffix is
   conformantly encoded - the invariant MapOK, which writeName re-establishes: last conjunct), and every well-formed
   name (1.. labels of 1..63 bytes without '.'), writeName
     - advances the offset by exactly the number of bytes it appends,
     - appends a conformant encoding of the name (relation NameAt: labels, then a zero byte or a pointer to an EARLIER
       offset where the remaining labels are encoded; the map entry of a suffix is inserted before its bytes are
       written, which the proof shows harmless because a pending entry is strictly longer than anything looked up),
     - which the library's own parseName reads back as exactly that name, ending where the encoder ended,
   as long as the name ends below 16 KiB (the bound of the property's quantifier: offsets >= 0x4000 do not fit a pointer).
   The record and message layers (fixed-width fields, rdlength bookkeeping with the side buffer, counts, flags) are tied
   on every run by: byte-for-byte comparison of the model's to_packet with the real toPacket, an independent strict
   RFC 1035/6762 decoder applied to the real bytes, and the real fromPacket applied to them. *)
Theorem C01_name_roundtrip_partial P m ls bs off' m' :
  ls <> [] -> Forall wf_label ls -> MapOK P m ->
  lenN P + lenN (join ls) + 2 <= 16384 ->
  write_name (Some (join ls ++ [DOT])) (lenN P) m = (bs, off', m') ->
  off' = lenN (P ++ bs) /\
  NameAt (mem_of (P ++ bs)) (lenN (P ++ bs)) (lenN P) (lenN P) ls off' /\
  decode_name (P ++ bs) (lenN P) = Ok (Some (join ls ++ [DOT]), off') /\
  MapOK (P ++ bs) m'.
Proof. exact (write_name_roundtrip P m ls bs off' m'). Qed.
Print Assumptions C01_name_roundtrip_partial.

(* the empty map is good, so the invariant can be started at the first name of a packet *)
Theorem C01_empty_map_ok P : MapOK P [].
Proof. intros k o []. Qed.
Print Assumptions C01_empty_map_ok.

(* non-vacuity: two names sharing a suffix; the second is written as one label and a pointer, and decodes back *)
Example C01_example :
  let hdr := repeat 0 12 in
  let '(b1, o1, m1) := write_name (Some [97; 46; 98; 46]) 12 [] in
  let '(b2, o2, m2) := write_name (Some [99; 46; 98; 46]) o1 m1 in
  b2 = [1; 99; 192; 14] /\ decode_name (hdr ++ b1 ++ b2) o1 = Ok (Some [99; 46; 98; 46], o2).
Proof. vm_compute. auto. Qed.
