(* NetMany.v — C04 with any number of providers: one provider of type T, any number of further providers (each its own
   hostname + provider + prober composite, of a type unrelated to T; the further providers may share types among
   themselves), any number of browsers of type T.  Whatever the interleaving of all the providers' histories, every
   browser reports exactly what the provider of type T serves. *)
From QV Require Import Base Fields SrcFacts Msg SrcDecisions Cache CacheSpec CacheProofs Sim SimProofs Prober ProberProofs Hostname HostnameProofs HostnameInv Resolver Provider ProviderSpec ProviderProofs ProviderListener ProviderConverge ProviderGoodbye Browser BrowserProofs BrowserInv NetProofs NetHop NetPair NetLag NetTwo.
Local Open Scope Z_scope.

(* a further provider: its service type, its composite state, what it has put on the link so far (its listener view) *)
Record other := mkOther { o_type : bytes; o_comp : comp; o_link : list record }.

Definition fresh_comp (l : bytes) (i : list iface) : comp := mkComp (fst (on_rebroadcast (mkHost l i [] [] false 1))) no_prov None.
Definition fresh_other (o : other) : Prop := exists l i, o_comp o = fresh_comp l i /\ o_link o = [].

Inductive netN (T : bytes) : comp -> list record -> list other -> list world -> Prop :=
| nN_init l i os n : Forall fresh_other os ->
    netN T (fresh_comp l i) [] os (repeat (mkWorld [empty_cache] [mkBrowser (Some T) 0 [] [] []] 0) n)
| nN_main c L os ws now nowb ev : netN T c L os ws -> one_provider c ev -> ev_type_ok T ev ->
    netN T (fst (comp_handle now c ev)) (listen L (snd (comp_handle now c ev))) os
         (map (fun w => fst (bhear nowb w (snd (comp_handle now c ev)))) ws)
| nN_other c L pre o post ws now nowb ev : netN T c L (pre ++ o :: post) ws -> one_provider (o_comp o) ev -> ev_type_ok (o_type o) ev ->
    netN T c L (pre ++ mkOther (o_type o) (fst (comp_handle now (o_comp o) ev)) (listen (o_link o) (snd (comp_handle now (o_comp o) ev))) :: post)
         (map (fun w => fst (bhear nowb w (snd (comp_handle now (o_comp o) ev)))) ws).

Definition other_inv (o : other) : Prop := CInv (o_comp o) (o_link o) /\ TInv (o_type o) (o_comp o).


Theorem browsers_follow_their_provider_among_many T c L os ws :
  T <> [] -> bytes_eqb T browse_type = false -> Forall (fun o => Unrelated T (o_type o)) os ->
  netN T c L os ws -> Forall (reports_served T c) ws.
Proof.
  intros HT Hbr Un R.
  assert (Inv : CInv c L /\ TInv T c /\ Forall other_inv os /\ Forall (fun w => BI T L w /\ type_is T w) ws).
  { revert Un. induction R as [l i os n Fr|c L os ws now nowb ev R IH One Ty|c L pre o post ws now nowb ev R IH One Ty]; intro Un.
    - split; [apply (lreach_inv _ _ (lr_init l i))|]. split; [constructor; cbn [cp_prov no_prov pv_exists]; discriminate|].
      split.
      + apply Forall_forall. intros o Ho. destruct (proj1 (Forall_forall _ _) Fr o Ho) as (l' & i' & Ec & El).
        unfold other_inv. rewrite Ec, El. split; [apply (lreach_inv _ _ (lr_init l' i'))|].
        constructor; cbn [cp_prov no_prov pv_exists fresh_comp]; discriminate.
      + apply Forall_forall. intros w Hw. apply repeat_spec in Hw. subst w. split.
        * apply bi_none; try reflexivity. left. reflexivity.
        * eexists. split; reflexivity.
    - destruct (IH Un) as (I1 & J1 & IO & IB).
      split; [apply comp_step_inv; assumption|]. split; [apply (comp_step_T T now c ev L I1 J1 One Ty)|].
      split; [exact IO|].
      apply Forall_forall. intros w' Hw. apply in_map_iff in Hw as (w & <- & Hw).
      destruct (proj1 (Forall_forall _ _) IB w Hw) as [B Tw]. split.
      + apply (pair_step bhear bhear_app bhear_silent hear_goodbye_effect hear_fresh_effect hear_over_effect T now nowb c ev L w HT Hbr I1 J1 B One Ty).
      + apply bhear_type, Tw.
    - assert (Un0 : Forall (fun o => Unrelated T (o_type o)) (pre ++ o :: post)).
      { apply Forall_app in Un as [U1 U2]. apply Forall_app. split; [exact U1|].
        inversion U2 as [|x xs Ux Uxs]; subst. constructor; [exact Ux|exact Uxs]. }
      destruct (IH Un0) as (I1 & J1 & IO & IB).
      apply Forall_app in IO as [IO1 IO2]. inversion IO2 as [|x xs [I2 J2] IOp]; subst.
      apply Forall_app in Un0 as [_ U2]. inversion U2 as [|x xs Uo _]; subst.
      split; [exact I1|]. split; [exact J1|]. split.
      + apply Forall_app. split; [exact IO1|]. constructor; [|exact IOp]. unfold other_inv. cbn [o_comp o_link o_type].
        split; [apply comp_step_inv; assumption|apply (comp_step_T (o_type o) now (o_comp o) ev (o_link o) I2 J2 One Ty)].
      + apply Forall_forall. intros w' Hw. apply in_map_iff in Hw as (w & <- & Hw).
        destruct (proj1 (Forall_forall _ _) IB w Hw) as [B Tw].
        assert (E : bhear nowb w (snd (comp_handle now (o_comp o) ev)) = (w, [])).
        { destruct Tw as (b0 & Hb0 & Ht0).
          inversion B as [c0 b Ce Hty Hc Hsv|p s t nm c0 b G Hh Hty Hc Hsv]; subst; cbn [w_browsers nth_error] in Hb0; injection Hb0 as <-;
            apply (script_ignored T (o_type o) nowb Uo Hbr (o_link o) _ (step_script (o_type o) now (o_comp o) ev (o_link o) I2 J2 One Ty) c0 b Ht0). }
        rewrite E. cbn [fst]. split; assumption. }
  destruct Inv as (I1 & _ & _ & IB). apply Forall_forall. intros w Hw.
  apply (BI_reports_served T c L w I1 (proj1 (proj1 (Forall_forall _ _) IB w Hw))).
Qed.

(* non-vacuity: the provider of "_t." and a second provider of "_b." (a third one, also of "_b.", stays idle) each
   register, create, update and complete their probe, interleaved step by step; two browsers listen.  Both end confirmed. *)
Example many_nonvacuous :
  let T := [95; 116; 46]%N in let T' := [95; 98; 46]%N in
  exists c L o o' ws, netN T c L [o; o'] ws /\ pv_confirmed (cp_prov c) = true /\ pv_confirmed (cp_prov (o_comp o)) = true
    /\ o_type o = T' /\ o_type o' = T' /\ length L = 3%nat /\ length (o_link o) = 3%nat /\ length ws = 2%nat
    /\ Forall (fun o => Unrelated T (o_type o)) [o; o'].
Proof.
  cbv zeta. eexists. eexists. eexists. eexists. eexists. split.
  - eapply (nN_other _ _ _ [] _ [_] _ 4000 4000 (EvTimer T_PROBER)).
    + eapply (nN_main _ _ _ _ _ 4000 4000 (EvTimer T_PROBER)).
      * eapply (nN_other _ _ _ [] _ [_] _ 2000 2000 (EvApi (PUpdate (mkService (Some [95; 98; 46]%N) (Some [98]%N) None 81 [])))).
        -- eapply (nN_main _ _ _ _ _ 2000 2000 (EvApi (PUpdate (mkService (Some [95; 116; 46]%N) (Some [97]%N) None 80 [])))).
           ++ eapply (nN_other _ _ _ [] _ [_] _ 2000 2000 (EvApi PNewProv)).
              ** eapply (nN_main _ _ _ _ _ 2000 2000 (EvApi PNewProv)).
                 --- eapply (nN_other _ _ _ [] _ [_] _ 2000 2000 (EvTimer T_REG)).
                     +++ eapply (nN_main _ _ _ _ _ 2000 2000 (EvTimer T_REG)).
                         *** apply (nN_init _ [118; 109]%N [] [mkOther [95; 98; 46]%N (fresh_comp [119]%N []) []; mkOther [95; 98; 46]%N (fresh_comp [120]%N []) []] 2).
                             repeat constructor; eexists; eexists; split; reflexivity.
                         *** exact I.
                         *** exact I.
                     +++ exact I.
                     +++ exact I.
                 --- vm_compute. reflexivity.
                 --- exact I.
              ** vm_compute. reflexivity.
              ** exact I.
           ++ exact I.
           ++ reflexivity.
        -- exact I.
        -- reflexivity.
      * exact I.
      * exact I.
    + exact I.
    + exact I.
  - repeat (split; [vm_compute; reflexivity|]). repeat constructor; apply unrelated_when; vm_compute; reflexivity.
Qed.

(* ---- the symmetric statement: a family of providers (indexed by nat; those that never act stay idle) and any number of
   browsers of ANY of their types.  Each browser whose type is that of provider i, and unrelated to the type of every other
   provider, reports after every step exactly what provider i serves. ---- *)
Record bnode := mkBnode { bn_type : bytes; bn_world : world }.
Definition fresh_bnode (b : bnode) : Prop := bn_world b = mkWorld [empty_cache] [mkBrowser (Some (bn_type b)) 0 [] [] []] 0.
Definition upd (P : nat -> other) (k : nat) (o : other) : nat -> other := fun j => if Nat.eqb j k then o else P j.
Definition bn_hear (nowb : Z) (es : list eff) (b : bnode) : bnode := mkBnode (bn_type b) (fst (bhear nowb (bn_world b) es)).

Inductive netS : (nat -> other) -> list bnode -> Prop :=
| nS_init P bs : (forall j, fresh_other (P j)) -> Forall fresh_bnode bs -> netS P bs
| nS_act P bs k now nowb ev : netS P bs -> one_provider (o_comp (P k)) ev -> ev_type_ok (o_type (P k)) ev ->
    netS (upd P k (mkOther (o_type (P k)) (fst (comp_handle now (o_comp (P k)) ev)) (listen (o_link (P k)) (snd (comp_handle now (o_comp (P k)) ev)))))
         (map (bn_hear nowb (snd (comp_handle now (o_comp (P k)) ev))) bs).

Definition follows (P : nat -> other) (i : nat) (b : bnode) : Prop :=
  bn_type b = o_type (P i) /\ (forall j, j <> i -> Unrelated (bn_type b) (o_type (P j))) /\
  bn_type b <> [] /\ bytes_eqb (bn_type b) browse_type = false.

Lemma upd_type P k c L j : o_type (upd P k (mkOther (o_type (P k)) c L) j) = o_type (P j).
Proof. unfold upd. destruct (Nat.eqb j k) eqn:E; [apply Nat.eqb_eq in E; subst j; reflexivity|reflexivity]. Qed.

Lemma follows_upd P k c L i b : follows (upd P k (mkOther (o_type (P k)) c L)) i b -> follows P i b.
Proof.
  intros (A & B & C & D). split; [rewrite A; apply upd_type|]. split; [|split; assumption].
  intros j Hj. rewrite <- (upd_type P k c L j). apply B, Hj.
Qed.

Lemma other_script_ignored T T' nowb L' es L w : Unrelated T T' -> bytes_eqb T browse_type = false ->
  Script T' L' es -> BI T L w -> type_is T w -> bhear nowb w es = (w, []).
Proof.
  intros Un Hbr S B (b0 & Hb0 & Ht0).
  inversion B as [c0 b1 Ce Hty Hc Hsv|p s t nm c0 b1 G Hh Hty Hc Hsv]; subst; cbn [w_browsers nth_error] in Hb0; injection Hb0 as <-;
    apply (script_ignored T T' nowb Un Hbr L' es S c0 b1 Ht0).
Qed.

Theorem every_browser_follows_its_provider P bs :
  netS P bs -> forall i b, In b bs -> follows P i b -> reports_served (bn_type b) (o_comp (P i)) (bn_world b).
Proof.
  intro R.
  assert (Inv : (forall j, other_inv (P j)) /\
                forall i b, In b bs -> follows P i b -> BI (bn_type b) (o_link (P i)) (bn_world b) /\ type_is (bn_type b) (bn_world b)).
  { induction R as [P bs Fr Fb|P bs k now nowb ev R [IO IB] One Ty].
    - split.
      + intro j. destruct (Fr j) as (l' & i' & Ec & El). unfold other_inv. rewrite Ec, El.
        split; [apply (lreach_inv _ _ (lr_init l' i'))|]. constructor; cbn [cp_prov no_prov pv_exists fresh_comp]; discriminate.
      + intros i b Hb _. destruct (Fr i) as (l' & i' & _ & El). rewrite El.
        rewrite (proj1 (Forall_forall _ _) Fb b Hb). split.
        * apply bi_none; try reflexivity. left. reflexivity.
        * eexists. split; reflexivity.
    - destruct (IO k) as [Ik Jk]. split.
      + intro j. unfold upd. destruct (Nat.eqb j k); [|apply IO]. unfold other_inv. cbn [o_comp o_link o_type].
        split; [apply comp_step_inv; assumption|apply (comp_step_T (o_type (P k)) now (o_comp (P k)) ev (o_link (P k)) Ik Jk One Ty)].
      + intros i b' Hb' F'. apply in_map_iff in Hb' as (b & <- & Hb). unfold bn_hear in *. cbn [bn_type bn_world] in *.
        assert (F : follows P i b).
        { eapply (follows_upd P k _ _ i (mkBnode (bn_type b) (bn_world b))). exact F'. }
        destruct (IB i b Hb F) as [B Tw]. destruct F as (Et & Un & HT & Hbr).
        unfold upd. destruct (Nat.eqb i k) eqn:E.
        * apply Nat.eqb_eq in E. subst i. cbn [o_link]. rewrite Et in *. split.
          -- apply (pair_step bhear bhear_app bhear_silent hear_goodbye_effect hear_fresh_effect hear_over_effect (o_type (P k)) now nowb (o_comp (P k)) ev (o_link (P k)) (bn_world b) HT Hbr Ik Jk B One Ty).
          -- apply bhear_type, Tw.
        * apply Nat.eqb_neq in E.
          assert (Ek : bhear nowb (bn_world b) (snd (comp_handle now (o_comp (P k)) ev)) = (bn_world b, [])).
          { assert (Uk : Unrelated (bn_type b) (o_type (P k))) by (apply Un; intro; apply E; congruence).
            apply (other_script_ignored (bn_type b) (o_type (P k)) nowb (o_link (P k)) _ (o_link (P i)) (bn_world b) Uk Hbr
                     (step_script (o_type (P k)) now (o_comp (P k)) ev (o_link (P k)) Ik Jk One Ty) B Tw). }
          rewrite Ek. cbn [fst]. split; assumption. }
  destruct Inv as [IO IB]. intros i b Hb F. destruct (IO i) as [Ii _].
  apply (BI_reports_served (bn_type b) (o_comp (P i)) (o_link (P i)) (bn_world b) Ii (proj1 (IB i b Hb F))).
Qed.

(* non-vacuity: provider 0 serves "_t.", provider 1 serves "_b.", all further ones (idle) are of type "_c."; they register,
   create, update and complete their probes in alternation; one browser of "_t." and one of "_b." listen to everything.
   Both providers end confirmed and each browser meets [follows] for its provider. *)
Definition Fam0 : nat -> other := fun j =>
  match j with
  | O => mkOther [95; 116; 46]%N (fresh_comp [118; 109]%N []) []
  | S O => mkOther [95; 98; 46]%N (fresh_comp [119]%N []) []
  | _ => mkOther [95; 99; 46]%N (fresh_comp [120]%N []) []
  end.
Definition B0 : list bnode :=
  [mkBnode [95; 116; 46]%N (mkWorld [empty_cache] [mkBrowser (Some [95; 116; 46]%N) 0 [] [] []] 0);
   mkBnode [95; 98; 46]%N (mkWorld [empty_cache] [mkBrowser (Some [95; 98; 46]%N) 0 [] [] []] 0)].

Example symmetric_nonvacuous :
  exists P bs, netS P bs /\ pv_confirmed (cp_prov (o_comp (P 0%nat))) = true /\ h_reg (cp_host (o_comp (P 1%nat))) = true
    /\ length (o_link (P 0%nat)) = 3%nat /\ map bn_type bs = map bn_type B0 /\ forall j, o_type (P j) = o_type (Fam0 j).
Proof.
  (* five steps only: the state terms nest (each step mentions the previous family five times), so the cost of checking
     this example grows about sixfold per step *)
  eexists. eexists. split.
  - eapply (nS_act _ _ 0 4000 4000 (EvTimer T_PROBER)).
    + eapply (nS_act _ _ 0 2000 2000 (EvApi (PUpdate (mkService (Some [95; 116; 46]%N) (Some [97]%N) None 80 [])))).
      * eapply (nS_act _ _ 0 2000 2000 (EvApi PNewProv)).
        -- eapply (nS_act _ _ 1 2000 2000 (EvTimer T_REG)).
           ++ eapply (nS_act _ _ 0 2000 2000 (EvTimer T_REG)).
              ** apply (nS_init Fam0 B0).
                 --- intros [|[|j]]; eexists; eexists; split; reflexivity.
                 --- repeat constructor.
              ** exact I.
              ** exact I.
           ++ exact I.
           ++ exact I.
        -- vm_compute. reflexivity.
        -- exact I.
      * exact I.
      * reflexivity.
    + exact I.
    + exact I.
  - split; [vm_compute; reflexivity|]. split; [vm_compute; reflexivity|]. split; [vm_compute; reflexivity|].
    split; [vm_compute; reflexivity|].
    intros [|[|j]]; reflexivity.
Qed.

(* ... and with those types each of the two browsers meets [follows] for its provider ([follows] only reads the types) *)
Example symmetric_follows P b0 b1 : (forall j, o_type (P j) = o_type (Fam0 j)) -> map bn_type [b0; b1] = map bn_type B0 ->
  follows P 0 b0 /\ follows P 1 b1.
Proof.
  intros HP E. cbn [map B0 bn_type] in E. injection E as E0 E1. unfold follows. rewrite E0, E1, !HP. split.
  - split; [reflexivity|]. split; [|split; [discriminate|reflexivity]].
    intros [|[|j]] Hj; rewrite HP; [congruence| |]; apply unrelated_when; reflexivity.
  - split; [reflexivity|]. split; [|split; [discriminate|reflexivity]].
    intros [|[|j]] Hj; rewrite HP; [|congruence|]; apply unrelated_when; reflexivity.
Qed.
