(* ResolverFuel.v — the fuel of the virtual-time kernel never runs out in the resolver world when it covers the triggers
   the script can create: each record stored adds at most [W] = 1 + |cache_multipliers| triggers, each firing of the
   cache's timer consumes one (or makes the next deadline attained), the resolver's zero-delay timer fires once.
   With it, the refinement theorem of ResolverAccept holds under purely syntactic hypotheses on the script. *)
From QV Require Import Base Fields SrcFacts Msg SrcDecisions Cache CacheSpec CacheProofs CacheAccept Sim Prober Resolver ResolverProofs ResolverInv ResolverAccept.
From Coq Require Import ZifyBool ZifyNat ZifyN Sorted.
Local Open Scope Z_scope.

Definition W : nat := S (length cache_multipliers).

Lemma total_app a b : total (a ++ b) = (total a + total b)%nat.
Proof. induction a as [|e a IH]; cbn [app total]; [reflexivity|]. rewrite IH. lia. Qed.

Lemma scan_total r : forall es kept, (total (fst (scan r kept es)) <= total kept + total es)%nat.
Proof.
  induction es as [|e es IH]; intros kept; cbn [scan fst total]; [lia|].
  destruct (cache_match r (e_rec e)).
  - specialize (IH kept). destruct (scan r kept es) as [k sg]. cbn [fst] in *. lia.
  - specialize (IH (kept ++ [e])). rewrite total_app in IH. cbn [total] in IH. lia.
Qed.

Lemma triggers_length now j ttl : length (triggers now j ttl) = W.
Proof. unfold triggers, W. rewrite app_length, map_length. cbn [length]. lia. Qed.

Lemma add_total now j r c : (total (c_entries (fst (add now j r c))) <= total (c_entries c) + W)%nat.
Proof.
  unfold add. pose proof (scan_total r (c_entries c) []) as H. destruct (scan r [] (c_entries c)) as [kept sg]. cbn [fst total] in H.
  destruct (r_ttl r =? 0)%N; [cbn [fst c_entries]; lia|].
  assert (Ht : (total (kept ++ [mkEntry r (triggers now j (r_ttl r))]) <= total (c_entries c) + W)%nat).
  { rewrite total_app. cbn [total e_trig]. rewrite triggers_length. lia. }
  destruct (c_next c); destruct (cache_rearm _ _ _ _); cbn [fst c_entries]; exact Ht.
Qed.

Definition ctotal (s : rsim) : nat := total (c_entries (rs_cache (s_st s))).

Lemma add_eff_total now j r c : (total (c_entries (fst (fst (cache_add_eff now j r c)))) <= total (c_entries c) + W)%nat.
Proof. unfold cache_add_eff. pose proof (add_total now j r c) as H. destruct (add now j r c) as [c' sg]. exact H. Qed.

Lemma records_total now : forall rs (s : resst),
  (total (c_entries (rs_cache (fst (res_records now rs s)))) <= total (c_entries (rs_cache s)) + W * length rs)%nat.
Proof.
  induction rs as [|r rs IH]; intros s; cbn [res_records fst length]; [lia|].
  destruct (resolver_filter r (rs_name s)).
  - pose proof (add_eff_total now (rs_jitter s) r (rs_cache s)) as H.
    destruct (cache_add_eff now (rs_jitter s) r (rs_cache s)) as [[c' sg] ce]. cbn [fst] in H.
    match goal with |- context [res_records now rs ?s1] => specialize (IH s1) end.
    destruct (res_records now rs _) as [s2 e2]. cbn [fst rs_cache] in *. lia.
  - specialize (IH s). lia.
Qed.

(* what an operation can add to the cache *)
Definition weight (o : aop rapi) : nat :=
  match o with
  | AApi (RCadd _ _) => 1
  | ADeliver m => length (m_records m)
  | _ => 0
  end.
Definition weights (ops : list (aop rapi)) : nat := fold_right (fun o n => (weight o + n)%nat) O ops.

Lemma apply_effs_no_fuel now : forall es tm sq, ~ In OOutOfFuel (snd (apply_effs now tm sq es)).
Proof.
  induction es as [|e es IH]; intros tm sq; cbn [apply_effs]; [intros []|].
  destruct e; try apply IH;
    (specialize (IH tm sq); destruct (apply_effs now tm sq es) as [[tm' sq'] o]; cbn [snd] in *; intros [H|H]; [discriminate|auto]).
Qed.

Lemma instant_total fuel (s : rsim) o :
  match o with AAdv _ | AAdvB _ | ALate _ => False | _ => True end ->
  ~ In OOutOfFuel (snd (rstep fuel s o)) /\ (ctotal (fst (rstep fuel s o)) <= ctotal s + W * weight o)%nat.
Proof.
  intro Hk. unfold ctotal.
  assert (D : forall ev, ~ In OOutOfFuel (snd (rdispatch s ev))).
  { intro ev. unfold rdispatch, dispatch. destruct (res_handle (s_now s) (s_st s) ev) as [st' es].
    pose proof (apply_effs_no_fuel (s_now s) es (s_tm s) (s_seq s)) as H. destruct (apply_effs _ _ _ es) as [[tm' sq'] o']. exact H. }
  destruct o as [m|t|t|t|a]; try destruct Hk; unfold rstep; cbn [step weight]; (split; [apply D|]).
  - unfold dispatch. cbn [res_handle].
    destruct (rs_active (s_st s) && m_response m).
    + pose proof (records_total (s_now s) (m_records m) (s_st s)) as H.
      destruct (res_records (s_now s) (m_records m) (s_st s)) as [st' es]. destruct (apply_effs _ _ _ es) as [[tm' sq'] o']. cbn [fst s_st] in *. lia.
    + cbn [apply_effs fst s_st]. lia.
  - unfold dispatch. destruct a as [r j|nm|j|nm ty|]; cbn [res_handle].
    + pose proof (add_eff_total (s_now s) j r (rs_cache (s_st s))) as H.
      destruct (cache_add_eff (s_now s) j r (rs_cache (s_st s))) as [[c' sg] ce]. destruct (apply_effs _ _ _ ce) as [[tm' sq'] o']. cbn [fst s_st rs_cache] in *. lia.
    + destruct (apply_effs _ _ _ _) as [[tm' sq'] o']. cbn [fst s_st rs_cache]. lia.
    + cbn [apply_effs fst s_st rs_cache]. lia.
    + destruct (apply_effs _ _ _ _) as [[tm' sq'] o']. cbn [fst s_st rs_cache]. lia.
    + cbn [apply_effs fst s_st rs_cache]. lia.
Qed.

(* ------------------------------------------------------------------ a whole advance *)
Definition rfuel_ok (c : cache) (orr : option (Z * N)) (fuel : nat) : Prop :=
  let k := match orr with Some _ => 1%nat | None => 0%nat end in
  (total (c_entries c) + 2 + k <= fuel)%nat \/ (attained c /\ (total (c_entries c) + 1 + k <= fuel)%nat).

Lemma ktimeout_total now0 dc c : GInv now0 c -> c_next c = Some dc ->
  let c' := fst (fst (cache_timeout_eff dc c)) in
  attained c' /\ (total (c_entries c') <= total (c_entries c))%nat /\ (attained c -> (total (c_entries c') < total (c_entries c))%nat).
Proof.
  intros G Hn. cbv zeta. destruct (firing dc now0 c G Hn) as (F1 & _ & _ & F4). unfold cache_timeout_eff.
  destruct (on_timeout dc (mkCache (c_entries c) (c_next c) None)) as [c1 sg]. cbn [fst] in *.
  split; [exact F4|]. rewrite F1. split; [apply total_trim|].
  intro Ha. unfold attained in Ha. rewrite Hn in Ha. apply total_trim_strict, Ha.
Qed.

Lemma sigs_no_fuel now rs : ~ In OOutOfFuel (sigs_at now rs).
Proof. unfold sigs_at. induction rs as [|r l IH]; [intros []|]. cbn [map]. intros [H|H]; [discriminate|auto]. Qed.

Lemma fire_no_exhaustion : forall fuel t strict (s : rsim) oc orr L,
  CI (s_now s) (s_tm s) (s_seq s) (rs_cache (s_st s)) oc orr L ->
  s_now s <= t -> (forall dr sr, orr = Some (dr, sr) -> dr = s_now s /\ rs_name (s_st s) <> None) ->
  rfuel_ok (rs_cache (s_st s)) orr fuel ->
  ~ In OOutOfFuel (snd (rfire_due fuel t strict false s)) /\
  (ctotal (fst (rfire_due fuel t strict false s)) <= ctotal s)%nat.
Proof.
  induction fuel as [|f IH]; intros t strict s oc orr L C Hnt HR HF.
  { exfalso. unfold rfuel_ok in HF. cbv zeta in HF. destruct HF as [HF|[_ HF]]; lia. }
  rewrite rfire_unfold.
  set (t' := if strict then t - 1 else t).
  assert (Ht' : t' <= t) by (unfold t'; destruct strict; lia).
  assert (Hdue : forall x, tdue t strict x = (snd (fst x) <=? t')) by (intro x; unfold tdue, t'; destruct strict; lia).
  pose proof C as [G TM SQ CT OR SH].
  destruct (tm_next (s_tm s) t strict None) as [[[tid d] sqx]|] eqn:TN; [|cbn [fst snd]; split; [intros []|lia]].
  apply tm_next_some in TN as (Hin & Hd & Hmin). rewrite Hdue in Hd. cbn [fst snd] in Hd.
  destruct TM as (TA & TB & TC). destruct (TA tid d sqx Hin) as [[-> Eoc]|[-> Eor]].
  - (* the cache's timer *)
    subst oc. cbn [option_map fst] in CT.
    assert (Hn : c_next (rs_cache (s_st s)) = Some d) by (rewrite <- (g_timer _ _ G); exact CT).
    pose proof (g_next _ _ G) as GN. rewrite Hn in GN. destruct GN as [Hnd Hlow].
    replace (Z.max (s_now s) d) with d in * by lia.
    assert (HR' : forall dr sr, orr = Some (dr, sr) -> dr <= d) by (intros dr sr E; destruct (HR dr sr E) as [-> _]; lia).
    destruct (ktimeout (s_now s) d sqx (s_tm s) (s_seq s) (rs_cache (s_st s)) orr L C HR') as (O1 & _ & oc1 & C1 & Hlater).
    destruct (ktimeout_total (s_now s) d (rs_cache (s_st s)) G Hn) as (A1 & A2 & A3).
    unfold rdispatch, dispatch in *. cbn [s_now s_st s_tm s_seq res_handle] in *. rewrite N.eqb_refl in *.
    destruct (cache_timeout_eff d (rs_cache (s_st s))) as [[c1 sg] ce]. cbn [fst snd] in *.
    destruct (apply_effs d (tm_remove T_CACHE (s_tm s)) (s_seq s) ce) as [[tm1 sq1] o1]. cbn [fst snd] in *. subst o1.
    set (s2 := mkSim d tm1 sq1 (mkRes c1 (rs_jitter (s_st s)) (rs_name (s_st s)) (rs_active (s_st s)) (rs_addrs (s_st s)))) in *.
    cbn [app].
    assert (HR2 : forall dr sr, orr = Some (dr, sr) -> dr = s_now s2 /\ rs_name (s_st s2) <> None).
    { intros dr sr E. destruct (HR dr sr E) as [E1 E2]. split; [|exact E2]. cbn [s2 s_now].
      specialize (HR' dr sr E).
      specialize (Hmin (T_RES, dr, sr) (TC dr sr E) ltac:(rewrite Hdue; cbn [fst snd]; lia)). unfold tle in Hmin. cbn [fst snd] in Hmin. lia. }
    assert (HF2 : rfuel_ok (rs_cache (s_st s2)) orr f).
    { cbn [s2 s_st rs_cache]. unfold rfuel_ok in *. cbv zeta in *. right. split; [exact A1|].
      destruct HF as [HF|[Ha HF]]; [lia|]. specialize (A3 Ha). lia. }
    destruct (IH t strict s2 oc1 orr _ C1 ltac:(cbn; lia) HR2 HF2) as (I1 & I2).
    split; [exact I1|]. unfold ctotal in *. cbn [s2 s_st rs_cache] in I2. lia.
  - (* the resolver's zero-delay timer *)
    subst orr. destruct (HR d sqx eq_refl) as [Ed Hname]. subst d.
    replace (Z.max (s_now s) (s_now s)) with (s_now s) in * by lia.
    unfold rdispatch, dispatch in *. cbn [s_now s_st s_tm s_seq res_handle] in *.
    change (T_RES =? T_CACHE)%N with false in *. cbn iota in *.
    set (sg := map (fun r => ESig OBJ SIG_resolved (PAddr (r_addr r))) (existing (s_st s))) in *.
    assert (AE : apply_effs (s_now s) (tm_remove T_RES (s_tm s)) (s_seq s) sg =
                 (tm_remove T_RES (s_tm s), s_seq s, sigs_at (s_now s) (existing (s_st s)))).
    { unfold sg. apply apply_effs_sigs. }
    rewrite AE in *. cbn [fst snd] in *.
    set (s2 := mkSim (s_now s) (tm_remove T_RES (s_tm s)) (s_seq s) (s_st s)) in *.
    assert (C2 : CI (s_now s2) (s_tm s2) (s_seq s2) (rs_cache (s_st s2)) oc None L).
    { constructor; cbn [s2 s_now s_tm s_seq s_st]; auto.
      - apply (tm_ok_remove_res _ oc _ (conj TA (conj TB TC))).
      - intros i d s0 H. apply In_tm_remove_iff in H as [H _]. apply (SQ i d s0 H).
      - intros dc sc dr sr _ H. discriminate. }
    assert (HF2 : rfuel_ok (rs_cache (s_st s2)) None f).
    { cbn [s2 s_st]. unfold rfuel_ok in *. cbv zeta in *. destruct HF as [HF|[Ha HF]]; [left; lia|right; split; [exact Ha|lia]]. }
    destruct (IH t strict s2 oc None L C2 ltac:(cbn; lia) ltac:(intros; discriminate) HF2) as (I1 & I2).
    split.
    + intro H. apply in_app_iff in H as [H|H]; [exact (sigs_no_fuel _ _ H)|exact (I1 H)].
    + unfold ctotal in *. cbn [s2 s_st] in I2. exact I2.
Qed.

(* ------------------------------------------------------------------ every operation, every run *)
Lemma rstep_fuel fuel (s : rsim) q o : RK s q -> rop_ok o -> (ctotal s + 3 <= fuel)%nat ->
  ~ In OOutOfFuel (snd (rstep fuel s o)) /\ (ctotal (fst (rstep fuel s o)) <= ctotal s + W * weight o)%nat.
Proof.
  intros K Hok HF.
  assert (Adv : forall t strict, s_now s <= t ->
            ~ In OOutOfFuel (snd (rfire_due fuel t strict false s)) /\ (ctotal (fst (rfire_due fuel t strict false s)) <= ctotal s)%nat).
  { intros t strict Hnt. destruct K as (oc & orr & R & NN). destruct R as [C RES NM AC AD NW JT].
    apply (fire_no_exhaustion fuel t strict s oc orr (rm_ref q) C Hnt).
    - intros dr sr E. rewrite E in RES. destruct RES as [_ ->]. split; [reflexivity|]. apply NN. rewrite E. discriminate.
    - unfold rfuel_ok. cbv zeta. left. unfold ctotal in HF. destruct orr; lia. }
  destruct o as [m|t|t|t|a]; try (apply instant_total; exact I).
  - unfold rstep. cbn [step weight]. destruct (t <? s_now s) eqn:E; [cbn [fst snd]; split; [intros []|lia]|].
    fold rfire_due. destruct (Adv t false ltac:(lia)) as [A1 A2]. destruct (rfire_due fuel t false false s) as [s1 o1].
    cbn [fst snd] in *. split; [exact A1|]. unfold ctotal in *. cbn [set_now s_st]. lia.
  - unfold rstep. cbn [step weight]. destruct (t <? s_now s) eqn:E; [cbn [fst snd]; split; [intros []|lia]|].
    fold rfire_due. destruct (Adv t true ltac:(lia)) as [A1 A2]. destruct (rfire_due fuel t true false s) as [s1 o1].
    cbn [fst snd] in *. split; [exact A1|]. unfold ctotal in *. cbn [set_now s_st]. lia.
  - destruct Hok.
Qed.

Theorem rrun_no_exhaustion fuel : forall ops (s : rsim) q, RK s q -> Forall rop_ok ops ->
  (ctotal s + W * weights ops + 3 <= fuel)%nat ->
  no_fuel_exhaustion (run_g resst rapi res_handle (fun _ => []) fuel s ops).
Proof.
  induction ops as [|o ops IH]; intros s q K Hok HF; [intros []|]. inversion Hok as [|? ? Ho Hops]; subst.
  cbn [weights fold_right] in HF. fold (weights ops) in HF.
  destruct (rstep_fuel fuel s q o K Ho ltac:(lia)) as [NF T].
  destruct (rstep_accepted fuel s q o K Ho NF) as (q' & _ & K').
  unfold no_fuel_exhaustion. cbn [run_g]. unfold rstep in *.
  destruct (step resst rapi res_handle fuel s o) as [s' out]. cbn [fst snd concat] in *. rewrite app_nil_r.
  intro H. apply in_app_iff in H as [H|H]; [exact (NF H)|].
  apply (IH s' q' K' Hops); [nia|exact H].
Qed.

(* the refinement theorem of C16 with syntactic hypotheses only: the fuel covers what the script can store *)
Theorem res_run_accepted_syntactic fuel ops : Forall rop_ok ops -> (W * weights ops + 3 <= fuel)%nat ->
  mon_resolver ops (res_run fuel ops) = None.
Proof.
  intros Hok HF. apply res_run_accepted; [exact Hok|]. unfold res_run.
  apply (rrun_no_exhaustion fuel ops _ (mkRmon [] [] false false [] 0)); [|exact Hok|change (0 + W * weights ops + 3 <= fuel)%nat; lia].
  exists None, None. split; [|congruence].
  constructor; cbn; auto; try lia. constructor; cbn; auto.
  - exact GInv_empty.
  - repeat split; intros; try discriminate. destruct H.
  - intros i d s [].
  - intros dc sc dr sr H. discriminate.
Qed.
