(* NetPair.v — C04 for the smallest network, over EVERY history of the provider: one provider (hostname + provider +
   prober composite) and one passive browser of its type on a lossless in-order link.  After every handler invocation
   of the provider, the browser - which has heard every multicast response the provider sent, in order - reports exactly
   the service the provider currently serves (and nothing when it serves none), and its cache holds exactly the served
   records.  (No record expires: the statement is about histories shorter than the TTLs; expiry is C05/C15.) *)
From QV Require Import Base Fields SrcFacts Msg SrcDecisions Cache CacheSpec CacheProofs Sim Prober ProberProofs Hostname HostnameProofs HostnameInv Resolver Provider ProviderSpec ProviderProofs ProviderListener ProviderConverge ProviderGoodbye Browser BrowserProofs NetProofs NetHop.
Local Open Scope Z_scope.

(* a browser for the type T, or one that enumerates all types *)
Definition Interested (bt : bstr) (T : bytes) : Prop := bt = Some T \/ bs_eqb bt (Some browse_type) = true.

Definition svc_of (T nm : bytes) (s t : record) : service :=
  mkService (Some T) (Some nm) (r_target s) (r_port s) (fold_left (fun a kv => attrs_insert (fst kv) (snd kv) a) (r_attrs t) []).

(* updateService on exactly the three records of an announcement, with the state it leaves *)
Lemma update_service_three j ptr srv txt (T nm : list N) b :
  announces ptr srv txt T nm -> index_of DOT nm = None -> T <> [] -> Interested (b_type b) T -> bytes_eqb T browse_type = false ->
  let s := svc_of T nm srv txt in let fq := nm ++ DOT :: T in
  update_service j [ptr; srv; txt] (Some fq) b =
  (false,
   mkBrowser (b_type b) (b_cache b) (smap_insert fq s (b_services b)) (set_insert (bs_data (s_hostname s)) (b_hostnames b)) (b_ptr_targets b),
   match smap_find fq (b_services b) with
   | None => [ESig (N.of_nat j) SIG_serviceAdded (PService s)]
   | Some old => if service_eqb old s then [] else [ESig (N.of_nat j) SIG_serviceUpdated (PService s)]
   end).
Proof.
  intros [(P1 & P2 & P3) (S1 & S2) (X1 & X2)] Hnm HT Hty Hbr. cbv zeta. unfold svc_of.
  unfold update_service. rewrite (split_fq_instance nm T Hnm). rewrite not_of_interest_spec. cbn [bs_data].
  assert (G0 : match T with [] => true | _ :: _ => false end = false) by (destruct T; [congruence|reflexivity]).
  rewrite G0. cbn [orb].
  match goal with |- context [if ?c then (false, b, []) else _] => assert (G : c = false) end.
  { destruct Hty as [H|H]; [rewrite H; unfold bs_eqb at 2; cbn [bs_data]; rewrite bytes_eqb_refl; cbn; apply andb_false_r|rewrite H; reflexivity]. }
  rewrite G.
  rewrite !lookup_three.
  rewrite (lm_match T T_PTR ptr P1) by (rewrite P2; reflexivity).
  rewrite (lm_type_mismatch (Some T) T_PTR srv eq_refl) by (rewrite S2; reflexivity).
  rewrite (lm_type_mismatch (Some T) T_PTR txt eq_refl) by (rewrite X2; reflexivity).
  cbn [app].
  rewrite (lm_type_mismatch _ T_SRV ptr eq_refl) by (rewrite P2; reflexivity).
  rewrite (lm_match _ T_SRV srv S1) by (rewrite S2; reflexivity).
  rewrite (lm_type_mismatch _ T_SRV txt eq_refl) by (rewrite X2; reflexivity).
  cbn [app].
  rewrite (lm_type_mismatch _ T_TXT ptr eq_refl) by (rewrite P2; reflexivity).
  rewrite (lm_type_mismatch _ T_TXT srv eq_refl) by (rewrite S2; reflexivity).
  rewrite (lm_match _ T_TXT txt X1) by (rewrite X2; reflexivity).
  cbn [app fold_left]. cbn [bs_data]. reflexivity.
Qed.

Lemma update_service_empty_view j fq b : update_service j [] fq b = (false, b, []).
Proof.
  unfold update_service. destruct (split_fq fq) as [sname stype]. destruct (browser_not_of_interest stype (b_type b)); reflexivity.
Qed.

(* the classification of the three records of an announcement of type T by a browser of type T *)
Lemma classify_three b ptr srv txt T nm :
  announces ptr srv txt T nm -> Interested (b_type b) T -> bytes_eqb T browse_type = false ->
  let u := (true, Some (Some (nm ++ DOT :: T)), @None bstr) in
  classify b ptr = u /\ classify b srv = u /\ classify b txt = u.
Proof.
  intros [(P1 & P2 & P3) (S1 & S2) (X1 & X2)] Hty Hbr. cbv zeta.
  assert (Pb : browser_ptr_browse (is_any b) ptr (b_type b) = false).
  { unfold browser_ptr_browse. rewrite P1. unfold bs_eqb. cbn [bs_data]. rewrite Hbr. apply andb_false_r. }
  assert (Pt : browser_ptr_type (is_any b) ptr (b_type b) = true).
  { unfold browser_ptr_type. destruct Hty as [H|H].
    - rewrite H, P1. unfold bs_eqb. cbn [bs_data]. rewrite bytes_eqb_refl. apply orb_true_r.
    - unfold is_any, browser_any. rewrite H. reflexivity. }
  assert (St : forall r, r_name r = Some (nm ++ DOT :: T) -> browser_srvtxt (is_any b) r (b_type b) = true).
  { intros r Hr. unfold browser_srvtxt. destruct Hty as [H|H].
    - rewrite H, Hr. cbn [bs_data]. change (nm ++ DOT :: T) with (nm ++ [DOT] ++ T). rewrite ends_with_app. apply orb_true_r.
    - unfold is_any, browser_any. rewrite H. reflexivity. }
  repeat split.
  - unfold classify. rewrite P2. change (12 =? T_PTR)%N with true. cbn iota. rewrite Pb, Pt, P3. reflexivity.
  - unfold classify. rewrite S2. change (33 =? T_PTR)%N with false. change (33 =? T_SRV)%N with true. cbn [orb]. cbn iota.
    rewrite (St srv S1), S1. reflexivity.
  - unfold classify. rewrite X2. change (16 =? T_PTR)%N with false. change (16 =? T_SRV)%N with false. change (16 =? T_TXT)%N with true. cbn [orb]. cbn iota.
    rewrite (St txt X1), X1. reflexivity.
Qed.

(* the third loop stores nothing for PTR / SRV / TXT records *)
Lemma addresses_none now : forall rs c b, Forall (fun r => (r_type r =? T_A)%N || (r_type r =? T_AAAA)%N = false) rs ->
  browser_cache_addresses now 0 rs (mkWorld [c] [b] 0) = (mkWorld [c] [b] 0, []).
Proof.
  induction rs as [|r rs IH]; intros c b F; cbn [browser_cache_addresses]; [reflexivity|].
  inversion F as [|? ? Hr Hrs]; subst. cbn [nth_error w_browsers]. rewrite Hr. cbn [andb]. rewrite (IH c b Hrs). reflexivity.
Qed.

(* the whole handler on an announcement [ptr; srv; txt] of type T, from any cache content: the three records are stored
   (replacing what they replace), the instance is re-evaluated against the resulting content *)
Lemma announcement_processed now (ptr srv txt : record) (T nm : list N) addr port id c b :
  announces ptr srv txt T nm -> bytes_eqb T browse_type = false -> Interested (b_type b) T -> b_cache b = 0%nat ->
  (r_ttl ptr =? 0)%N = false -> (r_ttl srv =? 0)%N = false -> (r_ttl txt =? 0)%N = false ->
  let c3 := fst (add now 0 txt (fst (add now 0 srv (fst (add now 0 ptr c))))) in
  let fq := nm ++ DOT :: T in
  exists te, starts_only te /\
  forall b' es, update_service 0 (view_of c3) (Some fq) b = (false, b', es) ->
  browser_on_message now 0 (mkMessage addr port id true false [] [ptr; srv; txt]) (mkWorld [c] [b] 0) = (mkWorld [c3] [b'] 0, te ++ es).
Proof.
  intros An Hbr Hty Hc Lp Ls Lx. cbv zeta. pose proof An as [(P1 & P2 & P3) (S1 & S2) (X1 & X2)].
  destruct (classify_three b ptr srv txt T nm An Hty Hbr) as (Kp & Ks & Kx). set (fq := nm ++ DOT :: T) in *.
  unfold browser_on_message. cbn [m_response negb m_records].
  destruct (bcr_keep now ptr [srv; txt] [] false c b 0 (Some fq) Hc Lp Kp) as (u1 & Su1 & E1). rewrite E1. clear E1.
  cbn [bs_data set_mem existsb set_insert].
  set (c1 := fst (add now 0 ptr c)).
  assert (Fqne : fq <> []) by (unfold fq; destruct nm; discriminate).
  assert (Nl1 : match fq with [] => bs_is_null (Some fq) | _ :: _ => false end = false) by (destruct fq; [congruence|reflexivity]).
  rewrite Nl1.
  destruct (bcr_keep now srv [txt] [fq] false c1 b 0 (Some fq) Hc Ls Ks) as (u2 & Su2 & E2). rewrite E2. clear E2.
  cbn [bs_data]. rewrite set_insert_same.
  set (c2 := fst (add now 0 srv c1)).
  assert (Mem : set_mem fq [fq] = true) by (unfold set_mem; cbn [existsb]; rewrite bytes_eqb_refl; reflexivity).
  rewrite Mem.
  destruct (bcr_keep now txt [] [fq] false c2 b 0 (Some fq) Hc Lx Kx) as (u3 & Su3 & E3). rewrite E3. clear E3.
  cbn [bs_data]. rewrite set_insert_same, Mem.
  set (c3 := fst (add now 0 txt c2)).
  cbn [browser_cache_records].
  cbn [browser_update_names nth_error w_browsers w_caches]. rewrite Hc. cbn [nth_error].
  assert (Fq : match fq with [] => Some [] | _ :: _ => Some fq end = Some fq) by (destruct fq; [congruence|reflexivity]).
  cbn [negb]. rewrite Fq.
  exists (u1 ++ u2 ++ u3). split.
  { intros e He. apply in_app_iff in He as [He|He]; [apply Su1, He|]. apply in_app_iff in He as [He|He]; [apply Su2, He|apply Su3, He]. }
  intros b' es EU. rewrite EU.
  cbn [replace_nth firstn skipn app w_jitter].
  rewrite addresses_none.
  2:{ repeat constructor; [rewrite P2|rewrite S2|rewrite X2]; reflexivity. }
  f_equal. rewrite !app_nil_l, !app_nil_r, <- !app_assoc. reflexivity.
Qed.

(* the whole handler on the goodbye for the three held records: the cache is emptied, the service removed and reported *)
Lemma goodbye_processed now (ptr srv txt : record) (T nm : list N) addr port id b t1 t2 t3 nxt tm sv :
  announces ptr srv txt T nm -> bytes_eqb T browse_type = false -> Interested (b_type b) T -> b_cache b = 0%nat ->
  b_services b = [(nm ++ DOT :: T, sv)] -> bs_is_null (s_name sv) = false ->
  browser_on_message now 0 (mkMessage addr port id true false [] [set_ttl 0 ptr; set_ttl 0 srv; set_ttl 0 txt])
                     (mkWorld [mkCache [mkEntry ptr t1; mkEntry srv t2; mkEntry txt t3] nxt tm] [b] 0) =
  (mkWorld [mkCache [] nxt tm] [mkBrowser (b_type b) (b_cache b) [] [] (b_ptr_targets b)] 0,
   [ESig 0%N SIG_serviceRemoved (PService sv)]).
Proof.
  intros An Hbr Hty Hc Hsv Hnull. pose proof An as [(P1 & P2 & P3) (S1 & S2) (X1 & X2)].
  destruct (classify_three b ptr srv txt T nm An Hty Hbr) as (Kp & Ks & Kx). set (fq := nm ++ DOT :: T) in *.
  assert (Fqne : fq <> []) by (unfold fq; destruct nm; discriminate).
  assert (Nl1 : match fq with [] => bs_is_null (Some fq) | _ :: _ => false end = false) by (destruct fq; [congruence|reflexivity]).
  assert (Mem : set_mem fq [fq] = true) by (unfold set_mem; cbn [existsb]; rewrite bytes_eqb_refl; reflexivity).
  assert (Fq : match fq with [] => Some [] | _ :: _ => Some fq end = Some fq) by (destruct fq; [congruence|reflexivity]).
  unfold browser_on_message. cbn [m_response negb m_records].
  (* the PTR goodbye *)
  rewrite (bcr_step now (set_ttl 0 ptr) _ [] false _ b 0 (Some fq) Hc (eq_trans (classify_ttl b ptr 0) Kp)).
  rewrite (wca_goodbye now (set_ttl 0 ptr) _ nxt tm b 0 eq_refl).
  cbn [scan e_rec]. rewrite cm_goodbye, (cm_other ptr srv), (cm_other ptr txt) by congruence.
  cbn [scan app r_ttl set_ttl N.eqb map e_rec].
  cbn [deliver_signals slots_for]. rewrite Hc. cbn [Nat.eqb]. unfold on_record_expired at 1. rewrite P2.
  change (12 =? T_SRV)%N with false. change (12 =? T_TXT)%N with false. cbn iota. cbn [deliver_signals slots_for app].
  cbn [bs_data set_mem existsb set_insert]. rewrite Nl1.
  (* the SRV goodbye *)
  rewrite (bcr_step now (set_ttl 0 srv) _ [fq] false _ b 0 (Some fq) Hc (eq_trans (classify_ttl b srv 0) Ks)).
  rewrite (wca_goodbye now (set_ttl 0 srv) _ nxt tm b 0 eq_refl).
  cbn [scan e_rec]. rewrite cm_goodbye, (cm_other srv txt) by congruence.
  cbn [scan app r_ttl set_ttl N.eqb map e_rec].
  cbn [deliver_signals slots_for]. rewrite Hc. cbn [Nat.eqb]. unfold on_record_expired at 1. rewrite S2.
  change (33 =? T_SRV)%N with true. cbn iota. rewrite S1. cbn [bs_data]. fold fq. rewrite Hsv.
  cbn [smap_find]. rewrite bytes_eqb_refl, Hnull.
  unfold smap_remove. cbn [filter fst]. rewrite bytes_eqb_refl. cbn [negb fold_left].
  cbn [deliver_signals slots_for app].
  cbn [bs_data]. rewrite set_insert_same, Mem.
  (* the TXT goodbye: nothing left to re-evaluate against *)
  set (b1 := mkBrowser (b_type b) (b_cache b) [] [] (b_ptr_targets b)).
  assert (K1 : classify b1 txt = (true, Some (Some fq), None)) by exact Kx.
  rewrite (bcr_step now (set_ttl 0 txt) _ [fq] false _ b1 0 (Some fq) Hc (eq_trans (classify_ttl b1 txt 0) K1)).
  rewrite (wca_goodbye now (set_ttl 0 txt) _ nxt tm b1 0 eq_refl).
  cbn [scan e_rec]. rewrite cm_goodbye.
  cbn [scan app r_ttl set_ttl N.eqb map e_rec].
  cbn [deliver_signals slots_for]. change (b_cache b1) with (b_cache b). rewrite Hc. cbn [Nat.eqb]. unfold on_record_expired at 1. rewrite X2.
  change (16 =? T_SRV)%N with false. change (16 =? T_TXT)%N with true. cbn iota. rewrite update_service_empty_view.
  cbn [deliver_signals slots_for app].
  cbn [bs_data]. rewrite set_insert_same, Mem.
  cbn [browser_cache_records].
  cbn [browser_update_names nth_error w_browsers w_caches]. change (b_cache b1) with (b_cache b). rewrite Hc. cbn [nth_error]. unfold view_of at 1. cbn [c_entries map].
  rewrite Fq, update_service_empty_view.
  cbn [replace_nth firstn skipn app w_jitter].
  rewrite addresses_none.
  2:{ repeat constructor; cbn [r_type set_ttl]; [rewrite P2|rewrite S2|rewrite X2]; reflexivity. }
  unfold b1. rewrite ?Hc. reflexivity.
Qed.

(* ------------------------------------------------------------------ the browser's side of the invariant *)
Definition Good (T : bytes) (p s t : record) (nm : bytes) : Prop :=
  announces p s t T nm /\ index_of DOT nm = None /\
  (r_ttl p =? 0)%N = false /\ (r_ttl s =? 0)%N = false /\ (r_ttl t =? 0)%N = false /\
  r_flush s = true /\ r_flush t = true /\ PlainPtr p.

Inductive BI (T : bytes) : list record -> world -> Prop :=
| bi_none c b : c_entries c = [] -> Interested (b_type b) T -> b_cache b = 0%nat -> b_services b = [] -> BI T [] (mkWorld [c] [b] 0)
| bi_some p s t nm c b : Good T p s t nm -> held c = [p; s; t] -> Interested (b_type b) T -> b_cache b = 0%nat ->
    b_services b = [(nm ++ DOT :: T, svc_of T nm s t)] -> BI T [p; s; t] (mkWorld [c] [b] 0).

Definition announcement (addr : Msg.addr) (port id : N) (p s t : record) : message := mkMessage addr port id true false [] [p; s; t].

Lemma plain_ptr_same p p' : PlainPtr p -> PlainPtr p' -> r_name p = r_name p' -> r_type p = r_type p' -> r_target p = r_target p' ->
  same_data p p' = true.
Proof.
  intros (A1 & A2 & A3 & A4 & A5 & A6 & A7) (B1 & B2 & B3 & B4 & B5 & B6 & B7) E1 E2 E3.
  unfold same_data, data_fields. cbn [forallb rfield_agree].
  rewrite E1, E2, E3, A1, A2, A3, A4, A5, A6, A7, B1, B2, B3, B4, B5, B6, B7.
  rewrite !bs_eqb_refl, !N.eqb_refl. reflexivity.
Qed.

Lemma smap_insert_over k v v' : smap_insert k v [(k, v')] = [(k, v)].
Proof. cbn [smap_insert]. rewrite bytes_ltb_irrefl. reflexivity. Qed.

(* hearing an announcement while nothing is held *)
Lemma hear_fresh T now addr port id p s t nm w :
  T <> [] -> bytes_eqb T browse_type = false -> BI T [] w -> Good T p s t nm ->
  exists te w', starts_only te /\
    browser_on_message now 0 (announcement addr port id p s t) w = (w', te ++ [ESig 0%N SIG_serviceAdded (PService (svc_of T nm s t))]) /\
    BI T [p; s; t] w'.
Proof.
  intros HT Hbr B G. inversion B as [c b Ce Hty Hc Hsv|]; subst. destruct G as (An & Hnm & Lp & Ls & Lx & Fs & Ft & Pp).
  pose proof An as [(P1 & P2 & P3) (S1 & S2) (X1 & X2)].
  destruct (announcement_processed now p s t T nm addr port id c b An Hbr Hty Hc Lp Ls Lx) as (te & Ste & E).
  cbv zeta in E. set (c3 := fst (add now 0 t (fst (add now 0 s (fst (add now 0 p c)))))) in *.
  assert (V : held c3 = [p; s; t]).
  { unfold c3. rewrite !add_is_listen1. unfold held at 1. rewrite Ce. cbn [map].
    unfold listen1 at 3. cbn [filter app]. rewrite Lp.
    unfold listen1 at 2. cbn [filter app]. rewrite Ls. rewrite spec_match_type by congruence. cbn [negb app].
    unfold listen1. cbn [filter app]. rewrite Lx. rewrite !spec_match_type by congruence. reflexivity. }
  pose proof (update_service_three 0 p s t T nm b An Hnm HT Hty Hbr) as U. cbv zeta in U.
  change (view_of c3) with (held c3) in E. rewrite V in E. rewrite Hsv in U. cbn [smap_find smap_insert] in U.
  specialize (E _ _ U). exists te. eexists. split; [exact Ste|]. split; [exact E|].
  apply (bi_some T p s t nm); auto.
  exact (conj An (conj Hnm (conj Lp (conj Ls (conj Lx (conj Fs (conj Ft Pp))))))).
Qed.

(* hearing an announcement for the same instance while its records are held: they are replaced *)
Lemma hear_over T now addr port id p s t p' s' t' nm w :
  T <> [] -> bytes_eqb T browse_type = false -> BI T [p; s; t] w -> Good T p s t nm -> Good T p' s' t' nm ->
  exists te w', starts_only te /\
    browser_on_message now 0 (announcement addr port id p' s' t') w =
      (w', te ++ (if service_eqb (svc_of T nm s t) (svc_of T nm s' t') then [] else [ESig 0%N SIG_serviceUpdated (PService (svc_of T nm s' t'))])) /\
    BI T [p'; s'; t'] w'.
Proof.
  intros HT Hbr B G G'. inversion B as [|p0 s0 t0 nm0 c b G0 Hh Hty Hc Hsv]; subst.
  destruct G as (An & Hnm & Lp & Ls & Lx & Fs & Ft & Pp). destruct G' as (An' & _ & Lp' & Ls' & Lx' & Fs' & Ft' & Pp').
  pose proof An as [(P1 & P2 & P3) (S1 & S2) (X1 & X2)]. pose proof An' as [(P1' & P2' & P3') (S1' & S2') (X1' & X2')].
  (* the held instance is the announced one *)
  assert (Enm : nm0 = nm).
  { destruct G0 as (An0 & _). destruct An0 as [_ (S10 & _) _]. rewrite S1 in S10. injection S10 as E. apply app_inv_tail in E. congruence. }
  subst nm0.
  destruct (announcement_processed now p' s' t' T nm addr port id c b An' Hbr Hty Hc Lp' Ls' Lx') as (te & Ste & E).
  cbv zeta in E. set (c3 := fst (add now 0 t' (fst (add now 0 s' (fst (add now 0 p' c)))))) in *.
  assert (V : held c3 = [p'; s'; t']).
  { unfold c3. rewrite !add_is_listen1, Hh.
    assert (Mp : spec_match p' p = true).
    { unfold spec_match. rewrite (plain_ptr_same p p' Pp Pp') by congruence. reflexivity. }
    assert (Ms : spec_match s' s = true).
    { unfold spec_match. rewrite Fs', S1, S1', S2, S2'. unfold bs_eqb. cbn [bs_data]. rewrite bytes_eqb_refl. cbn. apply orb_true_r. }
    assert (Mt : spec_match t' t = true).
    { unfold spec_match. rewrite Ft', X1, X1', X2, X2'. unfold bs_eqb. cbn [bs_data]. rewrite bytes_eqb_refl. cbn. apply orb_true_r. }
    unfold listen1 at 3. cbn [filter app]. rewrite Lp', Mp.
    rewrite (spec_match_type p' s), (spec_match_type p' t) by congruence. cbn [negb app].
    unfold listen1 at 2. cbn [filter app]. rewrite Ls', Ms.
    rewrite (spec_match_type s' t), (spec_match_type s' p') by congruence. cbn [negb app].
    unfold listen1. cbn [filter app]. rewrite Lx', Mt.
    rewrite (spec_match_type t' p'), (spec_match_type t' s') by congruence. reflexivity. }
  pose proof (update_service_three 0 p' s' t' T nm b An' Hnm HT Hty Hbr) as U. cbv zeta in U.
  change (view_of c3) with (held c3) in E. rewrite V in E. rewrite Hsv in U. cbn [smap_find] in U.
  rewrite bytes_eqb_refl, smap_insert_over in U.
  specialize (E _ _ U). exists te. eexists. split; [exact Ste|]. split; [exact E|].
  apply (bi_some T p' s' t' nm); auto.
  exact (conj An' (conj Hnm (conj Lp' (conj Ls' (conj Lx' (conj Fs' (conj Ft' Pp'))))))).
Qed.

Definition goodbye (addr : Msg.addr) (port id : N) (p s t : record) : message :=
  mkMessage addr port id true false [] [set_ttl 0 p; set_ttl 0 s; set_ttl 0 t].

(* hearing the goodbye for the held records *)
Lemma hear_bye T now addr port id p s t nm w :
  bytes_eqb T browse_type = false -> BI T [p; s; t] w -> Good T p s t nm ->
  exists w', browser_on_message now 0 (goodbye addr port id p s t) w = (w', [ESig 0%N SIG_serviceRemoved (PService (svc_of T nm s t))]) /\
             BI T [] w'.
Proof.
  intros Hbr B G. inversion B as [|p0 s0 t0 nm0 c b G0 Hh Hty Hc Hsv]; subst.
  destruct G as (An & Hnm & _). pose proof An as [_ (S1 & _) _].
  assert (Enm : nm0 = nm).
  { destruct G0 as (An0 & _). destruct An0 as [_ (S10 & _) _]. rewrite S1 in S10. injection S10 as E. apply app_inv_tail in E. congruence. }
  subst nm0.
  destruct c as [es nxt tm]. unfold held in Hh. cbn [c_entries] in Hh.
  destruct es as [|[r1 t1] [|[r2 t2] [|[r3 t3] [|e4 es]]]]; try discriminate. cbn [map e_rec] in Hh. injection Hh as -> -> ->.
  eexists. split.
  - unfold goodbye. apply (goodbye_processed now p s t T nm addr port id b t1 t2 t3 nxt tm _ An Hbr Hty Hc Hsv). reflexivity.
  - apply bi_none; auto.
Qed.

(* ------------------------------------------------------------------ the provider's side: the service type stays T *)
Definition ev_type_ok (T : bytes) (ev : event papi) : Prop :=
  match ev with EvApi (PUpdate s) => s_type s = Some T | _ => True end.

Record TInv (T : bytes) (c : comp) : Prop := {
  ti_prop : pv_exists (cp_prov c) = true -> pv_initialized (cp_prov c) = true -> r_name (pv_ptrP (cp_prov c)) = Some T;
  ti_pub : pv_exists (cp_prov c) = true -> pv_confirmed (cp_prov c) = true -> r_name (pv_ptr (cp_prov c)) = Some T }.

Lemma hostname_changed_T c n : let c' := fst (prov_on_hostname_changed c n) in
  pv_exists (cp_prov c') = pv_exists (cp_prov c) /\ pv_confirmed (cp_prov c') = pv_confirmed (cp_prov c) /\
  pv_initialized (cp_prov c') = pv_initialized (cp_prov c) /\
  pv_ptrP (cp_prov c') = pv_ptrP (cp_prov c) /\ pv_ptr (cp_prov c') = pv_ptr (cp_prov c).
Proof.
  cbv zeta. unfold prov_on_hostname_changed. destruct (negb (pv_exists (cp_prov c))); [repeat split|].
  match goal with |- context [if pv_initialized ?p1 then _ else _] => destruct (pv_initialized p1) eqn:E; [|cbn; repeat split];
    destruct (confirm p1 (cp_prober c)) as [pb es]; cbn; repeat split end.
Qed.

Lemma with_slot_T T : forall es c, TInv T c -> TInv T (fst (with_hostname_slot c es)).
Proof.
  induction es as [|e es IH]; intros c N; cbn [with_hostname_slot]; [exact N|].
  assert (Generic : forall c0, TInv T c0 -> TInv T (fst (let '(c2, e2) := with_hostname_slot c0 es in (c2, e :: e2)))).
  { intros c0 N0. specialize (IH c0 N0). destruct (with_hostname_slot c0 es) as [c2 e2]. exact IH. }
  destruct e as [m|m|ob sg p|tid ms|tid|rs]; try (apply Generic; exact N).
  destruct p as [|b|sv|a|r]; try (apply Generic; exact N). destruct b as [n|]; [|apply Generic; exact N].
  destruct (sg =? SIG_hostnameChanged)%N; [|apply Generic; exact N].
  pose proof (hostname_changed_T c n) as H. cbv zeta in H. destruct H as (H1 & H2 & H3 & H4 & H5).
  assert (N1 : TInv T (fst (prov_on_hostname_changed c n))).
  { destruct N as [A B]. constructor; rewrite ?H1, ?H2, ?H3, ?H4, ?H5; assumption. }
  destruct (prov_on_hostname_changed c n) as [c1 e1]. cbn [fst] in N1.
  specialize (IH c1 N1). destruct (with_hostname_slot c1 es) as [c2 e2]. exact IH.
Qed.

Theorem comp_step_T T now c ev L :
  CInv c L -> TInv T c -> one_provider c ev -> ev_type_ok T ev -> TInv T (fst (comp_handle now c ev)).
Proof.
  intros Iv N One Ty. destruct ev as [m|tid|a]; cbn [comp_handle].
  - destruct (host_handle now (cp_host c) (EvMsg m)) as [h1 e1].
    destruct (match cp_prober c with Some pb => _ | None => (None, []) end) as [pb e3]. cbn [fst].
    destruct N as [A B]. constructor; cbn [cp_prov]; assumption.
  - destruct (tid =? T_PROBER)%N.
    + destruct (cp_prober c) as [pb|] eqn:Ep; [|exact N].
      destruct Iv as [Ih Psh Pn Sv Un Pr Ci]. destruct (Pr pb Ep) as (Ex & In_ & _ & _). destruct N as [A B].
      pose proof (on_name_confirmed_fields (r_name (pb_proposed pb)) (cp_prov c)) as F. cbv zeta in F.
      destruct (on_name_confirmed (r_name (pb_proposed pb)) (cp_prov c)) as [p' es]. cbn [fst] in *.
      destruct F as (F1 & F2 & F3 & F4 & F5 & F6 & F7 & F8 & F9).
      constructor; cbn [cp_prov]; rewrite ?F1, ?F2, ?F4, ?F7; intros; cbn [r_name set_target]; apply A; assumption.
    + destruct (host_handle now (cp_host c) (EvTimer tid)) as [h1 e1]. apply with_slot_T.
      destruct N as [A B]. constructor; cbn [cp_prov]; assumption.
  - destruct a as [| |s|].
    + exact N.
    + cbn [fst]. constructor; cbn [cp_prov]; destruct (h_reg (cp_host c)); cbn; discriminate.
    + destruct (pv_exists (cp_prov c)) eqn:Ex; [|exact N]. cbn in Ty.
      destruct N as [A B].
      rewrite prov_update_eq. unfold prov_update_old.
      set (p := set_prov (cp_prov c) true (pv_confirmed (cp_prov c))).
      match goal with |- context [if negb (match bs_data (r_target (pv_srvP ?q)) with [] => true | _ :: _ => false end) then _ else _] => set (p1 := q) end.
      assert (Same : forall pb, TInv T (mkComp (cp_host c) p1 pb)).
      { intro pb. constructor; unfold p1, p; cbn [cp_prov set_proposed set_prov pv_exists pv_initialized pv_confirmed pv_ptrP pv_ptr r_name set_target set_name].
        - intros _ _. exact Ty.
        - intros E C0. apply B; assumption. }
      destruct (negb (match bs_data (r_target (pv_srvP p1)) with [] => true | _ :: _ => false end)); [|apply Same].
      destruct (negb (pv_confirmed p1) || negb (bs_eqb _ (r_name (pv_srv p1)))) eqn:Br.
      * destruct (confirm p1 (cp_prober c)) as [pb es]. apply Same.
      * destruct (match cp_prober c with Some pb => _ | None => false end); [apply Same|].
        destruct (if bs_eqb (r_target (pv_srvP p1)) (r_target (pv_srv p1)) then (p1, []) else farewell p1) as [p2 e2] eqn:E2.
        assert (X : pv_ptrP p2 = pv_ptrP p1 /\ pv_exists p2 = pv_exists p1 /\ pv_initialized p2 = pv_initialized p1).
        { destruct (bs_eqb (r_target (pv_srvP p1)) (r_target (pv_srv p1))); injection E2 as <- _; cbn; auto. }
        destruct X as (X1 & X2 & X3).
        destruct (publish p2) as [p3 e3] eqn:E3. unfold publish in E3. injection E3 as <- _. cbn [fst].
        constructor; cbn [cp_prov set_published pv_exists pv_initialized pv_confirmed pv_ptrP pv_ptr]; rewrite ?X1; intros; unfold p1, p; cbn; exact Ty.
    + destruct (pv_exists (cp_prov c)) eqn:Ex; [|exact N].
      destruct (if pv_confirmed (cp_prov c) then farewell (cp_prov c) else (cp_prov c, [])) as [p' es]. cbn [fst].
      constructor; cbn [cp_prov pv_exists]; discriminate.
Qed.

(* ------------------------------------------------------------------ the link: the browser hears every multicast response, in order *)
Fixpoint bhear (now : Z) (w : world) (es : list eff) : world * list eff :=
  match es with
  | [] => (w, [])
  | ESendAll m :: es' =>
      if m_response m then
        let '(w1, o1) := browser_on_message now 0 m w in let '(w2, o2) := bhear now w1 es' in (w2, o1 ++ o2)
      else bhear now w es'
  | _ :: es' => bhear now w es'
  end.

Lemma bhear_app now : forall a w b,
  bhear now w (a ++ b) = (let '(w1, o1) := bhear now w a in let '(w2, o2) := bhear now w1 b in (w2, o1 ++ o2)).
Proof.
  induction a as [|e a IH]; intros w b; cbn [app bhear].
  - destruct (bhear now w b) as [w2 o2]. reflexivity.
  - destruct e as [m|m|ob sg p|tid ms|tid|rs]; try apply IH.
    destruct (m_response m); [|apply IH].
    destruct (browser_on_message now 0 m w) as [w1 o1]. rewrite IH.
    destruct (bhear now w1 a) as [w2 o2]. destruct (bhear now w2 b) as [w3 o3]. rewrite app_assoc. reflexivity.
Qed.

Lemma bhear_silent now : forall es w, silent es -> bhear now w es = (w, []).
Proof.
  induction es as [|e es IH]; intros w S; cbn [bhear]; [reflexivity|].
  assert (S' : silent es) by (intros m H; apply S; right; exact H).
  destruct e as [m|m|ob sg p|tid ms|tid|rs]; try (apply IH; exact S').
  rewrite (S m (or_introl eq_refl)). apply IH, S'.
Qed.

Definition A0 := m_addr default_message.  Definition P0 := m_port default_message.  Definition I0 := m_id default_message.

Lemma farewell_is_goodbye p : snd (farewell p) = [ESendAll (goodbye A0 P0 I0 (pv_ptr p) (pv_srv p) (pv_txt p))].
Proof. reflexivity. Qed.
Lemma publish_is_announcement p : snd (publish p) = [ESendAll (announcement A0 P0 I0 (pv_ptrP p) (pv_srvP p) (pv_txtP p))].
Proof. reflexivity. Qed.

Lemma bhear_one now w m : m_response m = true ->
  bhear now w [ESendAll m] = (fst (browser_on_message now 0 m w), snd (browser_on_message now 0 m w) ++ []).
Proof. intro H. cbn [bhear]. rewrite H. destruct (browser_on_message now 0 m w). reflexivity. Qed.

Lemma Good_of_served T c L : CInv c L -> TInv T c -> pv_exists (cp_prov c) = true -> pv_confirmed (cp_prov c) = true ->
  exists nm, Good T (pv_ptr (cp_prov c)) (pv_srv (cp_prov c)) (pv_txt (cp_prov c)) nm /\
             L = [pv_ptr (cp_prov c); pv_srv (cp_prov c); pv_txt (cp_prov c)].
Proof.
  intros Iv [_ TP] Ex Cf. specialize (TP Ex Cf).
  destruct (ci_served _ _ Iv Ex Cf) as ((T1 & T2 & T3 & F1 & F2 & F3) & (L1 & L2 & L3) & (N1 & N2 & x & Dx & N3) & Pp & HL).
  rewrite TP in N3. cbn [bs_data] in N3. exists x. split; [|exact HL].
  split; [|split; [apply dotfree_index, Dx|]].
  - constructor; repeat split; try assumption; congruence.
  - exact (conj (proj2 (N.eqb_neq _ _) L1) (conj (proj2 (N.eqb_neq _ _) L2) (conj (proj2 (N.eqb_neq _ _) L3) (conj F2 (conj F3 Pp))))).
Qed.

(* hearing a goodbye for what is held, then possibly an announcement *)
Lemma hear_goodbye_effect T now w p s t nm :
  bytes_eqb T browse_type = false -> BI T [p; s; t] w -> Good T p s t nm ->
  BI T [] (fst (bhear now w [ESendAll (goodbye A0 P0 I0 p s t)])).
Proof.
  intros Hbr B G. rewrite bhear_one by reflexivity. destruct (hear_bye T now A0 P0 I0 p s t nm w Hbr B G) as (w' & E & B').
  rewrite E. exact B'.
Qed.
Lemma hear_fresh_effect T now w p s t nm :
  T <> [] -> bytes_eqb T browse_type = false -> BI T [] w -> Good T p s t nm ->
  BI T [p; s; t] (fst (bhear now w [ESendAll (announcement A0 P0 I0 p s t)])).
Proof.
  intros HT Hbr B G. rewrite bhear_one by reflexivity. destruct (hear_fresh T now A0 P0 I0 p s t nm w HT Hbr B G) as (te & w' & _ & E & B').
  rewrite E. exact B'.
Qed.
Lemma hear_over_effect T now w p s t p' s' t' nm :
  T <> [] -> bytes_eqb T browse_type = false -> BI T [p; s; t] w -> Good T p s t nm -> Good T p' s' t' nm ->
  BI T [p'; s'; t'] (fst (bhear now w [ESendAll (announcement A0 P0 I0 p' s' t')])).
Proof.
  intros HT Hbr B G G'. rewrite bhear_one by reflexivity.
  destruct (hear_over T now A0 P0 I0 p s t p' s' t' nm w HT Hbr B G G') as (te & w' & _ & E & B'). rewrite E. exact B'.
Qed.

(* ------------------------------------------------------------------ one handler invocation of the provider, heard by the browser *)
Section Link.
  (* the link: how the browser comes to hear the provider's effects.  Anything that hears concatenations in order, ignores
     what is not a multicast response, and has the three transitions below (instantiated after the section: every
     response heard once; every response heard several times in a row) *)
  Variable hear : Z -> world -> list eff -> world * list eff.
  Hypothesis hear_app : forall now a w b,
    hear now w (a ++ b) = (let '(w1, o1) := hear now w a in let '(w2, o2) := hear now w1 b in (w2, o1 ++ o2)).
  Hypothesis hear_silent : forall now es w, silent es -> hear now w es = (w, []).
  Hypothesis hear_goodbye_e : forall T now w p s t nm,
    bytes_eqb T browse_type = false -> BI T [p; s; t] w -> Good T p s t nm ->
    BI T [] (fst (hear now w [ESendAll (goodbye A0 P0 I0 p s t)])).
  Hypothesis hear_fresh_e : forall T now w p s t nm,
    T <> [] -> bytes_eqb T browse_type = false -> BI T [] w -> Good T p s t nm ->
    BI T [p; s; t] (fst (hear now w [ESendAll (announcement A0 P0 I0 p s t)])).
  Hypothesis hear_over_e : forall T now w p s t p' s' t' nm,
    T <> [] -> bytes_eqb T browse_type = false -> BI T [p; s; t] w -> Good T p s t nm -> Good T p' s' t' nm ->
    BI T [p'; s'; t'] (fst (hear now w [ESendAll (announcement A0 P0 I0 p' s' t')])).

Theorem pair_step T now nowb c ev L w :
  T <> [] -> bytes_eqb T browse_type = false ->
  CInv c L -> TInv T c -> BI T L w -> one_provider c ev -> ev_type_ok T ev ->
  BI T (listen L (snd (comp_handle now c ev))) (fst (hear nowb w (snd (comp_handle now c ev)))).
Proof.
  intros HT Hbr Iv N B One Ty.
  pose proof (comp_step_inv now c ev L Iv One) as Iv'. pose proof (comp_step_T T now c ev L Iv N One Ty) as N'.
  assert (Quiet : silent (snd (comp_handle now c ev)) ->
                  BI T (listen L (snd (comp_handle now c ev))) (fst (hear nowb w (snd (comp_handle now c ev))))).
  { intro S. rewrite (listen_silent _ _ S), (hear_silent nowb _ w S). exact B. }
  destruct ev as [m|tid|a].
  - (* a message: questions and unicast answers only *)
    apply Quiet. cbn [comp_handle].
    pose proof (host_handle_silent now (cp_host c) (EvMsg m)) as S1.
    destruct (host_handle now (cp_host c) (EvMsg m)) as [h1 e1]. cbn [snd] in S1.
    assert (S3 : silent (snd (match cp_prober c with
                       | Some pb => let '(pb', e) := prober_handle now pb (EvMsg m) in (Some pb', e)
                       | None => (None, []) end))).
    { destruct (cp_prober c) as [pb|]; [|apply silent_nil]. cbn [prober_handle].
      destruct (prober_ignore_message (pb_confirmed pb) (m_response m)); [apply silent_nil|].
      pose proof (on_records_silent (m_records m) pb) as S. destruct (on_records (m_records m) pb). exact S. }
    destruct (match cp_prober c with Some pb => _ | None => (None, []) end) as [pb e3]. cbn [snd] in *.
    apply silent_app; [exact S1|]. apply silent_app; [|exact S3].
    destruct (pv_exists (cp_prov c)); [apply prov_on_message_silent|apply silent_nil].
  - cbn [comp_handle] in *. destruct (tid =? T_PROBER)%N.
    + (* the probe completes *)
      destruct (cp_prober c) as [pb|] eqn:Ep; [|apply Quiet; apply silent_nil].
      destruct (ci_prober _ _ Iv pb Ep) as (Ex & In_ & _ & _).
      pose proof (on_name_confirmed_fields (r_name (pb_proposed pb)) (cp_prov c)) as F. cbv zeta in F.
      unfold on_name_confirmed in *. set (p := cp_prov c) in *. set (name := r_name (pb_proposed pb)) in *.
      destruct (pv_confirmed p) eqn:Cf.
      * (* goodbye for what was served, then the announcement *)
        destruct (Good_of_served T c L Iv N Ex Cf) as (nm & G & HL). fold p in G, HL.
        cbn [farewell publish fst snd] in *.
        match type of Iv' with CInv ?c' (listen L (?e1 ++ ?e3)) => set (c1 := c') in *; set (ef := e1) in *; set (ep := e3) in * end.
        clear F.
        assert (F1 : pv_exists (cp_prov c1) = true) by (unfold c1; cbn; exact Ex).
        assert (F3 : pv_confirmed (cp_prov c1) = true) by (unfold c1; cbn; exact Cf).
        destruct (Good_of_served T c1 _ Iv' N' F1 F3) as (nm' & G' & HL').
        change ef with (snd (farewell p)) in *. rewrite farewell_is_goodbye in *.
        rewrite listen_app in HL' |- *. rewrite hear_app.
        pose proof (hear_goodbye_e T nowb w _ _ _ nm Hbr ltac:(rewrite <- HL; exact B) G) as B1.
        destruct (hear nowb w [ESendAll (goodbye A0 P0 I0 (pv_ptr p) (pv_srv p) (pv_txt p))]) as [w1 o1]. cbn [fst] in B1.
        assert (Lf : listen L [ESendAll (goodbye A0 P0 I0 (pv_ptr p) (pv_srv p) (pv_txt p))] = []).
        { rewrite HL. pose proof (farewell_listen p ltac:(destruct G as ([(A1 & A2 & A3) (A4 & A5) (A6 & A7)] & _); destruct (ci_served _ _ Iv Ex Cf) as (Sh & _); exact Sh)) as FL.
          rewrite farewell_is_goodbye in FL. exact FL. }
        rewrite Lf in HL' |- *. rewrite HL'.
        pose proof (hear_fresh_e T nowb w1 _ _ _ nm' HT Hbr B1 G') as B2.
        change ep with [ESendAll (announcement A0 P0 I0 (pv_ptr (cp_prov c1)) (pv_srv (cp_prov c1)) (pv_txt (cp_prov c1)))].
        destruct (hear nowb w1 _) as [w2 o2]. cbn [fst] in *. exact B2.
      * (* first announcement: nothing was served *)
        assert (L0 : L = []) by (apply (ci_unserved _ _ Iv); fold p; rewrite Cf; apply andb_false_r).
        cbn [publish fst snd app] in *.
        match type of Iv' with CInv ?c' (listen L ?e3) => set (c1 := c') in *; set (ep := e3) in * end.
        clear F.
        assert (F1 : pv_exists (cp_prov c1) = true) by (unfold c1; cbn; exact Ex).
        assert (F3 : pv_confirmed (cp_prov c1) = true) by (unfold c1; cbn; reflexivity).
        destruct (Good_of_served T c1 _ Iv' N' F1 F3) as (nm' & G' & HL'). rewrite HL'.
        pose proof (hear_fresh_e T nowb w _ _ _ nm' HT Hbr ltac:(rewrite <- L0; exact B) G') as B2.
        change ep with [ESendAll (announcement A0 P0 I0 (pv_ptr (cp_prov c1)) (pv_srv (cp_prov c1)) (pv_txt (cp_prov c1)))].
        exact B2.
    + (* the hostname's timers: the provider's slot only probes *)
      apply Quiet.
      pose proof (host_handle_silent now (cp_host c) (EvTimer tid)) as S1.
      destruct (host_handle now (cp_host c) (EvTimer tid)) as [h1 e1]. cbn [snd] in S1. apply with_slot_silent, S1.
  - destruct a as [| |s|].
    + apply Quiet. apply silent_nil.
    + apply Quiet. cbn [comp_handle snd]. apply silent_nil.
    + (* Provider::update *)
      cbn [comp_handle] in *. destruct (pv_exists (cp_prov c)) eqn:Ex; [|apply Quiet; apply silent_nil].
      rewrite prov_update_eq in *. unfold prov_update_old in *.
      set (p := set_prov (cp_prov c) true (pv_confirmed (cp_prov c))) in *.
      set (fq := replace_byte DOT DASH (bs_data (s_name s)) ++ [DOT] ++ bs_data (s_type s)) in *.
      match type of Iv' with context [if negb (match bs_data (r_target (pv_srvP ?q)) with [] => true | _ :: _ => false end) then _ else _] => set (p1 := q) in * end.
      destruct (negb (match bs_data (r_target (pv_srvP p1)) with [] => true | _ :: _ => false end)); [|apply Quiet; apply silent_nil].
      destruct (negb (pv_confirmed p1) || negb (bs_eqb (Some fq) (r_name (pv_srv p1)))) eqn:Br.
      * apply Quiet. pose proof (confirm_silent p1 (cp_prober c)) as S. destruct (confirm p1 (cp_prober c)) as [pb es]. exact S.
      * destruct (match cp_prober c with Some pb => _ | None => false end); [apply Quiet; apply silent_nil|].
        apply orb_false_iff in Br as [Cf Nm]. apply negb_false_iff in Cf. apply negb_false_iff in Nm.
        assert (Cf0 : pv_confirmed (cp_prov c) = true) by exact Cf.
        destruct (Good_of_served T c L Iv N Ex Cf0) as (nm & G & HL).
        set (stop := match cp_prober c with Some _ => [EStop T_PROBER] | None => [] end) in *.
        assert (Sst : silent stop) by apply stop_silent.
        destruct (bs_eqb (r_target (pv_srvP p1)) (r_target (pv_srv p1))) eqn:Rt.
        -- (* the records still point at the current hostname: announced over the old ones *)
           cbn [publish fst snd app] in *.
           match type of Iv' with CInv ?c' (listen L (stop ++ ?e3)) => set (c1 := c') in *; set (ep := e3) in * end.
           assert (F1 : pv_exists (cp_prov c1) = true) by (unfold c1, p1, p; cbn; exact Ex).
           assert (F3 : pv_confirmed (cp_prov c1) = true) by (unfold c1, p1, p; cbn; exact Cf0).
           destruct (Good_of_served T c1 _ Iv' N' F1 F3) as (nm' & G' & HL'). rewrite HL'.
           assert (Enm : nm' = nm).
           { destruct G as ([_ (S1 & _) _] & _). destruct G' as ([_ (S1' & _) _] & _).
             change (pv_srv p1) with (pv_srv (cp_prov c)) in Nm. rewrite S1 in Nm. unfold bs_eqb in Nm. cbn [bs_data] in Nm. apply bytes_eqb_eq in Nm.
             assert (E' : r_name (pv_srv (cp_prov c1)) = Some fq) by (unfold c1, p1, p; cbn; destruct (h_reg (cp_host c)); reflexivity).
             rewrite S1' in E'. injection E' as E'. rewrite Nm in E'. apply app_inv_tail in E'. exact E'. }
           subst nm'.
           rewrite hear_app, (hear_silent nowb stop w Sst).
           pose proof (hear_over_e T nowb w _ _ _ _ _ _ nm HT Hbr ltac:(rewrite <- HL; exact B) G G') as B2.
           change ep with [ESendAll (announcement A0 P0 I0 (pv_ptr (cp_prov c1)) (pv_srv (cp_prov c1)) (pv_txt (cp_prov c1)))].
           destruct (hear nowb w [ESendAll (announcement A0 P0 I0 (pv_ptr (cp_prov c1)) (pv_srv (cp_prov c1)) (pv_txt (cp_prov c1)))]) as [w2 o2]. cbn [fst] in *. exact B2.
        -- (* the hostname changed: goodbye first, then the announcement *)
           cbn [farewell publish fst snd] in *.
           match type of Iv' with CInv ?c' (listen L (stop ++ ?e2 ++ ?e3)) => set (c1 := c') in *; set (ef := e2) in *; set (ep := e3) in * end.
           assert (F1 : pv_exists (cp_prov c1) = true) by (unfold c1, p1, p; cbn; exact Ex).
           assert (F3 : pv_confirmed (cp_prov c1) = true) by (unfold c1, p1, p; cbn; exact Cf0).
           destruct (Good_of_served T c1 _ Iv' N' F1 F3) as (nm' & G' & HL'). rewrite HL'.
           rewrite hear_app, (hear_silent nowb stop w Sst). rewrite hear_app.
           change ef with [ESendAll (goodbye A0 P0 I0 (pv_ptr (cp_prov c)) (pv_srv (cp_prov c)) (pv_txt (cp_prov c)))].
           pose proof (hear_goodbye_e T nowb w _ _ _ nm Hbr ltac:(rewrite <- HL; exact B) G) as B1.
           destruct (hear nowb w [ESendAll (goodbye A0 P0 I0 (pv_ptr (cp_prov c)) (pv_srv (cp_prov c)) (pv_txt (cp_prov c)))]) as [w1 o1]. cbn [fst] in B1.
           pose proof (hear_fresh_e T nowb w1 _ _ _ nm' HT Hbr B1 G') as B2.
           change ep with [ESendAll (announcement A0 P0 I0 (pv_ptr (cp_prov c1)) (pv_srv (cp_prov c1)) (pv_txt (cp_prov c1)))].
           destruct (hear nowb w1 [ESendAll (announcement A0 P0 I0 (pv_ptr (cp_prov c1)) (pv_srv (cp_prov c1)) (pv_txt (cp_prov c1)))]) as [w2 o2]. cbn [fst] in *. exact B2.
    + (* destruction *)
      cbn [comp_handle] in *. destruct (pv_exists (cp_prov c)) eqn:Ex; [|apply Quiet; apply silent_nil].
      set (stop := match cp_prober c with Some _ => [EStop T_PROBER] | None => [] end) in *.
      assert (Sst : silent stop) by apply stop_silent.
      destruct (pv_confirmed (cp_prov c)) eqn:Cf.
      * destruct (Good_of_served T c L Iv N Ex Cf) as (nm & G & HL).
        cbn [farewell fst snd] in *.
        match type of Iv' with CInv ?c' (listen L (?e2 ++ stop)) => set (c1 := c') in *; set (ef := e2) in * end.
        assert (L' : listen L (ef ++ stop) = []) by (apply (ci_unserved _ _ Iv'); reflexivity).
        rewrite L'. rewrite hear_app.
        change ef with [ESendAll (goodbye A0 P0 I0 (pv_ptr (cp_prov c)) (pv_srv (cp_prov c)) (pv_txt (cp_prov c)))].
        pose proof (hear_goodbye_e T nowb w _ _ _ nm Hbr ltac:(rewrite <- HL; exact B) G) as B1.
        destruct (hear nowb w [ESendAll (goodbye A0 P0 I0 (pv_ptr (cp_prov c)) (pv_srv (cp_prov c)) (pv_txt (cp_prov c)))]) as [w1 o1]. cbn [fst] in B1.
        rewrite (hear_silent nowb stop w1 Sst). exact B1.
      * apply Quiet. cbn [fst snd app]. exact Sst.
Qed.

(* ------------------------------------------------------------------ every history *)
Inductive preach (T : bytes) : comp -> list record -> world -> Prop :=
| pr_init local ifs bt : Interested bt T ->
    preach T (mkComp (fst (on_rebroadcast (mkHost local ifs [] [] false 1))) no_prov None) []
           (mkWorld [empty_cache] [mkBrowser bt 0 [] [] []] 0)
| pr_step c L w now nowb ev : preach T c L w -> one_provider c ev -> ev_type_ok T ev ->
    preach T (fst (comp_handle now c ev)) (listen L (snd (comp_handle now c ev))) (fst (hear nowb w (snd (comp_handle now c ev)))).

Lemma preach_lreach T c L w : preach T c L w -> lreach c L.
Proof. induction 1; [apply lr_init|apply lr_step; assumption]. Qed.

Theorem preach_inv T c L w : T <> [] -> bytes_eqb T browse_type = false -> preach T c L w -> TInv T c /\ BI T L w.
Proof.
  intros HT Hbr R. induction R as [local ifs bt Hbt|c L w now nowb ev R [IT IB] One Ty].
  - split; [constructor; cbn [cp_prov no_prov pv_exists]; discriminate|]. apply bi_none; try reflexivity. exact Hbt.
  - pose proof (lreach_inv _ _ (preach_lreach _ _ _ _ R)) as Iv. split.
    + apply (comp_step_T T now c ev L Iv IT One Ty).
    + apply (pair_step T now nowb c ev L w HT Hbr Iv IT IB One Ty).
Qed.

(* the statement in plain terms: after every handler invocation of the provider, the browser that has heard all of its
   multicast responses reports exactly the service it serves, and its cache holds exactly the served records *)
Theorem browser_reports_what_is_served T c L w :
  T <> [] -> bytes_eqb T browse_type = false -> preach T c L w ->
  exists cch b, w = mkWorld [cch] [b] 0 /\
    (pv_exists (cp_prov c) = true -> pv_confirmed (cp_prov c) = true ->
       exists nm, r_name (pv_srv (cp_prov c)) = Some (nm ++ DOT :: T) /\
                  b_services b = [(nm ++ DOT :: T, svc_of T nm (pv_srv (cp_prov c)) (pv_txt (cp_prov c)))] /\
                  held cch = [pv_ptr (cp_prov c); pv_srv (cp_prov c); pv_txt (cp_prov c)]) /\
    (pv_exists (cp_prov c) && pv_confirmed (cp_prov c) = false -> b_services b = [] /\ held cch = []).
Proof.
  intros HT Hbr R. destruct (preach_inv T c L w HT Hbr R) as [IT IB].
  pose proof (lreach_inv _ _ (preach_lreach _ _ _ _ R)) as Iv.
  inversion IB as [cch b Ce Hty Hc Hsv|p s t nm cch b G Hh Hty Hc Hsv]; subst; exists cch, b; (split; [reflexivity|]); split.
  - intros Ex Cf. destruct (ci_served _ _ Iv Ex Cf) as (_ & _ & _ & _ & HL). discriminate.
  - intros _. split; [exact Hsv|]. unfold held. rewrite Ce. reflexivity.
  - intros Ex Cf. destruct (ci_served _ _ Iv Ex Cf) as (_ & _ & _ & _ & HL). injection HL as -> -> ->.
    exists nm. destruct G as ([_ (S1 & _) _] & _). auto.
  - intros U. pose proof (ci_unserved _ _ Iv U). discriminate.
Qed.
End Link.

(* ------------------------------------------------------------------ instance 1: every multicast response heard once *)
Theorem pair_converges_once T c L w :
  T <> [] -> bytes_eqb T browse_type = false -> preach bhear T c L w ->
  exists cch b, w = mkWorld [cch] [b] 0 /\
    (pv_exists (cp_prov c) = true -> pv_confirmed (cp_prov c) = true ->
       exists nm, r_name (pv_srv (cp_prov c)) = Some (nm ++ DOT :: T) /\
                  b_services b = [(nm ++ DOT :: T, svc_of T nm (pv_srv (cp_prov c)) (pv_txt (cp_prov c)))] /\
                  held cch = [pv_ptr (cp_prov c); pv_srv (cp_prov c); pv_txt (cp_prov c)]) /\
    (pv_exists (cp_prov c) && pv_confirmed (cp_prov c) = false -> b_services b = [] /\ held cch = []).
Proof.
  exact (browser_reports_what_is_served bhear bhear_app bhear_silent hear_goodbye_effect hear_fresh_effect hear_over_effect T c L w).
Qed.

(* ------------------------------------------------------------------ instance 2: duplicated multicasts *)
(* a goodbye heard while nothing is held changes nothing *)
Lemma goodbye_processed_none now (ptr srv txt : record) (T nm : list N) addr port id b nxt tm :
  announces ptr srv txt T nm -> bytes_eqb T browse_type = false -> Interested (b_type b) T -> b_cache b = 0%nat ->
  browser_on_message now 0 (goodbye addr port id ptr srv txt) (mkWorld [mkCache [] nxt tm] [b] 0) = (mkWorld [mkCache [] nxt tm] [b] 0, []).
Proof.
  intros An Hbr Hty Hc. pose proof An as [(P1 & P2 & P3) (S1 & S2) (X1 & X2)].
  destruct (classify_three b ptr srv txt T nm An Hty Hbr) as (Kp & Ks & Kx). set (fq := nm ++ DOT :: T) in *.
  assert (Fqne : fq <> []) by (unfold fq; destruct nm; discriminate).
  assert (Nl1 : match fq with [] => bs_is_null (Some fq) | _ :: _ => false end = false) by (destruct fq; [congruence|reflexivity]).
  assert (Mem : set_mem fq [fq] = true) by (unfold set_mem; cbn [existsb]; rewrite bytes_eqb_refl; reflexivity).
  assert (Fq : match fq with [] => Some [] | _ :: _ => Some fq end = Some fq) by (destruct fq; [congruence|reflexivity]).
  unfold goodbye, browser_on_message. cbn [m_response negb m_records].
  rewrite (bcr_step now (set_ttl 0 ptr) _ [] false _ b 0 (Some fq) Hc (eq_trans (classify_ttl b ptr 0) Kp)).
  rewrite (wca_goodbye now (set_ttl 0 ptr) _ nxt tm b 0 eq_refl). cbn [scan deliver_signals app].
  cbn [bs_data set_mem existsb set_insert]. rewrite Nl1.
  rewrite (bcr_step now (set_ttl 0 srv) _ [fq] false _ b 0 (Some fq) Hc (eq_trans (classify_ttl b srv 0) Ks)).
  rewrite (wca_goodbye now (set_ttl 0 srv) _ nxt tm b 0 eq_refl). cbn [scan deliver_signals app].
  cbn [bs_data]. rewrite set_insert_same, Mem.
  rewrite (bcr_step now (set_ttl 0 txt) _ [fq] false _ b 0 (Some fq) Hc (eq_trans (classify_ttl b txt 0) Kx)).
  rewrite (wca_goodbye now (set_ttl 0 txt) _ nxt tm b 0 eq_refl). cbn [scan deliver_signals app].
  cbn [bs_data]. rewrite set_insert_same, Mem.
  cbn [browser_cache_records].
  cbn [browser_update_names nth_error w_browsers w_caches]. rewrite Hc. cbn [nth_error]. unfold view_of at 1. cbn [c_entries map].
  rewrite Fq, update_service_empty_view.
  cbn [replace_nth firstn skipn app w_jitter].
  rewrite addresses_none.
  2:{ repeat constructor; cbn [r_type set_ttl]; [rewrite P2|rewrite S2|rewrite X2]; reflexivity. }
  destruct b; reflexivity.
Qed.

Lemma hear_bye_none T now addr port id p s t nm w :
  bytes_eqb T browse_type = false -> BI T [] w -> Good T p s t nm ->
  browser_on_message now 0 (goodbye addr port id p s t) w = (w, []).
Proof.
  intros Hbr B G. inversion B as [c b Ce Hty Hc Hsv|]; subst. destruct G as (An & _).
  destruct c as [es nxt tm]. cbn [c_entries] in Ce. subst es.
  apply (goodbye_processed_none now p s t T nm addr port id b nxt tm An Hbr Hty Hc).
Qed.

(* the same message heard n times in a row *)
Fixpoint rep (n : nat) (now : Z) (m : message) (w : world) : world * list eff :=
  match n with
  | O => (w, [])
  | S k => let '(w1, o1) := browser_on_message now 0 m w in let '(w2, o2) := rep k now m w1 in (w2, o1 ++ o2)
  end.

Lemma rep_goodbye_none T now p s t nm : bytes_eqb T browse_type = false -> Good T p s t nm ->
  forall n w, BI T [] w -> BI T [] (fst (rep n now (goodbye A0 P0 I0 p s t) w)).
Proof.
  intros Hbr G. induction n as [|n IH]; intros w B; cbn [rep fst]; [exact B|].
  rewrite (hear_bye_none T now A0 P0 I0 p s t nm w Hbr B G). specialize (IH w B).
  destruct (rep n now (goodbye A0 P0 I0 p s t) w) as [w2 o2]. exact IH.
Qed.
Lemma rep_announcement_same T now p s t nm : T <> [] -> bytes_eqb T browse_type = false -> Good T p s t nm ->
  forall n w, BI T [p; s; t] w -> BI T [p; s; t] (fst (rep n now (announcement A0 P0 I0 p s t) w)).
Proof.
  intros HT Hbr G. induction n as [|n IH]; intros w B; cbn [rep fst]; [exact B|].
  destruct (hear_over T now A0 P0 I0 p s t p s t nm w HT Hbr B G G) as (te & w' & _ & E & B'). rewrite E.
  specialize (IH w' B'). destruct (rep n now (announcement A0 P0 I0 p s t) w') as [w2 o2]. exact IH.
Qed.

Section Dup.
  Variable d : message -> nat.     (* how many extra copies of a multicast arrive *)

  Fixpoint bheard (now : Z) (w : world) (es : list eff) : world * list eff :=
    match es with
    | [] => (w, [])
    | ESendAll m :: es' =>
        if m_response m then
          let '(w1, o1) := rep (S (d m)) now m w in let '(w2, o2) := bheard now w1 es' in (w2, o1 ++ o2)
        else bheard now w es'
    | _ :: es' => bheard now w es'
    end.

  Lemma bheard_app now : forall a w b,
    bheard now w (a ++ b) = (let '(w1, o1) := bheard now w a in let '(w2, o2) := bheard now w1 b in (w2, o1 ++ o2)).
  Proof.
    induction a as [|e a IH]; intros w b; cbn [app bheard].
    - destruct (bheard now w b) as [w2 o2]. reflexivity.
    - destruct e as [m|m|ob sg p|tid ms|tid|rs]; try apply IH.
      destruct (m_response m); [|apply IH].
      destruct (rep (S (d m)) now m w) as [w1 o1]. rewrite IH.
      destruct (bheard now w1 a) as [w2 o2]. destruct (bheard now w2 b) as [w3 o3]. rewrite app_assoc. reflexivity.
  Qed.
  Lemma bheard_silent now : forall es w, silent es -> bheard now w es = (w, []).
  Proof.
    induction es as [|e es IH]; intros w S; cbn [bheard]; [reflexivity|].
    assert (S' : silent es) by (intros m H; apply S; right; exact H).
    destruct e as [m|m|ob sg p|tid ms|tid|rs]; try (apply IH; exact S').
    rewrite (S m (or_introl eq_refl)). apply IH, S'.
  Qed.

  Lemma bheard_one now w m : m_response m = true -> fst (bheard now w [ESendAll m]) = fst (rep (S (d m)) now m w).
  Proof. intro H. cbn [bheard]. rewrite H. destruct (rep (S (d m)) now m w). reflexivity. Qed.

  Lemma heard_goodbye_e T now w p s t nm :
    bytes_eqb T browse_type = false -> BI T [p; s; t] w -> Good T p s t nm ->
    BI T [] (fst (bheard now w [ESendAll (goodbye A0 P0 I0 p s t)])).
  Proof.
    intros Hbr B G. rewrite bheard_one by reflexivity. cbn [rep].
    destruct (hear_bye T now A0 P0 I0 p s t nm w Hbr B G) as (w' & E & B'). rewrite E.
    pose proof (rep_goodbye_none T now p s t nm Hbr G (d (goodbye A0 P0 I0 p s t)) w' B') as R.
    destruct (rep _ now (goodbye A0 P0 I0 p s t) w') as [w2 o2]. exact R.
  Qed.
  Lemma heard_fresh_e T now w p s t nm :
    T <> [] -> bytes_eqb T browse_type = false -> BI T [] w -> Good T p s t nm ->
    BI T [p; s; t] (fst (bheard now w [ESendAll (announcement A0 P0 I0 p s t)])).
  Proof.
    intros HT Hbr B G. rewrite bheard_one by reflexivity. cbn [rep].
    destruct (hear_fresh T now A0 P0 I0 p s t nm w HT Hbr B G) as (te & w' & _ & E & B'). rewrite E.
    pose proof (rep_announcement_same T now p s t nm HT Hbr G (d (announcement A0 P0 I0 p s t)) w' B') as R.
    destruct (rep _ now (announcement A0 P0 I0 p s t) w') as [w2 o2]. exact R.
  Qed.
  Lemma heard_over_e T now w p s t p' s' t' nm :
    T <> [] -> bytes_eqb T browse_type = false -> BI T [p; s; t] w -> Good T p s t nm -> Good T p' s' t' nm ->
    BI T [p'; s'; t'] (fst (bheard now w [ESendAll (announcement A0 P0 I0 p' s' t')])).
  Proof.
    intros HT Hbr B G G'. rewrite bheard_one by reflexivity. cbn [rep].
    destruct (hear_over T now A0 P0 I0 p s t p' s' t' nm w HT Hbr B G G') as (te & w' & _ & E & B'). rewrite E.
    pose proof (rep_announcement_same T now p' s' t' nm HT Hbr G' (d (announcement A0 P0 I0 p' s' t')) w' B') as R.
    destruct (rep _ now (announcement A0 P0 I0 p' s' t') w') as [w2 o2]. exact R.
  Qed.

  (* every multicast response arrives 1 + d(message) times in a row: the browser ends in the same state *)
  Theorem pair_converges_duplicated T c L w :
    T <> [] -> bytes_eqb T browse_type = false -> preach bheard T c L w ->
    exists cch b, w = mkWorld [cch] [b] 0 /\
      (pv_exists (cp_prov c) = true -> pv_confirmed (cp_prov c) = true ->
         exists nm, r_name (pv_srv (cp_prov c)) = Some (nm ++ DOT :: T) /\
                    b_services b = [(nm ++ DOT :: T, svc_of T nm (pv_srv (cp_prov c)) (pv_txt (cp_prov c)))] /\
                    held cch = [pv_ptr (cp_prov c); pv_srv (cp_prov c); pv_txt (cp_prov c)]) /\
      (pv_exists (cp_prov c) && pv_confirmed (cp_prov c) = false -> b_services b = [] /\ held cch = []).
  Proof.
    exact (browser_reports_what_is_served bheard bheard_app bheard_silent heard_goodbye_e heard_fresh_e heard_over_e T c L w).
  Qed.
End Dup.
