(* EncoderMsg.v — C01 at message level: what toPacket writes is a conformant encoding (WireMsg.MessageAt) of the message;
   with DecoderMsg.message_complete the library's own decoder therefore returns exactly that message. *)
From QV Require Import Base Fields SrcFacts Msg Decoder Encoder WireSpec DecoderSafety DecoderComplete EncoderProofs WireMsg DecoderMsg.
From Coq Require Import ZifyBool ZifyNat ZifyN.
Local Open Scope N_scope.

(* ---- well-formed names: at least one label, labels of 1..63 bytes without '.', trailing dot ---- *)
Definition WfName (n : bstr) (ls : list bytes) : Prop := ls <> [] /\ Forall wf_label ls /\ n = Some (join ls ++ [DOT]).
Definition usize_name (ls : list bytes) : N := lenN (join ls) + 2.      (* uncompressed size *)

Lemma name_of_wf n ls : WfName n ls -> name_of None ls = n.
Proof.
  intros (H1 & _ & ->). unfold name_of. destruct ls as [|l ls]; [congruence|]. cbn [bs_data app].
  rewrite join_dotted by discriminate. reflexivity.
Qed.

Lemma Has_here (A l C : bytes) : Has (mem_of (A ++ l ++ C)) (lenN (A ++ l ++ C)) (lenN A) l.
Proof. split; [rewrite !lenN_app; lia|apply bytes_at_here]. Qed.

Lemma write_name_ok P m n ls bs off' m' :
  WfName n ls -> MapOK P m -> lenN P + usize_name ls <= 16384 ->
  write_name n (lenN P) m = (bs, off', m') ->
  off' = lenN (P ++ bs) /\ lenN bs <= usize_name ls /\
  (forall Q, NameAt (mem_of (P ++ bs ++ Q)) (lenN (P ++ bs ++ Q)) (lenN P) (lenN P) ls (lenN (P ++ bs))) /\
  MapOK (P ++ bs) m'.
Proof.
  intros (Hne & Hwf & ->) HM Hsize Hw. unfold usize_name in *. unfold write_name in Hw. cbn [bs_data] in Hw. rewrite chop_dot_join in Hw.
  assert (HP : lenN (P ++ []) = lenN P) by (rewrite app_nil_r; reflexivity).
  rewrite <- HP in Hw. change m with ([] ++ m) in Hw.
  destruct (write_frag_ok ls P [] [] m (S (length (join ls))) bs off' m' Hne Hwf HM ltac:(intros k o []) ltac:(lia) ltac:(rewrite HP; lia) Hw)
    as (O1 & O2 & O3 & news & O4 & O5).
  cbn [app] in *. rewrite HP in *.
  split; [exact O1|]. split; [exact O2|]. split.
  - intro Q. rewrite app_assoc. subst off'. apply NameAt_ext. apply O3. lia.
  - intros k o Hin. rewrite O4 in Hin. apply in_app_iff in Hin as [Hin|Hin].
    + apply (O5 k o Hin).
    + apply good_ext, HM, Hin.
Qed.

(* ---- TXT ---- *)
Definition txt_string (kv : bytes * bstr) : bytes := match snd kv with None => fst kv | Some d => fst kv ++ [EQS] ++ d end.
Definition wf_attr (kv : bytes * bstr) : Prop :=
  fst kv <> [] /\ index_of EQS (fst kv) = None /\ lenN (txt_string kv) <= 255.
Fixpoint keys_sorted (ats : attrs) : Prop :=
  match ats with
  | [] => True
  | (k, _) :: rest => (forall k' v', In (k', v') rest -> bytes_ltb k k' = true) /\ keys_sorted rest
  end.

Lemma Has_at buf off l : (exists A C, buf = A ++ l ++ C /\ lenN A = off) -> Has (mem_of buf) (lenN buf) off l.
Proof. intros (A & C & -> & <-). apply Has_here. Qed.
Lemma mem_at buf off x : (exists A C, buf = A ++ x :: C /\ lenN A = off) -> mem_of buf off = x.
Proof.
  intros (A & C & -> & <-). pose proof (bytes_at_here A [x] C 0%nat ltac:(cbn; lia)) as B. rewrite N.add_0_r in B. exact B.
Qed.

Lemma write_txt_cons kv ats : lenN (txt_string kv) <= 255 ->
  write_txt (kv :: ats) = [lenN (txt_string kv)] ++ txt_string kv ++ write_txt ats.
Proof.
  intro K3. destruct kv as [k [d|]]; cbn [write_txt txt_string fst snd] in *; unfold wr8, w8; rewrite N.mod_small by lia;
    rewrite <- ?app_assoc; reflexivity.
Qed.

Lemma TxtAt_written : forall ats A C buf, buf = A ++ write_txt ats ++ C -> Forall wf_attr ats ->
  TxtAt (mem_of buf) (lenN buf) (lenN A) (lenN A + lenN (write_txt ats)) (map txt_string ats).
Proof.
  induction ats as [|kv ats IH]; intros A C buf Hb Hwf.
  - cbn [write_txt map lenN length N.of_nat]. rewrite N.add_0_r. constructor.
  - inversion Hwf as [|? ? (K1 & K2 & K3) Hwf']; subst. rewrite (write_txt_cons kv ats K3). cbn [map].
    set (s := txt_string kv) in *.
    apply TX_str.
    + exact K3.
    + lens.
    + lens.
    + apply mem_at. exists A, (s ++ write_txt ats ++ C). split; [rewrite <- !app_assoc; reflexivity|reflexivity].
    + apply Has_at. exists (A ++ [lenN s]), (write_txt ats ++ C). split; [rewrite <- !app_assoc; reflexivity|lens].
    + specialize (IH (A ++ [lenN s] ++ s) C _ ltac:(rewrite <- !app_assoc; reflexivity) Hwf').
      replace (lenN A + 1 + lenN s) with (lenN (A ++ [lenN s] ++ s)) by lens.
      replace (lenN A + lenN ([lenN s] ++ s ++ write_txt ats)) with (lenN (A ++ [lenN s] ++ s) + lenN (write_txt ats)) by lens.
      rewrite <- !app_assoc. exact IH.
Qed.

Lemma bytes_ltb_asym : forall a b, bytes_ltb a b = true -> bytes_ltb b a = false.
Proof.
  induction a as [|x a IH]; intros [|y b]; cbn [bytes_ltb]; try discriminate; try reflexivity.
  destruct (N.ltb_spec x y) as [L1|L1], (N.ltb_spec y x) as [L2|L2]; try lia; try discriminate; try reflexivity.
Qed.

Lemma attrs_insert_last k v : forall acc, (forall k' v', In (k', v') acc -> bytes_ltb k' k = true) -> attrs_insert k v acc = acc ++ [(k, v)].
Proof.
  induction acc as [|[k' v'] acc IH]; intro H; cbn [attrs_insert app]; [reflexivity|].
  pose proof (H k' v' (or_introl eq_refl)) as L. rewrite (bytes_ltb_asym _ _ L), L. f_equal. apply IH. intros k2 v2 Hin. apply (H k2 v2). right. exact Hin.
Qed.

Lemma txt_entry_string kv acc : wf_attr kv -> txt_entry (txt_string kv) acc = attrs_insert (fst kv) (snd kv) acc.
Proof.
  intros (K1 & K2 & K3). destruct kv as [k [d|]]; cbn [txt_string fst snd] in *.
  - unfold txt_entry. destruct (k ++ [EQS] ++ d) eqn:E; [destruct k; discriminate|]. rewrite <- E.
    assert (I : index_of EQS (k ++ [EQS] ++ d) = Some (length k)).
    { clear -K2. induction k as [|x k IH]; cbn in *; [reflexivity|]. destruct (x =? EQS); [discriminate|].
      destruct (index_of EQS k); [discriminate|]. rewrite IH by reflexivity. reflexivity. }
    rewrite I. rewrite firstn_app_exact. change ([EQS] ++ d) with (EQS :: d). rewrite skipn_app_exact. reflexivity.
  - unfold txt_entry. destruct k; [congruence|]. rewrite K2. reflexivity.
Qed.

Lemma attrs_of_written : forall ats acc, Forall wf_attr ats -> keys_sorted ats ->
  (forall k' v' k v, In (k', v') acc -> In (k, v) ats -> bytes_ltb k' k = true) ->
  attrs_of_strings (map txt_string ats) acc = acc ++ ats.
Proof.
  induction ats as [|[k v] ats IH]; intros acc Hwf Hs Hacc; cbn [map attrs_of_strings fold_left]; [rewrite app_nil_r; reflexivity|].
  inversion Hwf as [|? ? W Hwf']; subst. destruct Hs as [S1 S2].
  rewrite (txt_entry_string (k, v) acc W). cbn [fst snd].
  rewrite attrs_insert_last by (intros k' v' Hin; apply (Hacc k' v' k v Hin); left; reflexivity).
  change (fold_left (fun acc0 a => txt_entry a acc0) (map txt_string ats) (acc ++ [(k, v)])) with (attrs_of_strings (map txt_string ats) (acc ++ [(k, v)])).
  rewrite IH; [rewrite <- app_assoc; reflexivity|exact Hwf'|exact S2|].
  intros k' v' k2 v2 Hin Hin2. apply in_app_iff in Hin as [Hin|[Hin|[]]].
  - apply (Hacc k' v' k2 v2 Hin). right. exact Hin2.
  - injection Hin as <- <-. apply (S1 k2 v2 Hin2).
Qed.

(* ---- records ---- *)
Ltac lens2 := unfold be16, be32 in *; lens.
Definition nsize (n : bstr) : N := lenN (bs_data n) + 1.
Lemma nsize_wf n ls : WfName n ls -> nsize n = usize_name ls.
Proof. intros (_ & _ & ->). unfold nsize, usize_name. cbn [bs_data]. rewrite lenN_app. change (lenN [DOT]) with 1. lia. Qed.

Definition canon_base (r : record) : record :=
  set_ttl (r_ttl r) (set_flush (r_flush r) (set_type (r_type r) (set_name (r_name r) default_record))).
(* the record as the decoder rebuilds it: the fields its type does not use are the defaults *)
Definition canon (r : record) : record :=
  let base := canon_base r in
  if r_type r =? 1 then set_addr (r_addr r) base
  else if r_type r =? 28 then set_addr (r_addr r) base
  else if r_type r =? 12 then set_target (r_target r) base
  else if r_type r =? 33 then set_target (r_target r) (set_port (r_port r) (set_weight (r_weight r) (set_prio (r_prio r) base)))
  else if r_type r =? 16 then set_attrs (r_attrs r) base
  else if r_type r =? 47 then set_bitmap (r_bitmap r) (set_next (r_next r) base)
  else base.

Definition wf_rdata (r : record) : Prop :=
  (r_type r = 1 /\ exists a, r_addr r = A4 a /\ a < 4294967296) \/
  (r_type r = 28 /\ exists b, r_addr r = A6 b /\ lenN b = 16) \/
  (r_type r = 12 /\ exists ls, WfName (r_target r) ls) \/
  (r_type r = 33 /\ r_prio r < 65536 /\ r_weight r < 65536 /\ r_port r < 65536 /\ exists ls, WfName (r_target r) ls) \/
  (r_type r = 16 /\ Forall wf_attr (r_attrs r) /\ keys_sorted (r_attrs r)) \/
  (r_type r = 47 /\ (exists ls, WfName (r_next r) ls) /\ lenN (r_bitmap r) <= 255).
Definition wf_record (r : record) : Prop := (exists ls, WfName (r_name r) ls) /\ r_ttl r < 4294967296 /\ wf_rdata r.

Definition usize_rdata (r : record) : N :=
  if r_type r =? 1 then 4 else if r_type r =? 28 then 16 else if r_type r =? 12 then nsize (r_target r)
  else if r_type r =? 33 then 6 + nsize (r_target r)
  else if r_type r =? 16 then match r_attrs r with [] => 1 | _ :: _ => lenN (write_txt (r_attrs r)) end
  else if r_type r =? 47 then nsize (r_next r) + 2 + lenN (r_bitmap r) else 0.
Definition usize_record (r : record) : N := nsize (r_name r) + 10 + usize_rdata r.

Lemma wr16_be x : x < 65536 -> wr16 x = be16 x.
Proof. intro H. unfold wr16. rewrite w16_id by lia. reflexivity. Qed.
Lemma wr32_be x : x < 4294967296 -> wr32 x = be32 x.
Proof. intro H. unfold wr32, w32. rewrite N.mod_small by lia. reflexivity. Qed.

Lemma w16_3 x : x + 6 <= 65535 -> w16 (w16 (w16 (x + 2) + 2) + 2) = x + 6.
Proof. intro H. rewrite (w16_id (x + 2)) by lia. rewrite (w16_id (x + 2 + 2)) by lia. rewrite w16_id by lia. lia. Qed.
Lemma w16_back o : 2 <= o <= 65535 -> w16 (w16 (o + 65534) + 2) = o.
Proof. intro H. unfold w16. lia. Qed.

(* the rdata part, for a buffer laid out as P1 ++ data ++ Q with the map valid for P1 *)
Lemma write_rdata_ok (r : record) P1 m1 o2 :
  o2 = lenN P1 -> wf_rdata r -> MapOK P1 m1 -> lenN P1 + usize_rdata r <= 16384 -> 2 <= lenN P1 ->
  let '(data, o3, m3) :=
    if r_type r =? T_A then (wr32 (addr_to_v4 (r_addr r)), w16 (o2 + 4), m1)
    else if r_type r =? T_AAAA then
      let d := addr_to_v6 (r_addr r) in (d, w16 (o2 + lenN d), m1)
    else if r_type r =? T_NSEC then
      let blen := w8 (lenN (r_bitmap r)) in
      let '(nn, o, m2) := write_name (r_next r) (o2) m1 in
      (nn ++ wr8 0 ++ wr8 blen ++ firstn (N.to_nat blen) (r_bitmap r), w16 (w16 (w16 (o + 1) + 1) + blen), m2)
    else if r_type r =? T_PTR then write_name (r_target r) (o2) m1
    else if r_type r =? T_SRV then
      let '(tn, o, m2) := write_name (r_target r) (w16 (w16 (w16 (o2 + 2) + 2) + 2)) m1 in
      (wr16 (r_prio r) ++ wr16 (r_weight r) ++ wr16 (r_port r) ++ tn, o, m2)
    else if r_type r =? T_TXT then
      match r_attrs r with
      | [] => (wr8 0, w16 (o2 + 1), m1)
      | _ :: _ => let d := write_txt (r_attrs r) in (d, w16 (o2 + lenN d), m1)
      end
    else ([], o2, m1) in
  o3 = lenN (P1 ++ data) /\ lenN data <= usize_rdata r /\ MapOK (P1 ++ data) m3 /\
  forall base Q, r_type base = r_type r ->
    RDataAt (mem_of (P1 ++ data ++ Q)) (lenN (P1 ++ data ++ Q)) base (lenN P1) (lenN data)
            (if r_type r =? 1 then set_addr (r_addr r) base
             else if r_type r =? 28 then set_addr (r_addr r) base
             else if r_type r =? 12 then set_target (r_target r) base
             else if r_type r =? 33 then set_target (r_target r) (set_port (r_port r) (set_weight (r_weight r) (set_prio (r_prio r) base)))
             else if r_type r =? 16 then set_attrs (r_attrs r) base
             else if r_type r =? 47 then set_bitmap (r_bitmap r) (set_next (r_next r) base)
             else base).
Proof.
  intros -> Hwf HM Hsize H2. unfold usize_rdata in *.
  destruct Hwf as [(T & a & Ea & Ha)|[(T & b & Eb & Lb)|[(T & ls & Wn)|[(T & Hp & Hw & Hq & ls & Wn)|[(T & Wa & Ws)|(T & (ls & Wn) & Lbm)]]]]]; rewrite T in *.
  - (* A *)
    change (1 =? T_A) with true. cbv iota. rewrite Ea. cbn [addr_to_v4]. rewrite (wr32_be a Ha).
    change (1 =? 1) with true in *. cbv iota in *.
    split; [rewrite w16_id by lia; lens2|]. split; [change (lenN (be32 a)) with 4; lia|]. split; [apply MapOK_ext, HM|].
    intros base Q Tb. apply RD_A; [exact Tb|reflexivity|exact Ha|]. apply Has_at. exists P1, Q. auto.
  - (* AAAA *)
    change (28 =? T_A) with false. change (28 =? T_AAAA) with true. cbv iota. rewrite Eb. cbn [addr_to_v6].
    change (28 =? 1) with false in *. change (28 =? 28) with true in *. cbv iota in *.
    split; [rewrite w16_id by lia; lens2|]. split; [lia|]. split; [apply MapOK_ext, HM|].
    intros base Q Tb. apply RD_AAAA; [exact Tb|exact Lb|exact Lb|]. apply Has_at. exists P1, Q. auto.
  - (* PTR *)
    change (12 =? T_A) with false. change (12 =? T_AAAA) with false. change (12 =? T_NSEC) with false. change (12 =? T_PTR) with true. cbv iota.
    change (12 =? 1) with false in *. change (12 =? 28) with false in *. change (12 =? 12) with true in *. cbv iota in *.
    rewrite (nsize_wf _ _ Wn) in *.
    destruct (write_name (r_target r) (lenN P1) m1) as [[tn o] m2] eqn:WN.
    destruct (write_name_ok P1 m1 _ ls tn o m2 Wn HM ltac:(lia) WN) as (O1 & O2 & O3 & O4).
    split; [exact O1|]. split; [exact O2|]. split; [exact O4|].
    intros base Q Tb. rewrite <- (name_of_wf _ _ Wn). apply RD_PTR; [exact Tb|].
    replace (lenN P1 + lenN tn) with (lenN (P1 ++ tn)) by lens2. apply O3.
  - (* SRV *)
    change (33 =? T_A) with false. change (33 =? T_AAAA) with false. change (33 =? T_NSEC) with false. change (33 =? T_PTR) with false.
    change (33 =? T_SRV) with true. cbv iota.
    change (33 =? 1) with false in *. change (33 =? 28) with false in *. change (33 =? 12) with false in *. change (33 =? 33) with true in *. cbv iota in *.
    rewrite (nsize_wf _ _ Wn) in *.
    rewrite (wr16_be _ Hp), (wr16_be _ Hw), (wr16_be _ Hq).
    set (six := be16 (r_prio r) ++ be16 (r_weight r) ++ be16 (r_port r)).
    assert (L6 : lenN six = 6) by reflexivity.
    replace (w16 (w16 (w16 (lenN P1 + 2) + 2) + 2)) with (lenN (P1 ++ six)) by (rewrite w16_3 by lia; lens2).
    destruct (write_name (r_target r) (lenN (P1 ++ six)) m1) as [[tn o] m2] eqn:WN.
    destruct (write_name_ok (P1 ++ six) m1 _ ls tn o m2 Wn (MapOK_ext _ _ _ HM) ltac:(rewrite lenN_app; lia) WN) as (O1 & O2 & O3 & O4).
    replace (be16 (r_prio r) ++ be16 (r_weight r) ++ be16 (r_port r) ++ tn) with (six ++ tn) by (unfold six; rewrite <- !app_assoc; reflexivity).
    split; [rewrite O1; rewrite <- !app_assoc; reflexivity|]. split; [rewrite lenN_app; lia|].
    split; [rewrite app_assoc; exact O4|].
    intros base Q Tb. rewrite <- (name_of_wf _ _ Wn). apply RD_SRV; try assumption.
    + apply Has_at. exists P1, (tn ++ Q). split; [rewrite <- !app_assoc; reflexivity|reflexivity].
    + specialize (O3 Q). rewrite <- !app_assoc in O3.
      replace (lenN P1 + 6) with (lenN (P1 ++ six)) by (rewrite lenN_app; lia).
      replace (lenN P1 + lenN (six ++ tn)) with (lenN (P1 ++ six ++ tn)) by lens2.
      rewrite <- !app_assoc. exact O3.
  - (* TXT *)
    change (16 =? T_A) with false. change (16 =? T_AAAA) with false. change (16 =? T_NSEC) with false. change (16 =? T_PTR) with false.
    change (16 =? T_SRV) with false. change (16 =? T_TXT) with true. cbv iota.
    change (16 =? 1) with false in *. change (16 =? 28) with false in *. change (16 =? 12) with false in *. change (16 =? 33) with false in *.
    change (16 =? 16) with true in *. cbv iota in *.
    destruct (r_attrs r) as [|kv ats] eqn:EA.
    + change (wr8 0) with [0]. split; [rewrite w16_id by lia; lens2|]. split; [change (lenN [0]) with 1; lia|]. split; [apply MapOK_ext, HM|].
      intros base Q Tb. change (@nil (bytes * bstr)) with (attrs_of_strings [[]] []).
      apply RD_TXT; [exact Tb|lens2|].
      change (lenN [0]) with 1. eapply TX_str with (a := []).
      * cbn. lia.
      * cbn. lia.
      * lens2.
      * apply mem_at. exists P1, Q. auto.
      * apply Has_at. exists (P1 ++ [0]), Q. split; [rewrite <- !app_assoc; reflexivity|lens2].
      * change (lenN (@nil N)) with 0. rewrite N.add_0_r. constructor.
    + rewrite <- EA in *. set (d := write_txt (r_attrs r)) in *.
      split; [rewrite w16_id by lia; lens2|]. split; [rewrite EA in *; lia|]. split; [apply MapOK_ext, HM|].
      intros base Q Tb.
      replace (set_attrs (r_attrs r) base) with (set_attrs (attrs_of_strings (map txt_string (r_attrs r)) []) base)
        by (rewrite (attrs_of_written (r_attrs r) [] Wa Ws ltac:(intros ? ? ? ? [])); reflexivity).
      apply RD_TXT; [exact Tb|lens2|]. apply (TxtAt_written (r_attrs r) P1 Q _ eq_refl Wa).
  - (* NSEC *)
    change (47 =? T_A) with false. change (47 =? T_AAAA) with false. change (47 =? T_NSEC) with true. cbv iota.
    change (47 =? 1) with false in *. change (47 =? 28) with false in *. change (47 =? 12) with false in *. change (47 =? 33) with false in *.
    change (47 =? 16) with false in *. change (47 =? 47) with true in *. cbv iota in *.
    rewrite (nsize_wf _ _ Wn) in *.
    destruct (write_name (r_next r) (lenN P1) m1) as [[nn o] m2] eqn:WN.
    destruct (write_name_ok P1 m1 _ ls nn o m2 Wn HM ltac:(lia) WN) as (O1 & O2 & O3 & O4).
    assert (Ew : w8 (lenN (r_bitmap r)) = lenN (r_bitmap r)) by (unfold w8; apply N.mod_small; lia).
    rewrite Ew. replace (N.to_nat (lenN (r_bitmap r))) with (length (r_bitmap r)) by (unfold lenN; lia). rewrite firstn_all.
    change (wr8 0) with [0]. unfold wr8. rewrite Ew.
    set (bm := r_bitmap r) in *. set (tail := [0] ++ [lenN bm] ++ bm).
    assert (Lt : lenN tail = 2 + lenN bm) by (unfold tail; lens2).
    split; [rewrite O1; rewrite (w16_id (lenN (P1 ++ nn) + 1)) by lens2; rewrite (w16_id (lenN (P1 ++ nn) + 1 + 1)) by lens2;
            rewrite w16_id by lens2; lens2|].
    split; [lens2|]. split; [rewrite app_assoc; apply MapOK_ext, O4|].
    intros base Q Tb. rewrite <- (name_of_wf _ _ Wn).
    apply RD_NSEC with (e1 := lenN (P1 ++ nn)); [exact Tb| |exact Lbm| |lens2].
    + specialize (O3 (tail ++ Q)). rewrite <- !app_assoc in *. exact O3.
    + apply Has_at. exists (P1 ++ nn), Q. split; [rewrite <- !app_assoc; reflexivity|reflexivity].
Qed.

Lemma canon_eq r : canon r =
  (let base := canon_base r in
   if r_type r =? 1 then set_addr (r_addr r) base
   else if r_type r =? 28 then set_addr (r_addr r) base
   else if r_type r =? 12 then set_target (r_target r) base
   else if r_type r =? 33 then set_target (r_target r) (set_port (r_port r) (set_weight (r_weight r) (set_prio (r_prio r) base)))
   else if r_type r =? 16 then set_attrs (r_attrs r) base
   else if r_type r =? 47 then set_bitmap (r_bitmap r) (set_next (r_next r) base)
   else base).
Proof. reflexivity. Qed.

Lemma wf_type_small r : wf_rdata r -> r_type r < 65536.
Proof. intros [(T & _)|[(T & _)|[(T & _)|[(T & _)|[(T & _)|(T & _)]]]]]; rewrite T; lia. Qed.

Lemma w16_hdr x : x + 10 <= 65535 -> w16 (w16 (w16 (w16 (x + 2) + 2) + 4) + 2) = x + 10.
Proof.
  intro H. rewrite (w16_id (x + 2)) by lia. rewrite (w16_id (x + 2 + 2)) by lia. rewrite (w16_id (x + 2 + 2 + 4)) by lia.
  rewrite w16_id by lia. lia.
Qed.

Lemma write_record_ok P m r rb off' m' :
  wf_record r -> MapOK P m -> lenN P + usize_record r <= 16384 ->
  write_record r (lenN P) m = (rb, off', m') ->
  off' = lenN (P ++ rb) /\ lenN rb <= usize_record r /\ MapOK (P ++ rb) m' /\
  forall Q, RecordAt (mem_of (P ++ rb ++ Q)) (lenN (P ++ rb ++ Q)) (lenN P) (canon r) (lenN (P ++ rb)).
Proof.
  intros ((ls & Wn) & Httl & Wd) HM Hsize Hw. unfold usize_record in Hsize. unfold write_record in Hw.
  rewrite (nsize_wf _ _ Wn) in Hsize.
  destruct (write_name (r_name r) (lenN P) m) as [[nb o1] m1] eqn:WN.
  destruct (write_name_ok P m _ ls nb o1 m1 Wn HM ltac:(lia) WN) as (O1 & O2 & O3 & O4).
  set (cls := if r_flush r then class_flush_word else class_plain_word) in *.
  assert (Hcls : cls < 65536) by (unfold cls; destruct (r_flush r); vm_compute; reflexivity).
  assert (Hty := wf_type_small r Wd).
  rewrite O1 in Hw. rewrite w16_hdr in Hw by lens.
  set (o2 := lenN (P ++ nb) + 10) in *.
  revert Hw. destruct (if r_type r =? T_A then _ else _) as [[data o3] m3] eqn:RD. intro Hw.
  apply pair_equal_spec in Hw as [Hw Hm']. apply pair_equal_spec in Hw as [Hrb Hoff]. subst rb off' m'.
  set (fixed := wr16 (r_type r) ++ wr16 cls ++ wr32 (r_ttl r) ++ wr16 (lenN data)).
  assert (Lf : lenN fixed = 10) by reflexivity.
  pose proof (write_rdata_ok r (P ++ nb ++ fixed) m1 o2 ltac:(unfold o2; lens) Wd
               ltac:(rewrite app_assoc; apply MapOK_ext, O4) ltac:(unfold usize_record in *; lens) ltac:(lens)) as RDok.
  cbv zeta in RDok. rewrite RD in RDok. destruct RDok as (D1 & D2 & D3 & D4).
  assert (Ldata : lenN data < 65536) by lens.
  assert (Erb : (nb ++ wr16 (r_type r) ++ wr16 cls ++ wr32 (r_ttl r)) ++ wr16 (lenN data) ++ data = nb ++ fixed ++ data)
    by (unfold fixed; rewrite <- !app_assoc; reflexivity).
  rewrite Erb.
  split; [rewrite D1; rewrite w16_back by lens; rewrite <- !app_assoc; reflexivity|].
  split; [unfold usize_record; rewrite (nsize_wf _ _ Wn); lens|].
  split; [rewrite <- !app_assoc in D3; exact D3|].
  intro Q.
  assert (Efix : fixed = be16 (r_type r) ++ be16 cls ++ be32 (r_ttl r) ++ be16 (lenN data))
    by (unfold fixed; rewrite !wr16_be, wr32_be by assumption; reflexivity).
  replace (lenN (P ++ nb ++ fixed ++ data)) with (lenN (P ++ nb) + 10 + lenN data) by lens.
  eapply RA with (ls := ls) (cls := cls) (type := r_type r) (ttl := r_ttl r); try assumption.
  - specialize (O3 (fixed ++ data ++ Q)). rewrite <- !app_assoc in *. exact O3.
  - rewrite <- Efix. apply Has_at. exists (P ++ nb), (data ++ Q). split; [rewrite <- !app_assoc; reflexivity|reflexivity].
  - specialize (D4 (base_record (name_of None ls) (r_type r) cls (r_ttl r)) Q eq_refl).
    rewrite (name_of_wf _ _ Wn) in *. rewrite canon_eq.
    assert (Eb : base_record (r_name r) (r_type r) cls (r_ttl r) = canon_base r)
      by (unfold base_record, canon_base, cls, top_bit; destruct (r_flush r); reflexivity).
    rewrite Eb in *. cbv zeta.
    rewrite <- !app_assoc in D4. rewrite <- !app_assoc. replace (lenN (P ++ nb) + 10) with (lenN (P ++ nb ++ fixed)) by lens. exact D4.
Qed.

(* ---- questions, lists, the whole message ---- *)
Definition wf_query (q : query) : Prop := (exists ls, WfName (q_name q) ls) /\ q_type q < 65536.
Definition usize_query (q : query) : N := nsize (q_name q) + 4.
Definition sumN {A} (f : A -> N) (l : list A) : N := fold_right (fun x acc => f x + acc) 0 l.

Lemma w16_q x : x + 4 <= 65535 -> w16 (w16 (x + 2) + 2) = x + 4.
Proof. intro H. rewrite (w16_id (x + 2)) by lia. rewrite w16_id by lia. lia. Qed.

Lemma write_queries_ok : forall qs P m qb off' m',
  Forall wf_query qs -> MapOK P m -> lenN P + sumN usize_query qs <= 16384 ->
  write_queries qs (lenN P) m = (qb, off', m') ->
  off' = lenN (P ++ qb) /\ lenN qb <= sumN usize_query qs /\ MapOK (P ++ qb) m' /\
  forall Q, QueriesAt (mem_of (P ++ qb ++ Q)) (lenN (P ++ qb ++ Q)) (lenN P) qs (lenN (P ++ qb)).
Proof.
  induction qs as [|q qs IH]; intros P m qb off' m' Hwf HM Hsize Hw; cbn [write_queries sumN fold_right] in *.
  - apply pair_equal_spec in Hw as [Hw <-]. apply pair_equal_spec in Hw as [<- <-]. rewrite app_nil_r.
    split; [reflexivity|]. split; [cbn; lia|]. split; [exact HM|]. intro Q. constructor.
  - inversion Hwf as [|? ? ((ls & Wn) & Hty) Hwf']; subst. unfold usize_query in Hsize at 1. rewrite (nsize_wf _ _ Wn) in Hsize.
    destruct (write_name (q_name q) (lenN P) m) as [[nb o1] m1] eqn:WN.
    destruct (write_name_ok P m _ ls nb o1 m1 Wn HM ltac:(fold (sumN usize_query qs) in Hsize; lia) WN) as (O1 & O2 & O3 & O4).
    fold (sumN usize_query qs) in *.
    set (cls := if q_unicast q then class_unicast_word else 1) in *.
    assert (Hcls : cls < 65536) by (unfold cls; destruct (q_unicast q); vm_compute; reflexivity).
    set (four := wr16 (q_type q) ++ wr16 cls). assert (L4 : lenN four = 4) by reflexivity.
    rewrite O1 in Hw. rewrite w16_q in Hw by lens.
    replace (lenN (P ++ nb) + 4) with (lenN (P ++ nb ++ four)) in Hw by lens.
    destruct (write_queries qs (lenN (P ++ nb ++ four)) m1) as [[bs o2] m2] eqn:WQ.
    apply pair_equal_spec in Hw as [Hw Hm']. apply pair_equal_spec in Hw as [Hqb Hoff]. subst qb off' m'.
    destruct (IH (P ++ nb ++ four) m1 bs o2 m2 Hwf' ltac:(rewrite app_assoc; apply MapOK_ext, O4) ltac:(lens) WQ) as (I1 & I2 & I3 & I4).
    replace (nb ++ wr16 (q_type q) ++ wr16 cls ++ bs) with (nb ++ four ++ bs) by (unfold four; rewrite <- !app_assoc; reflexivity).
    split; [rewrite I1; rewrite <- !app_assoc; reflexivity|].
    split; [unfold usize_query at 1; rewrite (nsize_wf _ _ Wn); lens|].
    split; [rewrite <- !app_assoc in I3; exact I3|].
    intro Q. eapply QS_cons with (e := lenN (P ++ nb ++ four)).
    + replace (lenN (P ++ nb ++ four)) with (lenN (P ++ nb) + 4) by lens.
      assert (Eq : q = mkQuery (name_of None ls) (q_type q) (top_bit cls)).
      { rewrite (name_of_wf _ _ Wn). destruct q as [qn qt qu]. unfold cls, top_bit. cbn. destruct qu; reflexivity. }
      assert (QA' : QueryAt (mem_of (P ++ (nb ++ four ++ bs) ++ Q)) (lenN (P ++ (nb ++ four ++ bs) ++ Q)) (lenN P)
                            (mkQuery (name_of None ls) (q_type q) (top_bit cls)) (lenN (P ++ nb) + 4)).
      { apply QA; try assumption.
        * specialize (O3 (four ++ bs ++ Q)). rewrite <- !app_assoc in *. exact O3.
        * unfold four. rewrite !wr16_be by assumption. apply Has_at. exists (P ++ nb), (bs ++ Q).
          split; [rewrite <- !app_assoc; reflexivity|reflexivity]. }
      rewrite <- Eq in QA'. exact QA'.
    + specialize (I4 Q). rewrite <- !app_assoc in *. exact I4.
Qed.

Lemma write_records_ok : forall rs P m rb off' m',
  Forall wf_record rs -> MapOK P m -> lenN P + sumN usize_record rs <= 16384 ->
  write_records rs (lenN P) m = (rb, off', m') ->
  off' = lenN (P ++ rb) /\ lenN rb <= sumN usize_record rs /\ MapOK (P ++ rb) m' /\
  forall Q, RecordsAt (mem_of (P ++ rb ++ Q)) (lenN (P ++ rb ++ Q)) (lenN P) (map canon rs) (lenN (P ++ rb)).
Proof.
  induction rs as [|r rs IH]; intros P m rb off' m' Hwf HM Hsize Hw; cbn [write_records sumN fold_right map] in *.
  - apply pair_equal_spec in Hw as [Hw <-]. apply pair_equal_spec in Hw as [<- <-]. rewrite app_nil_r.
    split; [reflexivity|]. split; [cbn; lia|]. split; [exact HM|]. intro Q. constructor.
  - inversion Hwf as [|? ? Wr Hwf']; subst. fold (sumN usize_record rs) in *.
    destruct (write_record r (lenN P) m) as [[b1 o1] m1] eqn:WR.
    destruct (write_record_ok P m r b1 o1 m1 Wr HM ltac:(lia) WR) as (O1 & O2 & O3 & O4).
    rewrite O1 in Hw. destruct (write_records rs (lenN (P ++ b1)) m1) as [[bs o2] m2] eqn:WS.
    apply pair_equal_spec in Hw as [Hw Hm']. apply pair_equal_spec in Hw as [Hrb Hoff]. subst rb off' m'.
    destruct (IH (P ++ b1) m1 bs o2 m2 Hwf' O3 ltac:(lens) WS) as (I1 & I2 & I3 & I4).
    split; [rewrite I1; rewrite <- !app_assoc; reflexivity|]. split; [lens|].
    split; [rewrite <- !app_assoc in I3; exact I3|].
    intro Q. eapply RS_cons with (e := lenN (P ++ b1)).
    + specialize (O4 (bs ++ Q)). rewrite <- !app_assoc in *. exact O4.
    + specialize (I4 Q). rewrite <- !app_assoc in *. exact I4.
Qed.

Definition canon_message (m : message) : message :=
  mkMessage ANull 0 (m_id m) (m_response m) (m_truncated m) (m_queries m) (map canon (m_records m)).
Definition usize_message (m : message) : N := 12 + sumN usize_query (m_queries m) + sumN usize_record (m_records m).
Definition wf_message (m : message) : Prop :=
  m_id m < 65536 /\ Forall wf_query (m_queries m) /\ Forall wf_record (m_records m) /\ usize_message m <= 16384.

Lemma sumN_count {A} (f : A -> N) l : (forall x, 1 <= f x) -> lenN l <= sumN f l.
Proof. intro H. induction l as [|x l IH]; cbn [sumN fold_right]; [cbn; lia|]. rewrite lenN_cons. specialize (H x). fold (sumN f l). lia. Qed.

Theorem to_packet_conformant m :
  wf_message m -> lenN (to_packet m) <= 16384 /\ MessageAt (mem_of (to_packet m)) (lenN (to_packet m)) (canon_message m).
Proof.
  intros (Hid & Wq & Wr & Hsize). unfold usize_message in Hsize. unfold to_packet.
  set (flags := N.lor (if m_response m then flags_response_word else 0) (if m_truncated m then flags_truncated_word else 0)).
  set (hdr := wr16 (m_id m) ++ wr16 flags ++ wr16 (lenN (m_queries m)) ++ wr16 (lenN (m_records m)) ++ wr16 0 ++ wr16 0).
  assert (Lh : lenN hdr = 12) by reflexivity.
  assert (Hnq : lenN (m_queries m) <= sumN usize_query (m_queries m)) by (apply sumN_count; intro; unfold usize_query; lia).
  assert (Hnr : lenN (m_records m) <= sumN usize_record (m_records m)) by (apply sumN_count; intro; unfold usize_record; lia).
  assert (Hfl : flags < 65536) by (unfold flags; destruct (m_response m), (m_truncated m); vm_compute; reflexivity).
  destruct (write_queries (m_queries m) 12 []) as [[qb o1] m1] eqn:WQ. change 12 with (lenN hdr) in WQ.
  destruct (write_queries_ok _ hdr [] qb o1 m1 Wq ltac:(intros k o []) ltac:(lia) WQ) as (Q1 & Q2 & Q3 & Q4).
  rewrite Q1. destruct (write_records (m_records m) (lenN (hdr ++ qb)) m1) as [[rb o2] m2] eqn:WR.
  destruct (write_records_ok _ (hdr ++ qb) m1 rb o2 m2 Wr Q3 ltac:(lens) WR) as (R1 & R2 & R3 & R4).
  split; [lens|].
  exists (m_id m), flags, (lenN (m_records m)), 0, 0, (lenN (hdr ++ qb)), (lenN ((hdr ++ qb) ++ rb)).
  cbn [canon_message m_queries m_records m_addr m_port m_id m_response m_truncated].
  assert (Lm : lenN (map canon (m_records m)) = lenN (m_records m)) by (unfold lenN; rewrite map_length; reflexivity).
  split; [exact Hid|]. split; [exact Hfl|]. split; [lia|]. split; [lia|]. split; [lia|]. split; [lia|].
  split; [rewrite Lm; lia|]. split; [lia|].
  split.
  { apply Has_at. exists [], (qb ++ rb). split; [|reflexivity]. cbn [app]. unfold hdr.
    rewrite !wr16_be by lia. rewrite <- !app_assoc. reflexivity. }
  split.
  { specialize (Q4 rb). rewrite Lh in Q4. exact Q4. }
  split.
  { specialize (R4 []). rewrite !app_nil_r in R4. rewrite <- !app_assoc in *. exact R4. }
  split; [reflexivity|]. split; [reflexivity|]. split; [reflexivity|].
  split; unfold flags; destruct (m_response m), (m_truncated m); vm_compute; reflexivity.
Qed.

(* C01, the library's own decoder on the library's own encoding *)
Theorem decode_to_packet m : wf_message m -> decode (to_packet m) = Ok (canon_message m).
Proof.
  intro W. destruct (to_packet_conformant m W) as [L M]. unfold decode.
  apply (message_complete (mem_of (to_packet m)) (lenN (to_packet m)) ltac:(lia) (fuel_for (to_packet m))); [|exact M].
  unfold fuel_for, lenN. lia.
Qed.
