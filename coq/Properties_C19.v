(* Properties_C19.v — a browser keeps asking: periodic, follow-up and refresh questions (partial). *)
From QV Require Import Base Fields SrcFacts Msg SrcDecisions Cache Sim Browser BrowserSpec BrowserProofs.
Local Open Scope Z_scope.

(* PARTIAL (handler level).  The browse question: one PTR question for the browser's type, listing exactly the PTR
   records the cache holds for that name, after which the 60 s timer (period read from browser.cpp) is re-armed; it is
   sent at creation and on every expiry of that timer.  A refresh warning makes the browser ask for that record's name
   and type.  That the questions are actually sent on time over whole histories (codes 70-74: period, follow-up for
   instances lacking an SRV, refresh instants, enumerate-all batching) is decided on every run by mon_browser. *)
Theorem C19_browse_question_partial j w b :
  nth_error (w_browsers w) j = Some b ->
  exists m, browser_query_timeout j w = [ESendAll m; EStart (T_QUERY_OF j) browse_period_ms] /\
    m_response m = false /\ m_queries m = [mkQuery (b_type b) T_PTR false] /\
    m_records m = lookup_view (b_type b) T_PTR (match nth_error (w_caches w) (b_cache b) with Some c => view_of c | None => [] end).
Proof. exact (query_timeout_spec j w b). Qed.
Print Assumptions C19_browse_question_partial.

Theorem C19_period_at_most_60s : browse_period_ms <= 60000.
Proof. exact browse_period_is_60s. Qed.
Print Assumptions C19_period_at_most_60s.

Theorem C19_refresh_question_partial r :
  on_should_query r = [ESendAll (add_query (mkQuery (r_name r) (r_type r) false) default_message)].
Proof. exact (should_query_spec r). Qed.
Print Assumptions C19_refresh_question_partial.
