(* Properties_C19.v — a browser keeps asking: periodic, follow-up and refresh questions. *)
From QV Require Import Base Fields SrcFacts Msg SrcDecisions Cache Sim SimProofs Browser BrowserSpec BrowserProofs BrowserInv BrowserTimers.
Local Open Scope Z_scope.

(* Handler level (the run-level invariant follows below).  The browse question: one PTR question for the browser's type, listing exactly the PTR
   records the cache holds for that name, after which the 60 s timer (period read from browser.cpp) is re-armed; it is
   sent at creation and on every expiry of that timer.  A refresh warning makes the browser ask for that record's name
   and type.  That the questions are actually sent on time over whole histories (codes 70-74: period, follow-up for
   instances lacking an SRV, refresh instants, enumerate-all batching) is decided on every run by mon_browser. *)
Theorem C19_browse_question_partial j w b :
  nth_error (w_browsers w) j = Some b ->
  exists m, browser_query_timeout j w = [ESendAll m; EStart (T_QUERY_OF j) browse_period_ms] /\
    m_response m = false /\ m_queries m = [mkQuery (b_type b) T_PTR false] /\
    m_records m = lookup_view (b_type b) T_PTR (match nth_error (w_caches w) (b_cache b) with Some c => view_of c | None => [] end).
Proof. exact (query_timeout_spec j w b). Qed.
Print Assumptions C19_browse_question_partial.

Theorem C19_period_at_most_60s : browse_period_ms <= 60000.
Proof. exact browse_period_is_60s. Qed.
Print Assumptions C19_period_at_most_60s.

Theorem C19_refresh_question_partial r :
  on_should_query r = [ESendAll (add_query (mkQuery (r_name r) (r_type r) false) default_message)].
Proof. exact (should_query_spec r). Qed.
Print Assumptions C19_refresh_question_partial.

(* ---- run level: the periodic question ----
   [kreach ... s g]: s is a state the virtual-time kernel reaches from the empty world by any messages, API calls
   (creating any number of browsers and caches), clock advances and timers firing at or after their deadline; the ghost
   g is None until browser j is created and then Some t, t being the instant of browser j's latest browse question.
   [QInv j s (Some t)]: browser j exists, its question timer is in the timer table, every entry of that timer has the
   deadline t + browse_period_ms, and t <= now.  So the next browse question is always due exactly one period after the
   previous one (first one at creation), whatever else happens in between: no handler stops, loses or postpones it. *)
Theorem C19_question_timer_always_armed j s g :
  kreach world bapi (option Z) world_handle (qstep j) w0 None s g -> QInv j s g.
Proof. exact (query_timer_invariant j s g). Qed.
Print Assumptions C19_question_timer_always_armed.

(* every script of the executable model ends in such a state *)
Theorem C19_question_timer_runs j fuel ops :
  exists g, QInv j (state_after world bapi world_handle fuel w0 ops) g.
Proof. exact (query_timer_invariant_runs j fuel ops). Qed.
Print Assumptions C19_question_timer_runs.

(* and when that timer fires, the question goes out with the known answers and the timer is armed again *)
Theorem C19_question_timer_fires j w b :
  nth_error (w_browsers w) j = Some b ->
  exists m, snd (world_handle 0 w (EvTimer (T_QUERY_OF j))) = [ESendAll m; EStart (T_QUERY_OF j) browse_period_ms] /\
    m_response m = false /\ m_queries m = [mkQuery (b_type b) T_PTR false] /\
    m_records m = lookup_view (b_type b) T_PTR (match nth_error (w_caches w) (b_cache b) with Some c => view_of c | None => [] end).
Proof. exact (query_timer_fires j w b). Qed.
Print Assumptions C19_question_timer_fires.

(* a refresh warning reaches every browser attached to the cache; each asks for the record's name and type *)
Theorem C19_refresh_warning_slots ci r v bs j0 :
  slots_for ci (ShouldQuery r) v j0 bs =
  (bs, concat (map (fun b => if Nat.eqb (b_cache b) ci then on_should_query r else []) bs)).
Proof. exact (should_query_slots ci r v bs j0). Qed.
Print Assumptions C19_refresh_warning_slots.

(* non-vacuity: two browsers; after 125 s each has asked three times and the timers stand at 180 s *)
Example C19_nonvacuous :
  let ops := [AApi (BNewBrowser (Some [95; 116; 46]%N) None); AApi (BNewBrowser (Some [95; 117; 46]%N) (Some 0%nat)); AAdv 125000] in
  let s := state_after world bapi world_handle 20 w0 ops in
  s_tm s = [(T_QUERY_OF 0, 180000, 5%N); (T_QUERY_OF 1, 180000, 6%N)] /\ QInv 0 s (Some 120000) /\ QInv 1 s (Some 120000).
Proof.
  cbv zeta. split; [vm_compute; reflexivity|].
  split; (split; [eexists; vm_compute; reflexivity|]; split; [eexists _, _; vm_compute; auto|]; split; [|vm_compute; discriminate]).
  - intros d sq H. vm_compute in H. destruct H as [H|[H|[]]]; inversion H; reflexivity.
  - intros d sq H. vm_compute in H. destruct H as [H|[H|[]]]; inversion H; reflexivity.
Qed.
