(* Properties_C19.v — a browser keeps asking: periodic, follow-up and refresh questions. *)
From QV Require Import Base Fields SrcFacts Msg SrcDecisions Cache Sim SimProofs Browser BrowserSpec BrowserProofs BrowserInv BrowserTimers.
Local Open Scope Z_scope.

(* Handler level (the run-level invariant follows below).  The browse question: one PTR question for the browser's type, listing exactly the PTR
   records the cache holds for that name, after which the 60 s timer (period read from browser.cpp) is re-armed; it is
   sent at creation and on every expiry of that timer.  A refresh warning makes the browser ask for that record's name
   and type.  That the questions are actually sent on time over whole histories (codes 70-74: period, follow-up for
   instances lacking an SRV, refresh instants, enumerate-all batching) is decided on every run by mon_browser. *)
Theorem C19_browse_question_partial j w b :
  nth_error (w_browsers w) j = Some b ->
  exists m, browser_query_timeout j w = [ESendAll m; EStart (T_QUERY_OF j) browse_period_ms] /\
    m_response m = false /\ m_queries m = [mkQuery (b_type b) T_PTR false] /\
    m_records m = lookup_view (b_type b) T_PTR (match nth_error (w_caches w) (b_cache b) with Some c => view_of c | None => [] end).
Proof. exact (query_timeout_spec j w b). Qed.
Print Assumptions C19_browse_question_partial.

Theorem C19_period_at_most_60s : browse_period_ms <= 60000.
Proof. exact browse_period_is_60s. Qed.
Print Assumptions C19_period_at_most_60s.

Theorem C19_refresh_question_partial r :
  on_should_query r = [ESendAll (add_query (mkQuery (r_name r) (r_type r) false) default_message)].
Proof. exact (should_query_spec r). Qed.
Print Assumptions C19_refresh_question_partial.

(* ---- run level: the periodic question ----
   [kreach ... s g]: s is a state the virtual-time kernel reaches from the empty world by any messages, API calls
   (creating any number of browsers and caches), clock advances and timers firing at or after their deadline; the ghost
   g is None until browser j is created and then Some t, t being the instant of browser j's latest browse question.
   [QInv j s (Some t)]: browser j exists, its question timer is in the timer table, every entry of that timer has the
   deadline t + browse_period_ms, and t <= now.  So the next browse question is always due exactly one period after the
   previous one (first one at creation), whatever else happens in between: no handler stops, loses or postpones it. *)
Theorem C19_question_timer_always_armed j s g :
  kreach world bapi (option Z) world_handle (qstep j) w0 None s g -> QInv j s g.
Proof. exact (query_timer_invariant j s g). Qed.
Print Assumptions C19_question_timer_always_armed.

(* every script of the executable model ends in such a state *)
Theorem C19_question_timer_runs j fuel ops :
  exists g, QInv j (state_after world bapi world_handle fuel w0 ops) g.
Proof. exact (query_timer_invariant_runs j fuel ops). Qed.
Print Assumptions C19_question_timer_runs.

(* and when that timer fires, the question goes out with the known answers and the timer is armed again *)
Theorem C19_question_timer_fires j w b :
  nth_error (w_browsers w) j = Some b ->
  exists m, snd (world_handle 0 w (EvTimer (T_QUERY_OF j))) = [ESendAll m; EStart (T_QUERY_OF j) browse_period_ms] /\
    m_response m = false /\ m_queries m = [mkQuery (b_type b) T_PTR false] /\
    m_records m = lookup_view (b_type b) T_PTR (match nth_error (w_caches w) (b_cache b) with Some c => view_of c | None => [] end).
Proof. exact (query_timer_fires j w b). Qed.
Print Assumptions C19_question_timer_fires.

(* a refresh warning reaches every browser attached to the cache; each asks for the record's name and type *)
Theorem C19_refresh_warning_slots ci r v bs j0 :
  slots_for ci (ShouldQuery r) v j0 bs =
  (bs, concat (map (fun b => if Nat.eqb (b_cache b) ci then on_should_query r else []) bs)).
Proof. exact (should_query_slots ci r v bs j0). Qed.
Print Assumptions C19_refresh_warning_slots.

(* ---- the follow-up question ("when a PTR record tells it of an instance whose SRV record it lacks it asks for that
   instance's SRV and TXT records") ----
   needs_srv b v name: the instance's type is the browser's (or the browser enumerates all types), a PTR named that type is
   held in v, no SRV of the instance is held in v.  For every response, after its records have been cached, the names it
   touched (PTR targets, SRV/TXT owners) that need an SRV are collected - in the browser's cache as it is then - and one
   multicast question asks SRV and TXT for each of them (C19_followup_message_shape gives the questions of that message). *)
Theorem C19_followup_question now j m w :
  m_response m = true ->
  let '(w1, nms, nulls, e1) := browser_cache_records now j (m_records m) [] false w in
  forall b1, nth_error (w_browsers w1) j = Some b1 ->
  let v1 := match nth_error (w_caches w1) (b_cache b1) with Some c => view_of c | None => [] end in
  let name_of := fun (n : list N) => match n return bstr with [] => if nulls then None else Some [] | _ :: _ => Some n end in
  let qn := fold_left (fun qs n => if needs_srv b1 v1 (name_of n) then set_insert n qs else qs) nms [] in
  exists e2 e3, snd (browser_on_message now j m w) =
    e1 ++ e2 ++ e3 ++ match qn with
                      | [] => []
                      | _ :: _ => [ESendAll (fold_left (fun msg n => add_query (mkQuery (name_of n) T_TXT false)
                                                   (add_query (mkQuery (name_of n) T_SRV false) msg)) qn default_message)]
                      end.
Proof. exact (browser_on_message_followup now j m w). Qed.
Print Assumptions C19_followup_question.

Theorem C19_followup_message_shape (nulls : bool) qnames m0 :
  let name_of := fun (n : list N) => match n return bstr with [] => if nulls then None else Some [] | _ :: _ => Some n end in
  let msg := fold_left (fun msg n => add_query (mkQuery (name_of n) T_TXT false) (add_query (mkQuery (name_of n) T_SRV false) msg)) qnames m0 in
  m_queries msg = m_queries m0 ++ flat_map (fun n => [mkQuery (name_of n) T_SRV false; mkQuery (name_of n) T_TXT false]) qnames /\
  m_response msg = m_response m0 /\ m_records msg = m_records m0.
Proof. exact (followup_queries nulls qnames m0). Qed.
Print Assumptions C19_followup_message_shape.

(* ---- enumerate-all ("every newly learned service type is queried for its instances"): the batch timer asks one PTR
   question per service type learnt since the last batch, with the PTR records already held as known answers, and
   empties the batch ---- *)
Theorem C19_enumerate_all_batch j w b t ts :
  nth_error (w_browsers w) j = Some b -> b_ptr_targets b = t :: ts ->
  exists msg, snd (browser_service_timeout j w) = [ESendAll msg] /\ m_response msg = false /\
    map q_name (m_queries msg) = map (fun x => Some x) (t :: ts) /\ Forall (fun q => q_type q = T_PTR) (m_queries msg) /\
    b_ptr_targets (nth j (w_browsers (fst (browser_service_timeout j w))) b) = [].
Proof. exact (service_timeout_spec j w b t ts). Qed.
Print Assumptions C19_enumerate_all_batch.

(* non-vacuity: two browsers; after 125 s each has asked three times and the timers stand at 180 s *)
Example C19_nonvacuous :
  let ops := [AApi (BNewBrowser (Some [95; 116; 46]%N) None); AApi (BNewBrowser (Some [95; 117; 46]%N) (Some 0%nat)); AAdv 125000] in
  let s := state_after world bapi world_handle 20 w0 ops in
  s_tm s = [(T_QUERY_OF 0, 180000, 5%N); (T_QUERY_OF 1, 180000, 6%N)] /\ QInv 0 s (Some 120000) /\ QInv 1 s (Some 120000).
Proof.
  cbv zeta. split; [vm_compute; reflexivity|].
  split; (split; [eexists; vm_compute; reflexivity|]; split; [eexists _, _; vm_compute; auto|]; split; [|vm_compute; discriminate]).
  - intros d sq H. vm_compute in H. destruct H as [H|[H|[]]]; inversion H; reflexivity.
  - intros d sq H. vm_compute in H. destruct H as [H|[H|[]]]; inversion H; reflexivity.
Qed.

(* ---- enumerate-all, the learning half ("every newly learned service type ..."): at every position of a response, and
   whatever any cache holds (the classification of a record does not read the cache), an enumerate-all browser that meets
   a PTR record named "_services._dns-sd._udp.local." caches it, puts its target - the service type - into the batch
   that C19_enumerate_all_batch asks about, and (re)starts the batch timer.  The decision [browser_ptr_browse] is
   regenerated from Browser::onMessageReceived on every run. ---- *)
Theorem C19_new_type_is_batched now j r rs names nulls w b :
  nth_error (w_browsers w) j = Some b -> is_any b = true -> r_type r = T_PTR -> r_name r = Some browse_type ->
  let b' := mkBrowser (b_type b) (b_cache b) (b_services b) (b_hostnames b) (set_insert (bs_data (r_target r)) (b_ptr_targets b)) in
  let w1 := mkWorld (w_caches w) (replace_nth j b' (w_browsers w)) (w_jitter w) in
  browser_cache_records now j (r :: rs) names nulls w =
    (let '(w2, e2) := world_cache_add now (b_cache b) r w1 in
     let '(w3, nm, nl, e3) := browser_cache_records now j rs names nulls w2 in
     (w3, nm, nl, [EStart (T_SERVICE_OF j) service_batch_ms] ++ e2 ++ e3)).
Proof. exact (new_type_is_batched now j r rs names nulls w b). Qed.
Print Assumptions C19_new_type_is_batched.

Theorem C19_batched_type_is_in_the_batch x l : set_mem x (set_insert x l) = true.
Proof. exact (set_insert_mem x l). Qed.
Print Assumptions C19_batched_type_is_in_the_batch.
