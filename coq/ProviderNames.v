(* ProviderNames.v — C10, the clause "every service record sent with a nonzero TTL carries the most recently confirmed
   instance name": with the ghost [G] = the name handed over by the latest completed probe (Prober::nameConfirmed), in
   every history of the hostname + provider + prober composite every nonzero-TTL PTR / SRV / TXT record of every
   multicast response, and of every unicast or multicast answer to a question, names the instance [G]
   (rec_instance is the reading of "the instance a record speaks for" used by the acceptor mon_provider). *)
From QV Require Import Base Fields SrcFacts Msg SrcDecisions Cache CacheSpec CacheProofs Sim Prober Hostname HostnameInv Provider ProviderSpec ProviderProofs ProviderListener ProviderGoodbye ProviderReply.
From Coq Require Import ZifyBool ZifyNat ZifyN.
Local Open Scope Z_scope.

(* the ghost: the name confirmed by the latest completed probe *)
Definition conf_step (G : bstr) (c : comp) (ev : event papi) : bstr :=
  match ev with
  | EvTimer tid => if (tid =? T_PROBER)%N then match cp_prober c with Some pb => r_name (pb_proposed pb) | None => G end else G
  | _ => G
  end.

Definition carries (G : bstr) (m : message) : Prop :=
  forall r, In r (m_records m) -> r_ttl r <> 0%N -> forall i, rec_instance r = Some i -> i = G.
Definition names_ok (G : bstr) (es : list eff) : Prop :=
  forall m, In (ESendAll m) es -> m_response m = true -> carries G m.

Lemma names_ok_app G a b : names_ok G a -> names_ok G b -> names_ok G (a ++ b).
Proof. intros A B m H. apply in_app_iff in H as [H|H]; [apply A|apply B]; exact H. Qed.
Lemma names_ok_silent G es : silent es -> names_ok G es.
Proof. intros S m H R. rewrite (S m H) in R. discriminate. Qed.
Lemma names_ok_nil G : names_ok G [].
Proof. intros m []. Qed.

Record NInv (c : comp) (G : bstr) : Prop := {
  ni_browseP : pv_exists (cp_prov c) = true ->
               r_type (pv_browseP (cp_prov c)) = 12%N /\ r_name (pv_browseP (cp_prov c)) = Some BROWSE;
  ni_served : pv_exists (cp_prov c) = true -> pv_confirmed (cp_prov c) = true ->
              r_type (pv_browse (cp_prov c)) = 12%N /\ r_name (pv_browse (cp_prov c)) = Some BROWSE /\
              r_target (pv_ptr (cp_prov c)) = G /\ r_name (pv_srv (cp_prov c)) = G /\ r_name (pv_txt (cp_prov c)) = G }.

Lemma browse_is_BROWSE : browse_type = BROWSE.
Proof. reflexivity. Qed.

(* the three records of an announcement under the name [G] *)
Lemma carries_three G ptr srv txt m :
  m_records m = [ptr; srv; txt] -> Shape ptr srv txt -> r_target ptr = G -> r_name srv = G -> r_name txt = G -> carries G m.
Proof.
  intros E (T1 & T2 & T3 & _) A B C r Hr _ i Hi. rewrite E in Hr. unfold rec_instance in Hi.
  destruct Hr as [<-|[<-|[<-|[]]]].
  - rewrite T1 in Hi. cbn in Hi. destruct (bs_eqb (r_name ptr) (Some BROWSE)); [discriminate|]. injection Hi as <-. exact A.
  - rewrite T2 in Hi. cbn in Hi. injection Hi as <-. exact B.
  - rewrite T3 in Hi. cbn in Hi. injection Hi as <-. exact C.
Qed.

Lemma names_farewell G p : names_ok G (snd (farewell p)).
Proof.
  unfold farewell. cbn [snd]. intros m [H|[]] _ r Hr Hz. injection H as <-.
  destruct (announce_recs (set_published p (pv_browse p) (set_ttl 0 (pv_ptr p)) (set_ttl 0 (pv_srv p)) (set_ttl 0 (pv_txt p)))) as [E _].
  rewrite E in Hr. cbn [set_published pv_ptr pv_srv pv_txt] in Hr. destruct Hr as [<-|[<-|[<-|[]]]]; cbn in Hz; congruence.
Qed.

Lemma names_publish G p :
  Shape (pv_ptrP p) (pv_srvP p) (pv_txtP p) -> r_target (pv_ptrP p) = G -> r_name (pv_srvP p) = G -> r_name (pv_txtP p) = G ->
  names_ok G (snd (publish p)).
Proof.
  intros S A B C. unfold publish. cbn [snd]. intros m [H|[]] _. injection H as <-.
  destruct (announce_recs (set_published p (pv_browseP p) (pv_ptrP p) (pv_srvP p) (pv_txtP p))) as [E _].
  apply (carries_three G _ _ _ _ E); cbn [set_published pv_ptr pv_srv pv_txt]; assumption.
Qed.

(* what the hostname's notification does to the provider: proposals and the prober only *)
Lemma hostname_changed_pub c n : let c' := fst (prov_on_hostname_changed c n) in
  pv_exists (cp_prov c') = pv_exists (cp_prov c) /\ pv_confirmed (cp_prov c') = pv_confirmed (cp_prov c) /\
  pv_browseP (cp_prov c') = pv_browseP (cp_prov c) /\ pv_browse (cp_prov c') = pv_browse (cp_prov c) /\
  pv_ptr (cp_prov c') = pv_ptr (cp_prov c) /\ pv_srv (cp_prov c') = pv_srv (cp_prov c) /\ pv_txt (cp_prov c') = pv_txt (cp_prov c).
Proof.
  cbv zeta. unfold prov_on_hostname_changed. destruct (negb (pv_exists (cp_prov c))); [repeat split|].
  match goal with |- context [if pv_initialized ?p1 then _ else _] => destruct (pv_initialized p1); [|cbn; repeat split];
    destruct (confirm p1 (cp_prober c)) as [pb es]; cbn; repeat split end.
Qed.

Lemma NInv_same c c' G :
  pv_exists (cp_prov c') = pv_exists (cp_prov c) -> pv_confirmed (cp_prov c') = pv_confirmed (cp_prov c) ->
  pv_browseP (cp_prov c') = pv_browseP (cp_prov c) -> pv_browse (cp_prov c') = pv_browse (cp_prov c) ->
  pv_ptr (cp_prov c') = pv_ptr (cp_prov c) -> pv_srv (cp_prov c') = pv_srv (cp_prov c) -> pv_txt (cp_prov c') = pv_txt (cp_prov c) ->
  NInv c G -> NInv c' G.
Proof. intros E1 E2 E3 E4 E5 E6 E7 [A B]. constructor; rewrite ?E1, ?E2, ?E3, ?E4, ?E5, ?E6, ?E7; assumption. Qed.

Lemma with_slot_pub : forall es c G, NInv c G -> NInv (fst (with_hostname_slot c es)) G.
Proof.
  induction es as [|e es IH]; intros c G N; cbn [with_hostname_slot]; [exact N|].
  assert (Generic : forall c0, NInv c0 G -> NInv (fst (let '(c2, e2) := with_hostname_slot c0 es in (c2, e :: e2))) G).
  { intros c0 N0. specialize (IH c0 G N0). destruct (with_hostname_slot c0 es) as [c2 e2]. exact IH. }
  destruct e as [m|m|ob sg p|tid ms|tid|rs]; try (apply Generic; exact N).
  destruct p as [|b|sv|a|r]; try (apply Generic; exact N). destruct b as [n|]; [|apply Generic; exact N].
  destruct (sg =? SIG_hostnameChanged)%N; [|apply Generic; exact N].
  pose proof (hostname_changed_pub c n) as H. cbv zeta in H. destruct H as (H1 & H2 & H3 & H4 & H5 & H6 & H7).
  assert (N1 : NInv (fst (prov_on_hostname_changed c n)) G) by (apply (NInv_same c); assumption).
  destruct (prov_on_hostname_changed c n) as [c1 e1]. cbn [fst] in N1.
  specialize (IH c1 G N1). destruct (with_hostname_slot c1 es) as [c2 e2]. exact IH.
Qed.

Lemma bs_eqb_fq (x y : bytes) G : bs_eqb (Some (x ++ DOT :: y)) G = true -> G = Some (x ++ DOT :: y).
Proof.
  unfold bs_eqb. cbn [bs_data]. intro H. apply bytes_eqb_eq in H. destruct G as [g|]; cbn [bs_data] in H; [congruence|].
  destruct x; discriminate.
Qed.

(* ------------------------------------------------------------------ one handler invocation *)
Theorem comp_step_names now c ev L G :
  CInv c L -> NInv c G -> one_provider c ev ->
  NInv (fst (comp_handle now c ev)) (conf_step G c ev) /\ names_ok (conf_step G c ev) (snd (comp_handle now c ev)).
Proof.
  intros Iv N One. destruct ev as [m|tid|a]; cbn [comp_handle conf_step].
  - (* a message *)
    pose proof (host_handle_silent now (cp_host c) (EvMsg m)) as S1.
    destruct (host_handle now (cp_host c) (EvMsg m)) as [h1 e1]. cbn [snd] in S1.
    assert (S3 : silent (snd (match cp_prober c with
                       | Some pb => let '(pb', e) := prober_handle now pb (EvMsg m) in (Some pb', e)
                       | None => (None, []) end))).
    { destruct (cp_prober c) as [pb|]; [|apply silent_nil]. cbn [prober_handle].
      destruct (prober_ignore_message (pb_confirmed pb) (m_response m)); [apply silent_nil|].
      pose proof (on_records_silent (m_records m) pb) as S. destruct (on_records (m_records m) pb). exact S. }
    destruct (match cp_prober c with Some pb => _ | None => (None, []) end) as [pb e3]. cbn [fst snd] in *.
    split; [destruct N as [A B]; constructor; cbn [cp_prov]; assumption|].
    apply names_ok_silent. apply silent_app; [exact S1|]. apply silent_app; [|exact S3].
    destruct (pv_exists (cp_prov c)); [apply prov_on_message_silent|apply silent_nil].
  - destruct (tid =? T_PROBER)%N.
    + destruct (cp_prober c) as [pb|] eqn:Ep; [|split; [exact N|apply names_ok_nil]].
      destruct Iv as [Ih Psh Pn Sv Un Pr Ci]. destruct (Pr pb Ep) as (Ex & In_ & _ & _). destruct (Psh Ex) as (Ps & Pl & Pp).
      destruct N as [NB NS]. destruct (NB Ex) as [B1 B2].
      set (name := r_name (pb_proposed pb)). unfold on_name_confirmed. set (p := cp_prov c) in *.
      assert (F : let '(p1, e1) := (if pv_confirmed p then farewell p else (set_prov p (pv_initialized p) true, [])) in
                  names_ok name e1 /\ pv_exists p1 = true /\ pv_confirmed p1 = true /\ pv_browseP p1 = pv_browseP p /\
                  pv_ptrP p1 = pv_ptrP p /\ pv_srvP p1 = pv_srvP p /\ pv_txtP p1 = pv_txtP p).
      { destruct (pv_confirmed p) eqn:Cf; [split; [apply names_farewell|cbn; repeat split; auto]|split; [apply names_ok_nil|cbn; repeat split; auto]]. }
      destruct (if pv_confirmed p then farewell p else (set_prov p (pv_initialized p) true, [])) as [p1 e1].
      destruct F as (F0 & F1 & F2 & F3 & F4 & F5 & F6).
      match goal with |- context [publish ?q] => set (p2 := q) end.
      assert (S2 : Shape (pv_ptrP p2) (pv_srvP p2) (pv_txtP p2)) by (unfold p2; cbn; rewrite F4, F5, F6; exact Ps).
      pose proof (names_publish name p2 S2 eq_refl eq_refl eq_refl) as GP.
      assert (E2 : fst (publish p2) = set_published p2 (pv_browseP p2) (pv_ptrP p2) (pv_srvP p2) (pv_txtP p2)) by reflexivity.
      destruct (publish p2) as [p3 e3]. cbn [fst snd] in *. subst p3. split.
      * constructor; cbn [cp_prov set_proposed set_published pv_exists pv_confirmed pv_browseP pv_browse pv_ptr pv_srv pv_txt]; unfold p2;
          cbn [set_proposed pv_exists pv_confirmed pv_browseP pv_ptrP pv_srvP pv_txtP].
        -- intros _. rewrite F3. auto.
        -- intros _ _. rewrite F3. repeat split; auto.
      * apply names_ok_app; [exact F0|exact GP].
    + pose proof (host_handle_silent now (cp_host c) (EvTimer tid)) as S1.
      destruct (host_handle now (cp_host c) (EvTimer tid)) as [h1 e1]. cbn [snd] in S1. split.
      * apply with_slot_pub. destruct N as [A B]. constructor; cbn [cp_prov]; assumption.
      * apply names_ok_silent, with_slot_silent, S1.
  - destruct a as [| |s|].
    + split; [exact N|apply names_ok_nil].
    + (* a provider is created *)
      cbn [fst snd]. split; [|apply names_ok_nil].
      constructor; cbn [cp_prov].
      * intros _. destruct (h_reg (cp_host c)); cbn; rewrite browse_is_BROWSE; split; reflexivity.
      * destruct (h_reg (cp_host c)); cbn; discriminate.
    + (* Provider::update *)
      destruct (pv_exists (cp_prov c)) eqn:Ex; [|split; [exact N|apply names_ok_nil]].
      destruct Iv as [Ih Psh Pn Sv Un Pr Ci]. destruct (Psh Ex) as (Ps & Pl & Pp). destruct N as [NB NS]. destruct (NB Ex) as [B1 B2].
      rewrite prov_update_eq. unfold prov_update_old.
      set (p := set_prov (cp_prov c) true (pv_confirmed (cp_prov c))).
      set (fq := replace_byte DOT DASH (bs_data (s_name s)) ++ [DOT] ++ bs_data (s_type s)).
      match goal with |- context [if negb (match bs_data (r_target (pv_srvP ?q)) with [] => true | _ :: _ => false end) then _ else _] => set (p1 := q) end.
      assert (Same : NInv (mkComp (cp_host c) p1 (cp_prober c)) G /\ forall pb, NInv (mkComp (cp_host c) p1 pb) G).
      { assert (X : forall pb, NInv (mkComp (cp_host c) p1 pb) G).
        { intro pb. constructor; unfold p1, p; cbn [cp_prov set_proposed set_prov pv_exists pv_confirmed pv_browseP pv_browse pv_ptr pv_srv pv_txt].
          - intros _. cbn. auto.
          - intros E C0. apply NS; assumption. }
        split; [apply X|exact X]. }
      destruct Same as [Same0 Same1].
      assert (S1 : Shape (pv_ptrP p1) (pv_srvP p1) (pv_txtP p1)).
      { unfold p1, p. cbn [set_proposed pv_ptrP pv_srvP pv_txtP set_prov]. destruct Ps as (A & B & C0 & D & E & F).
        repeat split; try assumption; destruct (h_reg (cp_host c)); assumption. }
      destruct (negb (match bs_data (r_target (pv_srvP p1)) with [] => true | _ :: _ => false end)); [|split; [exact Same0|apply names_ok_nil]].
      destruct (negb (pv_confirmed p1) || negb (bs_eqb (Some fq) (r_name (pv_srv p1)))) eqn:Br.
      * pose proof (confirm_silent p1 (cp_prober c)) as S. destruct (confirm p1 (cp_prober c)) as [pb es]. cbn [fst snd] in *.
        split; [apply Same1|apply names_ok_silent, S].
      * destruct (match cp_prober c with Some pb => _ | None => false end); [split; [exact Same0|apply names_ok_nil]|].
        apply orb_false_iff in Br as [Cf Nm]. apply negb_false_iff in Cf. apply negb_false_iff in Nm.
        assert (Cf0 : pv_confirmed (cp_prov c) = true) by exact Cf.
        destruct (NS Ex Cf0) as (V1 & V2 & V3 & V4 & V5).
        assert (EG : G = Some fq).
        { change (pv_srv p1) with (pv_srv (cp_prov c)) in Nm. rewrite V4 in Nm. unfold fq in *. apply bs_eqb_fq. exact Nm. }
        assert (X : let '(p2, e2) := (if bs_eqb (r_target (pv_srvP p1)) (r_target (pv_srv p1)) then (p1, []) else farewell p1) in
                    names_ok G e2 /\ pv_exists p2 = true /\ pv_confirmed p2 = true /\ pv_browseP p2 = pv_browseP p1 /\
                    pv_ptrP p2 = pv_ptrP p1 /\ pv_srvP p2 = pv_srvP p1 /\ pv_txtP p2 = pv_txtP p1).
        { destruct (bs_eqb (r_target (pv_srvP p1)) (r_target (pv_srv p1))).
          - split; [apply names_ok_nil|]. unfold p1, p. cbn. repeat split; auto.
          - split; [apply names_farewell|]. unfold p1, p. cbn. repeat split; auto. }
        destruct (if bs_eqb (r_target (pv_srvP p1)) (r_target (pv_srv p1)) then (p1, []) else farewell p1) as [p2 e2].
        destruct X as (X0 & X1 & X2 & X3 & X4 & X5 & X6).
        assert (S2 : Shape (pv_ptrP p2) (pv_srvP p2) (pv_txtP p2)) by (rewrite X4, X5, X6; exact S1).
        assert (Tg : r_target (pv_ptrP p2) = G /\ r_name (pv_srvP p2) = G /\ r_name (pv_txtP p2) = G).
        { rewrite X4, X5, X6, EG. unfold p1, p. cbn [set_proposed pv_ptrP pv_srvP pv_txtP]. repeat split; try reflexivity.
          destruct (h_reg (cp_host c)); reflexivity. }
        destruct Tg as (T1 & T2 & T3).
        pose proof (names_publish G p2 S2 T1 T2 T3) as GP.
        assert (E2 : fst (publish p2) = set_published p2 (pv_browseP p2) (pv_ptrP p2) (pv_srvP p2) (pv_txtP p2)) by reflexivity.
        destruct (publish p2) as [p3 e3]. cbn [fst snd] in *. subst p3. split.
        -- constructor; cbn [cp_prov set_published pv_exists pv_confirmed pv_browseP pv_browse pv_ptr pv_srv pv_txt].
           ++ intros _. rewrite X3. unfold p1, p. cbn. repeat split; auto.
           ++ intros _ _. rewrite X3. unfold p1 at 1 2, p. cbn [set_proposed pv_browseP set_prov r_type r_name set_target]. repeat split; auto.
        -- apply names_ok_app; [apply names_ok_silent, stop_silent|]. apply names_ok_app; [exact X0|exact GP].
    + (* destruction *)
      destruct (pv_exists (cp_prov c)) eqn:Ex; [|split; [exact N|apply names_ok_nil]].
      assert (X : names_ok G (snd (if pv_confirmed (cp_prov c) then farewell (cp_prov c) else (cp_prov c, [])))).
      { destruct (pv_confirmed (cp_prov c)); [apply names_farewell|apply names_ok_nil]. }
      destruct (if pv_confirmed (cp_prov c) then farewell (cp_prov c) else (cp_prov c, [])) as [p' es]. cbn [fst snd] in *. split.
      * constructor; cbn [cp_prov pv_exists]; discriminate.
      * apply names_ok_app; [exact X|apply names_ok_silent, stop_silent].
Qed.

(* answers to questions (unicast or multicast): the records served, hence under the confirmed name *)
Theorem reply_names c L G m m' :
  CInv c L -> NInv c G -> pv_exists (cp_prov c) = true -> In (ESend m') (prov_on_message (cp_prov c) m) -> carries G m'.
Proof.
  intros Iv [NB NS] Ex H. destruct (reply_records _ _ _ H) as [Cf Hr].
  destruct (NS Ex Cf) as (V1 & V2 & V3 & V4 & V5). destruct (ci_served _ _ Iv Ex Cf) as ((T1 & T2 & T3 & _) & _).
  intros r Hin _ i Hi. unfold rec_instance in Hi. destruct (Hr r Hin) as [->|[<-|[<-|[<-|[]]]]].
  - rewrite V1, V2 in Hi. replace (bs_eqb (Some BROWSE) (Some BROWSE)) with true in Hi by (symmetry; unfold bs_eqb; apply bytes_eqb_refl). cbn in Hi. discriminate.
  - rewrite T1 in Hi. cbn in Hi. destruct (bs_eqb _ _); [discriminate|]. injection Hi as <-. exact V3.
  - rewrite T2 in Hi. cbn in Hi. injection Hi as <-. exact V4.
  - rewrite T3 in Hi. cbn in Hi. injection Hi as <-. exact V5.
Qed.

(* ------------------------------------------------------------------ every history *)
Inductive nreach : comp -> list record -> bstr -> Prop :=
| nr_init local ifs : nreach (mkComp (fst (on_rebroadcast (mkHost local ifs [] [] false 1))) no_prov None) [] None
| nr_step c L G now ev : nreach c L G -> one_provider c ev ->
    nreach (fst (comp_handle now c ev)) (listen L (snd (comp_handle now c ev))) (conf_step G c ev).

Lemma nreach_lreach c L G : nreach c L G -> lreach c L.
Proof. induction 1; [apply lr_init|apply lr_step; assumption]. Qed.

Theorem nreach_inv c L G : nreach c L G -> NInv c G.
Proof.
  induction 1 as [local ifs|c L G now ev R IH One].
  - constructor; cbn [cp_prov no_prov pv_exists]; discriminate.
  - apply (comp_step_names now c ev L G); [apply lreach_inv, (nreach_lreach _ _ _ R)|exact IH|exact One].
Qed.

Theorem nonzero_ttl_records_carry_the_confirmed_name c L G now ev :
  nreach c L G -> one_provider c ev ->
  names_ok (conf_step G c ev) (snd (comp_handle now c ev)) /\
  (forall m m', pv_exists (cp_prov c) = true -> In (ESend m') (prov_on_message (cp_prov c) m) -> carries G m').
Proof.
  intros R One. pose proof (lreach_inv _ _ (nreach_lreach _ _ _ R)) as Iv. pose proof (nreach_inv _ _ _ R) as N. split.
  - apply (comp_step_names now c ev L G Iv N One).
  - intros m m' Ex H. apply (reply_names c L G m m' Iv N Ex H).
Qed.
