(* Properties_C06.v — cache replacement, cache-flush and goodbye semantics (statements only). *)
From QV Require Import Base Fields SrcFacts Msg SrcDecisions Cache CacheSpec CacheProofs CacheAccept.
Local Open Scope Z_scope.

(* the match condition read from cache.cpp is the property's rule: identical name, type and data,
   or - for a cache-flush record - same name and type *)
Theorem C06_match_rule new old : cache_match new old = spec_match new old.
Proof. exact (cache_match_spec new old). Qed.
Print Assumptions C06_match_rule.

(* what an addition does to the stored entries: exactly the matching entries disappear, every other
   entry stays, untouched and in order; the new record is appended iff its TTL is nonzero *)
Theorem C06_add_shape now j r c :
  c_entries (fst (add now j r c))
  = filter (fun e => negb (spec_match r (e_rec e))) (c_entries c)
    ++ (if (r_ttl r =? 0)%N then [] else [mkEntry r (triggers now j (r_ttl r))]).
Proof. exact (add_entries now j r c). Qed.
Print Assumptions C06_add_shape.

(* a goodbye announces exactly what it removes, in order; any other addition announces nothing *)
Theorem C06_add_signals now j r c :
  map fst (snd (add now j r c))
  = if (r_ttl r =? 0)%N then map (fun e => Expired (e_rec e)) (filter (fun e => spec_match r (e_rec e)) (c_entries c)) else [].
Proof. exact (add_signals now j r c). Qed.
Print Assumptions C06_add_signals.

(* every cache reachable by additions and timer firings at arbitrary instants (early or late):
   no two stored records with identical name, type and data; no stored record with TTL 0 *)
Theorem C06_no_duplicates c : creach c -> nodup_rec (map e_rec (c_entries c)).
Proof. intro H. exact (proj2 (creach_EInv c H)). Qed.
Print Assumptions C06_no_duplicates.

Theorem C06_goodbye_never_returned c name type r : creach c -> In r (lookup name type c) -> r_ttl r <> 0%N.
Proof.
  intros H Hr. destruct (lookup_In name type c r Hr) as [e [He <-]]. exact (proj1 (creach_EInv c H) e He).
Qed.
Print Assumptions C06_goodbye_never_returned.

(* after a goodbye nothing that it matches is left - with the flush bit, no record of that name and type *)
Theorem C06_goodbye_removes_all now j r c e :
  r_ttl r = 0%N -> In e (c_entries (fst (add now j r c))) -> spec_match r (e_rec e) = false /\ In e (c_entries c).
Proof.
  intros H0 He. rewrite add_entries in He. unfold new_entry in He. rewrite H0 in He. cbn [N.eqb] in He.
  rewrite app_nil_r in He. apply filter_In in He as [He Hm]. unfold matches in Hm.
  apply negb_true_iff in Hm. auto.
Qed.
Print Assumptions C06_goodbye_removes_all.

(* non-vacuity: a reachable cache with two records of one name and type, flushed by a goodbye *)
Example C06_example :
  let a := set_addr (A4 1) (set_type 1 (set_name (Some [97; 46]%N) default_record)) in
  let b := set_addr (A4 2) a in
  let bye := set_flush true (set_ttl 0 (set_addr (A4 3) a)) in
  let c := fst (add 5 0 b (fst (add 0 7 a empty_cache))) in
  length (c_entries c) = 2%nat /\ c_entries (fst (add 9 0 bye c)) = [] /\
  map fst (snd (add 9 0 bye c)) = [Expired a; Expired b].
Proof. vm_compute. auto. Qed.

(* ------------------------------------------------------------------ the whole property, over whole histories
   CacheSpec.mon_cache is a timer-less reference cache written from the text of C05 / C06 / C18 with the
   properties' own constants; it judges a history together with everything observed after each operation
   (signals with their instants and the cache content at emission, lookup results).  For EVERY history of
   ADD (TTL 0 .. 2 000 000 s, jitter 0..19) / ADV (exact scheduling) / ADVB (caller action ahead of a
   simultaneously due firing) / LOOKUP operations, it accepts the run of the model of cache.cpp: an addition announces
   an expiry exactly for each stored record it withdraws (TTL 0; every record of the name and type with the flush
   bit) and for nothing else (code 2), replaced records leave silently, the announced record is gone when announced
   (3), and every later lookup returns exactly the reference content - no duplicates, no TTL-0 record, unrelated
   records untouched (8) *)
Theorem C06_every_history_is_accepted ops :
  script_ok 0 ops -> mon_cache ops (crun_g (0, empty_cache) ops) = None.
Proof. exact (run_accepted ops). Qed.
Print Assumptions C06_every_history_is_accepted.

Example C06_acceptor_discriminates :
  let a := set_ttl 120 (set_addr (A4 1) (set_type 1 (set_name (Some [97; 46]%N) default_record))) in
  let b := set_addr (A4 2) a in
  let bye := set_flush true (set_ttl 0 (set_addr (A4 3) a)) in
  script_ok 0 [CAdd a 0; CAdd b 7; CAdd bye 0; CLookup None 255] /\
  mon_cache [CAdd a 0; CAdd b 7; CAdd bye 0; CLookup None 255]
            [[]; []; [OSig 0 (Expired a) [b]; OSig 0 (Expired b) []]; [OLookup []]] = None /\
  mon_cache [CAdd a 0; CAdd b 7; CAdd bye 0; CLookup None 255]
            [[]; []; [OSig 0 (Expired a) [b]]; [OLookup [b]]] = Some (2%N, 2%N) /\
  mon_cache [CAdd a 0; CAdd a 7; CLookup None 255] [[]; []; [OLookup [a; a]]] = Some (2%N, 8%N).
Proof. vm_compute. unfold ttl_ok. cbn. repeat split; try lia; try discriminate. Qed.
