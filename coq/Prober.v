(* Prober.v — model of prober.cpp and the C07 monitor. *)
From QV Require Import Base Fields SrcFacts Msg SrcDecisions Sim.
Local Open Scope Z_scope.

(* base, base-2, base-3, ... : QString("%1%2") / QString("%1-%2%3") on names that are valid UTF-8 without NUL *)
Definition candidate (base tail : bytes) (k : N) : bytes :=
  if (k =? 1)%N then base ++ tail else base ++ [DASH] ++ dec_of_N k ++ tail.

Record prober := mkProber {
  pb_base : bytes; pb_tail : bytes; pb_proposed : record; pb_suffix : N; pb_confirmed : bool }.

Definition T_PROBER : N := 1.   (* timer id *)
Definition OBJ : N := 0.

(* assertRecord *)
Definition assert_record (p : prober) : prober * list eff :=
  let nm := candidate (pb_base p) (pb_tail p) (pb_suffix p) in
  let pr := set_name (Some nm) (pb_proposed p) in
  let msg := add_record pr (add_query (mkQuery (Some nm) T_ANY false) default_message) in
  (mkProber (pb_base p) (pb_tail p) pr (pb_suffix p) (pb_confirmed p),
   [ESendAll msg; EStop T_PROBER; EStart T_PROBER probe_wait_ms]).

(* constructor: split the record's name at the first '.' *)
Definition prober_new (r : record) : prober * list eff :=
  let nm := bs_data (r_name r) in
  let '(base, tail) := match index_of DOT nm with
                       | Some i => (firstn i nm, skipn i nm)
                       | None => ([], nm)
                       end in
  assert_record (mkProber base tail r 1 false).

(* the loop over the records of a response: the comparison is against the CURRENT proposal *)
Fixpoint on_records (rs : list record) (p : prober) : prober * list eff :=
  match rs with
  | [] => (p, [])
  | r :: rs' =>
      if prober_conflict r (pb_proposed p) then
        let '(p1, e1) := assert_record (mkProber (pb_base p) (pb_tail p) (pb_proposed p) (pb_suffix p + 1) (pb_confirmed p)) in
        let '(p2, e2) := on_records rs' p1 in (p2, e1 ++ e2)
      else on_records rs' p
  end.

Definition prober_handle (now : Z) (p : prober) (ev : event unit) : prober * list eff :=
  match ev with
  | EvMsg m => if prober_ignore_message (pb_confirmed p) (m_response m) then (p, []) else on_records (m_records m) p
  | EvTimer _ => (mkProber (pb_base p) (pb_tail p) (pb_proposed p) (pb_suffix p) true,
                  [ESig OBJ SIG_nameConfirmed (PBytes (r_name (pb_proposed p)))])
  | EvApi _ => (p, [])
  end.

Definition prober_run (fuel : nat) (r : record) (ops : list (aop unit)) : list (list out) :=
  let '(p, es) := prober_new r in
  let '(tm, sq, o) := apply_effs 0 [] 0%N es in
  o :: run_g prober unit prober_handle (fun _ => []) fuel (mkSim 0 tm sq p) ops.

(* ------------------------------------------------------------------ C07 as an acceptor
   input: the probed record, and per operation the outputs observed for it.  State: number of probes seen,
   the last probe (name, instant), whether a conflicting response arrived since, done. *)
Record pmon := mkPmon { pm_probes : N; pm_last : option (bytes * Z); pm_disturbed : bool; pm_done : bool; pm_now : Z }.

(* 1 probe after confirmation / not the next candidate / malformed probe   2 confirmation without a full undisturbed
   two-second probe for exactly that name   3 second confirmation   4 unexpected output   5 time went backwards *)
Definition is_probe_for (rec0 : record) (nm : bytes) (m : message) : bool :=
  negb (m_response m) &&
  match m_queries m, m_records m with
  | [q], [r] => bs_eqb (q_name q) (Some nm) && (q_type q =? 255)%N && bs_eqb (r_name r) (Some nm)
                && (r_type r =? r_type rec0)%N
  | _, _ => false
  end.

Definition pmon_out (rec0 : record) (base tail : bytes) (q : pmon) (o : out) : pmon + N :=
  match o with
  | OSendAll t m =>
      if pm_done q then inr 1%N else
      let nm := candidate base tail (pm_probes q + 1) in
      if is_probe_for rec0 nm m then inl (mkPmon (pm_probes q + 1) (Some (nm, t)) false false (pm_now q))
      else inr 1%N
  | OSignal t _ sg (PBytes n) =>
      if negb (sg =? SIG_nameConfirmed)%N then inr 4%N else
      if pm_done q then inr 3%N else
      match pm_last q with
      | Some (nm, t') =>
          if bytes_eqb (bs_data n) nm && negb (pm_disturbed q) && (t' + 2000 <=? t)
          then inl (mkPmon (pm_probes q) (pm_last q) (pm_disturbed q) true (pm_now q)) else inr 2%N
      | None => inr 2%N
      end
  | _ => inr 4%N
  end.

Fixpoint pmon_outs (rec0 : record) (base tail : bytes) (q : pmon) (os : list out) : pmon + N :=
  match os with
  | [] => inl q
  | o :: os' => match pmon_out rec0 base tail q o with inl q' => pmon_outs rec0 base tail q' os' | inr c => inr c end
  end.

(* a delivered response: walking its records in order, each record carrying the CURRENT candidate's name and the
   probed type is a conflict and must be answered, in the same handler, by exactly one probe for the next
   candidate; nothing else may be sent *)
Fixpoint pmon_records (rec0 : record) (base tail : bytes) (q : pmon) (rs : list record) (outs : list out) : pmon + N :=
  match rs with
  | [] => match outs with [] => inl q | _ :: _ => inr 1%N end
  | r :: rs' =>
      let cur := candidate base tail (pm_probes q) in
      if bs_eqb (r_name r) (Some cur) && (r_type r =? r_type rec0)%N then
        match outs with
        | o :: outs' =>
            match pmon_out rec0 base tail (mkPmon (pm_probes q) (pm_last q) true (pm_done q) (pm_now q)) o with
            | inl q' => pmon_records rec0 base tail q' rs' outs'
            | inr c => inr c
            end
        | [] => inr 6%N    (* 6: a conflicting response was not answered by a probe for the next candidate *)
        end
      else pmon_records rec0 base tail q rs' outs
  end.

Definition out_time_ok (lo hi : Z) (o : out) : bool :=
  match o with
  | OSend t _ | OSendAll t _ | OSignal t _ _ _ => (lo <=? t) && (t <=? hi)
  | _ => true
  end.

Definition pmon_step (rec0 : record) (base tail : bytes) (q : pmon) (o : aop unit) (outs : list out) : pmon + N :=
  match o with
  | ADeliver m =>
      if negb (forallb (out_time_ok (pm_now q) (pm_now q)) outs) then inr 5%N else
      if pm_done q || negb (m_response m) then match outs with [] => inl q | _ :: _ => inr 1%N end
      else pmon_records rec0 base tail q (m_records m) outs
  | AAdv t | AAdvB t | ALate t =>
      if t <? pm_now q then (match outs with [] => inl q | _ => inr 5%N end) else
      if negb (forallb (out_time_ok (pm_now q) t) outs) then inr 5%N else
      match outs with
      | [] => inl (mkPmon (pm_probes q) (pm_last q) (pm_disturbed q) (pm_done q) t)
      | [OSignal t' ob sg p] =>
          match pmon_out rec0 base tail q (OSignal t' ob sg p) with
          | inl q' => inl (mkPmon (pm_probes q') (pm_last q') (pm_disturbed q') (pm_done q') t)
          | inr c => inr c
          end
      | _ => inr 4%N
      end
  | AApi _ => inr 4%N
  end.

Fixpoint pmon_run (rec0 : record) (base tail : bytes) (q : pmon) (k : N) (ops : list (aop unit)) (outs : list (list out))
  : option (N * N) :=
  match ops, outs with
  | [], _ => None
  | o :: ops', og :: outs' =>
      match pmon_step rec0 base tail q o og with
      | inl q' => pmon_run rec0 base tail q' (k + 1)%N ops' outs'
      | inr c => Some (k, c)
      end
  | _ :: _, [] => Some (k, 4%N)
  end.

(* outs = the constructor's outputs followed by one group per operation *)
Definition mon_prober (rec0 : record) (ops : list (aop unit)) (outs : list (list out)) : option (N * N) :=
  let nm := bs_data (r_name rec0) in
  let '(base, tail) := match index_of DOT nm with Some i => (firstn i nm, skipn i nm) | None => ([], nm) end in
  match outs with
  | og :: outs' =>
      match pmon_outs rec0 base tail (mkPmon 0 None false false 0) og with
      | inl q => pmon_run rec0 base tail q 0%N ops outs'
      | inr c => Some (0%N, c)
      end
  | [] => Some (0%N, 4%N)
  end.
