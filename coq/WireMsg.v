(* WireMsg.v — RFC 1035 / 6762 messages as a relation on (buffer, offset), independent of decoder and encoder:
   questions, records of the six supported types, records of any other type, the header with its four counts.
   Names are [NameAt] (WireSpec.v): any placement of compression pointers to earlier offsets. *)
From QV Require Import Base Fields Msg WireSpec.
Local Open Scope N_scope.

(* the strings of a TXT rdata, as the attribute map they denote (RFC 6763: key[=value]; empty strings carry nothing) *)
Definition txt_entry (a : bytes) (acc : attrs) : attrs :=
  match a with
  | [] => acc
  | _ :: _ => match index_of EQS a with
              | None => attrs_insert a None acc
              | Some i => attrs_insert (firstn i a) (Some (skipn (S i) a)) acc
              end
  end.
Definition attrs_of_strings (strs : list bytes) (acc : attrs) : attrs := fold_left (fun acc a => txt_entry a acc) strs acc.

Section Spec.
  Variable mem : N -> N.
  Variable len : N.

  Definition Has (off : N) (l : bytes) : Prop := off + lenN l <= len /\ bytes_at mem off l.

  (* character strings filling [off, stop) exactly *)
  Inductive TxtAt : N -> N -> list bytes -> Prop :=
  | TX_end off : TxtAt off off []
  | TX_str off stop a strs :
      lenN a <= 255 -> off + 1 + lenN a <= stop -> off < len -> mem off = lenN a -> Has (off + 1) a ->
      TxtAt (off + 1 + lenN a) stop strs -> TxtAt off stop (a :: strs).

  Definition top_bit (w : N) : bool := 32768 <=? w.

  (* the record a decoder must produce from the fixed part *)
  Definition base_record (name : bstr) (type : N) (cls ttl : N) : record :=
    set_ttl ttl (set_flush (top_bit cls) (set_type type (set_name name default_record))).

  (* rdata of [dlen] bytes at [o], by type: [RDataAt base o dlen r] *)
  Inductive RDataAt (base : record) (o dlen : N) : record -> Prop :=
  | RD_A a : r_type base = 1 -> dlen = 4 -> a < 4294967296 -> Has o (be32 a) -> RDataAt base o dlen (set_addr (A4 a) base)
  | RD_AAAA b : r_type base = 28 -> dlen = 16 -> lenN b = 16 -> Has o b -> RDataAt base o dlen (set_addr (A6 b) base)
  | RD_PTR ls : r_type base = 12 -> NameAt mem len o o ls (o + dlen) -> RDataAt base o dlen (set_target (name_of None ls) base)
  | RD_SRV prio weight port ls :
      r_type base = 33 -> prio < 65536 -> weight < 65536 -> port < 65536 ->
      Has o (be16 prio ++ be16 weight ++ be16 port) -> NameAt mem len (o + 6) (o + 6) ls (o + dlen) ->
      RDataAt base o dlen (set_target (name_of None ls) (set_port port (set_weight weight (set_prio prio base))))
  | RD_TXT strs : r_type base = 16 -> o + dlen <= len -> TxtAt o (o + dlen) strs ->
      RDataAt base o dlen (set_attrs (attrs_of_strings strs []) base)
  | RD_NSEC ls e1 bm :
      r_type base = 47 -> NameAt mem len o o ls e1 -> lenN bm <= 255 -> Has e1 ([0; lenN bm] ++ bm) ->
      e1 + 2 + lenN bm = o + dlen -> RDataAt base o dlen (set_bitmap bm (set_next (name_of None ls) base))
  | RD_other : r_type base <> 1 -> r_type base <> 28 -> r_type base <> 12 -> r_type base <> 33 -> r_type base <> 16 ->
      r_type base <> 47 -> o + dlen <= len -> RDataAt base o dlen base.

  Inductive RecordAt : N -> record -> N -> Prop :=
  | RA off ls o1 type cls ttl dlen r :
      NameAt mem len off off ls o1 ->
      type < 65536 -> cls < 65536 -> ttl < 4294967296 -> dlen < 65536 ->
      Has o1 (be16 type ++ be16 cls ++ be32 ttl ++ be16 dlen) ->
      RDataAt (base_record (name_of None ls) type cls ttl) (o1 + 10) dlen r ->
      RecordAt off r (o1 + 10 + dlen).

  Inductive QueryAt : N -> query -> N -> Prop :=
  | QA off ls o1 type cls :
      NameAt mem len off off ls o1 -> type < 65536 -> cls < 65536 -> Has o1 (be16 type ++ be16 cls) ->
      QueryAt off (mkQuery (name_of None ls) type (top_bit cls)) (o1 + 4).

  Inductive QueriesAt : N -> list query -> N -> Prop :=
  | QS_nil off : QueriesAt off [] off
  | QS_cons off q e qs e' : QueryAt off q e -> QueriesAt e qs e' -> QueriesAt off (q :: qs) e'.
  Inductive RecordsAt : N -> list record -> N -> Prop :=
  | RS_nil off : RecordsAt off [] off
  | RS_cons off r e rs e' : RecordAt off r e -> RecordsAt e rs e' -> RecordsAt off (r :: rs) e'.

  (* the flags the library looks at: QR+AA for "response", TC for "truncated" *)
  Definition MessageAt (m : message) : Prop :=
    exists id flags nan nau nad e1 e2,
      id < 65536 /\ flags < 65536 /\ nan < 65536 /\ nau < 65536 /\ nad < 65536 /\
      lenN (m_queries m) < 65536 /\ lenN (m_records m) = nan + nau + nad /\ nan + nau + nad < 65536 /\
      Has 0 (be16 id ++ be16 flags ++ be16 (lenN (m_queries m)) ++ be16 nan ++ be16 nau ++ be16 nad) /\
      QueriesAt 12 (m_queries m) e1 /\ RecordsAt e1 (m_records m) e2 /\
      m_addr m = ANull /\ m_port m = 0 /\ m_id m = id /\
      m_response m = negb (N.land flags 33792 =? 0) /\ m_truncated m = negb (N.land flags 512 =? 0).
End Spec.
