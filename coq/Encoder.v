(* Encoder.v — model of writeInteger / writeName / writeRecord / toPacket (dns.cpp). *)
From QV Require Import Base Fields SrcFacts Msg.
Local Open Scope N_scope.

(* QMap<QByteArray, quint16> nameMap: contains/value/insert; insert is only reached for absent keys *)
Definition nmap := list (bytes * N).
Fixpoint nm_lookup (k : bytes) (m : nmap) : option N :=
  match m with
  | [] => None
  | (k', v) :: m' => if bytes_eqb k k' then Some v else nm_lookup k m'
  end.

(* writer state: the bytes appended to the buffer so far (in order), the quint16 offset, the name map *)
Definition wr8 (x : N) : bytes := [w8 x].
Definition wr16 (x : N) : bytes := be16 (w16 x).
Definition wr32 (x : N) : bytes := be32 (w32 x).

(* the while loop of writeName on the chopped name *)
Fixpoint write_frag (fuel : nat) (frag : bytes) (off : N) (m : nmap) : bytes * N * nmap :=
  match fuel with
  | O => ([], off, m)   (* unreachable: fuel = S (length name) *)
  | S f =>
      match frag with
      | [] => (wr8 0, w16 (off + 1), m)
      | _ :: _ =>
          match nm_lookup frag m with
          | Some v => (wr16 (N.lor v pointer_flag16), w16 (off + 2), m)
          | None =>
              let m1 := (frag, off) :: m in
              let idx := match index_of DOT frag with Some i => i | None => length frag end in
              let '(bs, off', m') := write_frag f (skipn (S idx) frag) (w16 (w16 (off + 1) + N.of_nat idx)) m1 in
              (wr8 (N.of_nat idx) ++ firstn idx frag ++ bs, off', m')
          end
      end
  end.

Definition chop_dot (name : bytes) : bytes :=
  match rev name with
  | c :: r => if c =? DOT then rev r else name
  | [] => name
  end.

Definition write_name (name : bstr) (off : N) (m : nmap) : bytes * N * nmap :=
  let frag := chop_dot (bs_data name) in write_frag (S (length frag)) frag off m.

(* QHostAddress::toIPv4Address / toIPv6Address *)
Definition zeros (n : nat) : bytes := repeat 0 n.
Definition addr_to_v4 (a : addr) : N :=
  match a with
  | A4 x => x
  | ANull => 0
  | A6 b => if bytes_eqb (firstn 12 b) (zeros 10 ++ [255; 255])
            then match skipn 12 b with [p; q; r; s] => ((p * 256 + q) * 256 + r) * 256 + s | _ => 0 end
            else 0
  end.
Definition addr_to_v6 (a : addr) : bytes :=
  match a with
  | A6 b => b
  | A4 x => zeros 10 ++ [255; 255] ++ be32 x
  | ANull => zeros 16
  end.

Fixpoint write_txt (ats : attrs) : bytes :=
  match ats with
  | [] => []
  | (k, v) :: at' =>
      let entry := match v with None => k | Some d => k ++ [EQS] ++ d end in
      wr8 (lenN entry) ++ entry ++ write_txt at'
  end.

(* writeRecord: [off] is the offset on entry; the side buffer [data] is built with offset running 2 ahead *)
Definition write_record (r : record) (off : N) (m : nmap) : bytes * N * nmap :=
  let '(nb, o1, m1) := write_name (r_name r) off m in
  let hdr := nb ++ wr16 (r_type r) ++ wr16 (if r_flush r then class_flush_word else class_plain_word) ++ wr32 (r_ttl r) in
  let o2 := w16 (w16 (w16 (w16 (o1 + 2) + 2) + 4) + 2) in       (* type, class, ttl, then offset += 2 *)
  let '(data, o3, m3) :=
    if r_type r =? T_A then (wr32 (addr_to_v4 (r_addr r)), w16 (o2 + 4), m1)
    else if r_type r =? T_AAAA then
      let d := addr_to_v6 (r_addr r) in (d, w16 (o2 + lenN d), m1)
    else if r_type r =? T_NSEC then
      let blen := w8 (lenN (r_bitmap r)) in
      let '(nn, o, m2) := write_name (r_next r) o2 m1 in
      (nn ++ wr8 0 ++ wr8 blen ++ firstn (N.to_nat blen) (r_bitmap r), w16 (w16 (w16 (o + 1) + 1) + blen), m2)
    else if r_type r =? T_PTR then write_name (r_target r) o2 m1
    else if r_type r =? T_SRV then
      let '(tn, o, m2) := write_name (r_target r) (w16 (w16 (w16 (o2 + 2) + 2) + 2)) m1 in
      (wr16 (r_prio r) ++ wr16 (r_weight r) ++ wr16 (r_port r) ++ tn, o, m2)
    else if r_type r =? T_TXT then
      match r_attrs r with
      | [] => (wr8 0, w16 (o2 + 1), m1)
      | _ :: _ => let d := write_txt (r_attrs r) in (d, w16 (o2 + lenN d), m1)
      end
    else ([], o2, m1) in
  (* offset -= 2; writeInteger<quint16>(packet, offset, data.length()); packet.append(data) *)
  (hdr ++ wr16 (lenN data) ++ data, w16 (w16 (o3 + 65534) + 2), m3).

Fixpoint write_queries (qs : list query) (off : N) (m : nmap) : bytes * N * nmap :=
  match qs with
  | [] => ([], off, m)
  | q :: qs' =>
      let '(nb, o1, m1) := write_name (q_name q) off m in
      let '(bs, o2, m2) := write_queries qs' (w16 (w16 (o1 + 2) + 2)) m1 in
      (nb ++ wr16 (q_type q) ++ wr16 (if q_unicast q then class_unicast_word else 1) ++ bs, o2, m2)
  end.

Fixpoint write_records (rs : list record) (off : N) (m : nmap) : bytes * N * nmap :=
  match rs with
  | [] => ([], off, m)
  | r :: rs' =>
      let '(rb, o1, m1) := write_record r off m in
      let '(bs, o2, m2) := write_records rs' o1 m1 in
      (rb ++ bs, o2, m2)
  end.

Definition to_packet (msg : message) : bytes :=
  let flags := N.lor (if m_response msg then flags_response_word else 0) (if m_truncated msg then flags_truncated_word else 0) in
  let hdr := wr16 (m_id msg) ++ wr16 flags ++ wr16 (lenN (m_queries msg)) ++ wr16 (lenN (m_records msg)) ++ wr16 0 ++ wr16 0 in
  let '(qb, o1, m1) := write_queries (m_queries msg) 12 [] in
  let '(rb, _, _) := write_records (m_records msg) o1 m1 in
  hdr ++ qb ++ rb.
