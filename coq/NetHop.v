(* NetHop.v — C04, one hop end to end on the models: the announcement of a provider, heard as one response by a browser
   of that type that has heard nothing yet, is reported as serviceAdded with the provider's type, name, target, port and
   attributes - through the browser's message handler, its cache (Cache.v) and updateService. *)
From QV Require Import Base Fields SrcFacts Msg SrcDecisions Cache CacheSpec CacheProofs Sim Prober Hostname Resolver Provider ProviderSpec ProviderProofs ProviderListener Browser BrowserProofs NetProofs.
From QV Require Import Decoder Encoder WireSpec WireMsg DecoderMsg EncoderMsg.
Local Open Scope Z_scope.

Lemma scan_quiet r : (r_ttl r =? 0)%N = false -> forall es kept, snd (scan r kept es) = [].
Proof.
  intro H. induction es as [|e es IH]; intro kept; cbn [scan snd]; [reflexivity|].
  destruct (cache_match r (e_rec e)); [|apply IH].
  specialize (IH kept). destruct (scan r kept es) as [k sg]. cbn [snd] in *. rewrite H. exact IH.
Qed.
Lemma add_quiet now j r c : (r_ttl r =? 0)%N = false -> snd (add now j r c) = [].
Proof.
  intro H. unfold add. pose proof (scan_quiet r H (c_entries c) []) as S. destruct (scan r [] (c_entries c)) as [kept sg]. cbn [snd] in S.
  rewrite H. destruct (c_next c); destruct (cache_rearm _ _ _ _); exact S.
Qed.

Definition starts_only (es : list eff) : Prop := forall e, In e es -> exists t ms, e = EStart t ms.

(* storing a live record in the only cache of a one-browser world: no notification, the browser untouched *)
Lemma wca_quiet now r c b jit :
  (r_ttl r =? 0)%N = false ->
  exists te, world_cache_add now 0 r (mkWorld [c] [b] jit) = (mkWorld [fst (add now jit r c)] [b] jit, te) /\ starts_only te.
Proof.
  intro H. unfold world_cache_add. cbn [nth_error w_caches w_jitter w_browsers].
  pose proof (add_quiet now jit r c H) as Q. destruct (add now jit r c) as [c' sgs]. cbn [fst snd] in *. subst sgs.
  cbn [deliver_signals]. eexists. split; [reflexivity|].
  intros e He. cbn [app] in He. destruct (add_rearms now jit r c); [|destruct He].
  destruct (c_timer c'); [|destruct He]. destruct He as [<-|[]]. eauto.
Qed.


(* one record that the first loop keeps and re-evaluates, with a nonzero TTL *)
Lemma bcr_keep now r rs names nulls c b jit u :
  b_cache b = 0%nat -> (r_ttl r =? 0)%N = false -> classify b r = (true, Some u, None) ->
  exists te, starts_only te /\
  browser_cache_records now 0 (r :: rs) names nulls (mkWorld [c] [b] jit) =
  (let '(w3, nm, nl, e3) := browser_cache_records now 0 rs (set_insert (bs_data u) names)
        (if set_mem (bs_data u) names then nulls else match bs_data u with [] => bs_is_null u | _ => nulls end)
        (mkWorld [fst (add now jit r c)] [b] jit) in (w3, nm, nl, [] ++ te ++ e3)).
Proof.
  intros Hc Ht Hk. cbn [browser_cache_records nth_error w_browsers]. rewrite Hk, Hc.
  destruct (wca_quiet now r c b jit Ht) as (te & E & S). rewrite E. exists te. split; [exact S|reflexivity].
Qed.

Lemma bytes_ltb_irrefl x : bytes_ltb x x = false.
Proof. induction x as [|a x IH]; cbn [bytes_ltb]; [reflexivity|]. rewrite N.ltb_irrefl. exact IH. Qed.
Lemma set_insert_same x : set_insert x [x] = [x].
Proof. cbn [set_insert]. rewrite bytes_ltb_irrefl. reflexivity. Qed.

Lemma ends_with_app (x s : bytes) : ends_with s (x ++ s) = true.
Proof.
  unfold ends_with. rewrite app_length. replace (length x + length s - length s)%nat with (length x) by lia.
  rewrite skipn_app, skipn_all, Nat.sub_diag. cbn [skipn app]. rewrite bytes_eqb_refl.
  replace (length s <=? length x + length s)%nat with true by (symmetry; apply Nat.leb_le; lia). reflexivity.
Qed.

Theorem announcement_heard now (ptr srv txt : record) (T nm : list N) addr port id :
  announces ptr srv txt T nm -> index_of DOT nm = None -> T <> [] -> bytes_eqb T browse_type = false ->
  (r_ttl ptr =? 0)%N = false -> (r_ttl srv =? 0)%N = false -> (r_ttl txt =? 0)%N = false ->
  let w := mkWorld [empty_cache] [mkBrowser (Some T) 0 [] [] []] 0 in
  let m := mkMessage addr port id true false [] [ptr; srv; txt] in
  In (ESig 0%N SIG_serviceAdded
        (PService (mkService (Some T) (Some nm) (r_target srv) (r_port srv)
                             (fold_left (fun a kv => attrs_insert (fst kv) (snd kv) a) (r_attrs txt) []))))
     (snd (browser_on_message now 0 m w)).
Proof.
  intros An Hnm HT Hbr Lp Ls Lx. pose proof An as [(P1 & P2 & P3) (S1 & S2) (X1 & X2)]. cbv zeta.
  set (b := mkBrowser (Some T) 0 [] [] []). set (fq := nm ++ DOT :: T).
  assert (Any : is_any b = false).
  { unfold is_any, browser_any, b. cbn [b_type]. unfold bs_eqb. cbn [bs_data]. exact Hbr. }
  assert (Kp : classify b ptr = (true, Some (Some fq), None)).
  { unfold classify. rewrite Any, P2. change (12 =? T_PTR)%N with true. cbn iota.
    unfold browser_ptr_browse, browser_ptr_type. cbn [andb orb b b_type]. rewrite P1, P3.
    unfold bs_eqb. cbn [bs_data]. rewrite bytes_eqb_refl. reflexivity. }
  assert (Ks : classify b srv = (true, Some (Some fq), None)).
  { unfold classify. rewrite Any, S2. change (33 =? T_PTR)%N with false. change (33 =? T_SRV)%N with true. cbn [orb]. cbn iota.
    unfold browser_srvtxt. cbn [orb b b_type bs_data]. rewrite S1. cbn [bs_data]. unfold fq.
    change (nm ++ DOT :: T) with (nm ++ [DOT] ++ T). rewrite ends_with_app. reflexivity. }
  assert (Kx : classify b txt = (true, Some (Some fq), None)).
  { unfold classify. rewrite Any, X2. change (16 =? T_PTR)%N with false. change (16 =? T_SRV)%N with false. change (16 =? T_TXT)%N with true. cbn [orb]. cbn iota.
    unfold browser_srvtxt. cbn [orb b b_type bs_data]. rewrite X1. cbn [bs_data]. unfold fq.
    change (nm ++ DOT :: T) with (nm ++ [DOT] ++ T). rewrite ends_with_app. reflexivity. }
  unfold browser_on_message. cbn [m_response negb m_records].
  destruct (bcr_keep now ptr [srv; txt] [] false empty_cache b 0 (Some fq) eq_refl Lp Kp) as (t1 & St1 & E1). rewrite E1. clear E1.
  cbn [bs_data set_mem existsb set_insert].
  set (c1 := fst (add now 0 ptr empty_cache)).
  match goal with |- context [browser_cache_records now 0 [srv; txt] [fq] ?nl _] => set (nl1 := nl) end.
  destruct (bcr_keep now srv [txt] [fq] nl1 c1 b 0 (Some fq) eq_refl Ls Ks) as (t2 & St2 & E2). rewrite E2. clear E2.
  cbn [bs_data]. rewrite set_insert_same.
  set (c2 := fst (add now 0 srv c1)).
  match goal with |- context [browser_cache_records now 0 [txt] [fq] ?nl _] => set (nl2 := nl) end.
  destruct (bcr_keep now txt [] [fq] nl2 c2 b 0 (Some fq) eq_refl Lx Kx) as (t3 & St3 & E3). rewrite E3. clear E3.
  cbn [bs_data]. rewrite set_insert_same.
  set (c3 := fst (add now 0 txt c2)).
  match goal with |- context [browser_cache_records now 0 [] [fq] ?nl _] => set (nl3 := nl) end.
  cbn [browser_cache_records].
  (* what the cache holds: the three records, in order *)
  assert (V : view_of c3 = [ptr; srv; txt]).
  { change (view_of c3) with (held c3). unfold c3, c2, c1. rewrite !add_is_listen1. change (held empty_cache) with (@nil record).
    unfold listen1 at 3. cbn [filter app]. rewrite Lp.
    unfold listen1 at 2. cbn [filter app]. rewrite Ls. rewrite spec_match_type by congruence. cbn [negb app].
    unfold listen1. cbn [filter app]. rewrite Lx. rewrite !spec_match_type by congruence. reflexivity. }
  cbn [browser_update_names nth_error w_browsers w_caches]. change (b_cache b) with 0%nat. cbn [nth_error]. rewrite V.
  assert (Fq : match fq with [] => if nl3 then None else Some [] | _ :: _ => Some fq end = Some fq).
  { unfold fq. destruct nm; reflexivity. }
  rewrite Fq.
  pose proof (announcement_reported 0 ptr srv txt T nm b An Hnm HT (or_intror eq_refl) eq_refl) as AR. fold fq in AR.
  destruct (update_service 0 [ptr; srv; txt] (Some fq) b) as [[need b'] es]. cbn [snd] in AR. subst es.
  cbv iota beta.
  match goal with |- context [browser_cache_addresses now 0 ?rs ?w'] => destruct (browser_cache_addresses now 0 rs w') as [w3 e3] end.
  cbn [snd]. apply in_app_iff. right. apply in_app_iff. left. left. reflexivity.
Qed.

Lemma dotfree_index x : dotfree x -> index_of DOT x = None.
Proof.
  induction x as [|a x IH]; intro D; cbn [index_of]; [reflexivity|].
  destruct (a =? DOT)%N eqn:E; [exfalso; apply D; left; apply N.eqb_eq; exact E|].
  rewrite IH; [reflexivity|]. intro H. apply D. right. exact H.
Qed.

(* composed with the provider: in every reachable state in which the provider is confirmed, the announcement of what it
   serves - type T (not empty, not the enumeration name) - makes a fresh browser of type T report the instance *)
Theorem served_announcement_is_reported c L now addr port id T :
  lreach c L -> pv_exists (cp_prov c) = true -> pv_confirmed (cp_prov c) = true ->
  r_name (pv_ptr (cp_prov c)) = Some T -> T <> [] -> bytes_eqb T browse_type = false ->
  let p := cp_prov c in
  exists nm, r_name (pv_srv p) = Some (nm ++ DOT :: T) /\
    In (ESig 0%N SIG_serviceAdded
          (PService (mkService (Some T) (Some nm) (r_target (pv_srv p)) (r_port (pv_srv p))
                               (fold_left (fun a kv => attrs_insert (fst kv) (snd kv) a) (r_attrs (pv_txt p)) []))))
       (snd (browser_on_message now 0 (mkMessage addr port id true false [] (m_records (announce_msg p)))
                                (mkWorld [empty_cache] [mkBrowser (Some T) 0 [] [] []] 0))).
Proof.
  intros R Ex Cf Hn HT Hbr. cbv zeta. pose proof (lreach_inv c L R) as Iv.
  destruct (ci_served _ _ Iv Ex Cf) as ((T1 & T2 & T3 & _) & (L1 & L2 & L3) & (N1 & N2 & x & Dx & N3) & _).
  rewrite Hn in N3. cbn [bs_data] in N3. exists x. split; [exact N3|].
  destruct (announce_records (cp_prov c)) as [-> _].
  apply announcement_heard; try assumption.
  - constructor; repeat split; try assumption; congruence.
  - apply dotfree_index, Dx.
  - apply N.eqb_neq, L1.
  - apply N.eqb_neq, L2.
  - apply N.eqb_neq, L3.
Qed.

(* ... and through the real wire format: the packet the encoder produces for that announcement decodes (C01 / C02) to a
   message which, handed to the browser, yields the same notification - provider state -> bytes -> browser report *)
Lemma announces_canon ptr srv txt T nm : announces ptr srv txt T nm -> announces (canon ptr) (canon srv) (canon txt) T nm.
Proof.
  intros [(P1 & P2 & P3) (S1 & S2) (X1 & X2)]. unfold canon, canon_base. rewrite P2, S2, X2.
  constructor; cbn; repeat split; assumption.
Qed.

Theorem served_announcement_through_the_codec c L (now : Z) (T : list N) :
  lreach c L -> pv_exists (cp_prov c) = true -> pv_confirmed (cp_prov c) = true ->
  r_name (pv_ptr (cp_prov c)) = Some T -> T <> [] -> bytes_eqb T browse_type = false ->
  let p := cp_prov c in
  wf_message (announce_msg p) ->
  exists (m' : message) (nm : list N), decode (to_packet (announce_msg p)) = Ok m' /\ r_name (pv_srv p) = Some (nm ++ DOT :: T) /\
    In (ESig 0%N SIG_serviceAdded
          (PService (mkService (Some T) (Some nm) (r_target (pv_srv p)) (r_port (pv_srv p))
                               (fold_left (fun a kv => attrs_insert (fst kv) (snd kv) a) (r_attrs (pv_txt p)) []))))
       (snd (browser_on_message now 0 m' (mkWorld [empty_cache] [mkBrowser (Some T) 0 [] [] []] 0))).
Proof.
  intros R Ex Cf Hn HT Hbr. cbv zeta. intro Wf. pose proof (lreach_inv c L R) as Iv.
  destruct (ci_served _ _ Iv Ex Cf) as ((T1 & T2 & T3 & _) & (L1 & L2 & L3) & (N1 & N2 & x & Dx & N3) & _).
  rewrite Hn in N3. cbn [bs_data] in N3.
  exists (canon_message (announce_msg (cp_prov c))), x. split; [apply decode_to_packet, Wf|]. split; [exact N3|].
  unfold canon_message. destruct (announce_records (cp_prov c)) as [-> ->]. cbn [map].
  set (ptr := pv_ptr (cp_prov c)) in *. set (srv := pv_srv (cp_prov c)) in *. set (txt := pv_txt (cp_prov c)) in *.
  assert (An : announces ptr srv txt T x) by (constructor; repeat split; try assumption; congruence).
  pose proof (announcement_heard now (canon ptr) (canon srv) (canon txt) T x ANull 0%N (m_id (announce_msg (cp_prov c)))
                (announces_canon _ _ _ _ _ An) (dotfree_index x Dx) HT Hbr) as H.
  assert (E1 : r_ttl (canon ptr) = r_ttl ptr) by (unfold canon, canon_base; rewrite T1; reflexivity).
  assert (E2 : r_ttl (canon srv) = r_ttl srv) by (unfold canon, canon_base; rewrite T2; reflexivity).
  assert (E3 : r_ttl (canon txt) = r_ttl txt) by (unfold canon, canon_base; rewrite T3; reflexivity).
  assert (E4 : r_target (canon srv) = r_target srv /\ r_port (canon srv) = r_port srv) by (unfold canon, canon_base; rewrite T2; split; reflexivity).
  assert (E5 : r_attrs (canon txt) = r_attrs txt) by (unfold canon, canon_base; rewrite T3; reflexivity).
  destruct E4 as [E4 E6]. rewrite E1, E2, E3, E4, E6, E5 in H. cbv zeta in H.
  apply H; apply N.eqb_neq; assumption.
Qed.

(* ------------------------------------------------------------------ the goodbye hop *)
Lemma classify_ttl b r t : classify b (set_ttl t r) = classify b r.
Proof. reflexivity. Qed.

Lemma bcr_step now r rs names nulls c b jit u :
  b_cache b = 0%nat -> classify b r = (true, Some u, None) ->
  browser_cache_records now 0 (r :: rs) names nulls (mkWorld [c] [b] jit) =
  (let '(w2, e2) := world_cache_add now 0 r (mkWorld [c] [b] jit) in
   let '(w3, nm, nl, e3) := browser_cache_records now 0 rs (set_insert (bs_data u) names)
        (if set_mem (bs_data u) names then nulls else match bs_data u with [] => bs_is_null u | _ => nulls end) w2 in
   (w3, nm, nl, [] ++ e2 ++ e3)).
Proof. intros Hc Hk. cbn [browser_cache_records nth_error w_browsers]. rewrite Hk, Hc. reflexivity. Qed.

Lemma wca_goodbye now r es nxt tm b jit : (r_ttl r =? 0)%N = true ->
  world_cache_add now 0 r (mkWorld [mkCache es nxt tm] [b] jit) =
  (let '(kept, sg) := scan r [] es in let '(bs, eff) := deliver_signals 0 sg [b] in
   (mkWorld [mkCache kept nxt tm] bs jit, eff ++ [])).
Proof.
  intro H. unfold world_cache_add, add, add_rearms. cbn [nth_error w_caches w_jitter w_browsers c_entries c_next c_timer].
  destruct (scan r [] es) as [kept sg]. rewrite H. cbn [negb andb replace_nth firstn skipn app]. reflexivity.
Qed.

Lemma cm_goodbye r : cache_match (set_ttl 0 r) r = true.
Proof. rewrite cache_match_spec. apply spec_match_goodbye. Qed.
Lemma cm_other r x : r_type r <> r_type x -> cache_match (set_ttl 0 r) x = false.
Proof. intro H. rewrite cache_match_spec. apply spec_match_type. cbn [r_type set_ttl]. exact H. Qed.

(* a browser that reports the instance and whose cache holds exactly the three announced records hears the provider's
   goodbye (the same three records with TTL 0): the service is reported as removed *)
Theorem goodbye_heard now (ptr srv txt : record) (T nm : list N) addr port id b t1 t2 t3 nxt tm s :
  announces ptr srv txt T nm -> bytes_eqb T browse_type = false ->
  b_type b = Some T -> b_cache b = 0%nat ->
  smap_find (nm ++ DOT :: T) (b_services b) = Some s -> bs_is_null (s_name s) = false ->
  let w := mkWorld [mkCache [mkEntry ptr t1; mkEntry srv t2; mkEntry txt t3] nxt tm] [b] 0 in
  let m := mkMessage addr port id true false [] [set_ttl 0 ptr; set_ttl 0 srv; set_ttl 0 txt] in
  In (ESig 0%N SIG_serviceRemoved (PService s)) (snd (browser_on_message now 0 m w)).
Proof.
  intros An Hbr Hty Hc Hs Hnull. pose proof An as [(P1 & P2 & P3) (S1 & S2) (X1 & X2)]. cbv zeta.
  set (fq := nm ++ DOT :: T) in *.
  assert (Any : is_any b = false).
  { unfold is_any, browser_any. rewrite Hty. unfold bs_eqb. cbn [bs_data]. exact Hbr. }
  assert (Kp : classify b ptr = (true, Some (Some fq), None)).
  { unfold classify. rewrite Any, P2. change (12 =? T_PTR)%N with true. cbn iota.
    unfold browser_ptr_browse, browser_ptr_type. cbn [andb orb]. rewrite Hty, P1, P3.
    unfold bs_eqb. cbn [bs_data]. rewrite bytes_eqb_refl. reflexivity. }
  assert (Ks : classify b srv = (true, Some (Some fq), None)).
  { unfold classify. rewrite Any, S2. change (33 =? T_PTR)%N with false. change (33 =? T_SRV)%N with true. cbn [orb]. cbn iota.
    unfold browser_srvtxt. cbn [orb]. rewrite Hty, S1. cbn [bs_data]. unfold fq.
    change (nm ++ DOT :: T) with (nm ++ [DOT] ++ T). rewrite ends_with_app. reflexivity. }
  unfold browser_on_message. cbn [m_response negb m_records].
  (* the PTR goodbye: the entry goes, the browser's slot has nothing to do *)
  rewrite (bcr_step now (set_ttl 0 ptr) _ [] false _ b 0 (Some fq) Hc (eq_trans (classify_ttl b ptr 0) Kp)).
  rewrite (wca_goodbye now (set_ttl 0 ptr) _ nxt tm b 0 eq_refl).
  cbn [scan e_rec]. rewrite cm_goodbye, (cm_other ptr srv), (cm_other ptr txt) by congruence.
  cbn [scan app r_ttl set_ttl N.eqb map e_rec].
  cbn [deliver_signals slots_for]. rewrite Hc. cbn [Nat.eqb]. unfold on_record_expired at 1. rewrite P2.
  change (12 =? T_SRV)%N with false. change (12 =? T_TXT)%N with false. cbn iota. cbn [deliver_signals slots_for app].
  (* the SRV goodbye: the browser removes the service and says so *)
  cbn [bs_data set_mem existsb set_insert].
  match goal with |- context [browser_cache_records now 0 (set_ttl 0 srv :: ?rs) ?nms ?nl (mkWorld [?c] [b] 0)] =>
    rewrite (bcr_step now (set_ttl 0 srv) rs nms nl c b 0 (Some fq) Hc (eq_trans (classify_ttl b srv 0) Ks)) end.
  rewrite (wca_goodbye now (set_ttl 0 srv) _ nxt tm b 0 eq_refl).
  cbn [scan e_rec]. rewrite cm_goodbye, (cm_other srv txt) by congruence.
  cbn [scan app r_ttl set_ttl N.eqb map e_rec].
  cbn [deliver_signals slots_for]. rewrite Hc. cbn [Nat.eqb]. unfold on_record_expired at 1. rewrite S2.
  change (33 =? T_SRV)%N with true. cbn iota. rewrite S1. cbn [bs_data]. fold fq. rewrite Hs, Hnull.
  cbn [deliver_signals slots_for app].
  (* whatever follows, the notification is in the output *)
  match goal with |- context [browser_cache_records now 0 [set_ttl 0 txt] ?a ?b0 ?c0] => destruct (browser_cache_records now 0 [set_ttl 0 txt] a b0 c0) as [[[w3 nm'] nl'] e3] end.
  cbv iota beta.
  match goal with |- context [browser_update_names 0 ?a ?b0 ?c0 ?d0] => destruct (browser_update_names 0 a b0 c0 d0) as [[w4 q4] e4] end.
  match goal with |- context [browser_cache_addresses now 0 ?a ?c0] => destruct (browser_cache_addresses now 0 a c0) as [w5 e5] end.
  cbn [snd]. apply in_app_iff. left. cbn [app]. left. reflexivity.
Qed.

(* composed with the provider: the goodbye it multicasts when it stops serving (farewell) carries exactly the served
   records with TTL 0; a browser of its type that reports the instance and holds those records reports the removal *)
Theorem served_goodbye_is_reported c L now addr port id T b t1 t2 t3 nxt tm s :
  lreach c L -> pv_exists (cp_prov c) = true -> pv_confirmed (cp_prov c) = true ->
  r_name (pv_ptr (cp_prov c)) = Some T -> bytes_eqb T browse_type = false ->
  b_type b = Some T -> b_cache b = 0%nat ->
  let p := cp_prov c in
  smap_find (bs_data (r_name (pv_srv p))) (b_services b) = Some s -> bs_is_null (s_name s) = false ->
  In (ESig 0%N SIG_serviceRemoved (PService s))
     (snd (browser_on_message now 0 (mkMessage addr port id true false [] (m_records (announce_msg (fst (farewell p)))))
                              (mkWorld [mkCache [mkEntry (pv_ptr p) t1; mkEntry (pv_srv p) t2; mkEntry (pv_txt p) t3] nxt tm] [b] 0))).
Proof.
  intros R Ex Cf Hn Hbr Hty Hc. cbv zeta. intros Hs Hnull. pose proof (lreach_inv c L R) as Iv.
  destruct (ci_served _ _ Iv Ex Cf) as ((T1 & T2 & T3 & _) & _ & (N1 & N2 & x & Dx & N3) & _).
  rewrite Hn in N3. cbn [bs_data] in N3. rewrite N3 in Hs. cbn [bs_data] in Hs.
  destruct (announce_records (fst (farewell (cp_prov c)))) as [-> _].
  cbn [farewell fst set_published pv_ptr pv_srv pv_txt].
  apply (goodbye_heard now _ _ _ T x addr port id b t1 t2 t3 nxt tm s); try assumption.
  constructor; repeat split; try assumption; congruence.
Qed.

(* ------------------------------------------------------------------ the update hop *)
(* updateService on exactly the three records of an announcement: added if unknown, updated if the description differs *)
Lemma announcement_evaluated j ptr srv txt (T nm : list N) b :
  announces ptr srv txt T nm -> index_of DOT nm = None -> T <> [] ->
  (bs_eqb (b_type b) (Some browse_type) = true \/ b_type b = Some T) ->
  let s := mkService (Some T) (Some nm) (r_target srv) (r_port srv)
                     (fold_left (fun a kv => attrs_insert (fst kv) (snd kv) a) (r_attrs txt) []) in
  snd (update_service j [ptr; srv; txt] (Some (nm ++ DOT :: T)) b) =
  match smap_find (nm ++ DOT :: T) (b_services b) with
  | None => [ESig (N.of_nat j) SIG_serviceAdded (PService s)]
  | Some old => if service_eqb old s then [] else [ESig (N.of_nat j) SIG_serviceUpdated (PService s)]
  end.
Proof.
  intros [(P1 & P2 & P3) (S1 & S2) (X1 & X2)] Hnm HT Hty. cbv zeta.
  unfold update_service. rewrite (split_fq_instance nm T Hnm). rewrite not_of_interest_spec. cbn [bs_data].
  assert (G0 : match T with [] => true | _ :: _ => false end = false) by (destruct T; [congruence|reflexivity]).
  rewrite G0. cbn [orb].
  match goal with |- context [if ?c then (false, b, []) else _] => assert (G : c = false) end.
  { destruct Hty as [H|H]; [rewrite H; reflexivity|]. rewrite H. unfold bs_eqb at 2. cbn [bs_data]. rewrite bytes_eqb_refl. cbn. apply andb_false_r. }
  rewrite G.
  rewrite !lookup_three.
  rewrite (lm_match T T_PTR ptr P1) by (rewrite P2; reflexivity).
  rewrite (lm_type_mismatch (Some T) T_PTR srv eq_refl) by (rewrite S2; reflexivity).
  rewrite (lm_type_mismatch (Some T) T_PTR txt eq_refl) by (rewrite X2; reflexivity).
  cbn [app].
  rewrite (lm_type_mismatch _ T_SRV ptr eq_refl) by (rewrite P2; reflexivity).
  rewrite (lm_match _ T_SRV srv S1) by (rewrite S2; reflexivity).
  rewrite (lm_type_mismatch _ T_SRV txt eq_refl) by (rewrite X2; reflexivity).
  cbn [app].
  rewrite (lm_type_mismatch _ T_TXT ptr eq_refl) by (rewrite P2; reflexivity).
  rewrite (lm_type_mismatch _ T_TXT srv eq_refl) by (rewrite S2; reflexivity).
  rewrite (lm_match _ T_TXT txt X1) by (rewrite X2; reflexivity).
  cbn [app fold_left]. cbn [bs_data].
  destruct (smap_find (nm ++ DOT :: T) (b_services b)) as [old|]; [|reflexivity].
  destruct (service_eqb old _); reflexivity.
Qed.

(* a browser that reports the instance and holds the three announced records hears a new announcement in which the SRV
   record (cache-flush bit set, same name) carries other data: the cache replaces the old SRV record and the service is
   reported as updated with the new description *)
Theorem replacement_heard now (ptr srv srv' txt : record) (T nm : list N) addr port id b t1 t2 t3 nxt tm old :
  announces ptr srv txt T nm -> announces ptr srv' txt T nm -> r_flush srv' = true ->
  index_of DOT nm = None -> T <> [] -> bytes_eqb T browse_type = false ->
  (r_ttl ptr =? 0)%N = false -> (r_ttl srv' =? 0)%N = false -> (r_ttl txt =? 0)%N = false ->
  b_type b = Some T -> b_cache b = 0%nat ->
  smap_find (nm ++ DOT :: T) (b_services b) = Some old ->
  let s := mkService (Some T) (Some nm) (r_target srv') (r_port srv')
                     (fold_left (fun a kv => attrs_insert (fst kv) (snd kv) a) (r_attrs txt) []) in
  service_eqb old s = false ->
  let w := mkWorld [mkCache [mkEntry ptr t1; mkEntry srv t2; mkEntry txt t3] nxt tm] [b] 0 in
  let m := mkMessage addr port id true false [] [ptr; srv'; txt] in
  In (ESig 0%N SIG_serviceUpdated (PService s)) (snd (browser_on_message now 0 m w)).
Proof.
  intros An An' Fl Hnm HT Hbr Lp Ls Lx Hty Hc Hs. cbv zeta. intro Hne.
  pose proof An as [(P1 & P2 & P3) (S1 & S2) (X1 & X2)]. pose proof An' as [_ (S1' & S2') _].
  set (fq := nm ++ DOT :: T) in *.
  assert (Any : is_any b = false).
  { unfold is_any, browser_any. rewrite Hty. unfold bs_eqb. cbn [bs_data]. exact Hbr. }
  assert (Kp : classify b ptr = (true, Some (Some fq), None)).
  { unfold classify. rewrite Any, P2. change (12 =? T_PTR)%N with true. cbn iota.
    unfold browser_ptr_browse, browser_ptr_type. cbn [andb orb]. rewrite Hty, P1, P3.
    unfold bs_eqb. cbn [bs_data]. rewrite bytes_eqb_refl. reflexivity. }
  assert (Ks : classify b srv' = (true, Some (Some fq), None)).
  { unfold classify. rewrite Any, S2'. change (33 =? T_PTR)%N with false. change (33 =? T_SRV)%N with true. cbn [orb]. cbn iota.
    unfold browser_srvtxt. cbn [orb]. rewrite Hty, S1'. cbn [bs_data]. unfold fq.
    change (nm ++ DOT :: T) with (nm ++ [DOT] ++ T). rewrite ends_with_app. reflexivity. }
  assert (Kx : classify b txt = (true, Some (Some fq), None)).
  { unfold classify. rewrite Any, X2. change (16 =? T_PTR)%N with false. change (16 =? T_SRV)%N with false. change (16 =? T_TXT)%N with true. cbn [orb]. cbn iota.
    unfold browser_srvtxt. cbn [orb]. rewrite Hty, X1. cbn [bs_data]. unfold fq.
    change (nm ++ DOT :: T) with (nm ++ [DOT] ++ T). rewrite ends_with_app. reflexivity. }
  unfold browser_on_message. cbn [m_response negb m_records].
  set (c0 := mkCache [mkEntry ptr t1; mkEntry srv t2; mkEntry txt t3] nxt tm).
  destruct (bcr_keep now ptr [srv'; txt] [] false c0 b 0 (Some fq) Hc Lp Kp) as (u1 & Su1 & E1). rewrite E1. clear E1.
  cbn [bs_data set_mem existsb set_insert].
  set (c1 := fst (add now 0 ptr c0)).
  match goal with |- context [browser_cache_records now 0 [srv'; txt] [fq] ?nl _] => set (nl1 := nl) end.
  destruct (bcr_keep now srv' [txt] [fq] nl1 c1 b 0 (Some fq) Hc Ls Ks) as (u2 & Su2 & E2). rewrite E2. clear E2.
  cbn [bs_data]. rewrite set_insert_same.
  set (c2 := fst (add now 0 srv' c1)).
  match goal with |- context [browser_cache_records now 0 [txt] [fq] ?nl _] => set (nl2 := nl) end.
  destruct (bcr_keep now txt [] [fq] nl2 c2 b 0 (Some fq) Hc Lx Kx) as (u3 & Su3 & E3). rewrite E3. clear E3.
  cbn [bs_data]. rewrite set_insert_same.
  set (c3 := fst (add now 0 txt c2)).
  match goal with |- context [browser_cache_records now 0 [] [fq] ?nl _] => set (nl3 := nl) end.
  cbn [browser_cache_records].
  (* what the cache holds: the old SRV record replaced by the new one *)
  assert (V : view_of c3 = [ptr; srv'; txt]).
  { change (view_of c3) with (held c3). unfold c3, c2, c1. rewrite !add_is_listen1.
    change (held c0) with [ptr; srv; txt].
    assert (Mss : spec_match srv' srv = true).
    { unfold spec_match. rewrite Fl, S1, S1', S2, S2'. unfold bs_eqb. cbn [bs_data]. rewrite bytes_eqb_refl. cbn. apply orb_true_r. }
    unfold listen1 at 3. cbn [filter app]. rewrite Lp.
    unfold spec_match at 1. rewrite same_data_refl. cbn [orb negb].
    rewrite (spec_match_type ptr srv), (spec_match_type ptr txt) by congruence. cbn [negb app].
    unfold listen1 at 2. cbn [filter app]. rewrite Ls, Mss.
    rewrite (spec_match_type srv' txt), (spec_match_type srv' ptr) by congruence. cbn [negb app].
    unfold listen1. cbn [filter app]. rewrite Lx.
    unfold spec_match at 1. rewrite same_data_refl. cbn [orb negb].
    rewrite (spec_match_type txt ptr), (spec_match_type txt srv') by congruence. reflexivity. }
  cbn [browser_update_names nth_error w_browsers w_caches]. rewrite Hc. cbn [nth_error]. rewrite V.
  assert (Fq : match fq with [] => if nl3 then None else Some [] | _ :: _ => Some fq end = Some fq).
  { unfold fq. destruct nm; reflexivity. }
  rewrite Fq.
  pose proof (announcement_evaluated 0 ptr srv' txt T nm b An' Hnm HT (or_intror Hty)) as AR. cbv zeta in AR. fold fq in AR.
  rewrite Hs, Hne in AR.
  destruct (update_service 0 [ptr; srv'; txt] (Some fq) b) as [[need b'] es]. cbn [snd] in AR. subst es.
  cbv iota beta.
  match goal with |- context [browser_cache_addresses now 0 ?rs ?w'] => destruct (browser_cache_addresses now 0 rs w') as [w3 e3] end.
  cbn [snd]. apply in_app_iff. right. apply in_app_iff. left. left. reflexivity.
Qed.

(* ------------------------------------------------------------------ the expiry hop *)
(* all triggers of an entry have been reached: the inner loop of onTimeout erases them all *)
Lemma drop_passed_all now : forall tr, tr <> [] -> Forall (fun x => x <= now) tr -> drop_passed now tr = (true, []).
Proof.
  induction tr as [|x tr IH]; intros Hne F; [congruence|]. inversion F as [|? ? Hx Ht]; subst. cbn [drop_passed].
  rewrite trigger_passed_spec. replace (x <=? now) with true by lia.
  destruct tr as [|y tr']; [reflexivity|]. rewrite (IH ltac:(discriminate) Ht). reflexivity.
Qed.
Lemma drop_passed_none now x tr : now < x -> drop_passed now (x :: tr) = (false, x :: tr).
Proof. intro H. cbn [drop_passed]. rewrite trigger_passed_spec. replace (x <=? now) with false by lia. reflexivity. Qed.

(* the provider has silently vanished: when the lifetime of the SRV record runs out (all its triggers reached, those of
   the PTR and TXT records still ahead), the cache's timer handler drops it and announces the expiry, and the browser
   that reports the instance reports it as removed *)
Theorem srv_expiry_heard now (ptr srv txt : record) (T nm : list N) b x1 r1 x3 r3 t2 nxt tm s :
  announces ptr srv txt T nm -> b_cache b = 0%nat ->
  smap_find (nm ++ DOT :: T) (b_services b) = Some s -> bs_is_null (s_name s) = false ->
  t2 <> [] -> Forall (fun x => x <= now) t2 -> now < x1 -> now < x3 ->
  let w := mkWorld [mkCache [mkEntry ptr (x1 :: r1); mkEntry srv t2; mkEntry txt (x3 :: r3)] nxt tm] [b] 0 in
  In (ESig 0%N SIG_serviceRemoved (PService s)) (snd (world_cache_timeout now 0 w)).
Proof.
  intros [(P1 & P2 & P3) (S1 & S2) (X1 & X2)] Hc Hs Hnull Hne F2 H1 H3. cbv zeta.
  unfold world_cache_timeout. cbn [nth_error w_caches c_entries c_next]. unfold on_timeout. cbn [c_entries].
  cbn [pass e_trig e_rec]. rewrite (drop_passed_none now x1 r1 H1). cbn [app].
  rewrite (drop_passed_all now t2 Hne F2). rewrite (drop_passed_none now x3 r3 H3).
  cbn [pass app map e_rec]. cbn [w_browsers deliver_signals slots_for]. rewrite Hc. cbn [Nat.eqb].
  unfold on_record_expired at 1. rewrite S2. change (33 =? T_SRV)%N with true. cbn iota. rewrite S1. cbn [bs_data]. rewrite Hs, Hnull.
  cbn [deliver_signals slots_for app]. cbn [snd]. left. reflexivity.
Qed.

(* the usual case: the three records were announced together with the same TTL and run out at the same instant *)
Theorem all_expire_heard now (ptr srv txt : record) (T nm : list N) b t1 t2 t3 nxt tm s :
  announces ptr srv txt T nm -> b_cache b = 0%nat ->
  smap_find (nm ++ DOT :: T) (b_services b) = Some s -> bs_is_null (s_name s) = false ->
  t1 <> [] -> t2 <> [] -> t3 <> [] ->
  Forall (fun x => x <= now) t1 -> Forall (fun x => x <= now) t2 -> Forall (fun x => x <= now) t3 ->
  let w := mkWorld [mkCache [mkEntry ptr t1; mkEntry srv t2; mkEntry txt t3] nxt tm] [b] 0 in
  In (ESig 0%N SIG_serviceRemoved (PService s)) (snd (world_cache_timeout now 0 w)).
Proof.
  intros [(P1 & P2 & P3) (S1 & S2) (X1 & X2)] Hc Hs Hnull N1 N2 N3 F1 F2 F3. cbv zeta.
  unfold world_cache_timeout. cbn [nth_error w_caches c_entries c_next]. unfold on_timeout. cbn [c_entries].
  cbn [pass e_trig e_rec]. rewrite (drop_passed_all now t1 N1 F1), (drop_passed_all now t2 N2 F2), (drop_passed_all now t3 N3 F3).
  cbn [pass app map e_rec]. cbn [w_browsers deliver_signals slots_for]. rewrite Hc. cbn [Nat.eqb].
  unfold on_record_expired at 1. rewrite P2. change (12 =? T_SRV)%N with false. change (12 =? T_TXT)%N with false. cbn iota.
  cbn [deliver_signals slots_for app]. rewrite Hc. cbn [Nat.eqb].
  unfold on_record_expired at 1. rewrite S2. change (33 =? T_SRV)%N with true. cbn iota. rewrite S1. cbn [bs_data]. rewrite Hs, Hnull.
  cbn [deliver_signals slots_for app b_cache Nat.eqb].
  match goal with |- context [on_record_expired 0 [] txt ?b1] => destruct (on_record_expired 0 [] txt b1) as [b2 e2] end.
  rewrite Hc. cbn [Nat.eqb deliver_signals app snd]. left. reflexivity.
Qed.
