(* Base.v — bytes, byte strings with Qt's null flag, fixed-width arithmetic.
   No proofs about the library here: definitions plus small generic lemmas. *)
From Coq Require Export List NArith ZArith Bool Lia.
From Coq Require Import ZifyBool ZifyNat ZifyN.
Export ListNotations.
Ltac Zify.zify_post_hook ::= Z.div_mod_to_equations.

Local Open Scope N_scope.

(* ---- generic result type used by every decoder-like function ---- *)
Inductive res (A : Type) : Type :=
| Ok (a : A)        (* the C++ returned true / a value *)
| Fail              (* the C++ returned false *)
| Fault             (* the C++ would have read outside the buffer *)
| OutOfFuel.        (* the model's fuel ran out (proved unreachable) *)
Arguments Ok {A} a. Arguments Fail {A}. Arguments Fault {A}. Arguments OutOfFuel {A}.

Definition bind {A B} (r : res A) (f : A -> res B) : res B :=
  match r with Ok a => f a | Fail => Fail | Fault => Fault | OutOfFuel => OutOfFuel end.
Notation "'do' x <- r ; k" := (bind r (fun x => k)) (at level 200, x pattern, r at level 100, k at level 200).

(* ---- bytes ---- *)
Notation bytes := (list N) (only parsing).
Definition lenN {A} (l : list A) : N := N.of_nat (length l).
Definition is_byte (b : N) : bool := b <? 256.
Definition bytes_ok (l : bytes) : bool := forallb is_byte l.

Fixpoint bytes_eqb (a b : bytes) : bool :=
  match a, b with
  | [], [] => true
  | x :: a', y :: b' => (x =? y) && bytes_eqb a' b'
  | _, _ => false
  end.

(* QByteArray's operator< : unsigned byte-wise lexicographic, shorter first on a tie *)
Fixpoint bytes_ltb (a b : bytes) : bool :=
  match a, b with
  | [], [] => false
  | [], _ :: _ => true
  | _ :: _, [] => false
  | x :: a', y :: b' => if x <? y then true else if y <? x then false else bytes_ltb a' b'
  end.

(* QByteArray with its null flag: None = null. operator== ignores the flag. *)
Definition bstr := option bytes.
Definition bs_data (s : bstr) : bytes := match s with Some l => l | None => [] end.
Definition bs_eqb (a b : bstr) : bool := bytes_eqb (bs_data a) (bs_data b).
Definition bs_is_null (s : bstr) : bool := match s with None => true | Some _ => false end.

(* ---- fixed width ---- *)
Definition w16 (x : N) : N := x mod 65536.
Definition w32 (x : N) : N := x mod 4294967296.
Definition w8  (x : N) : N := x mod 256.
Definition be16 (x : N) : bytes := [(x / 256) mod 256; x mod 256].
Definition be32 (x : N) : bytes := [(x / 16777216) mod 256; (x / 65536) mod 256; (x / 256) mod 256; x mod 256].

(* ---- list helpers ---- *)
Fixpoint index_of (c : N) (l : bytes) : option nat :=
  match l with
  | [] => None
  | x :: l' => if x =? c then Some O else match index_of c l' with Some i => Some (S i) | None => None end
  end.

Fixpoint replace_byte (c d : N) (l : bytes) : bytes :=
  match l with [] => [] | x :: l' => (if x =? c then d else x) :: replace_byte c d l' end.

Definition ends_with (suffix l : bytes) : bool :=
  (length suffix <=? length l)%nat && bytes_eqb (skipn (length l - length suffix) l) suffix.

(* decimal digits of a positive count, as ASCII (QByteArray::number) *)
Fixpoint dec_digits (fuel : nat) (n : N) (acc : bytes) : bytes :=
  match fuel with
  | O => acc
  | S f => let acc' := (48 + n mod 10) :: acc in
           if n / 10 =? 0 then acc' else dec_digits f (n / 10) acc'
  end.
Definition dec_of_N (n : N) : bytes := dec_digits (S (N.to_nat (N.log2 n))) n [].

Definition DOT : N := 46.   (* '.' *)
Definition DASH : N := 45.  (* '-' *)
Definition EQS : N := 61.   (* '=' *)

(* ---- small generic lemmas ---- *)
Lemma bytes_eqb_refl a : bytes_eqb a a = true.
Proof. induction a as [|x a IH]; cbn; [reflexivity|]. rewrite N.eqb_refl, IH. reflexivity. Qed.

Lemma bytes_eqb_eq a b : bytes_eqb a b = true <-> a = b.
Proof.
  revert b; induction a as [|x a IH]; intros [|y b]; cbn; split; intro H; try congruence; try reflexivity.
  - apply andb_true_iff in H as [H1 H2]. apply N.eqb_eq in H1. apply IH in H2. congruence.
  - injection H as -> ->. rewrite N.eqb_refl. apply IH. reflexivity.
Qed.

Lemma bytes_eqb_sym a b : bytes_eqb a b = bytes_eqb b a.
Proof.
  destruct (bytes_eqb a b) eqn:E.
  - apply bytes_eqb_eq in E. subst. symmetry. apply bytes_eqb_refl.
  - destruct (bytes_eqb b a) eqn:E'; [|reflexivity]. apply bytes_eqb_eq in E'. subst.
    rewrite bytes_eqb_refl in E. discriminate.
Qed.

Lemma lenN_nil {A} : lenN (@nil A) = 0.
Proof. reflexivity. Qed.
Lemma lenN_cons {A} (x : A) l : lenN (x :: l) = 1 + lenN l.
Proof. unfold lenN. cbn [length]. lia. Qed.
Lemma lenN_app {A} (a b : list A) : lenN (a ++ b) = lenN a + lenN b.
Proof. unfold lenN. rewrite app_length. lia. Qed.
