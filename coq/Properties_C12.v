(* Properties_C12.v — a provider converges to the most recently supplied service. *)
From QV Require Import Base Fields SrcFacts Msg SrcDecisions Cache CacheSpec Sim Prober Hostname Provider ProviderSpec ProviderProofs ProviderListener ProviderConverge ProviderTarget.
From QV Require Import SimProofs.
Local Open Scope Z_scope.

(* Handler level (the run-level theorem follows below): the two publishing steps.  (1) publish() serves exactly the proposals that update() wrote
   from the last supplied service; (2) the handler of a completed probe rewrites the proposals to the confirmed
   candidate name and publishes them, withdrawing what was served before.  The convergence statement itself
   (C12_quiescent_correct: in every quiescent reachable state the served records are those of the last supplied
   service under the latest probed candidate with the registered hostname as target) is enforced on every run by
   the acceptor's final check (codes 30-34) on implementation and model traces; its invariant proof is not yet written. *)
Theorem C12_publish_serves_proposals_partial p :
  let p' := fst (publish p) in
  pv_browse p' = pv_browseP p /\ pv_ptr p' = pv_ptrP p /\ pv_srv p' = pv_srvP p /\ pv_txt p' = pv_txtP p /\
  snd (publish p) = [ESendAll (add_record (pv_txtP p) (add_record (pv_srvP p) (add_record (pv_ptrP p) (set_response true default_message))))].
Proof. exact (publish_serves_proposals p). Qed.
Print Assumptions C12_publish_serves_proposals_partial.

Theorem C12_confirmation_publishes_partial name p :
  pv_confirmed p = true ->
  exists bye ann, snd (on_name_confirmed name p) = [ESendAll bye; ESendAll ann] /\
    m_records bye = [set_ttl 0 (pv_ptr p); set_ttl 0 (pv_srv p); set_ttl 0 (pv_txt p)] /\
    m_records ann = [set_target name (pv_ptrP p); set_name name (pv_srvP p); set_name name (pv_txtP p)].
Proof. exact (name_confirmed_withdraws_first name p). Qed.
Print Assumptions C12_confirmation_publishes_partial.

(* ---- run level ----
   [kreach12 c L g]: c is a state of the hostname + provider + prober composite reached from the start by ANY sequence
   of handler invocations at any instants (one provider object at a time); L is the passive listener's cache (C13) and
   g the service most recently supplied to the existing provider.
   Whenever nothing is pending - no probe in flight - and the provider has learnt a host name to point at, it is
   confirmed and serves exactly that service: the PTR is named its type, the SRV carries its port, the TXT its attributes,
   all three under one instance name that is the requested name (dots replaced by dashes) or an alternative name-k of it
   (never an alternative of an alternative), with the SRV target the proposal carries (by C10 a host name under which the
   hostname object actually registered); and these three records are exactly what a passive listener holds.
   "First free" alternative is C07 (each candidate gets its own undisturbed two seconds).  That the target is the
   CURRENTLY registered host name needs the kernel's timer discipline (the re-assertion timer exists only while the
   hostname is registered) and is proved below (C12_serving_targets_current_hostname). *)
Theorem C12_quiescent_serves_last_request c L g s :
  kreach12 c L g -> g = Some s -> pv_exists (cp_prov c) = true -> cp_prober c = None ->
  bs_data (r_target (pv_srvP (cp_prov c))) <> [] ->
  pv_confirmed (cp_prov c) = true /\
  r_name (pv_ptr (cp_prov c)) = s_type s /\ r_port (pv_srv (cp_prov c)) = s_port s /\ r_attrs (pv_txt (cp_prov c)) = s_attrs s /\
  r_target (pv_srv (cp_prov c)) = r_target (pv_srvP (cp_prov c)) /\
  (exists k, r_name (pv_srv (cp_prov c)) = Some (candidate (req_label s) (req_tail s) k)) /\
  r_name (pv_txt (cp_prov c)) = r_name (pv_srv (cp_prov c)) /\ r_target (pv_ptr (cp_prov c)) = r_name (pv_srv (cp_prov c)) /\
  L = [pv_ptr (cp_prov c); pv_srv (cp_prov c); pv_txt (cp_prov c)].
Proof. exact (quiescent_serves_last_request c L g s). Qed.
Print Assumptions C12_quiescent_serves_last_request.

(* every supplied service is remembered: the proposals always carry the last request *)
Theorem C12_proposals_carry_last_request c L g s :
  kreach12 c L g -> g = Some s -> pv_exists (cp_prov c) = true ->
  pv_initialized (cp_prov c) = true /\
  r_name (pv_srvP (cp_prov c)) = Some (req_label s ++ req_tail s) /\ r_name (pv_ptrP (cp_prov c)) = s_type s /\
  r_port (pv_srvP (cp_prov c)) = s_port s /\ r_attrs (pv_txtP (cp_prov c)) = s_attrs s.
Proof. intros R E X. exact (ki_req _ _ (kreach12_inv _ _ _ R) s E X). Qed.
Print Assumptions C12_proposals_carry_last_request.

(* non-vacuity: register, offer "a" on port 80, then port 81 under the same name: served directly *)
Example C12_nonvacuous :
  let h0 := fst (on_rebroadcast (mkHost [118; 109]%N [] [] [] false 1)) in
  let c0 := mkComp h0 no_prov None in
  let svc := fun p => mkService (Some [95; 116; 46]%N) (Some [97]%N) None p [] in
  let evs := [(2000, EvTimer T_REG); (2000, EvApi PNewProv); (2000, EvApi (PUpdate (svc 80%N))); (4000, EvTimer T_PROBER);
              (5000, EvApi (PUpdate (svc 81%N)))] in
  let c := fold_left (fun c ne => fst (comp_handle (fst ne) c (snd ne))) evs c0 in
  cp_prober c = None /\ pv_confirmed (cp_prov c) = true /\ r_port (pv_srv (cp_prov c)) = 81%N /\
  bs_data (r_target (pv_srv (cp_prov c))) = [118; 109; 46; 108; 111; 99; 97; 108; 46]%N.
Proof. vm_compute. repeat split. Qed.

(* ---- last clause: "its currently registered hostname as SRV target" ----
   [creach s L g]: s is a state of the virtual-time kernel running the composite - the clock never goes back, a timer
   fires at or after its deadline and only if it is in the timer table, messages and API calls at any instant, one provider
   object at a time.  Every script of the executable model that creates a provider only when none exists stays inside
   (C12_model_runs_are_creachable).  Invariants: only the three known timers are ever armed and the re-assertion timer is
   armed only while the hostname is registered (creach_timers); the SRV proposal's target is empty or the last registered
   host name (creach_target).  Hence: *)
Theorem C12_serving_targets_current_hostname s L g :
  creach s L g ->
  pv_exists (cp_prov (s_st s)) = true -> pv_confirmed (cp_prov (s_st s)) = true -> cp_prober (s_st s) = None ->
  h_reg (cp_host (s_st s)) = true ->
  r_target (pv_srv (cp_prov (s_st s))) = Some (h_name (cp_host (s_st s))).
Proof. exact (serving_targets_current_hostname s L g). Qed.
Print Assumptions C12_serving_targets_current_hostname.

Theorem C12_model_runs_are_creachable fuel rawlocal ifs ops :
  ops_ok fuel (comp_init rawlocal ifs) ops ->
  exists L g, creach (state_after comp papi comp_handle fuel (comp_init rawlocal ifs) ops) L g.
Proof. exact (comp_run_creachable fuel rawlocal ifs ops). Qed.
Print Assumptions C12_model_runs_are_creachable.

(* the remaining gap is exactly the open finding: a provider that has learnt no host name (empty target) is not confirmed
   and serves nothing, even while the hostname object is registered - which is what happens to a provider created and
   updated inside the re-assertion window (known_findings.json: created-during-reassertion) *)
