(* Properties_C12.v — a provider converges to the most recently supplied service. *)
From QV Require Import Base Fields SrcFacts Msg SrcDecisions Sim Prober Hostname Provider ProviderSpec ProviderProofs.
Local Open Scope Z_scope.

(* PARTIAL.  Proved here: the two publishing steps.  (1) publish() serves exactly the proposals that update() wrote
   from the last supplied service; (2) the handler of a completed probe rewrites the proposals to the confirmed
   candidate name and publishes them, withdrawing what was served before.  The convergence statement itself
   (C12_quiescent_correct: in every quiescent reachable state the served records are those of the last supplied
   service under the latest probed candidate with the registered hostname as target) is enforced on every run by
   the acceptor's final check (codes 30-34) on implementation and model traces; its invariant proof is not yet written. *)
Theorem C12_publish_serves_proposals_partial p :
  let p' := fst (publish p) in
  pv_browse p' = pv_browseP p /\ pv_ptr p' = pv_ptrP p /\ pv_srv p' = pv_srvP p /\ pv_txt p' = pv_txtP p /\
  snd (publish p) = [ESendAll (add_record (pv_txtP p) (add_record (pv_srvP p) (add_record (pv_ptrP p) (set_response true default_message))))].
Proof. exact (publish_serves_proposals p). Qed.
Print Assumptions C12_publish_serves_proposals_partial.

Theorem C12_confirmation_publishes_partial name p :
  pv_confirmed p = true ->
  exists bye ann, snd (on_name_confirmed name p) = [ESendAll bye; ESendAll ann] /\
    m_records bye = [set_ttl 0 (pv_ptr p); set_ttl 0 (pv_srv p); set_ttl 0 (pv_txt p)] /\
    m_records ann = [set_target name (pv_ptrP p); set_name name (pv_srvP p); set_name name (pv_txtP p)].
Proof. exact (name_confirmed_withdraws_first name p). Qed.
Print Assumptions C12_confirmation_publishes_partial.
