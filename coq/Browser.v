(* Browser.v — model of browser.cpp: k browsers (specific type or enumerate-all) on one server, each with a
   private cache or sharing a Cache.v instance with others.  QSet iteration order is hash order in Qt; the
   model iterates in sorted order and the comparison canonicalises (DESIGN.md 3.1). *)
From QV Require Import Base Fields SrcFacts Msg SrcDecisions Cache Sim Prober Resolver.
Local Open Scope Z_scope.

(* ---- QByteArray::left / mid as used by updateService (Qt 5.15 clamping and null rules) ---- *)
Definition split_fq (fq : bstr) : bstr * bstr :=
  match index_of DOT (bs_data fq) with
  | Some i => (Some (firstn i (bs_data fq)), Some (skipn (S i) (bs_data fq)))
  | None => (Some [], fq)          (* left(-1) is empty non-null; mid(0) is the whole array, null if it was null *)
  end.

(* sorted sets / maps keyed by bytes *)
Fixpoint set_insert (x : bytes) (l : list bytes) : list bytes :=
  match l with
  | [] => [x]
  | y :: l' => if bytes_ltb x y then x :: l else if bytes_ltb y x then y :: set_insert x l' else l
  end.
Definition set_mem (x : bytes) (l : list bytes) : bool := existsb (bytes_eqb x) l.
Fixpoint smap_insert (k : bytes) (v : service) (m : list (bytes * service)) : list (bytes * service) :=
  match m with
  | [] => [(k, v)]
  | (k', v') :: m' => if bytes_ltb k k' then (k, v) :: m else if bytes_ltb k' k then (k', v') :: smap_insert k v m' else (k, v) :: m'
  end.
Fixpoint smap_find (k : bytes) (m : list (bytes * service)) : option service :=
  match m with [] => None | (k', v) :: m' => if bytes_eqb k k' then Some v else smap_find k m' end.
Definition smap_remove (k : bytes) (m : list (bytes * service)) : list (bytes * service) :=
  filter (fun kv => negb (bytes_eqb k (fst kv))) m.

Record browser := mkBrowser {
  b_type : bstr; b_cache : nat;
  b_services : list (bytes * service); b_hostnames : list bytes; b_ptr_targets : list bytes }.

Record world := mkWorld { w_caches : list cache; w_browsers : list browser; w_jitter : Z }.

(* timer ids, collision-free for any number of caches and browsers: residue 0 = cache i, 1 = browse question of j, 2 = batch of j *)
Definition T_CACHE_OF (i : nat) : N := (3 * N.of_nat i)%N.
Definition T_QUERY_OF (j : nat) : N := (3 * N.of_nat j + 1)%N.
Definition T_SERVICE_OF (j : nat) : N := (3 * N.of_nat j + 2)%N.

Definition view := list record.      (* what lookups see: the records held by the cache at that moment *)
Definition lookup_view (name : bstr) (type : N) (v : view) : list record := filter (cache_lookup_match name type) v.
Definition view_of (c : cache) : view := map e_rec (c_entries c).

(* BrowserPrivate::updateService: (needs an SRV query, browser, effects) *)
Definition update_service (j : nat) (v : view) (fq : bstr) (b : browser) : bool * browser * list eff :=
  let '(sname, stype) := split_fq fq in
  if browser_not_of_interest stype (b_type b) then (false, b, []) else
  match lookup_view stype T_PTR v with
  | [] => (false, b, [])
  | _ :: _ =>
      match lookup_view fq T_SRV v with
      | [] => (true, b, [])
      | srv :: _ =>
          let txts := lookup_view fq T_TXT v in
          let ats := fold_left (fun acc r => fold_left (fun a kv => attrs_insert (fst kv) (snd kv) a) (r_attrs r) acc) txts [] in
          let s := mkService stype sname (r_target srv) (r_port srv) ats in
          let key := bs_data fq in
          let es := match smap_find key (b_services b) with
                    | None => [ESig (N.of_nat j) SIG_serviceAdded (PService s)]
                    | Some old => if service_eqb old s then [] else [ESig (N.of_nat j) SIG_serviceUpdated (PService s)]
                    end in
          (false, mkBrowser (b_type b) (b_cache b) (smap_insert key s (b_services b))
                            (set_insert (bs_data (s_hostname s)) (b_hostnames b)) (b_ptr_targets b), es)
      end
  end.

Definition on_should_query (r : record) : list eff :=
  [ESendAll (add_query (mkQuery (r_name r) (r_type r) false) default_message)].

Definition on_record_expired (j : nat) (v : view) (r : record) (b : browser) : browser * list eff :=
  if (r_type r =? T_SRV)%N then
    match smap_find (bs_data (r_name r)) (b_services b) with
    | Some s =>
        if bs_is_null (s_name s) then (b, []) else
        let sv := smap_remove (bs_data (r_name r)) (b_services b) in
        (mkBrowser (b_type b) (b_cache b) sv
                   (fold_left (fun acc kv => set_insert (bs_data (s_hostname (snd kv))) acc) sv []) (b_ptr_targets b),
         [ESig (N.of_nat j) SIG_serviceRemoved (PService s)])
    | None => (b, [])
    end
  else if (r_type r =? T_TXT)%N then
    let '(_, b', es) := update_service j v (r_name r) b in (b', es)
  else (b, []).

(* deliver the cache's signals (with the content at emission) to every browser attached to cache ci, in creation order *)
Fixpoint slots_for (ci : nat) (sg : csig) (v : view) (j : nat) (bs : list browser) : list browser * list eff :=
  match bs with
  | [] => ([], [])
  | b :: bs' =>
      let '(b', e) := if Nat.eqb (b_cache b) ci then
                        match sg with
                        | ShouldQuery r => (b, on_should_query r)
                        | Expired r => on_record_expired j v r b
                        end
                      else (b, []) in
      let '(bs'', e') := slots_for ci sg v (S j) bs' in
      (b' :: bs'', e ++ e')
  end.
(* the browser's slots are connected shouldQuery first, then recordExpired; one signal at a time reaches every browser *)
Fixpoint deliver_signals (ci : nat) (sgs : list sigsnap) (bs : list browser) : list browser * list eff :=
  match sgs with
  | [] => (bs, [])
  | (sg, v) :: sgs' =>
      let '(bs1, e1) := slots_for ci sg v O bs in
      let '(bs2, e2) := deliver_signals ci sgs' bs1 in
      (bs2, e1 ++ e2)
  end.

Definition replace_nth {A} (n : nat) (x : A) (l : list A) : list A := firstn n l ++ x :: skipn (S n) l.

Definition world_cache_add (now : Z) (ci : nat) (r : record) (w : world) : world * list eff :=
  match nth_error (w_caches w) ci with
  | None => (w, [])
  | Some c =>
      let '(c', sgs) := add now (w_jitter w) r c in
      let te := if add_rearms now (w_jitter w) r c then match c_timer c' with Some d => [EStart (T_CACHE_OF ci) (d - now)] | None => [] end else [] in
      let '(bs, es) := deliver_signals ci sgs (w_browsers w) in
      (mkWorld (replace_nth ci c' (w_caches w)) bs (w_jitter w), es ++ te)
  end.

Definition world_cache_timeout (now : Z) (ci : nat) (w : world) : world * list eff :=
  match nth_error (w_caches w) ci with
  | None => (w, [])
  | Some c =>
      let '(c', sgs) := on_timeout now (mkCache (c_entries c) (c_next c) None) in
      let '(bs, es) := deliver_signals ci sgs (w_browsers w) in
      (mkWorld (replace_nth ci c' (w_caches w)) bs (w_jitter w),
       es ++ match c_timer c' with Some d => [EStart (T_CACHE_OF ci) (d - now)] | None => [] end)
  end.

Definition is_any (b : browser) : bool := browser_any (b_type b).

(* which records of a response the first loop of onMessageReceived keeps: (cacheRecord, name to re-evaluate, browse-PTR target) *)
Definition classify (b : browser) (r : record) : bool * option bstr * option bstr :=
  let any := is_any b in
  if (r_type r =? T_PTR)%N then
    if browser_ptr_browse any r (b_type b) then (true, None, Some (r_target r))
    else if browser_ptr_type any r (b_type b) then (true, Some (r_target r), None)
    else (false, None, None)
  else if (r_type r =? T_SRV)%N || (r_type r =? T_TXT)%N then
    if browser_srvtxt any r (b_type b) then (true, Some (r_name r), None)
    else (false, None, None)
  else (false, None, None).

(* first loop of onMessageReceived for browser j: filter by type, remember names, cache *)
Fixpoint browser_cache_records (now : Z) (j : nat) (rs : list record) (names : list bytes) (nulls : bool) (w : world)
  : world * list bytes * bool * list eff :=
  match rs with
  | [] => (w, names, nulls, [])
  | r :: rs' =>
      match nth_error (w_browsers w) j with
      | None => (w, names, nulls, [])
      | Some b =>
          let any := is_any b in
          (* (cacheRecord, name to re-evaluate, browse-PTR target) *)
          let '(keep, upd, tgt) := classify b r in
          let '(w1, e1) :=
            match tgt with
            | Some t =>
                let b' := mkBrowser (b_type b) (b_cache b) (b_services b) (b_hostnames b) (set_insert (bs_data t) (b_ptr_targets b)) in
                (mkWorld (w_caches w) (replace_nth j b' (w_browsers w)) (w_jitter w), [EStart (T_SERVICE_OF j) service_batch_ms])
            | None => (w, [])
            end in
          let names' := match upd with Some n => set_insert (bs_data n) names | None => names end in
          (* a null name (a root-name target) and an empty one are the same key of the QSet; the flag remembers whether
             the stored element is null (the first one inserted wins) *)
          let nulls' := match upd with
                        | Some n => if set_mem (bs_data n) names then nulls
                                    else match bs_data n with [] => bs_is_null n | _ => nulls end
                        | None => nulls
                        end in
          let '(w2, e2) := if keep then world_cache_add now (b_cache b) r w1 else (w1, []) in
          let '(w3, nm, nl, e3) := browser_cache_records now j rs' names' nulls' w2 in
          (w3, nm, nl, e1 ++ e2 ++ e3)
      end
  end.

Fixpoint browser_update_names (j : nat) (names : list bytes) (nulls : bool) (w : world) (queries : list bytes)
  : world * list bytes * list eff :=
  match names with
  | [] => (w, queries, [])
  | n :: names' =>
      match nth_error (w_browsers w) j with
      | None => (w, queries, [])
      | Some b =>
          let v := match nth_error (w_caches w) (b_cache b) with Some c => view_of c | None => [] end in
          let fq := match n with [] => if nulls then None else Some [] | _ => Some n end in
          let '(need, b', es) := update_service j v fq b in
          let w' := mkWorld (w_caches w) (replace_nth j b' (w_browsers w)) (w_jitter w) in
          let '(w'', qs, es') := browser_update_names j names' nulls w' (if need then set_insert n queries else queries) in
          (w'', qs, es ++ es')
      end
  end.

Fixpoint browser_cache_addresses (now : Z) (j : nat) (rs : list record) (w : world) : world * list eff :=
  match rs with
  | [] => (w, [])
  | r :: rs' =>
      match nth_error (w_browsers w) j with
      | None => (w, [])
      | Some b =>
          let '(w1, e1) :=
            if ((r_type r =? T_A)%N || (r_type r =? T_AAAA)%N) && set_mem (bs_data (r_name r)) (b_hostnames b)
            then world_cache_add now (b_cache b) r w else (w, []) in
          let '(w2, e2) := browser_cache_addresses now j rs' w1 in
          (w2, e1 ++ e2)
      end
  end.

Definition browser_on_message (now : Z) (j : nat) (m : message) (w : world) : world * list eff :=
  if negb (m_response m) then (w, []) else
  let '(w1, names, nulls, e1) := browser_cache_records now j (m_records m) [] false w in
  let '(w2, qnames, e2) := browser_update_names j names nulls w1 [] in
  let '(w3, e3) := browser_cache_addresses now j (m_records m) w2 in
  let e4 := match qnames with
            | [] => []
            | _ :: _ =>
                [ESendAll (fold_left (fun msg n =>
                     let nm := match n with [] => if nulls then None else Some [] | _ => Some n end in
                     add_query (mkQuery nm T_TXT false) (add_query (mkQuery nm T_SRV false) msg)) qnames default_message)]
            end in
  (w3, e1 ++ e2 ++ e3 ++ e4).

Definition browser_query_timeout (j : nat) (w : world) : list eff :=
  match nth_error (w_browsers w) j with
  | None => []
  | Some b =>
      let v := match nth_error (w_caches w) (b_cache b) with Some c => view_of c | None => [] end in
      let msg := fold_left (fun m r => add_record r m) (lookup_view (b_type b) T_PTR v)
                           (add_query (mkQuery (b_type b) T_PTR false) default_message) in
      [ESendAll msg; EStart (T_QUERY_OF j) browse_period_ms]
  end.

Definition browser_service_timeout (j : nat) (w : world) : world * list eff :=
  match nth_error (w_browsers w) j with
  | None => (w, [])
  | Some b =>
      match b_ptr_targets b with
      | [] => (w, [])
      | ts =>
          let v := match nth_error (w_caches w) (b_cache b) with Some c => view_of c | None => [] end in
          let msg := fold_left (fun m t =>
                        fold_left (fun m' r => add_record r m') (lookup_view (Some t) T_PTR v)
                                  (add_query (mkQuery (Some t) T_PTR false) m)) ts default_message in
          let b' := mkBrowser (b_type b) (b_cache b) (b_services b) (b_hostnames b) [] in
          (mkWorld (w_caches w) (replace_nth j b' (w_browsers w)) (w_jitter w), [ESendAll msg])
      end
  end.

Inductive bapi :=
| BNewCache
| BNewBrowser (type : bstr) (cache : option nat)    (* None: private cache *)
| BJitter (j : Z)
| BCadd (ci : nat) (r : record) (j : Z)
| BLookup (ci : nat) (name : bstr) (type : N).

Fixpoint all_browsers_on_message (now : Z) (j n : nat) (m : message) (w : world) : world * list eff :=
  match n with
  | O => (w, [])
  | S n' =>
      let '(w1, e1) := browser_on_message now j m w in
      let '(w2, e2) := all_browsers_on_message now (S j) n' m w1 in
      (w2, e1 ++ e2)
  end.

Definition world_handle (now : Z) (w : world) (ev : event bapi) : world * list eff :=
  match ev with
  | EvMsg m => all_browsers_on_message now O (length (w_browsers w)) m w
  | EvTimer tid =>
      if (tid mod 3 =? 0)%N then world_cache_timeout now (N.to_nat (tid / 3)) w
      else if (tid mod 3 =? 1)%N then (w, browser_query_timeout (N.to_nat (tid / 3)) w)
      else browser_service_timeout (N.to_nat (tid / 3)) w
  | EvApi BNewCache => (mkWorld (w_caches w ++ [empty_cache]) (w_browsers w) (w_jitter w), [])
  | EvApi (BNewBrowser ty co) =>
      let '(caches, ci) := match co with
                           | Some ci => (w_caches w, ci)
                           | None => (w_caches w ++ [empty_cache], length (w_caches w))
                           end in
      let j := length (w_browsers w) in
      let w' := mkWorld caches (w_browsers w ++ [mkBrowser ty ci [] [] []]) (w_jitter w) in
      (w', browser_query_timeout j w')
  | EvApi (BJitter j) => (mkWorld (w_caches w) (w_browsers w) j, [])
  | EvApi (BCadd ci r j) => world_cache_add now ci r (mkWorld (w_caches w) (w_browsers w) j)
  | EvApi (BLookup ci n ty) =>
      (w, [ELook (match nth_error (w_caches w) ci with Some c => lookup n ty c | None => [] end)])
  end.

Definition world_run (fuel : nat) (ops : list (aop bapi)) : list (list out) :=
  run_g world bapi world_handle (fun _ => []) fuel (mkSim 0 [] 0%N (mkWorld [] [] 0)) ops.
