(* Sim.v — virtual-time kernel shared by the state-machine models: single-shot timer table
   (id, deadline, registration sequence number) exactly as the harness's dispatcher keeps it,
   effects, scripts, timestamped outputs. *)
From QV Require Import Base Fields SrcFacts Msg.
Local Open Scope Z_scope.

Inductive payload := PNone | PBytes (b : bstr) | PService (s : service) | PAddr (a : addr) | PRecord (r : record).

(* signal codes *)
Definition SIG_nameConfirmed : N := 1.   Definition SIG_hostnameChanged : N := 2.
Definition SIG_serviceAdded : N := 3.    Definition SIG_serviceUpdated : N := 4.
Definition SIG_serviceRemoved : N := 5.  Definition SIG_resolved : N := 6.

Inductive eff :=
| ESend (m : message)                (* AbstractServer::sendMessage (reply) *)
| ESendAll (m : message)             (* AbstractServer::sendMessageToAll *)
| ESig (obj sig : N) (p : payload)   (* a signal emitted to the application *)
| EStart (tid : N) (ms : Z)          (* QTimer::start: (re)arms the single-shot timer *)
| EStop (tid : N)
| ELook (rs : list record).        (* result of a cache lookup requested by the script *)

Inductive out :=
| OSend (t : Z) (m : message)
| OSendAll (t : Z) (m : message)
| OSignal (t : Z) (obj sig : N) (p : payload)
| OPoll (obj : N) (flag : bool) (b : bstr)
| OLook (rs : list record)
| OOutOfFuel.

Inductive event (api : Type) := EvMsg (m : message) | EvTimer (tid : N) | EvApi (a : api).
Arguments EvMsg {api}. Arguments EvTimer {api}. Arguments EvApi {api}.

Inductive aop (api : Type) :=
| ADeliver (m : message)
| AAdv (t : Z)        (* exact scheduling: every timer with deadline <= t fires at its deadline, in (deadline, seq) order *)
| AAdvB (t : Z)       (* as AAdv for deadlines < t; the clock ends at t with timers due exactly at t still pending *)
| ALate (t : Z)       (* the clock jumps to t first, then everything due fires (late) at instant t *)
| AApi (a : api).
Arguments ADeliver {api}. Arguments AAdv {api}. Arguments AAdvB {api}. Arguments ALate {api}. Arguments AApi {api}.

Definition timers := list (N * Z * N).

Definition tm_remove (tid : N) (tm : timers) : timers := filter (fun '(i, _, _) => negb (i =? tid)%N) tm.

(* the due timer with the least (deadline, seq) *)
Fixpoint tm_next (tm : timers) (t : Z) (strict : bool) (best : option (N * Z * N)) : option (N * Z * N) :=
  match tm with
  | [] => best
  | (i, d, s) :: tm' =>
      let due := if strict then d <? t else d <=? t in
      let better := match best with
                    | None => true
                    | Some (_, d0, s0) => (d <? d0) || ((d =? d0) && (s <? s0)%N)
                    end in
      tm_next tm' t strict (if due && better then Some (i, d, s) else best)
  end.

Section Sim.
  Variables (St api : Type).
  (* one handler invocation: current instant, state, event -> new state and effects in program order *)
  Variable handle : Z -> St -> event api -> St * list eff.
  (* state polls performed by the harness between handlers (hostname: isRegistered / hostname) *)
  Variable poll : St -> list out.

  Record sim := mkSim { s_now : Z; s_tm : timers; s_seq : N; s_st : St }.

  Fixpoint apply_effs (now : Z) (tm : timers) (seq : N) (es : list eff) : timers * N * list out :=
    match es with
    | [] => (tm, seq, [])
    | e :: es' =>
        match e with
        | ESend m => let '(tm', sq', o) := apply_effs now tm seq es' in (tm', sq', OSend now m :: o)
        | ESendAll m => let '(tm', sq', o) := apply_effs now tm seq es' in (tm', sq', OSendAll now m :: o)
        | ESig ob sg p => let '(tm', sq', o) := apply_effs now tm seq es' in (tm', sq', OSignal now ob sg p :: o)
        | EStart tid ms => apply_effs now (tm_remove tid tm ++ [(tid, now + ms, (seq + 1)%N)]) (seq + 1)%N es'
        | EStop tid => apply_effs now (tm_remove tid tm) seq es'
        | ELook rs => let '(tm', sq', o) := apply_effs now tm seq es' in (tm', sq', OLook rs :: o)
        end
    end.

  Definition dispatch (s : sim) (ev : event api) : sim * list out :=
    let '(st', es) := handle (s_now s) (s_st s) ev in
    let '(tm', sq', o) := apply_effs (s_now s) (s_tm s) (s_seq s) es in
    (mkSim (s_now s) tm' sq' st', o).

  Fixpoint fire_due (fuel : nat) (t : Z) (strict late : bool) (s : sim) : sim * list out :=
    match fuel with
    | O => (s, [OOutOfFuel])
    | S f =>
        match tm_next (s_tm s) t strict None with
        | None => (s, [])
        | Some (tid, d, _) =>
            let now' := if late then s_now s else Z.max (s_now s) d in
            let s1 := mkSim now' (tm_remove tid (s_tm s)) (s_seq s) (s_st s) in
            let '(s2, o1) := dispatch s1 (EvTimer tid) in
            let '(s3, o2) := fire_due f t strict late s2 in
            (s3, o1 ++ o2)
        end
    end.

  Definition set_now (t : Z) (s : sim) : sim := mkSim (Z.max (s_now s) t) (s_tm s) (s_seq s) (s_st s).

  Definition step (fuel : nat) (s : sim) (o : aop api) : sim * list out :=
    match o with
    | ADeliver m => dispatch s (EvMsg m)
    | AApi a => dispatch s (EvApi a)
    | AAdv t => if t <? s_now s then (s, []) else
                let '(s', o) := fire_due fuel t false false s in (set_now t s', o)
    | AAdvB t => if t <? s_now s then (s, []) else
                 let '(s', o) := fire_due fuel t true false s in (set_now t s', o)
    | ALate t => if t <? s_now s then (s, []) else fire_due fuel t false true (set_now t s)
    end.

  Fixpoint run_g (fuel : nat) (s : sim) (ops : list (aop api)) : list (list out) :=
    match ops with
    | [] => []
    | o :: ops' => let '(s', out) := step fuel s o in (out ++ poll (s_st s')) :: run_g fuel s' ops'
    end.
End Sim.

Arguments mkSim {St}. Arguments s_now {St}. Arguments s_tm {St}. Arguments s_seq {St}. Arguments s_st {St}.
