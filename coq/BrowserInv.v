(* BrowserInv.v — C14: over the whole life of a browser, for every sequence of handler invocations (messages, cache
   and browser timers, API calls, any number of browsers and shared caches), its notifications form well-formed life
   cycles per instance, and a typed browser only reports services of its type. *)
From QV Require Import Base Fields SrcFacts Msg SrcDecisions Cache CacheSpec CacheProofs Sim SimProofs Prober Resolver Browser BrowserProofs.
From Coq Require Import ZifyBool ZifyNat ZifyN.
Local Open Scope Z_scope.

(* ---- service equality (Service::operator==, fields regenerated from service.cpp) is an equivalence ---- *)
Lemma sfield_agree_refl f a : sfield_agree f a a = true.
Proof.
  destruct f; cbn; unfold bs_eqb; try apply bytes_eqb_refl; try apply N.eqb_refl.
  induction (s_attrs a) as [|[k v] l IH]; cbn; [reflexivity|]. unfold bs_eqb. rewrite !bytes_eqb_refl, IH. reflexivity.
Qed.
Lemma sfield_agree_sym f a b : sfield_agree f a b = sfield_agree f b a.
Proof. destruct f; cbn; auto using bs_eqb_sym, N.eqb_sym, attrs_eqb_sym. Qed.
Lemma sfield_agree_trans f a b c : sfield_agree f a b = true -> sfield_agree f b c = true -> sfield_agree f a c = true.
Proof. destruct f; cbn; eauto using bs_eqb_trans, attrs_eqb_trans. rewrite !N.eqb_eq. congruence. Qed.
Lemma service_eqb_refl a : service_eqb a a = true.
Proof. unfold service_eqb. apply forallb_forall. intros f _. apply sfield_agree_refl. Qed.
Lemma service_eqb_sym a b : service_eqb a b = service_eqb b a.
Proof. unfold service_eqb. apply forallb_ext_in. intros; apply sfield_agree_sym. Qed.
Lemma service_eqb_trans a b c : service_eqb a b = true -> service_eqb b c = true -> service_eqb a c = true.
Proof. unfold service_eqb. rewrite !forallb_forall. intros H1 H2 f Hf. eapply sfield_agree_trans; eauto. Qed.

(* ---- the sorted association list, as a map ---- *)
Lemma bytes_ltb_irrefl a : bytes_ltb a a = false.
Proof. induction a as [|x a IH]; cbn; [reflexivity|]. rewrite N.ltb_irrefl. exact IH. Qed.
Lemma bytes_ltb_tricho : forall a b, bytes_ltb a b = false -> bytes_ltb b a = false -> a = b.
Proof.
  induction a as [|x a IH]; intros [|y b]; cbn; try discriminate; [reflexivity|].
  destruct (x <? y)%N eqn:E1; [discriminate|]. destruct (y <? x)%N eqn:E2; [discriminate|].
  intros H1 H2. apply N.ltb_ge in E1, E2. assert (x = y) by lia. subst. f_equal. apply IH; assumption.
Qed.
Lemma bytes_ltb_neq a b : bytes_ltb a b = true -> bytes_eqb b a = false.
Proof.
  intro H. destruct (bytes_eqb b a) eqn:E; [|reflexivity]. apply bytes_eqb_eq in E. subst. rewrite bytes_ltb_irrefl in H. discriminate.
Qed.

Notation smap := (list (bytes * service)) (only parsing).

Lemma smap_find_insert k v : forall (m : smap) k2,
  smap_find k2 (smap_insert k v m) = if bytes_eqb k2 k then Some v else smap_find k2 m.
Proof.
  induction m as [|[k' v'] m IH]; intro k2; cbn [smap_insert smap_find]; [reflexivity|].
  destruct (bytes_ltb k k') eqn:L1; [reflexivity|].
  destruct (bytes_ltb k' k) eqn:L2.
  - cbn [smap_find]. rewrite IH. destruct (bytes_eqb k2 k') eqn:E; [|reflexivity].
    apply bytes_eqb_eq in E. subst k2. rewrite bytes_eqb_sym, (bytes_ltb_neq _ _ L2). reflexivity.
  - pose proof (bytes_ltb_tricho _ _ L1 L2) as <-. cbn [smap_find]. destruct (bytes_eqb k2 k); reflexivity.
Qed.
Lemma smap_find_remove k : forall (m : smap) k2,
  smap_find k2 (smap_remove k m) = if bytes_eqb k2 k then None else smap_find k2 m.
Proof.
  unfold smap_remove. induction m as [|[k' v'] m IH]; intro k2; cbn [filter smap_find fst]; [destruct (bytes_eqb k2 k); reflexivity|].
  destruct (bytes_eqb k k') eqn:E; cbn [negb].
  - apply bytes_eqb_eq in E. subst k'. rewrite IH. destruct (bytes_eqb k2 k); reflexivity.
  - cbn [smap_find]. rewrite IH. destruct (bytes_eqb k2 k') eqn:E2; [|reflexivity].
    apply bytes_eqb_eq in E2. subst k2. rewrite bytes_eqb_sym, E. reflexivity.
Qed.

(* ---- the life-cycle relation over the effects of browser j ---- *)
Definition sig_for (j : nat) (e : eff) : option (N * service) :=
  match e with
  | ESig ob sg (PService s) => if (ob =? N.of_nat j)%N then Some (sg, s) else None
  | _ => None
  end.

(* the instance a notification is about: its full name splits into the reported name and type *)
Definition names (k : bytes) (s : service) : Prop := split_fq (Some k) = (s_name s, s_type s).
Definition type_ok (ty : bstr) (s : service) : bool := bs_eqb ty (Some browse_type) || bs_eqb (s_type s) ty.

(* ghost p: instance -> description as last reported.  added: not currently added; updated: currently added and
   different from the last report; removed: currently added and equal to the last report *)
Inductive LC (ty : bstr) (j : nat) : smap -> list eff -> smap -> Prop :=
| LC_nil p : LC ty j p [] p
| LC_skip p e es p' : sig_for j e = None -> LC ty j p es p' -> LC ty j p (e :: es) p'
| LC_add p e es p' k s :
    sig_for j e = Some (SIG_serviceAdded, s) -> names k s -> type_ok ty s = true ->
    smap_find k p = None -> LC ty j (smap_insert k s p) es p' -> LC ty j p (e :: es) p'
| LC_upd p e es p' k s old :
    sig_for j e = Some (SIG_serviceUpdated, s) -> names k s -> type_ok ty s = true ->
    smap_find k p = Some old -> service_eqb old s = false -> LC ty j (smap_insert k s p) es p' -> LC ty j p (e :: es) p'
| LC_rem p e es p' k s old :
    sig_for j e = Some (SIG_serviceRemoved, s) -> names k s -> type_ok ty s = true ->
    smap_find k p = Some old -> service_eqb old s = true -> LC ty j (smap_remove k p) es p' -> LC ty j p (e :: es) p'.

Lemma LC_app ty j p es1 p1 es2 p2 : LC ty j p es1 p1 -> LC ty j p1 es2 p2 -> LC ty j p (es1 ++ es2) p2.
Proof.
  induction 1 as [p|p e es p' Hs _ IH|p e es p' k s Hs Hn Ht Hf _ IH|p e es p' k s old Hs Hn Ht Hf He _ IH|p e es p' k s old Hs Hn Ht Hf He _ IH];
    intro H2; cbn [app]; [exact H2|..].
  - apply LC_skip; auto.
  - eapply LC_add; eauto.
  - eapply LC_upd; eauto.
  - eapply LC_rem; eauto.
Qed.

Definition quiet (j : nat) (es : list eff) : Prop := forall e, In e es -> sig_for j e = None.
Lemma LC_quiet ty j p es : quiet j es -> LC ty j p es p.
Proof.
  induction es as [|e es IH]; intro Q; [constructor|]. apply LC_skip; [apply Q; left; reflexivity|].
  apply IH. intros e' H. apply Q. right. exact H.
Qed.
Lemma quiet_app j a b : quiet j a -> quiet j b -> quiet j (a ++ b).
Proof. intros A B e H. apply in_app_iff in H as [H|H]; auto. Qed.
Lemma quiet_nil j : quiet j [].
Proof. intros e []. Qed.

(* stored map m against ghost p: same instances, stored description equal (operator==) to the last report; every
   stored description is of the browser's type *)
Definition rel_opt (a b : option service) : Prop :=
  match a, b with
  | None, None => True
  | Some x, Some y => service_eqb x y = true
  | _, _ => False
  end.
Definition R (ty : bstr) (p m : smap) : Prop :=
  (forall k, rel_opt (smap_find k p) (smap_find k m)) /\
  (forall k s, smap_find k m = Some s -> names k s /\ type_ok ty s = true).

(* one step of browser j's stored map, justified by its effects *)
Definition Step (ty : bstr) (j : nat) (es : list eff) (m m' : smap) : Prop :=
  forall p, R ty p m -> exists p', LC ty j p es p' /\ R ty p' m'.

Lemma Step_refl ty j es m : quiet j es -> Step ty j es m m.
Proof. intros Q p H. exists p. split; [apply LC_quiet, Q|exact H]. Qed.
Lemma Step_trans ty j e1 e2 m m1 m2 : Step ty j e1 m m1 -> Step ty j e2 m1 m2 -> Step ty j (e1 ++ e2) m m2.
Proof.
  intros S1 S2 p H. destruct (S1 p H) as (p1 & L1 & H1). destruct (S2 p1 H1) as (p2 & L2 & H2).
  exists p2. split; [eapply LC_app; eauto|exact H2].
Qed.

Lemma sig_for_self j sg s : sig_for j (ESig (N.of_nat j) sg (PService s)) = Some (sg, s).
Proof. cbn. rewrite N.eqb_refl. reflexivity. Qed.
Lemma sig_for_other j j' sg s : j <> j' -> sig_for j' (ESig (N.of_nat j) sg (PService s)) = None.
Proof. intro H. cbn. destruct (N.of_nat j =? N.of_nat j')%N eqn:E; [|reflexivity]. apply N.eqb_eq in E. lia. Qed.

Lemma R_insert ty p m k s s' :
  R ty p m -> service_eqb s s' = true -> names k s' -> type_ok ty s' = true -> R ty (smap_insert k s p) (smap_insert k s' m).
Proof.
  intros [H1 H2] E Hn Ht. split.
  - intro k2. rewrite !smap_find_insert. destruct (bytes_eqb k2 k); [exact E|apply H1].
  - intros k2 s2. rewrite smap_find_insert. destruct (bytes_eqb k2 k) eqn:E2; [|apply H2].
    intro X. injection X as <-. apply bytes_eqb_eq in E2. subst. auto.
Qed.
Lemma R_remove ty p m k : R ty p m -> R ty (smap_remove k p) (smap_remove k m).
Proof.
  intros [H1 H2]. split.
  - intro k2. rewrite !smap_find_remove. destruct (bytes_eqb k2 k); [exact I|apply H1].
  - intros k2 s2. rewrite smap_find_remove. destruct (bytes_eqb k2 k); [discriminate|apply H2].
Qed.

(* ---- updateService ---- *)
Lemma update_service_step j v fq b :
  let '(need, b', es) := update_service j v fq b in
  b_type b' = b_type b /\ b_cache b' = b_cache b /\
  Step (b_type b) j es (b_services b) (b_services b') /\ (forall j', j' <> j -> quiet j' es).
Proof.
  unfold update_service. destruct (split_fq fq) as [sname stype] eqn:SF. rewrite not_of_interest_spec.
  destruct ((match bs_data stype with [] => true | _ :: _ => false end)
            || (negb (bs_eqb (b_type b) (Some browse_type)) && negb (bs_eqb stype (b_type b)))) eqn:G.
  { repeat split; auto using Step_refl, quiet_nil. }
  apply orb_false_iff in G as [G0 G].
  assert (Ht : forall h po ats, type_ok (b_type b) (mkService stype sname h po ats) = true).
  { intros. unfold type_ok. cbn [s_type]. destruct (bs_eqb (b_type b) (Some browse_type)); [reflexivity|].
    destruct (bs_eqb stype (b_type b)); [reflexivity|discriminate]. }
  assert (Hn : forall h po ats, names (bs_data fq) (mkService stype sname h po ats)).
  { intros. unfold names. cbn [s_name s_type]. destruct fq as [l|]; [exact SF|].
    cbn in SF. injection SF as <- <-. cbn in G0. discriminate. }
  destruct (lookup_view stype T_PTR v) as [|ptr ptrs]; [repeat split; auto using Step_refl, quiet_nil|].
  destruct (lookup_view fq T_SRV v) as [|srv srvs]; [repeat split; auto using Step_refl, quiet_nil|].
  set (s := mkService stype sname (r_target srv) (r_port srv) _).
  cbn [b_type b_cache b_services]. split; [reflexivity|]. split; [reflexivity|].
  destruct (smap_find (bs_data fq) (b_services b)) as [old|] eqn:F.
  - destruct (service_eqb old s) eqn:E.
    + (* unchanged: silent *)
      split; [|intros; apply quiet_nil]. intros p [H1 H2]. exists p. split; [constructor|]. split.
      * intro k2. rewrite smap_find_insert. destruct (bytes_eqb k2 (bs_data fq)) eqn:E2; [|apply H1].
        apply bytes_eqb_eq in E2. subst k2. specialize (H1 (bs_data fq)). rewrite F in H1.
        destruct (smap_find (bs_data fq) p) as [g|]; [|destruct H1]. unfold rel_opt in *. eapply service_eqb_trans; eauto.
      * intros k2 s2. rewrite smap_find_insert. destruct (bytes_eqb k2 (bs_data fq)) eqn:E2; [|apply H2].
        intro X. injection X as <-. apply bytes_eqb_eq in E2. subst k2. split; [apply Hn|apply Ht].
    + (* updated *)
      split; [|intros j' Hj e [<-|[]]; apply sig_for_other; congruence].
      intros p HR. pose proof HR as [H1 H2]. specialize (H1 (bs_data fq)). rewrite F in H1.
      destruct (smap_find (bs_data fq) p) as [g|] eqn:Fp; [|destruct H1]. unfold rel_opt in H1.
      exists (smap_insert (bs_data fq) s p). split.
      * eapply LC_upd; [apply sig_for_self|apply Hn|apply Ht|exact Fp| |constructor].
        destruct (service_eqb g s) eqn:E3; [|reflexivity]. rewrite service_eqb_sym in H1.
        rewrite (service_eqb_trans _ _ _ H1 E3) in E. discriminate.
      * apply R_insert; [exact HR|apply service_eqb_refl|apply Hn|apply Ht].
  - (* added *)
    split; [|intros j' Hj e [<-|[]]; apply sig_for_other; congruence].
    intros p HR. pose proof HR as [H1 H2]. specialize (H1 (bs_data fq)). rewrite F in H1.
    destruct (smap_find (bs_data fq) p) as [g|] eqn:Fp; [destruct H1|].
    exists (smap_insert (bs_data fq) s p). split.
    + eapply LC_add; [apply sig_for_self|apply Hn|apply Ht|exact Fp|constructor].
    + apply R_insert; [exact HR|apply service_eqb_refl|apply Hn|apply Ht].
Qed.

(* ---- onRecordExpired ---- *)
Lemma record_expired_step j v r b :
  let '(b', es) := on_record_expired j v r b in
  b_type b' = b_type b /\ b_cache b' = b_cache b /\
  Step (b_type b) j es (b_services b) (b_services b') /\ (forall j', j' <> j -> quiet j' es).
Proof.
  unfold on_record_expired. destruct (r_type r =? T_SRV)%N.
  - destruct (smap_find (bs_data (r_name r)) (b_services b)) as [s|] eqn:F; [|repeat split; auto using Step_refl, quiet_nil].
    destruct (bs_is_null (s_name s)); [repeat split; auto using Step_refl, quiet_nil|].
    cbn [b_type b_cache b_services]. split; [reflexivity|]. split; [reflexivity|].
    split; [|intros j' Hj e [<-|[]]; apply sig_for_other; congruence].
    intros p HR. pose proof HR as [H1 H2]. destruct (H2 _ _ F) as [Hn Ht]. specialize (H1 (bs_data (r_name r))). rewrite F in H1.
    destruct (smap_find (bs_data (r_name r)) p) as [g|] eqn:Fp; [|destruct H1]. unfold rel_opt in H1.
    exists (smap_remove (bs_data (r_name r)) p). split.
    + eapply LC_rem; [apply sig_for_self|exact Hn|exact Ht|exact Fp|exact H1|constructor].
    + apply R_remove, HR.
  - destruct (r_type r =? T_TXT)%N; [|repeat split; auto using Step_refl, quiet_nil].
    pose proof (update_service_step j v (r_name r) b) as U. destruct (update_service j v (r_name r) b) as [[need b'] es]. exact U.
Qed.

(* ---- lists of browsers (slots are called in creation order; index = position + offset) ---- *)
Definition LStep (j0 : nat) (bs : list browser) (es : list eff) (bs' : list browser) : Prop :=
  (forall i b, nth_error bs i = Some b ->
     exists b', nth_error bs' i = Some b' /\ b_type b' = b_type b /\
                Step (b_type b) (j0 + i) es (b_services b) (b_services b')) /\
  (forall j', (j' < j0)%nat -> quiet j' es).

Lemma Step_quiet_r ty j e1 e2 m m' : Step ty j e1 m m' -> quiet j e2 -> Step ty j (e1 ++ e2) m m'.
Proof. intros S Q. eapply Step_trans; [exact S|apply Step_refl, Q]. Qed.
Lemma Step_quiet_l ty j e1 e2 m m' : quiet j e1 -> Step ty j e2 m m' -> Step ty j (e1 ++ e2) m m'.
Proof. intros Q S. eapply Step_trans; [apply Step_refl, Q|exact S]. Qed.

Lemma should_query_quiet j r : quiet j (on_should_query r).
Proof. intros e [<-|[]]. reflexivity. Qed.

Lemma slots_for_step ci sg v : forall bs j0,
  let '(bs', es) := slots_for ci sg v j0 bs in LStep j0 bs es bs'.
Proof.
  induction bs as [|b bs IH]; intro j0; cbn [slots_for].
  - split; [intros i b H; destruct i; discriminate|intros; apply quiet_nil].
  - assert (H0 : let '(b', e) := (if Nat.eqb (b_cache b) ci then
                        match sg with ShouldQuery r => (b, on_should_query r) | Expired r => on_record_expired j0 v r b end
                      else (b, [])) in
                 b_type b' = b_type b /\ Step (b_type b) j0 e (b_services b) (b_services b') /\ (forall j', j' <> j0 -> quiet j' e)).
    { destruct (Nat.eqb (b_cache b) ci).
      - destruct sg as [r|r].
        + repeat split; [apply Step_refl, should_query_quiet|intros; apply should_query_quiet].
        + pose proof (record_expired_step j0 v r b) as X. destruct (on_record_expired j0 v r b) as [b' e]. tauto.
      - repeat split; [apply Step_refl, quiet_nil|intros; apply quiet_nil]. }
    destruct (if Nat.eqb (b_cache b) ci then _ else _) as [b' e]. destruct H0 as (T0 & S0 & Q0).
    specialize (IH (S j0)). destruct (slots_for ci sg v (S j0) bs) as [bs'' e']. destruct IH as [IH1 IH2].
    split.
    + intros [|i] b1 H; cbn [nth_error] in *.
      * injection H as <-. exists b'. split; [reflexivity|]. split; [exact T0|].
        rewrite Nat.add_0_r. apply Step_quiet_r; [exact S0|apply IH2; lia].
      * destruct (IH1 i b1 H) as (b1' & N1 & T1 & S1). exists b1'. split; [exact N1|]. split; [exact T1|].
        replace (j0 + S i)%nat with (S j0 + i)%nat by lia. apply Step_quiet_l; [apply Q0; lia|exact S1].
    + intros j' Hj. apply quiet_app; [apply Q0; lia|apply IH2; lia].
Qed.

Lemma LStep_refl j0 bs es : (forall j, quiet j es) -> LStep j0 bs es bs.
Proof.
  intro Q. split; [|intros; apply Q]. intros i b H. exists b. split; [exact H|]. split; [reflexivity|apply Step_refl, Q].
Qed.
Lemma LStep_trans j0 bs e1 bs1 e2 bs2 : LStep j0 bs e1 bs1 -> LStep j0 bs1 e2 bs2 -> LStep j0 bs (e1 ++ e2) bs2.
Proof.
  intros [A1 A2] [B1 B2]. split; [|intros; apply quiet_app; auto].
  intros i b H. destruct (A1 i b H) as (b1 & N1 & T1 & S1). destruct (B1 i b1 N1) as (b2 & N2 & T2 & S2).
  exists b2. split; [exact N2|]. split; [congruence|]. rewrite T1 in S2. eapply Step_trans; eauto.
Qed.

Lemma deliver_signals_step ci : forall sgs bs,
  let '(bs', es) := deliver_signals ci sgs bs in LStep 0 bs es bs'.
Proof.
  induction sgs as [|[sg v] sgs IH]; intro bs; cbn [deliver_signals].
  - apply LStep_refl. intros; apply quiet_nil.
  - pose proof (slots_for_step ci sg v bs 0%nat) as S1. destruct (slots_for ci sg v 0 bs) as [bs1 e1].
    specialize (IH bs1). destruct (deliver_signals ci sgs bs1) as [bs2 e2]. eapply LStep_trans; eauto.
Qed.

(* ---- worlds ---- *)
Definition WStep (w : world) (es : list eff) (w' : world) : Prop := LStep 0 (w_browsers w) es (w_browsers w').

Lemma WStep_refl w w' es : w_browsers w' = w_browsers w -> (forall j, quiet j es) -> WStep w es w'.
Proof. intros E Q. unfold WStep. rewrite E. apply LStep_refl, Q. Qed.
Lemma WStep_trans w e1 w1 e2 w2 : WStep w e1 w1 -> WStep w1 e2 w2 -> WStep w (e1 ++ e2) w2.
Proof. apply LStep_trans. Qed.

Lemma timer_effs_quiet j (o : option Z) tid now : quiet j (match o with Some d => [EStart tid (d - now)] | None => [] end).
Proof. destruct o; [intros e [<-|[]]; reflexivity|apply quiet_nil]. Qed.

Lemma world_cache_add_step now ci r w :
  let '(w', es) := world_cache_add now ci r w in WStep w es w'.
Proof.
  unfold world_cache_add. destruct (nth_error (w_caches w) ci) as [c|]; [|apply WStep_refl; [reflexivity|intros; apply quiet_nil]].
  destruct (add now (w_jitter w) r c) as [c' sgs].
  pose proof (deliver_signals_step ci sgs (w_browsers w)) as D. destruct (deliver_signals ci sgs (w_browsers w)) as [bs es].
  unfold WStep. cbn [w_browsers]. rewrite <- (app_nil_r bs). rewrite app_nil_r.
  eapply LStep_trans; [exact D|]. apply LStep_refl. intro j.
  destruct (add_rearms now (w_jitter w) r c); [apply timer_effs_quiet|apply quiet_nil].
Qed.

Lemma world_cache_timeout_step now ci w :
  let '(w', es) := world_cache_timeout now ci w in WStep w es w'.
Proof.
  unfold world_cache_timeout. destruct (nth_error (w_caches w) ci) as [c|]; [|apply WStep_refl; [reflexivity|intros; apply quiet_nil]].
  destruct (on_timeout now (mkCache (c_entries c) (c_next c) None)) as [c' sgs].
  pose proof (deliver_signals_step ci sgs (w_browsers w)) as D. destruct (deliver_signals ci sgs (w_browsers w)) as [bs es].
  unfold WStep. cbn [w_browsers]. eapply LStep_trans; [exact D|]. apply LStep_refl. intro j. apply timer_effs_quiet.
Qed.

(* replacing browser j by one with the same type whose map moved by a justified step *)
Lemma nth_error_replace_same {A} (l : list A) j x y : nth_error l j = Some y -> nth_error (replace_nth j x l) j = Some x.
Proof.
  unfold replace_nth. revert j. induction l as [|a l IH]; intros [|j] H; cbn in *; try discriminate; [reflexivity|apply IH, H].
Qed.
Lemma nth_error_replace_other {A} (l : list A) j i x : i <> j -> nth_error (replace_nth j x l) i = nth_error l i \/ nth_error l j = None.
Proof.
  unfold replace_nth. revert j i. induction l as [|a l IH]; intros [|j] [|i] H; cbn; try (left; reflexivity); try (right; reflexivity); try lia.
  destruct (IH j i ltac:(lia)) as [E|E]; [left; exact E|right; exact E].
Qed.

Lemma WStep_replace w j b b' es caches jit :
  nth_error (w_browsers w) j = Some b -> b_type b' = b_type b ->
  Step (b_type b) j es (b_services b) (b_services b') -> (forall j', j' <> j -> quiet j' es) ->
  WStep w es (mkWorld caches (replace_nth j b' (w_browsers w)) jit).
Proof.
  intros N T S Q. unfold WStep. cbn [w_browsers]. split; [|intros j' Hj; lia].
  intros i b1 H. destruct (Nat.eq_dec i j) as [->|Hne].
  - rewrite N in H. injection H as <-. exists b'. split; [eapply nth_error_replace_same; eauto|]. split; [exact T|exact S].
  - destruct (nth_error_replace_other (w_browsers w) j i b' Hne) as [E|E]; [|congruence].
    exists b1. rewrite E. split; [exact H|]. split; [reflexivity|apply Step_refl, Q, Hne].
Qed.

(* ---- onMessageReceived ---- *)
Lemma estart_quiet j tid ms : quiet j [EStart tid ms].
Proof. intros e [<-|[]]. reflexivity. Qed.
Lemma sendall_quiet j m : quiet j [ESendAll m].
Proof. intros e [<-|[]]. reflexivity. Qed.

Lemma browser_cache_records_step now j : forall rs nms nulls w,
  let '(w', nm, nl, es) := browser_cache_records now j rs nms nulls w in WStep w es w'.
Proof.
  induction rs as [|r rs IH]; intros nms nulls w; cbn [browser_cache_records].
  - apply WStep_refl; [reflexivity|intros; apply quiet_nil].
  - destruct (nth_error (w_browsers w) j) as [b|] eqn:Nb; [|apply WStep_refl; [reflexivity|intros; apply quiet_nil]].
    destruct (classify _ r) as [[keep upd] tgt].
    assert (H1 : let '(w1, e1) := match tgt with
            | Some t => (mkWorld (w_caches w) (replace_nth j (mkBrowser (b_type b) (b_cache b) (b_services b) (b_hostnames b)
                                   (set_insert (bs_data t) (b_ptr_targets b))) (w_browsers w)) (w_jitter w),
                         [EStart (T_SERVICE_OF j) service_batch_ms])
            | None => (w, []) end in WStep w e1 w1).
    { destruct tgt as [t|]; [|apply WStep_refl; [reflexivity|intros; apply quiet_nil]].
      eapply WStep_replace; [exact Nb|reflexivity|apply Step_refl, estart_quiet|intros; apply estart_quiet]. }
    destruct (match tgt with Some t => _ | None => _ end) as [w1 e1].
    assert (H2 : let '(w2, e2) := (if keep then world_cache_add now (b_cache b) r w1 else (w1, [])) in WStep w1 e2 w2).
    { destruct keep; [apply world_cache_add_step|apply WStep_refl; [reflexivity|intros; apply quiet_nil]]. }
    destruct (if keep then _ else _) as [w2 e2].
    match goal with |- context [browser_cache_records now j rs ?n ?l w2] =>
      specialize (IH n l w2); destruct (browser_cache_records now j rs n l w2) as [[[w3 nm] nl] e3] end.
    eapply WStep_trans; [exact H1|]. eapply WStep_trans; [exact H2|exact IH].
Qed.

Lemma browser_update_names_step j nulls : forall nms w queries,
  let '(w', qs, es) := browser_update_names j nms nulls w queries in WStep w es w'.
Proof.
  induction nms as [|n nms IH]; intros w queries; cbn [browser_update_names].
  - apply WStep_refl; [reflexivity|intros; apply quiet_nil].
  - destruct (nth_error (w_browsers w) j) as [b|] eqn:Nb; [|apply WStep_refl; [reflexivity|intros; apply quiet_nil]].
    match goal with |- context [update_service j ?v ?fq b] =>
      pose proof (update_service_step j v fq b) as U; destruct (update_service j v fq b) as [[need b'] es] end.
    destruct U as (T & _ & S & Q).
    match goal with |- context [browser_update_names j nms nulls ?w1 ?q1] =>
      specialize (IH w1 q1); destruct (browser_update_names j nms nulls w1 q1) as [[w'' qs] es'] end.
    eapply WStep_trans; [|exact IH]. eapply WStep_replace; eauto.
Qed.

Lemma browser_cache_addresses_step now j : forall rs w,
  let '(w', es) := browser_cache_addresses now j rs w in WStep w es w'.
Proof.
  induction rs as [|r rs IH]; intro w; cbn [browser_cache_addresses].
  - apply WStep_refl; [reflexivity|intros; apply quiet_nil].
  - destruct (nth_error (w_browsers w) j) as [b|]; [|apply WStep_refl; [reflexivity|intros; apply quiet_nil]].
    assert (H1 : let '(w1, e1) := (if ((r_type r =? T_A)%N || (r_type r =? T_AAAA)%N) && set_mem (bs_data (r_name r)) (b_hostnames b)
                                   then world_cache_add now (b_cache b) r w else (w, [])) in WStep w e1 w1).
    { destruct (((r_type r =? T_A)%N || (r_type r =? T_AAAA)%N) && set_mem (bs_data (r_name r)) (b_hostnames b));
        [apply world_cache_add_step|apply WStep_refl; [reflexivity|intros; apply quiet_nil]]. }
    destruct (if ((r_type r =? T_A)%N || (r_type r =? T_AAAA)%N) && set_mem (bs_data (r_name r)) (b_hostnames b) then _ else _) as [w1 e1].
    specialize (IH w1). destruct (browser_cache_addresses now j rs w1) as [w2 e2].
    eapply WStep_trans; eauto.
Qed.

Lemma browser_on_message_step now j m w :
  let '(w', es) := browser_on_message now j m w in WStep w es w'.
Proof.
  unfold browser_on_message. destruct (negb (m_response m)); [apply WStep_refl; [reflexivity|intros; apply quiet_nil]|].
  pose proof (browser_cache_records_step now j (m_records m) [] false w) as H1.
  destruct (browser_cache_records now j (m_records m) [] false w) as [[[w1 nms] nulls] e1].
  pose proof (browser_update_names_step j nulls nms w1 []) as H2.
  destruct (browser_update_names j nms nulls w1 []) as [[w2 qnames] e2].
  pose proof (browser_cache_addresses_step now j (m_records m) w2) as H3.
  destruct (browser_cache_addresses now j (m_records m) w2) as [w3 e3].
  eapply WStep_trans; [exact H1|]. eapply WStep_trans; [exact H2|]. eapply WStep_trans; [exact H3|].
  apply WStep_refl; [reflexivity|]. intro j'. destruct qnames; [apply quiet_nil|apply sendall_quiet].
Qed.

Lemma all_browsers_on_message_step now m : forall n j w,
  let '(w', es) := all_browsers_on_message now j n m w in WStep w es w'.
Proof.
  induction n as [|n IH]; intros j w; cbn [all_browsers_on_message].
  - apply WStep_refl; [reflexivity|intros; apply quiet_nil].
  - pose proof (browser_on_message_step now j m w) as H1. destruct (browser_on_message now j m w) as [w1 e1].
    specialize (IH (S j) w1). destruct (all_browsers_on_message now (S j) n m w1) as [w2 e2]. eapply WStep_trans; eauto.
Qed.

Lemma query_timeout_quiet j j' w : quiet j' (browser_query_timeout j w).
Proof.
  unfold browser_query_timeout. destruct (nth_error (w_browsers w) j); [|apply quiet_nil].
  intros e [<-|[<-|[]]]; reflexivity.
Qed.

Lemma browser_service_timeout_step j w :
  let '(w', es) := browser_service_timeout j w in WStep w es w'.
Proof.
  unfold browser_service_timeout. destruct (nth_error (w_browsers w) j) as [b|] eqn:Nb; [|apply WStep_refl; [reflexivity|intros; apply quiet_nil]].
  destruct (b_ptr_targets b) as [|t ts]; [apply WStep_refl; [reflexivity|intros; apply quiet_nil]|].
  eapply WStep_replace; [exact Nb|reflexivity|apply Step_refl, sendall_quiet|intros; apply sendall_quiet].
Qed.

(* appending a browser leaves the existing ones where they are *)
Lemma WStep_append w es b0 caches jit :
  (forall j, quiet j es) -> WStep w es (mkWorld caches (w_browsers w ++ [b0]) jit).
Proof.
  intro Q. unfold WStep. cbn [w_browsers]. split; [|intros; apply Q].
  intros i b H. exists b. split; [rewrite nth_error_app1; [exact H|apply nth_error_Some; congruence]|].
  split; [reflexivity|apply Step_refl, Q].
Qed.

Theorem world_handle_step now w ev :
  let '(w', es) := world_handle now w ev in WStep w es w'.
Proof.
  destruct ev as [m|tid|a]; cbn [world_handle].
  - apply all_browsers_on_message_step.
  - destruct (tid mod 3 =? 0)%N; [apply world_cache_timeout_step|].
    destruct (tid mod 3 =? 1)%N; [apply WStep_refl; [reflexivity|intros; apply query_timeout_quiet]|].
    apply browser_service_timeout_step.
  - destruct a as [|ty co|jt|ci r jt|ci n ty].
    + apply WStep_refl; [reflexivity|intros; apply quiet_nil].
    + destruct co as [ci|]; apply WStep_append; intros; apply query_timeout_quiet.
    + apply WStep_refl; [reflexivity|intros; apply quiet_nil].
    + pose proof (world_cache_add_step now ci r (mkWorld (w_caches w) (w_browsers w) jt)) as H.
      destruct (world_cache_add now ci r (mkWorld (w_caches w) (w_browsers w) jt)) as [w' es]. exact H.
    + apply WStep_refl; [reflexivity|]. intros j e [<-|[]]. reflexivity.
Qed.

(* ---- the whole life of browser j, from the moment it exists: any sequence of handler invocations ---- *)
Definition world_life := life world bapi world_handle.

Lemma world_life_step : forall evs w, let '(w', es) := world_life evs w in WStep w es w'.
Proof.
  unfold world_life. induction evs as [|[now ev] evs IH]; intro w; cbn [life].
  - apply WStep_refl; [reflexivity|intros; apply quiet_nil].
  - pose proof (world_handle_step now w ev) as H1. destruct (world_handle now w ev) as [w1 e1].
    specialize (IH w1). destruct (life world bapi world_handle evs w1) as [w2 e2]. eapply WStep_trans; eauto.
Qed.

Lemma R_empty ty : R ty [] [].
Proof. split; [intro k; exact I|intros k s H; discriminate]. Qed.

(* C14: a browser that has nothing added (as when it is created), in any world, followed through any history:
   its notifications form well-formed life cycles, every one of its own type; and it still exists with its type *)
Theorem browser_life_cycles evs w j b :
  nth_error (w_browsers w) j = Some b -> b_services b = [] ->
  let '(w', es) := world_life evs w in
  exists p b', LC (b_type b) j [] es p /\ nth_error (w_browsers w') j = Some b' /\ b_type b' = b_type b /\
               R (b_type b) p (b_services b').
Proof.
  intros Nb E. pose proof (world_life_step evs w) as H. destruct (world_life evs w) as [w' es].
  destruct H as [H _]. destruct (H j b Nb) as (b' & N' & T' & S). rewrite Nat.add_0_l, E in S.
  destruct (S [] (R_empty _)) as (p & L & HR). exists p, b'. auto.
Qed.

(* reading LC: what a well-formed life cycle excludes *)
Lemma LC_first_signal ty j p e es p' sg s :
  LC ty j p (e :: es) p' -> sig_for j e = Some (sg, s) ->
  type_ok ty s = true /\
  exists k, names k s /\
    ((sg = SIG_serviceAdded /\ smap_find k p = None) \/
     (sg = SIG_serviceUpdated /\ exists old, smap_find k p = Some old /\ service_eqb old s = false) \/
     (sg = SIG_serviceRemoved /\ exists old, smap_find k p = Some old /\ service_eqb old s = true)).
Proof.
  intros L Hs. inversion L as [|? ? ? ? Hn _|? ? ? ? k s0 Hs0 Hn Ht Hf _|? ? ? ? k s0 old Hs0 Hn Ht Hf He _|? ? ? ? k s0 old Hs0 Hn Ht Hf He _]; subst;
    try (rewrite Hs in *; discriminate); rewrite Hs in Hs0; injection Hs0 as <- <-; (split; [exact Ht|]); exists k; (split; [exact Hn|]).
  - left. auto.
  - right. left. eauto.
  - right. right. eauto.
Qed.

(* ---- kernel runs: the signal outputs of any script, from any kernel state in which browser j has nothing added ---- *)
Lemma LC_sigs ty j p es p' : LC ty j p es p' -> LC ty j p (eff_sigs es) p'.
Proof.
  induction 1 as [p|p e es p' Hs _ IH|p e es p' k s Hs Hn Ht Hf _ IH|p e es p' k s old Hs Hn Ht Hf He _ IH|p e es p' k s old Hs Hn Ht Hf He _ IH];
    [constructor|..]; unfold eff_sigs in *; cbn [filter].
  - destruct e; try exact IH. apply LC_skip; assumption.
  - destruct e as [m|m|ob sg pl|tid ms|tid|rs]; try discriminate. eapply LC_add; eauto.
  - destruct e as [m|m|ob sg pl|tid ms|tid|rs]; try discriminate. eapply LC_upd; eauto.
  - destruct e as [m|m|ob sg pl|tid ms|tid|rs]; try discriminate. eapply LC_rem; eauto.
Qed.

Theorem browser_life_cycles_kernel fuel ops (s : sim world) j b :
  nth_error (w_browsers (s_st s)) j = Some b -> b_services b = [] ->
  exists p, LC (b_type b) j [] (out_sigs (snd (run_outs world bapi world_handle fuel s ops))) p.
Proof.
  intros Nb E. destruct (run_covers world bapi world_handle fuel ops s) as [evs [C1 C2]].
  pose proof (browser_life_cycles evs (s_st s) j b Nb E) as H. unfold world_life in H.
  destruct (life world bapi world_handle evs (s_st s)) as [w' es]. cbn [fst snd] in *.
  destruct H as (p & b' & L & _). exists p. rewrite <- C2. apply LC_sigs, L.
Qed.

(* the ghost key is determined by the reported name and type whenever the instance name contains a dot (every name
   decoded from the wire ends with one) *)
Lemma index_of_split c : forall l i, index_of c l = Some i -> l = firstn i l ++ c :: skipn (S i) l.
Proof.
  induction l as [|x l IH]; intros i H; cbn in H; [discriminate|].
  destruct (x =? c)%N eqn:E.
  - injection H as <-. apply N.eqb_eq in E. subst. reflexivity.
  - destruct (index_of c l) as [i'|] eqn:E'; [|discriminate]. injection H as <-. cbn. f_equal. apply IH. reflexivity.
Qed.
Lemma names_dotted k s : In DOT k -> names k s -> k = bs_data (s_name s) ++ DOT :: bs_data (s_type s).
Proof.
  intros Hin Hn. unfold names, split_fq in Hn. cbn [bs_data] in Hn.
  destruct (index_of DOT k) as [i|] eqn:E.
  - injection Hn as <- <-. cbn [bs_data]. apply index_of_split, E.
  - exfalso. clear Hn. induction k as [|x k IH]; [destruct Hin|]. cbn in E. destruct (x =? DOT)%N eqn:E2; [discriminate|].
    destruct Hin as [->|Hin]; [rewrite N.eqb_refl in E2; discriminate|]. destruct (index_of DOT k); [discriminate|]. apply IH; auto.
Qed.
