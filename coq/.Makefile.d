Base.vo Base.glob Base.v.beautified Base.required_vo: Base.v 
Base.vio: Base.v 
Base.vos Base.vok Base.required_vos: Base.v 
Fields.vo Fields.glob Fields.v.beautified Fields.required_vo: Fields.v Base.vo
Fields.vio: Fields.v Base.vio
Fields.vos Fields.vok Fields.required_vos: Fields.v Base.vos
SrcFacts.vo SrcFacts.glob SrcFacts.v.beautified SrcFacts.required_vo: SrcFacts.v Base.vo Fields.vo
SrcFacts.vio: SrcFacts.v Base.vio Fields.vio
SrcFacts.vos SrcFacts.vok SrcFacts.required_vos: SrcFacts.v Base.vos Fields.vos
Msg.vo Msg.glob Msg.v.beautified Msg.required_vo: Msg.v Base.vo Fields.vo SrcFacts.vo
Msg.vio: Msg.v Base.vio Fields.vio SrcFacts.vio
Msg.vos Msg.vok Msg.required_vos: Msg.v Base.vos Fields.vos SrcFacts.vos
SrcDecisions.vo SrcDecisions.glob SrcDecisions.v.beautified SrcDecisions.required_vo: SrcDecisions.v Base.vo Fields.vo SrcFacts.vo Msg.vo
SrcDecisions.vio: SrcDecisions.v Base.vio Fields.vio SrcFacts.vio Msg.vio
SrcDecisions.vos SrcDecisions.vok SrcDecisions.required_vos: SrcDecisions.v Base.vos Fields.vos SrcFacts.vos Msg.vos
Decoder.vo Decoder.glob Decoder.v.beautified Decoder.required_vo: Decoder.v Base.vo Fields.vo SrcFacts.vo Msg.vo
Decoder.vio: Decoder.v Base.vio Fields.vio SrcFacts.vio Msg.vio
Decoder.vos Decoder.vok Decoder.required_vos: Decoder.v Base.vos Fields.vos SrcFacts.vos Msg.vos
Encoder.vo Encoder.glob Encoder.v.beautified Encoder.required_vo: Encoder.v Base.vo Fields.vo SrcFacts.vo Msg.vo
Encoder.vio: Encoder.v Base.vio Fields.vio SrcFacts.vio Msg.vio
Encoder.vos Encoder.vok Encoder.required_vos: Encoder.v Base.vos Fields.vos SrcFacts.vos Msg.vos
Values.vo Values.glob Values.v.beautified Values.required_vo: Values.v Base.vo Fields.vo SrcFacts.vo Msg.vo
Values.vio: Values.v Base.vio Fields.vio SrcFacts.vio Msg.vio
Values.vos Values.vok Values.required_vos: Values.v Base.vos Fields.vos SrcFacts.vos Msg.vos
ValuesProofs.vo ValuesProofs.glob ValuesProofs.v.beautified ValuesProofs.required_vo: ValuesProofs.v Base.vo Fields.vo SrcFacts.vo Msg.vo Values.vo
ValuesProofs.vio: ValuesProofs.v Base.vio Fields.vio SrcFacts.vio Msg.vio Values.vio
ValuesProofs.vos ValuesProofs.vok ValuesProofs.required_vos: ValuesProofs.v Base.vos Fields.vos SrcFacts.vos Msg.vos Values.vos
DecoderSafety.vo DecoderSafety.glob DecoderSafety.v.beautified DecoderSafety.required_vo: DecoderSafety.v Base.vo Fields.vo SrcFacts.vo Msg.vo Decoder.vo
DecoderSafety.vio: DecoderSafety.v Base.vio Fields.vio SrcFacts.vio Msg.vio Decoder.vio
DecoderSafety.vos DecoderSafety.vok DecoderSafety.required_vos: DecoderSafety.v Base.vos Fields.vos SrcFacts.vos Msg.vos Decoder.vos
WireSpec.vo WireSpec.glob WireSpec.v.beautified WireSpec.required_vo: WireSpec.v Base.vo Fields.vo SrcFacts.vo Msg.vo
WireSpec.vio: WireSpec.v Base.vio Fields.vio SrcFacts.vio Msg.vio
WireSpec.vos WireSpec.vok WireSpec.required_vos: WireSpec.v Base.vos Fields.vos SrcFacts.vos Msg.vos
DecoderComplete.vo DecoderComplete.glob DecoderComplete.v.beautified DecoderComplete.required_vo: DecoderComplete.v Base.vo Fields.vo SrcFacts.vo Msg.vo Decoder.vo WireSpec.vo DecoderSafety.vo
DecoderComplete.vio: DecoderComplete.v Base.vio Fields.vio SrcFacts.vio Msg.vio Decoder.vio WireSpec.vio DecoderSafety.vio
DecoderComplete.vos DecoderComplete.vok DecoderComplete.required_vos: DecoderComplete.v Base.vos Fields.vos SrcFacts.vos Msg.vos Decoder.vos WireSpec.vos DecoderSafety.vos
WireMsg.vo WireMsg.glob WireMsg.v.beautified WireMsg.required_vo: WireMsg.v Base.vo Fields.vo Msg.vo WireSpec.vo
WireMsg.vio: WireMsg.v Base.vio Fields.vio Msg.vio WireSpec.vio
WireMsg.vos WireMsg.vok WireMsg.required_vos: WireMsg.v Base.vos Fields.vos Msg.vos WireSpec.vos
DecoderMsg.vo DecoderMsg.glob DecoderMsg.v.beautified DecoderMsg.required_vo: DecoderMsg.v Base.vo Fields.vo SrcFacts.vo Msg.vo Decoder.vo WireSpec.vo DecoderSafety.vo DecoderComplete.vo WireMsg.vo
DecoderMsg.vio: DecoderMsg.v Base.vio Fields.vio SrcFacts.vio Msg.vio Decoder.vio WireSpec.vio DecoderSafety.vio DecoderComplete.vio WireMsg.vio
DecoderMsg.vos DecoderMsg.vok DecoderMsg.required_vos: DecoderMsg.v Base.vos Fields.vos SrcFacts.vos Msg.vos Decoder.vos WireSpec.vos DecoderSafety.vos DecoderComplete.vos WireMsg.vos
EncoderProofs.vo EncoderProofs.glob EncoderProofs.v.beautified EncoderProofs.required_vo: EncoderProofs.v Base.vo Fields.vo SrcFacts.vo Msg.vo Decoder.vo Encoder.vo WireSpec.vo DecoderSafety.vo DecoderComplete.vo
EncoderProofs.vio: EncoderProofs.v Base.vio Fields.vio SrcFacts.vio Msg.vio Decoder.vio Encoder.vio WireSpec.vio DecoderSafety.vio DecoderComplete.vio
EncoderProofs.vos EncoderProofs.vok EncoderProofs.required_vos: EncoderProofs.v Base.vos Fields.vos SrcFacts.vos Msg.vos Decoder.vos Encoder.vos WireSpec.vos DecoderSafety.vos DecoderComplete.vos
EncoderMsg.vo EncoderMsg.glob EncoderMsg.v.beautified EncoderMsg.required_vo: EncoderMsg.v Base.vo Fields.vo SrcFacts.vo Msg.vo Decoder.vo Encoder.vo WireSpec.vo DecoderSafety.vo DecoderComplete.vo EncoderProofs.vo WireMsg.vo DecoderMsg.vo
EncoderMsg.vio: EncoderMsg.v Base.vio Fields.vio SrcFacts.vio Msg.vio Decoder.vio Encoder.vio WireSpec.vio DecoderSafety.vio DecoderComplete.vio EncoderProofs.vio WireMsg.vio DecoderMsg.vio
EncoderMsg.vos EncoderMsg.vok EncoderMsg.required_vos: EncoderMsg.v Base.vos Fields.vos SrcFacts.vos Msg.vos Decoder.vos Encoder.vos WireSpec.vos DecoderSafety.vos DecoderComplete.vos EncoderProofs.vos WireMsg.vos DecoderMsg.vos
Cache.vo Cache.glob Cache.v.beautified Cache.required_vo: Cache.v Base.vo Fields.vo SrcFacts.vo Msg.vo SrcDecisions.vo
Cache.vio: Cache.v Base.vio Fields.vio SrcFacts.vio Msg.vio SrcDecisions.vio
Cache.vos Cache.vok Cache.required_vos: Cache.v Base.vos Fields.vos SrcFacts.vos Msg.vos SrcDecisions.vos
Sim.vo Sim.glob Sim.v.beautified Sim.required_vo: Sim.v Base.vo Fields.vo SrcFacts.vo Msg.vo
Sim.vio: Sim.v Base.vio Fields.vio SrcFacts.vio Msg.vio
Sim.vos Sim.vok Sim.required_vos: Sim.v Base.vos Fields.vos SrcFacts.vos Msg.vos
SimProofs.vo SimProofs.glob SimProofs.v.beautified SimProofs.required_vo: SimProofs.v Base.vo Sim.vo
SimProofs.vio: SimProofs.v Base.vio Sim.vio
SimProofs.vos SimProofs.vok SimProofs.required_vos: SimProofs.v Base.vos Sim.vos
Prober.vo Prober.glob Prober.v.beautified Prober.required_vo: Prober.v Base.vo Fields.vo SrcFacts.vo Msg.vo SrcDecisions.vo Sim.vo
Prober.vio: Prober.v Base.vio Fields.vio SrcFacts.vio Msg.vio SrcDecisions.vio Sim.vio
Prober.vos Prober.vok Prober.required_vos: Prober.v Base.vos Fields.vos SrcFacts.vos Msg.vos SrcDecisions.vos Sim.vos
ProberProofs.vo ProberProofs.glob ProberProofs.v.beautified ProberProofs.required_vo: ProberProofs.v Base.vo Fields.vo SrcFacts.vo Msg.vo SrcDecisions.vo Sim.vo Prober.vo CacheProofs.vo
ProberProofs.vio: ProberProofs.v Base.vio Fields.vio SrcFacts.vio Msg.vio SrcDecisions.vio Sim.vio Prober.vio CacheProofs.vio
ProberProofs.vos ProberProofs.vok ProberProofs.required_vos: ProberProofs.v Base.vos Fields.vos SrcFacts.vos Msg.vos SrcDecisions.vos Sim.vos Prober.vos CacheProofs.vos
Hostname.vo Hostname.glob Hostname.v.beautified Hostname.required_vo: Hostname.v Base.vo Fields.vo SrcFacts.vo Msg.vo SrcDecisions.vo Sim.vo Prober.vo
Hostname.vio: Hostname.v Base.vio Fields.vio SrcFacts.vio Msg.vio SrcDecisions.vio Sim.vio Prober.vio
Hostname.vos Hostname.vok Hostname.required_vos: Hostname.v Base.vos Fields.vos SrcFacts.vos Msg.vos SrcDecisions.vos Sim.vos Prober.vos
HostnameProofs.vo HostnameProofs.glob HostnameProofs.v.beautified HostnameProofs.required_vo: HostnameProofs.v Base.vo Fields.vo SrcFacts.vo Msg.vo SrcDecisions.vo Sim.vo Prober.vo Hostname.vo CacheProofs.vo
HostnameProofs.vio: HostnameProofs.v Base.vio Fields.vio SrcFacts.vio Msg.vio SrcDecisions.vio Sim.vio Prober.vio Hostname.vio CacheProofs.vio
HostnameProofs.vos HostnameProofs.vok HostnameProofs.required_vos: HostnameProofs.v Base.vos Fields.vos SrcFacts.vos Msg.vos SrcDecisions.vos Sim.vos Prober.vos Hostname.vos CacheProofs.vos
HostnameInv.vo HostnameInv.glob HostnameInv.v.beautified HostnameInv.required_vo: HostnameInv.v Base.vo Fields.vo SrcFacts.vo Msg.vo SrcDecisions.vo Sim.vo Prober.vo Hostname.vo HostnameProofs.vo
HostnameInv.vio: HostnameInv.v Base.vio Fields.vio SrcFacts.vio Msg.vio SrcDecisions.vio Sim.vio Prober.vio Hostname.vio HostnameProofs.vio
HostnameInv.vos HostnameInv.vok HostnameInv.required_vos: HostnameInv.v Base.vos Fields.vos SrcFacts.vos Msg.vos SrcDecisions.vos Sim.vos Prober.vos Hostname.vos HostnameProofs.vos
HostnameAccept.vo HostnameAccept.glob HostnameAccept.v.beautified HostnameAccept.required_vo: HostnameAccept.v Base.vo Fields.vo SrcFacts.vo Msg.vo SrcDecisions.vo Sim.vo Prober.vo Hostname.vo HostnameProofs.vo HostnameInv.vo
HostnameAccept.vio: HostnameAccept.v Base.vio Fields.vio SrcFacts.vio Msg.vio SrcDecisions.vio Sim.vio Prober.vio Hostname.vio HostnameProofs.vio HostnameInv.vio
HostnameAccept.vos HostnameAccept.vok HostnameAccept.required_vos: HostnameAccept.v Base.vos Fields.vos SrcFacts.vos Msg.vos SrcDecisions.vos Sim.vos Prober.vos Hostname.vos HostnameProofs.vos HostnameInv.vos
HostNet.vo HostNet.glob HostNet.v.beautified HostNet.required_vo: HostNet.v Base.vo Fields.vo SrcFacts.vo Msg.vo SrcDecisions.vo Sim.vo Prober.vo Hostname.vo HostnameProofs.vo
HostNet.vio: HostNet.v Base.vio Fields.vio SrcFacts.vio Msg.vio SrcDecisions.vio Sim.vio Prober.vio Hostname.vio HostnameProofs.vio
HostNet.vos HostNet.vok HostNet.required_vos: HostNet.v Base.vos Fields.vos SrcFacts.vos Msg.vos SrcDecisions.vos Sim.vos Prober.vos Hostname.vos HostnameProofs.vos
Resolver.vo Resolver.glob Resolver.v.beautified Resolver.required_vo: Resolver.v Base.vo Fields.vo SrcFacts.vo Msg.vo SrcDecisions.vo Cache.vo CacheSpec.vo Sim.vo Prober.vo
Resolver.vio: Resolver.v Base.vio Fields.vio SrcFacts.vio Msg.vio SrcDecisions.vio Cache.vio CacheSpec.vio Sim.vio Prober.vio
Resolver.vos Resolver.vok Resolver.required_vos: Resolver.v Base.vos Fields.vos SrcFacts.vos Msg.vos SrcDecisions.vos Cache.vos CacheSpec.vos Sim.vos Prober.vos
ResolverProofs.vo ResolverProofs.glob ResolverProofs.v.beautified ResolverProofs.required_vo: ResolverProofs.v Base.vo Fields.vo SrcFacts.vo Msg.vo SrcDecisions.vo Cache.vo CacheSpec.vo CacheProofs.vo Sim.vo Prober.vo Resolver.vo
ResolverProofs.vio: ResolverProofs.v Base.vio Fields.vio SrcFacts.vio Msg.vio SrcDecisions.vio Cache.vio CacheSpec.vio CacheProofs.vio Sim.vio Prober.vio Resolver.vio
ResolverProofs.vos ResolverProofs.vok ResolverProofs.required_vos: ResolverProofs.v Base.vos Fields.vos SrcFacts.vos Msg.vos SrcDecisions.vos Cache.vos CacheSpec.vos CacheProofs.vos Sim.vos Prober.vos Resolver.vos
Provider.vo Provider.glob Provider.v.beautified Provider.required_vo: Provider.v Base.vo Fields.vo SrcFacts.vo Msg.vo SrcDecisions.vo Sim.vo Prober.vo Hostname.vo
Provider.vio: Provider.v Base.vio Fields.vio SrcFacts.vio Msg.vio SrcDecisions.vio Sim.vio Prober.vio Hostname.vio
Provider.vos Provider.vok Provider.required_vos: Provider.v Base.vos Fields.vos SrcFacts.vos Msg.vos SrcDecisions.vos Sim.vos Prober.vos Hostname.vos
ProviderSpec.vo ProviderSpec.glob ProviderSpec.v.beautified ProviderSpec.required_vo: ProviderSpec.v Base.vo Fields.vo SrcFacts.vo Msg.vo SrcDecisions.vo Cache.vo CacheSpec.vo Sim.vo Prober.vo Hostname.vo Resolver.vo Provider.vo
ProviderSpec.vio: ProviderSpec.v Base.vio Fields.vio SrcFacts.vio Msg.vio SrcDecisions.vio Cache.vio CacheSpec.vio Sim.vio Prober.vio Hostname.vio Resolver.vio Provider.vio
ProviderSpec.vos ProviderSpec.vok ProviderSpec.required_vos: ProviderSpec.v Base.vos Fields.vos SrcFacts.vos Msg.vos SrcDecisions.vos Cache.vos CacheSpec.vos Sim.vos Prober.vos Hostname.vos Resolver.vos Provider.vos
Browser.vo Browser.glob Browser.v.beautified Browser.required_vo: Browser.v Base.vo Fields.vo SrcFacts.vo Msg.vo SrcDecisions.vo Cache.vo Sim.vo Prober.vo Resolver.vo
Browser.vio: Browser.v Base.vio Fields.vio SrcFacts.vio Msg.vio SrcDecisions.vio Cache.vio Sim.vio Prober.vio Resolver.vio
Browser.vos Browser.vok Browser.required_vos: Browser.v Base.vos Fields.vos SrcFacts.vos Msg.vos SrcDecisions.vos Cache.vos Sim.vos Prober.vos Resolver.vos
BrowserSpec.vo BrowserSpec.glob BrowserSpec.v.beautified BrowserSpec.required_vo: BrowserSpec.v Base.vo Fields.vo SrcFacts.vo Msg.vo Cache.vo CacheSpec.vo Sim.vo Prober.vo Hostname.vo Resolver.vo Provider.vo ProviderSpec.vo Browser.vo
BrowserSpec.vio: BrowserSpec.v Base.vio Fields.vio SrcFacts.vio Msg.vio Cache.vio CacheSpec.vio Sim.vio Prober.vio Hostname.vio Resolver.vio Provider.vio ProviderSpec.vio Browser.vio
BrowserSpec.vos BrowserSpec.vok BrowserSpec.required_vos: BrowserSpec.v Base.vos Fields.vos SrcFacts.vos Msg.vos Cache.vos CacheSpec.vos Sim.vos Prober.vos Hostname.vos Resolver.vos Provider.vos ProviderSpec.vos Browser.vos
BrowserProofs.vo BrowserProofs.glob BrowserProofs.v.beautified BrowserProofs.required_vo: BrowserProofs.v Base.vo Fields.vo SrcFacts.vo Msg.vo SrcDecisions.vo Cache.vo CacheSpec.vo CacheProofs.vo Sim.vo Prober.vo Resolver.vo Browser.vo
BrowserProofs.vio: BrowserProofs.v Base.vio Fields.vio SrcFacts.vio Msg.vio SrcDecisions.vio Cache.vio CacheSpec.vio CacheProofs.vio Sim.vio Prober.vio Resolver.vio Browser.vio
BrowserProofs.vos BrowserProofs.vok BrowserProofs.required_vos: BrowserProofs.v Base.vos Fields.vos SrcFacts.vos Msg.vos SrcDecisions.vos Cache.vos CacheSpec.vos CacheProofs.vos Sim.vos Prober.vos Resolver.vos Browser.vos
NetProofs.vo NetProofs.glob NetProofs.v.beautified NetProofs.required_vo: NetProofs.v Base.vo Fields.vo SrcFacts.vo Msg.vo SrcDecisions.vo Cache.vo CacheSpec.vo CacheProofs.vo Sim.vo Prober.vo Hostname.vo Resolver.vo Provider.vo ProviderSpec.vo Browser.vo BrowserProofs.vo
NetProofs.vio: NetProofs.v Base.vio Fields.vio SrcFacts.vio Msg.vio SrcDecisions.vio Cache.vio CacheSpec.vio CacheProofs.vio Sim.vio Prober.vio Hostname.vio Resolver.vio Provider.vio ProviderSpec.vio Browser.vio BrowserProofs.vio
NetProofs.vos NetProofs.vok NetProofs.required_vos: NetProofs.v Base.vos Fields.vos SrcFacts.vos Msg.vos SrcDecisions.vos Cache.vos CacheSpec.vos CacheProofs.vos Sim.vos Prober.vos Hostname.vos Resolver.vos Provider.vos ProviderSpec.vos Browser.vos BrowserProofs.vos
NetHop.vo NetHop.glob NetHop.v.beautified NetHop.required_vo: NetHop.v Base.vo Fields.vo SrcFacts.vo Msg.vo SrcDecisions.vo Cache.vo CacheSpec.vo CacheProofs.vo Sim.vo Prober.vo Hostname.vo Resolver.vo Provider.vo ProviderSpec.vo ProviderProofs.vo ProviderListener.vo Browser.vo BrowserProofs.vo NetProofs.vo Decoder.vo Encoder.vo WireSpec.vo WireMsg.vo DecoderMsg.vo EncoderMsg.vo
NetHop.vio: NetHop.v Base.vio Fields.vio SrcFacts.vio Msg.vio SrcDecisions.vio Cache.vio CacheSpec.vio CacheProofs.vio Sim.vio Prober.vio Hostname.vio Resolver.vio Provider.vio ProviderSpec.vio ProviderProofs.vio ProviderListener.vio Browser.vio BrowserProofs.vio NetProofs.vio Decoder.vio Encoder.vio WireSpec.vio WireMsg.vio DecoderMsg.vio EncoderMsg.vio
NetHop.vos NetHop.vok NetHop.required_vos: NetHop.v Base.vos Fields.vos SrcFacts.vos Msg.vos SrcDecisions.vos Cache.vos CacheSpec.vos CacheProofs.vos Sim.vos Prober.vos Hostname.vos Resolver.vos Provider.vos ProviderSpec.vos ProviderProofs.vos ProviderListener.vos Browser.vos BrowserProofs.vos NetProofs.vos Decoder.vos Encoder.vos WireSpec.vos WireMsg.vos DecoderMsg.vos EncoderMsg.vos
NetPair.vo NetPair.glob NetPair.v.beautified NetPair.required_vo: NetPair.v Base.vo Fields.vo SrcFacts.vo Msg.vo SrcDecisions.vo Cache.vo CacheSpec.vo CacheProofs.vo Sim.vo Prober.vo ProberProofs.vo Hostname.vo HostnameProofs.vo HostnameInv.vo Resolver.vo Provider.vo ProviderSpec.vo ProviderProofs.vo ProviderListener.vo ProviderConverge.vo ProviderGoodbye.vo Browser.vo BrowserProofs.vo NetProofs.vo NetHop.vo
NetPair.vio: NetPair.v Base.vio Fields.vio SrcFacts.vio Msg.vio SrcDecisions.vio Cache.vio CacheSpec.vio CacheProofs.vio Sim.vio Prober.vio ProberProofs.vio Hostname.vio HostnameProofs.vio HostnameInv.vio Resolver.vio Provider.vio ProviderSpec.vio ProviderProofs.vio ProviderListener.vio ProviderConverge.vio ProviderGoodbye.vio Browser.vio BrowserProofs.vio NetProofs.vio NetHop.vio
NetPair.vos NetPair.vok NetPair.required_vos: NetPair.v Base.vos Fields.vos SrcFacts.vos Msg.vos SrcDecisions.vos Cache.vos CacheSpec.vos CacheProofs.vos Sim.vos Prober.vos ProberProofs.vos Hostname.vos HostnameProofs.vos HostnameInv.vos Resolver.vos Provider.vos ProviderSpec.vos ProviderProofs.vos ProviderListener.vos ProviderConverge.vos ProviderGoodbye.vos Browser.vos BrowserProofs.vos NetProofs.vos NetHop.vos
NetLag.vo NetLag.glob NetLag.v.beautified NetLag.required_vo: NetLag.v Base.vo Fields.vo SrcFacts.vo Msg.vo SrcDecisions.vo Cache.vo CacheSpec.vo CacheProofs.vo Sim.vo Prober.vo ProberProofs.vo Hostname.vo HostnameProofs.vo HostnameInv.vo Resolver.vo Provider.vo ProviderSpec.vo ProviderProofs.vo ProviderListener.vo ProviderConverge.vo ProviderGoodbye.vo Browser.vo BrowserProofs.vo NetProofs.vo NetHop.vo NetPair.vo
NetLag.vio: NetLag.v Base.vio Fields.vio SrcFacts.vio Msg.vio SrcDecisions.vio Cache.vio CacheSpec.vio CacheProofs.vio Sim.vio Prober.vio ProberProofs.vio Hostname.vio HostnameProofs.vio HostnameInv.vio Resolver.vio Provider.vio ProviderSpec.vio ProviderProofs.vio ProviderListener.vio ProviderConverge.vio ProviderGoodbye.vio Browser.vio BrowserProofs.vio NetProofs.vio NetHop.vio NetPair.vio
NetLag.vos NetLag.vok NetLag.required_vos: NetLag.v Base.vos Fields.vos SrcFacts.vos Msg.vos SrcDecisions.vos Cache.vos CacheSpec.vos CacheProofs.vos Sim.vos Prober.vos ProberProofs.vos Hostname.vos HostnameProofs.vos HostnameInv.vos Resolver.vos Provider.vos ProviderSpec.vos ProviderProofs.vos ProviderListener.vos ProviderConverge.vos ProviderGoodbye.vos Browser.vos BrowserProofs.vos NetProofs.vos NetHop.vos NetPair.vos
ProviderProofs.vo ProviderProofs.glob ProviderProofs.v.beautified ProviderProofs.required_vo: ProviderProofs.v Base.vo Fields.vo SrcFacts.vo Msg.vo SrcDecisions.vo Cache.vo CacheSpec.vo CacheProofs.vo Sim.vo Prober.vo Hostname.vo HostnameProofs.vo Resolver.vo Provider.vo ProviderSpec.vo
ProviderProofs.vio: ProviderProofs.v Base.vio Fields.vio SrcFacts.vio Msg.vio SrcDecisions.vio Cache.vio CacheSpec.vio CacheProofs.vio Sim.vio Prober.vio Hostname.vio HostnameProofs.vio Resolver.vio Provider.vio ProviderSpec.vio
ProviderProofs.vos ProviderProofs.vok ProviderProofs.required_vos: ProviderProofs.v Base.vos Fields.vos SrcFacts.vos Msg.vos SrcDecisions.vos Cache.vos CacheSpec.vos CacheProofs.vos Sim.vos Prober.vos Hostname.vos HostnameProofs.vos Resolver.vos Provider.vos ProviderSpec.vos
CacheSpec.vo CacheSpec.glob CacheSpec.v.beautified CacheSpec.required_vo: CacheSpec.v Base.vo Fields.vo SrcFacts.vo Msg.vo Cache.vo
CacheSpec.vio: CacheSpec.v Base.vio Fields.vio SrcFacts.vio Msg.vio Cache.vio
CacheSpec.vos CacheSpec.vok CacheSpec.required_vos: CacheSpec.v Base.vos Fields.vos SrcFacts.vos Msg.vos Cache.vos
CacheProofs.vo CacheProofs.glob CacheProofs.v.beautified CacheProofs.required_vo: CacheProofs.v Base.vo Fields.vo SrcFacts.vo Msg.vo SrcDecisions.vo Cache.vo CacheSpec.vo
CacheProofs.vio: CacheProofs.v Base.vio Fields.vio SrcFacts.vio Msg.vio SrcDecisions.vio Cache.vio CacheSpec.vio
CacheProofs.vos CacheProofs.vok CacheProofs.required_vos: CacheProofs.v Base.vos Fields.vos SrcFacts.vos Msg.vos SrcDecisions.vos Cache.vos CacheSpec.vos
CacheAccept.vo CacheAccept.glob CacheAccept.v.beautified CacheAccept.required_vo: CacheAccept.v Base.vo Fields.vo SrcFacts.vo Msg.vo SrcDecisions.vo Cache.vo CacheSpec.vo CacheProofs.vo
CacheAccept.vio: CacheAccept.v Base.vio Fields.vio SrcFacts.vio Msg.vio SrcDecisions.vio Cache.vio CacheSpec.vio CacheProofs.vio
CacheAccept.vos CacheAccept.vok CacheAccept.required_vos: CacheAccept.v Base.vos Fields.vos SrcFacts.vos Msg.vos SrcDecisions.vos Cache.vos CacheSpec.vos CacheProofs.vos
CacheLate.vo CacheLate.glob CacheLate.v.beautified CacheLate.required_vo: CacheLate.v Base.vo Fields.vo SrcFacts.vo Msg.vo SrcDecisions.vo Cache.vo CacheSpec.vo CacheProofs.vo
CacheLate.vio: CacheLate.v Base.vio Fields.vio SrcFacts.vio Msg.vio SrcDecisions.vio Cache.vio CacheSpec.vio CacheProofs.vio
CacheLate.vos CacheLate.vok CacheLate.required_vos: CacheLate.v Base.vos Fields.vos SrcFacts.vos Msg.vos SrcDecisions.vos Cache.vos CacheSpec.vos CacheProofs.vos
ResolverInv.vo ResolverInv.glob ResolverInv.v.beautified ResolverInv.required_vo: ResolverInv.v Base.vo Fields.vo SrcFacts.vo Msg.vo SrcDecisions.vo Cache.vo CacheSpec.vo CacheProofs.vo Sim.vo SimProofs.vo Prober.vo Resolver.vo ResolverProofs.vo
ResolverInv.vio: ResolverInv.v Base.vio Fields.vio SrcFacts.vio Msg.vio SrcDecisions.vio Cache.vio CacheSpec.vio CacheProofs.vio Sim.vio SimProofs.vio Prober.vio Resolver.vio ResolverProofs.vio
ResolverInv.vos ResolverInv.vok ResolverInv.required_vos: ResolverInv.v Base.vos Fields.vos SrcFacts.vos Msg.vos SrcDecisions.vos Cache.vos CacheSpec.vos CacheProofs.vos Sim.vos SimProofs.vos Prober.vos Resolver.vos ResolverProofs.vos
ResolverAccept.vo ResolverAccept.glob ResolverAccept.v.beautified ResolverAccept.required_vo: ResolverAccept.v Base.vo Fields.vo SrcFacts.vo Msg.vo SrcDecisions.vo Cache.vo CacheSpec.vo CacheProofs.vo CacheAccept.vo Sim.vo Prober.vo Resolver.vo ResolverProofs.vo ResolverInv.vo
ResolverAccept.vio: ResolverAccept.v Base.vio Fields.vio SrcFacts.vio Msg.vio SrcDecisions.vio Cache.vio CacheSpec.vio CacheProofs.vio CacheAccept.vio Sim.vio Prober.vio Resolver.vio ResolverProofs.vio ResolverInv.vio
ResolverAccept.vos ResolverAccept.vok ResolverAccept.required_vos: ResolverAccept.v Base.vos Fields.vos SrcFacts.vos Msg.vos SrcDecisions.vos Cache.vos CacheSpec.vos CacheProofs.vos CacheAccept.vos Sim.vos Prober.vos Resolver.vos ResolverProofs.vos ResolverInv.vos
ResolverFuel.vo ResolverFuel.glob ResolverFuel.v.beautified ResolverFuel.required_vo: ResolverFuel.v Base.vo Fields.vo SrcFacts.vo Msg.vo SrcDecisions.vo Cache.vo CacheSpec.vo CacheProofs.vo CacheAccept.vo Sim.vo Prober.vo Resolver.vo ResolverProofs.vo ResolverInv.vo ResolverAccept.vo
ResolverFuel.vio: ResolverFuel.v Base.vio Fields.vio SrcFacts.vio Msg.vio SrcDecisions.vio Cache.vio CacheSpec.vio CacheProofs.vio CacheAccept.vio Sim.vio Prober.vio Resolver.vio ResolverProofs.vio ResolverInv.vio ResolverAccept.vio
ResolverFuel.vos ResolverFuel.vok ResolverFuel.required_vos: ResolverFuel.v Base.vos Fields.vos SrcFacts.vos Msg.vos SrcDecisions.vos Cache.vos CacheSpec.vos CacheProofs.vos CacheAccept.vos Sim.vos Prober.vos Resolver.vos ResolverProofs.vos ResolverInv.vos ResolverAccept.vos
BrowserInv.vo BrowserInv.glob BrowserInv.v.beautified BrowserInv.required_vo: BrowserInv.v Base.vo Fields.vo SrcFacts.vo Msg.vo SrcDecisions.vo Cache.vo CacheSpec.vo CacheProofs.vo Sim.vo SimProofs.vo Prober.vo Resolver.vo Browser.vo BrowserProofs.vo
BrowserInv.vio: BrowserInv.v Base.vio Fields.vio SrcFacts.vio Msg.vio SrcDecisions.vio Cache.vio CacheSpec.vio CacheProofs.vio Sim.vio SimProofs.vio Prober.vio Resolver.vio Browser.vio BrowserProofs.vio
BrowserInv.vos BrowserInv.vok BrowserInv.required_vos: BrowserInv.v Base.vos Fields.vos SrcFacts.vos Msg.vos SrcDecisions.vos Cache.vos CacheSpec.vos CacheProofs.vos Sim.vos SimProofs.vos Prober.vos Resolver.vos Browser.vos BrowserProofs.vos
BrowserTimers.vo BrowserTimers.glob BrowserTimers.v.beautified BrowserTimers.required_vo: BrowserTimers.v Base.vo Fields.vo SrcFacts.vo Msg.vo SrcDecisions.vo Cache.vo CacheSpec.vo CacheProofs.vo Sim.vo SimProofs.vo Prober.vo Resolver.vo Browser.vo BrowserProofs.vo BrowserInv.vo
BrowserTimers.vio: BrowserTimers.v Base.vio Fields.vio SrcFacts.vio Msg.vio SrcDecisions.vio Cache.vio CacheSpec.vio CacheProofs.vio Sim.vio SimProofs.vio Prober.vio Resolver.vio Browser.vio BrowserProofs.vio BrowserInv.vio
BrowserTimers.vos BrowserTimers.vok BrowserTimers.required_vos: BrowserTimers.v Base.vos Fields.vos SrcFacts.vos Msg.vos SrcDecisions.vos Cache.vos CacheSpec.vos CacheProofs.vos Sim.vos SimProofs.vos Prober.vos Resolver.vos Browser.vos BrowserProofs.vos BrowserInv.vos
BrowserBacked.vo BrowserBacked.glob BrowserBacked.v.beautified BrowserBacked.required_vo: BrowserBacked.v Base.vo Fields.vo SrcFacts.vo Msg.vo SrcDecisions.vo Cache.vo CacheSpec.vo CacheProofs.vo Sim.vo Prober.vo Resolver.vo Browser.vo BrowserProofs.vo BrowserInv.vo
BrowserBacked.vio: BrowserBacked.v Base.vio Fields.vio SrcFacts.vio Msg.vio SrcDecisions.vio Cache.vio CacheSpec.vio CacheProofs.vio Sim.vio Prober.vio Resolver.vio Browser.vio BrowserProofs.vio BrowserInv.vio
BrowserBacked.vos BrowserBacked.vok BrowserBacked.required_vos: BrowserBacked.v Base.vos Fields.vos SrcFacts.vos Msg.vos SrcDecisions.vos Cache.vos CacheSpec.vos CacheProofs.vos Sim.vos Prober.vos Resolver.vos Browser.vos BrowserProofs.vos BrowserInv.vos
BrowserSrv.vo BrowserSrv.glob BrowserSrv.v.beautified BrowserSrv.required_vo: BrowserSrv.v Base.vo Fields.vo SrcFacts.vo Msg.vo SrcDecisions.vo Cache.vo CacheSpec.vo CacheProofs.vo Sim.vo Prober.vo Resolver.vo Browser.vo BrowserProofs.vo BrowserInv.vo
BrowserSrv.vio: BrowserSrv.v Base.vio Fields.vio SrcFacts.vio Msg.vio SrcDecisions.vio Cache.vio CacheSpec.vio CacheProofs.vio Sim.vio Prober.vio Resolver.vio Browser.vio BrowserProofs.vio BrowserInv.vio
BrowserSrv.vos BrowserSrv.vok BrowserSrv.required_vos: BrowserSrv.v Base.vos Fields.vos SrcFacts.vos Msg.vos SrcDecisions.vos Cache.vos CacheSpec.vos CacheProofs.vos Sim.vos Prober.vos Resolver.vos Browser.vos BrowserProofs.vos BrowserInv.vos
ProviderListener.vo ProviderListener.glob ProviderListener.v.beautified ProviderListener.required_vo: ProviderListener.v Base.vo Fields.vo SrcFacts.vo Msg.vo SrcDecisions.vo Cache.vo CacheSpec.vo CacheProofs.vo Sim.vo Prober.vo Hostname.vo HostnameProofs.vo HostnameInv.vo Provider.vo ProviderProofs.vo
ProviderListener.vio: ProviderListener.v Base.vio Fields.vio SrcFacts.vio Msg.vio SrcDecisions.vio Cache.vio CacheSpec.vio CacheProofs.vio Sim.vio Prober.vio Hostname.vio HostnameProofs.vio HostnameInv.vio Provider.vio ProviderProofs.vio
ProviderListener.vos ProviderListener.vok ProviderListener.required_vos: ProviderListener.v Base.vos Fields.vos SrcFacts.vos Msg.vos SrcDecisions.vos Cache.vos CacheSpec.vos CacheProofs.vos Sim.vos Prober.vos Hostname.vos HostnameProofs.vos HostnameInv.vos Provider.vos ProviderProofs.vos
ProviderGoodbye.vo ProviderGoodbye.glob ProviderGoodbye.v.beautified ProviderGoodbye.required_vo: ProviderGoodbye.v Base.vo Fields.vo SrcFacts.vo Msg.vo SrcDecisions.vo Cache.vo CacheSpec.vo CacheProofs.vo Sim.vo Prober.vo Hostname.vo HostnameInv.vo Provider.vo ProviderProofs.vo ProviderListener.vo
ProviderGoodbye.vio: ProviderGoodbye.v Base.vio Fields.vio SrcFacts.vio Msg.vio SrcDecisions.vio Cache.vio CacheSpec.vio CacheProofs.vio Sim.vio Prober.vio Hostname.vio HostnameInv.vio Provider.vio ProviderProofs.vio ProviderListener.vio
ProviderGoodbye.vos ProviderGoodbye.vok ProviderGoodbye.required_vos: ProviderGoodbye.v Base.vos Fields.vos SrcFacts.vos Msg.vos SrcDecisions.vos Cache.vos CacheSpec.vos CacheProofs.vos Sim.vos Prober.vos Hostname.vos HostnameInv.vos Provider.vos ProviderProofs.vos ProviderListener.vos
ProviderReply.vo ProviderReply.glob ProviderReply.v.beautified ProviderReply.required_vo: ProviderReply.v Base.vo Fields.vo SrcFacts.vo Msg.vo SrcDecisions.vo Cache.vo CacheSpec.vo Sim.vo Prober.vo Hostname.vo Provider.vo ProviderSpec.vo ProviderProofs.vo ProviderListener.vo
ProviderReply.vio: ProviderReply.v Base.vio Fields.vio SrcFacts.vio Msg.vio SrcDecisions.vio Cache.vio CacheSpec.vio Sim.vio Prober.vio Hostname.vio Provider.vio ProviderSpec.vio ProviderProofs.vio ProviderListener.vio
ProviderReply.vos ProviderReply.vok ProviderReply.required_vos: ProviderReply.v Base.vos Fields.vos SrcFacts.vos Msg.vos SrcDecisions.vos Cache.vos CacheSpec.vos Sim.vos Prober.vos Hostname.vos Provider.vos ProviderSpec.vos ProviderProofs.vos ProviderListener.vos
ProviderNames.vo ProviderNames.glob ProviderNames.v.beautified ProviderNames.required_vo: ProviderNames.v Base.vo Fields.vo SrcFacts.vo Msg.vo SrcDecisions.vo Cache.vo CacheSpec.vo CacheProofs.vo Sim.vo Prober.vo Hostname.vo HostnameInv.vo Provider.vo ProviderSpec.vo ProviderProofs.vo ProviderListener.vo ProviderGoodbye.vo ProviderReply.vo
ProviderNames.vio: ProviderNames.v Base.vio Fields.vio SrcFacts.vio Msg.vio SrcDecisions.vio Cache.vio CacheSpec.vio CacheProofs.vio Sim.vio Prober.vio Hostname.vio HostnameInv.vio Provider.vio ProviderSpec.vio ProviderProofs.vio ProviderListener.vio ProviderGoodbye.vio ProviderReply.vio
ProviderNames.vos ProviderNames.vok ProviderNames.required_vos: ProviderNames.v Base.vos Fields.vos SrcFacts.vos Msg.vos SrcDecisions.vos Cache.vos CacheSpec.vos CacheProofs.vos Sim.vos Prober.vos Hostname.vos HostnameInv.vos Provider.vos ProviderSpec.vos ProviderProofs.vos ProviderListener.vos ProviderGoodbye.vos ProviderReply.vos
ProviderConverge.vo ProviderConverge.glob ProviderConverge.v.beautified ProviderConverge.required_vo: ProviderConverge.v Base.vo Fields.vo SrcFacts.vo Msg.vo SrcDecisions.vo Cache.vo CacheSpec.vo CacheProofs.vo Sim.vo Prober.vo Hostname.vo HostnameInv.vo Provider.vo ProviderProofs.vo ProviderListener.vo
ProviderConverge.vio: ProviderConverge.v Base.vio Fields.vio SrcFacts.vio Msg.vio SrcDecisions.vio Cache.vio CacheSpec.vio CacheProofs.vio Sim.vio Prober.vio Hostname.vio HostnameInv.vio Provider.vio ProviderProofs.vio ProviderListener.vio
ProviderConverge.vos ProviderConverge.vok ProviderConverge.required_vos: ProviderConverge.v Base.vos Fields.vos SrcFacts.vos Msg.vos SrcDecisions.vos Cache.vos CacheSpec.vos CacheProofs.vos Sim.vos Prober.vos Hostname.vos HostnameInv.vos Provider.vos ProviderProofs.vos ProviderListener.vos
ProviderTarget.vo ProviderTarget.glob ProviderTarget.v.beautified ProviderTarget.required_vo: ProviderTarget.v Base.vo Fields.vo SrcFacts.vo Msg.vo SrcDecisions.vo Cache.vo CacheSpec.vo CacheProofs.vo Sim.vo SimProofs.vo Prober.vo Hostname.vo HostnameProofs.vo HostnameInv.vo Provider.vo ProviderProofs.vo ProviderListener.vo ProviderConverge.vo
ProviderTarget.vio: ProviderTarget.v Base.vio Fields.vio SrcFacts.vio Msg.vio SrcDecisions.vio Cache.vio CacheSpec.vio CacheProofs.vio Sim.vio SimProofs.vio Prober.vio Hostname.vio HostnameProofs.vio HostnameInv.vio Provider.vio ProviderProofs.vio ProviderListener.vio ProviderConverge.vio
ProviderTarget.vos ProviderTarget.vok ProviderTarget.required_vos: ProviderTarget.v Base.vos Fields.vos SrcFacts.vos Msg.vos SrcDecisions.vos Cache.vos CacheSpec.vos CacheProofs.vos Sim.vos SimProofs.vos Prober.vos Hostname.vos HostnameProofs.vos HostnameInv.vos Provider.vos ProviderProofs.vos ProviderListener.vos ProviderConverge.vos
Properties_C05.vo Properties_C05.glob Properties_C05.v.beautified Properties_C05.required_vo: Properties_C05.v Base.vo Fields.vo SrcFacts.vo Msg.vo SrcDecisions.vo Cache.vo CacheSpec.vo CacheProofs.vo CacheAccept.vo CacheLate.vo
Properties_C05.vio: Properties_C05.v Base.vio Fields.vio SrcFacts.vio Msg.vio SrcDecisions.vio Cache.vio CacheSpec.vio CacheProofs.vio CacheAccept.vio CacheLate.vio
Properties_C05.vos Properties_C05.vok Properties_C05.required_vos: Properties_C05.v Base.vos Fields.vos SrcFacts.vos Msg.vos SrcDecisions.vos Cache.vos CacheSpec.vos CacheProofs.vos CacheAccept.vos CacheLate.vos
Properties_C06.vo Properties_C06.glob Properties_C06.v.beautified Properties_C06.required_vo: Properties_C06.v Base.vo Fields.vo SrcFacts.vo Msg.vo SrcDecisions.vo Cache.vo CacheSpec.vo CacheProofs.vo CacheAccept.vo
Properties_C06.vio: Properties_C06.v Base.vio Fields.vio SrcFacts.vio Msg.vio SrcDecisions.vio Cache.vio CacheSpec.vio CacheProofs.vio CacheAccept.vio
Properties_C06.vos Properties_C06.vok Properties_C06.required_vos: Properties_C06.v Base.vos Fields.vos SrcFacts.vos Msg.vos SrcDecisions.vos Cache.vos CacheSpec.vos CacheProofs.vos CacheAccept.vos
Properties_C18.vo Properties_C18.glob Properties_C18.v.beautified Properties_C18.required_vo: Properties_C18.v Base.vo Fields.vo SrcFacts.vo Msg.vo SrcDecisions.vo Cache.vo CacheSpec.vo CacheProofs.vo CacheAccept.vo CacheLate.vo
Properties_C18.vio: Properties_C18.v Base.vio Fields.vio SrcFacts.vio Msg.vio SrcDecisions.vio Cache.vio CacheSpec.vio CacheProofs.vio CacheAccept.vio CacheLate.vio
Properties_C18.vos Properties_C18.vok Properties_C18.required_vos: Properties_C18.v Base.vos Fields.vos SrcFacts.vos Msg.vos SrcDecisions.vos Cache.vos CacheSpec.vos CacheProofs.vos CacheAccept.vos CacheLate.vos
Properties_C03.vo Properties_C03.glob Properties_C03.v.beautified Properties_C03.required_vo: Properties_C03.v Base.vo Fields.vo SrcFacts.vo Msg.vo Decoder.vo DecoderSafety.vo
Properties_C03.vio: Properties_C03.v Base.vio Fields.vio SrcFacts.vio Msg.vio Decoder.vio DecoderSafety.vio
Properties_C03.vos Properties_C03.vok Properties_C03.required_vos: Properties_C03.v Base.vos Fields.vos SrcFacts.vos Msg.vos Decoder.vos DecoderSafety.vos
Properties_C07.vo Properties_C07.glob Properties_C07.v.beautified Properties_C07.required_vo: Properties_C07.v Base.vo Fields.vo SrcFacts.vo Msg.vo SrcDecisions.vo Sim.vo Prober.vo ProberProofs.vo
Properties_C07.vio: Properties_C07.v Base.vio Fields.vio SrcFacts.vio Msg.vio SrcDecisions.vio Sim.vio Prober.vio ProberProofs.vio
Properties_C07.vos Properties_C07.vok Properties_C07.required_vos: Properties_C07.v Base.vos Fields.vos SrcFacts.vos Msg.vos SrcDecisions.vos Sim.vos Prober.vos ProberProofs.vos
Properties_C09.vo Properties_C09.glob Properties_C09.v.beautified Properties_C09.required_vo: Properties_C09.v Base.vo Fields.vo SrcFacts.vo Msg.vo SrcDecisions.vo Sim.vo Prober.vo Hostname.vo HostnameProofs.vo HostNet.vo Provider.vo ProviderSpec.vo ProviderProofs.vo
Properties_C09.vio: Properties_C09.v Base.vio Fields.vio SrcFacts.vio Msg.vio SrcDecisions.vio Sim.vio Prober.vio Hostname.vio HostnameProofs.vio HostNet.vio Provider.vio ProviderSpec.vio ProviderProofs.vio
Properties_C09.vos Properties_C09.vok Properties_C09.required_vos: Properties_C09.v Base.vos Fields.vos SrcFacts.vos Msg.vos SrcDecisions.vos Sim.vos Prober.vos Hostname.vos HostnameProofs.vos HostNet.vos Provider.vos ProviderSpec.vos ProviderProofs.vos
Properties_C04.vo Properties_C04.glob Properties_C04.v.beautified Properties_C04.required_vo: Properties_C04.v Base.vo Fields.vo SrcFacts.vo Msg.vo SrcDecisions.vo Cache.vo CacheSpec.vo Sim.vo Prober.vo Hostname.vo Provider.vo ProviderSpec.vo ProviderListener.vo Browser.vo BrowserProofs.vo NetProofs.vo NetHop.vo NetPair.vo NetLag.vo Decoder.vo Encoder.vo WireSpec.vo WireMsg.vo DecoderMsg.vo EncoderMsg.vo
Properties_C04.vio: Properties_C04.v Base.vio Fields.vio SrcFacts.vio Msg.vio SrcDecisions.vio Cache.vio CacheSpec.vio Sim.vio Prober.vio Hostname.vio Provider.vio ProviderSpec.vio ProviderListener.vio Browser.vio BrowserProofs.vio NetProofs.vio NetHop.vio NetPair.vio NetLag.vio Decoder.vio Encoder.vio WireSpec.vio WireMsg.vio DecoderMsg.vio EncoderMsg.vio
Properties_C04.vos Properties_C04.vok Properties_C04.required_vos: Properties_C04.v Base.vos Fields.vos SrcFacts.vos Msg.vos SrcDecisions.vos Cache.vos CacheSpec.vos Sim.vos Prober.vos Hostname.vos Provider.vos ProviderSpec.vos ProviderListener.vos Browser.vos BrowserProofs.vos NetProofs.vos NetHop.vos NetPair.vos NetLag.vos Decoder.vos Encoder.vos WireSpec.vos WireMsg.vos DecoderMsg.vos EncoderMsg.vos
Properties_C20.vo Properties_C20.glob Properties_C20.v.beautified Properties_C20.required_vo: Properties_C20.v Base.vo Fields.vo SrcFacts.vo Msg.vo Cache.vo CacheSpec.vo CacheProofs.vo Values.vo ValuesProofs.vo
Properties_C20.vio: Properties_C20.v Base.vio Fields.vio SrcFacts.vio Msg.vio Cache.vio CacheSpec.vio CacheProofs.vio Values.vio ValuesProofs.vio
Properties_C20.vos Properties_C20.vok Properties_C20.required_vos: Properties_C20.v Base.vos Fields.vos SrcFacts.vos Msg.vos Cache.vos CacheSpec.vos CacheProofs.vos Values.vos ValuesProofs.vos
Properties_C19.vo Properties_C19.glob Properties_C19.v.beautified Properties_C19.required_vo: Properties_C19.v Base.vo Fields.vo SrcFacts.vo Msg.vo SrcDecisions.vo Cache.vo Sim.vo SimProofs.vo Browser.vo BrowserSpec.vo BrowserProofs.vo BrowserInv.vo BrowserTimers.vo
Properties_C19.vio: Properties_C19.v Base.vio Fields.vio SrcFacts.vio Msg.vio SrcDecisions.vio Cache.vio Sim.vio SimProofs.vio Browser.vio BrowserSpec.vio BrowserProofs.vio BrowserInv.vio BrowserTimers.vio
Properties_C19.vos Properties_C19.vok Properties_C19.required_vos: Properties_C19.v Base.vos Fields.vos SrcFacts.vos Msg.vos SrcDecisions.vos Cache.vos Sim.vos SimProofs.vos Browser.vos BrowserSpec.vos BrowserProofs.vos BrowserInv.vos BrowserTimers.vos
Properties_C15.vo Properties_C15.glob Properties_C15.v.beautified Properties_C15.required_vo: Properties_C15.v Base.vo Fields.vo SrcFacts.vo Msg.vo SrcDecisions.vo Cache.vo Sim.vo SimProofs.vo Browser.vo BrowserSpec.vo BrowserProofs.vo BrowserInv.vo BrowserBacked.vo BrowserSrv.vo
Properties_C15.vio: Properties_C15.v Base.vio Fields.vio SrcFacts.vio Msg.vio SrcDecisions.vio Cache.vio Sim.vio SimProofs.vio Browser.vio BrowserSpec.vio BrowserProofs.vio BrowserInv.vio BrowserBacked.vio BrowserSrv.vio
Properties_C15.vos Properties_C15.vok Properties_C15.required_vos: Properties_C15.v Base.vos Fields.vos SrcFacts.vos Msg.vos SrcDecisions.vos Cache.vos Sim.vos SimProofs.vos Browser.vos BrowserSpec.vos BrowserProofs.vos BrowserInv.vos BrowserBacked.vos BrowserSrv.vos
Properties_C14.vo Properties_C14.glob Properties_C14.v.beautified Properties_C14.required_vo: Properties_C14.v Base.vo Fields.vo SrcFacts.vo Msg.vo SrcDecisions.vo Cache.vo Sim.vo SimProofs.vo Browser.vo BrowserSpec.vo BrowserProofs.vo BrowserInv.vo
Properties_C14.vio: Properties_C14.v Base.vio Fields.vio SrcFacts.vio Msg.vio SrcDecisions.vio Cache.vio Sim.vio SimProofs.vio Browser.vio BrowserSpec.vio BrowserProofs.vio BrowserInv.vio
Properties_C14.vos Properties_C14.vok Properties_C14.required_vos: Properties_C14.v Base.vos Fields.vos SrcFacts.vos Msg.vos SrcDecisions.vos Cache.vos Sim.vos SimProofs.vos Browser.vos BrowserSpec.vos BrowserProofs.vos BrowserInv.vos
Properties_C13.vo Properties_C13.glob Properties_C13.v.beautified Properties_C13.required_vo: Properties_C13.v Base.vo Fields.vo SrcFacts.vo Msg.vo SrcDecisions.vo Cache.vo CacheSpec.vo Sim.vo Prober.vo Hostname.vo Provider.vo ProviderSpec.vo ProviderProofs.vo ProviderListener.vo ProviderReply.vo
Properties_C13.vio: Properties_C13.v Base.vio Fields.vio SrcFacts.vio Msg.vio SrcDecisions.vio Cache.vio CacheSpec.vio Sim.vio Prober.vio Hostname.vio Provider.vio ProviderSpec.vio ProviderProofs.vio ProviderListener.vio ProviderReply.vio
Properties_C13.vos Properties_C13.vok Properties_C13.required_vos: Properties_C13.v Base.vos Fields.vos SrcFacts.vos Msg.vos SrcDecisions.vos Cache.vos CacheSpec.vos Sim.vos Prober.vos Hostname.vos Provider.vos ProviderSpec.vos ProviderProofs.vos ProviderListener.vos ProviderReply.vos
Properties_C12.vo Properties_C12.glob Properties_C12.v.beautified Properties_C12.required_vo: Properties_C12.v Base.vo Fields.vo SrcFacts.vo Msg.vo SrcDecisions.vo Cache.vo CacheSpec.vo Sim.vo Prober.vo Hostname.vo Provider.vo ProviderSpec.vo ProviderProofs.vo ProviderListener.vo ProviderConverge.vo ProviderTarget.vo SimProofs.vo
Properties_C12.vio: Properties_C12.v Base.vio Fields.vio SrcFacts.vio Msg.vio SrcDecisions.vio Cache.vio CacheSpec.vio Sim.vio Prober.vio Hostname.vio Provider.vio ProviderSpec.vio ProviderProofs.vio ProviderListener.vio ProviderConverge.vio ProviderTarget.vio SimProofs.vio
Properties_C12.vos Properties_C12.vok Properties_C12.required_vos: Properties_C12.v Base.vos Fields.vos SrcFacts.vos Msg.vos SrcDecisions.vos Cache.vos CacheSpec.vos Sim.vos Prober.vos Hostname.vos Provider.vos ProviderSpec.vos ProviderProofs.vos ProviderListener.vos ProviderConverge.vos ProviderTarget.vos SimProofs.vos
Properties_C11.vo Properties_C11.glob Properties_C11.v.beautified Properties_C11.required_vo: Properties_C11.v Base.vo Fields.vo SrcFacts.vo Msg.vo SrcDecisions.vo Sim.vo Prober.vo Hostname.vo Provider.vo ProviderSpec.vo ProviderProofs.vo
Properties_C11.vio: Properties_C11.v Base.vio Fields.vio SrcFacts.vio Msg.vio SrcDecisions.vio Sim.vio Prober.vio Hostname.vio Provider.vio ProviderSpec.vio ProviderProofs.vio
Properties_C11.vos Properties_C11.vok Properties_C11.required_vos: Properties_C11.v Base.vos Fields.vos SrcFacts.vos Msg.vos SrcDecisions.vos Sim.vos Prober.vos Hostname.vos Provider.vos ProviderSpec.vos ProviderProofs.vos
Properties_C10.vo Properties_C10.glob Properties_C10.v.beautified Properties_C10.required_vo: Properties_C10.v Base.vo Fields.vo SrcFacts.vo Msg.vo SrcDecisions.vo Cache.vo CacheSpec.vo Sim.vo Prober.vo Hostname.vo Provider.vo ProviderSpec.vo ProviderProofs.vo ProviderListener.vo ProviderConverge.vo ProviderGoodbye.vo ProviderReply.vo ProviderNames.vo
Properties_C10.vio: Properties_C10.v Base.vio Fields.vio SrcFacts.vio Msg.vio SrcDecisions.vio Cache.vio CacheSpec.vio Sim.vio Prober.vio Hostname.vio Provider.vio ProviderSpec.vio ProviderProofs.vio ProviderListener.vio ProviderConverge.vio ProviderGoodbye.vio ProviderReply.vio ProviderNames.vio
Properties_C10.vos Properties_C10.vok Properties_C10.required_vos: Properties_C10.v Base.vos Fields.vos SrcFacts.vos Msg.vos SrcDecisions.vos Cache.vos CacheSpec.vos Sim.vos Prober.vos Hostname.vos Provider.vos ProviderSpec.vos ProviderProofs.vos ProviderListener.vos ProviderConverge.vos ProviderGoodbye.vos ProviderReply.vos ProviderNames.vos
Properties_C16.vo Properties_C16.glob Properties_C16.v.beautified Properties_C16.required_vo: Properties_C16.v Base.vo Fields.vo SrcFacts.vo Msg.vo SrcDecisions.vo Cache.vo Sim.vo SimProofs.vo Prober.vo Resolver.vo ResolverProofs.vo ResolverInv.vo CacheSpec.vo CacheProofs.vo ResolverAccept.vo ResolverFuel.vo
Properties_C16.vio: Properties_C16.v Base.vio Fields.vio SrcFacts.vio Msg.vio SrcDecisions.vio Cache.vio Sim.vio SimProofs.vio Prober.vio Resolver.vio ResolverProofs.vio ResolverInv.vio CacheSpec.vio CacheProofs.vio ResolverAccept.vio ResolverFuel.vio
Properties_C16.vos Properties_C16.vok Properties_C16.required_vos: Properties_C16.v Base.vos Fields.vos SrcFacts.vos Msg.vos SrcDecisions.vos Cache.vos Sim.vos SimProofs.vos Prober.vos Resolver.vos ResolverProofs.vos ResolverInv.vos CacheSpec.vos CacheProofs.vos ResolverAccept.vos ResolverFuel.vos
Properties_C17.vo Properties_C17.glob Properties_C17.v.beautified Properties_C17.required_vo: Properties_C17.v Base.vo Fields.vo SrcFacts.vo Msg.vo SrcDecisions.vo Sim.vo Hostname.vo HostnameProofs.vo HostnameInv.vo HostnameAccept.vo
Properties_C17.vio: Properties_C17.v Base.vio Fields.vio SrcFacts.vio Msg.vio SrcDecisions.vio Sim.vio Hostname.vio HostnameProofs.vio HostnameInv.vio HostnameAccept.vio
Properties_C17.vos Properties_C17.vok Properties_C17.required_vos: Properties_C17.v Base.vos Fields.vos SrcFacts.vos Msg.vos SrcDecisions.vos Sim.vos Hostname.vos HostnameProofs.vos HostnameInv.vos HostnameAccept.vos
Properties_C08.vo Properties_C08.glob Properties_C08.v.beautified Properties_C08.required_vo: Properties_C08.v Base.vo Fields.vo SrcFacts.vo Msg.vo SrcDecisions.vo Sim.vo Prober.vo Hostname.vo HostnameProofs.vo HostnameInv.vo HostnameAccept.vo
Properties_C08.vio: Properties_C08.v Base.vio Fields.vio SrcFacts.vio Msg.vio SrcDecisions.vio Sim.vio Prober.vio Hostname.vio HostnameProofs.vio HostnameInv.vio HostnameAccept.vio
Properties_C08.vos Properties_C08.vok Properties_C08.required_vos: Properties_C08.v Base.vos Fields.vos SrcFacts.vos Msg.vos SrcDecisions.vos Sim.vos Prober.vos Hostname.vos HostnameProofs.vos HostnameInv.vos HostnameAccept.vos
Properties_C01.vo Properties_C01.glob Properties_C01.v.beautified Properties_C01.required_vo: Properties_C01.v Base.vo Fields.vo SrcFacts.vo Msg.vo Decoder.vo Encoder.vo WireSpec.vo DecoderSafety.vo DecoderComplete.vo EncoderProofs.vo WireMsg.vo DecoderMsg.vo EncoderMsg.vo
Properties_C01.vio: Properties_C01.v Base.vio Fields.vio SrcFacts.vio Msg.vio Decoder.vio Encoder.vio WireSpec.vio DecoderSafety.vio DecoderComplete.vio EncoderProofs.vio WireMsg.vio DecoderMsg.vio EncoderMsg.vio
Properties_C01.vos Properties_C01.vok Properties_C01.required_vos: Properties_C01.v Base.vos Fields.vos SrcFacts.vos Msg.vos Decoder.vos Encoder.vos WireSpec.vos DecoderSafety.vos DecoderComplete.vos EncoderProofs.vos WireMsg.vos DecoderMsg.vos EncoderMsg.vos
Properties_C02.vo Properties_C02.glob Properties_C02.v.beautified Properties_C02.required_vo: Properties_C02.v Base.vo Fields.vo SrcFacts.vo Msg.vo Decoder.vo WireSpec.vo DecoderSafety.vo DecoderComplete.vo WireMsg.vo DecoderMsg.vo
Properties_C02.vio: Properties_C02.v Base.vio Fields.vio SrcFacts.vio Msg.vio Decoder.vio WireSpec.vio DecoderSafety.vio DecoderComplete.vio WireMsg.vio DecoderMsg.vio
Properties_C02.vos Properties_C02.vok Properties_C02.required_vos: Properties_C02.v Base.vos Fields.vos SrcFacts.vos Msg.vos Decoder.vos WireSpec.vos DecoderSafety.vos DecoderComplete.vos WireMsg.vos DecoderMsg.vos
